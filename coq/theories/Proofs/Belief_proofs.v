(* Proofs for Model/Belief.v (C30). *)
From Coq Require Import List ZArith NArith Bool Lia.
Import ListNotations.
Require Import UPV.Core.Expr UPV.Core.Eval UPV.Core.Interp UPV.Planning.Problem UPV.Planning.Sem.
Require Import UPV.Proofs.Eval_lemmas UPV.Proofs.Sem_proofs UPV.Proofs.Step_proofs.
Require Import UPV.Model.Belief.

(* ================================================================== Part 0: breadth-first exploration *)
Section BFS_proofs.
  Context {node : Type}.
  Variable eqb : node -> node -> bool.
  Hypothesis eqb_spec : forall x y, eqb x y = true <-> x = y.
  Variable succs : node -> list node.

  Inductive reachn : nat -> node -> node -> Prop :=
  | reach0 x : reachn 0 x x
  | reachS k x y z : In y (succs x) -> reachn k y z -> reachn (S k) x z.

  Lemma nmem_In x l : nmem eqb x l = true <-> In x l.
  Proof.
    unfold nmem. rewrite existsb_exists. split.
    - intros [y [Hy E]]. apply eqb_spec in E. subst. exact Hy.
    - intros H. exists x. split; [exact H | apply eqb_spec; reflexivity].
  Qed.

  Lemma add_new_spec cands : forall seen new seen' new',
    add_new eqb seen new cands = (seen', new') ->
    (forall x, In x seen' <-> In x seen \/ In x cands) /\
    (forall x, In x new' <-> In x new \/ (In x cands /\ ~ In x seen)).
  Proof.
    induction cands as [|c cs IH]; intros seen new seen' new' H; simpl in H.
    - inversion H; subst. split; intros x; simpl; tauto.
    - destruct (nmem eqb c seen) eqn:E.
      + apply nmem_In in E. destruct (IH _ _ _ _ H) as [A B]. split; intros x.
        * rewrite A. simpl. split; [tauto|]. intros [?|[?|?]]; subst; auto.
        * rewrite B. simpl. split; [tauto|]. intros [?|[[?|?] ?]]; subst; tauto.
      + assert (Hn : ~ In c seen) by (intros Hc; apply nmem_In in Hc; congruence).
        destruct (IH _ _ _ _ H) as [A B]. split; intros x.
        * rewrite A. simpl. tauto.
        * rewrite B. simpl. split.
          -- intros [[Hx|Hx]|[Hx Hx']]; [subst; auto | auto | right; split; [auto|]; intros Hs; apply Hx'; auto].
          -- intros [Hx|[[Hx|Hx] Hx']]; [auto | subst; auto |].
             destruct (eqb c x) eqn:E2.
             ++ apply eqb_spec in E2. subst. auto.
             ++ right. split; [exact Hx|]. intros [Hc|Hc]; [|auto].
                subst. assert (eqb x x = true) by (apply eqb_spec; reflexivity). congruence.
  Qed.

  Definition binv (seen frontier : list node) : Prop :=
    incl frontier seen /\ forall z, In z seen -> ~ In z frontier -> incl (succs z) seen.

  Lemma binv_step seen frontier seen' new :
    binv seen frontier -> add_new eqb seen [] (flat_map succs frontier) = (seen', new) ->
    binv seen' new /\ incl seen seen' /\ (forall x, In x frontier -> incl (succs x) seen').
  Proof.
    intros [Hf Hc] H. destruct (add_new_spec _ _ _ _ _ H) as [A B].
    assert (Hinc : incl seen seen') by (intros x Hx; apply A; auto).
    assert (Hfr : forall x, In x frontier -> incl (succs x) seen').
    { intros x Hx y Hy. apply A. right. apply in_flat_map. exists x. auto. }
    split; [|split; assumption]. split.
    - intros x Hx. apply B in Hx. destruct Hx as [[]|[Hx _]]. apply A. auto.
    - intros z Hz Hnz. destruct (nmem eqb z seen) eqn:Es.
      + apply nmem_In in Es. destruct (nmem eqb z frontier) eqn:E.
        * apply nmem_In in E. apply Hfr, E.
        * intros y Hy. apply Hinc. apply (Hc z Es); [|exact Hy]. intros Hc'. apply nmem_In in Hc'. congruence.
      + assert (Hns : ~ In z seen) by (intros Hc'; apply nmem_In in Hc'; congruence).
        exfalso. apply Hnz. apply B. right. split; [|exact Hns].
        apply A in Hz. tauto.
  Qed.

  Lemma bfs_mono n : forall seen frontier, incl seen (bfs eqb succs n seen frontier).
  Proof.
    induction n as [|n IH]; intros seen frontier; simpl; [apply incl_refl|].
    destruct (add_new eqb seen [] (flat_map succs frontier)) as [seen' new] eqn:E.
    destruct (add_new_spec _ _ _ _ _ E) as [A _].
    intros x Hx. apply IH. apply A. auto.
  Qed.

  (* after n rounds every node reachable from a seen node in at most n steps has been seen *)
  Lemma bfs_complete n : forall seen frontier, binv seen frontier ->
    forall k x y, In x seen -> k <= n -> reachn k x y -> In y (bfs eqb succs n seen frontier).
  Proof.
    induction n as [|n IHn]; intros seen frontier Hinv k x y Hx Hk Hr.
    - assert (k = 0) by lia. subst. inversion Hr; subst. exact Hx.
    - simpl. destruct (add_new eqb seen [] (flat_map succs frontier)) as [seen' new] eqn:E.
      destruct (binv_step _ _ _ _ Hinv E) as [Hinv' [Hinc Hfr]].
      revert x Hx Hk Hr. induction k as [|k IHk]; intros x Hx Hk Hr.
      + inversion Hr; subst. apply bfs_mono, Hinc, Hx.
      + inversion Hr as [|k' x' p1 y' Hp1 Hr']; subst.
        destruct (nmem eqb x frontier) eqn:Ef.
        * apply nmem_In in Ef. apply (IHn seen' new Hinv' k p1 y); [apply (Hfr x Ef), Hp1 | lia | exact Hr'].
        * apply (IHk p1); [|lia|exact Hr'].
          destruct Hinv as [_ Hc]. apply (Hc x Hx); [|exact Hp1]. intros Hc'. apply nmem_In in Hc'. congruence.
  Qed.

  Lemma binv_init x0 : binv [x0] [x0].
  Proof. split; [apply incl_refl|]. intros z Hz Hn. contradiction. Qed.

  Lemma bfs_complete0 n x0 k y : k <= n -> reachn k x0 y -> In y (bfs eqb succs n [x0] [x0]).
  Proof. intros Hk Hr. apply (bfs_complete n _ _ (binv_init x0) k x0 y); simpl; auto. Qed.

  (* a closed set contains everything reachable from its members *)
  Lemma closedb_reach V : closedb eqb succs V = true -> forall k x y, In x V -> reachn k x y -> In y V.
  Proof.
    intros Hc k x y Hx Hr. induction Hr as [|k x p1 y Hp1 Hr IH]; [exact Hx|].
    apply IH. unfold closedb in Hc. rewrite forallb_forall in Hc. specialize (Hc x Hx).
    rewrite forallb_forall in Hc. apply nmem_In, Hc, Hp1.
  Qed.

  (* every node found is reachable within the number of rounds *)
  Lemma bfs_sound n : forall seen frontier y, incl frontier seen -> In y (bfs eqb succs n seen frontier) ->
    In y seen \/ exists x k, In x frontier /\ k <= n /\ reachn k x y.
  Proof.
    induction n as [|n IH]; intros seen frontier y Hf Hy; simpl in Hy; [auto|].
    destruct (add_new eqb seen [] (flat_map succs frontier)) as [seen' new] eqn:E.
    destruct (add_new_spec _ _ _ _ _ E) as [A B].
    assert (Hn : incl new seen').
    { intros x Hx. apply B in Hx. destruct Hx as [[]|[Hx _]]. apply A. auto. }
    destruct (IH seen' new y Hn Hy) as [Hs|[x [k [Hx [Hk Hr]]]]].
    - apply A in Hs. destruct Hs as [Hs|Hs]; [auto|]. right.
      apply in_flat_map in Hs. destruct Hs as [x [Hx Hxy]].
      exists x, 1. split; [exact Hx|]. split; [lia|]. eapply reachS; [exact Hxy | apply reach0].
    - right. apply B in Hx. destruct Hx as [[]|[Hx _]]. apply in_flat_map in Hx. destruct Hx as [x0 [Hx0 Hx0x]].
      exists x0, (S k). split; [exact Hx0|]. split; [lia|]. eapply reachS; eauto.
  Qed.
End BFS_proofs.

(* ================================================================== Part 1: finite states *)
Lemma kstate_eq_refl s : state_eq s s.
Proof. intros f a; reflexivity. Qed.
Lemma kstate_eq_sym s t : state_eq s t -> state_eq t s.
Proof. intros H f a; symmetry; apply H. Qed.
Lemma kstate_eq_trans s t u : state_eq s t -> state_eq t u -> state_eq s u.
Proof. intros H1 H2 f a; rewrite H1; apply H2. Qed.

Lemma kspec_fluent_ext P s t acts k : state_eq s t -> spec_fluent P s acts k = spec_fluent P t acts k.
Proof. intros H. unfold spec_fluent. rewrite (H (fst k) (snd k)). reflexivity. Qed.

Lemma kspec_effects_ok_ext P s t acts : state_eq s t -> spec_effects_ok P s acts = spec_effects_ok P t acts.
Proof.
  intros H. unfold spec_effects_ok. generalize acts at 2 4. intros l.
  induction l as [|a l IH]; simpl; [reflexivity|]. rewrite (kspec_fluent_ext P s t acts _ H), IH. reflexivity.
Qed.

Lemma kspec_succ_ext P s t acts : state_eq s t -> state_eq (spec_succ P s acts) (spec_succ P t acts).
Proof. intros H f a. unfold spec_succ. rewrite (kspec_fluent_ext P s t acts _ H), (H f a). reflexivity. Qed.

Lemma kspec_step_ext sc P s t a args :
  state_eq s t -> ostate_eq (spec_step sc P s a args) (spec_step sc P t a args).
Proof.
  intros H. unfold spec_step.
  pose proof (mk_interp_ext P s t (zip_params (a_params a) args) H) as HI.
  rewrite (all_hold_ext sc _ _ (a_pre a) HI), (fired_ext sc (a_effs a) _ _ HI).
  destruct (negb (all_hold sc (mk_interp P t (zip_params (a_params a) args)) (a_pre a))); [exact I|].
  destruct (fired sc (mk_interp P t (zip_params (a_params a) args)) (a_effs a)) as [acts|]; [|exact I].
  rewrite (kspec_effects_ok_ext P s t acts H).
  destruct (negb (spec_effects_ok P t acts)); [exact I|].
  rewrite (invariants_ok_ext sc P _ _ (kspec_succ_ext P s t acts H)).
  destruct (invariants_ok sc P (spec_succ P t acts)); [|exact I].
  apply kspec_succ_ext, H.
Qed.

Lemma kgoals_hold_ext sc P s t : state_eq s t -> goals_hold sc P s = goals_hold sc P t.
Proof. intros H. unfold goals_hold. apply all_hold_ext, mk_interp_ext, H. Qed.

Lemma sstep_ext P s t st : state_eq s t -> ostate_eq (sstep P s st) (sstep P t st).
Proof. intros H. unfold sstep. destruct (lookup_action P (fst st)); [apply kspec_step_ext, H | exact I]. Qed.

Definition supported (K : list gfl) (s : state) : Prop := forall f a, amem (f, a) K = false -> s f a = None.

Lemma fst_of_tab K s f a : fst_of (tab K s) f a = if amem (f, a) K then s f a else None.
Proof.
  unfold fst_of. induction K as [|[g b] K IH]; simpl; [reflexivity|].
  unfold gfl_eqb at 1. simpl.
  destruct (s g b) as [v|] eqn:Es; simpl.
  - destruct ((f =? g)%N && values_eqb a b) eqn:E; simpl.
    + apply andb_true_iff in E. destruct E as [E1 E2]. apply N.eqb_eq in E1. apply values_eqb_eq in E2. subst.
      rewrite Es. reflexivity.
    + exact IH.
  - destruct ((f =? g)%N && values_eqb a b) eqn:E; simpl.
    + apply andb_true_iff in E. destruct E as [E1 E2]. apply N.eqb_eq in E1. apply values_eqb_eq in E2. subst.
      rewrite IH, Es. destruct (amem (g, b) K); reflexivity.
    + exact IH.
Qed.

Lemma supported_tab K s : supported K (fst_of (tab K s)).
Proof. intros f a H. rewrite fst_of_tab, H. reflexivity. Qed.

Lemma tab_roundtrip K s : supported K s -> state_eq (fst_of (tab K s)) s.
Proof.
  intros H f a. rewrite fst_of_tab. destruct (amem (f, a) K) eqn:E; [reflexivity|]. symmetry. apply H, E.
Qed.

Lemma tab_ext K s t : state_eq s t -> tab K s = tab K t.
Proof.
  intros H. unfold tab. induction K as [|k K IH]; simpl; [reflexivity|]. rewrite (H (fst k) (snd k)), IH. reflexivity.
Qed.

Lemma keys_in_supported K l : keys_in K l = true -> supported K (fst_of l).
Proof.
  intros H f a Hm. unfold fst_of. induction l as [|[[g b] v] l IH]; simpl; [reflexivity|].
  simpl in H. apply andb_true_iff in H. destruct H as [H1 H2].
  destruct ((f =? g)%N && values_eqb a b) eqn:E.
  - apply andb_true_iff in E. destruct E as [E1 E2]. apply N.eqb_eq in E1. apply values_eqb_eq in E2. subst.
    simpl in H1. congruence.
  - apply IH, H2.
Qed.

Lemma amem_In k l : amem k l = true <-> In k l.
Proof.
  unfold amem. rewrite existsb_exists. split.
  - intros [y [Hy E]]. apply gfl_eqb_eq in E. subst. exact Hy.
  - intros H. exists k. split; [exact H | apply gfl_eqb_refl].
Qed.

Lemma spec_succ_supported K P s acts :
  supported K s -> forallb (fun x => amem (ae_key x) K) acts = true -> supported K (spec_succ P s acts).
Proof.
  intros Hs Hw f a Hm. unfold spec_succ, spec_fluent.
  assert (Hnone : forall (g : aeff -> bool), filter (fun x => gfl_eqb (ae_key x) (f, a) && g x) acts = []).
  { intros g. rewrite forallb_forall in Hw. induction acts as [|x acts IH]; simpl; [reflexivity|].
    destruct (gfl_eqb (ae_key x) (f, a)) eqn:E; simpl.
    - apply gfl_eqb_eq in E. specialize (Hw x (or_introl eq_refl)). rewrite E in Hw. congruence.
    - apply IH. intros y Hy. apply Hw. right. exact Hy. }
  unfold avals, deltas. rewrite (Hnone is_assign), (Hnone (fun x => negb (is_assign x))). simpl.
  apply Hs, Hm.
Qed.

Lemma spec_step_succ sc P s a args s' :
  spec_step sc P s a args = Some s' ->
  exists acts, fired sc (mk_interp P s (zip_params (a_params a) args)) (a_effs a) = Some acts /\ s' = spec_succ P s acts.
Proof.
  unfold spec_step. intros H.
  destruct (negb (all_hold sc (mk_interp P s (zip_params (a_params a) args)) (a_pre a))); [discriminate|].
  destruct (fired sc (mk_interp P s (zip_params (a_params a) args)) (a_effs a)) as [acts|]; [|discriminate].
  destruct (negb (spec_effects_ok P s acts)); [discriminate|].
  destruct (invariants_ok sc P (spec_succ P s acts)); [|discriminate].
  inversion H. exists acts. auto.
Qed.

Lemma fstep_some K P l a args l' :
  supported K (fst_of l) -> fstep K P l a args = FSome l' ->
  exists s', spec_step false P (fst_of l) a args = Some s' /\ state_eq (fst_of l') s' /\ l' = tab K s'.
Proof.
  intros Hs H. unfold fstep in H.
  destruct (fired false (mk_interp P (fst_of l) (zip_params (a_params a) args)) (a_effs a)) as [acts|] eqn:Ef; [|discriminate].
  destruct (forallb (fun x => amem (ae_key x) K) acts) eqn:Ew; [|discriminate].
  destruct (spec_step false P (fst_of l) a args) as [s'|] eqn:Es; [|discriminate].
  inversion H; subst. exists s'. split; [reflexivity|]. split; [|reflexivity].
  apply tab_roundtrip. destruct (spec_step_succ _ _ _ _ _ _ Es) as [acts' [Ef' ->]].
  rewrite Ef in Ef'. inversion Ef'; subst. apply spec_succ_supported; assumption.
Qed.

Lemma fstep_none K P l a args : fstep K P l a args = FNone -> spec_step false P (fst_of l) a args = None.
Proof.
  intros H. unfold fstep in H.
  destruct (fired false (mk_interp P (fst_of l) (zip_params (a_params a) args)) (a_effs a)) as [acts|] eqn:Ef.
  - destruct (forallb (fun x => amem (ae_key x) K) acts); [|discriminate].
    destruct (spec_step false P (fst_of l) a args); [discriminate | reflexivity].
  - unfold spec_step. rewrite Ef. destruct (negb _); reflexivity.
Qed.

Lemma value_eqb_refl' v : value_eqb v v = true.
Proof. apply value_eqb_eq. reflexivity. Qed.

Lemma fstate_eqb_eq a : forall b, fstate_eqb a b = true <-> a = b.
Proof.
  induction a as [|[[f x] v] a IH]; intros [|[[g y] w] b]; simpl; try (split; [discriminate | intros H; discriminate H]); [tauto|].
  unfold entry_eqb. simpl. rewrite !andb_true_iff, gfl_eqb_eq, value_eqb_eq, IH.
  split; [intros [[E ->] ->]; inversion E; reflexivity | intros H; inversion H; auto].
Qed.

Lemma belief_eqb_eq a : forall b, belief_eqb a b = true <-> a = b.
Proof.
  induction a as [|x a IH]; intros [|y b]; simpl; try (split; [discriminate | intros H; discriminate H]); [tauto|].
  rewrite andb_true_iff, fstate_eqb_eq, IH. split; [intros [-> ->]; reflexivity | intros H; inversion H; auto].
Qed.

Lemma bnode_eqb_eq (a b : bnode) : bnode_eqb a b = true <-> a = b.
Proof.
  destruct a as [x|], b as [y|]; simpl; try (split; [discriminate | intros H; discriminate H]); [|tauto].
  rewrite belief_eqb_eq. split; [intros ->; reflexivity | intros H; inversion H; auto].
Qed.

Lemma cnode_eqb_eq (a b : cnode) : cnode_eqb a b = true <-> a = b.
Proof.
  destruct a as [x|], b as [y|]; simpl; try (split; [discriminate | intros H; discriminate H]); [|tauto].
  rewrite fstate_eqb_eq. split; [intros ->; reflexivity | intros H; inversion H; auto].
Qed.

Lemma pnode_eqb_eq (a b : pnode) : pnode_eqb a b = true <-> a = b.
Proof.
  destruct a as [[c1 o1]|], b as [[c2 o2]|]; simpl; try (split; [discriminate | intros H; discriminate H]); [|tauto].
  rewrite andb_true_iff, fstate_eqb_eq.
  destruct o1 as [x|], o2 as [y|]; simpl; try (split; [intros [_ H]; discriminate | intros H; discriminate H]).
  - rewrite belief_eqb_eq. split; [intros [-> ->]; reflexivity | intros H; inversion H; auto].
  - split; [intros [-> _]; reflexivity | intros H; inversion H; auto].
Qed.

(* ================================================================== Part 2: belief semantics *)
Definition plan_over (insts : list step_id) (pi : plan) : Prop := Forall (fun st => In st insts) pi.

Lemma valid_plan_cons P s st pi :
  valid_plan false P s (st :: pi) = match sstep P s st with Some s' => valid_plan false P s' pi | None => false end.
Proof.
  unfold valid_plan, sstep. destruct st as [aid args]. simpl.
  destruct (lookup_action P aid) as [a|]; [|reflexivity].
  destruct (spec_step false P s a args); reflexivity.
Qed.

Lemma forallb_map_opt {A B} (f : A -> option B) (g : B -> bool) l :
  forallb (fun x => match f x with Some y => g y | None => false end) l
  = match map_opt f l with Some r => forallb g r | None => false end.
Proof.
  induction l as [|x l IH]; simpl; [reflexivity|]. rewrite IH.
  destruct (f x) as [y|]; [|reflexivity]. destruct (map_opt f l); simpl; [reflexivity | apply andb_false_r].
Qed.

Lemma kforallb_ext {A} (f g : A -> bool) l : (forall x, f x = g x) -> forallb f l = forallb g l.
Proof. intros H. induction l as [|x l IH]; simpl; [reflexivity|]. rewrite H, IH. reflexivity. Qed.

Lemma conformant_check_forallb P pi : forall b,
  conformant_check P b pi = forallb (fun s => valid_plan false P s pi) b.
Proof.
  induction pi as [|st pi IH]; intros b.
  - reflexivity.
  - unfold conformant_check. cbn [brun]. unfold bstep.
    rewrite (kforallb_ext (fun s => valid_plan false P s (st :: pi))
               (fun s => match sstep P s st with Some s' => valid_plan false P s' pi | None => false end) b
               (fun s => valid_plan_cons P s st pi)).
    rewrite (forallb_map_opt (fun s => sstep P s st) (fun s' => valid_plan false P s' pi)).
    destruct (map_opt (fun s => sstep P s st) b) as [b'|]; [|reflexivity].
    rewrite <- IH. reflexivity.
Qed.

(* a plan passes [conformant_check] iff it is valid (executable and goal-reaching) from every possible initial state *)
Theorem conformant_check_correct P inits pi :
  conformant_check P inits pi = true <-> forall s, In s inits -> valid_plan false P s pi = true.
Proof. rewrite conformant_check_forallb, forallb_forall. tauto. Qed.

(* ---- tabulated states simulate function states *)
Definition frel (K : list gfl) (l : fstate) (s : state) : Prop := state_eq (fst_of l) s /\ supported K (fst_of l).

Lemma frel_tab K s : supported K s -> frel K (tab K s) s.
Proof. intros H. split; [apply tab_roundtrip, H | apply supported_tab]. Qed.

Lemma frel_init K l : keys_in K l = true -> frel K (tab K (fst_of l)) (fst_of l).
Proof. intros H. apply frel_tab, keys_in_supported, H. Qed.

Lemma fstep_sim K P l s a args : frel K l s ->
  match fstep K P l a args with
  | FErr => True
  | FNone => spec_step false P s a args = None
  | FSome l' => exists s', spec_step false P s a args = Some s' /\ frel K l' s'
  end.
Proof.
  intros [He Hs]. pose proof (kspec_step_ext false P (fst_of l) s a args He) as Hx.
  destruct (fstep K P l a args) as [| |l'] eqn:E; [exact I| |].
  - rewrite (fstep_none _ _ _ _ _ E) in Hx. destruct (spec_step false P s a args); [contradiction | reflexivity].
  - destruct (fstep_some _ _ _ _ _ _ Hs E) as [s1 [E1 [E2 E3]]]. rewrite E1 in Hx.
    destruct (spec_step false P s a args) as [s2|]; [|contradiction].
    exists s2. split; [reflexivity|]. split.
    + eapply kstate_eq_trans; [exact E2 | exact Hx].
    + subst l'. apply supported_tab.
Qed.

Lemma fmap_step_sim K P a args : forall b bs, Forall2 (frel K) b bs ->
  match fmap_step K P a args b with
  | BErr => True
  | BNone => map_opt (fun s => spec_step false P s a args) bs = None
  | BSome b' => exists bs', map_opt (fun s => spec_step false P s a args) bs = Some bs' /\ Forall2 (frel K) b' bs'
  end.
Proof.
  intros b bs H. induction H as [|l s b bs Hl Hb IH]; simpl.
  - exists []. split; [reflexivity | constructor].
  - pose proof (fstep_sim K P l s a args Hl) as Hx.
    destruct (fstep K P l a args) as [| |l'].
    + exact I.
    + destruct (fmap_step K P a args b); [exact I | |]; rewrite Hx; reflexivity.
    + destruct Hx as [s' [Es Hr]]. destruct (fmap_step K P a args b) as [| |b'].
      * exact I.
      * rewrite Es, IH. reflexivity.
      * destruct IH as [bs' [Eb Hb']]. exists (s' :: bs'). rewrite Es, Eb. split; [reflexivity | constructor; assumption].
Qed.

Lemma bgoal_rel K P b bs : Forall2 (frel K) b bs -> bgoalF P b = bgoal P bs.
Proof.
  intros H. unfold bgoalF, bgoal. induction H as [|l s b bs [Hl _] Hb IH]; simpl; [reflexivity|].
  unfold fgoal at 1. rewrite (kgoals_hold_ext false P _ _ Hl), IH. reflexivity.
Qed.

Lemma map_opt_sstep P st a bs : lookup_action P (fst st) = Some a ->
  map_opt (fun s => sstep P s st) bs = map_opt (fun s => spec_step false P s a (snd st)) bs.
Proof. intros E. induction bs as [|s bs IH]; simpl; [reflexivity|]. unfold sstep at 1. rewrite E, IH. reflexivity. Qed.

(* a conformant plan traces a path of the belief graph to a goal node (or runs into the "outside the model" node) *)
Lemma belief_path K P insts : forall pi b bs,
  Forall2 (frel K) b bs -> plan_over insts pi -> conformant_check P bs pi = true ->
  (exists k, k <= length pi /\ reachn (bsuccs K P insts) k (Some b) None)
  \/ (exists k bg, k <= length pi /\ reachn (bsuccs K P insts) k (Some b) (Some bg) /\ bgoalF P bg = true).
Proof.
  induction pi as [|st pi IH]; intros b bs Hrel Hover Hc.
  - right. exists 0, b. split; [simpl; lia|]. split; [constructor|].
    rewrite (bgoal_rel K P b bs Hrel). exact Hc.
  - inversion Hover as [|? ? Hin Hover']; subst.
    unfold conformant_check in Hc. simpl in Hc.
    destruct (bstep P bs st) as [bs'|] eqn:Eb; [|discriminate].
    destruct Hrel as [|l s b bs Hl Hb].
    + right. exists 0, []. split; [simpl; lia|]. split; [constructor | reflexivity].
    + assert (Ha : exists a, lookup_action P (fst st) = Some a).
      { unfold bstep in Eb. simpl in Eb. unfold sstep at 1 in Eb.
        destruct (lookup_action P (fst st)) as [a|]; [exists a; reflexivity | discriminate]. }
      destruct Ha as [a Ea]. unfold bstep in Eb. rewrite (map_opt_sstep P st a _ Ea) in Eb.
      pose proof (fmap_step_sim K P a (snd st) (l :: b) (s :: bs) (Forall2_cons _ _ Hl Hb)) as Hx.
      assert (Hsucc : forall y, bsucc1 K P (l :: b) st = [y] -> In y (bsuccs K P insts (Some (l :: b)))).
      { intros y Ey. simpl. apply in_flat_map. exists st. split; [exact Hin|]. rewrite Ey. left. reflexivity. }
      destruct (fmap_step K P a (snd st) (l :: b)) as [| |b'] eqn:Ef.
      * left. exists 1. split; [simpl; lia|].
        eapply reachS; [apply Hsucc; unfold bsucc1; rewrite Ea, Ef; reflexivity | constructor].
      * rewrite Hx in Eb. discriminate.
      * destruct Hx as [bs2 [E2 Hrel2]]. rewrite E2 in Eb. inversion Eb; subst bs2.
        assert (Hy : In (Some b') (bsuccs K P insts (Some (l :: b)))).
        { apply Hsucc. unfold bsucc1. rewrite Ea, Ef. reflexivity. }
        destruct (IH b' bs' Hrel2 Hover' Hc) as [[k [Hk Hr]]|[k [bg [Hk [Hr Hg]]]]].
        -- left. exists (S k). split; [simpl; lia|]. eapply reachS; eauto.
        -- right. exists (S k), bg. split; [simpl; lia|]. split; [eapply reachS; eauto | exact Hg].
Qed.

Lemma init_rel K inits : forallb (keys_in K) inits = true ->
  Forall2 (frel K) (map (fun l => tab K (fst_of l)) inits) (map fst_of inits).
Proof.
  intros H. induction inits as [|l inits IH]; simpl; [constructor|].
  simpl in H. apply andb_true_iff in H. destruct H as [H1 H2].
  constructor; [apply frel_init, H1 | apply IH, H2].
Qed.

(* the bounded search is exhaustive: when it answers "no", no plan over the instances of length <= n is conformant *)
Theorem exists_conformant_plan_complete K P insts inits n :
  exists_conformant_plan K P insts inits n = Some false ->
  forall pi, plan_over insts pi -> length pi <= n -> conformant_check P (map fst_of inits) pi = false.
Proof.
  unfold exists_conformant_plan. intros H pi Hover Hlen.
  destruct (forallb (keys_in K) inits) eqn:Eg; simpl in H; [|discriminate].
  destruct (existsb is_none (belief_nodes K P insts inits n)) eqn:En; [discriminate|].
  injection H as Hex.
  destruct (conformant_check P (map fst_of inits) pi) eqn:Ec; [|reflexivity]. exfalso.
  destruct (belief_path K P insts pi _ _ (init_rel K inits Eg) Hover Ec) as [[k [Hk Hr]]|[k [bg [Hk [Hr Hg]]]]].
  - assert (Hin : In None (belief_nodes K P insts inits n)).
    { unfold belief_nodes. apply (bfs_complete0 bnode_eqb bnode_eqb_eq _ n _ k); [lia | exact Hr]. }
    assert (existsb is_none (belief_nodes K P insts inits n) = true).
    { apply existsb_exists. exists None. split; [exact Hin | reflexivity]. }
    congruence.
  - assert (Hin : In (Some bg) (belief_nodes K P insts inits n)).
    { unfold belief_nodes. apply (bfs_complete0 bnode_eqb bnode_eqb_eq _ n _ k); [lia | exact Hr]. }
    assert (existsb (fun x => match x with Some b => bgoalF P b | None => false end) (belief_nodes K P insts inits n) = true).
    { apply existsb_exists. exists (Some bg). split; [exact Hin | exact Hg]. }
    congruence.
Qed.

(* ================================================================== Part 3: translation validation *)
Lemma run_cons P s st pi :
  run P (spec_step false P) s (st :: pi)
  = match sstep P s st with Some s' => run P (spec_step false P) s' pi | None => None end.
Proof.
  unfold sstep. destruct st as [aid args]. simpl.
  destruct (lookup_action P aid) as [a|]; [|reflexivity]. destruct (spec_step false P s a args); reflexivity.
Qed.

(* ---- the classical problem alone *)
Lemma classical_path K P acts : forall pi l s sfin,
  frel K l s -> plan_over acts pi -> run P (spec_step false P) s pi = Some sfin ->
  (exists k, k <= length pi /\ reachn (csuccs K P acts) k (Some l) None)
  \/ (exists k lf, k <= length pi /\ reachn (csuccs K P acts) k (Some l) (Some lf) /\ frel K lf sfin).
Proof.
  induction pi as [|st pi IH]; intros l s sfin Hrel Hover Hrun.
  - simpl in Hrun. inversion Hrun; subst. right. exists 0, l. split; [simpl; lia|]. split; [constructor | exact Hrel].
  - inversion Hover as [|? ? Hin Hover']; subst.
    rewrite run_cons in Hrun. unfold sstep in Hrun.
    destruct (lookup_action P (fst st)) as [a|] eqn:Ea; [|discriminate].
    destruct (spec_step false P s a (snd st)) as [s1|] eqn:Es; [|discriminate].
    pose proof (fstep_sim K P l s a (snd st) Hrel) as Hx.
    assert (Hsucc : forall y, csucc1 K P l st = [y] -> In y (csuccs K P acts (Some l))).
    { intros y Ey. simpl. apply in_flat_map. exists st. split; [exact Hin|]. rewrite Ey. left. reflexivity. }
    destruct (fstep K P l a (snd st)) as [| |l'] eqn:Ef.
    + left. exists 1. split; [simpl; lia|].
      eapply reachS; [apply Hsucc; unfold csucc1; rewrite Ea, Ef; reflexivity | constructor].
    + congruence.
    + destruct Hx as [s1' [Es' Hrel']]. rewrite Es in Es'. inversion Es'; subst s1'.
      assert (Hy : In (Some l') (csuccs K P acts (Some l))).
      { apply Hsucc. unfold csucc1. rewrite Ea, Ef. reflexivity. }
      destruct (IH l' s1 sfin Hrel' Hover' Hrun) as [[k [Hk Hr]]|[k [lf [Hk [Hr Hf]]]]].
      * left. exists (S k). split; [simpl; lia|]. eapply reachS; eauto.
      * right. exists (S k), lf. split; [simpl; lia|]. split; [eapply reachS; eauto | exact Hf].
Qed.

(* when the explored set is closed and has no goal state, NO plan (of any length) over the actions is valid *)
Theorem unsolvable_closed_correct K P acts c0 n :
  unsolvable_closed K P acts c0 n = true ->
  forall pi, plan_over acts pi -> valid_plan false P (fst_of c0) pi = false.
Proof.
  unfold unsolvable_closed. intros H pi Hover.
  apply andb_true_iff in H. destruct H as [H Hgoal]. apply andb_true_iff in H. destruct H as [Hk Hclosed].
  unfold valid_plan. destruct (run P (spec_step false P) (fst_of c0) pi) as [sfin|] eqn:Er; [|reflexivity].
  set (V := classical_nodes K P acts c0 n) in *.
  assert (Hx0 : In (Some (tab K (fst_of c0))) V).
  { unfold V, classical_nodes. apply (bfs_mono cnode_eqb cnode_eqb_eq). left. reflexivity. }
  rewrite forallb_forall in Hgoal.
  destruct (classical_path K P acts pi _ _ sfin (frel_init K c0 Hk) Hover Er) as [[k [_ Hr]]|[k [lf [_ [Hr Hf]]]]].
  - pose proof (closedb_reach cnode_eqb cnode_eqb_eq _ V Hclosed k _ _ Hx0 Hr) as Hin.
    specialize (Hgoal None Hin). discriminate.
  - pose proof (closedb_reach cnode_eqb cnode_eqb_eq _ V Hclosed k _ _ Hx0 Hr) as Hin.
    specialize (Hgoal (Some lf) Hin). simpl in Hgoal. unfold fgoal in Hgoal.
    destruct Hf as [Hf _]. rewrite (kgoals_hold_ext false P _ _ Hf) in Hgoal.
    destruct (goals_hold false P sfin); [discriminate | reflexivity].
Qed.

(* ---- the product *)
Definition obrun (P : problem) (obs : option (list state)) (pi : plan) : option (list state) :=
  match obs with Some bs => brun P bs pi | None => None end.

(* the checker's belief component may be None at any time (that only makes [pgood] harder to satisfy) *)
Definition obrel (KO : list gfl) (ob : option (list fstate)) (obs : option (list state)) : Prop :=
  match ob with
  | None => True
  | Some b => exists bs, obs = Some bs /\ Forall2 (frel KO) b bs
  end.

Section ProductProofs.
  Variables (KC : list gfl) (CP : problem) (KO : list gfl) (P : problem) (back : back_table) (cacts : list step_id).

  Lemma map_back_cons st pi :
    map_back back (st :: pi) = match blookup st back with Some (Some o) => [o] | _ => [] end ++ map_back back pi.
  Proof. reflexivity. Qed.

  Definition ostep (obs : option (list state)) (o : step_id) : option (list state) :=
    match obs with Some bs => bstep P bs o | None => None end.

  Lemma obrun_cons obs o pi : obrun P obs (o :: pi) = obrun P (ostep obs o) pi.
  Proof. destruct obs as [bs|]; simpl; [|reflexivity]. destruct (bstep P bs o); reflexivity. Qed.

  Lemma oadvance_sim ob obs st pi :
    obrel KO ob obs ->
    match oadvance KO P back ob st with
    | None => True
    | Some ob' => exists obs', obrel KO ob' obs' /\ obrun P obs (map_back back (st :: pi)) = obrun P obs' (map_back back pi)
    end.
  Proof.
    intros Hrel. unfold oadvance. rewrite map_back_cons.
    destruct (blookup st back) as [[ost|]|]; cbn [app].
    2,3: exists obs; split; [exact Hrel | reflexivity].
    rewrite obrun_cons.
    destruct ob as [b|]; [|exists (ostep obs ost); split; [exact I | reflexivity]].
    destruct Hrel as [bs [-> Hb]].
    destruct (lookup_action P (fst ost)) as [oa|] eqn:Ea;
      [|exists (ostep (Some bs) ost); split; [exact I | reflexivity]].
    pose proof (fmap_step_sim KO P oa (snd ost) b bs Hb) as Hx.
    destruct (fmap_step KO P oa (snd ost) b) as [| |b']; [exact I | |].
    - exists (ostep (Some bs) ost); split; [exact I | reflexivity].
    - destruct Hx as [bs' [E Hb']]. exists (Some bs'). split; [exists bs'; auto|].
      simpl. unfold bstep. rewrite (map_opt_sstep P ost oa bs Ea), E. reflexivity.
  Qed.

  (* a run of the compiled problem traces a path of the product graph *)
  Lemma product_path : forall pi cl s ob obs sfin,
    frel KC cl s -> obrel KO ob obs -> plan_over cacts pi -> run CP (spec_step false CP) s pi = Some sfin ->
    (exists k, k <= length pi /\ reachn (psuccs KC CP KO P back cacts) k (Some (cl, ob)) None)
    \/ (exists k clf obf obsf, k <= length pi /\ reachn (psuccs KC CP KO P back cacts) k (Some (cl, ob)) (Some (clf, obf))
          /\ frel KC clf sfin /\ obrel KO obf obsf /\ obrun P obs (map_back back pi) = obrun P obsf []).
  Proof.
    induction pi as [|st pi IH]; intros cl s ob obs sfin Hrel Horel Hover Hrun.
    - simpl in Hrun. inversion Hrun; subst. right. exists 0, cl, ob, obs.
      split; [simpl; lia|]. split; [constructor|]. split; [exact Hrel|]. split; [exact Horel | reflexivity].
    - inversion Hover as [|? ? Hin Hover']; subst.
      rewrite run_cons in Hrun. unfold sstep in Hrun.
      destruct (lookup_action CP (fst st)) as [a|] eqn:Ea; [|discriminate].
      destruct (spec_step false CP s a (snd st)) as [s1|] eqn:Es; [|discriminate].
      pose proof (fstep_sim KC CP cl s a (snd st) Hrel) as Hx.
      assert (Hsucc : forall y, psucc1 KC CP KO P back cl ob st = [y] -> In y (psuccs KC CP KO P back cacts (Some (cl, ob)))).
      { intros y Ey. simpl. apply in_flat_map. exists st. split; [exact Hin|]. rewrite Ey. left. reflexivity. }
      destruct (fstep KC CP cl a (snd st)) as [| |cl'] eqn:Ef.
      + left. exists 1. split; [simpl; lia|].
        eapply reachS; [apply Hsucc; unfold psucc1; rewrite Ea, Ef; reflexivity | constructor].
      + congruence.
      + destruct Hx as [s1' [Es' Hrel']]. rewrite Es in Es'. inversion Es'; subst s1'.
        pose proof (oadvance_sim ob obs st pi Horel) as Ho.
        destruct (oadvance KO P back ob st) as [ob'|] eqn:Eo.
        * destruct Ho as [obs' [Horel' Eobs]].
          assert (Hy : In (Some (cl', ob')) (psuccs KC CP KO P back cacts (Some (cl, ob)))).
          { apply Hsucc. unfold psucc1. rewrite Ea, Ef, Eo. reflexivity. }
          destruct (IH cl' s1 ob' obs' sfin Hrel' Horel' Hover' Hrun)
            as [[k [Hk Hr]]|[k [clf [obf [obsf [Hk [Hr [Hf [Hof Hrunf]]]]]]]]].
          -- left. exists (S k). split; [simpl; lia|]. eapply reachS; eauto.
          -- right. exists (S k), clf, obf, obsf. split; [simpl; lia|]. split; [eapply reachS; eauto|].
             split; [exact Hf|]. split; [exact Hof|]. rewrite Eobs. exact Hrunf.
        * left. exists 1. split; [simpl; lia|].
          eapply reachS; [apply Hsucc; unfold psucc1; rewrite Ea, Ef, Eo; reflexivity | constructor].
  Qed.

  Lemma pgood_conformant clf obf obsf sfin :
    pgood CP P (Some (clf, obf)) = true -> frel KC clf sfin -> obrel KO obf obsf -> goals_hold false CP sfin = true ->
    match obrun P obsf [] with Some bs => bgoal P bs | None => false end = true.
  Proof.
    intros Hg [Hf _] Ho Hgoal. simpl in Hg. unfold fgoal in Hg.
    rewrite (kgoals_hold_ext false CP _ _ Hf), Hgoal in Hg.
    destruct obf as [b|]; [|discriminate]. destruct Ho as [bs [-> Hb]]. simpl.
    rewrite <- (bgoal_rel KO P b bs Hb). exact Hg.
  Qed.

  Lemma product_x0_rel c0 inits :
    keys_in KC c0 = true -> forallb (keys_in KO) inits = true ->
    frel KC (tab KC (fst_of c0)) (fst_of c0)
    /\ obrel KO (Some (map (fun l => tab KO (fst_of l)) inits)) (Some (map fst_of inits)).
  Proof.
    intros H1 H2. split; [apply frel_init, H1|]. exists (map fst_of inits). split; [reflexivity | apply init_rel, H2].
  Qed.

  (* every valid plan of the compiled problem of length <= n maps back to a conformant plan of the original *)
  Theorem sound_check_correct c0 inits n :
    sound_check KC CP KO P back cacts c0 inits n = true ->
    forall pi, plan_over cacts pi -> length pi <= n -> valid_plan false CP (fst_of c0) pi = true ->
               conformant_check P (map fst_of inits) (map_back back pi) = true.
  Proof.
    unfold sound_check. intros H pi Hover Hlen Hvalid.
    apply andb_true_iff in H. destruct H as [H Hgood]. apply andb_true_iff in H. destruct H as [Hk1 Hk2].
    destruct (product_x0_rel c0 inits Hk1 Hk2) as [Hr0 Ho0].
    unfold valid_plan in Hvalid.
    destruct (run CP (spec_step false CP) (fst_of c0) pi) as [sfin|] eqn:Er; [|discriminate].
    rewrite forallb_forall in Hgood.
    destruct (product_path pi _ _ _ _ sfin Hr0 Ho0 Hover Er)
      as [[k [Hk Hr]]|[k [clf [obf [obsf [Hk [Hr [Hf [Hof Hrunf]]]]]]]]].
    - assert (Hin : In None (product_nodes KC CP KO P back cacts c0 inits n)).
      { unfold product_nodes. apply (bfs_complete0 pnode_eqb pnode_eqb_eq _ n _ k); [lia | exact Hr]. }
      specialize (Hgood None Hin). discriminate.
    - assert (Hin : In (Some (clf, obf)) (product_nodes KC CP KO P back cacts c0 inits n)).
      { unfold product_nodes. apply (bfs_complete0 pnode_eqb pnode_eqb_eq _ n _ k); [lia | exact Hr]. }
      specialize (Hgood _ Hin).
      unfold conformant_check. change (brun P (map fst_of inits) (map_back back pi))
        with (obrun P (Some (map fst_of inits)) (map_back back pi)).
      rewrite Hrunf. exact (pgood_conformant clf obf obsf sfin Hgood Hf Hof Hvalid).
  Qed.

  (* when the explored product is closed the statement holds for plans of every length *)
  Theorem sound_check_closed_correct c0 inits n :
    sound_check_closed KC CP KO P back cacts c0 inits n = true ->
    forall pi, plan_over cacts pi -> valid_plan false CP (fst_of c0) pi = true ->
               conformant_check P (map fst_of inits) (map_back back pi) = true.
  Proof.
    unfold sound_check_closed, sound_check. intros H pi Hover Hvalid.
    apply andb_true_iff in H. destruct H as [H Hclosed].
    apply andb_true_iff in H. destruct H as [H Hgood]. apply andb_true_iff in H. destruct H as [Hk1 Hk2].
    destruct (product_x0_rel c0 inits Hk1 Hk2) as [Hr0 Ho0].
    unfold valid_plan in Hvalid.
    destruct (run CP (spec_step false CP) (fst_of c0) pi) as [sfin|] eqn:Er; [|discriminate].
    rewrite forallb_forall in Hgood.
    set (V := product_nodes KC CP KO P back cacts c0 inits n) in *.
    assert (Hx0 : In (Some (tab KC (fst_of c0), Some (map (fun l => tab KO (fst_of l)) inits))) V).
    { unfold V, product_nodes. apply (bfs_mono pnode_eqb pnode_eqb_eq). left. reflexivity. }
    destruct (product_path pi _ _ _ _ sfin Hr0 Ho0 Hover Er)
      as [[k [Hk Hr]]|[k [clf [obf [obsf [Hk [Hr [Hf [Hof Hrunf]]]]]]]]].
    - pose proof (closedb_reach pnode_eqb pnode_eqb_eq _ V Hclosed k _ _ Hx0 Hr) as Hin.
      specialize (Hgood None Hin). discriminate.
    - pose proof (closedb_reach pnode_eqb pnode_eqb_eq _ V Hclosed k _ _ Hx0 Hr) as Hin.
      specialize (Hgood _ Hin).
      unfold conformant_check. change (brun P (map fst_of inits) (map_back back pi))
        with (obrun P (Some (map fst_of inits)) (map_back back pi)).
      rewrite Hrunf. exact (pgood_conformant clf obf obsf sfin Hgood Hf Hof Hvalid).
  Qed.
End ProductProofs.

(* ================================================================== Part 4: the dominated-state reduction *)
Lemma lit_eqb_eq a b : lit_eqb a b = true <-> a = b.
Proof.
  destruct a as [p x], b as [q y]. unfold lit_eqb. simpl.
  rewrite andb_true_iff, N.eqb_eq, Bool.eqb_true_iff. split; [intros [-> ->]; reflexivity | intros H; inversion H; auto].
Qed.
Lemma lit_eqb_refl a : lit_eqb a a = true.
Proof. apply lit_eqb_eq. reflexivity. Qed.

Lemma lneg_invol l : lneg (lneg l) = l.
Proof. destruct l as [p b]. unfold lneg. simpl. rewrite negb_involutive. reflexivity. Qed.

Lemma lmem_In l s : lmem l s = true <-> In l s.
Proof.
  unfold lmem. rewrite existsb_exists. split.
  - intros [y [Hy E]]. apply lit_eqb_eq in E. subst. exact Hy.
  - intros H. exists l. split; [exact H | apply lit_eqb_refl].
Qed.

Lemma lsubset_incl a b : lsubset a b = true <-> incl a b.
Proof.
  unfold lsubset. rewrite forallb_forall. split.
  - intros H x Hx. apply lmem_In, H, Hx.
  - intros H x Hx. apply lmem_In, H, Hx.
Qed.

Lemma ladd_In l s x : In x (ladd l s) <-> x = l \/ In x s.
Proof.
  unfold ladd. destruct (lmem l s) eqn:E.
  - apply lmem_In in E. split; [auto|]. intros [->|H]; auto.
  - rewrite in_app_iff. simpl. split; [intros [H|[H|[]]]; auto | intros [H|H]; auto].
Qed.

Lemma lunion_In a b x : In x (lunion a b) <-> In x a \/ In x b.
Proof.
  unfold lunion. revert a. induction b as [|y b IH]; intros a; simpl; [tauto|].
  rewrite IH, ladd_In. simpl. split; [intros [[->|H]|H]; auto | intros [H|[->|H]]; auto].
Qed.

Definition rkeys (R : reltab) : list lit := map fst R.

Lemma rget_rset R l v m :
  rget (rset R l v) m = if lit_eqb m l && lmem l (rkeys R) then v else rget R m.
Proof.
  induction R as [|[k x] R IH]; simpl.
  - rewrite andb_false_r. reflexivity.
  - destruct (lit_eqb k l) eqn:Ekl; simpl.
    + apply lit_eqb_eq in Ekl. subst k. rewrite lit_eqb_refl. simpl. rewrite andb_true_r.
      destruct (lit_eqb m l) eqn:Eml; [reflexivity|]. rewrite IH. reflexivity.
    + assert (Hlk : lit_eqb l k = false).
      { destruct (lit_eqb l k) eqn:E; [|reflexivity]. apply lit_eqb_eq in E. subst. rewrite lit_eqb_refl in Ekl. discriminate. }
      rewrite Hlk. simpl. destruct (lit_eqb m k) eqn:Emk.
      * apply lit_eqb_eq in Emk. subst m. rewrite Ekl. reflexivity.
      * exact IH.
Qed.

Lemma rkeys_rset R l v : rkeys (rset R l v) = rkeys R.
Proof.
  unfold rkeys, rset. rewrite map_map. apply map_ext. intros [k x]. simpl. destruct (lit_eqb k l); reflexivity.
Qed.

Definition rle (R R' : reltab) : Prop := rkeys R = rkeys R' /\ forall l, incl (rget R l) (rget R' l).

Lemma rle_refl R : rle R R.
Proof. split; [reflexivity | intros l; apply incl_refl]. Qed.
Lemma rle_trans A B C : rle A B -> rle B C -> rle A C.
Proof. intros [K1 H1] [K2 H2]. split; [congruence | intros l; eapply incl_tran; eauto]. Qed.

Lemma rle_rset R l v : incl (rget R l) v -> rle R (rset R l v).
Proof.
  intros H. split; [symmetry; apply rkeys_rset|]. intros m. rewrite rget_rset.
  destruct (lit_eqb m l && lmem l (rkeys R)) eqn:E; [|apply incl_refl].
  apply andb_true_iff in E. destruct E as [E _]. apply lit_eqb_eq in E. subst. exact H.
Qed.

(* ---- the initial table *)
Definition init_step (R : reltab) (ct : lit * lit) : reltab := rset R (fst ct) (ladd (snd ct) (rget R (fst ct))).

Lemma init_step_rle R ct : rle R (init_step R ct).
Proof. apply rle_rset. intros x Hx. apply ladd_In. auto. Qed.

Lemma init_fold pairs : forall R,
  rle R (fold_left init_step pairs R) /\
  forall c t, In (c, t) pairs -> lmem c (rkeys R) = true -> In t (rget (fold_left init_step pairs R) c).
Proof.
  induction pairs as [|ct pairs IH]; intros R; simpl.
  - split; [apply rle_refl | intros c t []].
  - destruct (IH (init_step R ct)) as [Hle Hin]. pose proof (init_step_rle R ct) as Hs.
    split; [eapply rle_trans; eauto|].
    intros c t [->|Hct] Hk.
    + destruct Hle as [_ Hle]. apply Hle. unfold init_step. simpl. rewrite rget_rset, lit_eqb_refl, Hk. simpl.
      apply ladd_In. auto.
    + apply Hin; [exact Hct|]. destruct Hs as [Hs _]. rewrite <- Hs. exact Hk.
Qed.

Lemma rget_base lits l : rget (map (fun l => (l, [l])) lits) l = if lmem l lits then [l] else [].
Proof.
  induction lits as [|k lits IH]; simpl; [reflexivity|].
  destruct (lit_eqb l k) eqn:E; simpl; [apply lit_eqb_eq in E; subst; reflexivity | exact IH].
Qed.

Lemma rkeys_base lits : rkeys (map (fun l : lit => (l, [l])) lits) = lits.
Proof. unfold rkeys. rewrite map_map. simpl. apply map_id. Qed.

(* ---- the two kinds of visits are instances of one scheme *)
Definition gvisit (grow : reltab -> lit -> bool) (upd : reltab -> lit -> reltab) (st : reltab * bool) (l : lit)
  : reltab * bool := if grow (fst st) l then (upd (fst st) l, true) else st.

Definition texp (R : reltab) (l : lit) : list lit := fold_left (fun acc m => lunion acc (rget R m)) (rget R l) (rget R l).
Definition cexp (R : reltab) (l : lit) : list lit := fold_left (fun acc t => ladd (lneg t) acc) (rget R (lneg l)) (rget R l).

Lemma trans_visit_g st l :
  trans_visit st l = gvisit (fun R l => negb (lsubset (texp R l) (rget R l))) (fun R l => rset R l (texp R l)) st l.
Proof. destruct st as [R ch]. reflexivity. Qed.
Lemma compl_visit_g st l :
  compl_visit st l = gvisit (fun R l => negb (lsubset (cexp R l) (rget R l))) (fun R l => rset R l (cexp R l)) st l.
Proof. destruct st as [R ch]. reflexivity. Qed.

Lemma gfold_flag grow upd lits : forall R R' ch, fold_left (gvisit grow upd) lits (R, true) = (R', ch) -> ch = true.
Proof.
  induction lits as [|l lits IH]; intros R R' ch H; simpl in H; [inversion H; reflexivity|].
  unfold gvisit at 2 in H. simpl in H. destruct (grow R l); eapply IH; exact H.
Qed.

Lemma gfold_nochange grow upd lits : forall R ch0 R',
  fold_left (gvisit grow upd) lits (R, ch0) = (R', false) ->
  ch0 = false /\ R' = R /\ forall l, In l lits -> grow R l = false.
Proof.
  induction lits as [|l lits IH]; intros R ch0 R' H; simpl in H.
  - inversion H; subst. split; [reflexivity|]. split; [reflexivity | intros l []].
  - unfold gvisit at 2 in H. simpl in H. destruct (grow R l) eqn:Eg.
    + apply gfold_flag in H. discriminate.
    + destruct (IH _ _ _ H) as [A [B C]]. split; [exact A|]. split; [exact B|].
      intros m [->|Hm]; [exact Eg | apply C, Hm].
Qed.

Lemma gfold_rle grow upd (Hupd : forall R l, rle R (upd R l)) lits : forall st,
  rle (fst st) (fst (fold_left (gvisit grow upd) lits st)).
Proof.
  induction lits as [|l lits IH]; intros st; simpl; [apply rle_refl|].
  eapply rle_trans; [|apply IH]. unfold gvisit. destruct (grow (fst st) l); simpl; [apply Hupd | apply rle_refl].
Qed.

Lemma tfold_In R ms x : forall acc,
  In x (fold_left (fun acc m => lunion acc (rget R m)) ms acc) <-> In x acc \/ exists m, In m ms /\ In x (rget R m).
Proof.
  induction ms as [|m ms IH]; intros acc; simpl.
  - split; [auto | intros [H|[m [[] _]]]; exact H].
  - rewrite IH, lunion_In. split.
    + intros [[H|H]|[m' [H1 H2]]]; [auto | right; exists m; auto | right; exists m'; auto].
    + intros [H|[m' [[->|H1] H2]]]; [auto | auto | right; exists m'; auto].
Qed.

Lemma texp_In R l x : In x (texp R l) <-> In x (rget R l) \/ exists m, In m (rget R l) /\ In x (rget R m).
Proof. unfold texp. apply tfold_In. Qed.

Lemma texp_incl R l : incl (rget R l) (texp R l).
Proof. intros x Hx. apply texp_In. auto. Qed.

Lemma cfold_In ts x : forall acc,
  In x (fold_left (fun acc t => ladd (lneg t) acc) ts acc) <-> In x acc \/ exists t, In t ts /\ x = lneg t.
Proof.
  induction ts as [|t ts IH]; intros acc; simpl.
  - split; [auto | intros [H|[t [[] _]]]; exact H].
  - rewrite IH, ladd_In. split.
    + intros [[->|H]|[t' [H1 H2]]]; [right; exists t; auto | auto | right; exists t'; auto].
    + intros [H|[t' [[->|H1] H2]]]; [auto | subst; auto | right; exists t'; auto].
Qed.

Lemma cexp_In R l x : In x (cexp R l) <-> In x (rget R l) \/ exists t, In t (rget R (lneg l)) /\ x = lneg t.
Proof. unfold cexp. apply cfold_In. Qed.

Lemma cexp_incl R l : incl (rget R l) (cexp R l).
Proof. intros x Hx. apply cexp_In. auto. Qed.

Lemma fold_left_ext2 {A B} (f g : A -> B -> A) (H : forall a b, f a b = g a b) l : forall a,
  fold_left f l a = fold_left g l a.
Proof. induction l as [|b l IH]; intros a; simpl; [reflexivity|]. rewrite H. apply IH. Qed.

Lemma rel_pass_g NP R :
  rel_pass NP R =
  fold_left (gvisit (fun R l => negb (lsubset (cexp R l) (rget R l))) (fun R l => rset R l (cexp R l))) (all_lits NP)
    (fold_left (gvisit (fun R l => negb (lsubset (texp R l) (rget R l))) (fun R l => rset R l (texp R l))) (all_lits NP)
       (R, false)).
Proof.
  unfold rel_pass. rewrite (fold_left_ext2 _ _ compl_visit_g), (fold_left_ext2 _ _ trans_visit_g). reflexivity.
Qed.

Lemma rel_pass_rle NP R : rle R (fst (rel_pass NP R)).
Proof.
  rewrite rel_pass_g.
  eapply rle_trans; [|apply gfold_rle; intros R0 l; apply rle_rset, cexp_incl].
  apply (gfold_rle _ _ (fun R0 l => rle_rset R0 l _ (texp_incl R0 l)) _ (R, false)).
Qed.

(* ---- what the fixpoint loop establishes *)
Definition rclosed (NP : nprob) (R : reltab) : Prop :=
  (forall l, In l (all_lits NP) -> forall m, In m (rget R l) -> incl (rget R m) (rget R l))
  /\ (forall l, In l (all_lits NP) -> forall t, In t (rget R (lneg l)) -> In (lneg t) (rget R l)).

Lemma rel_pass_fix NP R R' : rel_pass NP R = (R', false) -> R' = R /\ rclosed NP R.
Proof.
  rewrite rel_pass_g. intros H.
  destruct (fold_left (gvisit (fun R l => negb (lsubset (texp R l) (rget R l))) (fun R l => rset R l (texp R l)))
              (all_lits NP) (R, false)) as [R1 ch1] eqn:E1.
  destruct (gfold_nochange _ _ _ _ _ _ H) as [-> [-> Hc]].
  destruct (gfold_nochange _ _ _ _ _ _ E1) as [_ [-> Ht]].
  split; [reflexivity|]. split.
  - intros l Hl m Hm x Hx. specialize (Ht l Hl). apply negb_false_iff, lsubset_incl in Ht.
    apply Ht, texp_In. right. exists m. auto.
  - intros l Hl t Htn. specialize (Hc l Hl). apply negb_false_iff, lsubset_incl in Hc.
    apply Hc, cexp_In. right. exists t. auto.
Qed.

Lemma rel_loop_spec NP fuel : forall R Rf, rel_loop NP fuel R = Some Rf -> rle R Rf /\ rclosed NP Rf.
Proof.
  induction fuel as [|fuel IH]; intros R Rf H; simpl in H; [discriminate|].
  pose proof (rel_pass_rle NP R) as Hle.
  destruct (rel_pass NP R) as [R' ch] eqn:E. simpl in Hle. destruct ch.
  - destruct (IH _ _ H) as [A B]. split; [eapply rle_trans; eauto | exact B].
  - inversion H; subst. destruct (rel_pass_fix _ _ _ E) as [-> Hc]. split; [apply rle_refl | exact Hc].
Qed.

Definition rel_ok (NP : nprob) (R : reltab) : Prop :=
  (forall l, In l (all_lits NP) -> In l (rget R l))
  /\ (forall c t, In (c, t) (cond_pairs NP) -> In c (all_lits NP) -> In t (rget R c))
  /\ rclosed NP R.

(* reflexivity, "condition relevant to target", transitivity and the complement rule hold of the computed relation *)
Theorem relevance_ok NP fuel R : relevance NP fuel = Some R -> rel_ok NP R.
Proof.
  unfold relevance. intros H. destruct (rel_loop_spec _ _ _ _ H) as [[_ Hle] Hc].
  unfold rel_init in Hle.
  change (fun (R : reltab) (ct : lit * lit) => rset R (fst ct) (ladd (snd ct) (rget R (fst ct)))) with init_step in Hle.
  destruct (init_fold (cond_pairs NP) (map (fun l => (l, [l])) (all_lits NP))) as [[_ Hle0] Hin].
  split; [|split; [|exact Hc]].
  - intros l Hl. apply Hle, Hle0. rewrite rget_base. apply lmem_In in Hl. rewrite Hl. left. reflexivity.
  - intros c t Hct Hcl. apply Hle, Hin; [exact Hct|]. rewrite rkeys_base. apply lmem_In, Hcl.
Qed.

(* ---- domination is preserved by every action *)
Definition dom (NP : nprob) (R : reltab) (T : lit) (s' s : nstate) : Prop :=
  forall L, In L (all_lits NP) -> In T (rget R L) -> holds_lit s' L = true -> holds_lit s L = true.

Lemma lit_ok_all NP l : lit_ok NP l = true -> In l (all_lits NP).
Proof.
  unfold lit_ok, all_lits. rewrite existsb_exists. intros [p [Hp E]]. apply N.eqb_eq in E.
  apply in_flat_map. exists p. split; [exact Hp|]. destruct l as [q b]. simpl in E. subst. destruct b; simpl; auto.
Qed.

Lemma all_lits_neg NP l : In l (all_lits NP) -> In (lneg l) (all_lits NP).
Proof.
  unfold all_lits. rewrite !in_flat_map. intros [p [Hp Hl]]. exists p. split; [exact Hp|].
  simpl in Hl. destruct Hl as [<-|[<-|[]]]; simpl; auto.
Qed.

Lemma holds_lneg s l : holds_lit s (lneg l) = negb (holds_lit s l).
Proof. unfold holds_lit, lneg. simpl. destruct (s (fst l)), (snd l); reflexivity. Qed.

Lemma forallb_false_ex {A} (f : A -> bool) l : forallb f l = false -> exists x, In x l /\ f x = false.
Proof.
  induction l as [|x l IH]; simpl; [discriminate|]. destruct (f x) eqn:E; simpl.
  - intros H. destruct (IH H) as [y [Hy Ey]]. exists y. auto.
  - intros _. exists x. auto.
Qed.

Section DomStep.
  Variables (NP : nprob) (R : reltab).
  Hypothesis Hok : rel_ok NP R.
  Hypothesis Hwf : nwf NP = true.
  Variable a : nact.
  Hypothesis Ha : In a (np_acts NP).

  Lemma rule_lits r : In r (na_rules a) ->
    (forall c, In c (r_cond r) -> In c (all_lits NP) /\ In (r_tgt r) (rget R c)) /\ In (r_tgt r) (all_lits NP).
  Proof.
    intros Hr. unfold nwf in Hwf. apply andb_true_iff in Hwf. destruct Hwf as [Hacts _].
    rewrite forallb_forall in Hacts. specialize (Hacts a Ha). apply andb_true_iff in Hacts. destruct Hacts as [_ Hrules].
    rewrite forallb_forall in Hrules. specialize (Hrules r Hr). apply andb_true_iff in Hrules. destruct Hrules as [Hc Ht].
    rewrite forallb_forall in Hc. split; [|apply lit_ok_all, Ht].
    intros c Hcin. pose proof (lit_ok_all _ _ (Hc c Hcin)) as Hcl. split; [exact Hcl|].
    destruct Hok as [_ [Hrule _]]. apply Hrule; [|exact Hcl].
    unfold cond_pairs. apply in_flat_map. exists a. split; [exact Ha|]. apply in_flat_map. exists r. split; [exact Hr|].
    apply in_map_iff. exists c. auto.
  Qed.

  Variables (T : lit) (s' s : nstate).
  Hypothesis Hdom : dom NP R T s' s.

  (* a rule whose target is relevant to T fires in s whenever it fires in s' *)
  Lemma fires_mono r : In r (na_rules a) -> In T (rget R (r_tgt r)) -> fires s' r = true -> fires s r = true.
  Proof.
    intros Hr HT Hf. unfold fires in *. rewrite forallb_forall in *. intros c Hc.
    destruct (rule_lits r Hr) as [Hcs _]. destruct (Hcs c Hc) as [Hcl Htc].
    apply Hdom; [exact Hcl | | apply Hf, Hc].
    destruct Hok as [_ [_ [Htrans _]]]. apply (Htrans c Hcl (r_tgt r) Htc). exact HT.
  Qed.

  (* a rule whose target is the complement of a literal relevant to T fires in s' whenever it fires in s *)
  Lemma fires_back r L : In r (na_rules a) -> In L (all_lits NP) -> In T (rget R L) -> r_tgt r = lneg L ->
    fires s r = true -> fires s' r = true.
  Proof.
    intros Hr HL HT Htgt Hf. destruct (fires s' r) eqn:E; [reflexivity|]. exfalso.
    unfold fires in E. destruct (forallb_false_ex _ _ E) as [c [Hc Hcf]].
    destruct (rule_lits r Hr) as [Hcs _]. destruct (Hcs c Hc) as [Hcl Htc].
    destruct Hok as [_ [_ [Htrans Hcompl]]].
    pose proof (all_lits_neg _ _ Hcl) as Hncl.
    assert (HLn : In L (rget R (lneg c))).
    { rewrite <- (lneg_invol L). apply (Hcompl (lneg c) Hncl). rewrite lneg_invol, <- Htgt. exact Htc. }
    assert (HTn : In T (rget R (lneg c))) by (apply (Htrans (lneg c) Hncl L HLn), HT).
    assert (Hs : holds_lit s (lneg c) = true).
    { apply Hdom; [exact Hncl | exact HTn |]. rewrite holds_lneg, Hcf. reflexivity. }
    rewrite holds_lneg in Hs. unfold fires in Hf. rewrite forallb_forall in Hf. rewrite (Hf c Hc) in Hs. discriminate.
  Qed.

  Lemma sets_mono L : In T (rget R L) -> sets s' a L = true -> sets s a L = true.
  Proof.
    intros HT H. unfold sets in *. rewrite existsb_exists in *. destruct H as [r [Hr H]].
    apply andb_true_iff in H. destruct H as [Hf Ht]. exists r. split; [exact Hr|].
    apply andb_true_iff. split; [|exact Ht]. apply lit_eqb_eq in Ht. apply fires_mono; [exact Hr | rewrite Ht; exact HT | exact Hf].
  Qed.

  Lemma sets_back L : In L (all_lits NP) -> In T (rget R L) -> sets s a (lneg L) = true -> sets s' a (lneg L) = true.
  Proof.
    intros HL HT H. unfold sets in *. rewrite existsb_exists in *. destruct H as [r [Hr H]].
    apply andb_true_iff in H. destruct H as [Hf Ht]. exists r. split; [exact Hr|].
    apply andb_true_iff. split; [|exact Ht]. apply lit_eqb_eq in Ht. eapply fires_back; eauto.
  Qed.

  Lemma dom_step : dom NP R T (nsucc s' a) (nsucc s a).
  Proof.
    intros L HL HT Hh. destruct L as [p b].
    assert (Hmono : sets s' a (p, b) = true -> sets s a (p, b) = true) by (apply sets_mono, HT).
    assert (Hback : sets s a (p, negb b) = true -> sets s' a (p, negb b) = true) by (apply (sets_back (p, b) HL HT)).
    assert (Hd : Bool.eqb (s' p) b = true -> Bool.eqb (s p) b = true) by (apply (Hdom (p, b) HL HT)).
    unfold holds_lit, nsucc in *. simpl in *. destruct b; simpl in *.
    - destruct (sets s' a (p, true)) eqn:E1.
      + rewrite (Hmono eq_refl). reflexivity.
      + destruct (sets s a (p, true)); [reflexivity|].
        destruct (sets s' a (p, false)) eqn:E2; [discriminate|].
        destruct (sets s a (p, false)) eqn:E4; [discriminate (Hback eq_refl)|].
        apply Hd. exact Hh.
    - destruct (sets s a (p, true)) eqn:E3.
      + rewrite (Hback eq_refl) in Hh. discriminate.
      + destruct (sets s' a (p, true)) eqn:E1; [discriminate|].
        destruct (sets s' a (p, false)) eqn:E2.
        * rewrite (Hmono eq_refl). reflexivity.
        * destruct (sets s a (p, false)); [reflexivity|]. apply Hd. exact Hh.
  Qed.
End DomStep.

(* ---- the kept states form a basis: every state is dominated, for every merge target, by a kept state *)
Lemma lsubset_refl a : lsubset a a = true.
Proof. apply lsubset_incl, incl_refl. Qed.
Lemma lsubset_trans a b c : lsubset a b = true -> lsubset b c = true -> lsubset a c = true.
Proof. rewrite !lsubset_incl. apply incl_tran. Qed.

Lemma relset_dom NP R T s' s : lsubset (rel_set NP R T s') (rel_set NP R T s) = true -> dom NP R T s' s.
Proof.
  rewrite lsubset_incl. intros H L HL HT Hh.
  assert (HinL : In L (rel_set NP R T s')).
  { unfold rel_set, rel_sources. apply filter_In. split; [|exact Hh]. apply filter_In. split; [exact HL | apply lmem_In, HT]. }
  apply H in HinL. unfold rel_set in HinL. apply filter_In in HinL. apply HinL.
Qed.

Section Minimals.
  Variables (NP : nprob) (R : reltab) (T : lit).

  Definition mins_ok (all : list nstate) (mins : list (nat * list lit)) : Prop :=
    forall j es, In (j, es) mins -> exists sj, nth_error all j = Some sj /\ es = rel_set NP R T sj.
  Definition covers (mins : list (nat * list lit)) (s : nstate) : Prop :=
    exists j es, In (j, es) mins /\ lsubset es (rel_set NP R T s) = true.

  Lemma scan_spec rs mins : forall d upd, scan_minimals rs mins = (d, upd) ->
    (d = true <-> exists j es, In (j, es) mins /\ lsubset es rs = true)
    /\ (forall x, In x upd -> In x mins)
    /\ (forall j es, In (j, es) mins -> In (j, es) upd \/ lsubset rs es = true).
  Proof.
    induction mins as [|[ei es] mins IH]; intros d upd H; simpl in H.
    - inversion H; subst. split; [split; [discriminate | intros [j [e [[] _]]]]|]. split; [intros x []| intros j e []].
    - destruct (scan_minimals rs mins) as [d0 upd0] eqn:E. destruct (IH _ _ eq_refl) as [A [B C]].
      destruct (lsubset es rs) eqn:E1.
      + inversion H; subst. split; [split; [intros _; exists ei, es; simpl; auto | reflexivity]|].
        split; [intros x [<-|Hx]; simpl; auto|].
        intros j e [He|He]; [inversion He; subst; left; left; reflexivity|].
        destruct (C j e He); [left; right; assumption | right; assumption].
      + destruct (lsubset rs es && negb false) eqn:E2.
        * inversion H; subst. split.
          -- rewrite A. split; [intros [j [e [He Hs]]]; exists j, e; simpl; auto|].
             intros [j [e [[He|He] Hs]]]; [inversion He; subst; congruence | exists j, e; auto].
          -- split; [intros x Hx; right; apply B, Hx|].
             intros j e [He|He]; [inversion He; subst; right; apply andb_true_iff in E2; apply E2|].
             destruct (C j e He); auto.
        * inversion H; subst. split.
          -- rewrite A. split; [intros [j [e [He Hs]]]; exists j, e; simpl; auto|].
             intros [j [e [[He|He] Hs]]]; [inversion He; subst; congruence | exists j, e; auto].
          -- split; [intros x [<-|Hx]; simpl; auto|].
             intros j e [He|He]; [inversion He; subst; left; left; reflexivity|].
             destruct (C j e He); [left; right; assumption | right; assumption].
  Qed.

  Lemma minimals_from_spec all : forall states pre mins i,
    length pre = i -> all = pre ++ states -> mins_ok all mins -> (forall s, In s pre -> covers mins s) ->
    mins_ok all (minimals_from NP R T i states mins)
    /\ forall s, In s all -> covers (minimals_from NP R T i states mins) s.
  Proof.
    induction states as [|s states IH]; intros pre mins i Hlen Hall Hok Hcov; simpl.
    - split; [exact Hok|]. intros s Hs. apply Hcov. rewrite Hall, app_nil_r in Hs. exact Hs.
    - destruct (scan_minimals (rel_set NP R T s) mins) as [d upd] eqn:E.
      destruct (scan_spec _ _ _ _ E) as [A [B C]].
      apply (IH (pre ++ [s])).
      + rewrite app_length. simpl. lia.
      + rewrite <- app_assoc. exact Hall.
      + destruct d; [exact Hok|]. intros j es Hin. apply in_app_iff in Hin. destruct Hin as [Hin|[Hin|[]]].
        * apply Hok, B, Hin.
        * inversion Hin; subst. exists s. split; [|reflexivity].
          rewrite nth_error_app2 by lia. rewrite Nat.sub_diag. reflexivity.
      + intros s1 Hs1. apply in_app_iff in Hs1. destruct d.
        * destruct Hs1 as [Hs1|[<-|[]]]; [apply Hcov, Hs1|].
          destruct (proj1 A eq_refl) as [j [es [Hin Hsub]]]. exists j, es. auto.
        * destruct Hs1 as [Hs1|[<-|[]]].
          -- destruct (Hcov s1 Hs1) as [j [es [Hin Hsub]]]. destruct (C j es Hin) as [Hu|Hd].
             ++ exists j, es. split; [apply in_app_iff; auto | exact Hsub].
             ++ exists i, (rel_set NP R T s). split; [apply in_app_iff; right; left; reflexivity|].
                eapply lsubset_trans; eauto.
          -- exists i, (rel_set NP R T s). split; [apply in_app_iff; right; left; reflexivity | apply lsubset_refl].
  Qed.

  Lemma minimals_cover states s : In s states ->
    exists j sj, In j (map fst (minimals_from NP R T 0 states [])) /\ nth_error states j = Some sj
                 /\ lsubset (rel_set NP R T sj) (rel_set NP R T s) = true.
  Proof.
    intros Hs.
    destruct (minimals_from_spec states states [] [] 0 eq_refl eq_refl) as [Hok Hcov].
    - intros j es [].
    - intros s1 [].
    - destruct (Hcov s Hs) as [j [es [Hin Hsub]]]. destruct (Hok j es Hin) as [sj [Hn ->]].
      exists j, sj. split; [apply in_map_iff; exists (j, rel_set NP R T sj); auto|]. auto.
  Qed.
End Minimals.

Lemma nat_mem_In i l : nat_mem i l = true <-> In i l.
Proof.
  unfold nat_mem. rewrite existsb_exists. split.
  - intros [j [Hj E]]. apply Nat.eqb_eq in E. subst. exact Hj.
  - intros H. exists i. split; [exact H | apply Nat.eqb_refl].
Qed.

Lemma pick_In {A} sel (l : list A) : forall i j x,
  nth_error l j = Some x -> nat_mem (i + j) sel = true -> In x (pick_indices sel i l).
Proof.
  induction l as [|y l IH]; intros i j x Hn Hm; [destruct j; discriminate|].
  destruct j as [|j]; simpl in *.
  - inversion Hn; subst. rewrite Nat.add_0_r in Hm. rewrite Hm. left. reflexivity.
  - assert (In x (pick_indices sel (S i) l)) by (apply (IH (S i) j); [exact Hn | rewrite <- Nat.add_succ_comm in Hm; exact Hm]).
    destruct (nat_mem i sel); [right|]; assumption.
Qed.

Lemma pick_sub {A} sel (l : list A) : forall i x, In x (pick_indices sel i l) -> In x l.
Proof.
  induction l as [|y l IH]; intros i x H; simpl in *; [exact H|].
  destruct (nat_mem i sel); [destruct H as [->|H]; [left; reflexivity | right; eapply IH; exact H] | right; eapply IH; exact H].
Qed.

Lemma fold_ladd_In l x : forall acc, In x (fold_left (fun acc l => ladd l acc) l acc) <-> In x acc \/ In x l.
Proof.
  induction l as [|y l IH]; intros acc; simpl; [tauto|].
  rewrite IH, ladd_In. split; [intros [[->|H]|H]; auto | intros [H|[->|H]]; auto].
Qed.

Lemma fold_ladd_nil l : forall acc, fold_left (fun acc l => ladd l acc) l acc = [] -> l = [] /\ acc = [].
Proof.
  induction l as [|y l IH]; intros acc H; simpl in H; [auto|].
  destruct (IH _ H) as [_ Hn]. unfold ladd in Hn. destruct (lmem y acc) eqn:E.
  - subst. discriminate.
  - destruct acc; discriminate.
Qed.

Lemma merge_targets_In NP l : In l (flat_map na_pre (np_acts NP) ++ np_goal NP) -> In l (merge_targets NP).
Proof. intros H. unfold merge_targets. apply fold_ladd_In. auto. Qed.

(* with no merge target (no precondition, no goal literal) validity does not depend on the state *)
Lemma nvalid_no_targets NP : merge_targets NP = [] -> forall pi s s', nvalid NP s pi = nvalid NP s' pi.
Proof.
  intros H. unfold merge_targets in H. apply fold_ladd_nil in H. destruct H as [H _].
  apply app_eq_nil in H. destruct H as [Hpre Hgoal].
  assert (Hp : forall a, In a (np_acts NP) -> na_pre a = []).
  { intros a Ha. destruct (na_pre a) as [|c cs] eqn:E; [reflexivity|]. exfalso.
    assert (In c (flat_map na_pre (np_acts NP))) by (apply in_flat_map; exists a; rewrite E; simpl; auto).
    rewrite Hpre in H. destruct H. }
  induction pi as [|i pi IH]; intros s s'; simpl.
  - rewrite Hgoal. reflexivity.
  - destruct (nth_error (np_acts NP) i) as [a|] eqn:E; [|reflexivity].
    unfold nstep. rewrite (Hp a (nth_error_In _ _ E)). simpl. apply IH.
Qed.

Section Main.
  Variables (NP : nprob) (R : reltab).
  Hypothesis Hok : rel_ok NP R.
  Hypothesis Hwf : nwf NP = true.

  Lemma target_holds Bc sc l :
    In l (merge_targets NP) -> In l (all_lits NP) ->
    (forall T, In T (merge_targets NP) -> exists s', In s' Bc /\ dom NP R T s' sc) ->
    (forall s', In s' Bc -> holds_lit s' l = true) -> holds_lit sc l = true.
  Proof.
    intros Ht Hl Hdom Hall. destruct (Hdom l Ht) as [s' [Hs' Hd]].
    apply (Hd l Hl); [|apply Hall, Hs']. destruct Hok as [Hrefl _]. apply Hrefl, Hl.
  Qed.

  Lemma goal_lits_ok l : In l (np_goal NP) -> In l (all_lits NP).
  Proof.
    intros H. unfold nwf in Hwf. apply andb_true_iff in Hwf. destruct Hwf as [_ Hg].
    rewrite forallb_forall in Hg. apply lit_ok_all, Hg, H.
  Qed.

  Lemma pre_lits_ok a l : In a (np_acts NP) -> In l (na_pre a) -> In l (all_lits NP).
  Proof.
    intros Ha H. unfold nwf in Hwf. apply andb_true_iff in Hwf. destruct Hwf as [Hacts _].
    rewrite forallb_forall in Hacts. specialize (Hacts a Ha). apply andb_true_iff in Hacts. destruct Hacts as [Hp _].
    rewrite forallb_forall in Hp. apply lit_ok_all, Hp, H.
  Qed.

  (* a plan valid from every state of a dominating set is valid from the dominated state *)
  Lemma dominated_valid : forall pi Bc sc,
    (exists s', In s' Bc) ->
    (forall T, In T (merge_targets NP) -> exists s', In s' Bc /\ dom NP R T s' sc) ->
    (forall s', In s' Bc -> nvalid NP s' pi = true) -> nvalid NP sc pi = true.
  Proof.
    induction pi as [|i pi IH]; intros Bc sc Hne Hdom Hall; simpl.
    - apply forallb_forall. intros l Hl.
      apply (target_holds Bc sc l); [apply merge_targets_In, in_app_iff; auto | apply goal_lits_ok, Hl | exact Hdom|].
      intros s' Hs'. specialize (Hall s' Hs'). simpl in Hall. rewrite forallb_forall in Hall. apply Hall, Hl.
    - destruct Hne as [s0 Hs0]. pose proof (Hall s0 Hs0) as H0. simpl in H0.
      destruct (nth_error (np_acts NP) i) as [a|] eqn:Ea; [|discriminate]. clear H0.
      pose proof (nth_error_In _ _ Ea) as Ha.
      assert (Hpre : forallb (holds_lit sc) (na_pre a) = true).
      { apply forallb_forall. intros l Hl.
        apply (target_holds Bc sc l); [|apply (pre_lits_ok a l Ha Hl) | exact Hdom|].
        - apply merge_targets_In, in_app_iff. left. apply in_flat_map. exists a. auto.
        - intros s' Hs'. specialize (Hall s' Hs'). simpl in Hall. rewrite Ea in Hall. unfold nstep in Hall.
          destruct (forallb (holds_lit s') (na_pre a)) eqn:E; [|discriminate]. rewrite forallb_forall in E. apply E, Hl. }
      unfold nstep. rewrite Hpre.
      apply (IH (map (fun s' => nsucc s' a) Bc)).
      + exists (nsucc s0 a). apply in_map_iff. exists s0. auto.
      + intros T HT. destruct (Hdom T HT) as [s' [Hs' Hd]]. exists (nsucc s' a).
        split; [apply in_map_iff; exists s'; auto|]. apply (dom_step NP R Hok Hwf a Ha T s' sc Hd).
      + intros t Ht. apply in_map_iff in Ht. destruct Ht as [s' [<- Hs']].
        specialize (Hall s' Hs'). simpl in Hall. rewrite Ea in Hall. unfold nstep in Hall.
        destruct (forallb (holds_lit s') (na_pre a)); [exact Hall | discriminate].
  Qed.

  Lemma basis_covers S0 s T :
    2 <= length S0 -> merge_targets NP <> [] -> In T (merge_targets NP) -> In s S0 ->
    exists s', In s' (reduce_to_basis NP R S0) /\ dom NP R T s' s.
  Proof.
    intros Hlen Hne HT Hs.
    destruct (minimals_cover NP R T S0 s Hs) as [j [sj [Hj [Hn Hsub]]]].
    exists sj. split; [|apply relset_dom, Hsub].
    unfold reduce_to_basis, basis_indices.
    destruct S0 as [|s0 [|s1 S']]; [simpl in Hlen; lia | simpl in Hlen; lia|].
    destruct (merge_targets NP) as [|t0 ts] eqn:Et; [contradiction|].
    apply (pick_In _ _ 0 j sj Hn). simpl (0 + j). apply nat_mem_In, filter_In. split.
    - assert (Hj' : j < length (s0 :: s1 :: S')) by (apply nth_error_Some; congruence).
      apply in_seq. simpl in *. lia.
    - apply nat_mem_In. unfold selected_indices. apply in_flat_map. exists T. rewrite Et. auto.
  Qed.

  (* dropping the dominated states changes the conformance of no plan *)
  Lemma reduce_sound S0 pi : nconformant NP (reduce_to_basis NP R S0) pi = nconformant NP S0 pi.
  Proof.
    unfold nconformant.
    destruct (forallb (fun s => nvalid NP s pi) S0) eqn:E.
    - rewrite forallb_forall in *. intros s Hs. apply E. unfold reduce_to_basis in Hs. eapply pick_sub, Hs.
    - destruct (forallb (fun s => nvalid NP s pi) (reduce_to_basis NP R S0)) eqn:E2; [|reflexivity].
      rewrite <- E. symmetry. rewrite forallb_forall in *. intros s Hs.
      destruct S0 as [|s0 [|s1 S']].
      + destruct Hs.
      + apply E2. exact Hs.
      + destruct (merge_targets NP) as [|t0 ts] eqn:Et.
        * assert (H0 : In s0 (reduce_to_basis NP R (s0 :: s1 :: S'))).
          { unfold reduce_to_basis, basis_indices. rewrite Et. apply (pick_In _ _ 0 0 s0); reflexivity. }
          rewrite (nvalid_no_targets NP Et pi s s0). apply E2, H0.
        * assert (Hne : merge_targets NP <> []) by (rewrite Et; discriminate).
          assert (Hlen : 2 <= length (s0 :: s1 :: S')) by (simpl; lia).
          apply (dominated_valid pi (reduce_to_basis NP R (s0 :: s1 :: S')) s).
          -- assert (Ht0 : In t0 (merge_targets NP)) by (rewrite Et; left; reflexivity).
             destruct (basis_covers _ s t0 Hlen Hne Ht0 Hs) as [s' [Hs' _]].
             exists s'. exact Hs'.
          -- intros T HT. apply (basis_covers _ s T Hlen Hne HT Hs).
          -- exact E2.
  Qed.
End Main.

(* MAIN THEOREM of the reduction: for the model of _get_relevance_relation / _reduce_possible_initial_states_to_basis,
   a plan is conformant for the kept states iff it is conformant for all the possible initial states; hence neither
   "the mapped-back plan is conformant" nor "a conformant plan exists" changes when dominated states are dropped *)
Theorem basis_reduction_sound_lemma NP fuel R S0 :
  nwf NP = true -> relevance NP fuel = Some R ->
  forall pi, nconformant NP (reduce_to_basis NP R S0) pi = nconformant NP S0 pi.
Proof. intros Hwf Hr pi. apply reduce_sound; [eapply relevance_ok; exact Hr | exact Hwf]. Qed.

Corollary basis_reduction_exists NP fuel R S0 :
  nwf NP = true -> relevance NP fuel = Some R ->
  ((exists pi, nconformant NP (reduce_to_basis NP R S0) pi = true) <-> (exists pi, nconformant NP S0 pi = true)).
Proof.
  intros Hwf Hr. split; intros [pi H]; exists pi.
  - rewrite <- (basis_reduction_sound_lemma NP fuel R S0 Hwf Hr). exact H.
  - rewrite (basis_reduction_sound_lemma NP fuel R S0 Hwf Hr). exact H.
Qed.

(* ================================================================== the positive answer of the belief search *)
Lemma reach_none K P insts k z : reachn (bsuccs K P insts) k None z -> z = None.
Proof. intros H. inversion H; subst; [reflexivity|]. simpl in *. contradiction. Qed.

Lemma reach_plan K P insts k x y : reachn (bsuccs K P insts) k x y ->
  forall b bg bs, x = Some b -> y = Some bg -> Forall2 (frel K) b bs ->
  exists pi bs', length pi = k /\ plan_over insts pi /\ brun P bs pi = Some bs' /\ Forall2 (frel K) bg bs'.
Proof.
  induction 1 as [x|k x y1 z Hy1 Hr IH]; intros b bg bs Hx Hy Hrel.
  - subst. inversion Hy; subst. exists [], bs. split; [reflexivity|]. split; [constructor|]. split; [reflexivity | exact Hrel].
  - subst. simpl in Hy1. apply in_flat_map in Hy1. destruct Hy1 as [st [Hst Hy1]].
    unfold bsucc1 in Hy1. destruct (lookup_action P (fst st)) as [a|] eqn:Ea; [|destruct Hy1].
    pose proof (fmap_step_sim K P a (snd st) b bs Hrel) as Hx.
    destruct (fmap_step K P a (snd st) b) as [| |b']; simpl in Hy1.
    + destruct Hy1 as [<-|[]]. apply reach_none in Hr. discriminate.
    + destruct Hy1.
    + destruct Hy1 as [<-|[]]. destruct Hx as [bs1 [E1 Hrel1]].
      destruct (IH b' bg bs1 eq_refl eq_refl Hrel1) as [pi [bs' [Hlen [Hover [Hrun Hrel']]]]].
      exists (st :: pi), bs'. split; [simpl; lia|]. split; [constructor; assumption|]. split; [|exact Hrel'].
      simpl. unfold bstep. rewrite (map_opt_sstep P st a bs Ea), E1. exact Hrun.
Qed.

(* when the search answers "yes" there is a conformant plan over the instances of length <= n *)
Theorem exists_conformant_plan_sound K P insts inits n :
  exists_conformant_plan K P insts inits n = Some true ->
  exists pi, plan_over insts pi /\ length pi <= n /\ conformant_check P (map fst_of inits) pi = true.
Proof.
  unfold exists_conformant_plan. intros H.
  destruct (forallb (keys_in K) inits) eqn:Eg; simpl in H; [|discriminate].
  destruct (existsb is_none (belief_nodes K P insts inits n)); [discriminate|].
  injection H as Hex. apply existsb_exists in Hex. destruct Hex as [y [Hin Hg]].
  destruct y as [bg|]; [|discriminate].
  unfold belief_nodes in Hin.
  set (b0 := map (fun l => tab K (fst_of l)) inits) in *.
  assert (Hr : exists k, k <= n /\ reachn (bsuccs K P insts) k (Some b0) (Some bg)).
  { destruct (bfs_sound bnode_eqb bnode_eqb_eq _ n [Some b0] [Some b0] (Some bg) (incl_refl _) Hin)
      as [[<-|[]]|[x [k [[<-|[]] [Hk Hr]]]]].
    - exists 0. split; [lia | constructor].
    - exists k. auto. }
  destruct Hr as [k [Hk Hr]].
  destruct (reach_plan K P insts k _ _ Hr b0 bg (map fst_of inits) eq_refl eq_refl (init_rel K inits Eg))
    as [pi [bs' [Hlen [Hover [Hrun Hrel]]]]].
  exists pi. split; [exact Hover|]. split; [lia|].
  unfold conformant_check. rewrite Hrun, <- (bgoal_rel K P bg bs' Hrel). exact Hg.
Qed.

(* ================================================================== the prepared problem under the shared semantics *)
Section Embed.
  Variable NP : nprob.
  Hypothesis Hwf : nwf NP = true.
  Variable s : nstate.
  Let I := mk_interp (embed NP) (embed_state s) [].

  Lemma eval_lit_expr l : eval false (lit_expr l) I = Some (VBool (holds_lit s l)).
  Proof.
    destruct l as [p b]. unfold lit_expr, holds_lit. simpl fst. simpl snd. destruct b.
    - rewrite eval_EFluent. simpl. destruct (s p); reflexivity.
    - rewrite eval_ENot, eval_EFluent. simpl. destruct (s p); reflexivity.
  Qed.

  Lemma holds_lit_expr l : holds false I (lit_expr l) = holds_lit s l.
  Proof. unfold holds. rewrite eval_lit_expr. destruct (holds_lit s l); reflexivity. Qed.

  Lemma all_hold_lits ls : all_hold false I (map lit_expr ls) = forallb (holds_lit s) ls.
  Proof. unfold all_hold. induction ls as [|l ls IH]; simpl; [reflexivity|]. rewrite holds_lit_expr, IH. reflexivity. Qed.

  Lemma ebools_lits ls : ebools false I (map lit_expr ls) = Some (map (holds_lit s) ls).
  Proof. induction ls as [|l ls IH]; simpl; [reflexivity|]. rewrite eval_lit_expr, IH. reflexivity. Qed.

  Lemma forallb_id_map {A} (f : A -> bool) l : forallb (fun b => b) (map f l) = forallb f l.
  Proof. induction l as [|x l IH]; simpl; [reflexivity|]. rewrite IH. reflexivity. Qed.

  Lemma eval_cond r : eval false (EAnd (map lit_expr (r_cond r))) I = Some (VBool (fires s r)).
  Proof. rewrite eval_EAnd, ebools_lits, forallb_id_map. reflexivity. Qed.

  Definition rule_aeff (r : nrule) : aeff :=
    {| ae_key := (fst (r_tgt r), []); ae_kind := KAssign; ae_val := VBool (snd (r_tgt r)) |}.

  Lemma eval_rule_effect r :
    eval_effect false I (rule_effect r) = if fires s r then EAct (rule_aeff r) else ESkip.
  Proof.
    unfold eval_effect. cbn [rule_effect e_args e_cond e_val e_fl e_kind evals_l].
    rewrite eval_cond. destruct (fires s r); reflexivity.
  Qed.

  Lemma fired_rules rules :
    fired false I (map rule_effect rules) = Some (map rule_aeff (filter (fires s) rules)).
  Proof.
    unfold fired. induction rules as [|r rules IH]; [reflexivity|].
    cbn [map flat_map]. cbn [rule_effect e_vars instances map app]. fold (rule_effect r).
    rewrite eval_rule_effect. cbn [filter]. destruct (fires s r); cbn [collect_res app]; rewrite IH; reflexivity.
  Qed.

  Lemma atom_is_bool p : existsb (N.eqb p) (np_atoms NP) = true -> is_bool_fluent (embed NP) p = true.
  Proof.
    unfold is_bool_fluent, embed. cbn [p_fluents]. intros H. rewrite existsb_exists in *.
    destruct H as [q [Hq E]]. apply N.eqb_eq in E. subst q.
    exists {| fd_id := p; fd_sig := []; fd_ty := FBool |}. split; [apply in_map_iff; exists p; auto|].
    simpl. rewrite N.eqb_refl. reflexivity.
  Qed.

  Lemma avals_cons k a l :
    avals k (a :: l) = if gfl_eqb (ae_key a) k && is_assign a then ae_val a :: avals k l else avals k l.
  Proof. unfold avals. cbn [filter]. destruct (gfl_eqb (ae_key a) k && is_assign a); reflexivity. Qed.

  Lemma deltas_cons k a l :
    deltas k (a :: l) = if gfl_eqb (ae_key a) k && negb (is_assign a) then delta_of a :: deltas k l else deltas k l.
  Proof. unfold deltas. cbn [filter]. destruct (gfl_eqb (ae_key a) k && negb (is_assign a)); reflexivity. Qed.

  Lemma rule_key_test r p args :
    gfl_eqb (ae_key (rule_aeff r)) (p, args) = (fst (r_tgt r) =? p)%N && match args with [] => true | _ => false end.
  Proof. unfold gfl_eqb, rule_aeff. simpl. destruct args; reflexivity. Qed.

  Lemma avals_rules0 p rules :
    avals (p, []) (map rule_aeff (filter (fires s) rules))
    = map (fun r => VBool (snd (r_tgt r))) (filter (fun r => fires s r && (fst (r_tgt r) =? p)%N) rules).
  Proof.
    induction rules as [|r rules IH]; [reflexivity|].
    cbn [filter]. destruct (fires s r); cbn [andb]; [|exact IH].
    cbn [map]. rewrite avals_cons, rule_key_test, IH. cbn [rule_aeff is_assign ae_kind ae_val].
    rewrite !andb_true_r. destruct (fst (r_tgt r) =? p)%N; reflexivity.
  Qed.

  Lemma avals_rules1 p x args rules : avals (p, x :: args) (map rule_aeff (filter (fires s) rules)) = [].
  Proof.
    induction rules as [|r rules IH]; [reflexivity|].
    cbn [filter]. destruct (fires s r); [|exact IH].
    cbn [map]. rewrite avals_cons, rule_key_test, IH. rewrite andb_false_r. reflexivity.
  Qed.

  Lemma deltas_rules k rules : deltas k (map rule_aeff (filter (fires s) rules)) = [].
  Proof.
    induction rules as [|r rules IH]; [reflexivity|].
    cbn [filter]. destruct (fires s r); [|exact IH]. cbn [map]. rewrite deltas_cons, IH.
    cbn [rule_aeff is_assign ae_kind negb]. rewrite andb_false_r. reflexivity.
  Qed.

  Variable a : nact.
  Hypothesis Ha : In a (np_acts NP).

  Lemma rule_target_atom r : In r (na_rules a) -> is_bool_fluent (embed NP) (fst (r_tgt r)) = true.
  Proof.
    intros Hr. apply atom_is_bool.
    unfold nwf in Hwf. apply andb_true_iff in Hwf. destruct Hwf as [Hacts _].
    rewrite forallb_forall in Hacts. specialize (Hacts a Ha). apply andb_true_iff in Hacts. destruct Hacts as [_ Hrules].
    rewrite forallb_forall in Hrules. specialize (Hrules r Hr). apply andb_true_iff in Hrules. apply Hrules.
  Qed.

  Definition fired_acts : list aeff := map rule_aeff (filter (fires s) (na_rules a)).

  (* the combined effect on atom p: a true assignment wins, else a false one, else unchanged *)
  Lemma combine_rules p rules :
    (match map (fun r => VBool (snd (r_tgt r))) (filter (fun r => fires s r && (fst (r_tgt r) =? p)%N) rules) with
     | [] => CUnchanged
     | v :: A => CVal (VBool (existsb is_vtrue (v :: A)))
     end)
    = if existsb (fun r => fires s r && lit_eqb (r_tgt r) (p, true)) rules then CVal (VBool true)
      else if existsb (fun r => fires s r && lit_eqb (r_tgt r) (p, false)) rules then CVal (VBool false)
      else CUnchanged.
  Proof.
    induction rules as [|r rules IH]; [reflexivity|].
    cbn [filter existsb]. destruct (fires s r); cbn [andb]; [|exact IH].
    change (lit_eqb (r_tgt r) (p, true)) with ((fst (r_tgt r) =? p)%N && Bool.eqb (snd (r_tgt r)) true).
    change (lit_eqb (r_tgt r) (p, false)) with ((fst (r_tgt r) =? p)%N && Bool.eqb (snd (r_tgt r)) false).
    destruct (fst (r_tgt r) =? p)%N; cbn [andb orb]; [|exact IH].
    cbn [map].
    set (F := map (fun r0 : nrule => VBool (snd (r_tgt r0)))
                  (filter (fun r0 : nrule => fires s r0 && (fst (r_tgt r0) =? p)%N) rules)) in *.
    set (Et := existsb (fun r0 : nrule => fires s r0 && lit_eqb (r_tgt r0) (p, true)) rules) in *.
    set (Ef := existsb (fun r0 : nrule => fires s r0 && lit_eqb (r_tgt r0) (p, false)) rules) in *.
    destruct (snd (r_tgt r)); cbn [existsb is_vtrue Bool.eqb orb].
    - reflexivity.
    - destruct F as [|v l].
      + destruct Et; [discriminate IH | reflexivity].
      + destruct Et.
        * injection IH as IH. cbn [existsb] in *. rewrite IH. reflexivity.
        * destruct Ef; [injection IH as IH; cbn [existsb] in *; rewrite IH; reflexivity | discriminate IH].
  Qed.

  Lemma spec_fluent_rules p :
    spec_fluent (embed NP) (embed_state s) fired_acts (p, [])
    = if sets s a (p, true) then CVal (VBool true) else if sets s a (p, false) then CVal (VBool false) else CUnchanged.
  Proof.
    unfold spec_fluent, fired_acts, sets. cbn [fst snd]. rewrite avals_rules0, deltas_rules.
    rewrite <- combine_rules.
    destruct (map (fun r => VBool (snd (r_tgt r))) (filter (fun r => fires s r && (fst (r_tgt r) =? p)%N) (na_rules a)))
      as [|v A] eqn:EA; [reflexivity|].
    assert (Hb : is_bool_fluent (embed NP) p = true).
    { assert (Hin : In v (v :: A)) by (left; reflexivity). rewrite <- EA in Hin.
      apply in_map_iff in Hin. destruct Hin as [r [_ Hr]]. apply filter_In in Hr. destruct Hr as [Hr Hc].
      apply andb_true_iff in Hc. destruct Hc as [_ Hc]. apply N.eqb_eq in Hc. subst p. apply rule_target_atom, Hr. }
    unfold combine. rewrite Hb. reflexivity.
  Qed.

  Lemma spec_fluent_args p x args : spec_fluent (embed NP) (embed_state s) fired_acts (p, x :: args) = CUnchanged.
  Proof. unfold spec_fluent, fired_acts. cbn [fst snd]. rewrite avals_rules1, deltas_rules. reflexivity. Qed.

  Lemma effects_ok_rules : spec_effects_ok (embed NP) (embed_state s) fired_acts = true.
  Proof.
    unfold spec_effects_ok. apply forallb_forall. intros x Hx. unfold fired_acts in Hx.
    apply in_map_iff in Hx. destruct Hx as [r [<- _]]. cbn [rule_aeff ae_key].
    rewrite spec_fluent_rules. destruct (sets s a (fst (r_tgt r), true)); [reflexivity|].
    destruct (sets s a (fst (r_tgt r), false)); reflexivity.
  Qed.

  Lemma succ_rules : state_eq (spec_succ (embed NP) (embed_state s) fired_acts) (embed_state (nsucc s a)).
  Proof.
    intros f args. unfold spec_succ. destruct args as [|x args].
    - rewrite spec_fluent_rules. unfold embed_state, nsucc.
      destruct (sets s a (f, true)); [reflexivity|]. destruct (sets s a (f, false)); reflexivity.
    - rewrite spec_fluent_args. reflexivity.
  Qed.

  Lemma bound_invs_embed : bound_invs (embed NP) = [].
  Proof.
    unfold bound_invs. change (p_fluents (embed NP)) with (map (fun p => {| fd_id := p; fd_sig := []; fd_ty := FBool |}) (np_atoms NP)).
    generalize (embed NP). intros Q. induction (np_atoms NP) as [|p l IH]; [reflexivity | exact IH].
  Qed.

  Lemma embed_step :
    match nstep s a with
    | Some s' => exists t, spec_step false (embed NP) (embed_state s) (embed_act a) [] = Some t /\ state_eq t (embed_state s')
    | None => spec_step false (embed NP) (embed_state s) (embed_act a) [] = None
    end.
  Proof.
    unfold nstep, spec_step. cbn [embed_act a_params a_pre a_effs zip_params].
    fold I. rewrite all_hold_lits. destruct (forallb (holds_lit s) (na_pre a)); cbn [negb]; [|reflexivity].
    rewrite fired_rules. fold fired_acts. rewrite effects_ok_rules. cbn [negb].
    unfold invariants_ok. rewrite bound_invs_embed. cbn [embed p_invs app all_hold forallb].
    eexists. split; [reflexivity | apply succ_rules].
  Qed.
End Embed.

Lemma lookupN_number_from {A} (l : list A) : forall k i, lookupN (N.of_nat (k + i)) (number_from k l) = nth_error l i.
Proof.
  induction l as [|x l IH]; intros k i; [destruct i; reflexivity|]. cbn [number_from lookupN].
  destruct i as [|i].
  - rewrite Nat.add_0_r, N.eqb_refl. reflexivity.
  - assert (E : (N.of_nat (k + S i) =? N.of_nat k)%N = false) by (apply N.eqb_neq; lia).
    rewrite E. rewrite <- Nat.add_succ_comm. apply IH.
Qed.

Lemma lookup_embed NP i : lookup_action (embed NP) (N.of_nat i) = option_map embed_act (nth_error (np_acts NP) i).
Proof.
  unfold lookup_action, embed. cbn [p_actions]. rewrite (lookupN_number_from _ 0 i). apply nth_error_map.
Qed.

(* validity of a plan of the prepared problem = validity in the shared semantics of its embedding *)
Theorem embed_valid NP : nwf NP = true -> forall pi s t,
  state_eq t (embed_state s) -> valid_plan false (embed NP) t (embed_plan pi) = nvalid NP s pi.
Proof.
  intros Hwf. induction pi as [|i pi IH]; intros s t Ht.
  - cbn [embed_plan map nvalid]. unfold valid_plan. cbn [run].
    rewrite (kgoals_hold_ext false (embed NP) _ _ Ht). unfold goals_hold. cbn [embed p_goals]. apply all_hold_lits.
  - cbn [embed_plan map nvalid]. fold (embed_plan pi). rewrite valid_plan_cons. unfold sstep. cbn [fst snd].
    rewrite lookup_embed. destruct (nth_error (np_acts NP) i) as [a|] eqn:Ea; cbn [option_map]; [|reflexivity].
    pose proof (kspec_step_ext false (embed NP) t (embed_state s) (embed_act a) [] Ht) as Hx.
    pose proof (embed_step NP Hwf s a (nth_error_In _ _ Ea)) as Hs.
    destruct (nstep s a) as [s'|].
    + destruct Hs as [t' [E Ht']]. rewrite E in Hx.
      destruct (spec_step false (embed NP) t (embed_act a) []) as [t''|]; [|contradiction].
      apply IH. eapply kstate_eq_trans; eauto.
    + rewrite Hs in Hx. destruct (spec_step false (embed NP) t (embed_act a) []); [contradiction | reflexivity].
Qed.

Lemma embed_conformant NP : nwf NP = true -> forall S0 pi,
  conformant_check (embed NP) (map embed_state S0) (embed_plan pi) = nconformant NP S0 pi.
Proof.
  intros Hwf S0 pi. rewrite conformant_check_forallb. unfold nconformant.
  induction S0 as [|s S0 IH]; [reflexivity|]. cbn [map forallb].
  rewrite (embed_valid NP Hwf pi s (embed_state s) (kstate_eq_refl _)), IH. reflexivity.
Qed.

(* the reduction theorem over the shared planning semantics [spec_step false] *)
Theorem basis_reduction_sound NP fuel R S0 :
  nwf NP = true -> relevance NP fuel = Some R ->
  forall pi, conformant_check (embed NP) (map embed_state (reduce_to_basis NP R S0)) (embed_plan pi)
             = conformant_check (embed NP) (map embed_state S0) (embed_plan pi).
Proof.
  intros Hwf Hr pi. rewrite !(embed_conformant NP Hwf). apply (basis_reduction_sound_lemma NP fuel R S0 Hwf Hr).
Qed.
