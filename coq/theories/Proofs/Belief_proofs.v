(* Proofs for Model/Belief.v (C30). *)
From Coq Require Import List ZArith NArith Bool Lia.
Import ListNotations.
Require Import UPV.Core.Expr UPV.Core.Eval UPV.Core.Interp UPV.Planning.Problem UPV.Planning.Sem.
Require Import UPV.Proofs.Eval_lemmas UPV.Proofs.Sem_proofs UPV.Proofs.Step_proofs.
Require Import UPV.Model.Belief.

(* ================================================================== Part 0: breadth-first exploration *)
Section BFS_proofs.
  Context {node : Type}.
  Variable eqb : node -> node -> bool.
  Hypothesis eqb_spec : forall x y, eqb x y = true <-> x = y.
  Variable succs : node -> list node.

  Inductive reachn : nat -> node -> node -> Prop :=
  | reach0 x : reachn 0 x x
  | reachS k x y z : In y (succs x) -> reachn k y z -> reachn (S k) x z.

  Lemma nmem_In x l : nmem eqb x l = true <-> In x l.
  Proof.
    unfold nmem. rewrite existsb_exists. split.
    - intros [y [Hy E]]. apply eqb_spec in E. subst. exact Hy.
    - intros H. exists x. split; [exact H | apply eqb_spec; reflexivity].
  Qed.

  Lemma add_new_spec cands : forall seen new seen' new',
    add_new eqb seen new cands = (seen', new') ->
    (forall x, In x seen' <-> In x seen \/ In x cands) /\
    (forall x, In x new' <-> In x new \/ (In x cands /\ ~ In x seen)).
  Proof.
    induction cands as [|c cs IH]; intros seen new seen' new' H; simpl in H.
    - inversion H; subst. split; intros x; simpl; tauto.
    - destruct (nmem eqb c seen) eqn:E.
      + apply nmem_In in E. destruct (IH _ _ _ _ H) as [A B]. split; intros x.
        * rewrite A. simpl. split; [tauto|]. intros [?|[?|?]]; subst; auto.
        * rewrite B. simpl. split; [tauto|]. intros [?|[[?|?] ?]]; subst; tauto.
      + assert (Hn : ~ In c seen) by (intros Hc; apply nmem_In in Hc; congruence).
        destruct (IH _ _ _ _ H) as [A B]. split; intros x.
        * rewrite A. simpl. tauto.
        * rewrite B. simpl. split.
          -- intros [[Hx|Hx]|[Hx Hx']]; [subst; auto | auto | right; split; [auto|]; intros Hs; apply Hx'; auto].
          -- intros [Hx|[[Hx|Hx] Hx']]; [auto | subst; auto |].
             destruct (eqb c x) eqn:E2.
             ++ apply eqb_spec in E2. subst. auto.
             ++ right. split; [exact Hx|]. intros [Hc|Hc]; [|auto].
                subst. assert (eqb x x = true) by (apply eqb_spec; reflexivity). congruence.
  Qed.

  Definition binv (seen frontier : list node) : Prop :=
    incl frontier seen /\ forall z, In z seen -> ~ In z frontier -> incl (succs z) seen.

  Lemma binv_step seen frontier seen' new :
    binv seen frontier -> add_new eqb seen [] (flat_map succs frontier) = (seen', new) ->
    binv seen' new /\ incl seen seen' /\ (forall x, In x frontier -> incl (succs x) seen').
  Proof.
    intros [Hf Hc] H. destruct (add_new_spec _ _ _ _ _ H) as [A B].
    assert (Hinc : incl seen seen') by (intros x Hx; apply A; auto).
    assert (Hfr : forall x, In x frontier -> incl (succs x) seen').
    { intros x Hx y Hy. apply A. right. apply in_flat_map. exists x. auto. }
    split; [|split; assumption]. split.
    - intros x Hx. apply B in Hx. destruct Hx as [[]|[Hx _]]. apply A. auto.
    - intros z Hz Hnz. destruct (nmem eqb z seen) eqn:Es.
      + apply nmem_In in Es. destruct (nmem eqb z frontier) eqn:E.
        * apply nmem_In in E. apply Hfr, E.
        * intros y Hy. apply Hinc. apply (Hc z Es); [|exact Hy]. intros Hc'. apply nmem_In in Hc'. congruence.
      + assert (Hns : ~ In z seen) by (intros Hc'; apply nmem_In in Hc'; congruence).
        exfalso. apply Hnz. apply B. right. split; [|exact Hns].
        apply A in Hz. tauto.
  Qed.

  Lemma bfs_mono n : forall seen frontier, incl seen (bfs eqb succs n seen frontier).
  Proof.
    induction n as [|n IH]; intros seen frontier; simpl; [apply incl_refl|].
    destruct (add_new eqb seen [] (flat_map succs frontier)) as [seen' new] eqn:E.
    destruct (add_new_spec _ _ _ _ _ E) as [A _].
    intros x Hx. apply IH. apply A. auto.
  Qed.

  (* after n rounds every node reachable from a seen node in at most n steps has been seen *)
  Lemma bfs_complete n : forall seen frontier, binv seen frontier ->
    forall k x y, In x seen -> k <= n -> reachn k x y -> In y (bfs eqb succs n seen frontier).
  Proof.
    induction n as [|n IHn]; intros seen frontier Hinv k x y Hx Hk Hr.
    - assert (k = 0) by lia. subst. inversion Hr; subst. exact Hx.
    - simpl. destruct (add_new eqb seen [] (flat_map succs frontier)) as [seen' new] eqn:E.
      destruct (binv_step _ _ _ _ Hinv E) as [Hinv' [Hinc Hfr]].
      revert x Hx Hk Hr. induction k as [|k IHk]; intros x Hx Hk Hr.
      + inversion Hr; subst. apply bfs_mono, Hinc, Hx.
      + inversion Hr as [|k' x' p1 y' Hp1 Hr']; subst.
        destruct (nmem eqb x frontier) eqn:Ef.
        * apply nmem_In in Ef. apply (IHn seen' new Hinv' k p1 y); [apply (Hfr x Ef), Hp1 | lia | exact Hr'].
        * apply (IHk p1); [|lia|exact Hr'].
          destruct Hinv as [_ Hc]. apply (Hc x Hx); [|exact Hp1]. intros Hc'. apply nmem_In in Hc'. congruence.
  Qed.

  Lemma binv_init x0 : binv [x0] [x0].
  Proof. split; [apply incl_refl|]. intros z Hz Hn. contradiction. Qed.

  Lemma bfs_complete0 n x0 k y : k <= n -> reachn k x0 y -> In y (bfs eqb succs n [x0] [x0]).
  Proof. intros Hk Hr. apply (bfs_complete n _ _ (binv_init x0) k x0 y); simpl; auto. Qed.

  (* a closed set contains everything reachable from its members *)
  Lemma closedb_reach V : closedb eqb succs V = true -> forall k x y, In x V -> reachn k x y -> In y V.
  Proof.
    intros Hc k x y Hx Hr. induction Hr as [|k x p1 y Hp1 Hr IH]; [exact Hx|].
    apply IH. unfold closedb in Hc. rewrite forallb_forall in Hc. specialize (Hc x Hx).
    rewrite forallb_forall in Hc. apply nmem_In, Hc, Hp1.
  Qed.

  (* every node found is reachable within the number of rounds *)
  Lemma bfs_sound n : forall seen frontier y, incl frontier seen -> In y (bfs eqb succs n seen frontier) ->
    In y seen \/ exists x k, In x frontier /\ k <= n /\ reachn k x y.
  Proof.
    induction n as [|n IH]; intros seen frontier y Hf Hy; simpl in Hy; [auto|].
    destruct (add_new eqb seen [] (flat_map succs frontier)) as [seen' new] eqn:E.
    destruct (add_new_spec _ _ _ _ _ E) as [A B].
    assert (Hn : incl new seen').
    { intros x Hx. apply B in Hx. destruct Hx as [[]|[Hx _]]. apply A. auto. }
    destruct (IH seen' new y Hn Hy) as [Hs|[x [k [Hx [Hk Hr]]]]].
    - apply A in Hs. destruct Hs as [Hs|Hs]; [auto|]. right.
      apply in_flat_map in Hs. destruct Hs as [x [Hx Hxy]].
      exists x, 1. split; [exact Hx|]. split; [lia|]. eapply reachS; [exact Hxy | apply reach0].
    - right. apply B in Hx. destruct Hx as [[]|[Hx _]]. apply in_flat_map in Hx. destruct Hx as [x0 [Hx0 Hx0x]].
      exists x0, (S k). split; [exact Hx0|]. split; [lia|]. eapply reachS; eauto.
  Qed.
End BFS_proofs.

(* ================================================================== Part 1: finite states *)
Lemma kstate_eq_refl s : state_eq s s.
Proof. intros f a; reflexivity. Qed.
Lemma kstate_eq_sym s t : state_eq s t -> state_eq t s.
Proof. intros H f a; symmetry; apply H. Qed.
Lemma kstate_eq_trans s t u : state_eq s t -> state_eq t u -> state_eq s u.
Proof. intros H1 H2 f a; rewrite H1; apply H2. Qed.

Lemma kspec_fluent_ext P s t acts k : state_eq s t -> spec_fluent P s acts k = spec_fluent P t acts k.
Proof. intros H. unfold spec_fluent. rewrite (H (fst k) (snd k)). reflexivity. Qed.

Lemma kspec_effects_ok_ext P s t acts : state_eq s t -> spec_effects_ok P s acts = spec_effects_ok P t acts.
Proof.
  intros H. unfold spec_effects_ok. generalize acts at 2 4. intros l.
  induction l as [|a l IH]; simpl; [reflexivity|]. rewrite (kspec_fluent_ext P s t acts _ H), IH. reflexivity.
Qed.

Lemma kspec_succ_ext P s t acts : state_eq s t -> state_eq (spec_succ P s acts) (spec_succ P t acts).
Proof. intros H f a. unfold spec_succ. rewrite (kspec_fluent_ext P s t acts _ H), (H f a). reflexivity. Qed.

Lemma kspec_step_ext sc P s t a args :
  state_eq s t -> ostate_eq (spec_step sc P s a args) (spec_step sc P t a args).
Proof.
  intros H. unfold spec_step.
  pose proof (mk_interp_ext P s t (zip_params (a_params a) args) H) as HI.
  rewrite (all_hold_ext sc _ _ (a_pre a) HI), (fired_ext sc (a_effs a) _ _ HI).
  destruct (negb (all_hold sc (mk_interp P t (zip_params (a_params a) args)) (a_pre a))); [exact I|].
  destruct (fired sc (mk_interp P t (zip_params (a_params a) args)) (a_effs a)) as [acts|]; [|exact I].
  rewrite (kspec_effects_ok_ext P s t acts H).
  destruct (negb (spec_effects_ok P t acts)); [exact I|].
  rewrite (invariants_ok_ext sc P _ _ (kspec_succ_ext P s t acts H)).
  destruct (invariants_ok sc P (spec_succ P t acts)); [|exact I].
  apply kspec_succ_ext, H.
Qed.

Lemma kgoals_hold_ext sc P s t : state_eq s t -> goals_hold sc P s = goals_hold sc P t.
Proof. intros H. unfold goals_hold. apply all_hold_ext, mk_interp_ext, H. Qed.

Lemma sstep_ext P s t st : state_eq s t -> ostate_eq (sstep P s st) (sstep P t st).
Proof. intros H. unfold sstep. destruct (lookup_action P (fst st)); [apply kspec_step_ext, H | exact I]. Qed.

Definition supported (K : list gfl) (s : state) : Prop := forall f a, amem (f, a) K = false -> s f a = None.

Lemma fst_of_tab K s f a : fst_of (tab K s) f a = if amem (f, a) K then s f a else None.
Proof.
  unfold fst_of. induction K as [|[g b] K IH]; simpl; [reflexivity|].
  unfold gfl_eqb at 1. simpl.
  destruct (s g b) as [v|] eqn:Es; simpl.
  - destruct ((f =? g)%N && values_eqb a b) eqn:E; simpl.
    + apply andb_true_iff in E. destruct E as [E1 E2]. apply N.eqb_eq in E1. apply values_eqb_eq in E2. subst.
      rewrite Es. reflexivity.
    + exact IH.
  - destruct ((f =? g)%N && values_eqb a b) eqn:E; simpl.
    + apply andb_true_iff in E. destruct E as [E1 E2]. apply N.eqb_eq in E1. apply values_eqb_eq in E2. subst.
      rewrite IH, Es. destruct (amem (g, b) K); reflexivity.
    + exact IH.
Qed.

Lemma supported_tab K s : supported K (fst_of (tab K s)).
Proof. intros f a H. rewrite fst_of_tab, H. reflexivity. Qed.

Lemma tab_roundtrip K s : supported K s -> state_eq (fst_of (tab K s)) s.
Proof.
  intros H f a. rewrite fst_of_tab. destruct (amem (f, a) K) eqn:E; [reflexivity|]. symmetry. apply H, E.
Qed.

Lemma tab_ext K s t : state_eq s t -> tab K s = tab K t.
Proof.
  intros H. unfold tab. induction K as [|k K IH]; simpl; [reflexivity|]. rewrite (H (fst k) (snd k)), IH. reflexivity.
Qed.

Lemma keys_in_supported K l : keys_in K l = true -> supported K (fst_of l).
Proof.
  intros H f a Hm. unfold fst_of. induction l as [|[[g b] v] l IH]; simpl; [reflexivity|].
  simpl in H. apply andb_true_iff in H. destruct H as [H1 H2].
  destruct ((f =? g)%N && values_eqb a b) eqn:E.
  - apply andb_true_iff in E. destruct E as [E1 E2]. apply N.eqb_eq in E1. apply values_eqb_eq in E2. subst.
    simpl in H1. congruence.
  - apply IH, H2.
Qed.

Lemma amem_In k l : amem k l = true <-> In k l.
Proof.
  unfold amem. rewrite existsb_exists. split.
  - intros [y [Hy E]]. apply gfl_eqb_eq in E. subst. exact Hy.
  - intros H. exists k. split; [exact H | apply gfl_eqb_refl].
Qed.

Lemma spec_succ_supported K P s acts :
  supported K s -> forallb (fun x => amem (ae_key x) K) acts = true -> supported K (spec_succ P s acts).
Proof.
  intros Hs Hw f a Hm. unfold spec_succ, spec_fluent.
  assert (Hnone : forall (g : aeff -> bool), filter (fun x => gfl_eqb (ae_key x) (f, a) && g x) acts = []).
  { intros g. rewrite forallb_forall in Hw. induction acts as [|x acts IH]; simpl; [reflexivity|].
    destruct (gfl_eqb (ae_key x) (f, a)) eqn:E; simpl.
    - apply gfl_eqb_eq in E. specialize (Hw x (or_introl eq_refl)). rewrite E in Hw. congruence.
    - apply IH. intros y Hy. apply Hw. right. exact Hy. }
  unfold avals, deltas. rewrite (Hnone is_assign), (Hnone (fun x => negb (is_assign x))). simpl.
  apply Hs, Hm.
Qed.

Lemma spec_step_succ sc P s a args s' :
  spec_step sc P s a args = Some s' ->
  exists acts, fired sc (mk_interp P s (zip_params (a_params a) args)) (a_effs a) = Some acts /\ s' = spec_succ P s acts.
Proof.
  unfold spec_step. intros H.
  destruct (negb (all_hold sc (mk_interp P s (zip_params (a_params a) args)) (a_pre a))); [discriminate|].
  destruct (fired sc (mk_interp P s (zip_params (a_params a) args)) (a_effs a)) as [acts|]; [|discriminate].
  destruct (negb (spec_effects_ok P s acts)); [discriminate|].
  destruct (invariants_ok sc P (spec_succ P s acts)); [|discriminate].
  inversion H. exists acts. auto.
Qed.

Lemma fstep_some K P l a args l' :
  supported K (fst_of l) -> fstep K P l a args = FSome l' ->
  exists s', spec_step false P (fst_of l) a args = Some s' /\ state_eq (fst_of l') s' /\ l' = tab K s'.
Proof.
  intros Hs H. unfold fstep in H.
  destruct (fired false (mk_interp P (fst_of l) (zip_params (a_params a) args)) (a_effs a)) as [acts|] eqn:Ef; [|discriminate].
  destruct (forallb (fun x => amem (ae_key x) K) acts) eqn:Ew; [|discriminate].
  destruct (spec_step false P (fst_of l) a args) as [s'|] eqn:Es; [|discriminate].
  inversion H; subst. exists s'. split; [reflexivity|]. split; [|reflexivity].
  apply tab_roundtrip. destruct (spec_step_succ _ _ _ _ _ _ Es) as [acts' [Ef' ->]].
  rewrite Ef in Ef'. inversion Ef'; subst. apply spec_succ_supported; assumption.
Qed.

Lemma fstep_none K P l a args : fstep K P l a args = FNone -> spec_step false P (fst_of l) a args = None.
Proof.
  intros H. unfold fstep in H.
  destruct (fired false (mk_interp P (fst_of l) (zip_params (a_params a) args)) (a_effs a)) as [acts|] eqn:Ef.
  - destruct (forallb (fun x => amem (ae_key x) K) acts); [|discriminate].
    destruct (spec_step false P (fst_of l) a args); [discriminate | reflexivity].
  - unfold spec_step. rewrite Ef. destruct (negb _); reflexivity.
Qed.

Lemma value_eqb_refl' v : value_eqb v v = true.
Proof. apply value_eqb_eq. reflexivity. Qed.

Lemma fstate_eqb_eq a : forall b, fstate_eqb a b = true <-> a = b.
Proof.
  induction a as [|[[f x] v] a IH]; intros [|[[g y] w] b]; simpl; try (split; [discriminate | intros H; discriminate H]); [tauto|].
  unfold entry_eqb. simpl. rewrite !andb_true_iff, gfl_eqb_eq, value_eqb_eq, IH.
  split; [intros [[E ->] ->]; inversion E; reflexivity | intros H; inversion H; auto].
Qed.

Lemma belief_eqb_eq a : forall b, belief_eqb a b = true <-> a = b.
Proof.
  induction a as [|x a IH]; intros [|y b]; simpl; try (split; [discriminate | intros H; discriminate H]); [tauto|].
  rewrite andb_true_iff, fstate_eqb_eq, IH. split; [intros [-> ->]; reflexivity | intros H; inversion H; auto].
Qed.

Lemma bnode_eqb_eq (a b : bnode) : bnode_eqb a b = true <-> a = b.
Proof.
  destruct a as [x|], b as [y|]; simpl; try (split; [discriminate | intros H; discriminate H]); [|tauto].
  rewrite belief_eqb_eq. split; [intros ->; reflexivity | intros H; inversion H; auto].
Qed.

Lemma cnode_eqb_eq (a b : cnode) : cnode_eqb a b = true <-> a = b.
Proof.
  destruct a as [x|], b as [y|]; simpl; try (split; [discriminate | intros H; discriminate H]); [|tauto].
  rewrite fstate_eqb_eq. split; [intros ->; reflexivity | intros H; inversion H; auto].
Qed.

Lemma pnode_eqb_eq (a b : pnode) : pnode_eqb a b = true <-> a = b.
Proof.
  destruct a as [[c1 o1]|], b as [[c2 o2]|]; simpl; try (split; [discriminate | intros H; discriminate H]); [|tauto].
  rewrite andb_true_iff, fstate_eqb_eq.
  destruct o1 as [x|], o2 as [y|]; simpl; try (split; [intros [_ H]; discriminate | intros H; discriminate H]).
  - rewrite belief_eqb_eq. split; [intros [-> ->]; reflexivity | intros H; inversion H; auto].
  - split; [intros [-> _]; reflexivity | intros H; inversion H; auto].
Qed.

(* ================================================================== Part 2: belief semantics *)
Definition plan_over (insts : list step_id) (pi : plan) : Prop := Forall (fun st => In st insts) pi.

Lemma valid_plan_cons P s st pi :
  valid_plan false P s (st :: pi) = match sstep P s st with Some s' => valid_plan false P s' pi | None => false end.
Proof.
  unfold valid_plan, sstep. destruct st as [aid args]. simpl.
  destruct (lookup_action P aid) as [a|]; [|reflexivity].
  destruct (spec_step false P s a args); reflexivity.
Qed.

Lemma forallb_map_opt {A B} (f : A -> option B) (g : B -> bool) l :
  forallb (fun x => match f x with Some y => g y | None => false end) l
  = match map_opt f l with Some r => forallb g r | None => false end.
Proof.
  induction l as [|x l IH]; simpl; [reflexivity|]. rewrite IH.
  destruct (f x) as [y|]; [|reflexivity]. destruct (map_opt f l); simpl; [reflexivity | apply andb_false_r].
Qed.

Lemma kforallb_ext {A} (f g : A -> bool) l : (forall x, f x = g x) -> forallb f l = forallb g l.
Proof. intros H. induction l as [|x l IH]; simpl; [reflexivity|]. rewrite H, IH. reflexivity. Qed.

Lemma conformant_check_forallb P pi : forall b,
  conformant_check P b pi = forallb (fun s => valid_plan false P s pi) b.
Proof.
  induction pi as [|st pi IH]; intros b.
  - reflexivity.
  - unfold conformant_check. cbn [brun]. unfold bstep.
    rewrite (kforallb_ext (fun s => valid_plan false P s (st :: pi))
               (fun s => match sstep P s st with Some s' => valid_plan false P s' pi | None => false end) b
               (fun s => valid_plan_cons P s st pi)).
    rewrite (forallb_map_opt (fun s => sstep P s st) (fun s' => valid_plan false P s' pi)).
    destruct (map_opt (fun s => sstep P s st) b) as [b'|]; [|reflexivity].
    rewrite <- IH. reflexivity.
Qed.

(* a plan passes [conformant_check] iff it is valid (executable and goal-reaching) from every possible initial state *)
Theorem conformant_check_correct P inits pi :
  conformant_check P inits pi = true <-> forall s, In s inits -> valid_plan false P s pi = true.
Proof. rewrite conformant_check_forallb, forallb_forall. tauto. Qed.

(* ---- tabulated states simulate function states *)
Definition frel (K : list gfl) (l : fstate) (s : state) : Prop := state_eq (fst_of l) s /\ supported K (fst_of l).

Lemma frel_tab K s : supported K s -> frel K (tab K s) s.
Proof. intros H. split; [apply tab_roundtrip, H | apply supported_tab]. Qed.

Lemma frel_init K l : keys_in K l = true -> frel K (tab K (fst_of l)) (fst_of l).
Proof. intros H. apply frel_tab, keys_in_supported, H. Qed.

Lemma fstep_sim K P l s a args : frel K l s ->
  match fstep K P l a args with
  | FErr => True
  | FNone => spec_step false P s a args = None
  | FSome l' => exists s', spec_step false P s a args = Some s' /\ frel K l' s'
  end.
Proof.
  intros [He Hs]. pose proof (kspec_step_ext false P (fst_of l) s a args He) as Hx.
  destruct (fstep K P l a args) as [| |l'] eqn:E; [exact I| |].
  - rewrite (fstep_none _ _ _ _ _ E) in Hx. destruct (spec_step false P s a args); [contradiction | reflexivity].
  - destruct (fstep_some _ _ _ _ _ _ Hs E) as [s1 [E1 [E2 E3]]]. rewrite E1 in Hx.
    destruct (spec_step false P s a args) as [s2|]; [|contradiction].
    exists s2. split; [reflexivity|]. split.
    + eapply kstate_eq_trans; [exact E2 | exact Hx].
    + subst l'. apply supported_tab.
Qed.

Lemma fmap_step_sim K P a args : forall b bs, Forall2 (frel K) b bs ->
  match fmap_step K P a args b with
  | BErr => True
  | BNone => map_opt (fun s => spec_step false P s a args) bs = None
  | BSome b' => exists bs', map_opt (fun s => spec_step false P s a args) bs = Some bs' /\ Forall2 (frel K) b' bs'
  end.
Proof.
  intros b bs H. induction H as [|l s b bs Hl Hb IH]; simpl.
  - exists []. split; [reflexivity | constructor].
  - pose proof (fstep_sim K P l s a args Hl) as Hx.
    destruct (fstep K P l a args) as [| |l'].
    + exact I.
    + destruct (fmap_step K P a args b); [exact I | |]; rewrite Hx; reflexivity.
    + destruct Hx as [s' [Es Hr]]. destruct (fmap_step K P a args b) as [| |b'].
      * exact I.
      * rewrite Es, IH. reflexivity.
      * destruct IH as [bs' [Eb Hb']]. exists (s' :: bs'). rewrite Es, Eb. split; [reflexivity | constructor; assumption].
Qed.

Lemma bgoal_rel K P b bs : Forall2 (frel K) b bs -> bgoalF P b = bgoal P bs.
Proof.
  intros H. unfold bgoalF, bgoal. induction H as [|l s b bs [Hl _] Hb IH]; simpl; [reflexivity|].
  unfold fgoal at 1. rewrite (kgoals_hold_ext false P _ _ Hl), IH. reflexivity.
Qed.

Lemma map_opt_sstep P st a bs : lookup_action P (fst st) = Some a ->
  map_opt (fun s => sstep P s st) bs = map_opt (fun s => spec_step false P s a (snd st)) bs.
Proof. intros E. induction bs as [|s bs IH]; simpl; [reflexivity|]. unfold sstep at 1. rewrite E, IH. reflexivity. Qed.

(* a conformant plan traces a path of the belief graph to a goal node (or runs into the "outside the model" node) *)
Lemma belief_path K P insts : forall pi b bs,
  Forall2 (frel K) b bs -> plan_over insts pi -> conformant_check P bs pi = true ->
  (exists k, k <= length pi /\ reachn (bsuccs K P insts) k (Some b) None)
  \/ (exists k bg, k <= length pi /\ reachn (bsuccs K P insts) k (Some b) (Some bg) /\ bgoalF P bg = true).
Proof.
  induction pi as [|st pi IH]; intros b bs Hrel Hover Hc.
  - right. exists 0, b. split; [simpl; lia|]. split; [constructor|].
    rewrite (bgoal_rel K P b bs Hrel). exact Hc.
  - inversion Hover as [|? ? Hin Hover']; subst.
    unfold conformant_check in Hc. simpl in Hc.
    destruct (bstep P bs st) as [bs'|] eqn:Eb; [|discriminate].
    destruct Hrel as [|l s b bs Hl Hb].
    + right. exists 0, []. split; [simpl; lia|]. split; [constructor | reflexivity].
    + assert (Ha : exists a, lookup_action P (fst st) = Some a).
      { unfold bstep in Eb. simpl in Eb. unfold sstep at 1 in Eb.
        destruct (lookup_action P (fst st)) as [a|]; [exists a; reflexivity | discriminate]. }
      destruct Ha as [a Ea]. unfold bstep in Eb. rewrite (map_opt_sstep P st a _ Ea) in Eb.
      pose proof (fmap_step_sim K P a (snd st) (l :: b) (s :: bs) (Forall2_cons _ _ Hl Hb)) as Hx.
      assert (Hsucc : forall y, bsucc1 K P (l :: b) st = [y] -> In y (bsuccs K P insts (Some (l :: b)))).
      { intros y Ey. simpl. apply in_flat_map. exists st. split; [exact Hin|]. rewrite Ey. left. reflexivity. }
      destruct (fmap_step K P a (snd st) (l :: b)) as [| |b'] eqn:Ef.
      * left. exists 1. split; [simpl; lia|].
        eapply reachS; [apply Hsucc; unfold bsucc1; rewrite Ea, Ef; reflexivity | constructor].
      * rewrite Hx in Eb. discriminate.
      * destruct Hx as [bs2 [E2 Hrel2]]. rewrite E2 in Eb. inversion Eb; subst bs2.
        assert (Hy : In (Some b') (bsuccs K P insts (Some (l :: b)))).
        { apply Hsucc. unfold bsucc1. rewrite Ea, Ef. reflexivity. }
        destruct (IH b' bs' Hrel2 Hover' Hc) as [[k [Hk Hr]]|[k [bg [Hk [Hr Hg]]]]].
        -- left. exists (S k). split; [simpl; lia|]. eapply reachS; eauto.
        -- right. exists (S k), bg. split; [simpl; lia|]. split; [eapply reachS; eauto | exact Hg].
Qed.

Lemma init_rel K inits : forallb (keys_in K) inits = true ->
  Forall2 (frel K) (map (fun l => tab K (fst_of l)) inits) (map fst_of inits).
Proof.
  intros H. induction inits as [|l inits IH]; simpl; [constructor|].
  simpl in H. apply andb_true_iff in H. destruct H as [H1 H2].
  constructor; [apply frel_init, H1 | apply IH, H2].
Qed.

(* the bounded search is exhaustive: when it answers "no", no plan over the instances of length <= n is conformant *)
Theorem exists_conformant_plan_complete K P insts inits n :
  exists_conformant_plan K P insts inits n = Some false ->
  forall pi, plan_over insts pi -> length pi <= n -> conformant_check P (map fst_of inits) pi = false.
Proof.
  unfold exists_conformant_plan. intros H pi Hover Hlen.
  destruct (forallb (keys_in K) inits) eqn:Eg; simpl in H; [|discriminate].
  destruct (existsb is_none (belief_nodes K P insts inits n)) eqn:En; [discriminate|].
  injection H as Hex.
  destruct (conformant_check P (map fst_of inits) pi) eqn:Ec; [|reflexivity]. exfalso.
  destruct (belief_path K P insts pi _ _ (init_rel K inits Eg) Hover Ec) as [[k [Hk Hr]]|[k [bg [Hk [Hr Hg]]]]].
  - assert (Hin : In None (belief_nodes K P insts inits n)).
    { unfold belief_nodes. apply (bfs_complete0 bnode_eqb bnode_eqb_eq _ n _ k); [lia | exact Hr]. }
    assert (existsb is_none (belief_nodes K P insts inits n) = true).
    { apply existsb_exists. exists None. split; [exact Hin | reflexivity]. }
    congruence.
  - assert (Hin : In (Some bg) (belief_nodes K P insts inits n)).
    { unfold belief_nodes. apply (bfs_complete0 bnode_eqb bnode_eqb_eq _ n _ k); [lia | exact Hr]. }
    assert (existsb (fun x => match x with Some b => bgoalF P b | None => false end) (belief_nodes K P insts inits n) = true).
    { apply existsb_exists. exists (Some bg). split; [exact Hin | exact Hg]. }
    congruence.
Qed.

(* ================================================================== Part 3: translation validation *)
Lemma run_cons P s st pi :
  run P (spec_step false P) s (st :: pi)
  = match sstep P s st with Some s' => run P (spec_step false P) s' pi | None => None end.
Proof.
  unfold sstep. destruct st as [aid args]. simpl.
  destruct (lookup_action P aid) as [a|]; [|reflexivity]. destruct (spec_step false P s a args); reflexivity.
Qed.

(* ---- the classical problem alone *)
Lemma classical_path K P acts : forall pi l s sfin,
  frel K l s -> plan_over acts pi -> run P (spec_step false P) s pi = Some sfin ->
  (exists k, k <= length pi /\ reachn (csuccs K P acts) k (Some l) None)
  \/ (exists k lf, k <= length pi /\ reachn (csuccs K P acts) k (Some l) (Some lf) /\ frel K lf sfin).
Proof.
  induction pi as [|st pi IH]; intros l s sfin Hrel Hover Hrun.
  - simpl in Hrun. inversion Hrun; subst. right. exists 0, l. split; [simpl; lia|]. split; [constructor | exact Hrel].
  - inversion Hover as [|? ? Hin Hover']; subst.
    rewrite run_cons in Hrun. unfold sstep in Hrun.
    destruct (lookup_action P (fst st)) as [a|] eqn:Ea; [|discriminate].
    destruct (spec_step false P s a (snd st)) as [s1|] eqn:Es; [|discriminate].
    pose proof (fstep_sim K P l s a (snd st) Hrel) as Hx.
    assert (Hsucc : forall y, csucc1 K P l st = [y] -> In y (csuccs K P acts (Some l))).
    { intros y Ey. simpl. apply in_flat_map. exists st. split; [exact Hin|]. rewrite Ey. left. reflexivity. }
    destruct (fstep K P l a (snd st)) as [| |l'] eqn:Ef.
    + left. exists 1. split; [simpl; lia|].
      eapply reachS; [apply Hsucc; unfold csucc1; rewrite Ea, Ef; reflexivity | constructor].
    + congruence.
    + destruct Hx as [s1' [Es' Hrel']]. rewrite Es in Es'. inversion Es'; subst s1'.
      assert (Hy : In (Some l') (csuccs K P acts (Some l))).
      { apply Hsucc. unfold csucc1. rewrite Ea, Ef. reflexivity. }
      destruct (IH l' s1 sfin Hrel' Hover' Hrun) as [[k [Hk Hr]]|[k [lf [Hk [Hr Hf]]]]].
      * left. exists (S k). split; [simpl; lia|]. eapply reachS; eauto.
      * right. exists (S k), lf. split; [simpl; lia|]. split; [eapply reachS; eauto | exact Hf].
Qed.

(* when the explored set is closed and has no goal state, NO plan (of any length) over the actions is valid *)
Theorem unsolvable_closed_correct K P acts c0 n :
  unsolvable_closed K P acts c0 n = true ->
  forall pi, plan_over acts pi -> valid_plan false P (fst_of c0) pi = false.
Proof.
  unfold unsolvable_closed. intros H pi Hover.
  apply andb_true_iff in H. destruct H as [H Hgoal]. apply andb_true_iff in H. destruct H as [Hk Hclosed].
  unfold valid_plan. destruct (run P (spec_step false P) (fst_of c0) pi) as [sfin|] eqn:Er; [|reflexivity].
  set (V := classical_nodes K P acts c0 n) in *.
  assert (Hx0 : In (Some (tab K (fst_of c0))) V).
  { unfold V, classical_nodes. apply (bfs_mono cnode_eqb cnode_eqb_eq). left. reflexivity. }
  rewrite forallb_forall in Hgoal.
  destruct (classical_path K P acts pi _ _ sfin (frel_init K c0 Hk) Hover Er) as [[k [_ Hr]]|[k [lf [_ [Hr Hf]]]]].
  - pose proof (closedb_reach cnode_eqb cnode_eqb_eq _ V Hclosed k _ _ Hx0 Hr) as Hin.
    specialize (Hgoal None Hin). discriminate.
  - pose proof (closedb_reach cnode_eqb cnode_eqb_eq _ V Hclosed k _ _ Hx0 Hr) as Hin.
    specialize (Hgoal (Some lf) Hin). simpl in Hgoal. unfold fgoal in Hgoal.
    destruct Hf as [Hf _]. rewrite (kgoals_hold_ext false P _ _ Hf) in Hgoal.
    destruct (goals_hold false P sfin); [discriminate | reflexivity].
Qed.

(* ---- the product *)
Definition obrun (P : problem) (obs : option (list state)) (pi : plan) : option (list state) :=
  match obs with Some bs => brun P bs pi | None => None end.

(* the checker's belief component may be None at any time (that only makes [pgood] harder to satisfy) *)
Definition obrel (KO : list gfl) (ob : option (list fstate)) (obs : option (list state)) : Prop :=
  match ob with
  | None => True
  | Some b => exists bs, obs = Some bs /\ Forall2 (frel KO) b bs
  end.

Section ProductProofs.
  Variables (KC : list gfl) (CP : problem) (KO : list gfl) (P : problem) (back : back_table) (cacts : list step_id).

  Lemma map_back_cons st pi :
    map_back back (st :: pi) = match blookup st back with Some (Some o) => [o] | _ => [] end ++ map_back back pi.
  Proof. reflexivity. Qed.

  Definition ostep (obs : option (list state)) (o : step_id) : option (list state) :=
    match obs with Some bs => bstep P bs o | None => None end.

  Lemma obrun_cons obs o pi : obrun P obs (o :: pi) = obrun P (ostep obs o) pi.
  Proof. destruct obs as [bs|]; simpl; [|reflexivity]. destruct (bstep P bs o); reflexivity. Qed.

  Lemma oadvance_sim ob obs st pi :
    obrel KO ob obs ->
    match oadvance KO P back ob st with
    | None => True
    | Some ob' => exists obs', obrel KO ob' obs' /\ obrun P obs (map_back back (st :: pi)) = obrun P obs' (map_back back pi)
    end.
  Proof.
    intros Hrel. unfold oadvance. rewrite map_back_cons.
    destruct (blookup st back) as [[ost|]|]; cbn [app].
    2,3: exists obs; split; [exact Hrel | reflexivity].
    rewrite obrun_cons.
    destruct ob as [b|]; [|exists (ostep obs ost); split; [exact I | reflexivity]].
    destruct Hrel as [bs [-> Hb]].
    destruct (lookup_action P (fst ost)) as [oa|] eqn:Ea;
      [|exists (ostep (Some bs) ost); split; [exact I | reflexivity]].
    pose proof (fmap_step_sim KO P oa (snd ost) b bs Hb) as Hx.
    destruct (fmap_step KO P oa (snd ost) b) as [| |b']; [exact I | |].
    - exists (ostep (Some bs) ost); split; [exact I | reflexivity].
    - destruct Hx as [bs' [E Hb']]. exists (Some bs'). split; [exists bs'; auto|].
      simpl. unfold bstep. rewrite (map_opt_sstep P ost oa bs Ea), E. reflexivity.
  Qed.

  (* a run of the compiled problem traces a path of the product graph *)
  Lemma product_path : forall pi cl s ob obs sfin,
    frel KC cl s -> obrel KO ob obs -> plan_over cacts pi -> run CP (spec_step false CP) s pi = Some sfin ->
    (exists k, k <= length pi /\ reachn (psuccs KC CP KO P back cacts) k (Some (cl, ob)) None)
    \/ (exists k clf obf obsf, k <= length pi /\ reachn (psuccs KC CP KO P back cacts) k (Some (cl, ob)) (Some (clf, obf))
          /\ frel KC clf sfin /\ obrel KO obf obsf /\ obrun P obs (map_back back pi) = obrun P obsf []).
  Proof.
    induction pi as [|st pi IH]; intros cl s ob obs sfin Hrel Horel Hover Hrun.
    - simpl in Hrun. inversion Hrun; subst. right. exists 0, cl, ob, obs.
      split; [simpl; lia|]. split; [constructor|]. split; [exact Hrel|]. split; [exact Horel | reflexivity].
    - inversion Hover as [|? ? Hin Hover']; subst.
      rewrite run_cons in Hrun. unfold sstep in Hrun.
      destruct (lookup_action CP (fst st)) as [a|] eqn:Ea; [|discriminate].
      destruct (spec_step false CP s a (snd st)) as [s1|] eqn:Es; [|discriminate].
      pose proof (fstep_sim KC CP cl s a (snd st) Hrel) as Hx.
      assert (Hsucc : forall y, psucc1 KC CP KO P back cl ob st = [y] -> In y (psuccs KC CP KO P back cacts (Some (cl, ob)))).
      { intros y Ey. simpl. apply in_flat_map. exists st. split; [exact Hin|]. rewrite Ey. left. reflexivity. }
      destruct (fstep KC CP cl a (snd st)) as [| |cl'] eqn:Ef.
      + left. exists 1. split; [simpl; lia|].
        eapply reachS; [apply Hsucc; unfold psucc1; rewrite Ea, Ef; reflexivity | constructor].
      + congruence.
      + destruct Hx as [s1' [Es' Hrel']]. rewrite Es in Es'. inversion Es'; subst s1'.
        pose proof (oadvance_sim ob obs st pi Horel) as Ho.
        destruct (oadvance KO P back ob st) as [ob'|] eqn:Eo.
        * destruct Ho as [obs' [Horel' Eobs]].
          assert (Hy : In (Some (cl', ob')) (psuccs KC CP KO P back cacts (Some (cl, ob)))).
          { apply Hsucc. unfold psucc1. rewrite Ea, Ef, Eo. reflexivity. }
          destruct (IH cl' s1 ob' obs' sfin Hrel' Horel' Hover' Hrun)
            as [[k [Hk Hr]]|[k [clf [obf [obsf [Hk [Hr [Hf [Hof Hrunf]]]]]]]]].
          -- left. exists (S k). split; [simpl; lia|]. eapply reachS; eauto.
          -- right. exists (S k), clf, obf, obsf. split; [simpl; lia|]. split; [eapply reachS; eauto|].
             split; [exact Hf|]. split; [exact Hof|]. rewrite Eobs. exact Hrunf.
        * left. exists 1. split; [simpl; lia|].
          eapply reachS; [apply Hsucc; unfold psucc1; rewrite Ea, Ef, Eo; reflexivity | constructor].
  Qed.

  Lemma pgood_conformant clf obf obsf sfin :
    pgood CP P (Some (clf, obf)) = true -> frel KC clf sfin -> obrel KO obf obsf -> goals_hold false CP sfin = true ->
    match obrun P obsf [] with Some bs => bgoal P bs | None => false end = true.
  Proof.
    intros Hg [Hf _] Ho Hgoal. simpl in Hg. unfold fgoal in Hg.
    rewrite (kgoals_hold_ext false CP _ _ Hf), Hgoal in Hg.
    destruct obf as [b|]; [|discriminate]. destruct Ho as [bs [-> Hb]]. simpl.
    rewrite <- (bgoal_rel KO P b bs Hb). exact Hg.
  Qed.

  Lemma product_x0_rel c0 inits :
    keys_in KC c0 = true -> forallb (keys_in KO) inits = true ->
    frel KC (tab KC (fst_of c0)) (fst_of c0)
    /\ obrel KO (Some (map (fun l => tab KO (fst_of l)) inits)) (Some (map fst_of inits)).
  Proof.
    intros H1 H2. split; [apply frel_init, H1|]. exists (map fst_of inits). split; [reflexivity | apply init_rel, H2].
  Qed.

  (* every valid plan of the compiled problem of length <= n maps back to a conformant plan of the original *)
  Theorem sound_check_correct c0 inits n :
    sound_check KC CP KO P back cacts c0 inits n = true ->
    forall pi, plan_over cacts pi -> length pi <= n -> valid_plan false CP (fst_of c0) pi = true ->
               conformant_check P (map fst_of inits) (map_back back pi) = true.
  Proof.
    unfold sound_check. intros H pi Hover Hlen Hvalid.
    apply andb_true_iff in H. destruct H as [H Hgood]. apply andb_true_iff in H. destruct H as [Hk1 Hk2].
    destruct (product_x0_rel c0 inits Hk1 Hk2) as [Hr0 Ho0].
    unfold valid_plan in Hvalid.
    destruct (run CP (spec_step false CP) (fst_of c0) pi) as [sfin|] eqn:Er; [|discriminate].
    rewrite forallb_forall in Hgood.
    destruct (product_path pi _ _ _ _ sfin Hr0 Ho0 Hover Er)
      as [[k [Hk Hr]]|[k [clf [obf [obsf [Hk [Hr [Hf [Hof Hrunf]]]]]]]]].
    - assert (Hin : In None (product_nodes KC CP KO P back cacts c0 inits n)).
      { unfold product_nodes. apply (bfs_complete0 pnode_eqb pnode_eqb_eq _ n _ k); [lia | exact Hr]. }
      specialize (Hgood None Hin). discriminate.
    - assert (Hin : In (Some (clf, obf)) (product_nodes KC CP KO P back cacts c0 inits n)).
      { unfold product_nodes. apply (bfs_complete0 pnode_eqb pnode_eqb_eq _ n _ k); [lia | exact Hr]. }
      specialize (Hgood _ Hin).
      unfold conformant_check. change (brun P (map fst_of inits) (map_back back pi))
        with (obrun P (Some (map fst_of inits)) (map_back back pi)).
      rewrite Hrunf. exact (pgood_conformant clf obf obsf sfin Hgood Hf Hof Hvalid).
  Qed.

  (* when the explored product is closed the statement holds for plans of every length *)
  Theorem sound_check_closed_correct c0 inits n :
    sound_check_closed KC CP KO P back cacts c0 inits n = true ->
    forall pi, plan_over cacts pi -> valid_plan false CP (fst_of c0) pi = true ->
               conformant_check P (map fst_of inits) (map_back back pi) = true.
  Proof.
    unfold sound_check_closed, sound_check. intros H pi Hover Hvalid.
    apply andb_true_iff in H. destruct H as [H Hclosed].
    apply andb_true_iff in H. destruct H as [H Hgood]. apply andb_true_iff in H. destruct H as [Hk1 Hk2].
    destruct (product_x0_rel c0 inits Hk1 Hk2) as [Hr0 Ho0].
    unfold valid_plan in Hvalid.
    destruct (run CP (spec_step false CP) (fst_of c0) pi) as [sfin|] eqn:Er; [|discriminate].
    rewrite forallb_forall in Hgood.
    set (V := product_nodes KC CP KO P back cacts c0 inits n) in *.
    assert (Hx0 : In (Some (tab KC (fst_of c0), Some (map (fun l => tab KO (fst_of l)) inits))) V).
    { unfold V, product_nodes. apply (bfs_mono pnode_eqb pnode_eqb_eq). left. reflexivity. }
    destruct (product_path pi _ _ _ _ sfin Hr0 Ho0 Hover Er)
      as [[k [Hk Hr]]|[k [clf [obf [obsf [Hk [Hr [Hf [Hof Hrunf]]]]]]]]].
    - pose proof (closedb_reach pnode_eqb pnode_eqb_eq _ V Hclosed k _ _ Hx0 Hr) as Hin.
      specialize (Hgood None Hin). discriminate.
    - pose proof (closedb_reach pnode_eqb pnode_eqb_eq _ V Hclosed k _ _ Hx0 Hr) as Hin.
      specialize (Hgood _ Hin).
      unfold conformant_check. change (brun P (map fst_of inits) (map_back back pi))
        with (obrun P (Some (map fst_of inits)) (map_back back pi)).
      rewrite Hrunf. exact (pgood_conformant clf obf obsf sfin Hgood Hf Hof Hvalid).
  Qed.
End ProductProofs.
