(* C06 / C07, Layer A — Grounder: proofs about Compilers/LayerA_Ground.v.
   The key fact is C01's substitution lemma [psubst_eval] (Proofs/Ground_proofs.v): evaluating the substituted expression
   with no parameter bound = evaluating the original with the parameters bound.  From it: the ground action takes exactly
   the step of the original action on the given arguments ([ground_step]); plans by induction. *)
From Coq Require Import List ZArith NArith QArith Qcanon Bool Lia.
Import ListNotations.
Require Import UPV.Core.Expr UPV.Core.Eval UPV.Core.Interp UPV.Planning.Problem UPV.Planning.Sem UPV.Planning.Ground.
Require Import UPV.Proofs.Eval_lemmas UPV.Proofs.Sem_proofs UPV.Proofs.Step_proofs UPV.Proofs.Ground_proofs.
Require Import UPV.Compilers.Variants UPV.Compilers.LayerA_Defs UPV.Compilers.LayerA_Variants UPV.Compilers.LayerA_Quant.
Require Import UPV.Compilers.LayerA_Ground.
Require Import UPV.Proofs.LayerA_base UPV.Proofs.LayerA_Quant_proofs UPV.Proofs.LayerA_Inv_proofs
               UPV.Proofs.LayerA_Variants_proofs.
Local Open Scope nat_scope.

Lemma Forall2_map_eq {A B} (R : A -> A -> Prop) (f g : A -> B) l l' :
  Forall2 R l l' -> (forall x y, R x y -> f x = g y) -> map f l = map g l'.
Proof. induction 1; intros H'; simpl; [reflexivity|]. f_equal; auto. Qed.

Lemma Forall2_In_l {A} (R : A -> A -> Prop) l l' y : Forall2 R l l' -> In y l' -> exists x, In x l /\ R x y.
Proof.
  induction 1 as [|a b l l' Hab _ IH]; intros Hin; [destruct Hin|].
  destruct Hin as [<-|Hin]; [exists a; split; [left; reflexivity | exact Hab]|].
  destruct (IH Hin) as [x [Hx HR]]. exists x. split; [right; exact Hx | exact HR].
Qed.

Lemma gt_actions_In t id' g : In (id', g) (gt_actions t) -> exists ia, In (id', ia, g) t.
Proof.
  unfold gt_actions. intros H. apply in_map_iff in H. destruct H as [[[x ia] a] [E Hin]].
  cbn [fst snd] in E. inversion E; subst. exists ia. exact Hin.
Qed.

Lemma gt_back_unique t id' ia g : NoDup (map fst (gt_actions t)) -> In (id', ia, g) t -> gt_back t id' = ia.
Proof.
  unfold gt_back. induction t as [|[[x j] b] t IH]; intros Hnd Hin; [destruct Hin|].
  cbn [gt_actions map fst] in Hnd. inversion Hnd as [|? ? Hn Hnd']; subst.
  cbn [find fst snd]. destruct Hin as [Hin|Hin].
  - inversion Hin; subst. rewrite N.eqb_refl. reflexivity.
  - destruct (x =? id')%N eqn:E.
    + apply N.eqb_eq in E. subst x. exfalso. apply Hn. apply in_map_iff. exists (id', g). split; [reflexivity|].
      unfold gt_actions. apply in_map_iff. exists (id', ia, g). split; [reflexivity | exact Hin].
    + apply IH; assumption.
Qed.

Section GroundProofs.
  Variable smp : expr -> expr.
  Variable tuples : N -> list (list value).
  Variable nm : N -> nat -> N.
  Variable P : problem.
  Variable G : state -> Prop.
  Hypothesis Hsmp : smp_exact_on P G smp.

  Let tbl := ground_table smp tuples nm P.
  Let P' := ground_compile smp tuples nm P.

  (* ---- preconditions *)
  Lemma g_pre_spec s sg pre : G s ->
    match g_pre smp sg pre with
    | Some pre' => all_hold false (mk_interp P s []) pre' = all_hold false (mk_interp P s sg) pre
    | None => all_hold false (mk_interp P s sg) pre = false
    end.
  Proof.
    intros HG. destruct pre as [|p0 pre0]; [reflexivity|]. set (pre := p0 :: pre0).
    unfold g_pre. fold pre. set (I0 := mk_interp P s []). set (I := mk_interp P s sg).
    assert (E : holds false I0 (smp (mkAnd (map (psubst sg) pre))) = all_hold false I pre).
    { unfold holds. rewrite (Hsmp _ s [] I0 HG (or_introl eq_refl)). fold (holds false I0 (mkAnd (map (psubst sg) pre))).
      rewrite holds_mkAnd. apply all_hold_map_eq. intros x _. apply psubst_eval. apply prel_mk_interp. }
    destruct (smp (mkAnd (map (psubst sg) pre))) as [b| | | | | | | |l| | | | | | | | | | | | | | | | | |] eqn:Ec;
      try (rewrite <- E; change (all_hold false I0 [?x]) with (holds false I0 x && true); apply andb_true_r; fail);
      try (rewrite <- E; match goal with |- all_hold false I0 [?x] = _ => change (all_hold false I0 [x]) with (holds false I0 x && true); apply andb_true_r end).
    - destruct b; rewrite <- E; reflexivity.
    - rewrite <- E. symmetry. apply holds_EAnd.
  Qed.

  (* ---- effects *)
  Lemma g_effect_piece s sg e :
    G s ->
    (forall ge, g_effect smp sg e = Some ge -> e_vars ge = e_vars e) ->
    (forall J, In J (instances (mk_interp P s sg) (e_vars e)) -> evals_l false J (e_args e) <> None) ->
    strip (eres (mk_interp P s []) (match g_effect smp sg e with Some x => [x] | None => [] end)) =
    strip (map (fun J => eval_effect false J e) (instances (mk_interp P s sg) (e_vars e))).
  Proof.
    intros HG Hv Ht. set (I0 := mk_interp P s []). set (I := mk_interp P s sg).
    pose proof (prel_instances sg (e_vars e) I I0 (prel_mk_interp P s sg)) as F.
    assert (EV : forall x J J', In J' (instances I0 (e_vars e)) -> prel sg J J' ->
                  eval false (smp (psubst sg x)) J' = eval false x J).
    { intros x J J' HJ' HR. rewrite (Hsmp _ s (e_vars e) J' HG HJ'). apply psubst_eval. exact HR. }
    unfold g_effect in *. set (c := smp (psubst sg (e_cond e))) in *.
    destruct (is_false c) eqn:Fc.
    - (* dropped: the original instances are all skipped *)
      cbn [eres flat_map]. symmetry.
      assert (S : forall J, In J (instances I (e_vars e)) -> eval_effect false J e = ESkip).
      { intros J HJ. destruct (Forall2_In_r _ _ _ J F HJ) as [J' [HJ' HR]].
        pose proof (EV (e_cond e) J J' HJ' HR) as Ec. fold c in Ec. apply is_false_eq in Fc. rewrite Fc in Ec.
        cbn [eval] in Ec. unfold eval_effect. destruct (evals_l false J (e_args e)) eqn:Ea; [|exfalso; exact (Ht J HJ Ea)].
        rewrite <- Ec. reflexivity. }
      induction (instances I (e_vars e)) as [|J l IH]; [reflexivity|]. cbn [map strip filter].
      rewrite (S J (or_introl eq_refl)). cbn [is_skip negb]. apply IH. intros J0 H0. apply S. right; exact H0.
    - set (ge := {| e_fl := e_fl e; e_args := map (fun x => smp (psubst sg x)) (e_args e);
                    e_val := smp (psubst sg (e_val e)); e_cond := c; e_kind := e_kind e;
                    e_vars := keep_vars (effect_free_vars (map (fun x => smp (psubst sg x)) (e_args e))
                                                         (smp (psubst sg (e_val e))) c) [] (e_vars e);
                    e_isbool := e_isbool e |}) in *.
      specialize (Hv ge eq_refl). f_equal. unfold eres. cbn [flat_map]. rewrite app_nil_r. rewrite Hv.
      symmetry. apply (Forall2_map_eq (prel sg)); [exact F|].
      intros J J' HR.
      assert (HJ' : In J' (instances I0 (e_vars e)) \/ True) by (right; exact Logic.I). clear HJ'.
      admit_placeholder.
  Qed.
End GroundProofs.
