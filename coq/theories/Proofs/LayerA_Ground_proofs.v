(* C06 / C07, Layer A — Grounder: proofs about Compilers/LayerA_Ground.v.
   The key fact is C01's substitution lemma [psubst_eval] (Proofs/Ground_proofs.v): evaluating the substituted expression
   with no parameter bound = evaluating the original with the parameters bound.  From it: the ground action takes exactly
   the step of the original action on the given arguments ([ground_step]); plans by induction. *)
From Coq Require Import List ZArith NArith QArith Qcanon Bool Lia.
Import ListNotations.
Require Import UPV.Core.Expr UPV.Core.Eval UPV.Core.Interp UPV.Planning.Problem UPV.Planning.Sem UPV.Planning.Ground.
Require Import UPV.Proofs.Eval_lemmas UPV.Proofs.Sem_proofs UPV.Proofs.Step_proofs UPV.Proofs.Ground_proofs.
Require Import UPV.Compilers.Variants UPV.Compilers.LayerA_Defs UPV.Compilers.LayerA_Variants UPV.Compilers.LayerA_Quant.
Require Import UPV.Compilers.LayerA_Ground.
Require Import UPV.Proofs.LayerA_base UPV.Proofs.LayerA_Quant_proofs UPV.Proofs.LayerA_Inv_proofs
               UPV.Proofs.LayerA_Variants_proofs.
Local Open Scope nat_scope.

Lemma Forall2_map_eq_in {A B} (R : A -> A -> Prop) (f g : A -> B) l l' :
  Forall2 R l l' -> (forall x y, In x l -> In y l' -> R x y -> f x = g y) -> map f l = map g l'.
Proof.
  induction 1 as [|a b l l' Hab _ IH]; intros H'; simpl; [reflexivity|]. f_equal.
  - apply H'; [left; reflexivity | left; reflexivity | exact Hab].
  - apply IH. intros x y Hx Hy. apply H'; right; assumption.
Qed.

Lemma Forall2_In_left {A} (R : A -> A -> Prop) l l' x : Forall2 R l l' -> In x l -> exists y, In y l' /\ R x y.
Proof.
  induction 1 as [|a b l l' Hab _ IH]; intros Hin; [destruct Hin|].
  destruct Hin as [<-|Hin]; [exists b; split; [left; reflexivity | exact Hab]|].
  destruct (IH Hin) as [y [Hy HR]]. exists y. split; [right; exact Hy | exact HR].
Qed.

Lemma all_hold_map_eq2 sc I I' (f : expr -> expr) l :
  (forall x, In x l -> eval sc (f x) I' = eval sc x I) -> all_hold sc I' (map f l) = all_hold sc I l.
Proof.
  induction l as [|x l IH]; intros H; [reflexivity|]. cbn [map].
  change (all_hold sc I' (f x :: map f l)) with (holds sc I' (f x) && all_hold sc I' (map f l)).
  change (all_hold sc I (x :: l)) with (holds sc I x && all_hold sc I l).
  unfold holds at 1 2. rewrite (H x (or_introl eq_refl)), IH; [reflexivity|]. intros y Hy. apply H. right; exact Hy.
Qed.

Lemma strip_all_skip {A} (f : A -> Sem.eres) l : (forall x, In x l -> f x = ESkip) -> strip (map f l) = [].
Proof.
  induction l as [|x l IH]; intros H; [reflexivity|]. cbn [map strip filter].
  rewrite (H x (or_introl eq_refl)). cbn [is_skip negb]. apply IH. intros y Hy. apply H. right; exact Hy.
Qed.

Lemma evals_l_map_eq2 sc J J' (f : expr -> expr) l :
  (forall x, In x l -> eval sc (f x) J' = eval sc x J) -> evals_l sc J' (map f l) = evals_l sc J l.
Proof.
  induction l as [|x l IH]; intros H; [reflexivity|]. cbn [map evals_l].
  rewrite (H x (or_introl eq_refl)), IH; [reflexivity|]. intros y Hy. apply H. right; exact Hy.
Qed.

Lemma gt_actions_In t id' g : In (id', g) (gt_actions t) -> exists ia, In (id', ia, g) t.
Proof.
  unfold gt_actions. intros H. apply in_map_iff in H. destruct H as [[[x ia] a] [E Hin]].
  cbn [fst snd] in E. inversion E; subst. exists ia. exact Hin.
Qed.

Lemma gt_back_unique t id' ia g : NoDup (map fst (gt_actions t)) -> In (id', ia, g) t -> gt_back t id' = ia.
Proof.
  unfold gt_back. induction t as [|[[x j] b] t IH]; intros Hnd Hin; [destruct Hin|].
  cbn [gt_actions map fst] in Hnd. inversion Hnd as [|? ? Hn Hnd']; subst.
  cbn [find fst snd]. destruct Hin as [Hin|Hin].
  - inversion Hin; subst. rewrite N.eqb_refl. reflexivity.
  - destruct (x =? id')%N eqn:E.
    + apply N.eqb_eq in E. subst x. exfalso. apply Hn. apply in_map_iff. exists (id', g). split; [reflexivity|].
      unfold gt_actions. apply in_map_iff. exists (id', ia, g). split; [reflexivity | exact Hin].
    + apply IH; assumption.
Qed.

Section GroundProofs.
  Variable smp : expr -> expr.
  Variable tuples : N -> list (list value).
  Variable nm : N -> nat -> N.
  Variable P : problem.
  Variable G : state -> Prop.
  Hypothesis Hsmp : smp_exact_on P G smp.

  Let tbl := ground_table smp tuples nm P.
  Let P' := ground_compile smp tuples nm P.

  (* ---- preconditions *)
  Lemma g_pre_spec s sg pre : G s ->
    match g_pre smp sg pre with
    | Some pre' => all_hold false (mk_interp P s []) pre' = all_hold false (mk_interp P s sg) pre
    | None => all_hold false (mk_interp P s sg) pre = false
    end.
  Proof.
    intros HG. destruct pre as [|p0 pre0]; [reflexivity|]. set (pre := p0 :: pre0).
    unfold g_pre. fold pre. set (I0 := mk_interp P s []). set (I := mk_interp P s sg).
    assert (E : holds false I0 (smp (mkAnd (map (psubst sg) pre))) = all_hold false I pre).
    { unfold holds. rewrite (Hsmp _ s [] I0 HG (or_introl eq_refl)). fold (holds false I0 (mkAnd (map (psubst sg) pre))).
      rewrite holds_mkAnd. apply all_hold_map_eq2. intros x _. apply psubst_eval. apply prel_mk_interp. }
    destruct (smp (mkAnd (map (psubst sg) pre))) as [b| | | | | | | |l| | | | | | | | | | | | | | | | | |] eqn:Ec;
      try (rewrite <- E; change (all_hold false I0 [?x]) with (holds false I0 x && true); apply andb_true_r; fail);
      try (rewrite <- E; match goal with |- all_hold false I0 [?x] = _ => change (all_hold false I0 [x]) with (holds false I0 x && true); apply andb_true_r end).
    - destruct b; rewrite <- E; reflexivity.
    - rewrite <- E. symmetry. apply holds_EAnd.
  Qed.

  (* ---- effects *)
  Lemma g_effect_piece s sg e :
    G s ->
    (forall ge, g_effect smp sg e = Some ge -> e_vars ge = e_vars e) ->
    (forall J, In J (instances (mk_interp P s sg) (e_vars e)) -> evals_l false J (e_args e) <> None) ->
    strip (eres (mk_interp P s []) (match g_effect smp sg e with Some x => [x] | None => [] end)) =
    strip (map (fun J => eval_effect false J e) (instances (mk_interp P s sg) (e_vars e))).
  Proof.
    intros HG Hv Ht. set (I0 := mk_interp P s []). set (I := mk_interp P s sg).
    pose proof (prel_instances sg (e_vars e) I I0 (prel_mk_interp P s sg)) as F.
    assert (EV : forall x J J', In J' (instances I0 (e_vars e)) -> prel sg J J' ->
                  eval false (smp (psubst sg x)) J' = eval false x J).
    { intros x J J' HJ' HR. rewrite (Hsmp _ s (e_vars e) J' HG HJ'). apply psubst_eval. exact HR. }
    unfold g_effect in *. set (c := smp (psubst sg (e_cond e))) in *.
    destruct (is_false c) eqn:Fc.
    - (* dropped: the original instances are all skipped *)
      cbn [eres flat_map]. symmetry.
      assert (S : forall J, In J (instances I (e_vars e)) -> eval_effect false J e = ESkip).
      { intros J HJ. destruct (Forall2_In_left _ _ _ J F HJ) as [J' [HJ' HR]].
        pose proof (EV (e_cond e) J J' HJ' HR) as Ec. fold c in Ec. apply is_false_eq in Fc. rewrite Fc in Ec.
        cbn [eval] in Ec. unfold eval_effect. destruct (evals_l false J (e_args e)) eqn:Ea; [|exfalso; exact (Ht J HJ Ea)].
        rewrite <- Ec. reflexivity. }
      rewrite (strip_all_skip _ _ S). reflexivity.
    - set (ge := {| e_fl := e_fl e; e_args := map (fun x => smp (psubst sg x)) (e_args e);
                    e_val := smp (psubst sg (e_val e)); e_cond := c; e_kind := e_kind e;
                    e_vars := keep_vars (effect_free_vars (map (fun x => smp (psubst sg x)) (e_args e))
                                                         (smp (psubst sg (e_val e))) c) [] (e_vars e);
                    e_isbool := e_isbool e |}) in *.
      specialize (Hv ge eq_refl). f_equal. unfold eres. cbn [flat_map]. rewrite app_nil_r. rewrite Hv.
      symmetry. apply (Forall2_map_eq_in (prel sg)); [exact F|].
      intros J J' _ HJ' HR. unfold eval_effect. cbn [ge e_args e_cond e_val e_fl e_kind].
      assert (Ea : evals_l false J' (map (fun x => smp (psubst sg x)) (e_args e)) = evals_l false J (e_args e)).
      { apply evals_l_map_eq2. intros x _. apply (EV x J J' HJ' HR). }
      rewrite Ea. unfold c. rewrite (EV (e_cond e) J J' HJ' HR), (EV (e_val e) J J' HJ' HR). reflexivity.
  Qed.

  Lemma g_effects_fired s a args : G s -> vars_kept smp a args -> g_targets_total P a args ->
    fired false (mk_interp P s []) (g_effects smp (zip_params (a_params a) args) (a_effs a)) =
    fired false (mk_interp P s (zip_params (a_params a) args)) (a_effs a).
  Proof.
    intros HG Hv Ht. set (sg := zip_params (a_params a) args).
    rewrite !fired_eres, collect_res_strip, (collect_res_strip (eres (mk_interp P s sg) (a_effs a))). f_equal.
    unfold g_effects. rewrite eres_flat_map. unfold eres at 2. apply strip_flat_map.
    intros e He. apply g_effect_piece; [exact HG | |].
    - intros ge Hge. apply (Hv e ge He Hge).
    - intros J HJ. apply (Ht s e J He HJ).
  Qed.

  (* the ground action, applied to no argument, takes exactly the step of the original action on the arguments *)
  Lemma ground_step s a args g : G s -> vars_kept smp a args -> g_targets_total P a args ->
    g_action smp a args = Some g ->
    spec_step false P' s g [] = spec_step false P s a args.
  Proof.
    intros HG Hv Ht Hg. unfold g_action in Hg.
    destruct (add_effs_ok [] [] (g_effects smp (zip_params (a_params a) args) (a_effs a))); [|discriminate].
    pose proof (g_pre_spec s (zip_params (a_params a) args) (a_pre a) HG) as Hp.
    destruct (g_pre smp (zip_params (a_params a) args) (a_pre a)) as [pre|]; [|discriminate].
    inversion Hg; subst g. clear Hg.
    apply spec_step_cong2; try reflexivity.
    - exact Hp.
    - cbn [a_effs a_params zip_params]. apply g_effects_fired; assumption.
    - intros acts _. apply (invariants_ok_same P P'); reflexivity.
  Qed.

  (* no ground action because the simplified precondition is FALSE: the instance is not applicable *)
  Lemma ground_pre_none s a args : G s -> g_pre smp (zip_params (a_params a) args) (a_pre a) = None ->
    spec_step false P s a args = None.
  Proof.
    intros HG Hn. pose proof (g_pre_spec s (zip_params (a_params a) args) (a_pre a) HG) as Hp. rewrite Hn in Hp.
    rewrite spec_step_eq, Hp. reflexivity.
  Qed.

  Hypothesis Hu : unique_ids P.
  Hypothesis Hu' : unique_ids P'.      (* the ground names are pairwise different (fix 206e087; C08) *)
  Hypothesis Gstep : forall s aid a args t, G s -> lookup_action P aid = Some a -> spec_step false P s a args = Some t -> G t.
  Hypothesis Hinst : instances_ok smp tuples P.

  Lemma ground_table_In id' i args g : In (id', (i, args), g) tbl ->
    exists a, In (i, a) (p_actions P) /\ In args (tuples i) /\ g_action smp a args = Some g.
  Proof.
    unfold tbl, ground_table. intros H. apply in_flat_map in H. destruct H as [[j a] [Hin H]]. cbn [fst snd] in H.
    apply in_flat_map in H. destruct H as [[k t] [Hk H]]. cbn [fst snd] in H.
    destruct (g_action smp a t) as [g0|] eqn:Eg; [|destruct H]. destruct H as [H|[]]. inversion H; subst.
    exists a. split; [exact Hin|]. split; [eapply number_from_In; exact Hk | exact Eg].
  Qed.

  Lemma ground_lookup id' g : lookup_action P' id' = Some g ->
    exists i args a, gt_back tbl id' = (i, args) /\ lookup_action P i = Some a /\ In args (tuples i) /\
                     g_action smp a args = Some g.
  Proof.
    unfold lookup_action. change (p_actions P') with (gt_actions tbl). intros H. apply lookupN_In in H.
    apply gt_actions_In in H. destruct H as [[i args] Hin].
    destruct (ground_table_In id' i args g Hin) as [a [Ha [Ht Hg]]].
    exists i, args, a. repeat split; try assumption.
    - apply (gt_back_unique tbl id' (i, args) g); [exact Hu' | exact Hin].
    - apply lookupN_unique; assumption.
  Qed.

  Lemma ground_run_sound pi' : forall s t, G s ->
    run P' (spec_step false P') s pi' = Some t -> run P (spec_step false P) s (gt_map_back tbl pi') = Some t.
  Proof.
    induction pi' as [|[id' args'] pi' IH]; intros s t HG; cbn [run gt_map_back map fst]; [auto|].
    destruct (lookup_action P' id') as [g|] eqn:EL; [|discriminate].
    destruct (ground_lookup id' g EL) as (i & args & a & Hb & ELo & Htu & Hg).
    rewrite Hb. cbn [run]. rewrite ELo.
    assert (Ha : In (i, a) (p_actions P)) by (apply lookupN_In; exact ELo).
    destruct (Hinst i a args Ha Htu) as [Hv Htt].
    assert (E : spec_step false P' s g args' = spec_step false P s a args).
    { rewrite <- (ground_step s a args g HG Hv Htt Hg). rewrite !spec_step_eq.
      assert (Hp : a_params g = []) by (unfold g_action in Hg; destruct (add_effs_ok _ _ _); [|discriminate];
                                        destruct (g_pre _ _ _); [|discriminate]; inversion Hg; reflexivity).
      rewrite Hp. reflexivity. }
    rewrite E. destruct (spec_step false P s a args) as [s1|] eqn:ES; [|discriminate].
    apply IH. eapply Gstep; eassumption.
  Qed.

  (* soundness: a valid plan of the ground problem, mapped back by lift_action_instance, is a valid plan of the
     original problem through the SAME states (the runs are equal for every plan, hence for every prefix) *)
  Theorem ground_sound s0 pi' : G s0 ->
    valid_plan false P' s0 pi' = true -> valid_plan false P s0 (gt_map_back tbl pi') = true.
  Proof.
    intros HG. unfold valid_plan.
    destruct (run P' (spec_step false P') s0 pi') as [t|] eqn:ER; [|discriminate].
    rewrite (ground_run_sound pi' s0 t HG ER). intros H. exact H.
  Qed.

  (* ---- completeness.  An instance left out because its ground effects conflict SYNTACTICALLY must be inapplicable:
     true when syntactically different assigned values differ at run time (C37_conflict_drop_sound's hypotheses);
     false in the recorded findings C01-grounding-syntactic-conflict / C07-grounder-syntactic-conflict-action-dropped *)
  Hypothesis Hconf : forall s i a args, G s -> In (i, a) (p_actions P) -> In args (tuples i) ->
    add_effs_ok [] [] (g_effects smp (zip_params (a_params a) args) (a_effs a)) = false ->
    spec_step false P s a args = None.

  Lemma ground_run_complete pi : forall s t, G s -> plan_in_tuples tuples pi ->
    run P (spec_step false P) s pi = Some t ->
    exists pi', run P' (spec_step false P') s pi' = Some t /\ gt_map_back tbl pi' = pi.
  Proof.
    induction pi as [|[i args] pi IH]; intros s t HG Hin; cbn [run].
    - intros E. exists []. split; [exact E | reflexivity].
    - destruct (lookup_action P i) as [a|] eqn:EL; [|discriminate].
      destruct (spec_step false P s a args) as [s1|] eqn:ES; [|discriminate]. intros ER.
      assert (Ha : In (i, a) (p_actions P)) by (apply lookupN_In; exact EL).
      assert (Htu : In args (tuples i)) by (apply Hin; left; reflexivity).
      destruct (Hinst i a args Ha Htu) as [Hv Htt].
      destruct (g_action smp a args) as [g|] eqn:Eg.
      + destruct (In_number_from _ _ Htu 0) as [k Hk].
        assert (Ht : In (nm i k, (i, args), g) tbl).
        { unfold tbl, ground_table. apply in_flat_map. exists (i, a). split; [exact Ha|]. cbn [fst snd].
          apply in_flat_map. exists (k, args). split; [exact Hk|]. cbn [fst snd]. rewrite Eg. left; reflexivity. }
        destruct (IH s1 t (Gstep s i a args s1 HG EL ES)) as [pi' [R1 R2]]; [intros j b Hj; apply Hin; right; exact Hj | exact ER|].
        exists ((nm i k, []) :: pi'). cbn [run gt_map_back map fst]. split.
        * assert (ELg : lookup_action P' (nm i k) = Some g).
          { unfold lookup_action. change (p_actions P') with (gt_actions tbl). apply lookupN_unique; [exact Hu'|].
            unfold gt_actions. apply in_map_iff. exists (nm i k, (i, args), g). split; [reflexivity | exact Ht]. }
          rewrite ELg, (ground_step s a args g HG Hv Htt Eg), ES. exact R1.
        * rewrite (gt_back_unique tbl (nm i k) (i, args) g Hu' Ht). fold (gt_map_back tbl pi'). rewrite R2. reflexivity.
      + exfalso. unfold g_action in Eg.
        destruct (add_effs_ok [] [] (g_effects smp (zip_params (a_params a) args) (a_effs a))) eqn:Ec.
        * destruct (g_pre smp (zip_params (a_params a) args) (a_pre a)) eqn:Ep; [discriminate|].
          rewrite (ground_pre_none s a args HG Ep) in ES. discriminate.
        * rewrite (Hconf s i a args HG Ha Htu Ec) in ES. discriminate.
  Qed.

  (* completeness: every valid plan of the original problem whose steps use enumerated parameter tuples is the image
     of a valid plan of the ground problem (same length, same states) *)
  Theorem ground_complete s0 pi : G s0 -> plan_in_tuples tuples pi ->
    valid_plan false P s0 pi = true ->
    exists pi', valid_plan false P' s0 pi' = true /\ gt_map_back tbl pi' = pi.
  Proof.
    intros HG Hin. unfold valid_plan.
    destruct (run P (spec_step false P) s0 pi) as [t|] eqn:ER; [|discriminate]. intros Hgl.
    destruct (ground_run_complete pi s0 t HG Hin ER) as [pi' [R1 R2]].
    exists pi'. rewrite R1. split; [exact Hgl | exact R2].
  Qed.
End GroundProofs.
