(* Correctness of the plan-correspondence validators of Compilers/SimCheck.v:
   - the PDDL3 monitors decide the declarative trajectory-constraint semantics;
   - [valid] is the declarative notion of a valid plan ([valid_decl]); without trajectory constraints it is
     Sem.valid_plan (plus the initial-state check);
   - [sound_check_correct], [sound_search_witness]  (C06);
   - [complete_check_correct], [complete_search_witness] (C07). *)
From Coq Require Import List ZArith NArith QArith Qcanon Bool Lia.
Import ListNotations.
Require Import UPV.Core.Expr UPV.Core.Eval UPV.Core.Interp UPV.Planning.Problem UPV.Planning.Sem.
Require Import UPV.Compilers.SimCheck.
Local Open Scope nat_scope.

(* ------------------------------------------------------------------ monitors *)
Section MonitorProofs.
  Context {A : Type}.
  Variables phi psi : A -> bool.

  Lemma mon_sa_spec l :
    mon_sa phi psi l = true <->
    (forall pre s post, l = pre ++ s :: post -> phi s = true -> exists t, In t (s :: post) /\ psi t = true).
  Proof.
    induction l as [|x r IH].
    - split; [|reflexivity]. intros _ pre s post E. destruct pre; discriminate.
    - cbn [mon_sa]. rewrite andb_true_iff, IH. split.
      + intros [H1 H2] pre s post E Hs. destruct pre as [|y pre].
        * injection E as <- <-. rewrite Hs in H1. apply existsb_exists in H1. exact H1.
        * injection E as _ E. eapply H2; eauto.
      + intros H. split.
        * destruct (phi x) eqn:Ex; [|reflexivity].
          apply existsb_exists. apply (H [] x r eq_refl Ex).
        * intros pre s post E Hs. apply (H (x :: pre) s post); [rewrite E; reflexivity | exact Hs].
  Qed.

  Lemma mon_sb_spec l : forall seen,
    mon_sb phi psi seen l = true <->
    (forall pre s post, l = pre ++ s :: post -> phi s = true -> seen = true \/ exists t, In t pre /\ psi t = true).
  Proof.
    induction l as [|x r IH]; intros seen.
    - split; [|reflexivity]. intros _ pre s post E. destruct pre; discriminate.
    - cbn [mon_sb]. rewrite andb_true_iff, IH. split.
      + intros [H1 H2] pre s post E Hs. destruct pre as [|y pre].
        * injection E as <- <-. rewrite Hs in H1. left; exact H1.
        * injection E as <- E. destruct (H2 pre s post E Hs) as [H|[t [Ht1 Ht2]]].
          -- apply orb_true_iff in H. destruct H as [H|H]; [left; exact H|].
             right. exists x. split; [left; reflexivity | exact H].
          -- right. exists t. split; [right; exact Ht1 | exact Ht2].
      + intros H. split.
        * destruct (phi x) eqn:Ex; [|reflexivity].
          destruct (H [] x r eq_refl Ex) as [H1|[t [[] _]]]. exact H1.
        * intros pre s post E Hs.
          destruct (H (x :: pre) s post) as [H1|[t [Ht1 Ht2]]]; [rewrite E; reflexivity | exact Hs | |].
          -- left. rewrite H1. reflexivity.
          -- destruct Ht1 as [<-|Ht1].
             ++ left. rewrite Ht2. apply orb_true_r.
             ++ right. exists t. split; assumption.
  Qed.

  Lemma mon_amo_in_spec l :
    mon_amo_in phi l = true <->
    exists mid rest, l = mid ++ rest /\ (forall x, In x mid -> phi x = true) /\ (forall x, In x rest -> phi x = false).
  Proof.
    induction l as [|x r IH].
    - split; [|reflexivity]. intros _. exists [], []. repeat split; intros ? [].
    - cbn [mon_amo_in]. destruct (phi x) eqn:Ex.
      + rewrite IH. split.
        * intros (mid & rest & E & H1 & H2). exists (x :: mid), rest. split; [rewrite E; reflexivity|].
          split; [|exact H2]. intros y [<-|Hy]; [exact Ex | apply H1, Hy].
        * intros (mid & rest & E & H1 & H2). destruct mid as [|y mid].
          -- simpl in E. subst rest. rewrite (H2 x (or_introl eq_refl)) in Ex. discriminate.
          -- injection E as <- E. exists mid, rest. split; [exact E|]. split; [|exact H2].
             intros z Hz. apply H1. right; exact Hz.
      + split.
        * intros H. exists [], (x :: r). split; [reflexivity|]. split; [intros ? []|].
          intros y [<-|Hy]; [exact Ex|]. rewrite forallb_forall in H. specialize (H y Hy).
          destruct (phi y); [discriminate | reflexivity].
        * intros (mid & rest & E & H1 & H2). destruct mid as [|y mid].
          -- simpl in E. subst rest. apply forallb_forall. intros y Hy. rewrite (H2 y (or_intror Hy)). reflexivity.
          -- injection E as <- E. rewrite (H1 x (or_introl eq_refl)) in Ex. discriminate.
  Qed.

  Lemma mon_amo_in_suffix a s post : mon_amo_in phi (a ++ s :: post) = true -> phi s = true -> mon_amo_in phi post = true.
  Proof.
    induction a as [|y a IH]; cbn [app mon_amo_in]; intros H Hs.
    - rewrite Hs in H. exact H.
    - destruct (phi y).
      + apply IH; assumption.
      + rewrite forallb_forall in H. specialize (H s). rewrite Hs in H. discriminate H.
        apply in_or_app. right. left. reflexivity.
  Qed.

  Lemma mon_amo_spec l :
    mon_amo phi l = true <->
    (forall pre s post, l = pre ++ s :: post -> phi s = true ->
       exists mid rest, post = mid ++ rest /\ (forall x, In x mid -> phi x = true) /\ (forall x, In x rest -> phi x = false)).
  Proof.
    induction l as [|x r IH].
    - split; [|reflexivity]. intros _ pre s post E. destruct pre; discriminate.
    - cbn [mon_amo]. destruct (phi x) eqn:Ex.
      + split.
        * intros H pre s post E Hs. apply mon_amo_in_spec. destruct pre as [|y pre].
          -- injection E as <- <-. exact H.
          -- injection E as _ E. subst r. eapply mon_amo_in_suffix; eauto.
        * intros H. apply mon_amo_in_spec. apply (H [] x r eq_refl Ex).
      + rewrite IH. split.
        * intros H pre s post E Hs. destruct pre as [|y pre].
          -- injection E as <- <-. rewrite Hs in Ex. discriminate.
          -- injection E as _ E. eapply H; eauto.
        * intros H pre s post E Hs. apply (H (x :: pre) s post); [rewrite E; reflexivity | exact Hs].
  Qed.
End MonitorProofs.

(* ------------------------------------------------------------------ the monitor decides the PDDL3 semantics *)
Theorem traj_holds_spec T sts c : traj_holds T sts c = true <-> traj_sem T sts c.
Proof.
  destruct c; try (simpl; split; [discriminate | tauto]).
  - destruct b; simpl; split; auto; try discriminate; tauto.
  - simpl. apply forallb_forall.
  - simpl. rewrite existsb_exists. reflexivity.
  - simpl. rewrite mon_sb_spec. split.
    + intros H pre s post E Hs. destruct (H pre s post E Hs) as [H1|H1]; [discriminate | exact H1].
    + intros H pre s post E Hs. right. eapply H; eauto.
  - simpl. apply mon_sa_spec.
  - simpl. apply mon_amo_spec.
Qed.

(* ------------------------------------------------------------------ valid = the declarative notion *)
Lemma last_nonempty_default {A} (l : list A) x d d' : last (x :: l) d = last (x :: l) d'.
Proof. revert x; induction l as [|y l IH]; intros x; [reflexivity|]. cbn [last] in *. apply IH. Qed.

Lemma last_cons_shift {A} (l : list A) t s : last (t :: l) s = last l t.
Proof. destruct l as [|y l]; [reflexivity|]. cbn [last]. apply (last_nonempty_default l y s t). Qed.

Lemma run_hist_trace T pi : forall s rh,
  run_hist T s rh pi = match trace T s pi with Some tr => Some (last tr s, rev tr ++ rh) | None => None end.
Proof.
  induction pi as [|a r IH]; intros s rh; cbn [run_hist trace]; [reflexivity|].
  destruct (step T s a) as [t|]; [|reflexivity].
  rewrite IH. destruct (trace T t r) as [tr|]; [|reflexivity].
  rewrite last_cons_shift. cbn [rev]. rewrite <- app_assoc. reflexivity.
Qed.

Theorem valid_iff_decl T pi : valid T pi = true <-> valid_decl T pi.
Proof.
  unfold valid, valid_decl. rewrite andb_true_iff, run_hist_trace.
  destruct (trace T (ts_init T) pi) as [tr|].
  - unfold accept. rewrite andb_true_iff, rev_app_distr, rev_involutive. cbn [rev app].
    split.
    + intros (H0 & H1 & H2). split; [exact H0|]. exists tr. split; [reflexivity|]. split; [exact H1|].
      apply Forall_forall. intros c Hc. apply traj_holds_spec. rewrite forallb_forall in H2. apply H2, Hc.
    + intros (H0 & tr' & E & H1 & H2). injection E as <-. split; [exact H0|]. split; [exact H1|].
      apply forallb_forall. intros c Hc. apply traj_holds_spec. rewrite Forall_forall in H2. apply H2, Hc.
  - split; [intros [_ H]; discriminate | intros (_ & tr & E & _); discriminate].
Qed.

Lemma run_hist_run T pi : forall s rh,
  option_map fst (run_hist T s rh pi) = run (ts_prob T) (spec_step false (ts_prob T)) s pi.
Proof.
  induction pi as [|[aid args] r IH]; intros s rh; cbn [run_hist run]; [reflexivity|].
  unfold step. cbn [fst snd]. destruct (lookup_action (ts_prob T) aid) as [a|]; [|reflexivity].
  destruct (spec_step false (ts_prob T) s a args) as [t|]; [apply IH | reflexivity].
Qed.

(* without trajectory constraints, [valid] is Sem.valid_plan together with the initial-state check *)
Theorem valid_no_traj T pi : ts_traj T = [] ->
  valid T pi = init_ok T && valid_plan false (ts_prob T) (ts_init T) pi.
Proof.
  intros E. unfold valid, valid_plan. f_equal.
  rewrite <- (run_hist_run T pi (ts_init T) [ts_init T]).
  destruct (run_hist T (ts_init T) [ts_init T] pi) as [[s rh]|]; [|reflexivity].
  unfold accept. rewrite E. cbn [forallb option_map fst]. apply andb_true_r.
Qed.

Lemma run_hist_app T p1 : forall p2 s rh,
  run_hist T s rh (p1 ++ p2) = match run_hist T s rh p1 with Some (t, rt) => run_hist T t rt p2 | None => None end.
Proof.
  induction p1 as [|a p1 IH]; intros p2 s rh; cbn [app run_hist]; [reflexivity|].
  destruct (step T s a); [apply IH | reflexivity].
Qed.

Lemma map_back_app back p1 p2 : map_back back (p1 ++ p2) = map_back back p1 ++ map_back back p2.
Proof. unfold map_back. apply flat_map_app. Qed.

Lemma first_some_none {A B} (f : A -> option B) l : first_some f l = None -> forall x, In x l -> f x = None.
Proof.
  induction l as [|y l IH]; intros H x Hx; [destruct Hx|]. cbn in H.
  destruct (f y) eqn:E; [discriminate|]. destruct Hx as [<-|Hx]; [exact E | apply IH; assumption].
Qed.

Lemma first_some_some {A B} (f : A -> option B) l y : first_some f l = Some y -> exists x, In x l /\ f x = Some y.
Proof.
  induction l as [|z l IH]; intros H; [discriminate|]. cbn in H.
  destruct (f z) eqn:E.
  - injection H as <-. exists z. split; [left; reflexivity | exact E].
  - destruct (IH H) as (x & Hx & Hf). exists x. split; [right; exact Hx | exact Hf].
Qed.

(* ------------------------------------------------------------------ soundness validator *)
Section SoundProofs.
  Variables T T' : tsys.
  Variable back : inst -> option inst.
  Variable ik : bool.

  Notation next := (next_o T back).
  Notation acc := (acc_o T ik).

  (* the original side after a compiled plan = the run of the mapped-back plan *)
  Lemma fold_next_map_back pi' : forall o,
    fold_left next pi' o =
    match o with
    | Some (s, rh) => run_hist T s rh (map_back back pi')
    | None => None
    end.
  Proof.
    induction pi' as [|a' r IH]; intros o; cbn [fold_left].
    - destruct o as [[s rh]|]; reflexivity.
    - rewrite IH. unfold map_back. cbn [flat_map]. fold (map_back back r).
      unfold next_o. destruct (back a') as [a|]; destruct o as [[s rh]|]; cbn [app run_hist]; try reflexivity.
      destruct (step T s a) as [t|]; reflexivity.
  Qed.

  Lemma search_none n : forall s' rh' o rp,
    search T T' back ik n s' rh' o rp = None ->
    forall pi' t' rt', plan_over T' pi' -> length pi' <= n ->
      run_hist T' s' rh' pi' = Some (t', rt') -> accept T' t' rt' = true ->
      acc (fold_left next pi' o) = true.
  Proof.
    induction n as [|m IH]; intros s' rh' o rp H pi' t' rt' Hov Hlen Hrun Hacc.
    - destruct pi' as [|a' r]; [|simpl in Hlen; lia]. cbn in Hrun. injection Hrun as <- <-.
      cbn [fold_left]. cbn [search] in H. rewrite Hacc in H. cbn [andb] in H.
      destruct (acc o); [reflexivity | discriminate].
    - cbn [search] in H. destruct pi' as [|a' r].
      + cbn in Hrun. injection Hrun as <- <-. cbn [fold_left]. rewrite Hacc in H. cbn [andb] in H.
        destruct (acc o); [reflexivity | discriminate].
      + destruct (accept T' s' rh' && negb (acc o)); [discriminate|].
        cbn [run_hist] in Hrun. destruct (step T' s' a') as [t1|] eqn:Es; [|discriminate].
        inversion Hov as [|x l Hin Hov']; subst.
        pose proof (first_some_none _ _ H a' Hin) as H1. cbn beta in H1. rewrite Es in H1.
        cbn [fold_left]. eapply IH; eauto. simpl in Hlen. lia.
  Qed.

  Lemma search_some n : forall s' rh' o rp w,
    search T T' back ik n s' rh' o rp = Some w ->
    exists pi' t' rt', w = rev rp ++ pi' /\ plan_over T' pi' /\ length pi' <= n /\
      run_hist T' s' rh' pi' = Some (t', rt') /\ accept T' t' rt' = true /\ acc (fold_left next pi' o) = false.
  Proof.
    induction n as [|m IH]; intros s' rh' o rp w H; cbn [search] in H.
    - destruct (accept T' s' rh' && negb (acc o)) eqn:E; [|discriminate]. injection H as <-.
      apply andb_true_iff in E. destruct E as [E1 E2].
      exists [], s', rh'. rewrite app_nil_r. split; [reflexivity|]. split; [constructor|]. split; [simpl; lia|].
      split; [reflexivity|]. split; [exact E1|].
      cbn [fold_left]. destruct (acc o); [discriminate | reflexivity].
    - destruct (accept T' s' rh' && negb (acc o)) eqn:E.
      + injection H as <-. apply andb_true_iff in E. destruct E as [E1 E2].
        exists [], s', rh'. rewrite app_nil_r. split; [reflexivity|]. split; [constructor|]. split; [simpl; lia|].
        split; [reflexivity|]. split; [exact E1|].
        cbn [fold_left]. destruct (acc o); [discriminate | reflexivity].
      + apply first_some_some in H. destruct H as (a' & Hin & H).
        destruct (step T' s' a') as [t1|] eqn:Es; [|discriminate].
        destruct (IH _ _ _ _ _ H) as (pi' & t' & rt' & Ew & Hov & Hlen & Hrun & Hacc & Hno).
        exists (a' :: pi'), t', rt'. split.
        { rewrite Ew. cbn [rev]. rewrite <- app_assoc. reflexivity. }
        split; [constructor; assumption|]. split; [simpl; lia|].
        split; [cbn [run_hist]; rewrite Es; exact Hrun|]. split; [exact Hacc|]. exact Hno.
  Qed.
End SoundProofs.

Lemma valid_as_fold T back pi' :
  valid T (map_back back pi') =
  acc_o T (init_ok T) (fold_left (next_o T back) pi' (Some (ts_init T, [ts_init T]))).
Proof.
  rewrite fold_next_map_back. unfold valid, acc_o.
  destruct (run_hist T (ts_init T) [ts_init T] (map_back back pi')) as [[s rh]|]; [reflexivity|].
  apply andb_false_r.
Qed.

(* C06, validator: if the search finds no counterexample up to depth n, every valid compiled plan of length <= n over
   the compiled ground instances maps back to a valid plan of the original problem *)
Theorem sound_check_correct T T' back n :
  sound_check T T' back n = true ->
  forall pi', plan_over T' pi' -> length pi' <= n -> valid T' pi' = true -> valid T (map_back back pi') = true.
Proof.
  unfold sound_check, sound_search. intros H pi' Hov Hlen Hv.
  unfold valid in Hv. apply andb_true_iff in Hv. destruct Hv as [Hi Hv]. rewrite Hi in H.
  destruct (search T T' back (init_ok T) n (ts_init T') [ts_init T'] (Some (ts_init T, [ts_init T])) []) eqn:E; [discriminate|].
  destruct (run_hist T' (ts_init T') [ts_init T'] pi') as [[t' rt']|] eqn:Er; [|discriminate].
  rewrite valid_as_fold. eapply search_none; eauto.
Qed.

(* exactness: a counterexample returned by the search is a valid compiled plan whose image is not valid *)
Theorem sound_search_witness T T' back n w :
  sound_search T T' back n = Some w ->
  plan_over T' w /\ length w <= n /\ valid T' w = true /\ valid T (map_back back w) = false.
Proof.
  unfold sound_search. destruct (init_ok T') eqn:Hi; [|discriminate]. intros H.
  apply search_some in H. destruct H as (pi' & t' & rt' & Ew & Hov & Hlen & Hrun & Hacc & Hno).
  cbn [rev app] in Ew. subst w. split; [exact Hov|]. split; [exact Hlen|]. split.
  - unfold valid. rewrite Hi, Hrun. exact Hacc.
  - rewrite valid_as_fold. exact Hno.
Qed.

(* ------------------------------------------------------------------ completeness validator *)
Section CompleteProofs.
  Variables T T' : tsys.
  Variable back : inst -> option inst.
  Variable k : nat.

  (* a path of auxiliary steps only *)
  Definition all_aux (rho : plan) : Prop := map_back back rho = [].

  Lemma aux_succ_sound c c1 : In c1 (aux_succ T' back c) ->
    exists a', In a' (ts_insts T') /\ back a' = None /\ step T' (c_st c) a' = Some (c_st c1) /\
               c_rh c1 = c_st c1 :: c_rh c /\ S (c_bud c1) = c_bud c.
  Proof.
    unfold aux_succ. destruct (c_bud c) as [|b] eqn:Eb; [intros []|].
    rewrite in_flat_map. intros (a' & Hin & H). exists a'.
    destruct (back a'); [destruct H|]. destruct (step T' (c_st c) a') as [t'|]; [|destruct H].
    destruct H as [<-|[]]. repeat split; auto.
  Qed.

  Lemma aux_close_sound fuel : forall cs c1, In c1 (aux_close T' back fuel cs) ->
    exists c rho, In c cs /\ all_aux rho /\ plan_over T' rho /\
                  run_hist T' (c_st c) (c_rh c) rho = Some (c_st c1, c_rh c1) /\ length rho + c_bud c1 = c_bud c.
  Proof.
    induction fuel as [|f IH]; intros cs c1 H; cbn [aux_close] in H.
    - exists c1, []. repeat split; auto. constructor.
    - apply in_app_or in H. destruct H as [H|H].
      + exists c1, []. repeat split; auto. constructor.
      + destruct (IH _ _ H) as (c0 & rho & Hin & Haux & Hov & Hrun & Hb).
        apply in_flat_map in Hin. destruct Hin as (c & Hc & Hin).
        destruct (aux_succ_sound _ _ Hin) as (a' & Ha & Hback & Hstep & Hrh & Hbud).
        exists c, (a' :: rho). split; [exact Hc|]. split.
        { unfold all_aux, map_back in *. cbn [flat_map]. rewrite Hback. exact Haux. }
        split; [constructor; assumption|]. split.
        { cbn [run_hist]. rewrite Hstep, <- Hrh. exact Hrun. }
        simpl. lia.
  Qed.

  Lemma move_sound a c c1 : In c1 (move T' back a c) ->
    exists a', In a' (ts_insts T') /\ (exists a0, back a' = Some a0 /\ inst_eqb a0 a = true) /\
               step T' (c_st c) a' = Some (c_st c1) /\ c_rh c1 = c_st c1 :: c_rh c /\ c_bud c1 = c_bud c.
  Proof.
    unfold move. rewrite in_flat_map. intros (a' & Hin & H). exists a'.
    destruct (back a') as [a0|]; [|destruct H]. destruct (inst_eqb a0 a) eqn:E; [|destruct H].
    destruct (step T' (c_st c) a') as [t'|]; [|destruct H]. destruct H as [<-|[]].
    repeat split; eauto.
  Qed.
End CompleteProofs.

Lemma values_eqb_eq a : forall b, values_eqb a b = true -> a = b.
Proof.
  induction a as [|x a IH]; intros [|y b] H; simpl in H; try discriminate; [reflexivity|].
  apply andb_true_iff in H. destruct H as [H1 H2]. f_equal; [|apply IH, H2].
  destruct x, y; simpl in H1; try discriminate.
  - apply eqb_prop in H1. congruence.
  - f_equal. unfold qc_eqb in H1. apply Qeq_bool_iff in H1. apply Qc_is_canon. exact H1.
  - apply N.eqb_eq in H1. congruence.
Qed.

Lemma inst_eqb_eq (a b : inst) : inst_eqb a b = true -> a = b.
Proof.
  destruct a as [x xa], b as [y ya]. unfold inst_eqb, gfl_eqb. cbn [fst snd]. intros H.
  apply andb_true_iff in H. destruct H as [H1 H2]. apply N.eqb_eq in H1. apply values_eqb_eq in H2. congruence.
Qed.

Section CompleteMain.
  Variables T T' : tsys.
  Variable back : inst -> option inst.
  Variable k : nat.

  Lemma csearch_none n : forall s rh rp cs,
    csearch T T' back k n s rh rp cs = None ->
    forall pi t rt, plan_over T pi -> length pi <= n ->
      run_hist T s rh pi = Some (t, rt) -> accept T t rt = true ->
      exists c pi'' t' rt', In c cs /\ plan_over T' pi'' /\
        run_hist T' (c_st c) (c_rh c) pi'' = Some (t', rt') /\ accept T' t' rt' = true /\
        sub_noop T s pi (map_back back pi'') /\ length pi'' <= length pi + c_bud c.
  Proof.
    induction n as [|m IH]; intros s rh rp cs H pi t rt Hov Hlen Hrun Hacc.
    - destruct pi as [|a r]; [|simpl in Hlen; lia]. cbn in Hrun. injection Hrun as <- <-.
      cbn [csearch] in H. rewrite Hacc in H. cbn [andb] in H.
      destruct (existsb (fun c => accept T' (c_st c) (c_rh c)) cs) eqn:E; [|discriminate].
      apply existsb_exists in E. destruct E as (c & Hc & Ha).
      exists c, [], (c_st c), (c_rh c). split; [exact Hc|]. split; [constructor|]. split; [reflexivity|].
        split; [exact Ha|]. split; [constructor | simpl; lia].
    - cbn [csearch] in H. destruct pi as [|a r].
      + cbn in Hrun. injection Hrun as <- <-. rewrite Hacc in H. cbn [andb] in H.
        destruct (existsb (fun c => accept T' (c_st c) (c_rh c)) cs) eqn:E; [|discriminate].
        apply existsb_exists in E. destruct E as (c & Hc & Ha).
        exists c, [], (c_st c), (c_rh c). split; [exact Hc|]. split; [constructor|]. split; [reflexivity|].
        split; [exact Ha|]. split; [constructor | simpl; lia].
      + destruct (accept T s rh && negb (existsb (fun c => accept T' (c_st c) (c_rh c)) cs)); [discriminate|].
        cbn [run_hist] in Hrun. destruct (step T s a) as [s1|] eqn:Es; [|discriminate].
        inversion Hov as [|x l Hin Hov']; subst.
        pose proof (first_some_none _ _ H a Hin) as H1. cbn beta in H1. rewrite Es in H1.
        assert (Hl : length r <= m) by (simpl in Hlen; lia).
        destruct (IH _ _ _ _ H1 r t rt Hov' Hl Hrun Hacc) as (c1 & p1 & t' & rt' & Hc1 & Hov1 & Hrun1 & Hacc1 & Hsub & Hlen1).
        unfold next_cfgs in Hc1.
        destruct (aux_close_sound T' back k _ _ Hc1) as (c0 & rho & Hc0 & Haux & Hovr & Hrunr & Hbud).
        apply in_app_or in Hc0. destruct Hc0 as [Hc0|Hc0].
        * apply in_flat_map in Hc0. destruct Hc0 as (c & Hc & Hmv).
          destruct (move_sound T' back _ _ _ Hmv) as (a' & Ha' & (a0 & Hb & He) & Hst & Hrh & Hbd).
          apply inst_eqb_eq in He. subst a0.
          exists c, (a' :: rho ++ p1), t', rt'. split; [exact Hc|]. split.
          { constructor; [exact Ha'|]. apply Forall_app. split; assumption. }
          split.
          { cbn [run_hist]. rewrite Hst, run_hist_app, <- Hrh, Hrunr. exact Hrun1. }
          split; [exact Hacc1|]. split.
          { unfold map_back. cbn [flat_map]. fold (map_back back (rho ++ p1)). rewrite Hb, map_back_app, Haux.
            cbn [app]. eapply sn_keep; eauto. }
          simpl. rewrite app_length. lia.
        * destruct (same_obs T s s1) eqn:Eo; [|destruct Hc0].
          exists c0, (rho ++ p1), t', rt'. split; [exact Hc0|]. split; [apply Forall_app; split; assumption|].
          split; [rewrite run_hist_app, Hrunr; exact Hrun1|]. split; [exact Hacc1|]. split.
          { rewrite map_back_app, Haux. cbn [app]. eapply sn_drop; eauto. }
          simpl. rewrite app_length. lia.
  Qed.

  (* a returned witness is a valid plan of the original problem (for which no accepting configuration was found) *)
  Lemma csearch_some n : forall s rh rp cs w,
    csearch T T' back k n s rh rp cs = Some w ->
    exists pi t rt, w = rev rp ++ pi /\ plan_over T pi /\ length pi <= n /\
                    run_hist T s rh pi = Some (t, rt) /\ accept T t rt = true.
  Proof.
    induction n as [|m IH]; intros s rh rp cs w H; cbn [csearch] in H.
    - destruct (accept T s rh && _) eqn:E; [|discriminate]. injection H as <-.
      apply andb_true_iff in E. destruct E as [E1 _].
      exists [], s, rh. rewrite app_nil_r. split; [reflexivity|]. split; [constructor|]. split; [simpl; lia|].
      split; [reflexivity | exact E1].
    - destruct (accept T s rh && _) eqn:E.
      + injection H as <-. apply andb_true_iff in E. destruct E as [E1 _].
        exists [], s, rh. rewrite app_nil_r. split; [reflexivity|]. split; [constructor|]. split; [simpl; lia|].
        split; [reflexivity | exact E1].
      + apply first_some_some in H. destruct H as (a & Hin & H).
        destruct (step T s a) as [t1|] eqn:Es; [|discriminate].
        destruct (IH _ _ _ _ _ H) as (pi & t & rt & Ew & Hov & Hlen & Hrun & Hacc).
        exists (a :: pi), t, rt. split.
        { rewrite Ew. cbn [rev]. rewrite <- app_assoc. reflexivity. }
        split; [constructor; assumption|]. split; [simpl; lia|].
        split; [cbn [run_hist]; rewrite Es; exact Hrun | exact Hacc].
  Qed.
End CompleteMain.

(* C07, validator: if the search finds no unmatched plan up to length n, every valid plan of the original problem of
   length <= n has a valid compiled counterpart, at most k (auxiliary) steps longer, that maps back to the same
   sequence of action instances up to original steps that change no ground fluent *)
Theorem complete_check_correct T T' back k n :
  complete_check T T' back k n = true ->
  forall pi, plan_over T pi -> length pi <= n -> valid T pi = true ->
    exists pi', plan_over T' pi' /\ length pi' <= length pi + k /\ valid T' pi' = true /\
                sub_noop T (ts_init T) pi (map_back back pi').
Proof.
  unfold complete_check, complete_search. intros H pi Hov Hlen Hv.
  unfold valid in Hv. apply andb_true_iff in Hv. destruct Hv as [Hi Hv]. rewrite Hi in H.
  destruct (run_hist T (ts_init T) [ts_init T] pi) as [[t rt]|] eqn:Er; [|discriminate].
  match type of H with match ?X with _ => _ end = _ => destruct X eqn:E; [discriminate|] end.
  destruct (csearch_none T T' back k n _ _ _ _ E pi t rt Hov Hlen Er Hv)
    as (c & p1 & t' & rt' & Hc & Hov1 & Hrun1 & Hacc1 & Hsub & Hlen1).
  destruct (init_ok T') eqn:Hi'; [|destruct Hc].
  destruct (aux_close_sound T' back k _ _ Hc) as (c0 & rho & Hc0 & Haux & Hovr & Hrunr & Hbud).
  destruct Hc0 as [<-|[]]. cbn [c_st c_rh c_bud fst snd] in *.
  exists (rho ++ p1). split; [apply Forall_app; split; assumption|]. split; [rewrite app_length; lia|]. split.
  - unfold valid. rewrite Hi', run_hist_app, Hrunr, Hrun1. exact Hacc1.
  - rewrite map_back_app, Haux. exact Hsub.
Qed.

Theorem complete_search_witness T T' back k n w :
  complete_search T T' back k n = Some w -> plan_over T w /\ length w <= n /\ valid T w = true.
Proof.
  unfold complete_search. destruct (init_ok T) eqn:Hi; [|discriminate]. intros H.
  apply csearch_some in H. destruct H as (pi & t & rt & Ew & Hov & Hlen & Hrun & Hacc).
  cbn [rev app] in Ew. subst w. split; [exact Hov|]. split; [exact Hlen|].
  unfold valid. rewrite Hi, Hrun. exact Hacc.
Qed.

(* contrapositive: an unsolvable compiled problem implies an unsolvable original problem (up to the bound) *)
Theorem unsolvable_transfers T T' back k n :
  complete_check T T' back k n = true ->
  (forall pi', plan_over T' pi' -> valid T' pi' = false) ->
  forall pi, plan_over T pi -> length pi <= n -> valid T pi = false.
Proof.
  intros H Hun pi Hov Hlen. destruct (valid T pi) eqn:E; [|reflexivity].
  destruct (complete_check_correct T T' back k n H pi Hov Hlen E) as (pi' & Hov' & _ & Hv & _).
  rewrite (Hun pi' Hov') in Hv. discriminate.
Qed.
