(* C27: proofs about deordering.
   1. frame lemma: evaluation depends only on the read set;  2. a step depends only on the read set and changes only
   the write set;  3. adjacent independent steps commute;  4. a permutation that keeps the order of conflicting
   instances is reached by adjacent independent swaps;  5. the graph built by the loop keeps conflicting order. *)
From Coq Require Import List ZArith NArith QArith Qcanon Bool Lia Relations Permutation.
Import ListNotations.
Require Import UPV.Core.Expr UPV.Core.Eval UPV.Core.Interp UPV.Planning.Problem UPV.Planning.Sem UPV.Planning.Deorder.
Require Import UPV.Proofs.Eval_lemmas UPV.Proofs.Sem_proofs UPV.Proofs.Step_proofs.

(* ------------------------------------------------------------------ 1. frame *)
Lemma evals_l_evals sc I l : evals_l sc I l = evals sc I l.
Proof. induction l as [|x l IH]; simpl; [reflexivity|]. rewrite IH. reflexivity. Qed.

Lemma instances_set_fl s vs : forall I, instances (set_fl I s) vs = map (fun J => set_fl J s) (instances I vs).
Proof.
  induction vs as [|[v t] vs IH]; intros I; simpl; [reflexivity|].
  induction (objs I t) as [|o os IHo]; simpl; [reflexivity|].
  rewrite map_app, <- IHo. f_equal. apply (IH (bind_var I v o)).
Qed.

Lemma existsb_map {A B} (f : B -> bool) (g : A -> B) l : existsb f (map g l) = existsb (fun x => f (g x)) l.
Proof. induction l as [|x l IH]; simpl; [reflexivity|]. rewrite IH. reflexivity. Qed.
Lemma forallb_map {A B} (f : B -> bool) (g : A -> B) l : forallb f (map g l) = forallb (fun x => f (g x)) l.
Proof. induction l as [|x l IH]; simpl; [reflexivity|]. rewrite IH. reflexivity. Qed.
Lemma existsb_ext_in {A} (f g : A -> bool) l : (forall x, In x l -> f x = g x) -> existsb f l = existsb g l.
Proof.
  induction l as [|x l IH]; simpl; intros H; [reflexivity|]. rewrite (H x (or_introl eq_refl)), IH; auto.
Qed.
Lemma forallb_ext_in {A} (f g : A -> bool) l : (forall x, In x l -> f x = g x) -> forallb f l = forallb g l.
Proof.
  induction l as [|x l IH]; simpl; intros H; [reflexivity|]. rewrite (H x (or_introl eq_refl)), IH; auto.
Qed.
Lemma flat_map_ext_in {A B} (f g : A -> list B) l : (forall x, In x l -> f x = g x) -> flat_map f l = flat_map g l.
Proof.
  induction l as [|x l IH]; simpl; intros H; [reflexivity|]. rewrite (H x (or_introl eq_refl)), IH; auto.
Qed.
Lemma flat_map_map {A B C} (f : B -> list C) (g : A -> B) l : flat_map f (map g l) = flat_map (fun x => f (g x)) l.
Proof. induction l as [|x l IH]; simpl; [reflexivity|]. rewrite IH. reflexivity. Qed.

Lemma Forall_in {A} (P : A -> Prop) l : Forall P l -> forall x, In x l -> P x.
Proof. intros H. apply Forall_forall, H. Qed.

(* has_fluent and nf never look at the state *)
Lemma has_fluent_set_fl s e : forall I, has_fluent e (set_fl I s) = has_fluent e I.
Proof.
  induction e using expr_ind'; intros I; simpl; try reflexivity; auto;
    try (apply existsb_ext_in; intros x Hx; apply (Forall_in _ _ H x Hx); fail);
    try (rewrite IHe1, IHe2; reflexivity);
    try (rewrite instances_set_fl, existsb_map; apply existsb_ext_in; intros J _; apply IHe).
Qed.

Lemma nf_set_fl s e : forall I, nf e (set_fl I s) = nf e I.
Proof.
  induction e using expr_ind'; intros I; simpl; try reflexivity; auto;
    try (apply forallb_ext_in; intros x Hx; apply (Forall_in _ _ H x Hx); fail);
    try (rewrite IHe1, IHe2; reflexivity);
    try (rewrite instances_set_fl, forallb_map; apply forallb_ext_in; intros J _; apply IHe).
  apply forallb_ext_in; intros x _. rewrite has_fluent_set_fl. reflexivity.
Qed.

Section Frame.
  Variable sc : bool.

  Lemma evals_all I I' l : (forall x, In x l -> eval sc x I = eval sc x I') -> evals sc I l = evals sc I' l.
  Proof.
    induction l as [|x l IH]; intros H; cbn [evals]; [reflexivity|].
    rewrite (H x (or_introl eq_refl)), IH; [reflexivity|]. intros y Hy; apply H; right; exact Hy.
  Qed.
  Lemma ebools_all I I' l : (forall x, In x l -> eval sc x I = eval sc x I') -> ebools sc I l = ebools sc I' l.
  Proof.
    induction l as [|x l IH]; intros H; cbn [ebools]; [reflexivity|].
    rewrite (H x (or_introl eq_refl)), IH; [reflexivity|]. intros y Hy; apply H; right; exact Hy.
  Qed.
  Lemma enums_all I I' l : (forall x, In x l -> eval sc x I = eval sc x I') -> enums sc I l = enums sc I' l.
  Proof.
    induction l as [|x l IH]; intros H; cbn [enums]; [reflexivity|].
    rewrite (H x (or_introl eq_refl)), IH; [reflexivity|]. intros y Hy; apply H; right; exact Hy.
  Qed.

  Lemma existsb_false_in {A} (f : A -> bool) l : existsb f l = false -> forall x, In x l -> f x = false.
  Proof.
    intros H x Hx. destruct (f x) eqn:E; [|reflexivity].
    assert (existsb f l = true) by (apply existsb_exists; eauto). congruence.
  Qed.

  (* an expression without fluent occurrences evaluates independently of the state *)
  Lemma eval_no_fluent s s' e : forall I, has_fluent e I = false -> eval sc e (set_fl I s) = eval sc e (set_fl I s').
  Proof.
    induction e using expr_ind'; intros I HF; try reflexivity; try discriminate; simpl in HF.
    - rewrite !eval_EIFun. rewrite (evals_all (set_fl I s) (set_fl I s') args); [reflexivity|].
      intros x Hx. apply (Forall_in _ _ H x Hx). apply (existsb_false_in _ _ HF x Hx).
    - rewrite !eval_EAnd. rewrite (ebools_all (set_fl I s) (set_fl I s') l); [reflexivity|].
      intros x Hx. apply (Forall_in _ _ H x Hx). apply (existsb_false_in _ _ HF x Hx).
    - rewrite !eval_EOr. rewrite (ebools_all (set_fl I s) (set_fl I s') l); [reflexivity|].
      intros x Hx. apply (Forall_in _ _ H x Hx). apply (existsb_false_in _ _ HF x Hx).
    - rewrite !eval_ENot, (IHe I HF). reflexivity.
    - apply orb_false_iff in HF. destruct HF as [H1 H2]. rewrite !eval_EImplies, (IHe1 I H1), (IHe2 I H2). reflexivity.
    - apply orb_false_iff in HF. destruct HF as [H1 H2]. rewrite !eval_EIff, (IHe1 I H1), (IHe2 I H2). reflexivity.
    - rewrite !eval_EExists, !instances_set_fl, !map_map.
      rewrite (map_ext_in _ (fun x => as_bool (eval sc e (set_fl x s'))) (instances I vs)); [reflexivity|].
      intros J HJ. rewrite (IHe J (existsb_false_in _ _ HF J HJ)). reflexivity.
    - rewrite !eval_EForall, !instances_set_fl, !map_map.
      rewrite (map_ext_in _ (fun x => as_bool (eval sc e (set_fl x s'))) (instances I vs)); [reflexivity|].
      intros J HJ. rewrite (IHe J (existsb_false_in _ _ HF J HJ)). reflexivity.
    - rewrite !eval_EPlus. rewrite (enums_all (set_fl I s) (set_fl I s') l); [reflexivity|].
      intros x Hx. apply (Forall_in _ _ H x Hx). apply (existsb_false_in _ _ HF x Hx).
    - apply orb_false_iff in HF. destruct HF as [H1 H2]. rewrite !eval_EMinus, (IHe1 I H1), (IHe2 I H2). reflexivity.
    - rewrite !eval_ETimes. rewrite (enums_all (set_fl I s) (set_fl I s') l); [reflexivity|].
      intros x Hx. apply (Forall_in _ _ H x Hx). apply (existsb_false_in _ _ HF x Hx).
    - apply orb_false_iff in HF. destruct HF as [H1 H2]. rewrite !eval_EDiv, (IHe1 I H1), (IHe2 I H2). reflexivity.
    - apply orb_false_iff in HF. destruct HF as [H1 H2]. rewrite !eval_ELe, (IHe1 I H1), (IHe2 I H2). reflexivity.
    - apply orb_false_iff in HF. destruct HF as [H1 H2]. rewrite !eval_ELt, (IHe1 I H1), (IHe2 I H2). reflexivity.
    - apply orb_false_iff in HF. destruct HF as [H1 H2]. rewrite !eval_EEquals, (IHe1 I H1), (IHe2 I H2). reflexivity.
  Qed.
End Frame.

Definition agree_on (l : list gfl) (s s' : state) : Prop := forall f vs, In (f, vs) l -> s f vs = s' f vs.

Lemma agree_on_app l1 l2 s s' : agree_on (l1 ++ l2) s s' <-> agree_on l1 s s' /\ agree_on l2 s s'.
Proof.
  split.
  - intros H; split; intros f vs Hi; apply H, in_or_app; auto.
  - intros [H1 H2] f vs Hi. apply in_app_or in Hi. destruct Hi; auto.
Qed.
Lemma agree_on_incl l1 l2 s s' : incl l1 l2 -> agree_on l2 s s' -> agree_on l1 s s'.
Proof. intros Hi H f vs Hx. apply H, Hi, Hx. Qed.
Lemma agree_on_flat_map {A} (g : A -> list gfl) l s s' x : agree_on (flat_map g l) s s' -> In x l -> agree_on (g x) s s'.
Proof. intros H Hx f vs Hi. apply H, in_flat_map. eauto. Qed.
Lemma agree_on_sym l s s' : agree_on l s s' -> agree_on l s' s.
Proof. intros H f vs Hi. symmetry. apply H, Hi. Qed.

Lemma set_fl_id I : set_fl I (fl I) = I.
Proof. destruct I; reflexivity. Qed.

Section Frame2.
  Variable sc : bool.

  Lemma evals_no_fluent s I args :
    forallb (fun a => negb (has_fluent a I)) args = true -> evals sc (set_fl I s) args = evals sc I args.
  Proof.
    intros H. rewrite <- (set_fl_id I) at 2. apply evals_all. intros x Hx.
    apply eval_no_fluent. rewrite forallb_forall in H. specialize (H x Hx). destruct (has_fluent x I); [discriminate|reflexivity].
  Qed.

  (* frame lemma: evaluation depends only on the ground fluents in the read set *)
  Lemma eval_frame s s' e : forall I, nf e I = true -> agree_on (reads sc e I) s s' ->
    eval sc e (set_fl I s) = eval sc e (set_fl I s').
  Proof.
    induction e using expr_ind'; intros I HN HA; try reflexivity; cbn [nf reads] in HN, HA.
    - (* fluent *)
      rewrite !eval_EFluent, !(evals_no_fluent _ I args HN). rewrite evals_l_evals in HA.
      destruct (evals sc I args) as [vs|]; [|reflexivity]. simpl. apply HA. left. reflexivity.
    - rewrite !eval_EIFun. rewrite (evals_all sc (set_fl I s) (set_fl I s') args); [reflexivity|].
      intros x Hx. apply (Forall_in _ _ H x Hx); [apply (proj1 (forallb_forall _ _) HN x Hx) | apply (agree_on_flat_map (fun y => reads sc y I) _ _ _ x HA Hx)].
    - rewrite !eval_EAnd. rewrite (ebools_all sc (set_fl I s) (set_fl I s') l); [reflexivity|].
      intros x Hx. apply (Forall_in _ _ H x Hx); [apply (proj1 (forallb_forall _ _) HN x Hx) | apply (agree_on_flat_map (fun y => reads sc y I) _ _ _ x HA Hx)].
    - rewrite !eval_EOr. rewrite (ebools_all sc (set_fl I s) (set_fl I s') l); [reflexivity|].
      intros x Hx. apply (Forall_in _ _ H x Hx); [apply (proj1 (forallb_forall _ _) HN x Hx) | apply (agree_on_flat_map (fun y => reads sc y I) _ _ _ x HA Hx)].
    - rewrite !eval_ENot, (IHe I HN HA). reflexivity.
    - apply andb_true_iff in HN. destruct HN as [N1 N2]. apply agree_on_app in HA. destruct HA as [A1 A2].
      rewrite !eval_EImplies, (IHe1 I N1 A1), (IHe2 I N2 A2). reflexivity.
    - apply andb_true_iff in HN. destruct HN as [N1 N2]. apply agree_on_app in HA. destruct HA as [A1 A2].
      rewrite !eval_EIff, (IHe1 I N1 A1), (IHe2 I N2 A2). reflexivity.
    - rewrite !eval_EExists, !instances_set_fl, !map_map.
      rewrite (map_ext_in _ (fun x => as_bool (eval sc e (set_fl x s'))) (instances I vs)); [reflexivity|].
      intros J HJ. rewrite (IHe J); [reflexivity | apply (proj1 (forallb_forall _ _) HN J HJ) | apply (agree_on_flat_map (fun K => reads sc e K) _ _ _ J HA HJ)].
    - rewrite !eval_EForall, !instances_set_fl, !map_map.
      rewrite (map_ext_in _ (fun x => as_bool (eval sc e (set_fl x s'))) (instances I vs)); [reflexivity|].
      intros J HJ. rewrite (IHe J); [reflexivity | apply (proj1 (forallb_forall _ _) HN J HJ) | apply (agree_on_flat_map (fun K => reads sc e K) _ _ _ J HA HJ)].
    - rewrite !eval_EPlus. rewrite (enums_all sc (set_fl I s) (set_fl I s') l); [reflexivity|].
      intros x Hx. apply (Forall_in _ _ H x Hx); [apply (proj1 (forallb_forall _ _) HN x Hx) | apply (agree_on_flat_map (fun y => reads sc y I) _ _ _ x HA Hx)].
    - apply andb_true_iff in HN. destruct HN as [N1 N2]. apply agree_on_app in HA. destruct HA as [A1 A2].
      rewrite !eval_EMinus, (IHe1 I N1 A1), (IHe2 I N2 A2). reflexivity.
    - rewrite !eval_ETimes. rewrite (enums_all sc (set_fl I s) (set_fl I s') l); [reflexivity|].
      intros x Hx. apply (Forall_in _ _ H x Hx); [apply (proj1 (forallb_forall _ _) HN x Hx) | apply (agree_on_flat_map (fun y => reads sc y I) _ _ _ x HA Hx)].
    - apply andb_true_iff in HN. destruct HN as [N1 N2]. apply agree_on_app in HA. destruct HA as [A1 A2].
      rewrite !eval_EDiv, (IHe1 I N1 A1), (IHe2 I N2 A2). reflexivity.
    - apply andb_true_iff in HN. destruct HN as [N1 N2]. apply agree_on_app in HA. destruct HA as [A1 A2].
      rewrite !eval_ELe, (IHe1 I N1 A1), (IHe2 I N2 A2). reflexivity.
    - apply andb_true_iff in HN. destruct HN as [N1 N2]. apply agree_on_app in HA. destruct HA as [A1 A2].
      rewrite !eval_ELt, (IHe1 I N1 A1), (IHe2 I N2 A2). reflexivity.
    - apply andb_true_iff in HN. destruct HN as [N1 N2]. apply agree_on_app in HA. destruct HA as [A1 A2].
      rewrite !eval_EEquals, (IHe1 I N1 A1), (IHe2 I N2 A2). reflexivity.
  Qed.
End Frame2.

(* ------------------------------------------------------------------ 2. one step: reads / writes *)
Lemma collect_res_in rs : forall l a, collect_res rs = Some l -> In a l -> In (EAct a) rs.
Proof.
  induction rs as [|r rs IH]; intros l a H Hi; simpl in H.
  - inversion H; subst. destruct Hi.
  - destruct r as [| |b]; [discriminate | right; eapply IH; eauto |].
    destruct (collect_res rs) as [l'|]; [|discriminate]. inversion H; subst.
    destruct Hi as [->|Hi]; [left; reflexivity | right; eapply IH; eauto].
Qed.

Lemma filter_none {A} (f : A -> bool) l : (forall x, In x l -> f x = false) -> filter f l = [].
Proof.
  induction l as [|x l IH]; intros H; simpl; [reflexivity|].
  rewrite (H x (or_introl eq_refl)). apply IH. intros y Hy. apply H. right. exact Hy.
Qed.

Section StepFrame.
  Variable sc : bool.
  Variable P : problem.

  Definition step_core (s : state) (a : action) (args : list value) : option (list aeff) :=
    let I := mk_interp P s (zip_params (a_params a) args) in
    if negb (all_hold sc I (a_pre a)) then None
    else match fired sc I (a_effs a) with
         | None => None
         | Some acts => if negb (spec_effects_ok P s acts) then None else Some acts
         end.

  Lemma spec_step_core s a args :
    spec_step sc P s a args =
    match step_core s a args with
    | Some acts => let s' := spec_succ P s acts in if invariants_ok sc P s' then Some s' else None
    | None => None
    end.
  Proof.
    unfold spec_step, step_core.
    destruct (negb (all_hold sc (mk_interp P s (zip_params (a_params a) args)) (a_pre a))); [reflexivity|].
    destruct (fired sc (mk_interp P s (zip_params (a_params a) args)) (a_effs a)) as [acts|]; [|reflexivity].
    destruct (negb (spec_effects_ok P s acts)); reflexivity.
  Qed.

  Lemma mk_interp_set_fl s a args : mk_interp P s (zip_params (a_params a) args) = set_fl (inst_interp P a args) s.
  Proof. reflexivity. Qed.

  Lemma all_hold_frame s s' I0 cs :
    forallb (fun c => nf c I0) cs = true -> agree_on (flat_map (fun c => reads sc c I0) cs) s s' ->
    all_hold sc (set_fl I0 s) cs = all_hold sc (set_fl I0 s') cs.
  Proof.
    intros HN HA. unfold all_hold. apply forallb_ext_in. intros c Hc. unfold holds.
    rewrite (eval_frame sc s s' c I0); [reflexivity | apply (proj1 (forallb_forall _ _) HN c Hc) |].
    apply (agree_on_flat_map (fun c => reads sc c I0) _ _ _ c HA Hc).
  Qed.

  Lemma eff_args_no_fluent e J : eff_nf e J = true -> forallb (fun a => negb (has_fluent a J)) (e_args e) = true.
  Proof. unfold eff_nf. rewrite !andb_true_iff. intros [[_ H] _]. exact H. Qed.

  Lemma eval_effect_frame s s' e J : eff_nf e J = true -> agree_on (eff_reads sc e J) s s' ->
    eval_effect sc (set_fl J s) e = eval_effect sc (set_fl J s') e.
  Proof.
    intros HN HA. pose proof (eff_args_no_fluent e J HN) as HF.
    unfold eff_nf in HN. rewrite !andb_true_iff in HN. destruct HN as [[N1 N2] N3].
    unfold eff_reads in HA. apply agree_on_app in HA. destruct HA as [A1 HA]. apply agree_on_app in HA. destruct HA as [A2 A3].
    unfold eval_effect. rewrite !evals_l_evals, !(evals_no_fluent sc _ J _ HF).
    rewrite (eval_frame sc s s' (e_cond e) J N1 A1), (eval_frame sc s s' (e_val e) J N3 A3). reflexivity.
  Qed.

  Definition effs_nf (I0 : interp) (effs : list effect) : bool :=
    forallb (fun e => forallb (eff_nf e) (instances I0 (e_vars e))) effs.
  Definition effs_reads (I0 : interp) (effs : list effect) : list gfl :=
    flat_map (fun e => flat_map (eff_reads sc e) (instances I0 (e_vars e))) effs.
  Definition effs_writes (I0 : interp) (effs : list effect) : list gfl :=
    flat_map (fun e => flat_map (eff_writes sc e) (instances I0 (e_vars e))) effs.

  Lemma fired_frame s s' I0 effs : effs_nf I0 effs = true -> agree_on (effs_reads I0 effs) s s' ->
    fired sc (set_fl I0 s) effs = fired sc (set_fl I0 s') effs.
  Proof.
    intros HN HA. unfold fired. f_equal. apply flat_map_ext_in. intros e He.
    rewrite !instances_set_fl, !map_map. apply map_ext_in. intros J HJ.
    apply eval_effect_frame.
    - apply (proj1 (forallb_forall _ _) (proj1 (forallb_forall _ _) HN e He) J HJ).
    - apply (agree_on_flat_map (eff_reads sc e) _ _ _ J (agree_on_flat_map _ _ _ _ e HA He) HJ).
  Qed.

  Lemma fired_keys s I0 effs acts : effs_nf I0 effs = true -> fired sc (set_fl I0 s) effs = Some acts ->
    forall a, In a acts -> In (ae_key a) (effs_writes I0 effs).
  Proof.
    intros HN HF a Ha. unfold fired in HF. pose proof (collect_res_in _ _ _ HF Ha) as Hi.
    apply in_flat_map in Hi. destruct Hi as [e [He Hi]]. rewrite instances_set_fl, map_map in Hi.
    apply in_map_iff in Hi. destruct Hi as [J [EJ HJ]].
    pose proof (proj1 (forallb_forall _ _) (proj1 (forallb_forall _ _) HN e He) J HJ) as NJ.
    pose proof (eff_args_no_fluent e J NJ) as HFl.
    unfold eval_effect in EJ. rewrite evals_l_evals, (evals_no_fluent sc _ J _ HFl) in EJ.
    destruct (evals sc J (e_args e)) as [vs|] eqn:EV; [|discriminate].
    assert (K : ae_key a = (e_fl e, vs)).
    { destruct (eval sc (e_cond e) (set_fl J s)) as [[[|]| |]|]; try discriminate.
      destruct (eval sc (e_val e) (set_fl J s)); [|discriminate]. inversion EJ; subst; reflexivity. }
    rewrite K. apply in_flat_map. exists e. split; [exact He|]. apply in_flat_map. exists J. split; [exact HJ|].
    unfold eff_writes. rewrite evals_l_evals, EV. left. reflexivity.
  Qed.

  Lemma eff_writes_incl e J : incl (eff_writes sc e J) (eff_reads sc e J).
  Proof.
    intros k Hk. unfold eff_reads, eff_target. cbn [reads]. apply in_or_app. right. apply in_or_app. left.
    apply in_or_app. left. exact Hk.
  Qed.

  Lemma effs_writes_incl I0 effs : incl (effs_writes I0 effs) (effs_reads I0 effs).
  Proof.
    intros k Hk. apply in_flat_map in Hk. destruct Hk as [e [He Hk]]. apply in_flat_map in Hk. destruct Hk as [J [HJ Hk]].
    apply in_flat_map. exists e. split; [exact He|]. apply in_flat_map. exists J. split; [exact HJ|].
    apply eff_writes_incl, Hk.
  Qed.

  Lemma act_writes_incl a args : incl (act_writes sc P a args) (act_reads sc P a args).
  Proof. intros k Hk. unfold act_reads. apply in_or_app. right. apply effs_writes_incl, Hk. Qed.

  Lemma inst_writes_incl x : incl (inst_writes sc P x) (inst_reads sc P x).
  Proof.
    unfold inst_writes, inst_reads. destruct (lookup_action P (fst x)); [apply act_writes_incl | intros k []].
  Qed.

  (* the declarative successor of one ground fluent depends on the old state only at that fluent *)
  Lemma spec_fluent_congr s s' acts k : s (fst k) (snd k) = s' (fst k) (snd k) -> spec_fluent P s acts k = spec_fluent P s' acts k.
  Proof. intros H. unfold spec_fluent. rewrite H. reflexivity. Qed.

  Lemma spec_succ_congr s s' acts f vs : s f vs = s' f vs -> spec_succ P s acts f vs = spec_succ P s' acts f vs.
  Proof. intros H. unfold spec_succ. rewrite (spec_fluent_congr s s' acts (f, vs) H), H. reflexivity. Qed.

  Lemma spec_succ_notin s acts f vs : (forall a, In a acts -> ae_key a <> (f, vs)) -> spec_succ P s acts f vs = s f vs.
  Proof.
    intros H. unfold spec_succ, spec_fluent, avals, deltas.
    rewrite !filter_none; [reflexivity | |]; intros a Ha;
      (destruct (gfl_eqb (ae_key a) (f, vs)) eqn:E; [apply gfl_eqb_eq in E; exfalso; exact (H a Ha E) | reflexivity]).
  Qed.

  Lemma spec_effects_ok_frame s s' acts :
    (forall a, In a acts -> s (fst (ae_key a)) (snd (ae_key a)) = s' (fst (ae_key a)) (snd (ae_key a))) ->
    spec_effects_ok P s acts = spec_effects_ok P s' acts.
  Proof.
    intros H. unfold spec_effects_ok. apply forallb_ext_in. intros a Ha.
    rewrite (spec_fluent_congr s s' acts (ae_key a) (H a Ha)). reflexivity.
  Qed.

  Lemma act_nf_split a args : act_nf P a args = true ->
    forallb (fun c => nf c (inst_interp P a args)) (a_pre a) = true /\ effs_nf (inst_interp P a args) (a_effs a) = true.
  Proof. unfold act_nf. rewrite andb_true_iff. auto. Qed.

  (* a step reads only its read set ... *)
  Lemma step_core_frame s s' a args : act_nf P a args = true -> agree_on (act_reads sc P a args) s s' ->
    step_core s a args = step_core s' a args.
  Proof.
    intros HN HA. destruct (act_nf_split a args HN) as [N1 N2].
    unfold act_reads in HA. apply agree_on_app in HA. destruct HA as [A1 A2].
    unfold step_core. rewrite !mk_interp_set_fl.
    rewrite (all_hold_frame s s' _ _ N1 A1), (fired_frame s s' _ _ N2 A2).
    destruct (negb (all_hold sc (set_fl (inst_interp P a args) s') (a_pre a))); [reflexivity|].
    destruct (fired sc (set_fl (inst_interp P a args) s') (a_effs a)) as [acts|] eqn:EF; [|reflexivity].
    rewrite (spec_effects_ok_frame s s' acts); [reflexivity|].
    intros x Hx. pose proof (fired_keys s' _ _ _ N2 EF x Hx) as Hk.
    apply effs_writes_incl in Hk. destruct (ae_key x) as [f vs]. apply A2, Hk.
  Qed.

  (* ... and modifies only its write set *)
  Lemma step_core_keys s a args acts : act_nf P a args = true -> step_core s a args = Some acts ->
    forall x, In x acts -> In (ae_key x) (act_writes sc P a args).
  Proof.
    intros HN HS x Hx. destruct (act_nf_split a args HN) as [_ N2]. unfold step_core in HS.
    destruct (negb (all_hold sc (mk_interp P s (zip_params (a_params a) args)) (a_pre a))); [discriminate|].
    rewrite mk_interp_set_fl in HS.
    destruct (fired sc (set_fl (inst_interp P a args) s) (a_effs a)) as [acts'|] eqn:EF; [|discriminate].
    destruct (negb (spec_effects_ok P s acts')); [discriminate|]. inversion HS; subst.
    apply (fired_keys s _ _ _ N2 EF x Hx).
  Qed.

  Lemma spec_succ_outside s a args acts f vs : act_nf P a args = true -> step_core s a args = Some acts ->
    ~ In (f, vs) (act_writes sc P a args) -> spec_succ P s acts f vs = s f vs.
  Proof.
    intros HN HS Hni. apply spec_succ_notin. intros x Hx E. apply Hni. rewrite <- E.
    apply (step_core_keys s a args acts HN HS x Hx).
  Qed.
End StepFrame.

(* ------------------------------------------------------------------ 3. adjacent independent steps commute *)
Definition disjoint (a b : list gfl) : Prop := forall k, In k a -> ~ In k b.

Lemma gmem_In k l : gmem k l = true <-> In k l.
Proof.
  unfold gmem. rewrite existsb_exists. split.
  - intros [x [Hx E]]. apply gfl_eqb_eq in E. subst. exact Hx.
  - intros H. exists k. split; [exact H | apply gfl_eqb_refl].
Qed.

Lemma intersects_false a b : intersects a b = false -> disjoint a b.
Proof.
  intros H k Ha Hb. unfold intersects in H.
  assert (existsb (fun k0 => gmem k0 b) a = true) by (apply existsb_exists; exists k; split; [exact Ha | apply gmem_In, Hb]).
  congruence.
Qed.

Lemma intersects_true a b : intersects a b = true -> exists k, In k a /\ In k b.
Proof.
  unfold intersects. rewrite existsb_exists. intros [k [Ha Hb]]. exists k. split; [exact Ha | apply gmem_In, Hb].
Qed.

Section Commute.
  Variable sc : bool.
  Variable P : problem.

  Let Iinv := mk_interp P empty_state [].

  Lemma single_key_all k r : single_key (k :: r) = true -> forall k', In k' (k :: r) -> k' = k.
  Proof.
    simpl. intros H k' [<-|Hi]; [reflexivity|]. rewrite forallb_forall in H. specialize (H k' Hi).
    apply gfl_eqb_eq in H. congruence.
  Qed.

  (* with single-fluent invariants: a state that coincides, fluent by fluent, with one of two invariant-satisfying
     states satisfies the invariants *)
  Lemma inv_ok_pointwise s t u :
    inv_local sc P = true ->
    (forall f vs, u f vs = s f vs \/ u f vs = t f vs) ->
    invariants_ok sc P s = true -> invariants_ok sc P t = true -> invariants_ok sc P u = true.
  Proof.
    intros HL HP Hs Ht. unfold invariants_ok, all_hold in *. apply forallb_forall. intros e He.
    unfold inv_local in HL. rewrite forallb_forall in HL. specialize (HL e He). fold Iinv in HL.
    apply andb_true_iff in HL. destruct HL as [HN HK].
    rewrite forallb_forall in Hs, Ht. specialize (Hs e He). specialize (Ht e He).
    change (mk_interp P u []) with (set_fl Iinv u).
    change (mk_interp P s []) with (set_fl Iinv s) in Hs. change (mk_interp P t []) with (set_fl Iinv t) in Ht.
    unfold holds in *.
    destruct (reads sc e Iinv) as [|[f vs] r] eqn:ER.
    - rewrite (eval_frame sc u s e Iinv HN); [exact Hs|]. rewrite ER. intros ? ? [].
    - destruct (HP f vs) as [E|E].
      + rewrite (eval_frame sc u s e Iinv HN); [exact Hs|]. rewrite ER. intros f' vs' Hi.
        pose proof (single_key_all _ _ HK _ Hi) as EQ. inversion EQ; subst. exact E.
      + rewrite (eval_frame sc u t e Iinv HN); [exact Ht|]. rewrite ER. intros f' vs' Hi.
        pose proof (single_key_all _ _ HK _ Hi) as EQ. inversion EQ; subst. exact E.
  Qed.

  Definition key_in (k : gfl) (acts : list aeff) : bool := existsb (fun x => gfl_eqb (ae_key x) k) acts.

  Lemma key_in_true k acts : key_in k acts = true -> exists x, In x acts /\ ae_key x = k.
  Proof. unfold key_in. rewrite existsb_exists. intros [x [Hx E]]. apply gfl_eqb_eq in E. eauto. Qed.
  Lemma key_in_false k acts : key_in k acts = false -> forall x, In x acts -> ae_key x <> k.
  Proof.
    intros H x Hx E. assert (key_in k acts = true); [|congruence].
    unfold key_in. apply existsb_exists. exists x. split; [exact Hx | rewrite E; apply gfl_eqb_refl].
  Qed.

  Lemma commute_steps s s1 s2 a argsA b argsB :
    act_nf P a argsA = true -> act_nf P b argsB = true ->
    disjoint (act_writes sc P a argsA) (act_reads sc P b argsB) ->
    disjoint (act_writes sc P b argsB) (act_reads sc P a argsA) ->
    inv_local sc P = true -> invariants_ok sc P s = true ->
    spec_step sc P s a argsA = Some s1 -> spec_step sc P s1 b argsB = Some s2 ->
    exists s1' s2', spec_step sc P s b argsB = Some s1' /\ spec_step sc P s1' a argsA = Some s2' /\ state_eq s2' s2.
  Proof.
    intros NA NB D1 D2 HL HI SA SB.
    rewrite spec_step_core in SA. destruct (step_core sc P s a argsA) as [actsA|] eqn:CA; [|discriminate]. cbv zeta in SA.
    destruct (invariants_ok sc P (spec_succ P s actsA)) eqn:I1; [|discriminate]. inversion SA; subst s1; clear SA.
    rewrite spec_step_core in SB. destruct (step_core sc P (spec_succ P s actsA) b argsB) as [actsB|] eqn:CB; [|discriminate].
    cbv zeta in SB. destruct (invariants_ok sc P (spec_succ P (spec_succ P s actsA) actsB)) eqn:I2; [|discriminate].
    inversion SB; subst s2; clear SB.
    set (s1 := spec_succ P s actsA) in *.
    (* outside the writes of A, s1 = s *)
    assert (OA : forall f vs, ~ In (f, vs) (act_writes sc P a argsA) -> s1 f vs = s f vs)
      by (intros f vs Hn; apply (spec_succ_outside sc P s a argsA actsA f vs NA CA Hn)).
    assert (AB : agree_on (act_reads sc P b argsB) s s1).
    { intros f vs Hi. symmetry. apply OA. intros Hw. exact (D1 _ Hw Hi). }
    assert (CB' : step_core sc P s b argsB = Some actsB) by (rewrite (step_core_frame sc P s s1 b argsB NB AB); exact CB).
    set (s1' := spec_succ P s actsB).
    assert (OB : forall f vs, ~ In (f, vs) (act_writes sc P b argsB) -> s1' f vs = s f vs)
      by (intros f vs Hn; apply (spec_succ_outside sc P s b argsB actsB f vs NB CB' Hn)).
    assert (AA : agree_on (act_reads sc P a argsA) s s1').
    { intros f vs Hi. symmetry. apply OB. intros Hw. exact (D2 _ Hw Hi). }
    assert (CA' : step_core sc P s1' a argsA = Some actsA) by (rewrite <- (step_core_frame sc P s s1' a argsA NA AA); exact CA).
    (* keys *)
    assert (KA : forall x, In x actsA -> In (ae_key x) (act_writes sc P a argsA)) by (apply (step_core_keys sc P s a argsA actsA NA CA)).
    assert (KB : forall x, In x actsB -> In (ae_key x) (act_writes sc P b argsB)) by (apply (step_core_keys sc P s b argsB actsB NB CB')).
    assert (WAB : forall k, In k (act_writes sc P a argsA) -> ~ In k (act_writes sc P b argsB)).
    { intros k Ha Hb. apply (D1 k Ha). apply act_writes_incl, Hb. }
    (* final states coincide *)
    assert (FIN : state_eq (spec_succ P s1' actsA) (spec_succ P s1 actsB)).
    { intros f vs. destruct (key_in (f, vs) actsA) eqn:EK.
      - destruct (key_in_true _ _ EK) as [x [Hx Ex]]. pose proof (KA x Hx) as Hw. rewrite Ex in Hw.
        pose proof (WAB _ Hw) as HnB.
        rewrite (spec_succ_congr P s1' s actsA f vs (OB f vs HnB)).
        rewrite (spec_succ_notin P s1 actsB f vs); [reflexivity|].
        intros y Hy Ey. apply HnB. rewrite <- Ey. apply KB, Hy.
      - pose proof (key_in_false _ _ EK) as HnA.
        rewrite (spec_succ_notin P s1' actsA f vs HnA).
        assert (E1 : s1 f vs = s f vs) by (apply (spec_succ_notin P s actsA f vs HnA)).
        rewrite (spec_succ_congr P s1 s actsB f vs E1). reflexivity. }
    (* invariants in the intermediate state *)
    assert (I1' : invariants_ok sc P s1' = true).
    { apply (inv_ok_pointwise s (spec_succ P s1 actsB) s1' HL); [|exact HI|exact I2].
      intros f vs. destruct (key_in (f, vs) actsB) eqn:EK.
      - right. destruct (key_in_true _ _ EK) as [x [Hx Ex]]. pose proof (KB x Hx) as Hw. rewrite Ex in Hw.
        assert (HnA : ~ In (f, vs) (act_writes sc P a argsA)) by (intros Ha; exact (WAB _ Ha Hw)).
        unfold s1'. symmetry. apply spec_succ_congr. apply OA, HnA.
      - left. apply (spec_succ_notin P s actsB f vs (key_in_false _ _ EK)). }
    exists s1', (spec_succ P s1' actsA). split; [|split].
    - rewrite spec_step_core, CB'. cbv zeta. fold s1'. rewrite I1'. reflexivity.
    - rewrite spec_step_core, CA'. cbv zeta. rewrite (invariants_ok_ext sc P _ _ FIN), I2. reflexivity.
    - exact FIN.
  Qed.
End Commute.

(* ------------------------------------------------------------------ 4. runs and permutations *)
Lemma before_cons w r x z : before r x z -> before (w :: r) x z.
Proof. intros (a & b & c & ->). exists (w :: a), b, c. reflexivity. Qed.
Lemma before_head x r z : In z r -> before (x :: r) x z.
Proof. intros H. apply in_split in H. destruct H as (b & c & ->). exists [], b, c. reflexivity. Qed.
Lemma before_inv w r x z : before (w :: r) x z -> (w = x /\ In z r) \/ before r x z.
Proof.
  intros (a & b & c & E). destruct a as [|w' a]; simpl in E; inversion E; subst.
  - left. split; [reflexivity|]. apply in_or_app. right. left. reflexivity.
  - right. exists a, b, c. reflexivity.
Qed.
Lemma before_in l x z : before l x z -> In x l /\ In z l.
Proof.
  intros (a & b & c & ->). split; apply in_or_app; right; [left; reflexivity|].
  right. apply in_or_app. right. left. reflexivity.
Qed.
Lemma before_nil x z : ~ before [] x z.
Proof. intros (a & b & c & E). destruct a; discriminate. Qed.

Lemma before_head_absurd y r x : NoDup (y :: r) -> before (y :: r) x y -> False.
Proof.
  intros ND H. inversion ND as [|? ? Hn ND']; subst. apply before_inv in H. destruct H as [[_ Hi]|H]; [exact (Hn Hi)|].
  apply before_in in H. exact (Hn (proj2 H)).
Qed.
Lemma before_tail w r x z : before (w :: r) x z -> x <> w -> before r x z.
Proof. intros H Hn. apply before_inv in H. destruct H as [[E _]|H]; [congruence | exact H]. Qed.
Lemma before_insert l1 y l2 x z : before (l1 ++ l2) x z -> before (l1 ++ y :: l2) x z.
Proof.
  induction l1 as [|w l1 IH]; simpl; intros H; [apply before_cons, H|].
  apply before_inv in H. destruct H as [[-> Hi]|H].
  - apply before_head. apply in_or_app. apply in_app_or in Hi. destruct Hi; [left; assumption | right; right; assumption].
  - apply before_cons, IH, H.
Qed.
Lemma before_split l1 y l2 x : In x l1 -> before (l1 ++ y :: l2) x y.
Proof. intros H. apply in_split in H. destruct H as (a & b & ->). exists a, b, l2. rewrite <- app_assoc. reflexivity. Qed.

Lemma before_trans l x y z : NoDup l -> before l x y -> before l y z -> before l x z.
Proof.
  induction l as [|w r IH]; intros ND H1 H2; [destruct (before_nil _ _ H1)|].
  inversion ND as [|? ? Hn ND']; subst.
  apply before_inv in H1. apply before_inv in H2.
  destruct H1 as [[-> Hy]|H1], H2 as [[E Hz]|H2].
  - subst. contradiction.
  - apply before_head. exact (proj2 (before_in _ _ _ H2)).
  - subst. exfalso. exact (Hn (proj2 (before_in _ _ _ H1))).
  - apply before_cons, IH; assumption.
Qed.

Lemma reach_sub G G' : (forall x y, In (x, y) G -> reach G' x y) -> forall x y, reach G x y -> reach G' x y.
Proof.
  intros H x y R. induction R as [x y E | x y z _ IH1 _ IH2]; [apply H, E | eapply t_trans; eauto].
Qed.

Lemma topo_respects_reach G pl' : NoDup pl' -> (forall x y, In (x, y) G -> before pl' x y) ->
  forall x y, reach G x y -> before pl' x y.
Proof.
  intros ND H x y R. induction R as [x y E | x y z _ IH1 _ IH2]; [apply H, E | eapply before_trans; eauto].
Qed.

Section Runs.
  Variable sc : bool.
  Variable P : problem.

  Definition runp (s : state) (pl : list inst) : option state := run P (spec_step sc P) s pl.

  Lemma spec_step_ext s t a args : state_eq s t -> ostate_eq (spec_step sc P s a args) (spec_step sc P t a args).
  Proof.
    intros H. rewrite !spec_step_core.
    assert (E : step_core sc P s a args = step_core sc P t a args).
    { unfold step_core.
      pose proof (mk_interp_ext P s t (zip_params (a_params a) args) H) as HI.
      rewrite (all_hold_ext sc _ _ (a_pre a) HI), (fired_ext sc (a_effs a) _ _ HI).
      destruct (negb (all_hold sc (mk_interp P t (zip_params (a_params a) args)) (a_pre a))); [reflexivity|].
      destruct (fired sc (mk_interp P t (zip_params (a_params a) args)) (a_effs a)) as [acts|]; [|reflexivity].
      rewrite (spec_effects_ok_frame P s t acts); [reflexivity|]. intros x _. apply H. }
    rewrite E. destruct (step_core sc P t a args) as [acts|]; [|exact I]. cbv zeta.
    assert (SE : state_eq (spec_succ P s acts) (spec_succ P t acts)) by (intros f vs; apply spec_succ_congr, H).
    rewrite (invariants_ok_ext sc P _ _ SE). destruct (invariants_ok sc P (spec_succ P t acts)); [exact SE | exact I].
  Qed.

  Lemma runp_ext (pl : list inst) : forall s t, state_eq s t -> ostate_eq (runp s pl) (runp t pl).
  Proof.
    induction pl as [|[aid args] pl IH]; intros s t H; simpl; [exact H|].
    unfold runp in *. simpl. destruct (lookup_action P aid) as [a|]; [|exact I].
    pose proof (spec_step_ext s t a args H) as E.
    destruct (spec_step sc P s a args) as [s1|], (spec_step sc P t a args) as [t1|]; simpl in E; try contradiction; [|exact I].
    apply IH, E.
  Qed.

  Lemma runp_ext_some (pl : list inst) s t fin : state_eq s t -> runp t pl = Some fin -> exists fin', runp s pl = Some fin' /\ state_eq fin' fin.
  Proof.
    intros H R. pose proof (runp_ext pl s t H) as E. rewrite R in E.
    destruct (runp s pl) as [fin'|]; simpl in E; [|contradiction]. eauto.
  Qed.

  Lemma runp_app (l1 l2 : list inst) : forall s, runp s (l1 ++ l2) = match runp s l1 with Some t => runp t l2 | None => None end.
  Proof.
    induction l1 as [|[aid args] l1 IH]; intros s; [reflexivity|]. unfold runp in *. simpl.
    destruct (lookup_action P aid) as [a|]; [|reflexivity].
    destruct (spec_step sc P s a args) as [s1|]; [apply IH | reflexivity].
  Qed.

  Lemma runp_cons (x : inst) (pl : list inst) s fin : runp s (x :: pl) = Some fin ->
    exists a s1, lookup_action P (fst x) = Some a /\ spec_step sc P s a (snd x) = Some s1 /\ runp s1 pl = Some fin.
  Proof.
    destruct x as [aid args]. unfold runp. simpl. destruct (lookup_action P aid) as [a|]; [|discriminate].
    destruct (spec_step sc P s a args) as [s1|] eqn:E; [|discriminate]. intros H. exists a, s1. auto.
  Qed.

  Lemma runp_cons_intro (x : inst) (pl : list inst) s a s1 : lookup_action P (fst x) = Some a -> spec_step sc P s a (snd x) = Some s1 ->
    runp s (x :: pl) = runp s1 pl.
  Proof. destruct x as [aid args]. unfold runp. simpl. intros -> ->. reflexivity. Qed.

  Lemma spec_step_inv_ok s a args s1 : spec_step sc P s a args = Some s1 -> invariants_ok sc P s1 = true.
  Proof.
    rewrite spec_step_core. destruct (step_core sc P s a args) as [acts|]; [|discriminate]. cbv zeta.
    destruct (invariants_ok sc P (spec_succ P s acts)) eqn:E; [|discriminate]. intros H; inversion H; subst. exact E.
  Qed.

  Lemma state_eq_trans (a b c : state) : state_eq a b -> state_eq b c -> state_eq a c.
  Proof. intros H1 H2 f vs. rewrite H1. apply H2. Qed.

  Lemma conflict_false_disjoint x y a b : conflict sc P x y = false ->
    lookup_action P (fst x) = Some a -> lookup_action P (fst y) = Some b ->
    disjoint (act_writes sc P a (snd x)) (act_reads sc P b (snd y)) /\
    disjoint (act_writes sc P b (snd y)) (act_reads sc P a (snd x)).
  Proof.
    intros H La Lb. unfold conflict, inst_writes, inst_reads in H. rewrite La, Lb in H.
    apply orb_false_iff in H. destruct H as [H1 H2].
    apply intersects_false in H1. apply intersects_false in H2.
    split; intros k Hw Hr; [apply (H1 k Hw) | apply (H2 k Hw)]; apply in_or_app; left; exact Hr.
  Qed.

  (* two adjacent non-conflicting instances can be swapped *)
  Lemma swap_adjacent x y s fin :
    inst_nf P x = true -> inst_nf P y = true -> conflict sc P x y = false ->
    inv_local sc P = true -> invariants_ok sc P s = true ->
    runp s [x; y] = Some fin -> exists fin', runp s [y; x] = Some fin' /\ state_eq fin' fin.
  Proof.
    intros Nx Ny HC HL HI R.
    apply runp_cons in R. destruct R as (a & s1 & La & Sa & R).
    apply runp_cons in R. destruct R as (b & s2 & Lb & Sb & R). unfold runp in R. simpl in R. inversion R; subst s2; clear R.
    unfold inst_nf in Nx, Ny. rewrite La in Nx. rewrite Lb in Ny.
    destruct (conflict_false_disjoint x y a b HC La Lb) as [D1 D2].
    destruct (commute_steps sc P s s1 fin a (snd x) b (snd y) Nx Ny D1 D2 HL HI Sa Sb) as (s1' & s2' & S1 & S2 & E).
    exists s2'. split; [|exact E].
    destruct x as [ax vx], y as [ay vy]. unfold runp. simpl in *. rewrite Lb, S1, La, S2. reflexivity.
  Qed.

  (* an instance that conflicts with none of its predecessors can be moved to the front *)
  Lemma move_front y l2 : forall l1 s fin,
    (forall x, In x l1 -> conflict sc P x y = false) ->
    (forall x, In x (l1 ++ y :: l2) -> inst_nf P x = true) ->
    inv_local sc P = true -> invariants_ok sc P s = true ->
    runp s (l1 ++ y :: l2) = Some fin -> exists fin', runp s (y :: l1 ++ l2) = Some fin' /\ state_eq fin' fin.
  Proof.
    induction l1 as [|x l1 IH]; intros s fin HC HN HL HI R.
    - exists fin. split; [exact R | intros f vs; reflexivity].
    - simpl in R. pose proof R as R0. apply runp_cons in R. destruct R as (a & sx & La & Sa & R).
      assert (Ix : invariants_ok sc P sx = true) by (eapply spec_step_inv_ok; eauto).
      destruct (IH sx fin) as (fin1 & R1 & E1); auto.
      { intros z Hz. apply HC. right. exact Hz. }
      { intros z Hz. apply HN. right. exact Hz. }
      (* now x ; y ; (l1 ++ l2) from s ends in fin1: swap x and y *)
      pose proof R1 as R1'. apply runp_cons in R1'. destruct R1' as (b & sxy & Lb & Sb & R2).
      assert (Rxy : runp s [x; y] = Some sxy).
      { rewrite (runp_cons_intro x [y] s a sx La Sa), (runp_cons_intro y [] sx b sxy Lb Sb). reflexivity. }
      destruct (swap_adjacent x y s sxy) as (syx & Ryx & Eyx); auto.
      { apply HN. left. reflexivity. }
      { apply HN. right. apply in_or_app. right. left. reflexivity. }
      { apply HC. left. reflexivity. }
      destruct (runp_ext_some (l1 ++ l2) syx sxy fin1 Eyx R2) as (fin' & Rf & Ef).
      exists fin'. split; [|eapply state_eq_trans; eauto].
      change (y :: (x :: l1) ++ l2) with ([y; x] ++ (l1 ++ l2)). rewrite runp_app, Ryx. exact Rf.
  Qed.

  (* any permutation that keeps the relative order of conflicting instances is executable and ends in the same state *)
  Lemma perm_run : forall pl' pl s fin,
    Permutation pl pl' -> NoDup pl -> (forall x, In x pl -> inst_nf P x = true) ->
    (forall x y, before pl x y -> conflict sc P x y = true -> before pl' x y) ->
    inv_local sc P = true -> invariants_ok sc P s = true ->
    runp s pl = Some fin -> exists fin', runp s pl' = Some fin' /\ state_eq fin' fin.
  Proof.
    induction pl' as [|y r IH]; intros pl s fin HP ND HN HO HL HI R.
    - apply Permutation_sym, Permutation_nil in HP. subst. exists fin. split; [exact R | intros f vs; reflexivity].
    - assert (Hy : In y pl) by (apply (Permutation_in y (Permutation_sym HP)); left; reflexivity).
      apply in_split in Hy. destruct Hy as (l1 & l2 & ->).
      assert (ND' : NoDup (y :: r)) by (eapply Permutation_NoDup; eauto).
      assert (HC : forall x, In x l1 -> conflict sc P x y = false).
      { intros x Hx. destruct (conflict sc P x y) eqn:E; [|reflexivity]. exfalso.
        apply (before_head_absurd y r x ND'). apply HO; [apply before_split, Hx | exact E]. }
      destruct (move_front y l2 l1 s fin HC HN HL HI R) as (fin1 & R1 & E1).
      pose proof R1 as R1'. apply runp_cons in R1'. destruct R1' as (b & sy & Lb & Sb & R2).
      assert (Iy : invariants_ok sc P sy = true) by (eapply spec_step_inv_ok; eauto).
      destruct (IH (l1 ++ l2) sy fin1) as (fin' & Rf & Ef); auto.
      + apply Permutation_cons_inv with (a := y). eapply Permutation_trans; [|exact HP].
        apply Permutation_middle.
      + eapply NoDup_remove_1; eauto.
      + intros x Hx. apply HN. apply in_or_app. apply in_app_or in Hx. destruct Hx; [left; assumption | right; right; assumption].
      + intros x z Hb Hc.
        assert (Hxy : x <> y).
        { intros ->. apply (NoDup_remove_2 _ _ _ ND). exact (proj1 (before_in _ _ _ Hb)). }
        apply before_tail with (w := y); [|exact Hxy]. apply HO; [apply before_insert, Hb | exact Hc].
      + exists fin'. split; [|eapply state_eq_trans; eauto].
        rewrite (runp_cons_intro y r s b sy Lb Sb). exact Rf.
  Qed.
End Runs.

(* ------------------------------------------------------------------ 5. the graph built by the loop *)
Section Graph.
  Variable sc : bool.
  Variable P : problem.

  Lemma lm_get_new f (x : inst) l lm :
    lm_get f (map (fun g => (g, x)) l ++ lm) = if gmem f l then Some x else lm_get f lm.
  Proof.
    induction l as [|g l IH]; [reflexivity|]. unfold lm_get in *. simpl.
    destruct (gfl_eqb f g); [reflexivity | exact IH].
  Qed.

  Lemma gmem_rev f l : gmem f (rev l) = gmem f l.
  Proof.
    destruct (gmem f l) eqn:E.
    - apply gmem_In. apply -> in_rev. apply gmem_In, E.
    - destruct (gmem f (rev l)) eqn:E'; [|reflexivity]. apply gmem_In in E'. apply in_rev in E'.
      apply gmem_In in E'. congruence.
  Qed.

  Lemma gdedup_In k l : In k (gdedup l) <-> In k l.
  Proof.
    induction l as [|g l IH]; simpl; [tauto|]. destruct (gmem g l) eqn:E.
    - rewrite IH. split; [auto|]. intros [<-|H]; [apply gmem_In, E | exact H].
    - simpl. rewrite IH. tauto.
  Qed.

  Lemma inst_neq_eqb (x y : inst) : x <> y -> inst_eqb x y = false.
  Proof. intros H. destruct (inst_eqb x y) eqn:E; [|reflexivity]. apply gfl_eqb_eq in E. contradiction. Qed.

  Lemma go_sub_reach lm ar z rest x y :
    reach (deorder_go sc P (map (fun f => (f, z)) (rev (inst_writes sc P z)) ++ lm)
                           (ar ++ map (fun f => (f, z)) (gdedup (inst_reads sc P z))) rest) x y ->
    reach (deorder_go sc P lm ar (z :: rest)) x y.
  Proof.
    apply reach_sub. intros a b H. apply t_step. unfold edge. cbn [deorder_go].
    apply in_or_app. right. apply in_or_app. right. exact H.
  Qed.

  Lemma go_edge_reader : forall pl lm ar (x y : inst) f,
    In (f, x) ar -> In y pl -> In f (inst_writes sc P y) -> x <> y -> In (x, y) (deorder_go sc P lm ar pl).
  Proof.
    induction pl as [|z rest IH]; intros lm ar x y f Har Hy Hw Hn; [destruct Hy|].
    cbn [deorder_go]. destruct Hy as [->|Hy].
    - apply in_or_app. right. apply in_or_app. left.
      apply in_flat_map. exists f. split; [exact Hw|].
      apply in_flat_map. exists (f, x). split; [apply in_or_app; left; exact Har|].
      simpl. rewrite gfl_eqb_refl, (inst_neq_eqb x y Hn). left. reflexivity.
    - apply in_or_app. right. apply in_or_app. right.
      apply (IH _ _ x y f); auto. apply in_or_app. left. exact Har.
  Qed.

  (* an earlier reader (or writer, since writes are reads) of a fluent gets a direct edge to a later writer *)
  Lemma go_reader_writer : forall pl lm ar (x y : inst) f, before pl x y -> NoDup pl ->
    In f (inst_reads sc P x) -> In f (inst_writes sc P y) -> In (x, y) (deorder_go sc P lm ar pl).
  Proof.
    induction pl as [|z rest IH]; intros lm ar x y f Hb ND Hr Hw; [destruct (before_nil _ _ Hb)|].
    inversion ND as [|? ? Hn ND']; subst. cbn [deorder_go]. apply in_or_app. right. apply in_or_app. right.
    apply before_inv in Hb. destruct Hb as [[-> Hy]|Hb].
    - apply (go_edge_reader rest _ _ x y f); auto.
      + apply in_or_app. right. apply in_map_iff. exists f. split; [reflexivity | apply gdedup_In, Hr].
      + intros ->. contradiction.
    - apply (IH _ _ x y f); auto.
  Qed.

  Lemma go_last_modifier : forall pl lm ar (m y : inst) f,
    lm_get f lm = Some m -> In (f, m) ar -> ~ In m pl -> NoDup pl -> In y pl -> In f (inst_reads sc P y) ->
    reach (deorder_go sc P lm ar pl) m y.
  Proof.
    induction pl as [|z rest IH]; intros lm ar m y f Hl Har Hm ND Hy Hr; [destruct Hy|].
    inversion ND as [|? ? Hn ND']; subst.
    destruct Hy as [->|Hy].
    - apply t_step. unfold edge. cbn [deorder_go]. apply in_or_app. left.
      apply in_flat_map. exists f. split; [apply gdedup_In, Hr|]. rewrite Hl. left. reflexivity.
    - assert (Hmz : m <> z) by (intros ->; apply Hm; left; reflexivity).
      assert (Hmr : ~ In m rest) by (intros H; apply Hm; right; exact H).
      destruct (gmem f (inst_writes sc P z)) eqn:EW.
      + apply t_trans with (y := z).
        * apply t_step. unfold edge. apply gmem_In in EW.
          apply (go_edge_reader (z :: rest) lm ar m z f Har (or_introl eq_refl) EW Hmz).
        * apply go_sub_reach. apply (IH _ _ z y f); auto.
          -- rewrite lm_get_new, gmem_rev, EW. reflexivity.
          -- apply in_or_app. right. apply in_map_iff. exists f. split; [reflexivity|].
             apply gdedup_In, inst_writes_incl. apply gmem_In, EW.
      + apply go_sub_reach. apply (IH _ _ m y f); auto.
        * rewrite lm_get_new, gmem_rev, EW. exact Hl.
        * apply in_or_app. left. exact Har.
  Qed.

  (* an earlier writer reaches every later reader (through the chain of intermediate writers) *)
  Lemma go_writer_reader : forall pl lm ar (x y : inst) f, before pl x y -> NoDup pl ->
    In f (inst_writes sc P x) -> In f (inst_reads sc P y) -> reach (deorder_go sc P lm ar pl) x y.
  Proof.
    induction pl as [|z rest IH]; intros lm ar x y f Hb ND Hw Hr; [destruct (before_nil _ _ Hb)|].
    inversion ND as [|? ? Hn ND']; subst. apply go_sub_reach.
    apply before_inv in Hb. destruct Hb as [[-> Hy]|Hb].
    - apply (go_last_modifier rest _ _ x y f); auto.
      + rewrite lm_get_new, gmem_rev. replace (gmem f (inst_writes sc P x)) with true; [reflexivity|].
        symmetry. apply gmem_In, Hw.
      + apply in_or_app. right. apply in_map_iff. exists f. split; [reflexivity | apply gdedup_In, inst_writes_incl, Hw].
    - apply (IH _ _ x y f); auto.
  Qed.

  Theorem go_keeps_conflicting_order pl (x y : inst) : NoDup pl -> before pl x y -> conflict sc P x y = true ->
    reach (deorder_go sc P [] [] pl) x y.
  Proof.
    intros ND Hb HC. unfold conflict in HC. apply orb_true_iff in HC. destruct HC as [HC|HC];
      apply intersects_true in HC; destruct HC as [k [Hw Hrw]].
    - apply (go_writer_reader pl [] [] x y k Hb ND Hw).
      apply in_app_or in Hrw. destruct Hrw as [H|H]; [exact H | apply inst_writes_incl, H].
    - apply t_step. apply (go_reader_writer pl [] [] x y k Hb ND); [|exact Hw].
      apply in_app_or in Hrw. destruct Hrw as [H|H]; [exact H | apply inst_writes_incl, H].
  Qed.

  (* every edge goes forward in the original plan (the graph is a DAG compatible with the sequential plan) *)
  Lemma lm_get_in f lm (m : inst) : lm_get f lm = Some m -> In (f, m) lm.
  Proof.
    unfold lm_get. destruct (find (fun p => gfl_eqb f (fst p)) lm) as [[g m']|] eqn:E; [|discriminate].
    intros H; inversion H; subst. apply find_some in E. destruct E as [Hi E]. simpl in E. apply gfl_eqb_eq in E. subst. exact Hi.
  Qed.

  Lemma go_edges_forward : forall pl lm ar (x y : inst), In (x, y) (deorder_go sc P lm ar pl) ->
    In y pl /\ (before pl x y \/ (exists f, In (f, x) lm) \/ (exists f, In (f, x) ar)).
  Proof.
    induction pl as [|z rest IH]; intros lm ar x y H; [destruct H|].
    cbn [deorder_go] in H. apply in_app_or in H. destruct H as [H|H]; [|apply in_app_or in H; destruct H as [H|H]].
    - apply in_flat_map in H. destruct H as [f [_ H]]. destruct (lm_get f lm) as [m|] eqn:E; [|destruct H].
      destruct H as [H|[]]. inversion H; subst. split; [left; reflexivity|]. right. left. exists f. apply lm_get_in, E.
    - apply in_flat_map in H. destruct H as [f [_ H]]. apply in_flat_map in H. destruct H as [[g d] [Hp H]]. simpl in H.
      destruct (gfl_eqb g f && negb (inst_eqb d z)) eqn:E; [|destruct H]. destruct H as [H|[]]. inversion H; subst.
      split; [left; reflexivity|]. apply in_app_or in Hp. destruct Hp as [Hp|Hp]; [right; right; eauto|].
      apply in_map_iff in Hp. destruct Hp as [f' [E' _]]. inversion E'; subst.
      apply andb_true_iff in E. destruct E as [_ E]. unfold inst_eqb in E. rewrite gfl_eqb_refl in E. discriminate.
    - apply IH in H. destruct H as [Hy H]. split; [right; exact Hy|].
      destruct H as [H|[[f H]|[f H]]].
      + left. apply before_cons, H.
      + apply in_app_or in H. destruct H as [H|H]; [|right; left; eauto].
        apply in_map_iff in H. destruct H as [f' [E' _]]. inversion E'; subst. left. apply before_head, Hy.
      + apply in_app_or in H. destruct H as [H|H]; [right; right; eauto|].
        apply in_map_iff in H. destruct H as [f' [E' _]]. inversion E'; subst. left. apply before_head, Hy.
  Qed.

  Lemma go_edges_before pl (x y : inst) : In (x, y) (deorder_go sc P [] [] pl) -> before pl x y.
  Proof. intros H. apply go_edges_forward in H. destruct H as [_ [H|[[f []]|[f []]]]]. exact H. Qed.
End Graph.

(* ------------------------------------------------------------------ 6. the property theorems *)
Section Main.
  Variable sc : bool.
  Variable P : problem.

  Theorem deorder_keeps_conflicting_order_proof pl G :
    NoDup pl -> deorder sc P pl = Some G ->
    forall x y, before pl x y -> conflict sc P x y = true -> reach G x y.
  Proof.
    intros ND HD x y Hb HC. unfold deorder in HD. destruct (forallb (inst_nf P) pl); [|discriminate].
    inversion HD; subst. apply go_keeps_conflicting_order; assumption.
  Qed.

  (* the sequential plan itself is one of the linearisations *)
  Theorem deorder_original_topological pl G : deorder sc P pl = Some G -> topological G pl pl.
  Proof.
    intros HD. unfold deorder in HD. destruct (forallb (inst_nf P) pl); [|discriminate]. inversion HD; subst.
    split; [apply Permutation_refl | intros x y H; apply (go_edges_before sc P pl x y H)].
  Qed.

  Lemma goals_hold_ext s t : state_eq s t -> goals_hold sc P s = goals_hold sc P t.
  Proof. intros H. unfold goals_hold. apply all_hold_ext, mk_interp_ext, H. Qed.

  Theorem deorder_all_linearizations_gen s0 pl G :
    valid_plan sc P s0 pl = true -> NoDup pl ->
    inv_local sc P = true -> invariants_ok sc P s0 = true ->
    deorder sc P pl = Some G ->
    forall G' pl', (forall x y, In (x, y) G -> reach G' x y) -> topological G' pl pl' ->
      valid_plan sc P s0 pl' = true /\
      exists fin fin', run P (spec_step sc P) s0 pl = Some fin /\ run P (spec_step sc P) s0 pl' = Some fin' /\
                       state_eq fin' fin.
  Proof.
    intros HV ND HL HI HD G' pl' HG [HP HT].
    unfold valid_plan in HV. destruct (run P (spec_step sc P) s0 pl) as [fin|] eqn:R; [|discriminate].
    assert (ND' : NoDup pl') by (eapply Permutation_NoDup; eauto).
    assert (HN : forall x, In x pl -> inst_nf P x = true).
    { unfold deorder in HD. destruct (forallb (inst_nf P) pl) eqn:E; [|discriminate]. apply forallb_forall, E. }
    destruct (perm_run sc P pl' pl s0 fin HP ND HN) as (fin' & R' & E); auto.
    { intros x y Hb HC. apply (topo_respects_reach G' pl' ND' HT).
      apply (reach_sub G G' HG). apply (deorder_keeps_conflicting_order_proof pl G ND HD x y Hb HC). }
    unfold runp in R'. split.
    - unfold valid_plan. rewrite R'. rewrite (goals_hold_ext fin' fin E). exact HV.
    - exists fin, fin'. auto.
  Qed.

  Lemma no_invariants_local : no_invariants P = true -> inv_local sc P = true /\ forall s, invariants_ok sc P s = true.
  Proof.
    unfold no_invariants, inv_local, invariants_ok, inv_exprs. destruct (p_invs P ++ bound_invs P); [|discriminate].
    intros _. split; [reflexivity | intros s; reflexivity].
  Qed.
End Main.

(* the executable order test agrees with [before] on duplicate-free lists *)
Lemma before_b_correct l : NoDup l -> forall x y, before_b l x y = true <-> before l x y.
Proof.
  induction l as [|z r IH]; intros ND x y; simpl.
  - split; [discriminate | intros H; destruct (before_nil _ _ H)].
  - inversion ND as [|? ? Hn ND']; subst. destruct (inst_eqb z x) eqn:E.
    + apply gfl_eqb_eq in E. subst. rewrite existsb_exists. split.
      * intros [w [Hw Ew]]. apply gfl_eqb_eq in Ew. subst. apply before_head, Hw.
      * intros H. apply before_inv in H. destruct H as [[_ Hy]|H].
        -- exists y. split; [exact Hy | apply gfl_eqb_refl].
        -- exfalso. exact (Hn (proj1 (before_in _ _ _ H))).
    + rewrite (IH ND' x y). split; [apply before_cons|].
      intros H. apply before_inv in H. destruct H as [[-> _]|H]; [|exact H].
      unfold inst_eqb in E. rewrite gfl_eqb_refl in E. discriminate.
Qed.
