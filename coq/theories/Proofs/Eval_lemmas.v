(* Interface lemmas for Core/Expr.v and Core/Eval.v: later proofs use these instead of unfolding the nested fixpoints. *)
From Coq Require Import List ZArith NArith QArith Qcanon Bool Lia.
Import ListNotations.
Require Import UPV.Core.Expr UPV.Core.Eval.
Local Open Scope nat_scope.

(* ---------------- standalone list evaluators and the unfolding equations of [eval] ---------------- *)
Fixpoint evals (sc : bool) (I : interp) (l : list expr) : option (list value) :=
  match l with
  | [] => Some []
  | x :: l' => match eval sc x I, evals sc I l' with Some v, Some vs => Some (v :: vs) | _, _ => None end
  end.

Fixpoint ebools (sc : bool) (I : interp) (l : list expr) : option (list bool) :=
  match l with
  | [] => Some []
  | x :: l' => match as_bool (eval sc x I), ebools sc I l' with Some v, Some vs => Some (v :: vs) | _, _ => None end
  end.

Fixpoint enums (sc : bool) (I : interp) (l : list expr) : option (list Qc) :=
  match l with
  | [] => Some []
  | x :: l' => match as_num (eval sc x I), enums sc I l' with Some v, Some vs => Some (v :: vs) | _, _ => None end
  end.

Lemma eval_EFluent sc I f args :
  eval sc (EFluent f args) I = match evals sc I args with Some vs => fl I f vs | None => None end.
Proof.
  cbn [eval]. replace ((fix evl (l : list expr) : option (list value) :=
    match l with [] => Some [] | x :: l' =>
      match eval sc x I, evl l' with Some v, Some vs => Some (v :: vs) | _, _ => None end end) args)
    with (evals sc I args); [reflexivity|].
  induction args as [|x l IH]; [reflexivity|]. cbn [evals]. rewrite IH. reflexivity.
Qed.

Lemma eval_EIFun sc I f args :
  eval sc (EIFun f args) I = match evals sc I args with Some vs => ifun I f vs | None => None end.
Proof.
  cbn [eval]. replace ((fix evl (l : list expr) : option (list value) :=
    match l with [] => Some [] | x :: l' =>
      match eval sc x I, evl l' with Some v, Some vs => Some (v :: vs) | _, _ => None end end) args)
    with (evals sc I args); [reflexivity|].
  induction args as [|x l IH]; [reflexivity|]. cbn [evals]. rewrite IH. reflexivity.
Qed.

Lemma ebools_fix sc I l :
  (fix ebools (l : list expr) : option (list bool) :=
     match l with [] => Some [] | x :: l' =>
       match as_bool (eval sc x I), ebools l' with Some v, Some vs => Some (v :: vs) | _, _ => None end end) l
  = ebools sc I l.
Proof. induction l as [|x l IH]; [reflexivity|]. cbn [ebools]. rewrite IH. reflexivity. Qed.

Lemma enums_fix sc I l :
  (fix enums (l : list expr) : option (list Qc) :=
     match l with [] => Some [] | x :: l' =>
       match as_num (eval sc x I), enums l' with Some v, Some vs => Some (v :: vs) | _, _ => None end end) l
  = enums sc I l.
Proof. induction l as [|x l IH]; [reflexivity|]. cbn [enums]. rewrite IH. reflexivity. Qed.

Lemma eval_EAnd sc I l :
  eval sc (EAnd l) I = match ebools sc I l with Some bs => Some (VBool (forallb (fun b => b) bs)) | None => None end.
Proof. cbn [eval]. rewrite ebools_fix. reflexivity. Qed.

Lemma eval_EOr sc I l :
  eval sc (EOr l) I = match ebools sc I l with Some bs => Some (VBool (existsb (fun b => b) bs)) | None => None end.
Proof. cbn [eval]. rewrite ebools_fix. reflexivity. Qed.

Lemma eval_EPlus sc I l :
  eval sc (EPlus l) I = match enums sc I l with Some qs => Some (VNum (fold_right Qcplus (zq 0) qs)) | None => None end.
Proof. cbn [eval]. rewrite enums_fix. reflexivity. Qed.

Lemma eval_ETimes sc I l :
  eval sc (ETimes l) I = match enums sc I l with Some qs => Some (VNum (fold_right Qcmult (zq 1) qs)) | None => None end.
Proof. cbn [eval]. rewrite enums_fix. reflexivity. Qed.

Lemma eval_ENot sc I a :
  eval sc (ENot a) I = match as_bool (eval sc a I) with Some b => Some (VBool (negb b)) | None => None end.
Proof. reflexivity. Qed.

Lemma eval_EImplies sc I a b :
  eval sc (EImplies a b) I =
  match as_bool (eval sc a I), as_bool (eval sc b I) with Some x, Some y => Some (VBool (implb x y)) | _, _ => None end.
Proof. reflexivity. Qed.

Lemma eval_EIff sc I a b :
  eval sc (EIff a b) I =
  match as_bool (eval sc a I), as_bool (eval sc b I) with Some x, Some y => Some (VBool (Bool.eqb x y)) | _, _ => None end.
Proof. reflexivity. Qed.

Lemma eval_EExists sc I vs a :
  eval sc (EExists vs a) I =
  match q_fold sc true (map (fun J => as_bool (eval sc a J)) (instances I vs)) with
  | Some b => Some (VBool b) | None => None end.
Proof. reflexivity. Qed.

Lemma eval_EForall sc I vs a :
  eval sc (EForall vs a) I =
  match q_fold sc false (map (fun J => as_bool (eval sc a J)) (instances I vs)) with
  | Some b => Some (VBool b) | None => None end.
Proof. reflexivity. Qed.

Lemma eval_EMinus sc I a b :
  eval sc (EMinus a b) I =
  match as_num (eval sc a I), as_num (eval sc b I) with Some x, Some y => Some (VNum (Qcminus x y)) | _, _ => None end.
Proof. reflexivity. Qed.

Lemma eval_EDiv sc I a b :
  eval sc (EDiv a b) I =
  match as_num (eval sc a I), as_num (eval sc b I) with
  | Some x, Some y => if qc_is0 y then None else Some (VNum (Qcdiv x y)) | _, _ => None end.
Proof. reflexivity. Qed.

Lemma eval_ELe sc I a b :
  eval sc (ELe a b) I =
  match as_num (eval sc a I), as_num (eval sc b I) with Some x, Some y => Some (VBool (qc_leb x y)) | _, _ => None end.
Proof. reflexivity. Qed.

Lemma eval_ELt sc I a b :
  eval sc (ELt a b) I =
  match as_num (eval sc a I), as_num (eval sc b I) with Some x, Some y => Some (VBool (qc_ltb x y)) | _, _ => None end.
Proof. reflexivity. Qed.

Lemma eval_EEquals sc I a b :
  eval sc (EEquals a b) I =
  match eval sc a I, eval sc b I with
  | Some (VNum x), Some (VNum y) => Some (VBool (qc_eqb x y))
  | Some (VObj x), Some (VObj y) => Some (VBool (x =? y)%N)
  | _, _ => None
  end.
Proof. reflexivity. Qed.

(* ---------------- Qc comparison reflection ---------------- *)
Lemma qc_eqb_eq (a b : Qc) : qc_eqb a b = true <-> a = b.
Proof.
  unfold qc_eqb. rewrite Qeq_bool_iff. split; [apply Qc_is_canon | intros ->; reflexivity].
Qed.

Lemma qc_eqb_refl (a : Qc) : qc_eqb a a = true.
Proof. apply qc_eqb_eq; reflexivity. Qed.

Lemma qc_leb_le (a b : Qc) : qc_leb a b = true <-> (a <= b)%Qc.
Proof. unfold qc_leb, Qcle. apply Qle_bool_iff. Qed.

Lemma qc_ltb_lt (a b : Qc) : qc_ltb a b = true <-> (a < b)%Qc.
Proof.
  unfold qc_ltb, Qclt. rewrite andb_true_iff, negb_true_iff, Qle_bool_iff.
  split.
  - intros [H1 H2]. apply Qle_lteq in H1. destruct H1 as [H1|H1]; [exact H1|].
    apply Qeq_bool_iff in H1. congruence.
  - intros H. split; [apply Qlt_le_weak; exact H|].
    destruct (Qeq_bool (this a) (this b)) eqn:E; [|reflexivity].
    apply Qeq_bool_iff in E. rewrite E in H. exfalso. exact (Qlt_irrefl _ H).
Qed.

Lemma qc_is0_spec (a : Qc) : qc_is0 a = true <-> a = zq 0.
Proof.
  unfold qc_is0. rewrite Qeq_bool_iff. split.
  - intros H. apply Qc_is_canon. simpl. rewrite H. reflexivity.
  - intros ->. reflexivity.
Qed.

(* ---------------- structural equality reflects Leibniz equality ---------------- *)
Lemma vars_eqb_eq a : forall b, vars_eqb a b = true <-> a = b.
Proof.
  induction a as [|[x t] a IH]; intros [|[y u] b]; simpl; try (split; [discriminate|intros H; inversion H]); [tauto|].
  rewrite !andb_true_iff, !N.eqb_eq. fold (vars_eqb a b). rewrite IH.
  split; [intros [[-> ->] ->]; reflexivity | intros H; inversion H; auto].
Qed.

Lemma list_expr_eqb_eq l :
  Forall (fun x => forall y, expr_eqb x y = true <-> x = y) l ->
  forall l', list_expr_eqb l l' = true <-> l = l'.
Proof.
  induction 1 as [|x l Hx _ IH]; intros [|y l']; simpl; try (split; [discriminate|intros H; inversion H]); [tauto|].
  rewrite andb_true_iff. fold (list_expr_eqb l l'). rewrite Hx, IH.
  split; [intros [-> ->]; reflexivity | intros H; inversion H; auto].
Qed.

Lemma expr_eqb_eq x : forall y, expr_eqb x y = true <-> x = y.
Proof.
  induction x using expr_ind'; intros y; destruct y; simpl;
    try (split; [discriminate | intros HH; discriminate HH]).
  - rewrite Bool.eqb_true_iff. split; [intros ->; reflexivity | intros HH; inversion HH; auto].
  - rewrite Z.eqb_eq. split; [intros ->; reflexivity | intros HH; inversion HH; auto].
  - rewrite qc_eqb_eq. split; [intros ->; reflexivity | intros HH; inversion HH; auto].
  - rewrite N.eqb_eq. split; [intros ->; reflexivity | intros HH; inversion HH; auto].
  - rewrite N.eqb_eq. split; [intros ->; reflexivity | intros HH; inversion HH; auto].
  - rewrite andb_true_iff, !N.eqb_eq. split; [intros [-> ->]; reflexivity | intros HH; inversion HH; auto].
  - rewrite andb_true_iff, N.eqb_eq. fold (list_expr_eqb args args0). rewrite (list_expr_eqb_eq _ H).
    split; [intros [-> ->]; reflexivity | intros HH; inversion HH; auto].
  - rewrite andb_true_iff, N.eqb_eq. fold (list_expr_eqb args args0). rewrite (list_expr_eqb_eq _ H).
    split; [intros [-> ->]; reflexivity | intros HH; inversion HH; auto].
  - fold (list_expr_eqb l l0). rewrite (list_expr_eqb_eq _ H).
    split; [intros ->; reflexivity | intros HH; inversion HH; auto].
  - fold (list_expr_eqb l l0). rewrite (list_expr_eqb_eq _ H).
    split; [intros ->; reflexivity | intros HH; inversion HH; auto].
  - rewrite IHx. split; [intros ->; reflexivity | intros HH; inversion HH; auto].
  - rewrite andb_true_iff, IHx1, IHx2. split; [intros [-> ->]; reflexivity | intros HH; inversion HH; auto].
  - rewrite andb_true_iff, IHx1, IHx2. split; [intros [-> ->]; reflexivity | intros HH; inversion HH; auto].
  - rewrite andb_true_iff, vars_eqb_eq, IHx. split; [intros [-> ->]; reflexivity | intros HH; inversion HH; auto].
  - rewrite andb_true_iff, vars_eqb_eq, IHx. split; [intros [-> ->]; reflexivity | intros HH; inversion HH; auto].
  - fold (list_expr_eqb l l0). rewrite (list_expr_eqb_eq _ H).
    split; [intros ->; reflexivity | intros HH; inversion HH; auto].
  - rewrite andb_true_iff, IHx1, IHx2. split; [intros [-> ->]; reflexivity | intros HH; inversion HH; auto].
  - fold (list_expr_eqb l l0). rewrite (list_expr_eqb_eq _ H).
    split; [intros ->; reflexivity | intros HH; inversion HH; auto].
  - rewrite andb_true_iff, IHx1, IHx2. split; [intros [-> ->]; reflexivity | intros HH; inversion HH; auto].
  - rewrite andb_true_iff, IHx1, IHx2. split; [intros [-> ->]; reflexivity | intros HH; inversion HH; auto].
  - rewrite andb_true_iff, IHx1, IHx2. split; [intros [-> ->]; reflexivity | intros HH; inversion HH; auto].
  - rewrite andb_true_iff, IHx1, IHx2. split; [intros [-> ->]; reflexivity | intros HH; inversion HH; auto].
  - rewrite IHx. split; [intros ->; reflexivity | intros HH; inversion HH; auto].
  - rewrite IHx. split; [intros ->; reflexivity | intros HH; inversion HH; auto].
  - rewrite andb_true_iff, IHx1, IHx2. split; [intros [-> ->]; reflexivity | intros HH; inversion HH; auto].
  - rewrite andb_true_iff, IHx1, IHx2. split; [intros [-> ->]; reflexivity | intros HH; inversion HH; auto].
  - rewrite IHx. split; [intros ->; reflexivity | intros HH; inversion HH; auto].
Qed.

Lemma expr_eqb_refl x : expr_eqb x x = true.
Proof. apply expr_eqb_eq; reflexivity. Qed.

Lemma expr_eq_dec (x y : expr) : {x = y} + {x <> y}.
Proof.
  destruct (expr_eqb x y) eqn:E; [left; apply expr_eqb_eq; exact E | right; intros H; apply expr_eqb_eq in H; congruence].
Qed.

Lemma value_eqb_eq a b : value_eqb a b = true <-> a = b.
Proof.
  destruct a, b; simpl; try (split; [discriminate | intros H; discriminate H]).
  - rewrite Bool.eqb_true_iff. split; [intros ->; reflexivity | intros H; inversion H; auto].
  - rewrite qc_eqb_eq. split; [intros ->; reflexivity | intros H; inversion H; auto].
  - rewrite N.eqb_eq. split; [intros ->; reflexivity | intros H; inversion H; auto].
Qed.
