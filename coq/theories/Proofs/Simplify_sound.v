(* Soundness of the simplifier: defined values are preserved (strict quantifier semantics). *)
From Coq Require Import List ZArith NArith QArith Qcanon Bool Lia.
Import ListNotations.
Require Import UPV.Core.Expr UPV.Core.Eval UPV.Proofs.Eval_lemmas UPV.Walkers.Simplify UPV.Proofs.Simplify_base
  UPV.Proofs.Simplify_fv UPV.Proofs.Simplify_sem UPV.Proofs.Simplify_wf UPV.Proofs.Simplify_wfp.
Local Open Scope nat_scope.

(* ---------------------------------------------------------------- constants *)
Definition cvalue (e : expr) : option value :=
  match e with
  | EBool b => Some (VBool b) | EInt z => Some (VNum (zq z)) | EReal q => Some (VNum q) | EObj o => Some (VObj o)
  | _ => None
  end.
Fixpoint cvalues (l : list expr) : option (list value) :=
  match l with
  | [] => Some []
  | x :: r => match cvalue x, cvalues r with Some v, Some vs => Some (v :: vs) | _, _ => None end
  end.

Lemma eval_const sc I c : is_const c = true -> eval sc c I = cvalue c.
Proof. destruct c; simpl; congruence. Qed.
Lemma evals_consts sc I l : forallb is_const l = true -> evals sc I l = cvalues l.
Proof.
  induction l as [|x r IH]; [reflexivity|]. cbn [forallb]. rewrite andb_true_iff. intros [A B].
  cbn [evals cvalues]. rewrite (eval_const sc I x A), (IH B). reflexivity.
Qed.

(* ---------------------------------------------------------------- the interpretations the theorem ranges over *)
Record env_ok (G : cfg) (tau : N -> N) (QT : N -> bool) (I : interp) : Prop := {
  (* static fluents have their initial value; interpreted functions follow their table *)
  ok_stat : forall f args c vs, stat G f args = Some c -> cvalues args = Some vs -> fl I f vs = cvalue c;
  ok_itab : forall f args c vs, itab G f args = Some c -> cvalues args = Some vs -> ifun I f vs = cvalue c;
  (* values respect the declared user types *)
  ok_var : forall x v, var I x = Some v -> exists o, v = VObj o /\ In o (objs I (tau x));
  ok_par : forall p ty v, par_ty G p = Some ty -> par I p = Some v -> exists o, v = VObj o /\ In o (objs I ty);
  ok_fl : forall f ty a v, fl_ty G f = Some ty -> fl I f a = Some v -> exists o, v = VObj o /\ In o (objs I ty);
  ok_if : forall f ty a v, if_ty G f = Some ty -> ifun I f a = Some v -> exists o, v = VObj o /\ In o (objs I ty);
  ok_obj : forall o ty, obj_ty G o = Some ty -> In o (objs I ty);
  (* the objects of a type include those of its subtypes; unrelated types share no object *)
  ok_sub : forall a b o, compat G a b = true -> In o (objs I b) -> In o (objs I a);
  ok_disj : forall a b o, In o (objs I a) -> In o (objs I b) -> compat G a b = true \/ compat G b a = true;
  (* quantifiable types are inhabited *)
  ok_inh : forall ty, QT ty = true -> objs I ty <> []
}.

Lemma env_ok_inst G tau QT I vs J :
  env_ok G tau QT I -> (forall p, In p vs -> snd p = tau (fst p)) -> NoDup (map fst vs) ->
  In J (instances I vs) -> env_ok G tau QT J.
Proof.
  intros E HT ND HJ. destruct (inst_sound vs ND I J HJ) as [g [Hg [[B1 [B2 [B3 B4]]] HV]]].
  destruct E. constructor; rewrite ?B1, ?B2, ?B3, ?B4; auto.
  intros x v. rewrite HV. destruct (memN x (map fst vs)) eqn:M.
  - intros Hv. inversion Hv; subst. exists (g x). split; [reflexivity|].
    apply memN_In in M. apply in_map_iff in M. destruct M as [p [<- Hp]].
    rewrite <- (HT p Hp). apply Hg. exact Hp.
  - apply ok_var0.
Qed.

(* ---------------------------------------------------------------- numbers *)
Lemma zq_add x y : zq (x + y) = (zq x + zq y)%Qc.
Proof. unfold zq, Qcplus. apply Q2Qc_eq_iff. cbn [Q2Qc this]. rewrite !Qred_correct, inject_Z_plus. reflexivity. Qed.
Lemma zq_mul x y : zq (x * y) = (zq x * zq y)%Qc.
Proof. unfold zq, Qcmult. apply Q2Qc_eq_iff. cbn [Q2Qc this]. rewrite !Qred_correct, inject_Z_mult. reflexivity. Qed.
Lemma zq_opp x : zq (- x) = (- zq x)%Qc.
Proof. unfold zq, Qcopp. apply Q2Qc_eq_iff. cbn [Q2Qc this]. rewrite !Qred_correct, inject_Z_opp. reflexivity. Qed.
Lemma zq_sub x y : zq (x - y) = (zq x - zq y)%Qc.
Proof. unfold Z.sub, Qcminus. rewrite zq_add, zq_opp. reflexivity. Qed.
Lemma zq_inj x y : zq x = zq y -> x = y.
Proof. unfold zq. intros H. apply Q2Qc_eq_iff in H. unfold Qeq in H. simpl in H. lia. Qed.
Lemma div_exact a b : b <> 0%Z -> (a mod b = 0)%Z -> (Qcdiv (zq a) (zq b) = zq (a / b))%Qc.
Proof.
  intros Hb Hm. assert (E : a = (b * (a / b))%Z) by (rewrite (Z.div_mod a b Hb) at 1; rewrite Hm; ring).
  rewrite E at 1. rewrite zq_mul. assert (Hz : zq b <> 0%Qc). { intros H. apply Hb. apply zq_inj. exact H. }
  field. exact Hz.
Qed.

Lemma nval_add a b : nval (num_add a b) = (nval a + nval b)%Qc.
Proof. destruct a, b; simpl; try reflexivity. apply zq_add. Qed.
Lemma nval_mul a b : nval (num_mul a b) = (nval a * nval b)%Qc.
Proof. destruct a, b; simpl; try reflexivity. apply zq_mul. Qed.
Lemma nval_sub a b : nval (num_sub a b) = (nval a - nval b)%Qc.
Proof. destruct a, b; simpl; try reflexivity. apply zq_sub. Qed.
Lemma nval_neg a : nval (num_neg a) = (- nval a)%Qc.
Proof. destruct a; simpl; try reflexivity. apply zq_opp. Qed.
Lemma num_is0_spec a : num_is0 a = true <-> nval a = zq 0.
Proof.
  destruct a; simpl.
  - rewrite Z.eqb_eq. split; [intros ->; reflexivity|apply zq_inj].
  - apply qc_is0_spec.
Qed.
Lemma num_is0_spec_false a : num_is0 a = false -> qc_is0 (nval a) = false.
Proof.
  intros H. destruct (qc_is0 (nval a)) eqn:E; [|reflexivity]. apply qc_is0_spec in E. apply num_is0_spec in E. congruence.
Qed.
Lemma num_is1_spec a : num_is1 a = true -> nval a = zq 1.
Proof.
  destruct a; simpl.
  - rewrite Z.eqb_eq. intros ->; reflexivity.
  - apply qc_eqb_eq.
Qed.
Lemma qc_is0_false q : qc_is0 q = false <-> q <> zq 0.
Proof. rewrite <- qc_is0_spec. destruct (qc_is0 q); split; congruence. Qed.

Lemma eval_num_expr sc I n : eval sc (num_expr n) I = Some (VNum (nval n)).
Proof. destruct n; reflexivity. Qed.
Lemma eval_num_of sc I e n : num_of e = Some n -> eval sc e I = Some (VNum (nval n)).
Proof. intros H. rewrite (num_of_expr _ _ H). apply eval_num_expr. Qed.

(* ---------------------------------------------------------------- walk_not, walk_iff, walk_implies *)
Lemma as_boolc_some a b : as_boolc a = Some b -> a = EBool b.
Proof. destruct a; simpl; congruence. Qed.

Lemma sound_walk_not I c : R I I (ENot c) (walk_not c).
Proof.
  destruct c; try apply R_refl.
  - intros v H. exact H.
  - apply (mkNot_R I (ENot c)).
Qed.

Lemma eval_walk_not I s b : as_bool (eval false s I) = Some b -> as_bool (eval false (walk_not s) I) = Some (negb b).
Proof.
  intros H. assert (E : eval false (ENot s) I = Some (VBool (negb b))) by (rewrite eval_ENot, H; reflexivity).
  rewrite (sound_walk_not I s _ E). reflexivity.
Qed.

Lemma sound_walk_iff I a b : R I I (EIff a b) (walk_iff a b).
Proof.
  unfold walk_iff. destruct (as_boolc a) as [l|] eqn:A, (as_boolc b) as [r|] eqn:B;
    try (apply as_boolc_some in A; subst a); try (apply as_boolc_some in B; subst b).
  - intros v H. exact H.
  - intros v. rewrite eval_EIff. cbn [eval as_bool]. destruct (as_bool (eval false b I)) as [y|] eqn:E; [|discriminate].
    intros H; inversion H; subst. destruct l.
    + rewrite (as_bool_some _ _ E). destruct y; reflexivity.
    + apply mkNot_R. rewrite eval_ENot, E. destruct y; reflexivity.
  - intros v. rewrite eval_EIff. cbn [eval as_bool]. destruct (as_bool (eval false a I)) as [y|] eqn:E; [|discriminate].
    intros H; inversion H; subst. destruct r.
    + rewrite (as_bool_some _ _ E). destruct y; reflexivity.
    + apply mkNot_R. rewrite eval_ENot, E. destruct y; reflexivity.
  - destruct (expr_eqb a b) eqn:E; [|apply R_refl]. apply expr_eqb_eq in E. subst b.
    intros v. rewrite eval_EIff. destruct (as_bool (eval false a I)) as [y|]; [|discriminate].
    intros H; inversion H; subst. rewrite Bool.eqb_reflx. reflexivity.
Qed.

Lemma sound_walk_implies I a b : R I I (EImplies a b) (walk_implies a b).
Proof.
  unfold walk_implies. destruct (as_boolc a) as [l|] eqn:A; [apply as_boolc_some in A; subst a|].
  - intros v. rewrite eval_EImplies. cbn [eval as_bool]. destruct (as_bool (eval false b I)) as [y|] eqn:E; [|discriminate].
    intros H; inversion H; subst. destruct l; [|reflexivity]. rewrite (as_bool_some _ _ E). reflexivity.
  - destruct (as_boolc b) as [r|] eqn:B; [apply as_boolc_some in B; subst b|].
    + intros v. rewrite eval_EImplies. cbn [eval as_bool]. destruct (as_bool (eval false a I)) as [y|] eqn:E; [|discriminate].
      intros H; inversion H; subst. destruct r.
      * destruct y; reflexivity.
      * apply mkNot_R. rewrite eval_ENot, E. destruct y; reflexivity.
    + destruct (expr_eqb a b) eqn:E; [|apply R_refl]. apply expr_eqb_eq in E. subst b.
      intros v. rewrite eval_EImplies. destruct (as_bool (eval false a I)) as [y|]; [|discriminate].
      intros H; inversion H; subst. destruct y; reflexivity.
Qed.

(* ---------------------------------------------------------------- walk_and / walk_or *)
Definition jfold (k : bool) (bs : list bool) : bool := if k then forallb (fun b => b) bs else existsb (fun b => b) bs.
Definition comb (k x y : bool) : bool := if k then x && y else x || y.

Lemma jfold_nil k : jfold k [] = k. Proof. destruct k; reflexivity. Qed.
Lemma jfold_cons k b bs : jfold k (b :: bs) = comb k b (jfold k bs). Proof. destruct k; reflexivity. Qed.
Lemma jfold_app k a b : jfold k (a ++ b) = comb k (jfold k a) (jfold k b).
Proof.
  induction a as [|x a IH]; [rewrite jfold_nil; destruct k; reflexivity|].
  cbn [app]. rewrite !jfold_cons, IH. destruct k, x, (jfold _ a), (jfold _ b); reflexivity.
Qed.

Lemma eval_J I (k : bool) l :
  eval false (if k then EAnd l else EOr l) I =
  match ebools false I l with Some bs => Some (VBool (jfold k bs)) | None => None end.
Proof. destruct k; [apply eval_EAnd|apply eval_EOr]. Qed.

Lemma ebools_app I l1 l2 :
  ebools false I (l1 ++ l2) =
  match ebools false I l1, ebools false I l2 with Some a, Some b => Some (a ++ b) | _, _ => None end.
Proof.
  induction l1 as [|x l1 IH]; cbn [app ebools]; [destruct (ebools false I l2); reflexivity|].
  rewrite IH. destruct (as_bool (eval false x I)), (ebools false I l1), (ebools false I l2); reflexivity.
Qed.

(* a value already among the keys is absorbed *)
Lemma jfold_absorb I k seen sb y c :
  ebools false I seen = Some sb -> In y seen -> as_bool (eval false y I) = Some c -> comb k (jfold k sb) c = jfold k sb.
Proof.
  revert sb. induction seen as [|x seen IH]; intros sb E Hin Hy; [destruct Hin|].
  cbn [ebools] in E. destruct (as_bool (eval false x I)) as [bx|] eqn:Ex; [|discriminate].
  destruct (ebools false I seen) as [sb'|] eqn:Es; [|discriminate]. inversion E; subst.
  rewrite jfold_cons. destruct Hin as [->|Hin].
  - rewrite Hy in Ex. inversion Ex; subst. destruct k, bx, (jfold _ sb'); reflexivity.
  - specialize (IH sb' eq_refl Hin Hy). destruct k, bx, (jfold _ sb'), c; simpl in *; congruence.
Qed.

Lemma junct_args_eval I k a ss b :
  junct_args k a = Some ss -> as_bool (eval false a I) = Some b ->
  exists sb, ebools false I ss = Some sb /\ b = jfold k sb.
Proof.
  destruct a; cbn [junct_args]; try discriminate; destruct k; try discriminate; intros E; inversion E; subst.
  - rewrite eval_EAnd. destruct (ebools false I ss) as [sb|]; [|discriminate]. intros H; inversion H. eauto.
  - rewrite eval_EOr. destruct (ebools false I ss) as [sb|]; [|discriminate]. intros H; inversion H. eauto.
Qed.

Lemma add_key_sem I k s seen sb b :
  ebools false I seen = Some sb -> as_bool (eval false s I) = Some b ->
  exists sb', ebools false I (add_key s seen) = Some sb' /\ jfold k sb' = comb k (jfold k sb) b.
Proof.
  intros E Hs. unfold add_key. destruct (mem_expr s seen) eqn:M.
  - apply mem_expr_In in M. exists sb. split; [exact E|]. symmetry. eapply jfold_absorb; eauto.
  - exists (sb ++ [b]). split.
    + rewrite ebools_app, E. cbn [ebools]. rewrite Hs. reflexivity.
    + rewrite jfold_app, jfold_cons, jfold_nil. destruct k, (jfold _ sb), b; reflexivity.
Qed.

Lemma mem_not_sem I k s seen sb b :
  ebools false I seen = Some sb -> as_bool (eval false s I) = Some b -> mem_expr (walk_not s) seen = true ->
  comb k (jfold k sb) b = negb k.
Proof.
  intros E Hs M. apply mem_expr_In in M.
  assert (A := jfold_absorb I k seen sb _ _ E M (eval_walk_not I s b Hs)).
  destruct k, (jfold _ sb), b; simpl in *; congruence.
Qed.

Lemma j_inner_sem I k ss : forall seen sb ssb,
  ebools false I seen = Some sb -> ebools false I ss = Some ssb ->
  match j_inner ss seen with
  | None => comb k (jfold k sb) (jfold k ssb) = negb k
  | Some out => exists ob, ebools false I out = Some ob /\ jfold k ob = comb k (jfold k sb) (jfold k ssb)
  end.
Proof.
  induction ss as [|s ss IH]; intros seen sb ssb E Es; cbn [j_inner].
  - inversion Es; subst. exists sb. split; [exact E|]. rewrite jfold_nil. destruct k, (jfold _ sb); reflexivity.
  - cbn [ebools] in Es. destruct (as_bool (eval false s I)) as [b|] eqn:Hs; [|discriminate].
    destruct (ebools false I ss) as [ssb'|] eqn:Es'; [|discriminate]. inversion Es; subst. rewrite jfold_cons.
    destruct (mem_expr (walk_not s) seen) eqn:M.
    + assert (A := mem_not_sem I k s seen sb b E Hs M). destruct k, (jfold _ sb), b, (jfold _ ssb'); simpl in *; congruence.
    + destruct (add_key_sem I k s seen sb b E Hs) as [sb' [E' F']].
      specialize (IH (add_key s seen) sb' ssb' E' eq_refl).
      destruct (j_inner ss (add_key s seen)) as [out|].
      * destruct IH as [ob [Eo Fo]]. exists ob. split; [exact Eo|]. rewrite Fo, F'.
        destruct k, (jfold _ sb), b, (jfold _ ssb'); reflexivity.
      * rewrite F' in IH. destruct k, (jfold _ sb), b, (jfold _ ssb'); simpl in *; congruence.
Qed.

Lemma is_unit_spec k a : is_unit k a = true -> a = EBool k.
Proof. destruct a; simpl; try discriminate. intros H. apply Bool.eqb_prop in H. subst. reflexivity. Qed.
Lemma is_zero_spec k a : is_zero k a = true -> a = EBool (negb k).
Proof. destruct a; simpl; try discriminate. intros H. apply Bool.eqb_prop in H. subst. reflexivity. Qed.

Lemma j_outer_sem I k args : forall seen sb ab,
  ebools false I seen = Some sb -> ebools false I args = Some ab ->
  match j_outer k args seen with
  | None => comb k (jfold k sb) (jfold k ab) = negb k
  | Some out => exists ob, ebools false I out = Some ob /\ jfold k ob = comb k (jfold k sb) (jfold k ab)
  end.
Proof.
  induction args as [|a args IH]; intros seen sb ab E Ea; cbn [j_outer].
  - inversion Ea; subst. exists sb. split; [exact E|]. rewrite jfold_nil. destruct k, (jfold _ sb); reflexivity.
  - cbn [ebools] in Ea. destruct (as_bool (eval false a I)) as [b|] eqn:Ha; [|discriminate].
    destruct (ebools false I args) as [ab'|] eqn:Ea'; [|discriminate]. inversion Ea; subst. rewrite jfold_cons.
    destruct (is_unit k a) eqn:U.
    { apply is_unit_spec in U. subst a. simpl in Ha. injection Ha as <-.
      specialize (IH seen sb ab' E eq_refl). destruct (j_outer k args seen) as [out|].
      - destruct IH as [ob [Eo Fo]]. exists ob. split; [exact Eo|]. rewrite Fo. destruct k, (jfold _ sb), (jfold _ ab'); reflexivity.
      - destruct k, (jfold _ sb), (jfold _ ab'); simpl in *; congruence. }
    destruct (is_zero k a) eqn:Z.
    { apply is_zero_spec in Z. subst a. simpl in Ha. injection Ha as <-. destruct k, (jfold _ sb), (jfold _ ab'); reflexivity. }
    destruct (junct_args k a) as [ss|] eqn:J.
    + destruct (junct_args_eval I k a ss b J Ha) as [ssb [Es ->]].
      assert (HI := j_inner_sem I k ss seen sb ssb E Es).
      destruct (j_inner ss seen) as [seen'|].
      * destruct HI as [sb' [E' F']]. specialize (IH seen' sb' ab' E' eq_refl).
        destruct (j_outer k args seen') as [out|].
        -- destruct IH as [ob [Eo Fo]]. exists ob. split; [exact Eo|]. rewrite Fo, F'.
           destruct k, (jfold _ sb), (jfold _ ssb), (jfold _ ab'); reflexivity.
        -- rewrite F' in IH. destruct k, (jfold _ sb), (jfold _ ssb), (jfold _ ab'); simpl in *; congruence.
      * destruct k, (jfold _ sb), (jfold _ ssb), (jfold _ ab'); simpl in *; congruence.
    + destruct (mem_expr (walk_not a) seen) eqn:M.
      * assert (A := mem_not_sem I k a seen sb b E Ha M). destruct k, (jfold _ sb), b, (jfold _ ab'); simpl in *; congruence.
      * destruct (add_key_sem I k a seen sb b E Ha) as [sb' [E' F']].
        specialize (IH (add_key a seen) sb' ab' E' eq_refl).
        destruct (j_outer k args (add_key a seen)) as [out|].
        -- destruct IH as [ob [Eo Fo]]. exists ob. split; [exact Eo|]. rewrite Fo, F'.
           destruct k, (jfold _ sb), b, (jfold _ ab'); reflexivity.
        -- rewrite F' in IH. destruct k, (jfold _ sb), b, (jfold _ ab'); simpl in *; congruence.
Qed.

Lemma sound_walk_junct_gen I (k : bool) l : R I I (if k then EAnd l else EOr l) (walk_junct_gen k l).
Proof.
  intros v. rewrite eval_J. destruct (ebools false I l) as [ab|] eqn:Ea; [|discriminate]. intros H; inversion H; subst.
  unfold walk_junct_gen. assert (S := j_outer_sem I k l [] [] ab eq_refl Ea). rewrite jfold_nil in S.
  destruct (j_outer k l []) as [keys|].
  - destruct S as [ob [Eo Fo]]. apply (mkJ_R I k keys). rewrite eval_J, Eo, Fo. destruct k, (jfold _ ab); reflexivity.
  - simpl. f_equal. f_equal. destruct k, (jfold _ ab); simpl in *; congruence.
Qed.

Lemma sound_walk_junct I (k : bool) l : R I I (if k then EAnd l else EOr l) (walk_junct k l).
Proof.
  unfold walk_junct. destruct l as [|a [|b [|c r]]]; try apply sound_walk_junct_gen.
  destruct (expr_eqb a b) eqn:E; [|apply sound_walk_junct_gen]. apply expr_eqb_eq in E. subst b.
  intros v. rewrite eval_J. cbn [ebools]. destruct (as_bool (eval false a I)) as [x|] eqn:A; [|discriminate].
  intros H; inversion H; subst. rewrite (as_bool_some _ _ A). destruct k, x; reflexivity.
Qed.

(* ---------------------------------------------------------------- walk_plus / walk_times *)
Definition aop (t : bool) : Qc -> Qc -> Qc := if t then Qcmult else Qcplus.
Definition aunit (t : bool) : Qc := if t then zq 1 else zq 0.
Definition afold (t : bool) (qs : list Qc) : Qc := fold_right (aop t) (aunit t) qs.

Lemma aop_comm t x y : aop t x y = aop t y x. Proof. destruct t; simpl; ring. Qed.
Lemma aop_assoc t x y z : aop t x (aop t y z) = aop t (aop t x y) z. Proof. destruct t; simpl; ring. Qed.
Lemma aop_unit_r t x : aop t x (aunit t) = x.
Proof. destruct t; simpl; [apply zq_1_mult|apply zq_0_plus]. Qed.
Lemma aop_unit_l t x : aop t (aunit t) x = x. Proof. rewrite aop_comm. apply aop_unit_r. Qed.
Lemma afold_app t a b : afold t (a ++ b) = aop t (afold t a) (afold t b).
Proof.
  induction a as [|x a IH]; cbn [app afold fold_right]; [symmetry; apply aop_unit_l|].
  fold (afold t (a ++ b)). fold (afold t a). rewrite IH. apply aop_assoc.
Qed.

Lemma eval_A I (t : bool) l :
  eval false (if t then ETimes l else EPlus l) I =
  match enums false I l with Some qs => Some (VNum (afold t qs)) | None => None end.
Proof. destruct t; [apply eval_ETimes|apply eval_EPlus]. Qed.

Lemma enums_app I l1 l2 :
  enums false I (l1 ++ l2) =
  match enums false I l1, enums false I l2 with Some a, Some b => Some (a ++ b) | _, _ => None end.
Proof.
  induction l1 as [|x l1 IH]; cbn [app enums]; [destruct (enums false I l2); reflexivity|].
  rewrite IH. destruct (as_num (eval false x I)), (enums false I l1), (enums false I l2); reflexivity.
Qed.

Lemma enums_flat1 I t l : forall qs, enums false I l = Some qs ->
  exists qs', enums false I (flat1 t l) = Some qs' /\ afold t qs' = afold t qs.
Proof.
  induction l as [|a l IH]; intros qs E.
  - inversion E; subst. exists []. split; reflexivity.
  - cbn [enums] in E. destruct (as_num (eval false a I)) as [q|] eqn:A; [|discriminate].
    destruct (enums false I l) as [qs0|] eqn:El; [|discriminate]. inversion E; subst.
    destruct (IH _ eq_refl) as [qs' [E' F']].
    cbn [flat1 flat_map]. fold (flat1 t l). rewrite enums_app, E'.
    assert (D : exists q1, enums false I [a] = Some q1 /\ afold t q1 = q).
    { exists [q]. cbn [enums]. rewrite A. split; [reflexivity|]. cbn. apply aop_unit_r. }
    assert (G : forall items, (exists q1, enums false I items = Some q1 /\ afold t q1 = q) ->
                exists qs'0, match enums false I items with Some a0 => Some (a0 ++ qs') | None => None end = Some qs'0 /\
                             afold t qs'0 = afold t (q :: qs0)).
    { intros items [q1 [E1 F1]]. rewrite E1. exists (q1 ++ qs'). split; [reflexivity|].
      rewrite afold_app, F1, F'. reflexivity. }
    destruct a; try (apply G; exact D); destruct t; try (apply G; exact D); apply G.
    + rewrite eval_EPlus in A. destruct (enums false I l0) as [q0|]; [|discriminate]. inversion A; subst. eauto.
    + rewrite eval_ETimes in A. destruct (enums false I l0) as [q0|]; [|discriminate]. inversion A; subst. eauto.
Qed.

Lemma enums_split I t items : forall qs, enums false I items = Some qs ->
  exists qn, enums false I (nonconsts_of items) = Some qn /\
             afold t qs = aop t (afold t qn) (afold t (map nval (consts_of items))).
Proof.
  induction items as [|x r IH]; intros qs E.
  - inversion E; subst. exists []. split; [reflexivity|]. cbn. symmetry. apply aop_unit_l.
  - cbn [enums] in E. destruct (as_num (eval false x I)) as [q|] eqn:A; [|discriminate].
    destruct (enums false I r) as [qs0|] eqn:Er; [|discriminate]. inversion E; subst.
    destruct (IH _ eq_refl) as [qn [En Fn]].
    cbn [nonconsts_of filter consts_of flat_map]. fold (nonconsts_of r). fold (consts_of r).
    destruct (num_of x) as [n|] eqn:Nx.
    + rewrite (num_of_is_num _ _ Nx). cbn [negb app map]. exists qn. split; [exact En|].
      rewrite (eval_num_of false I x n Nx) in A. inversion A; subst.
      cbn [afold fold_right]. fold (afold t qs0). fold (afold t (map nval (consts_of r))). rewrite Fn.
      rewrite !aop_assoc. f_equal. apply aop_comm.
    + apply num_of_none in Nx. rewrite Nx. cbn [negb app]. exists (q :: qn). split.
      * cbn [enums]. rewrite A, En. reflexivity.
      * cbn [afold fold_right]. fold (afold t qs0). fold (afold t qn). rewrite Fn. apply aop_assoc.
Qed.

Lemma nval_op t a b : nval (num_op t a b) = aop t (nval a) (nval b).
Proof. destruct t; simpl; [apply nval_mul|apply nval_add]. Qed.

Lemma nval_fold t cs : forall a, nval (fold_left (num_op t) cs a) = aop t (nval a) (afold t (map nval cs)).
Proof.
  induction cs as [|c cs IH]; intros a; cbn [fold_left map afold fold_right]; [symmetry; apply aop_unit_r|].
  fold (afold t (map nval cs)). rewrite IH, nval_op. symmetry. apply aop_assoc.
Qed.

Lemma afold_zero cs : existsb num_is0 cs = true -> afold true (map nval cs) = zq 0.
Proof.
  induction cs as [|c cs IH]; [discriminate|]. cbn [existsb map afold fold_right]. fold (afold true (map nval cs)).
  destruct (num_is0 c) eqn:Z.
  - apply num_is0_spec in Z. rewrite Z. intros _. simpl. change (zq 0) with 0%Qc. ring.
  - simpl. intros H. rewrite (IH H). change (zq 0) with 0%Qc. ring.
Qed.

Lemma mkA_R I (t : bool) l : R I I (if t then ETimes l else EPlus l) (mkA t l).
Proof. destruct t; [apply mkTimes_R|apply mkPlus_R]. Qed.

Lemma sound_walk_arith I (t : bool) l : R I I (if t then ETimes l else EPlus l) (walk_arith t l).
Proof.
  intros v. rewrite eval_A. destruct (enums false I l) as [qs|] eqn:E; [|discriminate]. intros H; inversion H; subst. clear H.
  destruct (enums_flat1 I t l qs E) as [qs' [E' F']].
  destruct (enums_split I t _ qs' E') as [qn [En Fn]].
  unfold walk_arith. rewrite <- F', Fn.
  destruct (t && existsb num_is0 (consts_of (flat1 t l))) eqn:Z.
  - apply andb_true_iff in Z. destruct Z as [-> Z]. rewrite (afold_zero _ Z). simpl. f_equal. f_equal.
    change (zq 0) with 0%Qc. ring.
  - assert (A := nval_fold t (consts_of (flat1 t l)) (num_unit t)).
    assert (U : nval (num_unit t) = aunit t) by (destruct t; reflexivity). rewrite U, aop_unit_l in A.
    destruct (num_is_unit t (fold_left (num_op t) (consts_of (flat1 t l)) (num_unit t))) eqn:NU.
    + assert (A1 : afold t (map nval (consts_of (flat1 t l))) = aunit t).
      { rewrite <- A. destruct t; simpl in *; [apply num_is1_spec|apply num_is0_spec]; exact NU. }
      rewrite A1, aop_unit_r. apply mkA_R. rewrite eval_A, En. reflexivity.
    + apply mkA_R. rewrite eval_A, enums_app, En. cbn [enums]. rewrite eval_num_expr. cbn [as_num].
      rewrite afold_app. cbn [afold fold_right]. rewrite aop_unit_r, A. reflexivity.
Qed.

(* ---------------------------------------------------------------- walk_minus / walk_div / walk_le / walk_lt *)
Lemma sound_walk_minus I a b : R I I (EMinus a b) (walk_minus a b).
Proof.
  unfold walk_minus. destruct (num_of a) as [x|] eqn:A, (num_of b) as [y|] eqn:B; try apply R_refl.
  - intros v. rewrite eval_EMinus, (eval_num_of false I a x A), (eval_num_of false I b y B). cbn [as_num].
    intros H; inversion H; subst. rewrite eval_num_expr, nval_sub. reflexivity.
  - destruct (num_isneg y); [|apply R_refl].
    eapply R_trans; [|apply (sound_walk_arith I false)].
    intros v. rewrite eval_EMinus, eval_EPlus, (eval_num_of false I b y B). cbn [as_num enums].
    destruct (as_num (eval false a I)) as [q|]; [|discriminate]. rewrite eval_num_expr. cbn [as_num].
    intros H; inversion H; subst. cbn. rewrite nval_neg. f_equal. f_equal. change (zq 0) with 0%Qc. ring.
Qed.

Lemma sound_walk_div I a b : R I I (EDiv a b) (walk_div a b).
Proof.
  unfold walk_div. destruct (num_of a) as [x|] eqn:A; [|apply R_refl]. destruct (num_of b) as [y|] eqn:B; [|destruct x; apply R_refl].
  assert (G : num_is0 y = false -> R I I (EDiv a b) (EReal (Qcdiv (nval x) (nval y)))).
  { intros Z v. rewrite eval_EDiv, (eval_num_of false I a x A), (eval_num_of false I b y B). cbn [as_num].
    apply num_is0_spec_false in Z. rewrite Z. intros H; exact H. }
  destruct x as [x|x], y as [y|y].
  - destruct (y =? 0)%Z eqn:Z; [apply R_refl|]. specialize (G Z). apply Z.eqb_neq in Z.
    destruct (x mod y =? 0)%Z eqn:M; [|exact G]. apply Z.eqb_eq in M.
    intros v Hv. apply G in Hv. simpl in Hv. simpl. rewrite <- Hv. f_equal. f_equal. symmetry. apply div_exact; assumption.
  - destruct (num_is0 (NR y)) eqn:Z; [apply R_refl|apply (G eq_refl)].
  - destruct (num_is0 (NI y)) eqn:Z; [apply R_refl|apply (G eq_refl)].
  - destruct (num_is0 (NR y)) eqn:Z; [apply R_refl|apply (G eq_refl)].
Qed.

Lemma sound_walk_le I a b : R I I (ELe a b) (walk_le a b).
Proof.
  unfold walk_le. destruct (num_of a) as [x|] eqn:A, (num_of b) as [y|] eqn:B; try apply R_refl.
  intros v. rewrite eval_ELe, (eval_num_of false I a x A), (eval_num_of false I b y B). intros H; exact H.
Qed.
Lemma sound_walk_lt I a b : R I I (ELt a b) (walk_lt a b).
Proof.
  unfold walk_lt. destruct (num_of a) as [x|] eqn:A, (num_of b) as [y|] eqn:B; try apply R_refl.
  intros v. rewrite eval_ELt, (eval_num_of false I a x A), (eval_num_of false I b y B). intros H; exact H.
Qed.

(* ---------------------------------------------------------------- walk_fluent_exp / interpreted functions *)
Lemma sound_walk_fluent G tau QT I f l : cfg_consts G -> env_ok G tau QT I -> R I I (EFluent f l) (walk_fluent G f l).
Proof.
  intros [HC _] E. unfold walk_fluent. destruct (forallb is_const l) eqn:C; [|apply R_refl].
  destruct (stat G f l) as [c|] eqn:S; [|apply R_refl].
  intros v. rewrite eval_EFluent, (evals_consts false I l C). destruct (cvalues l) as [vs|] eqn:V; [|discriminate].
  rewrite (ok_stat _ _ _ _ E f l c vs S V), (eval_const false I c (HC _ _ _ S)). auto.
Qed.
Lemma sound_walk_ifun G tau QT I f l : cfg_consts G -> env_ok G tau QT I -> R I I (EIFun f l) (walk_ifun G f l).
Proof.
  intros [_ HC] E. unfold walk_ifun. destruct (forallb is_const l) eqn:C; [|apply R_refl].
  destruct (itab G f l) as [c|] eqn:S; [|apply R_refl].
  intros v. rewrite eval_EIFun, (evals_consts false I l C). destruct (cvalues l) as [vs|] eqn:V; [|discriminate].
  rewrite (ok_itab _ _ _ _ E f l c vs S V), (eval_const false I c (HC _ _ _ S)). auto.
Qed.

(* ---------------------------------------------------------------- walk_equals *)
Lemma head_typed G tau QT I S e ty v :
  env_ok G tau QT I -> wfx tau QT S e = true -> user_type_of G e = Some ty -> eval false e I = Some v ->
  exists o, v = VObj o /\ In o (objs I ty).
Proof.
  intros E W U V. destruct e; simpl in U; try discriminate.
  - simpl in V. inversion V; subst. exists o. split; [reflexivity|apply (ok_obj _ _ _ _ E); exact U].
  - simpl in V. eapply (ok_par _ _ _ _ E); eauto.
  - inversion U; subst. simpl in V. cbn [wfx] in W. apply andb_true_iff in W. destruct W as [W _].
    apply N.eqb_eq in W. subst. eapply (ok_var _ _ _ _ E); eauto.
  - rewrite eval_EFluent in V. destruct (evals false I args); [|discriminate]. eapply (ok_fl _ _ _ _ E); eauto.
  - rewrite eval_EIFun in V. destruct (evals false I args); [|discriminate]. eapply (ok_if _ _ _ _ E); eauto.
Qed.

Lemma sound_walk_equals G tau QT I S a b :
  env_ok G tau QT I -> wfx tau QT S a = true -> wfx tau QT S b = true -> R I I (EEquals a b) (walk_equals G a b).
Proof.
  intros E Wa Wb. unfold walk_equals.
  destruct (is_const a && is_const b) eqn:C.
  { apply andb_true_iff in C. destruct C as [Ca Cb]. intros v. rewrite eval_EEquals.
    rewrite (eval_const false I a Ca), (eval_const false I b Cb).
    destruct a; try discriminate; destruct b; try discriminate; simpl; intros H; try discriminate; exact H. }
  destruct (expr_eqb a b) eqn:Q.
  { apply expr_eqb_eq in Q. subst b. intros v. rewrite eval_EEquals. destruct (eval false a I) as [[x|x|x]|]; try discriminate.
    - rewrite qc_eqb_refl. auto.
    - rewrite N.eqb_refl. auto. }
  destruct (user_type_of G a) as [ta|] eqn:Ua; [|apply R_refl].
  destruct (user_type_of G b) as [tb|] eqn:Ub; [|apply R_refl].
  destruct (negb (compat G ta tb) && negb (compat G tb ta)) eqn:N; [|apply R_refl].
  apply andb_true_iff in N. destruct N as [N1 N2]. apply negb_true_iff in N1, N2.
  intros v. rewrite eval_EEquals. destruct (eval false a I) as [va|] eqn:Va; [|discriminate].
  destruct (eval false b I) as [vb|] eqn:Vb; [|destruct va; discriminate].
  destruct (head_typed _ _ _ _ _ _ _ _ E Wa Ua Va) as [oa [-> Ha]].
  destruct (head_typed _ _ _ _ _ _ _ _ E Wb Ub Vb) as [ob [-> Hb]].
  intros H; inversion H; subst. simpl. f_equal. f_equal.
  destruct (oa =? ob)%N eqn:Eo; [|reflexivity]. apply N.eqb_eq in Eo. subst ob.
  destruct (ok_disj _ _ _ _ E ta tb oa Ha Hb); congruence.
Qed.

(* ---------------------------------------------------------------- trajectory operators: no value to preserve *)
Lemma sound_traj I :
  (forall a, R I I (EAlways a) (walk_always a)) /\ (forall a, R I I (ESometime a) (walk_sometime a)) /\
  (forall a, R I I (EAtMostOnce a) (walk_at_most_once a)) /\
  (forall a b, R I I (ESometimeBefore a b) (walk_sometime_before a b)) /\
  (forall a b, R I I (ESometimeAfter a b) (walk_sometime_after a b)).
Proof. repeat split; intros; intros v H; discriminate H. Qed.
