(* Proofs for C22 (Model/Clone.v): in-place mutation through addresses ([sync]) implements the pure semantics ([step]) on
   the problem it is applied to and is invisible to every problem whose containers are disjoint; [hclone] produces such
   a problem with the same content.  Hence: same outcomes, equal states, independence, for all operation sequences. *)
From Coq Require Import List NArith Bool Arith Lia Permutation.
Import ListNotations.
Require Import UPV.Model.Clone.

(* ------------------------------------------------------------------ lists *)
Lemma NoDup_app_iff {A} (l1 l2 : list A) :
  NoDup (l1 ++ l2) <-> NoDup l1 /\ NoDup l2 /\ (forall x, In x l1 -> ~ In x l2).
Proof.
  induction l1 as [|a l1 IH]; simpl.
  - split; [intros H; repeat split; [constructor | exact H | tauto] | tauto].
  - split.
    + intros H. inversion H as [|? ? Hn Hd]; subst. apply IH in Hd. destruct Hd as (H1 & H2 & H3).
      repeat split; [constructor; [intros Hi; apply Hn, in_or_app; auto | exact H1] | exact H2 |].
      intros x [Hx|Hx]; [subst; intros Hi; apply Hn, in_or_app; auto | auto].
    + intros (H1 & H2 & H3). inversion H1 as [|? ? Hn Hd]; subst. constructor.
      * intros Hi. apply in_app_or in Hi. destruct Hi as [Hi|Hi]; [tauto | apply (H3 a); auto].
      * apply IH. repeat split; auto.
Qed.

Lemma set_nth_length {A} i (x : A) l : length (set_nth i x l) = length l.
Proof. revert i; induction l as [|y l IH]; intros [|i]; simpl; auto. Qed.

(* ------------------------------------------------------------------ heap cells *)
Lemma upd_length h a c : length (upd h a c) = length h.
Proof. revert a; induction h as [|x h IH]; intros [|a]; simpl; auto. Qed.

Lemma rd_upd_same h a c : a < length h -> rd (upd h a c) a = c.
Proof.
  unfold rd. revert a; induction h as [|x h IH]; intros [|a]; simpl; intros H; try lia; auto.
  apply IH; lia.
Qed.

Lemma rd_upd_other h a b c : a <> b -> rd (upd h a c) b = rd h b.
Proof.
  unfold rd. revert a b; induction h as [|x h IH]; intros [|a] [|b]; simpl; intros H; try congruence; auto.
Qed.

Lemma rd_app_l h x a : a < length h -> rd (h ++ x) a = rd h a.
Proof. intros H. unfold rd. apply app_nth1; exact H. Qed.

Lemma rd_app_at h c x : rd (h ++ c :: x) (length h) = c.
Proof. unfold rd. rewrite app_nth2 by lia. rewrite Nat.sub_diag. reflexivity. Qed.

(* ------------------------------------------------------------------ write_all *)
Lemma write_all_length addrs : forall h cs, length (write_all h addrs cs) = length h.
Proof.
  induction addrs as [|a ar IH]; intros h [|c cr]; simpl; auto. rewrite IH. apply upd_length.
Qed.

Lemma write_all_other addrs : forall h cs b, ~ In b addrs -> rd (write_all h addrs cs) b = rd h b.
Proof.
  induction addrs as [|a ar IH]; intros h [|c cr] b Hn; simpl; auto.
  rewrite IH by (intros Hi; apply Hn; right; exact Hi).
  apply rd_upd_other. intros E; apply Hn; left; exact E.
Qed.

Lemma write_all_read addrs : forall h cs,
  NoDup addrs -> Forall (fun a => a < length h) addrs -> length cs = length addrs ->
  map (rd (write_all h addrs cs)) addrs = cs.
Proof.
  induction addrs as [|a ar IH]; intros h [|c cr] Hd Hb Hl; simpl in *; try discriminate; auto.
  inversion Hd as [|? ? Hn Hd']; subst. inversion Hb as [|? ? Ha Hb']; subst. f_equal.
  - rewrite write_all_other by exact Hn. apply rd_upd_same; exact Ha.
  - apply IH; [exact Hd' | | lia]. rewrite upd_length. exact Hb'.
Qed.

(* ------------------------------------------------------------------ take / sync_refs *)
Lemma take_perm k : forall old a old', take k old = Some (a, old') -> Permutation (map snd old) (a :: map snd old').
Proof.
  induction old as [|[k' b] t IH]; simpl; intros a old' H; [discriminate|].
  destruct (k =? k')%N.
  - inversion H; subst. apply Permutation_refl.
  - destruct (take k t) as [[a' t']|] eqn:E; [|discriminate]. inversion H; subst. simpl.
    eapply perm_trans; [apply perm_skip, (IH _ _ eq_refl) | apply perm_swap].
Qed.

Lemma sync_refs_spec : forall new h old h' r,
  NoDup (map snd old) -> Forall (fun a => a < length h) (map snd old) ->
  sync_refs h old new = (h', r) ->
  length h <= length h' /\
  abs_refs h' r = new /\
  NoDup (map snd r) /\
  Forall (fun a => a < length h') (map snd r) /\
  (forall a, In a (map snd r) -> In a (map snd old) \/ length h <= a) /\
  (forall b, b < length h -> ~ In b (map snd old) -> rd h' b = rd h b).
Proof.
  induction new as [|[k c] rest IH]; intros h old h' r Hd Hb H; simpl in H.
  - inversion H; subst. simpl. split; [lia|]. split; [reflexivity|]. split; [constructor|]. split; [constructor|].
    split; [intros a [] | reflexivity].
  - destruct (take k old) as [[a old']|] eqn:Et.
    + destruct (sync_refs (upd h a c) old' rest) as [h1 r1] eqn:Es. inversion H; subst h1 r. clear H.
      pose proof (take_perm _ _ _ _ Et) as Hp.
      assert (Hd2 : NoDup (a :: map snd old')) by (eapply Permutation_NoDup; eauto).
      inversion Hd2 as [|? ? Hna Hd']; subst.
      assert (Hb2 : Forall (fun x => x < length h) (a :: map snd old')).
      { rewrite Forall_forall in *. intros x Hx. apply Hb. eapply Permutation_in; [apply Permutation_sym; exact Hp | exact Hx]. }
      inversion Hb2 as [|? ? Ha Hb']; subst.
      assert (Hb3 : Forall (fun x => x < length (upd h a c)) (map snd old')) by (rewrite upd_length; exact Hb').
      destruct (IH _ _ _ _ Hd' Hb3 Es) as (L & A & D & B & P & F). rewrite upd_length in *.
      assert (Hra : rd h' a = c).
      { rewrite F by (try rewrite upd_length; auto). apply rd_upd_same; exact Ha. }
      repeat split.
      * exact L.
      * simpl. rewrite Hra, A. reflexivity.
      * simpl. constructor; [|exact D]. intros Hi. destruct (P _ Hi) as [Hi'|Hi']; [tauto | lia].
      * simpl. constructor; [lia | exact B].
      * simpl. intros x [Hx|Hx].
        -- subst. left. eapply Permutation_in; [apply Permutation_sym; exact Hp | left; reflexivity].
        -- destruct (P _ Hx) as [Hx'|Hx']; [left | right; exact Hx'].
           eapply Permutation_in; [apply Permutation_sym; exact Hp | right; exact Hx'].
      * intros b Hbl Hbn.
        assert (b <> a).
        { intros ->. apply Hbn. eapply Permutation_in; [apply Permutation_sym; exact Hp | left; reflexivity]. }
        rewrite F; [apply rd_upd_other; auto | exact Hbl |].
        intros Hi. apply Hbn. eapply Permutation_in; [apply Permutation_sym; exact Hp | right; exact Hi].
    + destruct (sync_refs (h ++ [c]) old rest) as [h1 r1] eqn:Es. inversion H; subst h1 r. clear H.
      assert (Hb3 : Forall (fun x => x < length (h ++ [c])) (map snd old)).
      { rewrite app_length; simpl. eapply Forall_impl; [|exact Hb]. simpl; intros; lia. }
      destruct (IH _ _ _ _ Hd Hb3 Es) as (L & A & D & B & P & F). rewrite app_length in *; simpl in *.
      assert (Hnl : ~ In (length h) (map snd old)).
      { intros Hi. rewrite Forall_forall in Hb. specialize (Hb _ Hi). lia. }
      assert (Hra : rd h' (length h) = c).
      { rewrite F by (auto; lia). apply rd_app_at. }
      repeat split.
      * lia.
      * simpl. rewrite Hra, A. reflexivity.
      * simpl. constructor; [|exact D]. intros Hi. destruct (P _ Hi) as [Hi'|Hi']; [tauto | lia].
      * simpl. constructor; [lia | exact B].
      * simpl. intros x [Hx|Hx]; [subst; right; lia|]. destruct (P _ Hx) as [Hx'|Hx']; [left; exact Hx' | right; lia].
      * intros b Hbl Hbn. rewrite F by (auto; lia). apply rd_app_l; exact Hbl.
Qed.

(* ------------------------------------------------------------------ sync_nest *)
Lemma abs_refs_ext h h' r : (forall b, In b (map snd r) -> rd h' b = rd h b) -> abs_refs h' r = abs_refs h r.
Proof.
  intros H. unfold abs_refs. apply map_ext_in. intros [k a] Hi. simpl. f_equal. apply H.
  change a with (snd (k, a)). apply in_map; exact Hi.
Qed.

Lemma sync_nest_spec h a new :
  a < length h -> NoDup (a :: inner h a) -> Forall (fun b => b < length h) (inner h a) ->
  let h' := sync_nest h a new in
  length h <= length h' /\
  abs_refs h' (refs (rd h' a)) = new /\
  NoDup (a :: inner h' a) /\
  Forall (fun b => b < length h') (inner h' a) /\
  (forall b, In b (inner h' a) -> In b (inner h a) \/ length h <= b) /\
  (forall b, b < length h -> b <> a -> ~ In b (inner h a) -> rd h' b = rd h b).
Proof.
  intros Ha Hd Hb. unfold sync_nest, inner in *. cbv zeta.
  destruct (sync_refs h (refs (rd h a)) new) as [h1 r] eqn:Es.
  inversion Hd as [|? ? Hna Hd']; subst.
  destruct (sync_refs_spec _ _ _ _ _ Hd' Hb Es) as (L & A & D & B & P & F).
  assert (Ha1 : a < length h1) by lia.
  assert (Hr : rd (upd h1 a (CRefs r)) a = CRefs r) by (apply rd_upd_same; exact Ha1).
  assert (Hnr : ~ In a (map snd r)).
  { intros Hi. destruct (P _ Hi) as [Hi'|Hi']; [tauto | lia]. }
  rewrite Hr. simpl. rewrite upd_length. repeat split.
  - exact L.
  - rewrite <- A. apply abs_refs_ext. intros b Hbi. apply rd_upd_other. intros ->; tauto.
  - constructor; assumption.
  - exact B.
  - exact P.
  - intros b Hbl Hba Hbn. rewrite rd_upd_other by auto. apply F; assumption.
Qed.

(* ------------------------------------------------------------------ sync_nests *)
Definition owned (h : heap) (addrs : list nat) : list nat := flat_map (fun a => a :: inner h a) addrs.

Lemma footprint_owned h p : Permutation (footprint h p) (o_flat p ++ owned h (o_nest p)).
Proof.
  unfold footprint, owned. apply Permutation_app_head.
  induction (o_nest p) as [|a l IH]; simpl; [constructor|].
  apply perm_skip. eapply perm_trans; [apply Permutation_app_swap_app|]. apply Permutation_app_head. exact IH.
Qed.

Lemma owned_ext h h' addrs : (forall a, In a addrs -> rd h' a = rd h a) -> owned h' addrs = owned h addrs.
Proof.
  intros H. unfold owned. induction addrs as [|a l IH]; simpl; [reflexivity|].
  unfold inner at 1. rewrite (H a) by (left; reflexivity). fold (inner h a). f_equal. f_equal.
  apply IH. intros b Hb. apply H. right; exact Hb.
Qed.

Lemma in_owned_self h addrs a : In a addrs -> In a (owned h addrs).
Proof. unfold owned. intros H. apply in_flat_map. exists a. split; [exact H | left; reflexivity]. Qed.

Lemma sync_nests_spec : forall addrs news h,
  NoDup (owned h addrs) -> Forall (fun b => b < length h) (owned h addrs) -> length news = length addrs ->
  let h' := sync_nests h addrs news in
  length h <= length h' /\
  map (fun a => abs_refs h' (refs (rd h' a))) addrs = news /\
  NoDup (owned h' addrs) /\
  Forall (fun b => b < length h') (owned h' addrs) /\
  (forall b, In b (owned h' addrs) -> In b (owned h addrs) \/ length h <= b) /\
  (forall b, b < length h -> ~ In b (owned h addrs) -> rd h' b = rd h b).
Proof.
  induction addrs as [|a ar IH]; intros [|n nr] h Hd Hb Hl; simpl in Hl; try discriminate; cbv zeta.
  - simpl. split; [lia|]. split; [reflexivity|]. split; [constructor|]. split; [constructor|].
    split; [intros b [] | reflexivity].
  - simpl sync_nests.
    change (owned h (a :: ar)) with ((a :: inner h a) ++ owned h ar) in *.
    apply NoDup_app_iff in Hd. destruct Hd as (Hd1 & Hd2 & Hdj).
    apply Forall_app in Hb. destruct Hb as (Hb1 & Hb2).
    inversion Hb1 as [|? ? Ha Hb1']; subst.
    pose proof (sync_nest_spec h a n Ha Hd1 Hb1') as S1. cbv zeta in S1.
    set (h1 := sync_nest h a n) in *.
    destruct S1 as (L1 & A1 & D1 & B1 & P1 & F1).
    assert (Eo : owned h1 ar = owned h ar).
    { apply owned_ext. intros a' Ha'. pose proof (in_owned_self h ar a' Ha') as Hio.
      apply F1.
      - rewrite Forall_forall in Hb2. apply Hb2; exact Hio.
      - intros ->. apply (Hdj a'); [left; reflexivity | exact Hio].
      - intros Hi. apply (Hdj a'); [right; exact Hi | exact Hio]. }
    assert (Hd2' : NoDup (owned h1 ar)) by (rewrite Eo; exact Hd2).
    assert (Hb2' : Forall (fun b => b < length h1) (owned h1 ar)).
    { rewrite Eo. eapply Forall_impl; [|exact Hb2]. simpl; intros; lia. }
    assert (Hl' : length nr = length ar) by lia.
    pose proof (IH nr h1 Hd2' Hb2' Hl') as S2. cbv zeta in S2.
    set (h' := sync_nests h1 ar nr) in *.
    destruct S2 as (L2 & A2 & D2 & B2 & P2 & F2).
    (* nothing owned by ar in h1 is a or one of a's inner containers *)
    assert (Hsep : forall x, In x (a :: inner h1 a) -> ~ In x (owned h1 ar)).
    { intros x Hx Hi. rewrite Eo in Hi. destruct Hx as [Hx|Hx].
      - subst. apply (Hdj x); [left; reflexivity | exact Hi].
      - destruct (P1 _ Hx) as [Hx'|Hx'].
        + apply (Hdj x); [right; exact Hx' | exact Hi].
        + rewrite Forall_forall in Hb2. specialize (Hb2 _ Hi). lia. }
    assert (Ra : rd h' a = rd h1 a).
    { apply F2; [lia | apply Hsep; left; reflexivity]. }
    assert (Ei : inner h' a = inner h1 a) by (unfold inner; rewrite Ra; reflexivity).
    repeat split.
    + lia.
    + simpl. f_equal; [|exact A2]. rewrite Ra, <- A1. apply abs_refs_ext. intros b Hbi.
      apply F2.
      * rewrite Forall_forall in B1. apply B1; exact Hbi.
      * apply Hsep. right; exact Hbi.
    + change (owned h' (a :: ar)) with ((a :: inner h' a) ++ owned h' ar). rewrite Ei.
      apply NoDup_app_iff. repeat split; [exact D1 | exact D2 |].
      intros x Hx Hi. destruct (P2 _ Hi) as [Hi'|Hi'].
      * apply (Hsep x Hx Hi').
      * destruct Hx as [Hx|Hx]; [subst; lia|]. rewrite Forall_forall in B1. specialize (B1 _ Hx). lia.
    + change (owned h' (a :: ar)) with ((a :: inner h' a) ++ owned h' ar). rewrite Ei.
      apply Forall_app. split; [|exact B2]. constructor; [lia|].
      eapply Forall_impl; [|exact B1]. simpl; intros; lia.
    + change (owned h' (a :: ar)) with ((a :: inner h' a) ++ owned h' ar). rewrite Ei.
      intros b Hbi. apply in_app_or in Hbi. destruct Hbi as [[Hbi|Hbi]|Hbi].
      * subst. left. left. reflexivity.
      * destruct (P1 _ Hbi) as [Hx|Hx]; [left; right; apply in_or_app; left; exact Hx | right; exact Hx].
      * destruct (P2 _ Hbi) as [Hx|Hx]; [left; rewrite Eo in Hx; apply in_or_app; right; exact Hx | right; lia].
    + intros b Hbl Hbn.
      assert (Hn1 : b <> a) by (intros ->; apply Hbn; left; reflexivity).
      assert (Hn2 : ~ In b (inner h a)) by (intros Hi; apply Hbn; right; apply in_or_app; left; exact Hi).
      assert (Hn3 : ~ In b (owned h ar)) by (intros Hi; apply Hbn; apply in_or_app; right; exact Hi).
      rewrite F2; [apply F1; assumption | lia | rewrite Eo; exact Hn3].
Qed.

(* ------------------------------------------------------------------ well-formedness in terms of [owned] *)
Definition wf' (h : heap) (p : pobj) : Prop :=
  NoDup (o_flat p ++ owned h (o_nest p)) /\ Forall (fun a => a < length h) (o_flat p ++ owned h (o_nest p)).

Lemma wf_wf' h p : wf h p <-> wf' h p.
Proof.
  unfold wf, wf'. pose proof (footprint_owned h p) as P. split; intros [H1 H2]; split.
  - eapply Permutation_NoDup; eauto.
  - eapply Permutation_Forall; eauto.
  - eapply Permutation_NoDup; [apply Permutation_sym|]; eauto.
  - eapply Permutation_Forall; [apply Permutation_sym|]; eauto.
Qed.

Lemma in_footprint_iff h p b : In b (footprint h p) <-> In b (o_flat p ++ owned h (o_nest p)).
Proof.
  pose proof (footprint_owned h p) as P. split; intros H.
  - eapply Permutation_in; eauto.
  - eapply Permutation_in; [apply Permutation_sym|]; eauto.
Qed.

(* what a problem looks like depends only on the cells it reaches *)
Lemma abs_ext h h' q :
  (forall b, In b (footprint h q) -> rd h' b = rd h b) -> abs h' q = abs h q /\ footprint h' q = footprint h q.
Proof.
  intros H.
  assert (Hf : forall a, In a (o_flat q) -> rd h' a = rd h a).
  { intros a Ha. apply H. unfold footprint. apply in_or_app; left; exact Ha. }
  assert (Hn : forall a, In a (o_nest q) -> rd h' a = rd h a).
  { intros a Ha. apply H. unfold footprint. apply in_or_app; right. apply in_or_app; left; exact Ha. }
  assert (Hi : forall a b, In a (o_nest q) -> In b (inner h a) -> rd h' b = rd h b).
  { intros a b Ha Hb. apply H. unfold footprint. apply in_or_app; right. apply in_or_app; right.
    apply in_flat_map. exists a; auto. }
  split.
  - unfold abs. f_equal.
    + apply map_ext_in. exact Hf.
    + apply map_ext_in. intros a Ha. rewrite (Hn a Ha). apply abs_refs_ext. intros b Hb. apply (Hi a b Ha Hb).
  - unfold footprint. f_equal. f_equal. apply flat_map_ext_in. intros a Ha. unfold inner. rewrite (Hn a Ha). reflexivity.
Qed.

Lemma flat_map_ext_in_local : True. Proof. exact I. Qed.
