(* Proofs for C22 (Model/Clone.v): in-place mutation through addresses ([sync]) implements the pure semantics ([step]) on
   the problem it is applied to and is invisible to every problem whose containers are disjoint; [hclone] produces such
   a problem with the same content.  Hence: same outcomes, equal states, independence, for all operation sequences. *)
From Coq Require Import List NArith Bool Arith Lia Permutation.
Import ListNotations.
Require Import UPV.Model.Clone.

Ltac splits := repeat match goal with |- _ /\ _ => split end.

(* ------------------------------------------------------------------ lists *)
Lemma NoDup_app_iff {A} (l1 l2 : list A) :
  NoDup (l1 ++ l2) <-> NoDup l1 /\ NoDup l2 /\ (forall x, In x l1 -> ~ In x l2).
Proof.
  induction l1 as [|a l1 IH]; simpl.
  - split; [intros H; repeat split; [constructor | exact H | tauto] | tauto].
  - split.
    + intros H. inversion H as [|? ? Hn Hd]; subst. apply IH in Hd. destruct Hd as (H1 & H2 & H3).
      repeat split; [constructor; [intros Hi; apply Hn, in_or_app; auto | exact H1] | exact H2 |].
      intros x [Hx|Hx]; [subst; intros Hi; apply Hn, in_or_app; auto | auto].
    + intros (H1 & H2 & H3). inversion H1 as [|? ? Hn Hd]; subst. constructor.
      * intros Hi. apply in_app_or in Hi. destruct Hi as [Hi|Hi]; [tauto | apply (H3 a); auto].
      * apply IH. repeat split; auto.
Qed.

Lemma flat_map_ext_in' {A B} (f g : A -> list B) l : (forall a, In a l -> f a = g a) -> flat_map f l = flat_map g l.
Proof.
  induction l as [|x l IH]; simpl; intros H; [reflexivity|].
  rewrite (H x) by (left; reflexivity). f_equal. apply IH. intros a Ha. apply H. right; exact Ha.
Qed.

Lemma set_nth_length {A} i (x : A) l : length (set_nth i x l) = length l.
Proof. revert i; induction l as [|y l IH]; intros [|i]; simpl; auto. Qed.

(* ------------------------------------------------------------------ heap cells *)
Lemma upd_length h a c : length (upd h a c) = length h.
Proof. revert a; induction h as [|x h IH]; intros [|a]; simpl; auto. Qed.

Lemma rd_upd_same h a c : a < length h -> rd (upd h a c) a = c.
Proof.
  unfold rd. revert a; induction h as [|x h IH]; intros [|a]; simpl; intros H; try lia; auto.
  apply IH; lia.
Qed.

Lemma rd_upd_other h a b c : a <> b -> rd (upd h a c) b = rd h b.
Proof.
  unfold rd. revert a b; induction h as [|x h IH]; intros [|a] [|b]; simpl; intros H; try congruence; auto.
Qed.

Lemma rd_app_l h x a : a < length h -> rd (h ++ x) a = rd h a.
Proof. intros H. unfold rd. apply app_nth1; exact H. Qed.

Lemma rd_app_at h c x : rd (h ++ c :: x) (length h) = c.
Proof. unfold rd. rewrite app_nth2 by lia. rewrite Nat.sub_diag. reflexivity. Qed.

(* ------------------------------------------------------------------ write_all *)
Lemma write_all_length addrs : forall h cs, length (write_all h addrs cs) = length h.
Proof.
  induction addrs as [|a ar IH]; intros h [|c cr]; simpl; auto. rewrite IH. apply upd_length.
Qed.

Lemma write_all_other addrs : forall h cs b, ~ In b addrs -> rd (write_all h addrs cs) b = rd h b.
Proof.
  induction addrs as [|a ar IH]; intros h [|c cr] b Hn; simpl; auto.
  rewrite IH by (intros Hi; apply Hn; right; exact Hi).
  apply rd_upd_other. intros E; apply Hn; left; exact E.
Qed.

Lemma write_all_read addrs : forall h cs,
  NoDup addrs -> Forall (fun a => a < length h) addrs -> length cs = length addrs ->
  map (rd (write_all h addrs cs)) addrs = cs.
Proof.
  induction addrs as [|a ar IH]; intros h [|c cr] Hd Hb Hl; simpl in *; try discriminate; auto.
  inversion Hd as [|? ? Hn Hd']; subst. inversion Hb as [|? ? Ha Hb']; subst. f_equal.
  - rewrite write_all_other by exact Hn. apply rd_upd_same; exact Ha.
  - apply IH; [exact Hd' | | lia]. rewrite upd_length. exact Hb'.
Qed.

(* ------------------------------------------------------------------ take / sync_refs *)
Lemma take_perm k : forall old a old', take k old = Some (a, old') -> Permutation (map snd old) (a :: map snd old').
Proof.
  induction old as [|[k' b] t IH]; simpl; intros a old' H; [discriminate|].
  destruct (k =? k')%N.
  - inversion H; subst. apply Permutation_refl.
  - destruct (take k t) as [[a' t']|] eqn:E; [|discriminate]. inversion H; subst. simpl.
    eapply perm_trans; [apply perm_skip, (IH _ _ eq_refl) | apply perm_swap].
Qed.

Lemma sync_refs_spec : forall new h old h' r,
  NoDup (map snd old) -> Forall (fun a => a < length h) (map snd old) ->
  sync_refs h old new = (h', r) ->
  length h <= length h' /\
  abs_refs h' r = new /\
  NoDup (map snd r) /\
  Forall (fun a => a < length h') (map snd r) /\
  (forall a, In a (map snd r) -> In a (map snd old) \/ length h <= a) /\
  (forall b, b < length h -> ~ In b (map snd old) -> rd h' b = rd h b).
Proof.
  induction new as [|[k c] rest IH]; intros h old h' r Hd Hb H; simpl in H.
  - inversion H; subst. simpl. split; [lia|]. split; [reflexivity|]. split; [constructor|]. split; [constructor|].
    split; [intros a [] | reflexivity].
  - destruct (take k old) as [[a old']|] eqn:Et.
    + destruct (sync_refs (upd h a c) old' rest) as [h1 r1] eqn:Es. inversion H; subst h1 r. clear H.
      pose proof (take_perm _ _ _ _ Et) as Hp.
      assert (Hd2 : NoDup (a :: map snd old')) by (eapply Permutation_NoDup; eauto).
      inversion Hd2 as [|? ? Hna Hd']; subst.
      assert (Hb2 : Forall (fun x => x < length h) (a :: map snd old')).
      { rewrite Forall_forall in *. intros x Hx. apply Hb. eapply Permutation_in; [apply Permutation_sym; exact Hp | exact Hx]. }
      inversion Hb2 as [|? ? Ha Hb']; subst.
      assert (Hb3 : Forall (fun x => x < length (upd h a c)) (map snd old')) by (rewrite upd_length; exact Hb').
      destruct (IH _ _ _ _ Hd' Hb3 Es) as (L & A & D & B & P & F). rewrite upd_length in *.
      assert (Hra : rd h' a = c).
      { rewrite F by (try rewrite upd_length; auto). apply rd_upd_same; exact Ha. }
      repeat split.
      * exact L.
      * simpl. rewrite Hra, A. reflexivity.
      * simpl. constructor; [|exact D]. intros Hi. destruct (P _ Hi) as [Hi'|Hi']; [tauto | lia].
      * simpl. constructor; [lia | exact B].
      * simpl. intros x [Hx|Hx].
        -- subst. left. eapply Permutation_in; [apply Permutation_sym; exact Hp | left; reflexivity].
        -- destruct (P _ Hx) as [Hx'|Hx']; [left | right; exact Hx'].
           eapply Permutation_in; [apply Permutation_sym; exact Hp | right; exact Hx'].
      * intros b Hbl Hbn.
        assert (b <> a).
        { intros ->. apply Hbn. eapply Permutation_in; [apply Permutation_sym; exact Hp | left; reflexivity]. }
        rewrite F; [apply rd_upd_other; auto | exact Hbl |].
        intros Hi. apply Hbn. eapply Permutation_in; [apply Permutation_sym; exact Hp | right; exact Hi].
    + destruct (sync_refs (h ++ [c]) old rest) as [h1 r1] eqn:Es. inversion H; subst h1 r. clear H.
      assert (Hb3 : Forall (fun x => x < length (h ++ [c])) (map snd old)).
      { rewrite app_length; simpl. eapply Forall_impl; [|exact Hb]. simpl; intros; lia. }
      destruct (IH _ _ _ _ Hd Hb3 Es) as (L & A & D & B & P & F). rewrite app_length in *; simpl in *.
      assert (Hnl : ~ In (length h) (map snd old)).
      { intros Hi. rewrite Forall_forall in Hb. specialize (Hb _ Hi). lia. }
      assert (Hra : rd h' (length h) = c).
      { rewrite F by (auto; lia). apply rd_app_at. }
      repeat split.
      * lia.
      * simpl. rewrite Hra, A. reflexivity.
      * simpl. constructor; [|exact D]. intros Hi. destruct (P _ Hi) as [Hi'|Hi']; [tauto | lia].
      * simpl. constructor; [lia | exact B].
      * simpl. intros x [Hx|Hx]; [subst; right; lia|]. destruct (P _ Hx) as [Hx'|Hx']; [left; exact Hx' | right; lia].
      * intros b Hbl Hbn. rewrite F by (auto; lia). apply rd_app_l; exact Hbl.
Qed.

(* ------------------------------------------------------------------ sync_nest *)
Lemma abs_refs_ext h h' r : (forall b, In b (map snd r) -> rd h' b = rd h b) -> abs_refs h' r = abs_refs h r.
Proof.
  intros H. unfold abs_refs. apply map_ext_in. intros [k a] Hi. simpl. f_equal. apply H.
  change a with (snd (k, a)). apply in_map; exact Hi.
Qed.

Lemma sync_nest_spec h a new :
  a < length h -> NoDup (a :: inner h a) -> Forall (fun b => b < length h) (inner h a) ->
  let h' := sync_nest h a new in
  length h <= length h' /\
  abs_refs h' (refs (rd h' a)) = new /\
  NoDup (a :: inner h' a) /\
  Forall (fun b => b < length h') (inner h' a) /\
  (forall b, In b (inner h' a) -> In b (inner h a) \/ length h <= b) /\
  (forall b, b < length h -> b <> a -> ~ In b (inner h a) -> rd h' b = rd h b).
Proof.
  intros Ha Hd Hb. unfold sync_nest, inner in *. cbv zeta.
  destruct (sync_refs h (refs (rd h a)) new) as [h1 r] eqn:Es.
  inversion Hd as [|? ? Hna Hd']; subst.
  destruct (sync_refs_spec _ _ _ _ _ Hd' Hb Es) as (L & A & D & B & P & F).
  assert (Ha1 : a < length h1) by lia.
  assert (Hr : rd (upd h1 a (CRefs r)) a = CRefs r) by (apply rd_upd_same; exact Ha1).
  assert (Hnr : ~ In a (map snd r)).
  { intros Hi. destruct (P _ Hi) as [Hi'|Hi']; [tauto | lia]. }
  rewrite Hr. simpl. rewrite upd_length. repeat split.
  - exact L.
  - rewrite <- A. apply abs_refs_ext. intros b Hbi. apply rd_upd_other. intros ->; tauto.
  - constructor; assumption.
  - exact B.
  - exact P.
  - intros b Hbl Hba Hbn. rewrite rd_upd_other by auto. apply F; assumption.
Qed.

(* ------------------------------------------------------------------ sync_nests *)
Definition owned (h : heap) (addrs : list nat) : list nat := flat_map (fun a => a :: inner h a) addrs.

Lemma footprint_owned h p : Permutation (footprint h p) (o_flat p ++ owned h (o_nest p)).
Proof.
  unfold footprint, owned. apply Permutation_app_head.
  induction (o_nest p) as [|a l IH]; simpl; [constructor|].
  apply perm_skip. eapply perm_trans; [apply Permutation_app_swap_app|]. apply Permutation_app_head. exact IH.
Qed.

Lemma owned_ext h h' addrs : (forall a, In a addrs -> rd h' a = rd h a) -> owned h' addrs = owned h addrs.
Proof.
  intros H. unfold owned. induction addrs as [|a l IH]; simpl; [reflexivity|].
  unfold inner at 1. rewrite (H a) by (left; reflexivity). fold (inner h a). f_equal. f_equal.
  apply IH. intros b Hb. apply H. right; exact Hb.
Qed.

Lemma in_owned_self h addrs a : In a addrs -> In a (owned h addrs).
Proof. unfold owned. intros H. apply in_flat_map. exists a. split; [exact H | left; reflexivity]. Qed.

Lemma sync_nests_spec : forall addrs news h,
  NoDup (owned h addrs) -> Forall (fun b => b < length h) (owned h addrs) -> length news = length addrs ->
  let h' := sync_nests h addrs news in
  length h <= length h' /\
  map (fun a => abs_refs h' (refs (rd h' a))) addrs = news /\
  NoDup (owned h' addrs) /\
  Forall (fun b => b < length h') (owned h' addrs) /\
  (forall b, In b (owned h' addrs) -> In b (owned h addrs) \/ length h <= b) /\
  (forall b, b < length h -> ~ In b (owned h addrs) -> rd h' b = rd h b).
Proof.
  induction addrs as [|a ar IH]; intros [|n nr] h Hd Hb Hl; simpl in Hl; try discriminate; cbv zeta.
  - simpl. split; [lia|]. split; [reflexivity|]. split; [constructor|]. split; [constructor|].
    split; [intros b [] | reflexivity].
  - simpl sync_nests.
    change (owned h (a :: ar)) with ((a :: inner h a) ++ owned h ar) in *.
    apply NoDup_app_iff in Hd. destruct Hd as (Hd1 & Hd2 & Hdj).
    apply Forall_app in Hb. destruct Hb as (Hb1 & Hb2).
    inversion Hb1 as [|? ? Ha Hb1']; subst.
    pose proof (sync_nest_spec h a n Ha Hd1 Hb1') as S1. cbv zeta in S1.
    remember (sync_nest h a n) as h1 eqn:Eh1. clear Eh1.
    destruct S1 as (L1 & A1 & D1 & B1 & P1 & F1).
    assert (Eo : owned h1 ar = owned h ar).
    { apply owned_ext. intros a' Ha'. pose proof (in_owned_self h ar a' Ha') as Hio.
      apply F1.
      - rewrite Forall_forall in Hb2. apply Hb2; exact Hio.
      - intros E. apply (Hdj a'); [left; symmetry; exact E | exact Hio].
      - intros Hi. apply (Hdj a'); [right; exact Hi | exact Hio]. }
    assert (Hd2' : NoDup (owned h1 ar)) by (rewrite Eo; exact Hd2).
    assert (Hb2' : Forall (fun b => b < length h1) (owned h1 ar)).
    { rewrite Eo. eapply Forall_impl; [|exact Hb2]. simpl; intros; lia. }
    assert (Hl' : length nr = length ar) by lia.
    pose proof (IH nr h1 Hd2' Hb2' Hl') as S2. cbv zeta in S2.
    remember (sync_nests h1 ar nr) as h' eqn:Eh'. clear Eh'.
    destruct S2 as (L2 & A2 & D2 & B2 & P2 & F2).
    (* nothing owned by ar in h1 is a or one of a's inner containers *)
    assert (Hsep : forall x, In x (a :: inner h1 a) -> ~ In x (owned h1 ar)).
    { intros x Hx Hi. rewrite Eo in Hi. destruct Hx as [Hx|Hx].
      - subst. apply (Hdj x); [left; reflexivity | exact Hi].
      - destruct (P1 _ Hx) as [Hx'|Hx'].
        + apply (Hdj x); [right; exact Hx' | exact Hi].
        + rewrite Forall_forall in Hb2. specialize (Hb2 _ Hi). lia. }
    assert (Ra : rd h' a = rd h1 a).
    { apply F2; [lia | apply Hsep; left; reflexivity]. }
    assert (Ei : inner h' a = inner h1 a) by (unfold inner; rewrite Ra; reflexivity).
    repeat split.
    + lia.
    + simpl. f_equal; [|exact A2]. rewrite Ra, <- A1. apply abs_refs_ext. intros b Hbi.
      apply F2.
      * rewrite Forall_forall in B1. apply B1; exact Hbi.
      * apply Hsep. right; exact Hbi.
    + change (owned h' (a :: ar)) with ((a :: inner h' a) ++ owned h' ar). rewrite Ei.
      apply NoDup_app_iff. repeat split; [exact D1 | exact D2 |].
      intros x Hx Hi. destruct (P2 _ Hi) as [Hi'|Hi'].
      * apply (Hsep x Hx Hi').
      * destruct Hx as [Hx|Hx]; [subst; lia|]. rewrite Forall_forall in B1. specialize (B1 _ Hx). lia.
    + change (owned h' (a :: ar)) with ((a :: inner h' a) ++ owned h' ar). rewrite Ei.
      apply Forall_app. split; [|exact B2]. constructor; [lia|].
      eapply Forall_impl; [|exact B1]. simpl; intros; lia.
    + change (owned h' (a :: ar)) with ((a :: inner h' a) ++ owned h' ar). rewrite Ei.
      intros b Hbi. apply in_app_or in Hbi. destruct Hbi as [[Hbi|Hbi]|Hbi].
      * subst. left. left. reflexivity.
      * destruct (P1 _ Hbi) as [Hx|Hx]; [left; right; apply in_or_app; left; exact Hx | right; exact Hx].
      * destruct (P2 _ Hbi) as [Hx|Hx]; [left; rewrite Eo in Hx; apply in_or_app; right; exact Hx | right; lia].
    + intros b Hbl Hbn.
      assert (Hn1 : b <> a) by (intros ->; apply Hbn; left; reflexivity).
      assert (Hn2 : ~ In b (inner h a)) by (intros Hi; apply Hbn; right; apply in_or_app; left; exact Hi).
      assert (Hn3 : ~ In b (owned h ar)) by (intros Hi; apply Hbn; apply in_or_app; right; exact Hi).
      rewrite F2; [apply F1; assumption | lia | rewrite Eo; exact Hn3].
Qed.

(* ------------------------------------------------------------------ well-formedness in terms of [owned] *)
Definition wf' (h : heap) (p : pobj) : Prop :=
  NoDup (o_flat p ++ owned h (o_nest p)) /\ Forall (fun a => a < length h) (o_flat p ++ owned h (o_nest p)).

Lemma wf_wf' h p : wf h p <-> wf' h p.
Proof.
  unfold wf, wf'. pose proof (footprint_owned h p) as P. split; intros [H1 H2]; split.
  - eapply Permutation_NoDup; eauto.
  - eapply Permutation_Forall; eauto.
  - eapply Permutation_NoDup; [apply Permutation_sym|]; eauto.
  - eapply Permutation_Forall; [apply Permutation_sym|]; eauto.
Qed.

Lemma in_footprint_iff h p b : In b (footprint h p) <-> In b (o_flat p ++ owned h (o_nest p)).
Proof.
  pose proof (footprint_owned h p) as P. split; intros H.
  - eapply Permutation_in; eauto.
  - eapply Permutation_in; [apply Permutation_sym|]; eauto.
Qed.

(* what a problem looks like depends only on the cells it reaches *)
Lemma abs_ext h h' q :
  (forall b, In b (footprint h q) -> rd h' b = rd h b) -> abs h' q = abs h q /\ footprint h' q = footprint h q.
Proof.
  intros H.
  assert (Hf : forall a, In a (o_flat q) -> rd h' a = rd h a).
  { intros a Ha. apply H. unfold footprint. apply in_or_app; left; exact Ha. }
  assert (Hn : forall a, In a (o_nest q) -> rd h' a = rd h a).
  { intros a Ha. apply H. unfold footprint. apply in_or_app; right. apply in_or_app; left; exact Ha. }
  assert (Hi : forall a b, In a (o_nest q) -> In b (inner h a) -> rd h' b = rd h b).
  { intros a b Ha Hb. apply H. unfold footprint. apply in_or_app; right. apply in_or_app; right.
    apply in_flat_map. exists a; auto. }
  split.
  - unfold abs. f_equal.
    + apply map_ext_in. exact Hf.
    + apply map_ext_in. intros a Ha. rewrite (Hn a Ha). apply abs_refs_ext. intros b Hb. apply (Hi a b Ha Hb).
  - unfold footprint. f_equal. f_equal. apply flat_map_ext_in'. intros a Ha. unfold inner. rewrite (Hn a Ha). reflexivity.
Qed.

(* ------------------------------------------------------------------ sync: in-place mutation implements the pure state *)
Definition retag (p : pobj) (s : pstate) : pobj := {| o_scal := s_scal s; o_flat := o_flat p; o_nest := o_nest p |}.

Lemma sync_spec h p s :
  wf h p -> length (s_flat s) = length (o_flat p) -> length (s_nest s) = length (o_nest p) ->
  let h' := sync h p s in
  abs h' (retag p s) = s /\
  wf h' (retag p s) /\
  length h <= length h' /\
  (forall b, In b (footprint h' (retag p s)) -> In b (footprint h p) \/ length h <= b) /\
  (forall b, b < length h -> ~ In b (footprint h p) -> rd h' b = rd h b).
Proof.
  intros W Lf Ln. apply wf_wf' in W. destruct W as [Wd Wb]. cbv zeta. unfold sync.
  apply NoDup_app_iff in Wd. destruct Wd as (Df & Do & Dj).
  apply Forall_app in Wb. destruct Wb as (Bf & Bo).
  remember (write_all h (o_flat p) (s_flat s)) as h0 eqn:E0.
  assert (L0 : length h0 = length h) by (subst h0; apply write_all_length).
  assert (R0 : forall b, ~ In b (o_flat p) -> rd h0 b = rd h b) by (intros; subst h0; apply write_all_other; assumption).
  assert (Eo : owned h0 (o_nest p) = owned h (o_nest p)).
  { apply owned_ext. intros a Ha. apply R0. intros Hi. apply (Dj a Hi). apply in_owned_self; exact Ha. }
  assert (Do0 : NoDup (owned h0 (o_nest p))) by (rewrite Eo; exact Do).
  assert (Bo0 : Forall (fun b => b < length h0) (owned h0 (o_nest p))) by (rewrite Eo, L0; exact Bo).
  pose proof (sync_nests_spec (o_nest p) (s_nest s) h0 Do0 Bo0 Ln) as S. cbv zeta in S.
  remember (sync_nests h0 (o_nest p) (s_nest s)) as h' eqn:E'. clear E'.
  destruct S as (L & A & D & B & P & F). rewrite Eo in P, F. rewrite L0 in *.
  assert (Rf : map (rd h') (o_flat p) = s_flat s).
  { rewrite <- (write_all_read (o_flat p) h (s_flat s) Df Bf Lf). rewrite <- E0.
    apply map_ext_in. intros a Ha. apply F.
    - rewrite Forall_forall in Bf. apply Bf; exact Ha.
    - apply Dj; exact Ha. }
  split; [|split; [|split; [|split]]].
  - unfold abs, retag; simpl. rewrite Rf, A. destruct s; reflexivity.
  - apply wf_wf'. unfold wf', retag; simpl. split.
    + apply NoDup_app_iff. repeat split; [exact Df | exact D |].
      intros x Hx Hi. destruct (P _ Hi) as [Hi'|Hi']; [apply (Dj x Hx Hi') |].
      rewrite Forall_forall in Bf. specialize (Bf _ Hx). lia.
    + apply Forall_app. split; [|exact B]. eapply Forall_impl; [|exact Bf]. simpl; intros; lia.
  - exact L.
  - intros b Hb. apply in_footprint_iff in Hb. unfold retag in Hb; simpl in Hb. apply in_app_or in Hb.
    destruct Hb as [Hb|Hb].
    + left. apply in_footprint_iff. apply in_or_app; left; exact Hb.
    + destruct (P _ Hb) as [Hx|Hx]; [left | right; exact Hx]. apply in_footprint_iff. apply in_or_app; right; exact Hx.
  - intros b Hbl Hbn.
    assert (N1 : ~ In b (o_flat p)) by (intros Hi; apply Hbn, in_footprint_iff, in_or_app; left; exact Hi).
    assert (N2 : ~ In b (owned h (o_nest p))) by (intros Hi; apply Hbn, in_footprint_iff, in_or_app; right; exact Hi).
    rewrite F by assumption. apply R0; exact N1.
Qed.

(* a problem whose containers are disjoint from p's does not see p's mutations *)
Lemma sync_frame h p s q :
  wf h p -> wf h q -> disjoint (footprint h p) (footprint h q) ->
  length (s_flat s) = length (o_flat p) -> length (s_nest s) = length (o_nest p) ->
  let h' := sync h p s in
  abs h' q = abs h q /\ wf h' q /\ disjoint (footprint h' (retag p s)) (footprint h' q).
Proof.
  intros Wp Wq Dj Lf Ln. cbv zeta.
  destruct (sync_spec h p s Wp Lf Ln) as (_ & _ & L & P & F).
  remember (sync h p s) as h' eqn:E'. clear E'.
  destruct Wq as [Wqd Wqb].
  assert (R : forall b, In b (footprint h q) -> rd h' b = rd h b).
  { intros b Hb. apply F.
    - rewrite Forall_forall in Wqb. apply Wqb; exact Hb.
    - intros Hi. apply (Dj b Hi Hb). }
  destruct (abs_ext h h' q R) as [Ea Ef]. split; [exact Ea|]. split.
  - unfold wf. rewrite Ef. split; [exact Wqd|]. eapply Forall_impl; [|exact Wqb]. simpl; intros; lia.
  - rewrite Ef. intros b Hb Hq. destruct (P _ Hb) as [Hx|Hx]; [apply (Dj b Hx Hq)|].
    rewrite Forall_forall in Wqb. specialize (Wqb _ Hq). lia.
Qed.

(* ------------------------------------------------------------------ allocation *)
Lemma map_rd_seq cs : forall h ext, map (rd (h ++ cs ++ ext)) (seq (length h) (length cs)) = cs.
Proof.
  induction cs as [|c cs IH]; intros h ext; simpl; [reflexivity|]. f_equal.
  - apply rd_app_at.
  - replace (h ++ c :: cs ++ ext) with ((h ++ [c]) ++ cs ++ ext) by (rewrite <- app_assoc; reflexivity).
    replace (S (length h)) with (length (h ++ [c])) by (rewrite app_length; simpl; lia). apply IH.
Qed.

Lemma abs_refs_alloc l : forall h ext,
  abs_refs (h ++ map snd l ++ ext) (combine (map fst l) (seq (length h) (length l))) = l.
Proof.
  induction l as [|[k c] l IH]; intros h ext; simpl; [reflexivity|]. f_equal.
  - unfold abs_refs; simpl. rewrite rd_app_at. reflexivity.
  - replace (h ++ c :: map snd l ++ ext) with ((h ++ [c]) ++ map snd l ++ ext) by (rewrite <- app_assoc; reflexivity).
    replace (S (length h)) with (length (h ++ [c])) by (rewrite app_length; simpl; lia). apply IH.
Qed.

Lemma map_snd_combine {A B} (a : list A) (b : list B) : length a = length b -> map snd (combine a b) = b.
Proof. revert b; induction a as [|x a IH]; intros [|y b] H; simpl in *; try discriminate; auto. f_equal. apply IH; lia. Qed.

Lemma alloc_nests_spec : forall ls h h2 ns, alloc_nests h ls = (h2, ns) ->
  (exists ext, h2 = h ++ ext) /\
  map (fun a => abs_refs h2 (refs (rd h2 a))) ns = ls /\
  NoDup (owned h2 ns) /\
  Forall (fun b => length h <= b < length h2) (owned h2 ns).
Proof.
  induction ls as [|l r IH]; intros h h2 ns H; simpl in H.
  - inversion H; subst. simpl. split; [exists []; rewrite app_nil_r; reflexivity|].
    split; [reflexivity|]. split; constructor.
  - unfold alloc_nest, alloc_refs in H.
    remember (combine (map fst l) (seq (length h) (length l))) as r0 eqn:Er0.
    remember ((h ++ map snd l) ++ [CRefs r0]) as h1 eqn:Eh1.
    destruct (alloc_nests h1 r) as [h2' ar] eqn:Ea. inversion H; subst h2' ns. clear H.
    destruct (IH _ _ _ Ea) as ([ext Eext] & A & D & B).
    assert (Lh1 : length h1 = length h + length l + 1).
    { subst h1. rewrite !app_length, map_length. simpl. lia. }
    set (a := length (h ++ map snd l)) in *.
    assert (Ea' : a = length h + length l) by (unfold a; rewrite app_length, map_length; reflexivity).
    assert (Rp : forall b, b < length h1 -> rd h2 b = rd h1 b) by (intros; subst h2; apply rd_app_l; assumption).
    assert (Ra1 : rd h1 a = CRefs r0) by (subst h1; unfold a; apply rd_app_at).
    assert (Ra : rd h2 a = CRefs r0) by (rewrite Rp by lia; exact Ra1).
    assert (Ei : inner h2 a = seq (length h) (length l)).
    { unfold inner. rewrite Ra. simpl. subst r0. apply map_snd_combine. rewrite map_length, seq_length. reflexivity. }
    split; [|split; [|split]].
    + exists (map snd l ++ [CRefs r0] ++ ext). subst h2 h1. rewrite <- !app_assoc. reflexivity.
    + simpl. f_equal; [|exact A]. rewrite Ra. simpl.
      transitivity (abs_refs h1 r0).
      * apply abs_refs_ext. intros b Hb. apply Rp. fold (inner h2 a) in Ei.
        assert (Hb' : In b (seq (length h) (length l))).
        { subst r0. rewrite map_snd_combine in Hb by (rewrite map_length, seq_length; reflexivity). exact Hb. }
        apply in_seq in Hb'. lia.
      * subst h1 r0. rewrite <- app_assoc. apply abs_refs_alloc.
    + change (owned h2 (a :: ar)) with ((a :: inner h2 a) ++ owned h2 ar). rewrite Ei.
      apply NoDup_app_iff. repeat split.
      * constructor; [intros Hi; apply in_seq in Hi; lia | apply seq_NoDup].
      * exact D.
      * intros x Hx Hi. rewrite Forall_forall in B. specialize (B _ Hi).
        destruct Hx as [Hx|Hx]; [subst; lia | apply in_seq in Hx; lia].
    + change (owned h2 (a :: ar)) with ((a :: inner h2 a) ++ owned h2 ar). rewrite Ei.
      assert (L2 : length h1 <= length h2) by (subst h2; rewrite app_length; lia).
      apply Forall_app. split.
      * constructor; [lia|]. apply Forall_forall. intros x Hx. apply in_seq in Hx. lia.
      * eapply Forall_impl; [|exact B]. simpl; intros; lia.
Qed.

Lemma prefix_keeps h ext q : wf h q ->
  abs (h ++ ext) q = abs h q /\ footprint (h ++ ext) q = footprint h q /\ wf (h ++ ext) q.
Proof.
  intros [Wd Wb].
  assert (R : forall b, In b (footprint h q) -> rd (h ++ ext) b = rd h b).
  { intros b Hb. apply rd_app_l. rewrite Forall_forall in Wb. apply Wb; exact Hb. }
  destruct (abs_ext h (h ++ ext) q R) as [Ea Ef]. repeat split; auto.
  - rewrite Ef; exact Wd.
  - rewrite Ef. eapply Forall_impl; [|exact Wb]. simpl; intros. rewrite app_length; lia.
Qed.

(* clone(): same content, brand-new containers *)
Lemma hclone_spec h p h' c : wf h p -> hclone h p = (h', c) ->
  abs h' c = abs h p /\ abs h' p = abs h p /\ wf h' p /\ wf h' c /\ disjoint (footprint h' p) (footprint h' c).
Proof.
  intros W H. unfold hclone, alloc_cells in H.
  remember (h ++ map (rd h) (o_flat p)) as h1 eqn:Eh1.
  destruct (alloc_nests h1 (map (fun a => abs_refs h (refs (rd h a))) (o_nest p))) as [h2 ns] eqn:Ea.
  inversion H; subst h' c. clear H.
  destruct (alloc_nests_spec _ _ _ _ Ea) as ([ext Eext] & A & D & B).
  assert (L1 : length h1 = length h + length (o_flat p)) by (subst h1; rewrite app_length, !map_length; reflexivity).
  assert (E2 : h2 = h ++ (map (rd h) (o_flat p) ++ ext)) by (subst h2 h1; rewrite <- app_assoc; reflexivity).
  destruct (prefix_keeps h (map (rd h) (o_flat p) ++ ext) p W) as (Eabs & Efp & Wp). rewrite <- E2 in *.
  assert (Bc : Forall (fun b => length h <= b < length h2)
                      (seq (length h) (length (map (rd h) (o_flat p))) ++ owned h2 ns)).
  { apply Forall_app. split.
    - apply Forall_forall. intros x Hx. apply in_seq in Hx. rewrite map_length in Hx.
      assert (length h1 <= length h2) by (subst h2; rewrite app_length; lia). lia.
    - eapply Forall_impl; [|exact B]. simpl; intros; lia. }
  assert (Wc : wf h2 {| o_scal := o_scal p; o_flat := seq (length h) (length (map (rd h) (o_flat p))); o_nest := ns |}).
  { apply wf_wf'. unfold wf'; simpl. split.
    - apply NoDup_app_iff. repeat split; [apply seq_NoDup | exact D |].
      intros x Hx Hi. apply in_seq in Hx. rewrite map_length in Hx. rewrite Forall_forall in B. specialize (B _ Hi). lia.
    - eapply Forall_impl; [|exact Bc]. simpl; intros; lia. }
  split; [|split; [exact Eabs | split; [exact Wp | split; [exact Wc|]]]].
  - unfold abs; simpl. f_equal.
    + rewrite E2. rewrite map_length. rewrite <- (map_length (rd h) (o_flat p)). apply map_rd_seq.
    + exact A.
  - intros b Hb Hc. destruct W as [_ Wb]. rewrite Efp in Hb. rewrite Forall_forall in Wb. specialize (Wb _ Hb).
    apply in_footprint_iff in Hc. simpl in Hc. rewrite Forall_forall in Bc. specialize (Bc _ Hc). lia.
Qed.

(* ------------------------------------------------------------------ boolean well-formedness *)
Lemma nodupb_NoDup l : nodupb l = true -> NoDup l.
Proof.
  induction l as [|x l IH]; simpl; intros H; [constructor|].
  apply andb_true_iff in H. destruct H as [H1 H2]. constructor; [|apply IH; exact H2].
  intros Hi. apply negb_true_iff in H1. assert (existsb (Nat.eqb x) l = true); [|congruence].
  apply existsb_exists. exists x. split; [exact Hi | apply Nat.eqb_refl].
Qed.

Lemma wfb_wf h p : wfb h p = true -> wf h p.
Proof.
  unfold wfb, wf. intros H. apply andb_true_iff in H. destruct H as [H1 H2]. split; [apply nodupb_NoDup; exact H1|].
  apply Forall_forall. intros x Hx. rewrite forallb_forall in H2. specialize (H2 _ Hx). apply Nat.ltb_lt; exact H2.
Qed.

(* ------------------------------------------------------------------ operations keep the number of attributes *)
Definition same_shape (s t : pstate) : Prop :=
  length (s_flat t) = length (s_flat s) /\ length (s_nest t) = length (s_nest s).

Lemma shape_refl s : same_shape s s. Proof. split; reflexivity. Qed.
Lemma shape_trans s t u : same_shape s t -> same_shape t u -> same_shape s u.
Proof. intros [A B] [C D]; split; congruence. Qed.
Lemma shape_set_flat s i c : same_shape s (set_flat s i c).
Proof. split; simpl; [apply set_nth_length | reflexivity]. Qed.
Lemma shape_set_nest s i l : same_shape s (set_nest s i l).
Proof. split; simpl; [reflexivity | apply set_nth_length]. Qed.
Lemma shape_set_scal s i v : same_shape s (set_scal s i v).
Proof. split; reflexivity. Qed.

Lemma add_user_type_shape chain : forall s s', add_user_type s chain = Some s' -> same_shape s s'.
Proof.
  induction chain as [|t rest IH]; simpl; intros s s' H.
  - inversion H; subst. apply shape_refl.
  - destruct (existsb (val_eqb t) (lst (flat s F_TYPES))); [inversion H; subst; apply shape_refl|].
    destruct (has_name s (snd t)); [discriminate|].
    destruct (add_user_type s rest) as [s1|] eqn:E; [|discriminate]. inversion H; subst.
    eapply shape_trans; [apply (IH _ _ E) | apply shape_set_flat].
Qed.

Lemma add_types_shape chains : forall s, same_shape s (fst (add_types s chains)).
Proof.
  induction chains as [|c r IH]; simpl; intros s; [apply shape_refl|].
  destruct (add_user_type s c) as [s'|] eqn:E; simpl; [|apply shape_refl].
  eapply shape_trans; [apply (add_user_type_shape _ _ _ E) | apply IH].
Qed.

Lemma step_shape s o : same_shape s (fst (step s o)).
Proof.
  unfold step. destruct (o_pre o); simpl; [apply shape_refl|].
  destruct (o_body o); unfold step_body.
  - destruct (has_name s (snd f)); simpl; [apply shape_refl|].
    eapply shape_trans; [|apply add_types_shape].
    destruct default.
    + eapply shape_trans; apply shape_set_flat.
    + destruct (alookup ty _); [eapply shape_trans; apply shape_set_flat | apply shape_set_flat].
  - destruct (has_name s (snd o0)); simpl; [apply shape_refl|].
    eapply shape_trans; [apply shape_set_flat | apply add_types_shape].
  - destruct (has_name s name); simpl; [apply shape_refl|].
    eapply shape_trans; [apply shape_set_nest | apply add_types_shape].
  - destruct is_true; simpl; [apply shape_refl | apply shape_set_flat].
  - match goal with |- context [tstore_add ?a ?b ?c ?d] => destruct (tstore_add a b c d) as [[[effs asg] incdec] accepted] end. simpl.
    eapply shape_trans; [eapply shape_trans|]; apply shape_set_nest.
  - apply shape_set_nest.
  - apply shape_set_flat.
  - apply shape_set_flat.
  - apply shape_set_flat.
  - destruct (alookup name (nest s N_ACTIONS)); [|apply shape_refl].
    match goal with |- context [tstore_add ?a ?b ?c ?d] => destruct (tstore_add a b c d) as [[[effs asg] incdec] accepted] end. simpl. apply shape_set_nest.
  - destruct (alookup name (nest s N_ACTIONS)); [|apply shape_refl]. simpl. apply shape_set_nest.
  - apply shape_set_scal.
Qed.

(* ------------------------------------------------------------------ one call *)
Lemma abs_lengths h p : length (s_flat (abs h p)) = length (o_flat p) /\ length (s_nest (abs h p)) = length (o_nest p).
Proof. unfold abs; simpl. rewrite !map_length. split; reflexivity. Qed.

Lemma hstep_spec h p q o h' p' out :
  wf h p -> wf h q -> disjoint (footprint h p) (footprint h q) ->
  hstep h p o = (h', p', out) ->
  abs h' p' = fst (step (abs h p) o) /\ out = snd (step (abs h p) o) /\
  abs h' q = abs h q /\ wf h' p' /\ wf h' q /\ disjoint (footprint h' p') (footprint h' q).
Proof.
  intros Wp Wq Dj H. unfold hstep in H.
  pose proof (step_shape (abs h p) o) as [Sf Sn].
  destruct (step (abs h p) o) as [s' out'] eqn:Es. simpl in *. inversion H; subst h' p' out. clear H.
  rewrite map_length in Sf, Sn.
  destruct (sync_spec h p s' Wp Sf Sn) as (A & W' & _ & _ & _).
  destruct (sync_frame h p s' q Wp Wq Dj Sf Sn) as (Aq & Wq' & Dj').
  unfold retag in *. splits; try assumption; reflexivity.
Qed.

Lemma disjoint_sym l1 l2 : disjoint l1 l2 -> disjoint l2 l1.
Proof. intros H a H2 H1. exact (H a H1 H2). Qed.

(* ------------------------------------------------------------------ two problems, any interleaving *)
Definition Inv (w : world) (sp sc : pstate) : Prop :=
  wf (w_heap w) (w_p w) /\ wf (w_heap w) (w_c w) /\
  disjoint (footprint (w_heap w) (w_p w)) (footprint (w_heap w) (w_c w)) /\
  abs (w_heap w) (w_p w) = sp /\ abs (w_heap w) (w_c w) = sc.

Lemma wstep_inv w sp sc sd o w' out :
  Inv w sp sc -> wstep w (sd, o) = (w', out) ->
  match sd with
  | SOrig => Inv w' (fst (step sp o)) sc /\ out = snd (step sp o)
  | SClone => Inv w' sp (fst (step sc o)) /\ out = snd (step sc o)
  end.
Proof.
  intros (Wp & Wc & Dj & Ap & Ac) H. unfold wstep in H. simpl in H. destruct sd.
  - destruct (hstep (w_heap w) (w_p w) o) as [[h1 p1] out1] eqn:E. inversion H; subst w' out. clear H.
    destruct (hstep_spec _ _ _ _ _ _ _ Wp Wc Dj E) as (A1 & O1 & A2 & W1 & W2 & D1).
    subst sp sc. unfold Inv; simpl. splits; assumption.
  - destruct (hstep (w_heap w) (w_c w) o) as [[h1 c1] out1] eqn:E. inversion H; subst w' out. clear H.
    destruct (hstep_spec _ _ _ _ _ _ _ Wc Wp (disjoint_sym _ _ Dj) E) as (A1 & O1 & A2 & W1 & W2 & D1).
    subst sp sc. unfold Inv; simpl. splits; try assumption. apply disjoint_sym; exact D1.
Qed.

Theorem wrun_sim : forall tr w sp sc, Inv w sp sc ->
  Inv (fst (wrun w tr)) (fst (prun sp (proj SOrig tr))) (fst (prun sc (proj SClone tr))) /\
  proj_out SOrig tr (snd (wrun w tr)) = snd (prun sp (proj SOrig tr)) /\
  proj_out SClone tr (snd (wrun w tr)) = snd (prun sc (proj SClone tr)) /\
  length (snd (wrun w tr)) = length tr.
Proof.
  induction tr as [|[sd o] r IH]; intros w sp sc I; simpl.
  - splits; try reflexivity; apply I.
  - destruct (wstep w (sd, o)) as [w1 out] eqn:E.
    pose proof (wstep_inv _ _ _ _ _ _ _ I E) as S.
    destruct (wrun w1 r) as [w2 outs] eqn:Er. simpl.
    unfold proj in *. simpl. destruct sd; simpl.
    + destruct S as [I1 O1]. specialize (IH w1 _ _ I1). rewrite Er in IH. simpl in IH.
      destruct IH as (I2 & P1 & P2 & L).
      destruct (step sp o) as [s1 o1]; simpl in *.
      destruct (prun s1 _) as [s2 os] eqn:Ep; simpl in *.
      splits; try assumption; [subst; f_equal; exact P1 | lia].
    + destruct S as [I1 O1]. specialize (IH w1 _ _ I1). rewrite Er in IH. simpl in IH.
      destruct IH as (I2 & P1 & P2 & L).
      destruct (step sc o) as [s1 o1]; simpl in *.
      destruct (prun s1 _) as [s2 os] eqn:Ep; simpl in *.
      splits; try assumption; [subst; f_equal; exact P2 | lia].
Qed.

Lemma clone_world_inv h p : wf h p -> Inv (clone_world h p) (abs h p) (abs h p).
Proof.
  intros W. unfold clone_world. destruct (hclone h p) as [h' c] eqn:E.
  destruct (hclone_spec _ _ _ _ W E) as (A1 & A2 & W1 & W2 & D). unfold Inv; simpl. splits; assumption.
Qed.

(* ---- the statements used by Props/C22.v *)

(* clone() returns a problem with the same content, leaves the original as it was, shares no container *)
Theorem clone_equal h p : wf h p ->
  let w := clone_world h p in
  abs (w_heap w) (w_c w) = abs h p /\ abs (w_heap w) (w_p w) = abs h p /\
  wf (w_heap w) (w_p w) /\ wf (w_heap w) (w_c w) /\
  disjoint (footprint (w_heap w) (w_p w)) (footprint (w_heap w) (w_c w)).
Proof. intros W. destruct (clone_world_inv h p W) as (A & B & C & D & E). cbv zeta. splits; assumption. Qed.

(* any interleaving of calls on the original and on the clone: each one evolves exactly as if it were alone *)
Theorem clone_simulation h p tr : wf h p ->
  let r := wrun (clone_world h p) tr in
  abs (w_heap (fst r)) (w_p (fst r)) = fst (prun (abs h p) (proj SOrig tr)) /\
  abs (w_heap (fst r)) (w_c (fst r)) = fst (prun (abs h p) (proj SClone tr)) /\
  proj_out SOrig tr (snd r) = snd (prun (abs h p) (proj SOrig tr)) /\
  proj_out SClone tr (snd r) = snd (prun (abs h p) (proj SClone tr)) /\
  wf (w_heap (fst r)) (w_p (fst r)) /\ wf (w_heap (fst r)) (w_c (fst r)).
Proof.
  intros W. cbv zeta. destruct (wrun_sim tr _ _ _ (clone_world_inv h p W)) as ((Wp & Wc & _ & Ap & Ac) & P1 & P2 & _).
  splits; assumption.
Qed.

Lemma proj_both sd ops : proj sd (both ops) = ops.
Proof. unfold proj, both. induction ops as [|o r IH]; simpl; [reflexivity|]. destruct sd; simpl; f_equal; exact IH. Qed.

(* the same calls on both: same outcome for every call, same content afterwards *)
Theorem clone_same_outcomes h p ops : wf h p ->
  let r := wrun (clone_world h p) (both ops) in
  proj_out SClone (both ops) (snd r) = proj_out SOrig (both ops) (snd r) /\
  proj_out SOrig (both ops) (snd r) = snd (prun (abs h p) ops) /\
  abs (w_heap (fst r)) (w_c (fst r)) = abs (w_heap (fst r)) (w_p (fst r)) /\
  abs (w_heap (fst r)) (w_p (fst r)) = fst (prun (abs h p) ops).
Proof.
  intros W. cbv zeta. destruct (clone_simulation h p (both ops) W) as (A1 & A2 & P1 & P2 & _). cbv zeta in *.
  rewrite !proj_both in *. splits; congruence.
Qed.

(* what happens to one problem does not depend on what is done to the other *)
Theorem clone_independent h p tr1 tr2 sd : wf h p -> proj sd tr1 = proj sd tr2 ->
  let r1 := wrun (clone_world h p) tr1 in
  let r2 := wrun (clone_world h p) tr2 in
  proj_out sd tr1 (snd r1) = proj_out sd tr2 (snd r2) /\
  match sd with
  | SOrig => abs (w_heap (fst r1)) (w_p (fst r1)) = abs (w_heap (fst r2)) (w_p (fst r2))
  | SClone => abs (w_heap (fst r1)) (w_c (fst r1)) = abs (w_heap (fst r2)) (w_c (fst r2))
  end.
Proof.
  intros W E. cbv zeta.
  destruct (clone_simulation h p tr1 W) as (A1 & A2 & P1 & P2 & _).
  destruct (clone_simulation h p tr2 W) as (B1 & B2 & Q1 & Q2 & _). cbv zeta in *.
  destruct sd; split; congruence.
Qed.

(* ------------------------------------------------------------------ == is reflexive, so equal content gives == *)
Lemma val_eqb_refl v : val_eqb v v = true.
Proof. unfold val_eqb. rewrite !N.eqb_refl. reflexivity. Qed.

Lemma set_eqb_refl l : set_eqb l l = true.
Proof.
  unfold set_eqb. assert (H : forallb (fun x => existsb (val_eqb x) l) l = true).
  { apply forallb_forall. intros x Hx. apply existsb_exists. exists x. split; [exact Hx | apply val_eqb_refl]. }
  rewrite H. reflexivity.
Qed.

Lemma optN_eqb_refl o : optN_eqb o o = true.
Proof. destruct o; simpl; [apply N.eqb_refl | reflexivity]. Qed.

Lemma dict_eqb_refl d : dict_eqb d d = true.
Proof.
  unfold dict_eqb. rewrite Nat.eqb_refl.
  assert (H : forallb (fun kv : N * N => optN_eqb (alookup (fst kv) d) (alookup (fst kv) d)) d = true).
  { apply forallb_forall. intros x _. apply optN_eqb_refl. }
  rewrite H. reflexivity.
Qed.

Lemma keyed_sets_eqb_refl {A} (f : A -> list val) l : keyed_sets_eqb f l l = true.
Proof.
  unfold keyed_sets_eqb. rewrite Nat.eqb_refl.
  match goal with |- context [forallb ?g l] => assert (H : forallb g l = true) end.
  { apply forallb_forall. intros x _. destruct (alookup (fst x) l); [apply set_eqb_refl | reflexivity]. }
  rewrite H. reflexivity.
Qed.

Lemma acts_eqb_refl l : acts_eqb l l = true.
Proof.
  unfold acts_eqb.
  match goal with |- context [forallb ?g l] => assert (H : forallb g l = true) end.
  { apply forallb_forall. intros x Hx. apply existsb_exists. exists x. split; [exact Hx|].
    unfold act_eqb. rewrite N.eqb_refl, !keyed_sets_eqb_refl. reflexivity. }
  rewrite H. reflexivity.
Qed.

Theorem peq_refl kind iv s : peq kind iv s s = true.
Proof.
  unfold peq. rewrite !N.eqb_refl, !set_eqb_refl, dict_eqb_refl, acts_eqb_refl, !keyed_sets_eqb_refl. reflexivity.
Qed.

(* ------------------------------------------------------------------ the two open findings, on the faithful model *)
(* a problem with one instantaneous action (name 20) and nothing else *)
Definition one_action_state : pstate :=
  {| s_scal := [1; 0; 0; 0]%N;
     s_flat := [CList []; CList []; CList [(7, 3)%N]; CDict []; CDict []; CDict []; CList []; CList [];
                CList []; CList []; CList []; CDict []];
     s_nest := [ [(20%N, CAct {| a_static := 30; a_sim := []; a_effs := [(0%N, [])]; a_asg := [(0%N, [])];
                                 a_incdec := [(0%N, [])]; a_ceffs := [] |})]; []; []; []; [] ] |}.
Definition an_effect : op :=
  {| o_pre := None; o_body := OActEffect 20 0 {| e_id := 41; e_fl := 7; e_val := 50; e_kind := EAssign; e_skip := false |} |}.

(* HTN: the problem above plus one method (name 70) whose single subtask (identifier 71) runs the action object.
   After c = p.clone(), add_effect on the ORIGINAL's action is visible through the CLONE's methods. *)
Lemma htn_methods_alias_original_actions :
  exists h hp o,
    wf h (h_prob hp) /\
    let (h1, hc) := hclone_htn h hp in
    let '(h2, _, out) := hstep h1 (h_prob hp) o in
    out = Ok /\ methods_view h2 (h_methods hc) <> methods_view h1 (h_methods hc).
Proof.
  pose (hp0 := load one_action_state).
  (* address of the action object: the only inner cell of the _actions list *)
  pose (act_addr := match inner (fst hp0) (nth N_ACTIONS (o_nest (snd hp0)) 0) with a :: _ => a | [] => 0 end).
  pose (h := fst hp0 ++ [CRefs [(71%N, act_addr)]; CRefs [(70%N, length (fst hp0))]]).
  exists h, {| h_prob := snd hp0; h_methods := S (length (fst hp0)) |}, an_effect.
  split; [apply wfb_wf; vm_compute; reflexivity|].
  vm_compute. split; [reflexivity | discriminate].
Qed.

(* an original with INTERNAL aliasing (one action object reachable from two action lists, as when the same Action is
   added to two agents of a MultiAgentProblem): clone() gives each list its own copy, and the same add_effect applied to
   both problems then leaves them different.  [wf] is exactly what excludes this. *)
Lemma aliased_original_diverges :
  exists h p ops,
    ~ NoDup (footprint h p) /\
    let r := wrun (clone_world h p) (both ops) in
    snd r = [Ok; Ok] /\
    abs (w_heap (fst r)) (w_c (fst r)) <> abs (w_heap (fst r)) (w_p (fst r)).
Proof.
  (* cells: 0 = the action; 1 = first list (agent r1's actions), 2 = second list (agent r2's), both holding address 0 *)
  exists [CAct {| a_static := 30; a_sim := []; a_effs := [(0%N, [])]; a_asg := [(0%N, [])]; a_incdec := [(0%N, [])]; a_ceffs := [] |};
          CRefs [(20%N, 0)]; CRefs [(20%N, 0)]],
         {| o_scal := [1; 0; 0; 0]%N; o_flat := []; o_nest := [1; 2] |}, [an_effect].
  split.
  - vm_compute. intros H. inversion H as [|? ? _ H1]; subst. inversion H1 as [|? ? _ H2]; subst.
    inversion H2 as [|? ? Hn _]; subst. apply Hn. left; reflexivity.
  - vm_compute. split; [reflexivity | discriminate].
Qed.
