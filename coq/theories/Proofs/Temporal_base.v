(* Dense-time facts used by the temporal proofs: order automation on Qc, midpoints, "the state in force at an
   instant", and the exactness of the model of _states_in_interval (C05, first core lemma). *)
From Coq Require Import List ZArith NArith QArith Qcanon Bool Lia Lqa.
Import ListNotations.
Require Import UPV.Core.Expr UPV.Core.Eval UPV.Core.Interp UPV.Planning.Problem UPV.Planning.Sem.
Require Import UPV.Planning.Temporal UPV.Planning.TTValidate.
Require Import UPV.Proofs.Eval_lemmas.
Local Open Scope Qc_scope.

Ltac qco := cbn [fst snd] in *; unfold Qclt, Qcle in *; lra.

Lemma qc_ltb_false (a b : Qc) : qc_ltb a b = false <-> b <= a.
Proof.
  split; intros H.
  - apply Qcnot_lt_le. intros L. apply qc_ltb_lt in L. congruence.
  - destruct (qc_ltb a b) eqn:E; [|reflexivity]. apply qc_ltb_lt in E. qco.
Qed.
Lemma qc_leb_false (a b : Qc) : qc_leb a b = false <-> b < a.
Proof.
  split; intros H.
  - apply Qcnot_le_lt. intros L. apply qc_leb_le in L. congruence.
  - destruct (qc_leb a b) eqn:E; [|reflexivity]. apply qc_leb_le in E. qco.
Qed.
Lemma qc_eqb_false (a b : Qc) : qc_eqb a b = false <-> a <> b.
Proof.
  split; intros H.
  - intros E. apply qc_eqb_eq in E. congruence.
  - destruct (qc_eqb a b) eqn:E; [|reflexivity]. apply qc_eqb_eq in E. contradiction.
Qed.

(* turn every boolean comparison in the context / goal into a proposition *)
Ltac qb :=
  repeat match goal with
  | H : qc_ltb _ _ = true |- _ => apply qc_ltb_lt in H
  | H : qc_ltb _ _ = false |- _ => apply qc_ltb_false in H
  | H : qc_leb _ _ = true |- _ => apply qc_leb_le in H
  | H : qc_leb _ _ = false |- _ => apply qc_leb_false in H
  | H : qc_eqb _ _ = true |- _ => apply qc_eqb_eq in H
  | H : qc_eqb _ _ = false |- _ => apply qc_eqb_false in H
  | H : _ && _ = true |- _ => apply andb_true_iff in H; destruct H
  | H : negb _ = true |- _ => apply negb_true_iff in H
  | H : negb _ = false |- _ => apply negb_false_iff in H
  end.

Lemma Qc_total (a b : Qc) : a < b \/ a = b \/ b < a.
Proof. destruct (Qc_dec a b) as [[H|H]|H]; auto. Qed.

Lemma mid_lt (a b : Qc) : a < b -> a < mid a b /\ mid a b < b.
Proof.
  intros H. unfold mid, two, Qcdiv, Qcmult, Qcplus, Qcinv, zq, Qclt in *. cbn [this Q2Qc].
  rewrite !Qred_correct.
  split; setoid_replace (/ inject_Z 2)%Q with (1#2)%Q by reflexivity; lra.
Qed.

Lemma plus1_lt (a : Qc) : a < a + zq 1.
Proof. unfold Qclt, Qcplus, zq. cbn [this Q2Qc]. rewrite !Qred_correct. change (inject_Z 1) with 1%Q. lra. Qed.

Lemma minus1_lt0 : minus1 < zq 0.
Proof. unfold minus1, zq, Qclt. cbn. lra. Qed.

(* ------------------------------------------------------------------ the next key after a point *)
(* either no key of the list lies after p, or there is a least one *)
Lemma next_key (ks : list Qc) (p : Qc) :
  (forall x, In x ks -> x <= p) \/ (exists m, In m ks /\ p < m /\ forall x, In x ks -> p < x -> m <= x).
Proof.
  induction ks as [|k ks IH]; [left; intros x []|].
  destruct IH as [IH|[m [Hm [Hpm Hmin]]]].
  - destruct (Qclt_le_dec p k) as [L|L].
    + right. exists k. split; [left; reflexivity|]. split; [exact L|].
      intros x [<-|Hx] Hpx; [apply Qcle_refl|]. specialize (IH x Hx). qco.
    + left. intros x [<-|Hx]; [exact L | apply IH, Hx].
  - right. destruct (Qclt_le_dec p k) as [L|L].
    + destruct (Qclt_le_dec k m) as [L2|L2].
      * exists k. split; [left; reflexivity|]. split; [exact L|].
        intros x [<-|Hx] Hpx; [apply Qcle_refl|]. specialize (Hmin x Hx Hpx). qco.
      * exists m. split; [right; exact Hm|]. split; [exact Hpm|].
        intros x [<-|Hx] Hpx; [exact L2 | apply Hmin; assumption].
    + exists m. split; [right; exact Hm|]. split; [exact Hpm|].
      intros x [<-|Hx] Hpx; [qco | apply Hmin; assumption].
Qed.

(* dense time: right after any point p and below any later bound there is an instant with no key in between *)
Lemma instant_after (ks : list Qc) (p : Qc) (h : option Qc) :
  match h with Some e => p < e | None => True end ->
  exists u, p < u /\ match h with Some e => u < e | None => True end /\ forall y, In y ks -> y < u -> y <= p.
Proof.
  intros Hh. destruct (next_key ks p) as [N|[m [Hm [Hpm Hmin]]]].
  - destruct h as [e|].
    + exists (mid p e). destruct (mid_lt p e Hh) as [A B]. split; [exact A|]. split; [exact B|].
      intros y Hy _. apply N, Hy.
    + exists (p + zq 1). split; [apply plus1_lt|]. split; [exact I|]. intros y Hy _. apply N, Hy.
  - destruct h as [e|].
    + destruct (Qclt_le_dec m e) as [L|L].
      * exists (mid p m). destruct (mid_lt p m Hpm) as [A B]. split; [exact A|]. split; [qco|].
        intros y Hy Hyu. destruct (Qclt_le_dec p y) as [L3|L3]; [|exact L3].
        specialize (Hmin y Hy L3). qco.
      * exists (mid p e). destruct (mid_lt p e Hh) as [A B]. split; [exact A|]. split; [exact B|].
        intros y Hy Hyu. destruct (Qclt_le_dec p y) as [L3|L3]; [|exact L3].
        specialize (Hmin y Hy L3). qco.
    + exists (mid p m). destruct (mid_lt p m Hpm) as [A B]. split; [exact A|]. split; [exact I|].
      intros y Hy Hyu. destruct (Qclt_le_dec p y) as [L3|L3]; [|exact L3].
      specialize (Hmin y Hy L3). qco.
Qed.

(* ------------------------------------------------------------------ in force *)
Definition keys (tr : trace) : list Qc := map fst tr.

(* the entry with key x is the one in force at instant u: x is the last key strictly before u *)
Definition in_force (tr : trace) (x u : Qc) : Prop :=
  x < u /\ forall y, In y (keys tr) -> y < u -> y <= x.

(* ------------------------------------------------------------------ the scan of _states_in_interval *)
Section Scan.
  Variable start : Qc.
  Variable end_ : option Qc.

  Definition inside (x : Qc) : bool :=
    qc_ltb start x && match end_ with None => true | Some e => qc_ltb x e end.

  Lemma scan_spec (ks : list Qc) : forall bt et ins,
    let '(bt', et', ins') := fold_left (scan_step start end_) ks (bt, et, ins) in
    ins' = ins ++ filter inside ks /\
    (bt' = bt \/ In bt' ks /\ bt' < start) /\ bt <= bt' /\ (forall x, In x ks -> x < start -> x <= bt') /\
    (et' = et \/ In et' ks /\ et' <= start) /\ et <= et' /\ (forall x, In x ks -> x <= start -> x <= et').
  Proof.
    induction ks as [|k ks IH]; intros bt et ins.
    - cbn. rewrite app_nil_r. repeat split; auto; try apply Qcle_refl; intros x [].
    - cbn [fold_left]. unfold scan_step at 2. fold (inside k).
      set (bt1 := if qc_ltb k start && qc_ltb bt k then k else bt).
      set (et1 := if qc_leb k start && qc_ltb et k then k else et).
      set (ins1 := if inside k then ins ++ [k] else ins).
      specialize (IH bt1 et1 ins1).
      destruct (fold_left (scan_step start end_) ks (bt1, et1, ins1)) as [[bt' et'] ins'].
      destruct IH as (I1 & I2 & I3 & I4 & I5 & I6 & I7).
      assert (B1 : bt <= bt1 /\ (bt1 = bt \/ bt1 = k /\ k < start) /\ (k < start -> k <= bt1)).
      { unfold bt1. destruct (qc_ltb k start) eqn:E1, (qc_ltb bt k) eqn:E2; cbn; qb;
          (split; [try apply Qcle_refl; qco|]); (split; [auto|]); intros; try apply Qcle_refl; qco. }
      assert (E1' : et <= et1 /\ (et1 = et \/ et1 = k /\ k <= start) /\ (k <= start -> k <= et1)).
      { unfold et1. destruct (qc_leb k start) eqn:E1, (qc_ltb et k) eqn:E2; cbn; qb;
          (split; [try apply Qcle_refl; qco|]); (split; [auto|]); intros; try apply Qcle_refl; qco. }
      destruct B1 as (B1 & B2 & B3). destruct E1' as (F1 & F2 & F3).
      split; [|split; [|split; [|split; [|split; [|split]]]]].
      + rewrite I1. unfold ins1. cbn [filter]. destruct (inside k); [rewrite <- app_assoc|]; reflexivity.
      + destruct I2 as [->|[Hin Hlt]].
        * destruct B2 as [->|[-> Hk]]; [left; reflexivity | right; split; [left; reflexivity | exact Hk]].
        * right. split; [right; exact Hin | exact Hlt].
      + qco.
      + intros x [<-|Hx] Hlt; [specialize (B3 Hlt); qco | apply I4; assumption].
      + destruct I5 as [->|[Hin Hle]].
        * destruct F2 as [->|[-> Hk]]; [left; reflexivity | right; split; [left; reflexivity | exact Hk]].
        * right. split; [right; exact Hin | exact Hle].
      + qco.
      + intros x [<-|Hx] Hle; [specialize (F3 Hle); qco | apply I7; assumption].
  Qed.
End Scan.

(* ------------------------------------------------------------------ lookups in a trace with distinct keys *)
Lemma tlookup_In (tr : trace) x s : NoDup (keys tr) -> In (x, s) tr -> tlookup x tr = Some s.
Proof.
  induction tr as [|[y t] tr IH]; intros ND H; [destruct H|].
  cbn in *. inversion ND as [|? ? Hn ND']; subst.
  destruct H as [H|H].
  - inversion H; subst. rewrite qc_eqb_refl. reflexivity.
  - destruct (qc_eqb x y) eqn:E.
    + apply qc_eqb_eq in E. subst. exfalso. apply Hn. change y with (fst (y, s)). apply in_map, H.
    + apply IH; assumption.
Qed.

Lemma tlookup_Some (tr : trace) x s : tlookup x tr = Some s -> In (x, s) tr.
Proof.
  induction tr as [|[y t] tr IH]; cbn; [discriminate|].
  destruct (qc_eqb x y) eqn:E.
  - apply qc_eqb_eq in E. subst. intros H; inversion H; subst. left; reflexivity.
  - intros H. right. apply IH, H.
Qed.

Lemma pick_In (tr : trace) (ND : NoDup (keys tr)) x y s :
  In (y, s) (pick tr x) <-> y = x /\ In (x, s) tr.
Proof.
  unfold pick. split.
  - destruct (tlookup x tr) as [t|] eqn:E; [|intros []].
    intros [H|[]]. inversion H; subst. split; [reflexivity | apply tlookup_Some, E].
  - intros [-> H]. rewrite (tlookup_In tr x s ND H). left; reflexivity.
Qed.

(* ------------------------------------------------------------------ first core lemma *)
(* The model of _states_in_interval returns exactly the trace entries in force at some instant of the interval
   [start, end] / (start, end] (end = None: no upper bound), whatever the openness of the upper end: in dense time
   a right-open and a right-closed non-empty interval contain the same states.  [tr] is the validator's trace: it
   contains the entry of the initial state under key -1 and its keys are distinct. *)
Theorem states_in_interval_exact (tr : trace) (iv : ainterval) :
  NoDup (keys tr) -> In minus1 (keys tr) -> zq 0 <= ai_lo iv -> iv_nonempty iv = true ->
  forall x s,
    In (x, s) (states_in_interval tr (ai_lo iv) (ai_hi iv) (ai_lopen iv)) <->
    In (x, s) tr /\ exists u, in_iv iv u /\ in_force tr x u.
Proof.
  intros ND Hm1 Hlo0 NE x s.
  destruct iv as [lo hi lopen ropen]. cbn [ai_lo ai_hi ai_lopen ai_ropen] in *.
  unfold states_in_interval.
  pose proof (scan_spec lo hi (map fst tr) minus1 minus1 []) as SP.
  destruct (fold_left (scan_step lo hi) (map fst tr) (minus1, minus1, [])) as [[bt et] ins].
  destruct SP as (S1 & S2 & S3 & S4 & S5 & S6 & S7). cbn [app] in S1.
  fold (keys tr) in *.
  assert (M1 : minus1 < lo) by (pose proof minus1_lt0; qco).
  assert (Bin : In bt (keys tr) /\ bt < lo).
  { destruct S2 as [->|[A B]]; [split; [exact Hm1 | exact M1] | split; assumption]. }
  assert (Ein : In et (keys tr) /\ et <= lo).
  { destruct S5 as [->|[A B]]; [split; [exact Hm1 | qco] | split; assumption]. }
  destruct Bin as [Bin Blt]. destruct Ein as [Ein Ele].
  (* et = bt exactly when no key equals lo *)
  assert (EB : qc_eqb et bt = true <-> ~ In lo (keys tr)).
  { rewrite qc_eqb_eq. split.
    - intros -> Hin. specialize (S7 lo Hin (Qcle_refl _)). qco.
    - intros Hn. apply Qcle_antisym.
      + apply S4; [exact Ein|]. destruct (Qcle_lt_or_eq _ _ Ele) as [L|E]; [exact L | subst; contradiction].
      + apply S7; [exact Bin | qco]. }
  assert (EL : qc_eqb et bt = false -> et = lo).
  { intros E. destruct (Qcle_lt_or_eq _ _ Ele) as [L|E2]; [|exact E2].
    exfalso. apply qc_eqb_false in E. apply E. apply Qcle_antisym; [apply S4; assumption | apply S7; [exact Bin | qco]]. }
  assert (NEh : match hi with Some h => lo < h \/ (lo = h /\ lopen = false /\ ropen = false) | None => True end).
  { unfold iv_nonempty in NE. cbn in NE. destruct hi as [h|]; [|exact I].
    apply orb_true_iff in NE. destruct NE as [H|H]; qb; [left; exact H | right].
    destruct lopen, ropen; try discriminate; auto. }
  assert (INS : forall y, In y ins <-> In y (keys tr) /\ lo < y /\ match hi with Some h => y < h | None => True end).
  { intros y. rewrite S1, filter_In. unfold inside. split.
    - intros [A B]. split; [exact A|]. destruct hi as [h|]; qb; auto.
    - intros [A [B C]]. split; [exact A|]. apply andb_true_iff. split; [apply qc_ltb_lt, B|].
      destruct hi as [h|]; [apply qc_ltb_lt, C | reflexivity]. }
  unfold in_iv, in_force. cbn [ai_lo ai_hi ai_lopen ai_ropen].
  rewrite !in_app_iff. split.
  - (* every returned entry is in force at an instant of the interval *)
    intros [H|[H|H]].
    + (* the entry before the lower bound *)
      destruct (negb lopen || (qc_eqb et bt && negb (opt_qc_eqb hi lo))) eqn:C; [|destruct H].
      apply (pick_In tr ND) in H. destruct H as [-> H]. split; [exact H|].
      destruct lopen; cbn in C.
      * (* left-open, no key at lo, lo <> end: an instant right after lo *)
        apply andb_true_iff in C. destruct C as [C1 C2]. apply EB in C1.
        assert (Hlt : match hi with Some e => lo < e | None => True end).
        { destruct hi as [h|]; [|exact I]. destruct NEh as [L|[E _]]; [exact L|].
          subst. cbn in C2. rewrite qc_eqb_refl in C2. discriminate. }
        destruct (instant_after (keys tr) lo hi Hlt) as [u [U1 [U2 U3]]].
        exists u. split; [split; [exact U1 | destruct hi as [h|]; [destruct ropen; qco | exact I]]|].
        split; [qco|]. intros y Hy Hyu. specialize (U3 y Hy Hyu).
        apply S4; [exact Hy|]. destruct (Qcle_lt_or_eq _ _ U3) as [L|E]; [exact L | subst; contradiction].
      * (* left-closed: the instant lo itself *)
        exists lo. split; [split; [apply Qcle_refl|]|].
        -- destruct hi as [h|]; [|exact I]. destruct NEh as [L|[E [_ R]]]; [destruct ropen; qco | subst; apply Qcle_refl].
        -- split; [exact Blt|]. intros y Hy Hyl. apply S4; assumption.
    + (* the entry at the lower bound *)
      destruct (negb (qc_eqb et bt) && negb (opt_qc_eqb hi et)) eqn:C; [|destruct H].
      apply (pick_In tr ND) in H. destruct H as [-> H]. split; [exact H|].
      apply andb_true_iff in C. destruct C as [C1 C2]. apply negb_true_iff in C1. specialize (EL C1). subst et.
      assert (Hlt : match hi with Some e => lo < e | None => True end).
      { destruct hi as [h|]; [|exact I]. destruct NEh as [L|[E _]]; [exact L|].
        subst. cbn in C2. rewrite qc_eqb_refl in C2. discriminate. }
      destruct (instant_after (keys tr) lo hi Hlt) as [u [U1 [U2 U3]]].
      exists u. split; [split; [destruct lopen; qco | destruct hi as [h|]; [destruct ropen; qco | exact I]]|].
      split; [exact U1 | exact U3].
    + (* an entry strictly inside *)
      apply in_flat_map in H. destruct H as [y [Hy H]]. apply (pick_In tr ND) in H. destruct H as [-> H].
      split; [exact H|]. apply INS in Hy. destruct Hy as [Hk [Hly Hyh]].
      destruct (instant_after (keys tr) y hi Hyh) as [u [U1 [U2 U3]]].
      exists u. split; [split; [destruct lopen; qco | destruct hi as [h|]; [destruct ropen; qco | exact I]]|].
      split; [exact U1 | exact U3].
  - (* every entry in force at an instant of the interval is returned *)
    intros [Hin [u [[L U] [Xu F]]]].
    assert (Hk : In x (keys tr)) by (change x with (fst (x, s)); apply in_map, Hin).
    assert (Uh : match hi with Some h => u <= h | None => True end).
    { destruct hi as [h|]; [destruct ropen; qco | exact I]. }
    destruct (Qc_total x lo) as [Lx|[Ex|Gx]].
    + (* x < lo: x = bt *)
      assert (Lu : lo <= u) by (destruct lopen; qco).
      assert (Exb : x = bt).
      { apply Qcle_antisym; [apply S4; assumption | apply F; [exact Bin | qco]]. }
      subst x. left.
      assert (C : negb lopen || (qc_eqb et bt && negb (opt_qc_eqb hi lo)) = true).
      { destruct lopen; [|reflexivity]. cbn. apply andb_true_iff. split.
        - apply EB. intros Hlo. specialize (F lo Hlo L). qco.
        - destruct hi as [h|]; [|reflexivity]. cbn. apply negb_true_iff, qc_eqb_false. intros ->. qco. }
      rewrite C. apply (pick_In tr ND). split; [reflexivity | exact Hin].
    + (* x = lo: x = et, different from bt *)
      subst x. right; left.
      assert (Eet : et = lo) by (apply Qcle_antisym; [exact Ele | apply S7; [exact Hk | apply Qcle_refl]]).
      assert (C : negb (qc_eqb et bt) && negb (opt_qc_eqb hi et) = true).
      { apply andb_true_iff. split.
        - apply negb_true_iff, qc_eqb_false. subst et. intros E. rewrite <- E in Blt. qco.
        - destruct hi as [h|]; [|reflexivity]. cbn. apply negb_true_iff, qc_eqb_false. subst et. intros ->. qco. }
      rewrite C. apply (pick_In tr ND). split; [symmetry; exact Eet | rewrite Eet; exact Hin].
    + (* lo < x: strictly inside *)
      right; right. apply in_flat_map. exists x. split.
      * apply INS. split; [exact Hk|]. split; [exact Gx|]. destruct hi as [h|]; [qco | exact I].
      * apply (pick_In tr ND). split; [reflexivity | exact Hin].
Qed.
