(* C22: the regenerated clone()/__init__ attribute tables (Gen/Gen_Clone.v) - finite tables, decided by computation. *)
From Coq Require Import List Bool String.
Import ListNotations.
Require Import UPV.Model.Clone UPV.Gen.Gen_Clone.
Open Scope string_scope.

Lemma mem_pair_In x l : mem_pair x l = true -> In x l.
Proof.
  unfold mem_pair. intros H. apply existsb_exists in H. destruct H as [y [Hy E]].
  unfold pair_eqb in E. apply andb_true_iff in E. destruct E as [E1 E2].
  apply String.eqb_eq in E1. apply String.eqb_eq in E2. destruct x, y; simpl in *; subst. exact Hy.
Qed.

Definition mem_str (x : string) (l : list string) : bool := existsb (String.eqb x) l.
Lemma mem_str_In x l : mem_str x l = true -> In x l.
Proof.
  unfold mem_str. intros H. apply existsb_exists in H. destruct H as [y [Hy E]]. apply String.eqb_eq in E. subst. exact Hy.
Qed.
Definition incl_str (a b : list string) : bool := forallb (fun x => mem_str x b) a.
Lemma incl_str_incl a b : incl_str a b = true -> forall x, In x a -> In x b.
Proof. unfold incl_str. intros H x Hx. rewrite forallb_forall in H. apply mem_str_In, H, Hx. Qed.

(* every attribute initialised by __init__ is written by clone() or is immutable / shared by design *)
Lemma clone_copies_every_field : forall cf, In cf all_fields -> covered cf = true.
Proof. apply forallb_forall. vm_compute. reflexivity. Qed.

(* clone() writes no attribute that __init__ does not know *)
Lemma cloned_fields_declared : forall cf, In cf cloned_fields -> In cf all_fields.
Proof.
  intros cf H. apply mem_pair_In. revert cf H. apply forallb_forall. vm_compute. reflexivity.
Qed.

(* the attributes of the behavioural model (Model/Clone.v) are exactly the attributes Problem.clone() writes *)
Definition model_fields : list string := Fields.scal_fields ++ Fields.flat_fields ++ Fields.nest_fields.
Lemma model_fields_match : forall f, In f (cloned_of "Problem") <-> In f model_fields.
Proof.
  intros f. split; apply incl_str_incl; vm_compute; reflexivity.
Qed.

(* ContingentProblem.clone and HierarchicalProblem.clone write every attribute Problem.clone writes (they call
   Problem._clone_to), so the behavioural model covers their Problem part *)
Lemma subclasses_clone_problem_fields : forall f, In f (cloned_of "Problem") ->
  In f (cloned_of "ContingentProblem") /\ In f (cloned_of "HierarchicalProblem").
Proof.
  intros f H. split; revert f H; apply incl_str_incl; vm_compute; reflexivity.
Qed.

(* every attribute declared as a container of containers / of mutable objects is copied as deeply as it is declared
   (a shallow `dict.copy()` of a dict of lists would share the lists), or is in the justified shallow list *)
Lemma nested_fields_copied_deeply : forall r, In r required_depth -> deep_enough r = true.
Proof. apply forallb_forall. vm_compute. reflexivity. Qed.

Definition triple_eqb (a b : string * string * nat) : bool := pair_eqb (fst a) (fst b) && Nat.eqb (snd a) (snd b).
Lemma mem_triple_In x l : existsb (triple_eqb x) l = true -> In x l.
Proof.
  intros H. apply existsb_exists in H. destruct H as [y [Hy E]]. unfold triple_eqb, pair_eqb in E.
  apply andb_true_iff in E. destruct E as [E1 E3]. apply andb_true_iff in E1. destruct E1 as [E1 E2].
  apply String.eqb_eq in E1. apply String.eqb_eq in E2. apply PeanoNat.Nat.eqb_eq in E3.
  destruct x as [[a b] c], y as [[a' b'] c']; simpl in *; subst. exact Hy.
Qed.
