(* Preservation of the side conditions ([qfree], [wfx]) by substitution and by the simplifier. *)
From Coq Require Import List ZArith NArith QArith Qcanon Bool Lia.
Import ListNotations.
Require Import UPV.Core.Expr UPV.Core.Eval UPV.Proofs.Eval_lemmas UPV.Walkers.Simplify UPV.Proofs.Simplify_base
  UPV.Proofs.Simplify_fv UPV.Proofs.Simplify_sem UPV.Proofs.Simplify_wf.
Local Open Scope nat_scope.

(* ---------------------------------------------------------------- predicates that are computed node by node *)
Record comp (P : expr -> bool) : Prop := {
  c_const : forall c, is_const c = true -> P c = true;
  c_and : forall l, P (EAnd l) = forallb P l;
  c_or : forall l, P (EOr l) = forallb P l;
  c_plus : forall l, P (EPlus l) = forallb P l;
  c_times : forall l, P (ETimes l) = forallb P l;
  c_not : forall a, P (ENot a) = P a;
  c_implies : forall a b, P (EImplies a b) = P a && P b;
  c_iff : forall a b, P (EIff a b) = P a && P b;
  c_minus : forall a b, P (EMinus a b) = P a && P b;
  c_div : forall a b, P (EDiv a b) = P a && P b;
  c_le : forall a b, P (ELe a b) = P a && P b;
  c_lt : forall a b, P (ELt a b) = P a && P b;
  c_equals : forall a b, P (EEquals a b) = P a && P b;
  c_always : forall a, P (EAlways a) = P a;
  c_sometime : forall a, P (ESometime a) = P a;
  c_amo : forall a, P (EAtMostOnce a) = P a;
  c_sb : forall a b, P (ESometimeBefore a b) = P a && P b;
  c_sa : forall a b, P (ESometimeAfter a b) = P a && P b
}.

Lemma comp_qfree : comp qfree.
Proof. constructor; try reflexivity. intros c; destruct c; simpl; congruence. Qed.

Lemma comp_wfx tau QT S : comp (wfx tau QT S).
Proof. constructor; try reflexivity. intros c; destruct c; simpl; congruence. Qed.

Section Comp.
  Variable P : expr -> bool.
  Hypothesis HP : comp P.

  Lemma P_bool b : P (EBool b) = true. Proof. apply (c_const _ HP). reflexivity. Qed.
  Lemma P_num n : P (num_expr n) = true. Proof. apply (c_const _ HP). destruct n; reflexivity. Qed.

  Lemma P_mkAnd l : forallb P l = true -> P (mkAnd l) = true.
  Proof.
    destruct l as [|a [|b l]]; intros H; [apply P_bool| |cbn [mkAnd]; rewrite (c_and _ HP); exact H].
    cbn in H. rewrite andb_true_r in H. exact H.
  Qed.
  Lemma P_mkOr l : forallb P l = true -> P (mkOr l) = true.
  Proof.
    destruct l as [|a [|b l]]; intros H; [apply P_bool| |cbn [mkOr]; rewrite (c_or _ HP); exact H].
    cbn in H. rewrite andb_true_r in H. exact H.
  Qed.
  Lemma P_mkPlus l : forallb P l = true -> P (mkPlus l) = true.
  Proof.
    destruct l as [|a [|b l]]; intros H; [apply (c_const _ HP); reflexivity| |cbn [mkPlus]; rewrite (c_plus _ HP); exact H].
    cbn in H. rewrite andb_true_r in H. exact H.
  Qed.
  Lemma P_mkTimes l : forallb P l = true -> P (mkTimes l) = true.
  Proof.
    destruct l as [|a [|b l]]; intros H; [apply (c_const _ HP); reflexivity| |cbn [mkTimes]; rewrite (c_times _ HP); exact H].
    cbn in H. rewrite andb_true_r in H. exact H.
  Qed.
  Lemma P_mkJ k l : forallb P l = true -> P (mkJ k l) = true.
  Proof. destruct k; [apply P_mkAnd|apply P_mkOr]. Qed.
  Lemma P_mkA t l : forallb P l = true -> P (mkA t l) = true.
  Proof. destruct t; [apply P_mkTimes|apply P_mkPlus]. Qed.
  Lemma P_mkNot a : P a = true -> P (mkNot a) = true.
  Proof. destruct a; intros H; cbn [mkNot]; rewrite ?(c_not _ HP); try exact H. rewrite (c_not _ HP) in H. exact H. Qed.

  Lemma P_walk_not c : P c = true -> P (walk_not c) = true.
  Proof.
    destruct c; intros H; cbn [walk_not]; rewrite ?(c_not _ HP); try exact H.
    - apply P_bool.
    - rewrite (c_not _ HP) in H. exact H.
  Qed.

  Lemma P_junct_args k a ss : junct_args k a = Some ss -> P a = true -> forallb P ss = true.
  Proof.
    destruct a; simpl; try discriminate; destruct k; try discriminate; intros E; inversion E; subst;
      rewrite ?(c_and _ HP), ?(c_or _ HP); auto.
  Qed.

  Lemma P_jitems k l : forallb P l = true -> forallb P (jitems k l) = true.
  Proof.
    induction l as [|a l IH]; intros H; [reflexivity|]. cbn [forallb] in H. apply andb_true_iff in H. destruct H as [Ha Hl].
    cbn [jitems flat_map]. fold (jitems k l). rewrite forallb_app. rewrite (IH Hl), andb_true_r.
    destruct (junct_args k a) as [ss|] eqn:J; [eapply P_junct_args; eauto|]. cbn. rewrite Ha. reflexivity.
  Qed.

  Lemma forallb_incl (l l' : list expr) : incl l l' -> forallb P l' = true -> forallb P l = true.
  Proof. intros HI H. rewrite forallb_forall in *. intros x Hx. apply H, HI, Hx. Qed.

  Lemma P_walk_junct k l : forallb P l = true -> P (walk_junct k l) = true.
  Proof.
    intros H.
    assert (G : P (walk_junct_gen k l) = true).
    { unfold walk_junct_gen. destruct (j_outer k l []) as [keys|] eqn:J; [|apply P_bool].
      apply P_mkJ. eapply forallb_incl; [apply (j_outer_sub _ _ _ _ J)|]. cbn [app]. apply P_jitems. exact H. }
    unfold walk_junct. destruct l as [|a [|b [|c r]]]; try exact G.
    destruct (expr_eqb a b); [|exact G]. cbn in H. apply andb_true_iff in H. tauto.
  Qed.

  Lemma P_walk_iff a b : P a = true -> P b = true -> P (walk_iff a b) = true.
  Proof.
    intros Ha Hb. unfold walk_iff. destruct (as_boolc a) as [[|]|], (as_boolc b) as [[|]|];
      try apply P_bool; try apply P_mkNot; try assumption.
    destruct (expr_eqb a b); [apply P_bool|]. rewrite (c_iff _ HP), Ha, Hb. reflexivity.
  Qed.
  Lemma P_walk_implies a b : P a = true -> P b = true -> P (walk_implies a b) = true.
  Proof.
    intros Ha Hb. unfold walk_implies. destruct (as_boolc a) as [[|]|], (as_boolc b) as [[|]|];
      try apply P_bool; try apply P_mkNot; try assumption.
    destruct (expr_eqb a b); [apply P_bool|]. rewrite (c_implies _ HP), Ha, Hb. reflexivity.
  Qed.

  Lemma P_flat1 t l : forallb P l = true -> forallb P (flat1 t l) = true.
  Proof.
    induction l as [|a l IH]; intros H; [reflexivity|]. cbn [forallb] in H. apply andb_true_iff in H. destruct H as [Ha Hl].
    cbn [flat1 flat_map]. fold (flat1 t l). rewrite forallb_app, (IH Hl), andb_true_r.
    assert (D : forallb P [a] = true) by (cbn; rewrite Ha; reflexivity).
    destruct a; try exact D; destruct t; try exact D.
    - rewrite (c_plus _ HP) in Ha. exact Ha.
    - rewrite (c_times _ HP) in Ha. exact Ha.
  Qed.

  Lemma P_walk_arith t l : forallb P l = true -> P (walk_arith t l) = true.
  Proof.
    intros H. unfold walk_arith.
    destruct (t && existsb num_is0 (consts_of (flat1 t l))); [apply (c_const _ HP); reflexivity|].
    assert (Hn : forallb P (nonconsts_of (flat1 t l)) = true).
    { eapply forallb_incl; [apply incl_filter|]. apply P_flat1. exact H. }
    destruct (num_is_unit t _); apply P_mkA; [exact Hn|].
    rewrite forallb_app, Hn. cbn. rewrite P_num. reflexivity.
  Qed.

  Lemma P_walk_minus a b : P a = true -> P b = true -> P (walk_minus a b) = true.
  Proof.
    intros Ha Hb. unfold walk_minus. destruct (num_of a) as [x|], (num_of b) as [y|];
      try (rewrite (c_minus _ HP), Ha, Hb; reflexivity).
    - apply P_num.
    - destruct (num_isneg y); [|rewrite (c_minus _ HP), Ha, Hb; reflexivity].
      apply P_walk_arith. cbn. rewrite Ha, P_num. reflexivity.
  Qed.

  Lemma P_walk_div a b : P a = true -> P b = true -> P (walk_div a b) = true.
  Proof.
    intros Ha Hb. unfold walk_div.
    assert (D : P (EDiv a b) = true) by (rewrite (c_div _ HP), Ha, Hb; reflexivity).
    destruct (num_of a) as [[x|x]|], (num_of b) as [[y|y]|]; try exact D;
      repeat match goal with |- context [if ?c then _ else _] => destruct c end;
      try exact D; apply (c_const _ HP); reflexivity.
  Qed.

  Lemma P_walk_le a b : P a = true -> P b = true -> P (walk_le a b) = true.
  Proof.
    intros Ha Hb. unfold walk_le. destruct (num_of a), (num_of b); try (rewrite (c_le _ HP), Ha, Hb; reflexivity). apply P_bool.
  Qed.
  Lemma P_walk_lt a b : P a = true -> P b = true -> P (walk_lt a b) = true.
  Proof.
    intros Ha Hb. unfold walk_lt. destruct (num_of a), (num_of b); try (rewrite (c_lt _ HP), Ha, Hb; reflexivity). apply P_bool.
  Qed.
  Lemma P_walk_equals G a b : P a = true -> P b = true -> P (walk_equals G a b) = true.
  Proof.
    intros Ha Hb. unfold walk_equals.
    assert (D : P (EEquals a b) = true) by (rewrite (c_equals _ HP), Ha, Hb; reflexivity).
    destruct (is_const a && is_const b); [apply P_bool|].
    destruct (expr_eqb a b); [apply P_bool|].
    destruct (user_type_of G a), (user_type_of G b); try exact D.
    destruct (negb _ && negb _); [apply P_bool|exact D].
  Qed.

  Lemma P_walk_fluent G f l : cfg_consts G -> P (EFluent f l) = true -> P (walk_fluent G f l) = true.
  Proof.
    intros [HS _] H. unfold walk_fluent. destruct (forallb is_const l); [|exact H].
    destruct (stat G f l) eqn:E; [|exact H]. apply (c_const _ HP). eapply HS; eauto.
  Qed.
  Lemma P_walk_ifun G f l : cfg_consts G -> P (EIFun f l) = true -> P (walk_ifun G f l) = true.
  Proof.
    intros [_ HS] H. unfold walk_ifun. destruct (forallb is_const l); [|exact H].
    destruct (itab G f l) eqn:E; [|exact H]. apply (c_const _ HP). eapply HS; eauto.
  Qed.

  Lemma P_traj :
    (forall a, P a = true -> P (walk_always a) = true) /\
    (forall a, P a = true -> P (walk_sometime a) = true) /\
    (forall a, P a = true -> P (walk_at_most_once a) = true) /\
    (forall a b, P a = true -> P b = true -> P (walk_sometime_before a b) = true) /\
    (forall a b, P a = true -> P b = true -> P (walk_sometime_after a b) = true).
  Proof.
    repeat split; intros; unfold walk_always, walk_sometime, walk_at_most_once, walk_sometime_before, walk_sometime_after;
      repeat match goal with |- context [if ?c then _ else _] => destruct c end; try apply P_bool;
      rewrite ?(c_always _ HP), ?(c_sometime _ HP), ?(c_amo _ HP), ?(c_sb _ HP), ?(c_sa _ HP);
      repeat match goal with H : _ = true |- _ => rewrite H end; reflexivity.
  Qed.
End Comp.

(* ---------------------------------------------------------------- qfree *)
Lemma forallb_map {A B} (f : A -> B) (P : B -> bool) l : forallb P (map f l) = forallb (fun x => P (f x)) l.
Proof. induction l as [|a l IH]; [reflexivity|]. cbn. rewrite IH. reflexivity. Qed.

Lemma forallb_impl {A} (P Q : A -> bool) l : Forall (fun x => P x = true -> Q x = true) l -> forallb P l = true -> forallb Q l = true.
Proof.
  induction 1 as [|x l Hx _ IH]; [auto|]. cbn. rewrite !andb_true_iff. intros [A1 A2]. split; auto.
Qed.

Lemma qfree_subst x t e : qfree t = true -> qfree e = true -> qfree (subst x t e) = true.
Proof.
  intros Ht. induction e using expr_ind'; cbn [subst qfree]; intros Q; try reflexivity; try discriminate;
    try (apply andb_true_iff in Q; destruct Q as [Q1 Q2]; rewrite IHe1, IHe2; auto; fail);
    try (auto; fail).
  - destruct (v =? x)%N; [exact Ht|reflexivity].
  - rewrite forallb_map. eapply forallb_impl; [exact H|exact Q].
  - rewrite forallb_map. eapply forallb_impl; [exact H|exact Q].
  - apply (P_mkAnd _ comp_qfree). rewrite forallb_map. eapply forallb_impl; [exact H|exact Q].
  - apply (P_mkOr _ comp_qfree). rewrite forallb_map. eapply forallb_impl; [exact H|exact Q].
  - apply (P_mkNot _ comp_qfree). auto.
  - apply (P_mkPlus _ comp_qfree). rewrite forallb_map. eapply forallb_impl; [exact H|exact Q].
  - apply (P_mkTimes _ comp_qfree). rewrite forallb_map. eapply forallb_impl; [exact H|exact Q].
Qed.

Theorem simp_qfree G : cfg_consts G -> forall n e, qfree e = true -> qfree (simp G n e) = true.
Proof.
  intros HG n. pose proof comp_qfree as C.
  induction e using expr_ind'; autorewrite with simp_unfold; cbn [qfree]; intros Q; try reflexivity; try discriminate;
    try (apply andb_true_iff in Q; destruct Q as [Q1 Q2]).
  - apply (P_walk_fluent _ C _ _ _ HG). cbn [qfree]. rewrite forallb_map. eapply forallb_impl; [exact H|exact Q].
  - apply (P_walk_ifun _ C _ _ _ HG). cbn [qfree]. rewrite forallb_map. eapply forallb_impl; [exact H|exact Q].
  - apply (P_walk_junct _ C). rewrite forallb_map. eapply forallb_impl; [exact H|exact Q].
  - apply (P_walk_junct _ C). rewrite forallb_map. eapply forallb_impl; [exact H|exact Q].
  - apply (P_walk_not _ C). auto.
  - apply (P_walk_implies _ C); auto.
  - apply (P_walk_iff _ C); auto.
  - apply (P_walk_arith _ C). rewrite forallb_map. eapply forallb_impl; [exact H|exact Q].
  - apply (P_walk_minus _ C); auto.
  - apply (P_walk_arith _ C). rewrite forallb_map. eapply forallb_impl; [exact H|exact Q].
  - apply (P_walk_div _ C); auto.
  - apply (P_walk_le _ C); auto.
  - apply (P_walk_lt _ C); auto.
  - apply (P_walk_equals _ C); auto.
  - apply (proj1 (P_traj _ C)); auto.
  - apply (proj1 (proj2 (P_traj _ C))); auto.
  - apply (proj1 (proj2 (proj2 (proj2 (P_traj _ C))))); auto.
  - apply (proj2 (proj2 (proj2 (proj2 (P_traj _ C))))); auto.
  - apply (proj1 (proj2 (proj2 (P_traj _ C)))); auto.
Qed.

(* ---------------------------------------------------------------- wfx and substitution *)
Section WFP.
  Variables (tau : N -> N) (QT : N -> bool).
  Notation wf := (wfx tau QT).

  Lemma wf_subst x t : qfree t = true -> forall e S S',
    wf S e = true -> wf S' t = true ->
    (forall w, In w S' -> In w S) -> (forall w, In w S -> w <> x -> In w S') ->
    wf S' (subst x t e) = true.
  Proof.
    intros Qt. induction e using expr_ind'; intros S S' W Wt H1 H2; cbn [subst]; cbn [wfx] in W |- *; try reflexivity;
      try (apply andb_true_iff in W; destruct W as [W1 W2]; apply andb_true_iff; split; [eapply IHe1|eapply IHe2]; eauto; fail);
      try (eapply IHe; eauto; fail).
    - destruct (v =? x)%N eqn:E; [exact Wt|]. cbn [wfx]. apply andb_true_iff in W. destruct W as [W1 W2].
      rewrite W1. apply memN_In. apply H2; [apply memN_In; exact W2|]. apply N.eqb_neq in E. exact E.
    - rewrite forallb_map. rewrite forallb_forall in *. intros y Hy. specialize (W y Hy). apply andb_true_iff in W.
      destruct W as [Wq Ww]. rewrite (qfree_subst _ _ _ Qt Wq). rewrite Forall_forall in H. eapply H; eauto.
    - rewrite forallb_map. rewrite forallb_forall in *. intros y Hy. specialize (W y Hy). apply andb_true_iff in W.
      destruct W as [Wq Ww]. rewrite (qfree_subst _ _ _ Qt Wq). rewrite Forall_forall in H. eapply H; eauto.
    - apply (P_mkAnd _ (comp_wfx tau QT S')). rewrite forallb_map. rewrite forallb_forall in *. intros y Hy.
      rewrite Forall_forall in H. eapply H; eauto.
    - apply (P_mkOr _ (comp_wfx tau QT S')). rewrite forallb_map. rewrite forallb_forall in *. intros y Hy.
      rewrite Forall_forall in H. eapply H; eauto.
    - apply (P_mkNot _ (comp_wfx tau QT S')). eapply IHe; eauto.
    - (* EExists *)
      destruct (memN x (map fst vs)) eqn:B.
      + apply memN_In in B. eapply (wf_rescope tau QT (EExists vs e) S S'); [exact W| |].
        * intros w Hw. apply H2; [eapply (wf_fv tau QT (EExists vs e)); eauto|].
          rewrite fv_EExists in Hw. apply in_fv_quant in Hw. intros ->. tauto.
        * intros w Hw Hs. apply (wf_bvars tau QT (EExists vs e) S W w Hw). apply H1. exact Hs.
      + apply memN_false in B. apply andb_true_iff in W. destruct W as [W1 W2]. cbn [wfx]. apply andb_true_iff. split.
        * apply binders_ok_spec in W1. apply binders_ok_spec. destruct W1 as [A ND]. split; [|exact ND].
          intros p Hp. destruct (A p Hp) as (A1 & A2 & A3). repeat split; auto.
        * eapply IHe; [exact W2| | |].
          -- eapply wf_incl_qfree; [exact Qt|exact Wt|]. intros w Hw. apply in_or_app. right. exact Hw.
          -- intros w Hw. apply in_app_or in Hw. apply in_or_app. destruct Hw; auto.
          -- intros w Hw Hx. apply in_app_or in Hw. apply in_or_app. destruct Hw; auto.
    - destruct (memN x (map fst vs)) eqn:B.
      + apply memN_In in B. eapply (wf_rescope tau QT (EForall vs e) S S'); [exact W| |].
        * intros w Hw. apply H2; [eapply (wf_fv tau QT (EForall vs e)); eauto|].
          rewrite fv_EForall in Hw. apply in_fv_quant in Hw. intros ->. tauto.
        * intros w Hw Hs. apply (wf_bvars tau QT (EForall vs e) S W w Hw). apply H1. exact Hs.
      + apply memN_false in B. apply andb_true_iff in W. destruct W as [W1 W2]. cbn [wfx]. apply andb_true_iff. split.
        * apply binders_ok_spec in W1. apply binders_ok_spec. destruct W1 as [A ND]. split; [|exact ND].
          intros p Hp. destruct (A p Hp) as (A1 & A2 & A3). repeat split; auto.
        * eapply IHe; [exact W2| | |].
          -- eapply wf_incl_qfree; [exact Qt|exact Wt|]. intros w Hw. apply in_or_app. right. exact Hw.
          -- intros w Hw. apply in_app_or in Hw. apply in_or_app. destruct Hw; auto.
          -- intros w Hw Hx. apply in_app_or in Hw. apply in_or_app. destruct Hw; auto.
    - apply (P_mkPlus _ (comp_wfx tau QT S')). rewrite forallb_map. rewrite forallb_forall in *. intros y Hy.
      rewrite Forall_forall in H. eapply H; eauto.
    - apply (P_mkTimes _ (comp_wfx tau QT S')). rewrite forallb_map. rewrite forallb_forall in *. intros y Hy.
      rewrite Forall_forall in H. eapply H; eauto.
  Qed.

  (* ---------------------------------------------------------------- quantifier nodes *)
  Lemma prune_incl G vs b : incl (prune G vs b) vs.
  Proof. apply incl_filter. Qed.

  Lemma NoDup_map_filter {A} (f : A -> N) (p : A -> bool) l : NoDup (map f l) -> NoDup (map f (filter p l)).
  Proof.
    induction l as [|a l IH]; intros H; [constructor|]. inversion H; subst. cbn [filter].
    destruct (p a); [|auto]. cbn [map]. constructor; [|auto].
    intros Hin. apply H2. apply in_map_iff in Hin. destruct Hin as [y [E Hy]]. apply filter_In in Hy.
    apply in_map_iff. exists y. tauto.
  Qed.

  Lemma wf_quant_prune G ex vs b S : wf S (EQ ex vs b) = true -> wf S (EQ ex (prune G vs b) b) = true.
  Proof.
    intros W. assert (W' : binders_ok tau QT S vs && wf (map fst vs ++ S) b = true) by (destruct ex; exact W).
    apply andb_true_iff in W'. destruct W' as [W1 W2].
    assert (Goal' : binders_ok tau QT S (prune G vs b) && wf (map fst (prune G vs b) ++ S) b = true); [|destruct ex; exact Goal'].
    apply andb_true_iff. split.
    - apply binders_ok_spec in W1. apply binders_ok_spec. destruct W1 as [A ND]. split.
      + intros p Hp. apply A. apply (prune_incl _ _ _ _ Hp).
      + apply NoDup_map_filter. exact ND.
    - eapply wf_rescope; [exact W2| |].
      + intros w Hw. assert (Hs := wf_fv _ _ _ _ W2 w Hw). apply in_app_or in Hs. apply in_or_app.
        destruct Hs as [Hs|Hs]; [left|right; exact Hs].
        apply in_map_iff in Hs. destruct Hs as [p [<- Hp]]. apply in_map. apply filter_In. split; [exact Hp|].
        apply orb_true_iff. left. apply memN_In. exact Hw.
      + intros w Hw Hs. apply (wf_bvars _ _ _ _ W2 w Hw). apply in_app_or in Hs. apply in_or_app.
        destruct Hs as [Hs|Hs]; [left|right; exact Hs].
        apply in_map_iff in Hs. destruct Hs as [p [<- Hp]]. apply in_map. apply (prune_incl _ _ _ _ Hp).
  Qed.

  Lemma wf_mkExists vs b S : wf S (EExists vs b) = true -> wf S (mkExists vs b) = true.
  Proof. destruct vs; [|auto]. cbn. auto. Qed.
  Lemma wf_mkForall vs b S : wf S (EForall vs b) = true -> wf S (mkForall vs b) = true.
  Proof. destruct vs; [|auto]. cbn. auto. Qed.

  Lemma NoDup_remove_var x vs : NoDup (map fst vs) -> NoDup (map fst (remove_var x vs)).
  Proof.
    induction vs as [|p r IH]; intros H; [constructor|]. inversion H; subst. cbn [remove_var].
    destruct (fst p =? x)%N; [exact H3|]. cbn [map]. constructor; [|auto].
    intros Hin. apply H2. eapply in_remove_var; eauto.
  Qed.

  Lemma remove_var_incl x vs : incl (remove_var x vs) vs.
  Proof.
    induction vs as [|p r IH]; [apply incl_refl|]. cbn [remove_var]. destruct (fst p =? x)%N.
    - apply incl_tl, incl_refl.
    - apply incl_cons; [left; reflexivity|apply incl_tl; exact IH].
  Qed.

  Lemma not_in_remove_var x vs : NoDup (map fst vs) -> ~ In x (map fst (remove_var x vs)).
  Proof.
    induction vs as [|p r IH]; intros H; [intros []|]. inversion H; subst. cbn [remove_var].
    destruct (fst p =? x)%N eqn:E.
    - apply N.eqb_eq in E. subst. exact H2.
    - cbn [map]. intros [Hin|Hin]; [apply N.eqb_neq in E; congruence|]. exact (IH H3 Hin).
  Qed.

  Lemma forallb_app_inv {A} (P : A -> bool) l c r : forallb P (l ++ c :: r) = true -> forallb P (l ++ r) = true /\ P c = true.
  Proof. rewrite !forallb_app. cbn. rewrite !andb_true_iff. tauto. Qed.

  Lemma elim_cand_wf G vs c x t S :
    elim_cand G vs c = Some (x, t) -> cfg_consts G -> wf S c = true ->
    wf S t = true /\ qfree t = true /\ In x (map fst vs) /\ ~ In x (free_vars t).
  Proof.
    intros E HG W. destruct (elim_cand_spec _ _ _ _ _ E) as [ty [Hc [Hb [Ho [tv [Hu _]]]]]].
    apply bound_in_In in Hb. apply memN_false in Ho.
    assert (Wt : wf S t = true).
    { destruct Hc as [->| ->]; cbn [wfx] in W; apply andb_true_iff in W; tauto. }
    split; [exact Wt|]. split; [|tauto].
    destruct t; simpl in Hu; try discriminate; try reflexivity; cbn [wfx] in Wt; cbn [qfree];
      rewrite forallb_forall in *; intros y Hy; specialize (Wt y Hy); apply andb_true_iff in Wt; tauto.
  Qed.

  Lemma wf_elim_step G vs body vs' body' S :
    cfg_consts G -> elim_step G vs body = Some (vs', body') ->
    wf S (EExists vs body) = true -> wf S (EExists vs' body') = true.
  Proof.
    intros HG E W. destruct (elim_step_spec _ _ _ _ _ E) as [pre [c [post [x [t [-> [EC [-> ->]]]]]]]].
    cbn [wfx] in W. apply andb_true_iff in W. destruct W as [W1 W2].
    destruct (forallb_app_inv _ _ _ _ W2) as [Wr Wc].
    destruct (elim_cand_wf _ _ _ _ _ _ EC HG Wc) as (Wt & Qt & Hx & Ho).
    apply binders_ok_spec in W1. destruct W1 as [A ND].
    cbn [wfx]. apply andb_true_iff. split.
    - apply binders_ok_spec. split; [|apply NoDup_remove_var; exact ND].
      intros p Hp. apply A. apply (remove_var_incl _ _ _ Hp).
    - eapply (wf_subst x t Qt (mkAnd (pre ++ post)) (map fst vs ++ S)).
      + apply (P_mkAnd _ (comp_wfx tau QT _)). exact Wr.
      + eapply wf_rescope; [exact Wt| |].
        * intros w Hw. assert (Hs := wf_fv _ _ _ _ Wt w Hw). apply in_app_or in Hs. apply in_or_app.
          destruct Hs as [Hs|Hs]; [left|right; exact Hs]. apply in_remove_var_neq; [exact Hs|]. intros ->. tauto.
        * rewrite (qfree_bvars _ Qt). intros w [].
      + intros w Hw. apply in_app_or in Hw. apply in_or_app. destruct Hw as [Hw|Hw]; [left|right; exact Hw].
        eapply in_remove_var; eauto.
      + intros w Hw Hn. apply in_app_or in Hw. apply in_or_app. destruct Hw as [Hw|Hw]; [left|right; exact Hw].
        apply in_remove_var_neq; assumption.
  Qed.

  Lemma wf_elim_loop G k : forall vs body vs' body' S,
    cfg_consts G -> elim_loop G k vs body = (vs', body') ->
    wf S (EExists vs body) = true -> wf S (EExists vs' body') = true.
  Proof.
    induction k as [|k IH]; intros vs body vs' body' S HG H W; cbn [elim_loop] in H.
    - inversion H; subst. exact W.
    - destruct (elim_step G vs body) as [[vs1 b1]|] eqn:E.
      + eapply IH; [exact HG|exact H|]. eapply wf_elim_step; eauto.
      + inversion H; subst. exact W.
  Qed.

  Lemma wf_walk_exists G rs vs b S :
    cfg_consts G -> (forall x S', wf S' x = true -> wf S' (rs x) = true) ->
    wf S (EExists vs b) = true -> wf S (walk_exists G rs vs b) = true.
  Proof.
    intros HG Hrs W. unfold walk_exists. assert (W0 := wf_quant_prune G true vs b S W). cbn [EQ] in W0.
    destruct (elim_step G (prune G vs b) b) as [p|] eqn:E.
    - destruct (elim_loop G (length (prune G vs b)) (prune G vs b) b) as [vs1 b1] eqn:L.
      apply Hrs. apply wf_mkExists. eapply wf_elim_loop; eauto.
    - apply wf_mkExists. exact W0.
  Qed.

  Lemma wf_walk_forall G vs b S : wf S (EForall vs b) = true -> wf S (walk_forall G vs b) = true.
  Proof. intros W. unfold walk_forall. apply wf_mkForall. apply (wf_quant_prune G false vs b S W). Qed.

  (* ---------------------------------------------------------------- the simplifier preserves wfx *)
  Lemma simp_wf_gen G n : cfg_consts G ->
    (forall x S', wf S' x = true -> wf S' (resimp G n x) = true) ->
    forall e S, wf S e = true -> wf S (simp G n e) = true.
  Proof.
    intros HG Hrs.
    induction e using expr_ind'; intros S W; autorewrite with simp_unfold; try exact W;
      pose proof (comp_wfx tau QT S) as C; cbn [wfx] in W;
      try (apply andb_true_iff in W; destruct W as [W1 W2]).
    - apply (P_walk_fluent _ C _ _ _ HG). cbn [wfx]. rewrite forallb_map. rewrite forallb_forall in *. intros y Hy.
      specialize (W y Hy). apply andb_true_iff in W. destruct W as [Wq Ww].
      rewrite (simp_qfree G HG n y Wq). rewrite Forall_forall in H. apply H; assumption.
    - apply (P_walk_ifun _ C _ _ _ HG). cbn [wfx]. rewrite forallb_map. rewrite forallb_forall in *. intros y Hy.
      specialize (W y Hy). apply andb_true_iff in W. destruct W as [Wq Ww].
      rewrite (simp_qfree G HG n y Wq). rewrite Forall_forall in H. apply H; assumption.
    - apply (P_walk_junct _ C). rewrite forallb_map. rewrite forallb_forall in *. intros y Hy. rewrite Forall_forall in H. auto.
    - apply (P_walk_junct _ C). rewrite forallb_map. rewrite forallb_forall in *. intros y Hy. rewrite Forall_forall in H. auto.
    - apply (P_walk_not _ C). auto.
    - apply (P_walk_implies _ C); auto.
    - apply (P_walk_iff _ C); auto.
    - apply (wf_walk_exists G _ vs _ S HG Hrs). cbn [wfx]. rewrite W1. simpl. apply IHe. exact W2.
    - apply wf_walk_forall. cbn [wfx]. rewrite W1. simpl. apply IHe. exact W2.
    - apply (P_walk_arith _ C). rewrite forallb_map. rewrite forallb_forall in *. intros y Hy. rewrite Forall_forall in H. auto.
    - apply (P_walk_minus _ C); auto.
    - apply (P_walk_arith _ C). rewrite forallb_map. rewrite forallb_forall in *. intros y Hy. rewrite Forall_forall in H. auto.
    - apply (P_walk_div _ C); auto.
    - apply (P_walk_le _ C); auto.
    - apply (P_walk_lt _ C); auto.
    - apply (P_walk_equals _ C); auto.
    - apply (proj1 (P_traj _ C)); auto.
    - apply (proj1 (proj2 (P_traj _ C))); auto.
    - apply (proj1 (proj2 (proj2 (proj2 (P_traj _ C))))); auto.
    - apply (proj2 (proj2 (proj2 (proj2 (P_traj _ C))))); auto.
    - apply (proj1 (proj2 (proj2 (P_traj _ C)))); auto.
  Qed.

  Theorem simp_wf G : cfg_consts G -> forall n e S, wf S e = true -> wf S (simp G n e) = true.
  Proof.
    intros HG. induction n as [|n IHn]; apply simp_wf_gen; auto.
  Qed.
End WFP.
