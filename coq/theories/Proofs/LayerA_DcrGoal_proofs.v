(* C06 / C07, Layer A — DisjunctiveConditionsRemover with a disjunctive goal (fake goal fluent, goal actions): proofs.
   1. frame: an expression that does not mention fk does not see its value;  2. one step with the extra effect
   fk := b;  3. runs: soundness and completeness at plan level. *)
From Coq Require Import List ZArith NArith QArith Qcanon Bool Lia.
Import ListNotations.
Require Import UPV.Core.Expr UPV.Core.Eval UPV.Core.Interp UPV.Planning.Problem UPV.Planning.Sem.
Require Import UPV.Proofs.Eval_lemmas UPV.Proofs.Sem_proofs UPV.Proofs.Step_proofs UPV.Proofs.Subst_proofs.
Require Import UPV.Compilers.Variants UPV.Proofs.Variants_proofs.
Require Import UPV.Compilers.LayerA_Defs UPV.Compilers.LayerA_Variants.
Require Import UPV.Proofs.LayerA_base UPV.Proofs.LayerA_Variants_proofs.
Require Import UPV.Compilers.LayerA_Quant UPV.Planning.Ground UPV.Compilers.LayerA_Ground UPV.Compilers.LayerA_Neg UPV.Compilers.LayerA_Uinr UPV.Compilers.LayerA_Utfr.
Require Import UPV.Proofs.LayerA_Ground_proofs UPV.Proofs.LayerA_Neg_proofs UPV.Proofs.LayerA_Uinr_proofs UPV.Proofs.LayerA_Utfr_proofs.
Require Import UPV.Compilers.LayerA_Pipe UPV.Proofs.LayerA_Pipe_proofs UPV.Compilers.LayerA_DcrGoal.
Local Open Scope nat_scope.

(* Variants.v's names for the two effects and for the goal action are the ones used here *)
Lemma reset_effect_is fk : reset_effect fk = bool_effect fk false. Proof. reflexivity. Qed.
Lemma fake_effect_is fk : fake_effect fk = bool_effect fk true. Proof. reflexivity. Qed.
Lemma fake_action_is fk d : fake_action fk d = goal_action fk d. Proof. reflexivity. Qed.

(* ================================================================== 1. frame *)
(* two interpretations that differ at most in the value of the fluent fk *)
Definition irel (fk : N) (I I' : interp) : Prop :=
  (forall p, par I' p = par I p) /\ (forall v, var I' v = var I v) /\ (forall f a, ifun I' f a = ifun I f a) /\
  (forall t, objs I' t = objs I t) /\ (forall g a, g <> fk -> fl I' g a = fl I g a).

Section Frame.
  Variable fk : N.

  Lemma irel_bind I I' v o : irel fk I I' -> irel fk (bind_var I v o) (bind_var I' v o).
  Proof. intros (H1 & H2 & H3 & H4 & H5). repeat split; simpl; auto. intros w. destruct (w =? v)%N; auto. Qed.

  Lemma irel_instances vs : forall I I', irel fk I I' -> Forall2 (irel fk) (instances I vs) (instances I' vs).
  Proof.
    induction vs as [|[v t] vs IH]; intros I I' H; simpl.
    - constructor; [exact H | constructor].
    - assert (HH := H). destruct H as (H1 & H2 & H3 & H4 & H5). rewrite H4.
      induction (objs I t) as [|o os IHo]; simpl; [constructor|].
      apply Forall2_app; [apply IH, irel_bind, HH | exact IHo].
  Qed.

  Lemma Forall2_map_eq_fg {A B} (R : A -> A -> Prop) (f g : A -> B) l l' :
    Forall2 R l l' -> (forall x y, R x y -> f x = g y) -> map f l = map g l'.
  Proof. induction 1; intros H'; simpl; [reflexivity|]. f_equal; auto. Qed.

  (* "eval ignores fluents the expression does not mention" *)
  Lemma eval_cleanf sc e : forall I I', irel fk I I' -> cleanf fk e = true -> eval sc e I' = eval sc e I.
  Proof.
    induction e using expr_ind'; intros I I' HR Hc; pose proof HR as (Hp & Hv & Hi & Ho & Hf);
      try reflexivity; cbn [cleanf] in Hc; nfsplit;
      try (assert (HF : Forall (fun x => eval sc x I' = eval sc x I) l)
             by (rewrite Forall_forall in *; intros x Hx; apply H; [exact Hx | exact HR |];
                 match goal with Hq : forallb _ _ = true |- _ => rewrite forallb_forall in Hq; apply Hq; exact Hx end));
      try (assert (HF : Forall (fun x => eval sc x I' = eval sc x I) args)
             by (rewrite Forall_forall in *; intros x Hx; apply H; [exact Hx | exact HR |];
                 match goal with Hq : forallb _ _ = true |- _ => rewrite forallb_forall in Hq; apply Hq; exact Hx end)).
    - cbn [eval]. apply Hp.
    - cbn [eval]. apply Hv.
    - rewrite !eval_EFluent.
      replace (evals sc I' args) with (evals sc I args)
        by (clear -HF; induction HF as [|x l' Hx _ IH']; [reflexivity|]; cbn [evals]; rewrite Hx, IH'; reflexivity).
      destruct (evals sc I args); [|reflexivity]. apply Hf.
      match goal with Hn : negb (f =? fk)%N = true |- _ => apply negb_true_iff, N.eqb_neq in Hn; exact Hn end.
    - rewrite !eval_EIFun.
      replace (evals sc I' args) with (evals sc I args)
        by (clear -HF; induction HF as [|x l' Hx _ IH']; [reflexivity|]; cbn [evals]; rewrite Hx, IH'; reflexivity).
      destruct (evals sc I args); [|reflexivity]. apply Hi.
    - rewrite !eval_EAnd.
      replace (ebools sc I' l) with (ebools sc I l)
        by (clear -HF; induction HF as [|x l' Hx _ IH']; [reflexivity|]; cbn [ebools]; rewrite Hx, IH'; reflexivity).
      reflexivity.
    - rewrite !eval_EOr.
      replace (ebools sc I' l) with (ebools sc I l)
        by (clear -HF; induction HF as [|x l' Hx _ IH']; [reflexivity|]; cbn [ebools]; rewrite Hx, IH'; reflexivity).
      reflexivity.
    - rewrite !eval_ENot, (IHe I I' HR) by assumption. reflexivity.
    - rewrite !eval_EImplies, (IHe1 I I' HR), (IHe2 I I' HR) by assumption. reflexivity.
    - rewrite !eval_EIff, (IHe1 I I' HR), (IHe2 I I' HR) by assumption. reflexivity.
    - rewrite !eval_EExists. f_equal.
      rewrite (Forall2_map_eq_fg (irel fk) (fun J => as_bool (eval sc e J)) (fun J => as_bool (eval sc e J))
                 _ _ (irel_instances vs I I' HR)); [reflexivity|].
      intros x y Hxy. rewrite (IHe x y Hxy) by assumption. reflexivity.
    - rewrite !eval_EForall. f_equal.
      rewrite (Forall2_map_eq_fg (irel fk) (fun J => as_bool (eval sc e J)) (fun J => as_bool (eval sc e J))
                 _ _ (irel_instances vs I I' HR)); [reflexivity|].
      intros x y Hxy. rewrite (IHe x y Hxy) by assumption. reflexivity.
    - rewrite !eval_EPlus.
      replace (enums sc I' l) with (enums sc I l)
        by (clear -HF; induction HF as [|x l' Hx _ IH']; [reflexivity|]; cbn [enums]; rewrite Hx, IH'; reflexivity).
      reflexivity.
    - rewrite !eval_EMinus, (IHe1 I I' HR), (IHe2 I I' HR) by assumption. reflexivity.
    - rewrite !eval_ETimes.
      replace (enums sc I' l) with (enums sc I l)
        by (clear -HF; induction HF as [|x l' Hx _ IH']; [reflexivity|]; cbn [enums]; rewrite Hx, IH'; reflexivity).
      reflexivity.
    - rewrite !eval_EDiv, (IHe1 I I' HR), (IHe2 I I' HR) by assumption. reflexivity.
    - rewrite !eval_ELe, (IHe1 I I' HR), (IHe2 I I' HR) by assumption. reflexivity.
    - rewrite !eval_ELt, (IHe1 I I' HR), (IHe2 I I' HR) by assumption. reflexivity.
    - rewrite !eval_EEquals, (IHe1 I I' HR), (IHe2 I I' HR) by assumption. reflexivity.
  Qed.

  Lemma all_hold_cleanf sc I I' l : irel fk I I' -> forallb (cleanf fk) l = true -> all_hold sc I' l = all_hold sc I l.
  Proof.
    intros HR. unfold all_hold. induction l as [|x l IH]; intros Hc; [reflexivity|]. cbn [forallb] in *. nfsplit.
    unfold holds at 1 3. rewrite (eval_cleanf sc x I I' HR) by assumption. rewrite IH by assumption. reflexivity.
  Qed.

  Lemma evals_l_cleanf sc J J' l : irel fk J J' -> forallb (cleanf fk) l = true -> evals_l sc J' l = evals_l sc J l.
  Proof.
    intros HR. induction l as [|x l IH]; intros Hc; [reflexivity|]. cbn [forallb evals_l] in *. nfsplit.
    rewrite (eval_cleanf sc x J J' HR), IH by assumption. reflexivity.
  Qed.

  Lemma eval_effect_cleanf sc J J' e : irel fk J J' -> effect_cleanf fk e = true ->
    eval_effect sc J' e = eval_effect sc J e.
  Proof.
    intros HR Hc. unfold effect_cleanf in Hc. nfsplit. unfold eval_effect.
    rewrite (evals_l_cleanf sc J J' _ HR), (eval_cleanf sc (e_cond e) J J' HR), (eval_cleanf sc (e_val e) J J' HR)
      by assumption. reflexivity.
  Qed.

  Definition eres_list (sc : bool) (I : interp) (effs : list effect) : list eres :=
    flat_map (fun e => map (fun J => eval_effect sc J e) (instances I (e_vars e))) effs.

  Lemma eres_list_cleanf sc I I' effs : irel fk I I' -> forallb (effect_cleanf fk) effs = true ->
    eres_list sc I' effs = eres_list sc I effs.
  Proof.
    intros HR. induction effs as [|e effs IH]; intros Hc; [reflexivity|]. cbn [forallb eres_list flat_map] in *. nfsplit.
    fold (eres_list sc I' effs). fold (eres_list sc I effs). rewrite IH by assumption. f_equal.
    symmetry. apply (Forall2_map_eq_fg (irel fk) _ _ _ _ (irel_instances (e_vars e) I I' HR)).
    intros x y Hxy. symmetry. apply eval_effect_cleanf; assumption.
  Qed.
End Frame.

(* ================================================================== 2. one step with the extra effect fk := b *)
Lemma collect_res_app2 a b :
  collect_res (a ++ b) = match collect_res a, collect_res b with Some x, Some y => Some (x ++ y) | _, _ => None end.
Proof.
  induction a as [|[| |x] a IH]; cbn [app collect_res].
  - destruct (collect_res b); reflexivity.
  - reflexivity.
  - exact IH.
  - rewrite IH. destruct (collect_res a); [|reflexivity]. destruct (collect_res b); reflexivity.
Qed.

Lemma collect_res_In L : forall acts x, collect_res L = Some acts -> In x acts -> In (EAct x) L.
Proof.
  induction L as [|[| |y] L IH]; intros acts x; cbn [collect_res].
  - intros E. inversion E; subst. intros [].
  - discriminate.
  - intros E Hx. right. eapply IH; eassumption.
  - destruct (collect_res L) as [l|]; [|discriminate]. intros E. inversion E; subst. intros [->|Hx].
    + left; reflexivity.
    + right. eapply IH; [reflexivity | exact Hx].
Qed.

Lemma forallb_eq_in {A} (f g : A -> bool) l : (forall x, In x l -> f x = g x) -> forallb f l = forallb g l.
Proof.
  induction l as [|x l IH]; simpl; intros H; [reflexivity|]. rewrite (H x (or_introl eq_refl)), IH; auto.
Qed.

(* the instance of the extra effect that fires *)
Definition xact (fk : N) (b : bool) : aeff := {| ae_key := (fk, []); ae_kind := KAssign; ae_val := VBool b |}.
Definition no_fk (fk : N) (acts : list aeff) : Prop := forall x, In x acts -> fst (ae_key x) <> fk.

Section ExtraStep.
  Variable fk : N.
  Variables P P' : problem.
  Hypothesis Ho : p_objs P' = p_objs P.
  Hypothesis Hi : p_ifun P' = p_ifun P.
  Hypothesis Hfl : p_fluents P' = p_fluents P ++ [fk_decl fk].
  Hypothesis Hv : p_invs P' = p_invs P.
  Hypothesis Hinvc : forallb (cleanf fk) (p_invs P ++ bound_invs P) = true.

  Lemma isb_fk : is_bool_fluent P' fk = true.
  Proof. unfold is_bool_fluent. rewrite Hfl, existsb_app. cbn. rewrite N.eqb_refl. apply orb_true_r. Qed.

  Lemma isb_other f : f <> fk -> is_bool_fluent P' f = is_bool_fluent P f.
  Proof.
    intros Hf. unfold is_bool_fluent. rewrite Hfl, existsb_app. cbn.
    replace (fk =? f)%N with false by (symmetry; apply N.eqb_neq; congruence). cbn. rewrite orb_false_r. reflexivity.
  Qed.

  Lemma mk_irel s s' pars : agree_off fk s s' -> irel fk (mk_interp P s pars) (mk_interp P' s' pars).
  Proof.
    intros H. repeat split; cbn; auto.
    - intros f a. rewrite Hi. reflexivity.
    - intros t. unfold objs_of. rewrite Ho. reflexivity.
  Qed.

  Lemma bound_invs_extra : bound_invs P' = bound_invs P.
  Proof.
    unfold bound_invs. rewrite Hfl, flat_map_app. cbn. rewrite app_nil_r.
    apply flat_map_ext. intros fd. rewrite (arg_tuples_objs P P' _ Ho). reflexivity.
  Qed.

  Lemma invariants_cleanf t t' : agree_off fk t t' -> invariants_ok false P' t' = invariants_ok false P t.
  Proof.
    intros H. unfold invariants_ok. rewrite Hv, bound_invs_extra.
    apply (all_hold_cleanf fk); [apply mk_irel; exact H | exact Hinvc].
  Qed.

  Lemma avals_extra k acts b :
    avals k (acts ++ [xact fk b]) = avals k acts ++ (if gfl_eqb (fk, []) k then [VBool b] else []).
  Proof. unfold avals. rewrite filter_app, map_app. cbn. rewrite andb_true_r. destruct (gfl_eqb (fk, []) k); reflexivity. Qed.

  Lemma deltas_extra k acts b : deltas k (acts ++ [xact fk b]) = deltas k acts.
  Proof. unfold deltas. rewrite filter_app, map_app. cbn. rewrite andb_false_r. cbn. apply app_nil_r. Qed.

  Lemma filter_nofk acts x (g : aeff -> bool) : no_fk fk acts ->
    filter (fun a => gfl_eqb (ae_key a) (fk, x) && g a) acts = [].
  Proof.
    intros H. induction acts as [|a acts IH]; [reflexivity|]. cbn [filter].
    assert (E : gfl_eqb (ae_key a) (fk, x) = false).
    { unfold gfl_eqb. cbn [fst snd]. replace (fst (ae_key a) =? fk)%N with false; [reflexivity|].
      symmetry. apply N.eqb_neq. apply H. left; reflexivity. }
    rewrite E. cbn. apply IH. intros y Hy. apply H. right; exact Hy.
  Qed.

  Lemma gfl_fk_other k : fst k <> fk -> gfl_eqb (fk, []) k = false.
  Proof. intros H. unfold gfl_eqb. cbn [fst snd]. replace (fk =? fst k)%N with false; [reflexivity|]. symmetry. apply N.eqb_neq. congruence. Qed.

  Lemma spec_fluent_other s s' acts b k : agree_off fk s s' -> fst k <> fk ->
    spec_fluent P' s' (acts ++ [xact fk b]) k = spec_fluent P s acts k.
  Proof.
    intros Hs Hk. unfold spec_fluent. rewrite (isb_other _ Hk), avals_extra, deltas_extra, (gfl_fk_other k Hk), app_nil_r.
    rewrite (Hs (fst k) (snd k) Hk). reflexivity.
  Qed.

  Lemma spec_fluent_fk s' acts b : no_fk fk acts -> spec_fluent P' s' (acts ++ [xact fk b]) (fk, []) = CVal (VBool b).
  Proof.
    intros Hn. unfold spec_fluent. cbn [fst snd]. rewrite isb_fk, avals_extra, deltas_extra.
    unfold avals, deltas. rewrite !(filter_nofk acts [] _ Hn). cbn [map app].
    replace (gfl_eqb (fk, []) (fk, [])) with true by (unfold gfl_eqb; cbn; rewrite N.eqb_refl; reflexivity).
    destruct b; reflexivity.
  Qed.

  Lemma effects_ok_extra s s' acts b : agree_off fk s s' -> no_fk fk acts ->
    spec_effects_ok P' s' (acts ++ [xact fk b]) = spec_effects_ok P s acts.
  Proof.
    intros Hs Hn. unfold spec_effects_ok. rewrite forallb_app. cbn [forallb xact ae_key].
    fold (xact fk b). rewrite (spec_fluent_fk s' acts b Hn). cbn. rewrite andb_true_r.
    apply forallb_eq_in. intros a Ha. rewrite (spec_fluent_other s s' acts b _ Hs (Hn a Ha)). reflexivity.
  Qed.

  Lemma succ_extra s s' acts b : agree_off fk s s' -> no_fk fk acts ->
    agree_off fk (spec_succ P s acts) (spec_succ P' s' (acts ++ [xact fk b])) /\
    spec_succ P' s' (acts ++ [xact fk b]) fk [] = Some (VBool b).
  Proof.
    intros Hs Hn. split.
    - intros f x Hf. unfold spec_succ. rewrite (spec_fluent_other s s' acts b (f, x) Hs Hf), (Hs f x Hf). reflexivity.
    - unfold spec_succ. rewrite (spec_fluent_fk s' acts b Hn). reflexivity.
  Qed.

  Lemma fired_extra I' effs b :
    fired false I' (effs ++ [bool_effect fk b]) =
    match collect_res (eres_list false I' effs) with Some acts => Some (acts ++ [xact fk b]) | None => None end.
  Proof.
    unfold fired. rewrite flat_map_app, collect_res_app2. fold (eres_list false I' effs).
    destruct (collect_res (eres_list false I' effs)); reflexivity.
  Qed.

  Lemma fired_nofk sc I effs acts : forallb (effect_cleanf fk) effs = true ->
    collect_res (eres_list sc I effs) = Some acts -> no_fk fk acts.
  Proof.
    intros Hc E x Hx. pose proof (collect_res_In _ _ _ E Hx) as Hin. unfold eres_list in Hin.
    apply in_flat_map in Hin. destruct Hin as [e [He Hin]]. apply in_map_iff in Hin. destruct Hin as [J [EJ _]].
    rewrite forallb_forall in Hc. specialize (Hc e He). unfold effect_cleanf in Hc. nfsplit.
    unfold eval_effect in EJ. destruct (evals_l sc J (e_args e)) as [vs|]; [|discriminate].
    destruct (eval sc (e_cond e) J) as [[[|]| |]|]; try discriminate.
    destruct (eval sc (e_val e) J); [|discriminate]. inversion EJ; subst x. cbn [ae_key fst].
    match goal with Hn : negb (e_fl e =? fk)%N = true |- _ => apply negb_true_iff, N.eqb_neq in Hn; exact Hn end.
  Qed.

  (* the action with the extra effect steps in the compiled problem exactly when the action steps in the original
     problem; the successors agree off fk, and fk = b afterwards *)
  Lemma step_extra a b args s s' : agree_off fk s s' -> action_cleanf fk a = true ->
    match spec_step false P s a args, spec_step false P' s' (add_eff a (bool_effect fk b)) args with
    | Some t, Some t' => agree_off fk t t' /\ t' fk [] = Some (VBool b)
    | None, None => True
    | _, _ => False
    end.
  Proof.
    intros Hs Hc. unfold action_cleanf in Hc. nfsplit. rewrite !spec_step_eq. cbn [add_eff a_params a_pre a_effs].
    pose proof (mk_irel s s' (zip_params (a_params a) args) Hs) as HR.
    rewrite (all_hold_cleanf fk false _ _ (a_pre a) HR) by assumption.
    destruct (negb (all_hold false (mk_interp P s (zip_params (a_params a) args)) (a_pre a))); [exact I|].
    rewrite fired_extra, (eres_list_cleanf fk false _ _ (a_effs a) HR) by assumption.
    change (fired false (mk_interp P s (zip_params (a_params a) args)) (a_effs a))
      with (collect_res (eres_list false (mk_interp P s (zip_params (a_params a) args)) (a_effs a))).
    destruct (collect_res (eres_list false (mk_interp P s (zip_params (a_params a) args)) (a_effs a))) as [acts|] eqn:EF;
      [|exact I].
    assert (Hn : no_fk fk acts) by (eapply fired_nofk; eassumption).
    rewrite (effects_ok_extra s s' acts b Hs Hn).
    destruct (negb (spec_effects_ok P s acts)); [exact I|].
    destruct (succ_extra s s' acts b Hs Hn) as [Ha Hb].
    rewrite (invariants_cleanf _ _ Ha).
    destruct (invariants_ok false P (spec_succ P s acts)); [split; assumption | exact I].
  Qed.
End ExtraStep.

(* ================================================================== 3. plans *)
Lemma NoDup_app_disj {A} (l1 l2 : list A) x : NoDup (l1 ++ l2) -> In x l1 -> In x l2 -> False.
Proof.
  induction l1 as [|y l1 IH]; intros Hnd H1 H2; [destruct H1|]. cbn [app] in Hnd. inversion Hnd as [|? ? Hn Hr]; subst.
  destruct H1 as [->|H1]; [apply Hn, in_or_app; right; exact H2 | exact (IH Hr H1 H2)].
Qed.

Lemma NoDup_app_left {A} (l1 l2 : list A) : NoDup (l1 ++ l2) -> NoDup l1.
Proof.
  induction l1 as [|y l1 IH]; intros H; [constructor|]. cbn [app] in H. inversion H as [|? ? Hn Hr]; subst.
  constructor; [intros Hy; apply Hn, in_or_app; left; exact Hy | exact (IH Hr)].
Qed.

Lemma spec_step_inv P s a args t : spec_step false P s a args = Some t -> invariants_ok false P t = true.
Proof.
  rewrite spec_step_eq. destruct (negb _); [discriminate|]. destruct (fired _ _ _) as [acts|]; [|discriminate].
  destruct (negb _); [discriminate|]. destruct (invariants_ok false P (spec_succ P s acts)) eqn:E; [|discriminate].
  intros H. inversion H; subst. exact E.
Qed.

(* the template of the goal actions before its effect is added: no parameters, the disjunct as precondition *)
Definition pre_only (d : list expr) : action := {| a_params := []; a_pre := d; a_effs := [] |}.

Lemma pre_only_step P s d args m : spec_step false P s (pre_only d) args = Some m ->
  all_hold false (mk_interp P s []) d = true /\ state_eq m s.
Proof.
  rewrite spec_step_eq. cbn [pre_only a_params a_pre a_effs zip_params].
  destruct (all_hold false (mk_interp P s []) d); cbn [negb]; [|discriminate].
  change (fired false (mk_interp P s []) []) with (Some (@nil aeff)). cbn [spec_effects_ok forallb negb].
  destruct (invariants_ok false P (spec_succ P s [])); [|discriminate]. intros H. inversion H; subst.
  split; [reflexivity|]. intros f x. reflexivity.
Qed.

Lemma pre_only_applies P s d args : all_hold false (mk_interp P s []) d = true -> invariants_ok false P s = true ->
  exists m, spec_step false P s (pre_only d) args = Some m /\ state_eq m s.
Proof.
  intros Hd Hi. rewrite spec_step_eq. cbn [pre_only a_params a_pre a_effs zip_params]. rewrite Hd. cbn [negb].
  change (fired false (mk_interp P s []) []) with (Some (@nil aeff)). cbn [spec_effects_ok forallb negb].
  assert (E : state_eq (spec_succ P s []) s) by (intros f x; reflexivity).
  rewrite (invariants_ok_ext false P _ _ E), Hi. exists (spec_succ P s []). split; [reflexivity | exact E].
Qed.

Section DCRGProofs.
  Variable cdnf : expr -> list expr.
  Variable pre_dnf : action -> list (list expr).
  Variable nm : N -> nat -> N.
  Variable fk : N.
  Variable gnm : nat -> N.
  Variable gds : list (list expr).
  Variable P : problem.
  Let tbl := dcr_table cdnf pre_dnf nm P.
  Let P' := dcrg_compile cdnf pre_dnf nm fk gnm gds P.
  Let back := dcrg_back cdnf pre_dnf nm fk gnm gds P.
  Hypothesis Hu : unique_ids P.
  Hypothesis Hu' : unique_ids P'.                 (* the fresh names are new and pairwise different (C08) *)
  Hypothesis Hfresh : dcrg_fresh cdnf pre_dnf nm fk gds P = true.

  Variable G : state -> Prop.
  Hypothesis Gstep : forall s aid a args t, G s -> lookup_action P aid = Some a -> spec_step false P s a args = Some t -> G t.
  Hypothesis Heffs : forall s args i a, G s -> In (i, a) (p_actions P) ->
    Forall (dnf_effect_ok cdnf P s a args) (a_effs a).
  Hypothesis Hpre : forall s args i a, G s -> In (i, a) (p_actions P) ->
    existsb (all_hold false (mk_interp P s (zip_params (a_params a) args))) (pre_dnf a) =
    all_hold false (mk_interp P s (zip_params (a_params a) args)) (a_pre a).
  (* some goal action is applicable exactly where the original goals hold (C12: DNF of the goals) *)
  Hypothesis Hgoals : forall s, G s ->
    existsb (all_hold false (mk_interp P s [])) gds = all_hold false (mk_interp P s []) (p_goals P).

  Lemma fresh_split :
    (forall x, In x tbl -> action_cleanf fk (snd x) = true) /\
    forallb (cleanf fk) (p_invs P ++ bound_invs P) = true /\
    (forall d, In d gds -> forallb (cleanf fk) d = true).
  Proof.
    unfold dcrg_fresh in Hfresh. nfsplit. repeat split.
    - match goal with Hq : forallb _ (dcr_table _ _ _ _) = true |- _ => rewrite forallb_forall in Hq; exact Hq end.
    - assumption.
    - match goal with Hq : forallb _ gds = true |- _ => rewrite forallb_forall in Hq; exact Hq end.
  Qed.

  Lemma step_x a b args s s' : agree_off fk s s' -> action_cleanf fk a = true ->
    match spec_step false P s a args, spec_step false P' s' (add_eff a (bool_effect fk b)) args with
    | Some t, Some t' => agree_off fk t t' /\ t' fk [] = Some (VBool b)
    | None, None => True
    | _, _ => False
    end.
  Proof.
    destruct fresh_split as (_ & Hinvc & _).
    exact (step_extra fk P P' eq_refl eq_refl eq_refl eq_refl Hinvc a b args s s').
  Qed.

  (* ---- the compiled action table *)
  Let acts1 := map (fun x : N * N * action => (fst (fst x), add_reset fk (snd x))) tbl.
  Let acts2 := goal_actions fk gnm gds.

  Lemma ids_split : NoDup (map fst acts1 ++ map fst acts2).
  Proof. rewrite <- map_app. exact Hu'. Qed.

  Lemma ids1 : map fst acts1 = map fst (vt_actions tbl).
  Proof. unfold acts1, vt_actions. rewrite !map_map. reflexivity. Qed.

  Lemma goal_id_spec id : is_goal_id fk gnm gds id = true <-> In id (map fst acts2).
  Proof.
    unfold is_goal_id. fold acts2. rewrite existsb_exists. split.
    - intros [[j a] [Hin E]]. cbn [fst] in E. apply N.eqb_eq in E. subst. apply in_map_iff. exists (id, a). split; [reflexivity | exact Hin].
    - intros H. apply in_map_iff in H. destruct H as [[j a] [E Hin]]. cbn [fst] in E. subst.
      exists (id, a). split; [exact Hin | apply N.eqb_refl].
  Qed.

  Lemma tbl_facts id' i a' : In (id', i, a') tbl ->
    lookup_action P' id' = Some (add_reset fk a') /\ is_goal_id fk gnm gds id' = false /\ vt_back tbl id' = i.
  Proof.
    intros Hin.
    assert (H1 : In (id', add_reset fk a') acts1)
      by (unfold acts1; apply in_map_iff; exists (id', i, a'); split; [reflexivity | exact Hin]).
    split; [|split].
    - unfold lookup_action. apply lookupN_unique; [exact Hu'|]. change (p_actions P') with (acts1 ++ acts2).
      apply in_or_app. left. exact H1.
    - destruct (is_goal_id fk gnm gds id') eqn:E; [|reflexivity]. exfalso. apply goal_id_spec in E.
      apply (NoDup_app_disj _ _ id' ids_split); [|exact E]. apply in_map_iff. exists (id', add_reset fk a'). split; [reflexivity | exact H1].
    - apply (vt_back_unique tbl id' i a'); [|exact Hin]. rewrite <- ids1. exact (NoDup_app_left _ _ ids_split).
  Qed.

  Lemma goal_facts k d : In (k, d) (number_from 0 gds) ->
    lookup_action P' (gnm k) = Some (goal_action fk d) /\ is_goal_id fk gnm gds (gnm k) = true.
  Proof.
    intros Hin.
    assert (H2 : In (gnm k, goal_action fk d) acts2)
      by (unfold acts2, goal_actions; apply in_map_iff; exists (k, d); split; [reflexivity | exact Hin]).
    split.
    - unfold lookup_action. apply lookupN_unique; [exact Hu'|]. change (p_actions P') with (acts1 ++ acts2).
      apply in_or_app. right. exact H2.
    - apply goal_id_spec. apply in_map_iff. exists (gnm k, goal_action fk d). split; [reflexivity | exact H2].
  Qed.

  Lemma dcrg_lookup id' a'' : lookup_action P' id' = Some a'' ->
    (exists i a', In (id', i, a') tbl /\ a'' = add_reset fk a') \/
    (exists k d, In (k, d) (number_from 0 gds) /\ id' = gnm k /\ a'' = goal_action fk d).
  Proof.
    unfold lookup_action. intros H. apply lookupN_In in H. change (p_actions P') with (acts1 ++ acts2) in H.
    apply in_app_or in H. destruct H as [H|H].
    - left. apply in_map_iff in H. destruct H as [[[x i] a'] [E Hin]]. cbn [fst snd] in E. inversion E; subst.
      exists i, a'. split; [exact Hin | reflexivity].
    - right. unfold goal_actions in H. apply in_map_iff in H. destruct H as [[k d] [E Hin]]. cbn [fst snd] in E.
      inversion E; subst. exists k, d. repeat split. exact Hin.
  Qed.

  Lemma compiled_goal t' : goals_hold false P' t' = true <-> t' fk [] = Some (VBool true).
  Proof.
    unfold goals_hold, all_hold. cbn [P' dcrg_compile p_goals forallb]. unfold holds. rewrite eval_EFluent. cbn.
    destruct (t' fk []) as [[[|]| |]|]; cbn; split; intros H; try discriminate; try reflexivity.
  Qed.

  (* ---- soundness *)
  (* fk is true only where the original goals hold *)
  Definition ginv (s s' : state) : Prop := s' fk [] = Some (VBool true) -> goals_hold false P s = true.

  Lemma dcrg_run_sound pi' : forall s s' t', G s -> agree_off fk s s' -> ginv s s' ->
    run P' (spec_step false P') s' pi' = Some t' ->
    exists t, run P (spec_step false P) s (pback back pi') = Some t /\ G t /\ agree_off fk t t' /\ ginv t t'.
  Proof.
    destruct fresh_split as (Htc & _ & Hgc).
    induction pi' as [|[id' args] pi' IH]; intros s s' t' HG Hs Hi; cbn [run].
    - intros E. inversion E; subst. exists s. repeat split; assumption.
    - destruct (lookup_action P' id') as [a''|] eqn:EL; [|discriminate].
      destruct (spec_step false P' s' a'' args) as [m'|] eqn:ES; [|discriminate]. intros ER.
      rewrite pback_cons. unfold ostep, back, dcrg_back. cbn [fst snd]. fold tbl.
      destruct (dcrg_lookup id' a'' EL) as [(i & a' & Hin & ->) | (k & d & Hin & -> & ->)].
      + destruct (tbl_facts id' i a' Hin) as (_ & -> & ->). cbn [app].
        pose proof (step_x a' false args s s' Hs (Htc _ Hin)) as Hx. unfold add_reset in ES. rewrite ES in Hx.
        destruct (spec_step false P s a' args) as [m|] eqn:Em; [|destruct Hx]. destruct Hx as [Ha Hb].
        destruct (dcr_Hsound cdnf pre_dnf nm P Hu G Heffs Hpre id' i a' Hin) as [a [ELo Hst]].
        destruct (Hst s args m HG Em) as [m0 [E0 Hm0]].
        cbn [run]. rewrite ELo, E0.
        apply (IH m0 m' t'); [eapply Gstep; eassumption | | | exact ER].
        * intros f x Hf. rewrite (Ha f x Hf). symmetry. apply Hm0.
        * intros Hc. rewrite Hb in Hc. discriminate.
      + destruct (goal_facts k d Hin) as (_ & ->). cbn [app].
        assert (Hd : In d gds) by (eapply number_from_In; exact Hin).
        assert (Hc : action_cleanf fk (pre_only d) = true)
          by (unfold action_cleanf; cbn [pre_only a_pre a_effs forallb]; rewrite (Hgc d Hd); reflexivity).
        pose proof (step_x (pre_only d) true args s s' Hs Hc) as Hx.
        change (add_eff (pre_only d) (bool_effect fk true)) with (goal_action fk d) in Hx. rewrite ES in Hx.
        destruct (spec_step false P s (pre_only d) args) as [m|] eqn:Em; [|destruct Hx]. destruct Hx as [Ha _].
        destruct (pre_only_step P s d args m Em) as [Hhold Hm].
        apply (IH s m' t'); [exact HG | | | exact ER].
        * intros f x Hf. rewrite (Ha f x Hf). apply Hm.
        * intros _. unfold goals_hold. rewrite <- (Hgoals s HG). apply existsb_exists. exists d. split; assumption.
  Qed.

  (* a valid plan of the compiled problem, its goal-action steps removed, is a valid plan of the original problem *)
  Theorem dcrg_sound s0 s0' pi' : G s0 -> agree_off fk s0 s0' -> s0' fk [] = Some (VBool false) ->
    valid_plan false P' s0' pi' = true -> valid_plan false P s0 (pback back pi') = true.
  Proof.
    intros HG Hs H0. unfold valid_plan.
    destruct (run P' (spec_step false P') s0' pi') as [t'|] eqn:ER; [|discriminate]. intros Hgl.
    assert (Hi : ginv s0 s0') by (intros Hc; rewrite H0 in Hc; discriminate).
    destruct (dcrg_run_sound pi' s0 s0' t' HG Hs Hi ER) as (t & -> & _ & _ & Hinv).
    apply Hinv. apply compiled_goal. exact Hgl.
  Qed.

  (* ---- completeness *)
  Hypothesis Hconf : forall s args i a d, G s -> In (i, a) (p_actions P) -> In d (pre_dnf a) ->
    add_effs_ok [] [] (a_effs (dnf_variant cdnf a d)) = false ->
    all_hold false (mk_interp P s (zip_params (a_params a) args)) d = true -> applicable P s a args = false.

  Lemma dcrg_run_complete pi : forall s s' t, G s -> agree_off fk s s' -> invariants_ok false P s = true ->
    run P (spec_step false P) s pi = Some t ->
    exists pi' t', run P' (spec_step false P') s' pi' = Some t' /\ agree_off fk t t' /\
                   length pi' <= length pi /\ sub_noop_eq P s pi (pback back pi') /\ G t /\
                   invariants_ok false P t = true.
  Proof.
    destruct fresh_split as (Htc & _ & _).
    induction pi as [|[i args] pi IH]; intros s s' t HG Hs Hi; cbn [run].
    - intros E. inversion E; subst. exists [], s'. repeat split; try assumption; [apply le_n | constructor].
    - destruct (lookup_action P i) as [a|] eqn:EL; [|discriminate].
      destruct (spec_step false P s a args) as [t1|] eqn:E1; [|discriminate]. intros ER.
      assert (HG1 : G t1) by (eapply Gstep; eassumption).
      assert (Hi1 : invariants_ok false P t1 = true) by (eapply spec_step_inv; exact E1).
      destruct (dcr_Hcomplete cdnf pre_dnf nm P G Heffs Hpre Hconf i a s args t1 HG EL E1)
        as [Hnoop | (id' & a' & t1' & Hin & E2 & Ht1)].
      + assert (Hs1 : agree_off fk t1 s') by (intros f x Hf; rewrite (Hs f x Hf); symmetry; apply Hnoop).
        destruct (IH t1 s' t HG1 Hs1 Hi1 ER) as (pi' & t' & R1 & R2 & R3 & R4 & R5 & R6).
        exists pi', t'. repeat split; try assumption; [cbn [length]; lia|]. eapply sne_drop; eassumption.
      + pose proof (step_x a' false args s s' Hs (Htc _ Hin)) as Hx. rewrite E2 in Hx.
        destruct (spec_step false P' s' (add_eff a' (bool_effect fk false)) args) as [m'|] eqn:E3; [|destruct Hx].
        destruct Hx as [Ha _].
        assert (Hs1 : agree_off fk t1 m') by (intros f x Hf; rewrite (Ha f x Hf); symmetry; apply Ht1).
        destruct (IH t1 m' t HG1 Hs1 Hi1 ER) as (pi' & t' & R1 & R2 & R3 & R4 & R5 & R6).
        destruct (tbl_facts id' i a' Hin) as (ELc & Eg & Eb).
        exists ((id', args) :: pi'), t'. cbn [run length]. unfold add_reset in ELc. rewrite ELc, E3.
        repeat split; try assumption; [lia|].
        rewrite pback_cons. unfold ostep, back, dcrg_back. cbn [fst snd]. fold tbl. rewrite Eg, Eb. cbn [app].
        eapply sne_keep; eassumption.
  Qed.

  (* every valid plan of the original problem has a compiled counterpart — its variants followed by ONE goal action —
     that maps back to it modulo steps that change nothing *)
  Theorem dcrg_complete s0 s0' pi : G s0 -> agree_off fk s0 s0' -> invariants_ok false P s0 = true ->
    valid_plan false P s0 pi = true ->
    exists pi', valid_plan false P' s0' pi' = true /\ length pi' <= length pi + 1 /\
                sub_noop_eq P s0 pi (pback back pi').
  Proof.
    destruct fresh_split as (_ & _ & Hgc).
    intros HG Hs Hi. unfold valid_plan.
    destruct (run P (spec_step false P) s0 pi) as [t|] eqn:ER; [|discriminate]. intros Hgl.
    destruct (dcrg_run_complete pi s0 s0' t HG Hs Hi ER) as (pi1 & t' & R1 & R2 & R3 & R4 & R5 & R6).
    unfold goals_hold in Hgl. rewrite <- (Hgoals t R5) in Hgl. apply existsb_exists in Hgl. destruct Hgl as [d [Hd Hhold]].
    destruct (In_number_from _ _ Hd 0) as [k Hk].
    destruct (goal_facts k d Hk) as [ELg Eg].
    destruct (pre_only_applies P t d [] Hhold R6) as [m [Em _]].
    assert (Hc : action_cleanf fk (pre_only d) = true)
      by (unfold action_cleanf; cbn [pre_only a_pre a_effs forallb]; rewrite (Hgc d Hd); reflexivity).
    pose proof (step_x (pre_only d) true [] t t' R2 Hc) as Hx. rewrite Em in Hx.
    change (add_eff (pre_only d) (bool_effect fk true)) with (goal_action fk d) in Hx.
    destruct (spec_step false P' t' (goal_action fk d) []) as [m'|] eqn:E3; [|destruct Hx]. destruct Hx as [_ Hb].
    exists (pi1 ++ [(gnm k, [])]). split; [|split].
    - rewrite run_app, R1. cbn [run]. rewrite ELg, E3. apply compiled_goal. exact Hb.
    - rewrite app_length. cbn [length]. lia.
    - rewrite pback_app. cbn [pback flat_map]. unfold ostep, back, dcrg_back. cbn [fst snd]. rewrite Eg.
      cbn [app]. rewrite app_nil_r. exact R4.
  Qed.
End DCRGProofs.

(* ================================================================== 4. further stages and pipelines (fourth round) *)
(* ---- CompilersPipeline([Grounder(), NegativeConditionsRemover()]) — compcheck "pipeline:grounder+negative-conditions" *)
Section GroundNcr.
  Variable smp : expr -> expr.
  Variable tuples : N -> list (list value).
  Variable gnm : N -> nat -> N.
  Variable P : problem.
  Variable G1 : state -> Prop.
  Hypothesis Hsmp : smp_exact_on P G1 smp.
  Hypothesis Hu : unique_ids P.
  Let P1 := ground_compile smp tuples gnm P.
  Hypothesis Hu1 : unique_ids P1.
  Hypothesis Gstep1 : forall s aid a args t, G1 s -> lookup_action P aid = Some a -> spec_step false P s a args = Some t -> G1 t.
  Hypothesis Hinst : instances_ok smp tuples P.
  Variable nmap : list (N * N).
  Variables rw smp2 : expr -> expr.
  Hypothesis H1 : nmap_ok nmap P1 = true.
  Hypothesis H2 : problem_clean nmap P1 = true.
  Hypothesis H3 : ncr_safe nmap P1 = true.
  Hypothesis H4 : rw_ok nmap rw P1.
  Hypothesis H5 : smp_exact smp2.
  Let P2 := neg_compile nmap rw smp2 P1.
  Let l := gn_stages smp tuples gnm G1 nmap rw smp2 P.

  Lemma gn_linked : linked l P2.
  Proof. cbn. repeat split; auto. Qed.

  Lemma gn_pback pi' : pback (pipeline_back l) pi' = gt_map_back (ground_table smp tuples gnm P) pi'.
  Proof.
    rewrite (pipeline_pback l P2). unfold l, gn_stages. cbn [fold_right ground_stage ncr_stage st_back].
    rewrite pback_Some, ground_pback. reflexivity.
  Qed.

  Lemma gn_okD pi' : Forall (st_okD (compose_all l P2)) pi'.
  Proof. apply Forall_forall. intros x _. cbn. repeat split; auto. Qed.

  Lemma gn_rel s0 s0' : G1 s0 -> neg_rel nmap s0 s0' -> st_rel (compose_all l P2) s0 s0'.
  Proof.
    intros HG HR. exists s0. split; [split; [reflexivity | exact HG]|]. exists s0'. split; [exact HR | reflexivity].
  Qed.

  Theorem pipe_ground_ncr_sound s0 s0' pi' : G1 s0 -> neg_rel nmap s0 s0' ->
    valid_plan false P2 s0' pi' = true -> valid_plan false P s0 (pback (pipeline_back l) pi') = true.
  Proof.
    intros HG HR Hv.
    assert (Hs : Forall stage_sound l).
    { constructor; [exact (ground_stage_sound smp tuples gnm P G1 Hsmp Hu Hu1 Gstep1 Hinst)|]. constructor; [|constructor].
      exact (ncr_stage_sound nmap rw smp2 P1 H1 H2 H3 H4 H5). }
    pose proof (pipeline_sound l P2 Hs gn_linked s0 s0' pi' (gn_rel s0 s0' HG HR) (gn_okD pi')) as H.
    rewrite (pback_ext _ _ pi' (pipeline_back_spec l P2)) in H. apply H. exact Hv.
  Qed.

  Hypothesis Hconf1 : forall s i a args, G1 s -> In (i, a) (p_actions P) -> In args (tuples i) ->
    add_effs_ok [] [] (g_effects smp (zip_params (a_params a) args) (a_effs a)) = false ->
    spec_step false P s a args = None.

  Theorem pipe_ground_ncr_complete s0 s0' pi : G1 s0 -> neg_rel nmap s0 s0' -> plan_in_tuples tuples pi ->
    valid_plan false P s0 pi = true ->
    exists pi', length pi' <= length pi /\ valid_plan false P2 s0' pi' = true /\
                sub_noop_eq P s0 pi (pback (pipeline_back l) pi').
  Proof.
    intros HG HR Hin Hv.
    assert (Hc : certified (compose_all l P2)).
    { apply pipeline_certified; [|exact gn_linked].
      constructor; [exact (ground_stage_certified smp tuples gnm P G1 Hsmp Hu Hu1 Gstep1 Hinst Hconf1)|].
      constructor; [|constructor]. exact (ncr_stage_certified nmap rw smp2 P1 H1 H2 H3 H4 H5). }
    assert (Hok : Forall (st_okS (compose_all l P2)) pi).
    { apply Forall_forall. intros [i args] Hx. exact (Hin i args Hx). }
    destruct (cs_complete _ Hc s0 s0' pi (gn_rel s0 s0' HG HR) Hok Hv) as (pi' & L & V & _ & S).
    exists pi'. split; [cbn in L; plia|]. split; [exact V|].
    rewrite (pback_ext _ _ pi' (pipeline_back_spec l P2)) in S. exact S.
  Qed.
End GroundNcr.
Lemma run_inv P pi : forall s t, run P (spec_step false P) s pi = Some t -> invariants_ok false P s = true ->
  invariants_ok false P t = true.
Proof.
  induction pi as [|[aid args] pi IH]; intros s t; cbn [run]; [intros E; inversion E; subst; auto|].
  destruct (lookup_action P aid) as [a|]; [|discriminate].
  destruct (spec_step false P s a args) as [m|] eqn:ES; [|discriminate]. intros ER _.
  apply (IH m t ER). eapply spec_step_inv; exact ES.
Qed.

Section DcrgStage.
  Variable cdnf : expr -> list expr.
  Variable pre_dnf : action -> list (list expr).
  Variable nm : N -> nat -> N.
  Variable fk : N.
  Variable gnm : nat -> N.
  Variable gds : list (list expr).
  Variable P : problem.
  Let P' := dcrg_compile cdnf pre_dnf nm fk gnm gds P.
  Let st := dcrg_stage cdnf pre_dnf nm fk gnm gds.
  Hypothesis Hu : unique_ids P.
  Hypothesis Hu' : unique_ids P'.
  Hypothesis Hfresh : dcrg_fresh cdnf pre_dnf nm fk gds P = true.
  Hypothesis Hnofk : orig_no_fk fk P = true.
  Variable G : state -> Prop.
  Hypothesis Gstep : forall s aid a args t, G s -> lookup_action P aid = Some a -> spec_step false P s a args = Some t -> G t.
  Hypothesis Heffs : forall s args i a, G s -> In (i, a) (p_actions P) ->
    Forall (dnf_effect_ok cdnf P s a args) (a_effs a).
  Hypothesis Hpre : forall s args i a, G s -> In (i, a) (p_actions P) ->
    existsb (all_hold false (mk_interp P s (zip_params (a_params a) args))) (pre_dnf a) =
    all_hold false (mk_interp P s (zip_params (a_params a) args)) (a_pre a).
  Hypothesis Hgoals : forall s, G s ->
    existsb (all_hold false (mk_interp P s [])) gds = all_hold false (mk_interp P s []) (p_goals P).

  Lemma dcrg_sim pi' s s' t' : dcrg_rel fk G P s s' ->
    run P' (spec_step false P') s' pi' = Some t' ->
    exists t, run P (spec_step false P) s (pback (dcrg_back cdnf pre_dnf nm fk gnm gds P) pi') = Some t /\
              dcrg_rel fk G P t t'.
  Proof.
    intros (Ha & HG & Hi & Hg) ER.
    destruct (dcrg_run_sound cdnf pre_dnf nm fk gnm gds P Hu Hu' Hfresh G Gstep Heffs Hpre Hgoals pi' s s' t' HG Ha Hg ER)
      as (t & Et & HGt & Hat & Hgt).
    exists t. split; [exact Et|]. repeat split; try assumption. eapply run_inv; eassumption.
  Qed.

  Lemma dcrg_stage_sound : stage_sound (st G P).
  Proof.
    intros s s' pi' HR _. cbn [st dcrg_stage st_back st_src st_dst st_rel] in *. unfold valid_plan.
    destruct (run (dcrg_compile cdnf pre_dnf nm fk gnm gds P) (spec_step false (dcrg_compile cdnf pre_dnf nm fk gnm gds P)) s' pi')
      as [t'|] eqn:ER; [|discriminate]. intros Hgl.
    destruct (dcrg_sim pi' s s' t' HR ER) as (t & -> & _ & _ & _ & Hg). apply Hg.
    apply (compiled_goal cdnf pre_dnf nm fk gnm gds P). exact Hgl.
  Qed.

  Lemma dcrg_stage_noop : stage_noop (st G P).
  Proof.
    apply sim_noop.
    - intros s s' x' t' HR _ ER. cbn [st dcrg_stage st_back st_src st_dst st_rel] in *.
      destruct (dcrg_sim [x'] s s' t' HR ER) as (t & Et & HRt).
      exists t. split; [|exact HRt]. rewrite pback_cons in Et. cbn [pback flat_map] in Et. rewrite app_nil_r in Et. exact Et.
    - intros s s' [aid args] t t' (Ha & _) (Hb & _) Hs' ER g x. cbn [st dcrg_stage st_back st_src st_dst st_rel] in *.
      destruct (N.eq_dec g fk) as [->|Hne].
      + unfold ostep in ER. destruct (dcrg_back cdnf pre_dnf nm fk gnm gds P (aid, args)) as [[i ar]|].
        * rewrite run_single in ER. destruct (lookup_action P i) as [a|] eqn:EL; [|discriminate].
          symmetry. apply (step_untouched P s a ar t fk ER).
          intros e He. apply lookupN_In in EL. unfold orig_no_fk in Hnofk. rewrite forallb_forall in Hnofk.
          specialize (Hnofk _ EL). cbn [snd] in Hnofk. rewrite forallb_forall in Hnofk. specialize (Hnofk e He).
          apply negb_true_iff, N.eqb_neq in Hnofk. exact Hnofk.
        * cbn [run] in ER. inversion ER; subst. reflexivity.
      + rewrite <- (Ha g x Hne), <- (Hb g x Hne). apply Hs'.
  Qed.

  Hypothesis Hconf : forall s args i a d, G s -> In (i, a) (p_actions P) -> In d (pre_dnf a) ->
    add_effs_ok [] [] (a_effs (dnf_variant cdnf a d)) = false ->
    all_hold false (mk_interp P s (zip_params (a_params a) args)) d = true -> applicable P s a args = false.

  Lemma dcrg_stage_complete : stage_complete (st G P).
  Proof.
    intros s s' pi (Ha & HG & Hi & _) _ Hv. cbn [st dcrg_stage st_back st_src st_dst st_aux st_okD] in *.
    destruct (dcrg_complete cdnf pre_dnf nm fk gnm gds P Hu' Hfresh G Gstep Heffs Hpre Hgoals Hconf s s' pi HG Ha Hi Hv)
      as (pi' & V & L & S).
    exists pi'. split; [exact L|]. split; [exact V|]. split; [apply Forall_forall; intros; exact I | exact S].
  Qed.

  Lemma dcrg_stage_certified : certified (st G P).
  Proof. constructor; [exact dcrg_stage_sound | exact dcrg_stage_complete | exact dcrg_stage_noop]. Qed.
End DcrgStage.

(* the compiled initial state (fk = false) is related to the original one *)
Lemma dcrg_rel_init fk (G : state -> Prop) P s : G s -> invariants_ok false P s = true -> dcrg_rel fk G P s (with_fk fk s).
Proof.
  intros HG Hi. repeat split; try assumption.
  - intros f x Hf. unfold with_fk. apply N.eqb_neq in Hf. rewrite Hf. reflexivity.
  - unfold with_fk. rewrite N.eqb_refl. discriminate.
Qed.
Section UinrStage.
  Variable umap : list (N * N).
  Variable P : problem.
  Hypothesis Hok : uinr_ok umap P = true.
  Hypothesis Hnc : orig_no_comp umap P = true.

  Lemma uinr_stage_sound : stage_sound (uinr_stage umap P).
  Proof.
    intros s s' pi' HR _ Hv. cbn [uinr_stage st_back st_src st_dst st_rel] in *. rewrite pback_Some.
    rewrite <- (uinr_valid_plan umap P Hok s s' pi' HR). exact Hv.
  Qed.

  Lemma uinr_stage_complete : stage_complete (uinr_stage umap P).
  Proof.
    intros s s' pi HR _ Hv. cbn [uinr_stage st_back st_src st_dst st_rel st_aux st_okD] in *. exists pi.
    split; [plia|]. split; [rewrite (uinr_valid_plan umap P Hok s s' pi HR); exact Hv|].
    split; [apply Forall_forall; intros; exact I|]. rewrite pback_Some. apply sne_valid_refl. exact Hv.
  Qed.

  Lemma uinr_stage_noop : stage_noop (uinr_stage umap P).
  Proof.
    apply sim_noop.
    - intros s s' x' t' HR _ ER. cbn [uinr_stage st_back st_src st_dst st_rel] in *.
      pose proof (uinr_run umap P Hok [x'] s s' HR) as Hx. unfold orel in Hx. rewrite ER in Hx.
      unfold ostep. destruct (run P (spec_step false P) s [x']) as [t|]; [|destruct Hx].
      exists t. split; [reflexivity | exact Hx].
    - intros s s' [aid args] t t' [Ra Rb] [Ta Tb] Hs' ER g x. cbn [uinr_stage st_back st_src st_dst st_rel] in *.
      unfold ostep in ER. rewrite run_single in ER.
      destruct (lookup_action P aid) as [a|] eqn:EL; [|discriminate].
      destruct (is_ucomp umap g) eqn:Eg.
      + symmetry. apply (step_untouched P s a args t g ER).
        intros e He Heq. subst g. apply lookupN_In in EL. unfold orig_no_comp in Hnc. rewrite forallb_forall in Hnc.
        specialize (Hnc _ EL). cbn [snd] in Hnc. rewrite forallb_forall in Hnc. specialize (Hnc e He).
        rewrite Eg in Hnc. discriminate.
      + destruct (ucomp umap g) as [d|] eqn:Ec.
        * specialize (Rb g d x Ec). specialize (Tb g d x Ec).
          destruct (s g x) as [v|], (t g x) as [w|].
          -- destruct Rb as [R1 _], Tb as [T1 _]. rewrite <- R1, <- T1. apply Hs'.
          -- destruct Rb as [_ R2]. rewrite (Hs' d x), Tb in R2. discriminate.
          -- destruct Tb as [_ T2]. rewrite <- (Hs' d x), Rb in T2. discriminate.
          -- reflexivity.
        * rewrite <- (Ra g x Ec Eg), <- (Ta g x Ec Eg). apply Hs'.
  Qed.

  Lemma uinr_stage_certified : certified (uinr_stage umap P).
  Proof. constructor; [exact uinr_stage_sound | exact uinr_stage_complete | exact uinr_stage_noop]. Qed.
End UinrStage.
Section UtfrStage.
  Variables tr smp : expr -> expr.
  Variable P : problem.
  Variable G : state -> Prop.
  Variable Q : pstep -> Prop.
  Hypothesis H1 : smp_exact smp.
  Hypothesis H2 : utfr_wf tr smp P = true.
  Hypothesis H3 : tr_ok tr P.
  Hypothesis H4 : effects_defined P G.
  Hypothesis H5 : one_value P G.
  Hypothesis H6 : closed P G.
  Hypothesis Hu : unique_ids P.

  Lemma utfr_run_G pi : forall s t, G s -> run P (spec_step false P) s pi = Some t -> G t.
  Proof.
    induction pi as [|[aid args] pi IH]; intros s t HG; cbn [run]; [intros E; inversion E; subst; exact HG|].
    destruct (lookup_action P aid) as [a|] eqn:EL; [|discriminate].
    destruct (spec_step false P s a args) as [m|] eqn:ES; [|discriminate]. apply IH. eapply H6; eassumption.
  Qed.

  Lemma utfr_stage_sound : stage_sound (utfr_stage tr smp G Q P).
  Proof.
    intros s s' pi' [HR HG] _ Hv. cbn [utfr_stage st_back st_src st_dst st_rel] in *. rewrite pback_Some.
    rewrite <- (u_valid_plan tr smp P G H1 H2 H3 H4 H5 H6 Hu s s' pi' HG HR). exact Hv.
  Qed.

  Lemma utfr_stage_complete : stage_complete (utfr_stage tr smp G Q P).
  Proof.
    intros s s' pi [HR HG] HQ Hv. cbn [utfr_stage st_back st_src st_dst st_rel st_aux st_okD st_okS] in *. exists pi.
    split; [plia|]. split; [rewrite (u_valid_plan tr smp P G H1 H2 H3 H4 H5 H6 Hu s s' pi HG HR); exact Hv|].
    split; [exact HQ|]. rewrite pback_Some. apply sne_valid_refl. exact Hv.
  Qed.

  (* the Boolean encoding determines the object-valued state *)
  Lemma utfr_rel_unique s s' t t' : utfr_rel P s s' -> utfr_rel P t t' -> state_eq s' t' -> state_eq s t.
  Proof.
    intros [Ra Rb] [Ta Tb] Hs' g x. destruct (otype P g) as [ty|] eqn:Eo.
    - specialize (Rb g ty x Eo). specialize (Tb g ty x Eo).
      destruct (s g x) as [[b|q|c]|]; try contradiction; destruct (t g x) as [[b2|q2|c2]|]; try contradiction.
      + destruct Rb as [Rin Rv], Tb as [Tin Tv]. pose proof (Rv c Rin) as E1. pose proof (Tv c Rin) as E2.
        rewrite (Hs' g (x ++ [VObj c])), E2 in E1. inversion E1 as [E]. rewrite N.eqb_refl in E.
        apply N.eqb_eq in E. subst. reflexivity.
      + destruct Rb as [Rin Rv]. pose proof (Rv c Rin) as E1. rewrite (Hs' g (x ++ [VObj c])), (Tb c Rin) in E1. discriminate.
      + destruct Tb as [Tin Tv]. pose proof (Tv c2 Tin) as E1. rewrite <- (Hs' g (x ++ [VObj c2])), (Rb c2 Tin) in E1. discriminate.
      + reflexivity.
    - rewrite <- (Ra g x Eo), <- (Ta g x Eo). apply Hs'.
  Qed.

  Lemma utfr_stage_noop : stage_noop (utfr_stage tr smp G Q P).
  Proof.
    apply sim_noop.
    - intros s s' x' t' [HR HG] _ ER. cbn [utfr_stage st_back st_src st_dst st_rel] in *.
      pose proof (u_run tr smp P G H1 H2 H3 H4 H5 H6 Hu [x'] s s' HG HR) as Hx. rewrite ER in Hx.
      unfold ostep. destruct (run P (spec_step false P) s [x']) as [t|] eqn:Et; [|destruct Hx].
      exists t. split; [reflexivity|]. split; [exact Hx | eapply utfr_run_G; eassumption].
    - intros s s' x' t t' [HR _] [HT _] Hs' _. cbn [utfr_stage st_rel] in *. eapply utfr_rel_unique; eassumption.
  Qed.

  Lemma utfr_stage_certified : certified (utfr_stage tr smp G Q P).
  Proof. constructor; [exact utfr_stage_sound | exact utfr_stage_complete | exact utfr_stage_noop]. Qed.
End UtfrStage.

(* ---- CompilersPipeline([UsertypeFluentsRemover(), QuantifiersRemover(), DisjunctiveConditionsRemover()]) *)
Section UQD.
  Variables tr smp1 smp : expr -> expr.
  Variables G0 G2 : state -> Prop.
  Variable cdnf : expr -> list expr.
  Variable pre_dnf : action -> list (list expr).
  Variable nm : N -> nat -> N.
  Variable fk : N.
  Variable gnm : nat -> N.
  Variable gds : list (list expr).
  Variable P : problem.
  Let l := uqd_stages tr smp1 G0 smp cdnf pre_dnf nm fk gnm gds G2 P.
  Let P3 := uqd_dst tr smp1 smp cdnf pre_dnf nm fk gnm gds P.

  (* the stages fit: problems chain, and what each stage guarantees of its compiled plan's steps is what the next asks *)
  Lemma uqd_linked : linked l P3.
  Proof. cbn. repeat split; auto. Qed.

  Lemma uqd_aux : st_aux (compose_all l P3) = 1.
  Proof. reflexivity. Qed.

  Theorem pipe_uqd_sound : Forall stage_sound l -> stage_sound (compose_all l P3).
  Proof. intros H. apply pipeline_sound; [exact H | exact uqd_linked]. Qed.

  Theorem pipe_uqd_certified : Forall certified l -> certified (compose_all l P3).
  Proof. intros H. apply pipeline_certified; [exact H | exact uqd_linked]. Qed.
End UQD.
