(* C06 / C07, Layer A — compilers that split actions into variants (ConditionalEffectsRemover,
   DisjunctiveConditionsRemover): the action-level theorems of Proofs/Variants_proofs.v (C37) lifted to plans.
   1. a generic lifting for a compiled action table with a map back;  2. ConditionalEffectsRemover;
   3. DisjunctiveConditionsRemover (problems whose goals need no auxiliary goal action). *)
From Coq Require Import List ZArith NArith QArith Qcanon Bool Lia.
Import ListNotations.
Require Import UPV.Core.Expr UPV.Core.Eval UPV.Core.Interp UPV.Planning.Problem UPV.Planning.Sem.
Require Import UPV.Proofs.Eval_lemmas UPV.Proofs.Sem_proofs UPV.Proofs.Step_proofs.
Require Import UPV.Compilers.Variants UPV.Proofs.Variants_proofs.
Require Import UPV.Compilers.LayerA_Defs UPV.Compilers.LayerA_Variants UPV.Proofs.LayerA_base.
Local Open Scope nat_scope.

(* ================================================================== 1. generic lifting *)
Lemma vt_actions_In t id' a' : In (id', a') (vt_actions t) -> exists i, In (id', i, a') t.
Proof.
  unfold vt_actions. intros H. apply in_map_iff in H. destruct H as [[[x i] a] [E Hin]].
  cbn [fst snd] in E. inversion E; subst. exists i. exact Hin.
Qed.

Lemma vt_back_unique t id' i a' : NoDup (map fst (vt_actions t)) -> In (id', i, a') t -> vt_back t id' = i.
Proof.
  unfold vt_back. induction t as [|[[x j] b] t IH]; intros Hnd Hin; [destruct Hin|].
  cbn [vt_actions map fst] in Hnd. inversion Hnd as [|? ? Hn Hnd']; subst.
  cbn [find fst snd]. destruct Hin as [Hin|Hin].
  - inversion Hin; subst. rewrite N.eqb_refl. reflexivity.
  - destruct (x =? id')%N eqn:E.
    + apply N.eqb_eq in E. subst x. exfalso. apply Hn. apply in_map_iff. exists (id', a'). split; [reflexivity|].
      unfold vt_actions. apply in_map_iff. exists (id', i, a'). split; [reflexivity | exact Hin].
    + apply IH; assumption.
Qed.

Section Lift.
  Variables P P' : problem.
  Variable tbl : vtable.
  Hypothesis Ho : p_objs P' = p_objs P.
  Hypothesis Hi : p_ifun P' = p_ifun P.
  Hypothesis Hf : p_fluents P' = p_fluents P.
  Hypothesis Hv : p_invs P' = p_invs P.
  Hypothesis Ha : p_actions P' = vt_actions tbl.
  Hypothesis Hu' : unique_ids P'.

  (* the set of states the hypotheses on the actions are required on (e.g. the states in which every fluent has a
     value of its type): it contains the initial state and is closed under the steps of the original problem *)
  Variable G : state -> Prop.
  Hypothesis Gstep : forall s aid a args t, G s -> lookup_action P aid = Some a -> spec_step false P s a args = Some t -> G t.
  (* the compiled goals are equivalent to the original ones *)
  Hypothesis Hgoal : forall s, G s -> goals_hold false P' s = goals_hold false P s.

  Lemma lookup_tbl id' a' : lookup_action P' id' = Some a' -> exists i, In (id', i, a') tbl /\ vt_back tbl id' = i.
  Proof.
    unfold lookup_action. rewrite Ha. intros H. apply lookupN_In in H. apply vt_actions_In in H.
    destruct H as [i Hin]. exists i. split; [exact Hin|].
    apply (vt_back_unique tbl id' i a'); [|exact Hin]. unfold unique_ids in Hu'. rewrite Ha in Hu'. exact Hu'.
  Qed.

  Lemma tbl_lookup id' i a' : In (id', i, a') tbl -> lookup_action P' id' = Some a'.
  Proof.
    intros Hin. unfold lookup_action. rewrite Ha. apply lookupN_unique.
    - unfold unique_ids in Hu'. rewrite Ha in Hu'. exact Hu'.
    - unfold vt_actions. apply in_map_iff. exists (id', i, a'). split; [reflexivity | exact Hin].
  Qed.

  (* ---- soundness *)
  Hypothesis Hsound : forall id' i a', In (id', i, a') tbl ->
    exists a, lookup_action P i = Some a /\
      forall s args t', G s -> spec_step false P s a' args = Some t' ->
        exists t, spec_step false P s a args = Some t /\ state_eq t t'.

  Lemma lift_run_sound pi' : forall s s' t', G s -> state_eq s s' ->
    run P' (spec_step false P') s' pi' = Some t' ->
    exists t, run P (spec_step false P) s (vt_map_back tbl pi') = Some t /\ state_eq t t' /\ G t.
  Proof.
    induction pi' as [|[id' args] pi' IH]; intros s s' t' HG Hs; cbn [run vt_map_back map fst snd].
    - intros E. inversion E; subst. exists s. repeat split; [exact Hs | exact HG].
    - destruct (lookup_action P' id') as [a'|] eqn:EL; [|discriminate].
      destruct (lookup_tbl id' a' EL) as [i [Hin Hb]]. rewrite Hb.
      destruct (Hsound id' i a' Hin) as [a [ELo Hstep]]. rewrite ELo.
      rewrite (spec_step_same P P' Ho Hi Hf Hv).
      pose proof (spec_step_ext false P s s' a' args Hs) as Hx.
      destruct (spec_step false P s' a' args) as [t1'|] eqn:E1; [|discriminate].
      destruct (spec_step false P s a' args) as [t1''|] eqn:E2; [|destruct Hx].
      destruct (Hstep s args t1'' HG E2) as [t1 [E3 Ht1]]. rewrite E3.
      apply IH; [eapply Gstep; eassumption|].
      eapply state_eq_trans; [exact Ht1 | exact Hx].
  Qed.

  Theorem lift_sound s0 pi' : G s0 ->
    valid_plan false P' s0 pi' = true -> valid_plan false P s0 (vt_map_back tbl pi') = true.
  Proof.
    intros HG. unfold valid_plan.
    destruct (run P' (spec_step false P') s0 pi') as [t'|] eqn:ER; [|discriminate].
    destruct (lift_run_sound pi' s0 s0 t' HG (state_eq_refl s0) ER) as [t [-> [Ht HGt]]].
    rewrite <- (goals_hold_ext false P' t t' Ht), (Hgoal t HGt). auto.
  Qed.

  (* ---- completeness: every original step is a no-op or has a variant that takes it *)
  Hypothesis Hcomplete : forall i a s args t, G s -> lookup_action P i = Some a ->
    spec_step false P s a args = Some t ->
    (forall f x, t f x = s f x) \/
    exists id' a' t', In (id', i, a') tbl /\ spec_step false P s a' args = Some t' /\ state_eq t t'.

  Lemma lift_run_complete pi : forall s s' t, G s -> state_eq s s' ->
    run P (spec_step false P) s pi = Some t ->
    exists pi' t', run P' (spec_step false P') s' pi' = Some t' /\ state_eq t t' /\
                   length pi' <= length pi /\ sub_noop_eq P s pi (vt_map_back tbl pi') /\ G t.
  Proof.
    induction pi as [|[i args] pi IH]; intros s s' t HG Hs; cbn [run].
    - intros E. inversion E; subst. exists [], s'. repeat split; [exact Hs | apply le_n | constructor | exact HG].
    - destruct (lookup_action P i) as [a|] eqn:EL; [|discriminate].
      destruct (spec_step false P s a args) as [t1|] eqn:E1; [|discriminate]. intros ER.
      assert (HG1 : G t1) by (eapply Gstep; eassumption).
      destruct (Hcomplete i a s args t1 HG EL E1) as [Hnoop | (id' & a' & t1' & Hin & E2 & Ht1)].
      + (* the step changes nothing: skipped on the compiled side *)
        assert (Hs1 : state_eq t1 s') by (intros f x; rewrite (Hnoop f x); apply Hs).
        destruct (IH t1 s' t HG1 Hs1 ER) as (pi' & t' & R1 & R2 & R3 & R4 & R5).
        exists pi', t'. repeat split; try assumption; [cbn [length]; lia|].
        eapply sne_drop; eassumption.
      + pose proof (spec_step_ext false P s s' a' args Hs) as Hx. rewrite E2 in Hx.
        destruct (spec_step false P s' a' args) as [t1''|] eqn:E3; [|destruct Hx].
        assert (Hs1 : state_eq t1 t1'') by (eapply state_eq_trans; eassumption).
        destruct (IH t1 t1'' t HG1 Hs1 ER) as (pi' & t' & R1 & R2 & R3 & R4 & R5).
        exists ((id', args) :: pi'), t'. cbn [run length vt_map_back map fst snd].
        rewrite (tbl_lookup id' i a' Hin), (spec_step_same P P' Ho Hi Hf Hv), E3.
        repeat split; try assumption; [lia|].
        rewrite (vt_back_unique tbl id' i a'); [| unfold unique_ids in Hu'; rewrite Ha in Hu'; exact Hu' | exact Hin].
        eapply sne_keep; eassumption.
  Qed.

  Theorem lift_complete s0 pi : G s0 -> valid_plan false P s0 pi = true ->
    exists pi', valid_plan false P' s0 pi' = true /\ length pi' <= length pi /\
                sub_noop_eq P s0 pi (vt_map_back tbl pi').
  Proof.
    intros HG. unfold valid_plan.
    destruct (run P (spec_step false P) s0 pi) as [t|] eqn:ER; [|discriminate]. intros Hgl.
    destruct (lift_run_complete pi s0 s0 t HG (state_eq_refl s0) ER) as (pi' & t' & R1 & R2 & R3 & R4 & R5).
    exists pi'. rewrite R1. repeat split; try assumption.
    rewrite <- (goals_hold_ext false P' t t' R2), (Hgoal t R5). exact Hgl.
  Qed.
End Lift.

(* ================================================================== 2. ConditionalEffectsRemover *)
Lemma number_from_In {A} (l : list A) : forall n k x, In (k, x) (number_from n l) -> In x l.
Proof.
  induction l as [|y l IH]; intros n k x H; [destruct H|]. cbn [number_from] in H. destruct H as [H|H].
  - inversion H; subst. left; reflexivity.
  - right. eapply IH. exact H.
Qed.

Lemma In_number_from {A} (l : list A) x : In x l -> forall n, exists k, In (k, x) (number_from n l).
Proof.
  induction l as [|y l IH]; intros H n; [destruct H|]. destruct H as [->|H].
  - exists n. left; reflexivity.
  - destruct (IH H (S n)) as [k Hk]. exists k. right; exact Hk.
Qed.

Lemma is_nil_eq {A} (l : list A) : is_nil l = true -> l = [].
Proof. destruct l; [reflexivity | discriminate]. Qed.

Section CERProofs.
  Variable simp_pre : list expr -> option (list expr).
  Hypothesis Hsimp : simp_pre_ok simp_pre.
  Variable nm : N -> nat -> N.
  Variable P : problem.
  Let tbl := cer_table simp_pre nm P.
  Let P' := cer_compile simp_pre nm P.
  Hypothesis Hu : unique_ids P.
  Hypothesis Hu' : unique_ids P'.        (* the names chosen by get_fresh_name are new (C08) *)

  Variable G : state -> Prop.
  Hypothesis Gstep : forall s aid a args t, G s -> lookup_action P aid = Some a -> spec_step false P s a args = Some t -> G t.
  (* on the states of G every effect condition is a defined Boolean that does not depend on the forall variables of
     its effect, and the effect targets are defined (the hypothesis of the C37 theorems) *)
  Hypothesis Hcond : forall s args i a, G s -> In (i, a) (p_actions P) ->
    Forall (cond_ok P s a args) (cond_effs (a_effs a)).

  Lemma cer_table_In id' i a' : In (id', i, a') tbl ->
    exists a, In (i, a) (p_actions P) /\
      ((is_cond_action a = false /\ id' = i /\ a' = a) \/
       (is_cond_action a = true /\ exists sel pre', In sel (ce_kept_sels a) /\
          simp_pre (a_pre (ce_variant a sel)) = Some pre' /\ a' = set_pre (ce_variant a sel) pre')).
  Proof.
    unfold tbl, cer_table. intros H. apply in_flat_map in H. destruct H as [[j a] [Hin H]]. cbn [fst snd] in H.
    destruct (is_cond_action a) eqn:Ec.
    - apply in_map_iff in H. destruct H as [[k v] [E Hk]]. cbn [fst snd] in E. inversion E; subst.
      exists a. split; [exact Hin|]. right. split; [exact Ec|].
      apply number_from_In in Hk. unfold cer_variants in Hk. apply in_flat_map in Hk. destruct Hk as [sel [Hsel Hk]].
      destruct (simp_pre (a_pre (ce_variant a sel))) as [pre'|] eqn:Es; [|destruct Hk].
      destruct Hk as [<-|[]]. exists sel, pre'. repeat split; assumption.
    - destruct H as [H|[]]. inversion H; subst. exists a'. split; [exact Hin|]. left. repeat split. exact Ec.
  Qed.

  Lemma step_set_pre s v pre' args : simp_pre (a_pre v) = Some pre' ->
    spec_step false P s (set_pre v pre') args = spec_step false P s v args.
  Proof.
    intros Es. apply step_pre_ext; try reflexivity. cbn [set_pre a_params a_pre].
    pose proof (Hsimp (a_pre v) (mk_interp P s (zip_params (a_params v) args))) as H. rewrite Es in H. exact H.
  Qed.

  Lemma cer_Hsound id' i a' : In (id', i, a') tbl ->
    exists a, lookup_action P i = Some a /\
      forall s args t', G s -> spec_step false P s a' args = Some t' ->
        exists t, spec_step false P s a args = Some t /\ state_eq t t'.
  Proof.
    intros Hin. destruct (cer_table_In id' i a' Hin) as [a [Ha Hc]]. exists a.
    split; [apply lookupN_unique; assumption|].
    destruct Hc as [(_ & _ & ->) | (_ & sel & pre' & Hsel & Es & ->)].
    - intros s args t' _ E. exists t'. split; [exact E | apply state_eq_refl].
    - intros s args t' HG E. rewrite (step_set_pre s _ pre' args Es) in E.
      assert (Hs : In sel (ce_sels a)) by (unfold ce_kept_sels in Hsel; apply filter_In in Hsel; tauto).
      assert (Happ : applicable P s (ce_variant a sel) args = true) by (unfold applicable; rewrite E; reflexivity).
      pose proof (ce_variant_same_successor P s a args (Hcond s args i a HG Ha) sel Hs Happ) as Hx.
      rewrite E in Hx. destruct (spec_step false P s a args) as [t|]; [|destruct Hx].
      exists t. split; [reflexivity | apply state_eq_sym; exact Hx].
  Qed.

  Theorem cer_sound s0 pi' : G s0 ->
    valid_plan false (cer_compile simp_pre nm P) s0 pi' = true ->
    valid_plan false P s0 (vt_map_back (cer_table simp_pre nm P) pi') = true.
  Proof.
    exact (lift_sound P P' tbl eq_refl eq_refl eq_refl eq_refl eq_refl Hu' G Gstep (fun s _ => eq_refl) cer_Hsound s0 pi').
  Qed.

  (* completeness needs one more fact about the variants the code leaves out for conflicting effects: wherever such
     a variant is the selected one the original action is not applicable.  C37_conflict_drop_sound proves it when the
     effects taking part in the syntactic check have no forall variables, target non-Boolean fluents, and two
     syntactically different assigned values evaluate differently (without the last condition the implementation
     loses a plan: finding C07-cer-syntactic-conflict-variant-dropped). *)
  Hypothesis Hconf : forall s args i a, G s -> In (i, a) (p_actions P) ->
    add_effs_ok [] [] (a_effs (ce_variant a (the_sel P s a args))) = false -> applicable P s a args = false.

  Lemma cer_Hcomplete i a s args t : G s -> lookup_action P i = Some a -> spec_step false P s a args = Some t ->
    (forall f x, t f x = s f x) \/
    exists id' a' t', In (id', i, a') tbl /\ spec_step false P s a' args = Some t' /\ state_eq t t'.
  Proof.
    intros HG EL E. assert (Ha : In (i, a) (p_actions P)) by (apply lookupN_In; exact EL).
    destruct (is_cond_action a) eqn:Ec.
    - pose proof (Hcond s args i a HG Ha) as Hok.
      set (sel := the_sel P s a args).
      pose proof (ce_the_variant_step P s a args Hok) as Hx. fold sel in Hx. rewrite E in Hx.
      destruct (spec_step false P s (ce_variant a sel) args) as [t'|] eqn:Ev; [|destruct Hx].
      destruct (ce_kept a sel) eqn:Ek.
      + right. destruct (simp_pre (a_pre (ce_variant a sel))) as [pre'|] eqn:Es.
        * assert (Hv : In (set_pre (ce_variant a sel) pre') (cer_variants simp_pre a)).
          { unfold cer_variants. apply in_flat_map. exists sel. split.
            - unfold ce_kept_sels. apply filter_In. split; [apply the_sel_in | exact Ek].
            - rewrite Es. left; reflexivity. }
          destruct (In_number_from _ _ Hv 0) as [k Hk].
          exists (nm i k), (set_pre (ce_variant a sel) pre'), t'. repeat split.
          -- unfold tbl, cer_table. apply in_flat_map. exists (i, a). split; [exact Ha|]. cbn [fst snd]. rewrite Ec.
             apply in_map_iff. exists (k, set_pre (ce_variant a sel) pre'). split; [reflexivity | exact Hk].
          -- rewrite (step_set_pre s _ pre' args Es). exact Ev.
          -- apply state_eq_sym. exact Hx.
        * exfalso. pose proof (Hsimp (a_pre (ce_variant a sel)) (mk_interp P s (zip_params (a_params (ce_variant a sel)) args))) as H.
          rewrite Es in H. rewrite spec_step_unfold in Ev. cbv zeta in Ev. rewrite H in Ev. discriminate.
      + unfold ce_kept in Ek. apply andb_false_iff in Ek. destruct Ek as [Ek|Ek].
        * exfalso. pose proof (Hconf s args i a HG Ha Ek) as Hn. unfold applicable in Hn. rewrite E in Hn. discriminate.
        * left. apply negb_false_iff in Ek. apply is_nil_eq in Ek.
          intros f x. apply (ce_dropped_empty_is_noop P s a args Hok Ek t E).
    - right. exists i, a, t. split; [|split; [exact E | apply state_eq_refl]].
      unfold tbl, cer_table. apply in_flat_map. exists (i, a). split; [exact Ha|]. cbn [fst snd]. rewrite Ec. left; reflexivity.
  Qed.

  Theorem cer_complete s0 pi : G s0 -> valid_plan false P s0 pi = true ->
    exists pi', valid_plan false (cer_compile simp_pre nm P) s0 pi' = true /\ length pi' <= length pi /\
                sub_noop_eq P s0 pi (vt_map_back (cer_table simp_pre nm P) pi').
  Proof.
    exact (lift_complete P P' tbl eq_refl eq_refl eq_refl eq_refl eq_refl Hu' G Gstep (fun s _ => eq_refl) cer_Hcomplete s0 pi).
  Qed.
End CERProofs.

(* ================================================================== 3. DisjunctiveConditionsRemover *)
Section DCRProofs.
  Variable cdnf : expr -> list expr.
  Variable pre_dnf : action -> list (list expr).
  Variable nm : N -> nat -> N.
  Variable P : problem.
  Variable goals' : list expr.
  Let tbl := dcr_table cdnf pre_dnf nm P.
  Let P' := dcr_compile cdnf pre_dnf nm P goals'.
  Hypothesis Hu : unique_ids P.
  Hypothesis Hu' : unique_ids P'.

  Variable G : state -> Prop.
  Hypothesis Gstep : forall s aid a args t, G s -> lookup_action P aid = Some a -> spec_step false P s a args = Some t -> G t.
  (* the hypotheses of the C37 theorems on the states of G: effect conditions and their supplied disjuncts are defined
     Booleans, "some disjunct holds iff the condition holds", only assignments are split into several copies
     (an increase split per disjunct is finding C06-dcr-increase-per-disjunct), ... *)
  Hypothesis Heffs : forall s args i a, G s -> In (i, a) (p_actions P) ->
    Forall (dnf_effect_ok cdnf P s a args) (a_effs a).
  (* ... the supplied disjuncts of the preconditions are equivalent to the preconditions (C12) ... *)
  Hypothesis Hpre : forall s args i a, G s -> In (i, a) (p_actions P) ->
    existsb (all_hold false (mk_interp P s (zip_params (a_params a) args))) (pre_dnf a) =
    all_hold false (mk_interp P s (zip_params (a_params a) args)) (a_pre a).
  (* ... and so are the compiled goals (the conjuncts of the goals' DNF) *)
  Hypothesis Hgoals : forall s, G s ->
    all_hold false (mk_interp P s []) goals' = all_hold false (mk_interp P s []) (p_goals P).

  Lemma dcr_table_In id' i a' : In (id', i, a') tbl ->
    exists a d, In (i, a) (p_actions P) /\ In d (pre_dnf a) /\ a' = dnf_variant cdnf a d /\ dnf_kept a' = true.
  Proof.
    unfold tbl, dcr_table. intros H. apply in_flat_map in H. destruct H as [[j a] [Hin H]]. cbn [fst snd] in H.
    apply in_map_iff in H. destruct H as [[k v] [E Hk]]. cbn [fst snd] in E. inversion E; subst.
    apply number_from_In in Hk. unfold dnf_variants in Hk. apply filter_In in Hk. destruct Hk as [Hk Hkept].
    apply in_map_iff in Hk. destruct Hk as [d [<- Hd]]. exists a, d. repeat split; assumption.
  Qed.

  Lemma disjunct_implies s args i a d : G s -> In (i, a) (p_actions P) -> In d (pre_dnf a) ->
    all_hold false (mk_interp P s (zip_params (a_params a) args)) d = true ->
    all_hold false (mk_interp P s (zip_params (a_params a) args)) (a_pre a) = true.
  Proof.
    intros HG Ha Hd H. rewrite <- (Hpre s args i a HG Ha). apply existsb_exists. exists d. split; assumption.
  Qed.

  Lemma dcr_Hsound id' i a' : In (id', i, a') tbl ->
    exists a, lookup_action P i = Some a /\
      forall s args t', G s -> spec_step false P s a' args = Some t' ->
        exists t, spec_step false P s a args = Some t /\ state_eq t t'.
  Proof.
    intros Hin. destruct (dcr_table_In id' i a' Hin) as (a & d & Ha & Hd & -> & _). exists a.
    split; [apply lookupN_unique; assumption|].
    intros s args t' HG E.
    assert (Happ : applicable P s (dnf_variant cdnf a d) args = true) by (unfold applicable; rewrite E; reflexivity).
    pose proof (dnf_variant_same_successor cdnf P s a args (Heffs s args i a HG Ha) d
                  (disjunct_implies s args i a d HG Ha Hd) Happ) as Hx.
    rewrite E in Hx. destruct (spec_step false P s a args) as [t|]; [|destruct Hx].
    exists t. split; [reflexivity | apply state_eq_sym; exact Hx].
  Qed.

  Lemma dcr_goal s : G s -> goals_hold false P' s = goals_hold false P s.
  Proof. intros HG. unfold goals_hold. change (mk_interp P' s []) with (mk_interp P s []). apply Hgoals. exact HG. Qed.

  Theorem dcr_sound s0 pi' : G s0 ->
    valid_plan false (dcr_compile cdnf pre_dnf nm P goals') s0 pi' = true ->
    valid_plan false P s0 (vt_map_back (dcr_table cdnf pre_dnf nm P) pi') = true.
  Proof.
    exact (lift_sound P P' tbl eq_refl eq_refl eq_refl eq_refl eq_refl Hu' G Gstep dcr_goal dcr_Hsound s0 pi').
  Qed.

  (* a variant left out after UPConflictingEffectsException (fix faaf4e7) loses nothing: C37_dnf_conflict_drop_sound
     proves this hypothesis under the conditions stated there *)
  Hypothesis Hconf : forall s args i a d, G s -> In (i, a) (p_actions P) -> In d (pre_dnf a) ->
    add_effs_ok [] [] (a_effs (dnf_variant cdnf a d)) = false ->
    all_hold false (mk_interp P s (zip_params (a_params a) args)) d = true -> applicable P s a args = false.

  Lemma dcr_Hcomplete i a s args t : G s -> lookup_action P i = Some a -> spec_step false P s a args = Some t ->
    (forall f x, t f x = s f x) \/
    exists id' a' t', In (id', i, a') tbl /\ spec_step false P s a' args = Some t' /\ state_eq t t'.
  Proof.
    intros HG EL E. assert (Ha : In (i, a) (p_actions P)) by (apply lookupN_In; exact EL).
    pose proof (Heffs s args i a HG Ha) as Hok.
    assert (Happ : applicable P s a args = true) by (unfold applicable; rewrite E; reflexivity).
    apply (dnf_applicable_iff_some_variant cdnf P s a args Hok (pre_dnf a) (Hpre s args i a HG Ha)) in Happ.
    destruct Happ as [d [Hd Hv]].
    set (v := dnf_variant cdnf a d) in *.
    destruct (dnf_kept v) eqn:Ek.
    - right.
      pose proof (dnf_variant_same_successor cdnf P s a args Hok d (disjunct_implies s args i a d HG Ha Hd) Hv) as Hx.
      fold v in Hx. rewrite E in Hx. destruct (spec_step false P s v args) as [t'|] eqn:Ev; [|destruct Hx].
      assert (Hin : In v (dnf_variants cdnf a (pre_dnf a))).
      { unfold dnf_variants. apply filter_In. split; [apply in_map; exact Hd | exact Ek]. }
      destruct (In_number_from _ _ Hin 0) as [k Hk].
      exists (nm i k), v, t'. split; [|split; [exact Ev | apply state_eq_sym; exact Hx]].
      unfold tbl, dcr_table. apply in_flat_map. exists (i, a). split; [exact Ha|]. cbn [fst snd].
      apply in_map_iff. exists (k, v). split; [reflexivity | exact Hk].
    - unfold dnf_kept in Ek. apply andb_false_iff in Ek. destruct Ek as [Ek|Ek].
      + exfalso. unfold v in Hv, Ek. rewrite dnf_variant_applicable in Hv by exact Hok. apply andb_true_iff in Hv. destruct Hv as [Hv _].
        pose proof (Hconf s args i a d HG Ha Hd Ek Hv) as Hn. unfold applicable in Hn. rewrite E in Hn. discriminate.
      + left. apply negb_false_iff in Ek. apply is_nil_eq in Ek. unfold v in Ek. cbn [dnf_variant a_effs] in Ek.
        intros f x. apply (dnf_dropped_empty_is_noop cdnf P s a args Hok Ek t E).
  Qed.

  Theorem dcr_complete s0 pi : G s0 -> valid_plan false P s0 pi = true ->
    exists pi', valid_plan false (dcr_compile cdnf pre_dnf nm P goals') s0 pi' = true /\ length pi' <= length pi /\
                sub_noop_eq P s0 pi (vt_map_back (dcr_table cdnf pre_dnf nm P) pi').
  Proof.
    exact (lift_complete P P' tbl eq_refl eq_refl eq_refl eq_refl eq_refl Hu' G Gstep dcr_goal dcr_Hcomplete s0 pi).
  Qed.
End DCRProofs.
