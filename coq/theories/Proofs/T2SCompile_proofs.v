(* C28 (whole plan) - lemmas about the model of plan_back_conversion_callable over the records of Planning/Temporal.v
   ([back_plan], Compilers/T2SCompile.v): the converted plan is well formed, keeps the action instances in order, its
   steps are chained (start_{i+1} = end_i + epsilon) hence pairwise disjoint and ordered, and every chosen duration
   satisfies the reference semantics' duration test [dur_ok] in the state in which the compiled step is applied,
   whenever the duration interval is not empty there. *)
From Coq Require Import List ZArith NArith QArith Qcanon Bool Lia Lqa.
Import ListNotations.
Require Import UPV.Core.Expr UPV.Core.Eval UPV.Core.Interp UPV.Planning.Problem UPV.Planning.Sem.
Require Import UPV.Planning.Temporal UPV.Planning.TTValidate UPV.Walkers.Subst UPV.Compilers.T2SCompile.
Require Import UPV.Proofs.Eval_lemmas UPV.Proofs.Step_proofs UPV.Proofs.Temporal_base UPV.Proofs.Temporal_dense.
Require Import UPV.Proofs.Temporal_joint UPV.Proofs.Temporal_run UPV.Proofs.Temporal_proofs.
Local Open Scope Qc_scope.

Definition seq_of_t (tpl : tplan) : list (N * list value) := map (fun st => (ps_act st, ps_args st)) tpl.

Definition next_now (eps now : Qc) (odur : option Qc) : Qc :=
  match odur with Some dt => now + dt + eps | None => now + eps end.

(* one iteration of the loop *)
Lemma back_plan_cons sc TP P' eps aid args rest now s tpl :
  back_plan sc TP P' eps now s ((aid, args) :: rest) = Some tpl ->
  exists a' s' r odur,
    lookup_action P' aid = Some a' /\ spec_step sc P' s a' args = Some s' /\
    tpl = {| ps_start := now; ps_act := aid; ps_args := args; ps_dur := odur |} :: r /\
    back_plan sc TP P' eps (next_now eps now odur) s' rest = Some r /\
    match odur with
    | None => exists ai, lookup_tact TP aid = Some (TInst ai)
    | Some dt => exists d, lookup_tact TP aid = Some (TDur d) /\ step_dur sc (tp_base TP) s d args = Some dt
    end.
Proof.
  cbn [back_plan]. intros H.
  destruct (lookup_action P' aid) as [a'|]; [|discriminate].
  destruct (lookup_tact TP aid) as [[ai|d]|]; [| |discriminate].
  - destruct (spec_step sc P' s a' args) as [s'|] eqn:Sp; [|discriminate].
    destruct (back_plan sc TP P' eps (now + eps) s' rest) as [r|] eqn:E; [|discriminate].
    cbn [option_map] in H. inversion H as [Ht].
    exists a', s', r, None. split; [reflexivity|]. split; [exact Sp|]. split; [reflexivity|].
    split; [exact E | exists ai; reflexivity].
  - destruct (step_dur sc (tp_base TP) s d args) as [dt|] eqn:D; [|discriminate].
    destruct (spec_step sc P' s a' args) as [s'|] eqn:Sp; [|discriminate].
    destruct (back_plan sc TP P' eps (now + dt + eps) s' rest) as [r|] eqn:E; [|discriminate].
    cbn [option_map] in H. inversion H as [Ht].
    exists a', s', r, (Some dt). split; [reflexivity|]. split; [exact Sp|]. split; [reflexivity|].
    split; [exact E | exists d; split; [reflexivity | exact D]].
Qed.

(* the converted plan has the same action instances in the same order *)
Lemma back_plan_seq sc TP P' eps : forall pi now s tpl,
  back_plan sc TP P' eps now s pi = Some tpl -> seq_of_t tpl = pi.
Proof.
  induction pi as [|[aid args] rest IH]; intros now s tpl H.
  - cbn in H. inversion H. reflexivity.
  - destruct (back_plan_cons _ _ _ _ _ _ _ _ _ _ H) as (a' & s' & r & od & _ & _ & -> & Hr & _).
    cbn. f_equal. exact (IH _ _ _ Hr).
Qed.

(* ... is well formed: durative actions come with a duration, instantaneous ones without *)
Lemma back_plan_wf sc TP P' eps : forall pi now s tpl,
  back_plan sc TP P' eps now s pi = Some tpl -> plan_wf TP tpl = true.
Proof.
  induction pi as [|[aid args] rest IH]; intros now s tpl H.
  - cbn in H. inversion H. reflexivity.
  - destruct (back_plan_cons _ _ _ _ _ _ _ _ _ _ H) as (a' & s' & r & od & _ & _ & -> & Hr & Hk).
    unfold plan_wf. cbn [forallb]. fold (plan_wf TP r). rewrite (IH _ _ _ Hr), andb_true_r.
    unfold step_wf. cbn [ps_act ps_dur]. destruct od as [dt|].
    + destruct Hk as (d & -> & _). reflexivity.
    + destruct Hk as (ai & ->). reflexivity.
Qed.

(* ------------------------------------------------------------------ spacing *)
Fixpoint chained_t (eps now : Qc) (tpl : tplan) : Prop :=
  match tpl with
  | [] => True
  | st :: r => ps_start st = now /\ chained_t eps (next_now eps now (ps_dur st)) r
  end.

Definition dur_t (st : pstep) : Qc := match ps_dur st with Some d => d | None => zq 0 end.
Definition end_t (st : pstep) : Qc := ps_start st + dur_t st.

Lemma back_plan_chained sc TP P' eps : forall pi now s tpl,
  back_plan sc TP P' eps now s pi = Some tpl -> chained_t eps now tpl.
Proof.
  induction pi as [|[aid args] rest IH]; intros now s tpl H.
  - cbn in H. inversion H. exact I.
  - destruct (back_plan_cons _ _ _ _ _ _ _ _ _ _ H) as (a' & s' & r & od & _ & _ & -> & Hr & _).
    cbn [chained_t ps_start ps_dur]. split; [reflexivity | exact (IH _ _ _ Hr)].
Qed.

Lemma zq0_this : this (zq 0) = 0%Q.
Proof. reflexivity. Qed.

Lemma next_now_gt eps now od : zq 0 < eps -> zq 0 <= match od with Some d => d | None => zq 0 end ->
  now + match od with Some d => d | None => zq 0 end < next_now eps now od.
Proof.
  intros He Hd. unfold next_now. destruct od as [d|]; unfold Qclt, Qcle, Qcplus in *; cbn [this Q2Qc] in *;
    rewrite ?Qred_correct; rewrite zq0_this in *; lra.
Qed.

Lemma chained_after eps : zq 0 < eps -> forall tpl now,
  chained_t eps now tpl -> Forall (fun st => zq 0 <= dur_t st) tpl -> Forall (fun st => now <= ps_start st) tpl.
Proof.
  intros He. induction tpl as [|st r IH]; intros now C D; [constructor|].
  cbn [chained_t] in C. destruct C as [C1 C2]. pose proof (Forall_inv D) as D1; pose proof (Forall_inv_tail D) as D2. cbn beta in D1. constructor.
  - rewrite C1. apply Qcle_refl.
  - pose proof (next_now_gt eps now (ps_dur st) He D1) as G.
    specialize (IH _ C2 D2). eapply Forall_impl; [|exact IH]. cbn beta. intros x Hx.
    assert (L : now <= now + match ps_dur st with Some d => d | None => zq 0 end).
    { unfold dur_t in D1. unfold Qcle, Qcplus in *. cbn [this Q2Qc] in *. rewrite ?Qred_correct. rewrite zq0_this in *. lra. }
    unfold Qclt, Qcle in *. lra.
Qed.

(* every step ends strictly before every later step starts *)
Lemma chained_ordered eps : zq 0 < eps -> forall tpl now,
  chained_t eps now tpl -> Forall (fun st => zq 0 <= dur_t st) tpl ->
  ForallOrdPairs (fun a b => end_t a < ps_start b) tpl.
Proof.
  intros He. induction tpl as [|st r IH]; intros now C D; [constructor|].
  cbn [chained_t] in C. destruct C as [C1 C2]. pose proof (Forall_inv D) as D1; pose proof (Forall_inv_tail D) as D2. cbn beta in D1. constructor; [|exact (IH _ C2 D2)].
  pose proof (next_now_gt eps now (ps_dur st) He D1) as G.
  pose proof (chained_after eps He r _ C2 D2) as A.
  eapply Forall_impl; [|exact A]. cbn beta. intros x Hx. unfold end_t, dur_t. rewrite C1.
  eapply Qclt_le_trans; [exact G | exact Hx].
Qed.

(* ------------------------------------------------------------------ the chosen duration *)
Lemma choose_dur_mid l h : choose_dur l h true = mid l h.
Proof. reflexivity. Qed.

Lemma step_dur_ok sc TP s d args dt :
  step_dur sc (tp_base TP) s d args = Some dt ->
  dur_nonempty sc (tp_base TP) s (zip_params (d_params d) args) d = true ->
  dur_ok sc TP s (zip_params (d_params d) args) d dt = true.
Proof.
  unfold step_dur, bound_val, dur_nonempty, dur_ok.
  set (I := mk_interp (tp_base TP) s (zip_params (d_params d) args)).
  destruct (eval sc (d_lo d) I) as [[b|l|o]|]; cbn [as_num]; try discriminate.
  destruct (eval sc (d_hi d) I) as [[b|h|o]|]; cbn [as_num]; try (destruct (d_lopen d); discriminate).
  destruct (d_lopen d), (d_ropen d); cbn [orb choose_dur]; intros E N; inversion E; subst dt; qb.
  - destruct (mid_lt l h N) as [A B]. apply andb_true_iff. split; apply qc_ltb_lt; assumption.
  - destruct (mid_lt l h N) as [A B]. apply andb_true_iff. split; [apply qc_ltb_lt; assumption|].
    apply qc_leb_le. apply Qclt_le_weak. exact B.
  - apply andb_true_iff. split; [apply qc_leb_le, Qcle_refl | apply qc_ltb_lt; assumption].
  - apply andb_true_iff. split; [apply qc_leb_le, Qcle_refl | apply qc_leb_le; assumption].
Qed.

(* along the compiled plan: every durative step's duration passes [dur_ok] in the state where the step is applied *)
Fixpoint durs_ok (sc : bool) (TP : tproblem) (P' : problem) (s : state) (pi : list (N * list value)) (tpl : tplan) : Prop :=
  match pi, tpl with
  | [], [] => True
  | (aid, args) :: rest, st :: r =>
      match lookup_tact TP aid, ps_dur st with
      | Some (TDur d), Some dt =>
          dur_nonempty sc (tp_base TP) s (zip_params (d_params d) args) d = true ->
          dur_ok sc TP s (zip_params (d_params d) args) d dt = true
      | Some (TInst _), None => True
      | _, _ => False
      end /\
      match lookup_action P' aid with
      | Some a' => match spec_step sc P' s a' args with Some s' => durs_ok sc TP P' s' rest r | None => False end
      | None => False
      end
  | _, _ => False
  end.

Lemma back_plan_durs_ok sc TP P' eps : forall pi now s tpl,
  back_plan sc TP P' eps now s pi = Some tpl -> durs_ok sc TP P' s pi tpl.
Proof.
  induction pi as [|[aid args] rest IH]; intros now s tpl H.
  - cbn in H. inversion H. exact I.
  - destruct (back_plan_cons _ _ _ _ _ _ _ _ _ _ H) as (a' & s' & r & od & La & Sp & -> & Hr & Hk).
    cbn [durs_ok ps_dur]. rewrite La, Sp. split; [|exact (IH _ _ _ Hr)].
    destruct od as [dt|].
    + destruct Hk as (d & -> & D). intros N. exact (step_dur_ok sc TP s d args dt D N).
    + destruct Hk as (ai & ->). exact I.
Qed.

(* a non-negative lower bound gives a non-negative duration (used to discharge the hypothesis of [chained_ordered]) *)
Lemma back_plan_first sc TP P' eps pi now s st r :
  back_plan sc TP P' eps now s pi = Some (st :: r) -> ps_start st = now.
Proof.
  destruct pi as [|[aid args] rest]; intros H; [cbn in H; discriminate|].
  destruct (back_plan_cons _ _ _ _ _ _ _ _ _ _ H) as (a' & s' & r' & od & _ & _ & E & _). inversion E. reflexivity.
Qed.

(* the part of the whole-plan statement that holds for every input *)
Lemma back_plan_partial sc TP P' eps s0 pi tpl :
  zq 0 < eps ->
  back_plan sc TP P' eps (zq 0) s0 pi = Some tpl ->
  (forall st dt, In st tpl -> ps_dur st = Some dt -> zq 0 < dt) ->
  plan_wf TP tpl = true /\ seq_of_t tpl = pi /\ chained_t eps (zq 0) tpl /\
  ForallOrdPairs (fun a b => end_t a < ps_start b) tpl /\ durs_ok sc TP P' s0 pi tpl.
Proof.
  intros He H Pos.
  split; [exact (back_plan_wf _ _ _ _ _ _ _ _ H)|]. split; [exact (back_plan_seq _ _ _ _ _ _ _ _ H)|].
  pose proof (back_plan_chained _ _ _ _ _ _ _ _ H) as C. split; [exact C|].
  split; [|exact (back_plan_durs_ok _ _ _ _ _ _ _ _ H)].
  apply (chained_ordered eps He tpl (zq 0) C). apply Forall_forall. intros st Hin. unfold dur_t.
  destruct (ps_dur st) as [dt|] eqn:E; [|apply Qcle_refl].
  apply Qclt_le_weak. exact (Pos st dt Hin E).
Qed.

(* ================================================================================================================ *)
(* Whole-plan validity for the sub-fragment [no_start_fragment]                                                      *)
(* ================================================================================================================ *)

(* ---------------------------------------------------------------- reflection of the boolean checks *)
Lemma is_true_eq e : is_true e = true -> e = EBool true.
Proof. destruct e; cbn; try discriminate. destruct b; [reflexivity | discriminate]. Qed.

Lemma kind_eqb_eq a b : kind_eqb a b = true -> a = b.
Proof. destruct a, b; cbn; try discriminate; reflexivity. Qed.

Lemma effect_eqb_eq a b : effect_eqb a b = true -> a = b.
Proof.
  destruct a as [f1 a1 v1 c1 k1 x1 b1], b as [f2 a2 v2 c2 k2 x2 b2]. unfold effect_eqb. simpl.
  rewrite !andb_true_iff. intros [[[[[[H1 H2] H3] H4] H5] H6] H7].
  apply N.eqb_eq in H1. apply expr_eqb_eq in H3. apply expr_eqb_eq in H4. apply kind_eqb_eq in H5.
  apply vars_eqb_eq in H6. apply Bool.eqb_prop in H7.
  apply (list_expr_eqb_eq a1) in H2; [|apply Forall_forall; intros x _; apply expr_eqb_eq].
  subst. reflexivity.
Qed.

Lemma effects_eqb_eq a : forall b, effects_eqb a b = true -> a = b.
Proof.
  induction a as [|x a IH]; intros [|y b]; cbn; try discriminate; [reflexivity|].
  rewrite andb_true_iff. intros [H1 H2]. apply effect_eqb_eq in H1. apply IH in H2. subst. reflexivity.
Qed.

Lemma holds_true sc I : holds sc I (EBool true) = true.
Proof. reflexivity. Qed.

Lemma covered_holds sc I pre c : all_hold sc I pre = true -> covered pre c = true -> holds sc I c = true.
Proof.
  intros A C. unfold covered in C. apply orb_true_iff in C. destruct C as [C|C].
  - apply is_true_eq in C. subst. apply holds_true.
  - unfold mem_expr in C. apply existsb_exists in C. destruct C as [x [Hin E]]. apply expr_eqb_eq in E. subst x.
    unfold all_hold in A. rewrite forallb_forall in A. apply A. exact Hin.
Qed.

(* ---------------------------------------------------------------- plain effects fire like the originals *)
Section Plain.
  Variable sc : bool.
  Variable smp : expr -> expr.
  Hypothesis OK : forall e I, eval sc (smp e) I = eval sc e I.

  Lemma holds_smp I c : holds sc I (smp c) = holds sc I c.
  Proof. unfold holds. rewrite OK. reflexivity. Qed.

  Lemma eval_effect_plain J e :
    plain_assign e = true -> eval_effect sc J (mk_assign e (smp (e_val e))) = eval_effect sc J e.
  Proof.
    unfold plain_assign, eff_plain. rewrite !andb_true_iff. intros [[C _] K].
    apply is_true_eq in C. unfold eval_effect, mk_assign. cbn [e_args e_cond e_val e_fl e_kind].
    rewrite C, OK. destruct (e_kind e); try discriminate. reflexivity.
  Qed.

  Lemma fired_plain I l :
    forallb plain_assign l = true -> fired sc I (map (fun e => mk_assign e (smp (e_val e))) l) = fired sc I l.
  Proof.
    intros H. unfold fired. f_equal. induction l as [|e l IH]; [reflexivity|].
    cbn [forallb] in H. apply andb_true_iff in H. destruct H as [He Hl].
    cbn [map flat_map]. rewrite (IH Hl). f_equal.
    assert (V : e_vars e = []).
    { unfold plain_assign, eff_plain in He. rewrite !andb_true_iff in He. destruct He as [[_ V] _].
      destruct (e_vars e); [reflexivity | discriminate]. }
    change (e_vars (mk_assign e (smp (e_val e)))) with (@nil (N * N)). rewrite V. cbn [instances map].
    f_equal. apply eval_effect_plain. exact He.
  Qed.
End Plain.

(* ---------------------------------------------------------------- one event of one source = the sequential step *)
Lemma one_source_tag (x : src) acts k : one_source (assigners k (map (fun a => (x, a)) acts)) = true.
Proof.
  apply one_source_spec. intros a b Ha Hb. unfold assigners in *.
  apply in_map_iff in Ha. destruct Ha as [[a1 a2] [Ea Fa]]. apply filter_In in Fa. destruct Fa as [Fa _].
  apply in_map_iff in Fa. destruct Fa as [w [Ew _]]. inversion Ew; subst.
  apply in_map_iff in Hb. destruct Hb as [[b1 b2] [Eb Fb]]. apply filter_In in Fb. destruct Fb as [Fb _].
  apply in_map_iff in Fb. destruct Fb as [w' [Ew' _]]. inversion Ew'; subst. reflexivity.
Qed.

Lemma joint_fluent_tag P s (x : src) acts k :
  joint_fluent P s (map (fun a => (x, a)) acts) k = spec_fluent P s acts k.
Proof.
  unfold joint_fluent. rewrite one_source_tag.
  replace (map snd (map (fun a => (x, a)) acts)) with acts; [reflexivity|].
  rewrite map_map. symmetry. apply map_id.
Qed.

Lemma ref_apply_single sc P s (x : src) bind effs acts t :
  fired sc (mk_interp P s bind) effs = Some acts -> spec_effects_ok P s acts = true ->
  exists s1, ref_apply sc P s [ {| ev_time := t; ev_src := x; ev_bind := bind; ev_effs := effs |} ] = Some s1 /\
             state_eq s1 (spec_succ P s acts).
Proof.
  intros F E. unfold ref_apply. cbn [fire_events ev_bind ev_effs ev_src]. rewrite F, app_nil_r.
  assert (J : joint_ok P s (map (fun a => (x, a)) acts) = true).
  { unfold joint_ok. apply forallb_forall. intros y Hy. apply in_map_iff in Hy. destruct Hy as [a [<- Ha]].
    cbn [snd]. rewrite joint_fluent_tag. unfold spec_effects_ok in E. rewrite forallb_forall in E. exact (E a Ha). }
  rewrite J. eexists. split; [reflexivity|]. intros f a. unfold joint_succ, spec_succ. rewrite joint_fluent_tag. reflexivity.
Qed.

Lemma spec_step_inv sc P s a args s' :
  spec_step sc P s a args = Some s' ->
  all_hold sc (mk_interp P s (zip_params (a_params a) args)) (a_pre a) = true /\
  exists acts, fired sc (mk_interp P s (zip_params (a_params a) args)) (a_effs a) = Some acts /\
               spec_effects_ok P s acts = true /\ s' = spec_succ P s acts.
Proof.
  unfold spec_step. destruct (all_hold sc _ (a_pre a)) eqn:A; cbn [negb]; [|discriminate].
  destruct (fired sc _ (a_effs a)) as [acts|] eqn:F; [|discriminate].
  destruct (spec_effects_ok P s acts) eqn:E; cbn [negb]; [|discriminate].
  destruct (invariants_ok sc P (spec_succ P s acts)); [|discriminate].
  intros H. inversion H. split; [reflexivity|]. exists acts. split; [reflexivity|]. split; [exact E | reflexivity].
Qed.

(* P' differs from P at most in its actions (the compiled problem) *)
Definition same_base (P P' : problem) : Prop :=
  p_fluents P' = p_fluents P /\ p_ifun P' = p_ifun P /\ p_objs P' = p_objs P /\ p_goals P' = p_goals P.

Lemma mk_interp_base P P' s t b : same_base P P' -> state_eq s t -> interp_eq (mk_interp P' s b) (mk_interp P t b).
Proof.
  intros (_ & Hi & Ho & _) H. repeat split; cbn; auto.
  - intros f a. rewrite Hi. reflexivity.
  - intros ty. unfold objs_of. rewrite Ho. reflexivity.
Qed.

Lemma spec_fluent_base P P' s t acts k : same_base P P' -> state_eq s t -> spec_fluent P' s acts k = spec_fluent P t acts k.
Proof.
  intros (Hf & _) H. unfold spec_fluent, is_bool_fluent. rewrite Hf, (H (fst k) (snd k)). reflexivity.
Qed.

(* ---------------------------------------------------------------- the single-step simulation, no start effects *)
Section StepNoStart.
  Variable sc : bool.
  Variable smp : expr -> expr.
  Hypothesis OK : forall e I, eval sc (smp e) I = eval sc e I.
  Variable P P' : problem.
  Hypothesis SB : same_base P P'.

  (* every condition the compiler keeps holds wherever the compiled preconditions hold *)
  Lemma conds_hold d pre I :
    all_hold sc I pre = true -> conds_covered smp d pre = true ->
    forall ic c, In ic (d_conds d) -> In c (snd ic) ->
      (is_start0 (ti_lo (fst ic)) && negb (ti_lopen (fst ic)) = true -> holds sc I c = true) /\
      (is_end0 (ti_hi (fst ic)) = true -> holds sc I c = true).
  Proof.
    intros A C ic c Hic Hc. unfold conds_covered in C. rewrite forallb_forall in C. specialize (C ic Hic).
    cbn zeta in C. apply andb_true_iff in C. destruct C as [C1 C2]. split; intros E.
    - rewrite E in C1. rewrite forallb_forall in C1. exact (covered_holds sc I pre c A (C1 c Hc)).
    - rewrite E in C2. rewrite forallb_forall in C2. rewrite <- (holds_smp sc smp OK).
      exact (covered_holds sc I pre (smp c) A (C2 c Hc)).
  Qed.

  (* the compiled step applied in s_s  =  the end event of the durative action applied alone in s_t (s_t = s_s
     extensionally); the compiled preconditions hold in s_t *)
  Lemma dur_step d a' l args (s_s s_t s_s' : state) (x : src) t :
    forallb plain_assign l = true ->
    a_effs a' = map (fun e => mk_assign e (smp (e_val e))) l -> a_params a' = d_params d ->
    state_eq s_t s_s -> spec_step sc P' s_s a' args = Some s_s' ->
    all_hold sc (mk_interp P s_t (zip_params (d_params d) args)) (a_pre a') = true /\
    exists s_t', ref_apply sc P s_t [ {| ev_time := t; ev_src := x; ev_bind := zip_params (d_params d) args;
                                         ev_effs := l |} ] = Some s_t' /\ state_eq s_t' s_s'.
  Proof.
    intros PL EF EP SE SP. apply spec_step_inv in SP. rewrite EP, EF in SP. destruct SP as [A [acts [F [E ->]]]].
    assert (SE' : state_eq s_s s_t) by (intros f a; symmetry; apply SE).
    pose proof (mk_interp_base P P' s_s s_t (zip_params (d_params d) args) SB SE') as IE.
    split; [rewrite <- (all_hold_ext sc _ _ (a_pre a') IE); exact A|].
    rewrite (fired_ext sc _ _ _ IE) in F. rewrite (fired_plain sc smp OK _ l PL) in F.
    assert (E' : spec_effects_ok P s_t acts = true).
    { unfold spec_effects_ok in *. rewrite forallb_forall in *. intros a Ha.
      rewrite <- (spec_fluent_base P P' s_s s_t acts (ae_key a) SB SE'). exact (E a Ha). }
    destruct (ref_apply_single sc P s_t x _ l acts t F E') as [s1 [R1 R2]]. exists s1. split; [exact R1|].
    intros f a. rewrite (R2 f a). unfold spec_succ.
    rewrite (spec_fluent_base P P' s_s s_t acts (f, a) SB SE'). rewrite (SE f a). reflexivity.
  Qed.

  Lemma step_no_start_effects d a' args (s_s s_t s_s' : state) (x : src) t :
    plain_step smp d a' = true -> a_params a' = d_params d ->
    state_eq s_t s_s -> spec_step sc P' s_s a' args = Some s_s' ->
    exists l, only_end_effs d = Some l /\
      (forall ic c, In ic (d_conds d) -> In c (snd ic) ->
         (is_start0 (ti_lo (fst ic)) && negb (ti_lopen (fst ic)) = true \/ is_end0 (ti_hi (fst ic)) = true) ->
         holds sc (mk_interp P s_t (zip_params (d_params d) args)) c = true) /\
      exists s_t', ref_apply sc P s_t [ {| ev_time := t; ev_src := x; ev_bind := zip_params (d_params d) args;
                                           ev_effs := l |} ] = Some s_t' /\ state_eq s_t' s_s'.
  Proof.
    unfold plain_step. destruct (only_end_effs d) as [l|]; [|discriminate].
    rewrite !andb_true_iff. intros [[PL EF] CC] EP SE SP. apply effects_eqb_eq in EF.
    destruct (dur_step d a' l args s_s s_t s_s' x t PL EF EP SE SP) as [A R].
    exists l. split; [reflexivity|]. split; [|exact R].
    intros ic c Hic Hc K. destruct (conds_hold d (a_pre a') _ A CC ic c Hic Hc) as [K1 K2].
    destruct K as [K|K]; [exact (K1 K) | exact (K2 K)].
  Qed.
End StepNoStart.

(* ================================================================================================================ *)
(* Composition: the whole converted plan, sub-fragment [no_start_fragment]                                           *)
(* ================================================================================================================ *)
Fixpoint nonempty_along (sc : bool) (TP : tproblem) (P' : problem) (s : state) (pi : list (N * list value)) : Prop :=
  match pi with
  | [] => True
  | (aid, args) :: rest =>
      match lookup_tact TP aid with
      | Some (TDur d) => dur_nonempty sc (tp_base TP) s (zip_params (d_params d) args) d = true
      | _ => True
      end /\
      match lookup_action P' aid with
      | Some a' => match spec_step sc P' s a' args with Some s' => nonempty_along sc TP P' s' rest | None => True end
      | None => True
      end
  end.

Definition positive_durations (tpl : tplan) : Prop := forall st dt, In st tpl -> ps_dur st = Some dt -> zq 0 < dt.

(* ---------------------------------------------------------------- arithmetic and timings *)
Lemma lt_plus (s d : Qc) : zq 0 < d -> s < s + d.
Proof. intros H. unfold Qclt, Qcplus in *. cbn [this Q2Qc] in *. rewrite ?Qred_correct. rewrite zq0_this in H. lra. Qed.

Lemma plus_zq0 (s : Qc) : s + zq 0 = s.
Proof. apply Qcplus_0_r. Qed.

Lemma abs_time_start s d tm : is_start0 tm = true -> abs_time s d tm = s.
Proof.
  unfold is_start0, abs_time. destruct (tm_anchor tm); [|discriminate]. intros H. apply qc_is0_spec in H. rewrite H.
  apply plus_zq0.
Qed.

Lemma abs_time_end s d tm : is_end0 tm = true -> abs_time s d tm = s + d.
Proof.
  unfold is_end0, abs_time. destruct (tm_anchor tm); [discriminate|]. intros H. apply qc_is0_spec in H. rewrite H.
  apply plus_zq0.
Qed.

(* an instant of a condition interval of a durative action lies in [start, start + d]; the interval starts closed at
   the start or ends at the end (the other shapes are empty when 0 < d) *)
Lemma iv_facts s d iv u :
  end_point (ti_lo iv) = true -> end_point (ti_hi iv) = true -> zq 0 < d ->
  in_iv (abs_interval s d iv) u ->
  s <= u /\ u <= s + d /\
  (is_start0 (ti_lo iv) && negb (ti_lopen iv) = true \/ is_end0 (ti_hi iv) = true).
Proof.
  intros EL EH D [L U]. pose proof (lt_plus s d D) as SD.
  unfold abs_interval in *. cbn [ai_lo ai_hi ai_lopen ai_ropen] in *.
  unfold end_point in *. apply orb_true_iff in EL. apply orb_true_iff in EH.
  set (e := s + d) in *.
  destruct EL as [EL|EL]; [rewrite (abs_time_start s d _ EL) in L | rewrite (abs_time_end s d _ EL) in L; fold e in L];
  (destruct EH as [EH|EH]; [rewrite (abs_time_start s d _ EH) in U | rewrite (abs_time_end s d _ EH) in U; fold e in U]);
  rewrite ?EL, ?EH; destruct (ti_lopen iv), (ti_ropen iv); cbn [negb andb];
  unfold Qclt, Qcle in *;
  try (split; [lra | split; [lra | first [left; reflexivity | right; reflexivity]]]);
  try (exfalso; lra).
Qed.

Lemma state_at_cons_le s t s1 tr u : u <= t -> state_at s ((t, s1) :: tr) u = s.
Proof. intros H. cbn [state_at]. assert (E : qc_ltb t u = false) by (apply qc_ltb_false; exact H). rewrite E. reflexivity. Qed.

Lemma state_at_cons_lt s t s1 tr u : t < u -> state_at s ((t, s1) :: tr) u = state_at s1 tr u.
Proof. intros H. cbn [state_at]. assert (E : qc_ltb t u = true) by (apply qc_ltb_lt; exact H). rewrite E. reflexivity. Qed.

Lemma events_at_app t a b : events_at t (a ++ b) = events_at t a ++ events_at t b.
Proof. unfold events_at. apply filter_app. Qed.

(* ---------------------------------------------------------------- lookups in the compiled problem *)
Lemma lookupN_In {A} k (l : list (N * A)) v : lookupN k l = Some v -> In (k, v) l.
Proof.
  induction l as [|[k' v'] l IH]; cbn; [discriminate|]. destruct (k =? k')%N eqn:E.
  - intros H. inversion H. apply N.eqb_eq in E. subst. left. reflexivity.
  - intros H. right. exact (IH H).
Qed.

Lemma t2s_actions_lookup smp l : forall acts, t2s_actions smp l = Some acts ->
  forall aid d a', lookupN aid l = Some d -> lookupN aid acts = Some a' -> t2s_action smp d = Some a'.
Proof.
  induction l as [|[i d0] l IH]; intros acts H aid d a' L1 L2; cbn in *; [discriminate|].
  destruct (t2s_action smp d0) as [a0|] eqn:E0; [|discriminate].
  destruct (t2s_actions smp l) as [r|] eqn:Er; [|discriminate].
  inversion H; subst acts. cbn in L2. destruct (aid =? i)%N.
  - inversion L1; inversion L2; subst. exact E0.
  - exact (IH r eq_refl aid d a' L1 L2).
Qed.

Lemma t2s_action_params smp d a' : t2s_action smp d = Some a' -> a_params a' = d_params d.
Proof.
  unfold t2s_action. cbv zeta. destruct (negb (effs_supported d)); [discriminate|].
  match goal with |- context [match ?x with Some _ => _ | None => _ end] => destruct x end; [|discriminate].
  intros H. inversion H. reflexivity.
Qed.

Section Compose.
  Variable sc : bool.
  Variable smp : expr -> expr.
  Hypothesis OK : forall e I, eval sc (smp e) I = eval sc e I.
  Variable TP : tproblem.
  Let P := tp_base TP.
  Variable P' : problem.
  Variable eps : Qc.
  Hypothesis FR : no_start_fragment smp TP = true.
  Hypothesis CP : t2s_problem smp TP = Some P'.
  Hypothesis He : zq 0 < eps.

  Lemma frag_parts :
    t2s_fragment TP = true /\ p_actions P = [] /\
    forallb (fun id => match t2s_action smp (snd id) with Some a' => plain_step smp (snd id) a' | None => false end)
            (tp_dur TP) = true.
  Proof.
    unfold no_start_fragment in FR. rewrite !andb_true_iff in FR. destruct FR as [[A B] C].
    split; [exact A|]. split; [|exact C]. fold P in B. destruct (p_actions P); [reflexivity | discriminate].
  Qed.

  Lemma compiled_shape : exists acts, t2s_actions smp (tp_dur TP) = Some acts /\ same_base P P' /\
    forall aid, lookup_action P' aid = lookupN aid acts.
  Proof.
    unfold t2s_problem in CP. destruct (t2s_actions smp (tp_dur TP)) as [acts|]; [|discriminate].
    exists acts. split; [reflexivity|]. inversion CP as [E]. split; [repeat split|].
    intros aid. unfold lookup_action. cbn [p_actions]. destruct frag_parts as (_ & B & _). fold P. rewrite B. reflexivity.
  Qed.

  Lemma no_inst aid ai : lookup_tact TP aid = Some (TInst ai) -> False.
  Proof.
    unfold lookup_tact. destruct frag_parts as (_ & B & _). fold P. rewrite B. cbn.
    destruct (lookupN aid (tp_dur TP)); discriminate.
  Qed.

  Lemma action_facts aid d a' :
    lookup_tact TP aid = Some (TDur d) -> lookup_action P' aid = Some a' ->
    plain_step smp d a' = true /\ a_params a' = d_params d /\ conds_supported d = true.
  Proof.
    intros LT LA. destruct compiled_shape as (acts & TA & _ & LK). rewrite LK in LA.
    destruct frag_parts as (A & B & C).
    unfold lookup_tact in LT. fold P in LT. rewrite B in LT. cbn in LT.
    destruct (lookupN aid (tp_dur TP)) as [d0|] eqn:LD; [|discriminate]. inversion LT; subst d0.
    pose proof (t2s_actions_lookup smp _ acts TA aid d a' LD LA) as T.
    pose proof (lookupN_In _ _ _ LD) as Hin.
    rewrite forallb_forall in C. specialize (C _ Hin). cbn [snd] in C. rewrite T in C.
    split; [exact C|]. split; [exact (t2s_action_params smp d a' T)|].
    unfold t2s_fragment in A. rewrite !andb_true_iff in A. destruct A as [[_ A] _].
    rewrite forallb_forall in A. specialize (A _ Hin). cbn [snd] in A. apply andb_true_iff in A. exact (proj2 A).
  Qed.

  Lemma frag_empty : tp_teffs TP = [] /\ tp_tgoals TP = [] /\ p_invs P = [].
  Proof.
    destruct frag_parts as (A & _). unfold t2s_fragment in A. rewrite !andb_true_iff in A.
    destruct A as [[[[A1 A2] A3] _] _]. fold P in A3.
    destruct (tp_teffs TP); [|discriminate]. destruct (tp_tgoals TP); [|discriminate]. destruct (p_invs P); [|discriminate].
    repeat split.
  Qed.

  Definition Hk (k : nat) (tpl : tplan) : list event :=
    flat_map (fun ist => step_events TP (fst ist) (snd ist)) (indexed_from k tpl).

  Lemma step_events_end k st d dt l :
    lookup_tact TP (ps_act st) = Some (TDur d) -> ps_dur st = Some dt -> only_end_effs d = Some l ->
    step_events TP k st = [ {| ev_time := ps_start st + dt; ev_src := Some k;
                               ev_bind := zip_params (d_params d) (ps_args st); ev_effs := l |} ].
  Proof.
    intros LT PD OE. unfold step_events. rewrite LT, PD. unfold only_end_effs in OE.
    destruct (d_effs d) as [|[tm l0] [|]]; try discriminate. destruct (is_end0 tm) eqn:E; [|discriminate].
    inversion OE; subst l0. cbn [map fst snd]. rewrite (abs_time_end _ _ _ E). reflexivity.
  Qed.

  Lemma step_conds_in st d dt c :
    lookup_tact TP (ps_act st) = Some (TDur d) -> ps_dur st = Some dt -> In c (step_conds TP st) ->
    exists ic e, In ic (d_conds d) /\ In e (snd ic) /\
      c = {| tc_iv := abs_interval (ps_start st) dt (fst ic); tc_bind := zip_params (d_params d) (ps_args st); tc_expr := e |}.
  Proof.
    intros LT PD. unfold step_conds. rewrite LT, PD. intros H. apply in_flat_map in H. destruct H as [ic [H1 H2]].
    apply in_map_iff in H2. destruct H2 as [e [H2 H3]]. exists ic, e. repeat split; [exact H1 | exact H3 | symmetry; exact H2].
  Qed.

  (* the forward induction: temporal state s_t (= s_s extensionally), earlier events H0 strictly before [now] *)
  Lemma compose_run : forall pi k now (s_s s_t : state) tpl H0 s_fin,
    state_eq s_t s_s ->
    back_plan sc TP P' eps now s_s pi = Some tpl ->
    run P' (spec_step sc P') s_s pi = Some s_fin ->
    nonempty_along sc TP P' s_s pi -> positive_durations tpl ->
    (forall e, In e H0 -> ev_time e < now) ->
    exists tr, run_times (ref_apply sc P) (H0 ++ Hk k tpl) s_t (map ev_time (Hk k tpl)) = Some tr /\
      (forall st, In st tpl -> forall c, In c (step_conds TP st) -> cond_ok sc TP s_t tr c) /\
      (forall st, In st tpl -> Temporal.step_dur_ok sc TP s_t tr st = true) /\
      state_eq (final_state s_t tr) s_fin /\
      asc_from now (map ev_time (Hk k tpl)) /\
      (forall st, In st tpl -> forall c, In c (step_conds TP st) -> forall u, in_iv (tc_iv c) u -> now <= u).
  Proof.
    induction pi as [|[aid args] rest IH]; intros k now s_s s_t tpl H0 s_fin SE BP RUN NE POS HB.
    - cbn in BP. inversion BP; subst tpl. cbn in RUN. inversion RUN; subst s_fin.
      exists []. split; [reflexivity|]. split; [intros st []|]. split; [intros st []|]. split; [exact SE|].
      split; [exact I | intros st []].
    - destruct (back_plan_cons _ _ _ _ _ _ _ _ _ _ BP) as (a' & s_s' & r & od & La & Sp & -> & Hr & Hkind).
      destruct od as [dt|]; [|destruct Hkind as (ai & Hai); exfalso; exact (no_inst _ _ Hai)].
      destruct Hkind as (d & LT & SD).
      cbn [run] in RUN. unfold lookup_action in La. unfold lookup_action in RUN. rewrite La, Sp in RUN.
      cbn [nonempty_along] in NE. rewrite LT in NE. unfold lookup_action in NE. rewrite La, Sp in NE. destruct NE as [NE1 NE2].
      set (st := {| ps_start := now; ps_act := aid; ps_args := args; ps_dur := Some dt |}) in *.
      assert (Dpos : zq 0 < dt) by (apply (POS st dt); [left; reflexivity | reflexivity]).
      assert (POSr : positive_durations r) by (intros x dx Hx; apply POS; right; exact Hx).
      destruct (action_facts aid d a' LT La) as (PS & EP & CS).
      set (t := now + dt).
      destruct compiled_shape as (acts0 & _ & SB & _).
      destruct (step_no_start_effects sc smp OK P P' SB d a' args s_s s_t s_s' (Some k) t PS EP SE Sp)
        as (l & OE & CH & s_t1 & R1 & SE1).
      assert (EV : step_events TP k st = [ {| ev_time := t; ev_src := Some k; ev_bind := zip_params (d_params d) args; ev_effs := l |} ])
        by (apply (step_events_end k st d dt l LT eq_refl OE)).
      set (ev := {| ev_time := t; ev_src := Some k; ev_bind := zip_params (d_params d) args; ev_effs := l |}) in *.
      assert (HK : Hk k (st :: r) = ev :: Hk (S k) r).
      { unfold Hk. cbn [indexed_from flat_map fst snd]. rewrite EV. reflexivity. }
      assert (NT : now < t) by (apply lt_plus; exact Dpos).
      assert (TN : t < t + eps) by (apply lt_plus; exact He).
      assert (HB' : forall e, In e (H0 ++ [ev]) -> ev_time e < t + eps).
      { intros e Hin. apply in_app_or in Hin. destruct Hin as [Hin|[<-|[]]].
        - specialize (HB e Hin). unfold Qclt in *. lra.
        - exact TN. }
      destruct (IH (S k) (t + eps) s_s' s_t1 r (H0 ++ [ev]) s_fin SE1 Hr RUN NE2 POSr HB')
        as (tr' & RT & C1 & C2 & C3 & C6 & C5).
      rewrite <- app_assoc in RT. cbn [app] in RT.
      assert (KE : forall e, In e (Hk (S k) r) -> t + eps < ev_time e).
      { intros e Hin. apply (asc_from_gt _ _ C6). apply in_map. exact Hin. }
      assert (EA : events_at t (H0 ++ ev :: Hk (S k) r) = [ev]).
      { rewrite events_at_app. rewrite (events_at_none t H0).
        - rewrite events_at_cons. cbn [ev_time ev].
          assert (E : qc_eqb t t = true) by (apply qc_eqb_eq; reflexivity). rewrite E.
          rewrite (events_at_none t (Hk (S k) r)); [reflexivity|].
          intros x Hx E'. specialize (KE x Hx). rewrite E' in KE. unfold Qclt in *. lra.
        - intros x Hx E'. specialize (HB x Hx). rewrite E' in HB. unfold Qclt in *. lra. }
      exists ((t, s_t1) :: tr'). rewrite HK. cbn [map ev_time]. fold t.
      split; [cbn [run_times]; change (ev_time ev) with t; rewrite EA, R1, RT; reflexivity|].
      assert (CA := chained_after eps He r (t + eps) (back_plan_chained _ _ _ _ _ _ _ _ Hr)).
      assert (STARTS : forall x, In x r -> t + eps <= ps_start x).
      { assert (F : Forall (fun x => zq 0 <= dur_t x) r).
        { apply Forall_forall. intros x Hx. unfold dur_t. destruct (ps_dur x) as [dx|] eqn:E; [|apply Qcle_refl].
          apply Qclt_le_weak. exact (POSr x dx Hx E). }
        specialize (CA F). rewrite Forall_forall in CA. exact CA. }
      assert (HEADIV : forall c, In c (step_conds TP st) -> forall u, in_iv (tc_iv c) u ->
                now <= u /\ u <= t /\ holds_in sc TP s_t (tc_bind c) (tc_expr c) = true).
      { intros c Hc u Hu. destruct (step_conds_in st d dt c LT eq_refl Hc) as (ic & e & I1 & I2 & ->).
        cbn [tc_iv tc_bind tc_expr] in *. unfold conds_supported in CS. rewrite forallb_forall in CS.
        specialize (CS ic I1). apply andb_true_iff in CS. destruct CS as [CL CHi].
        destruct (iv_facts now dt (fst ic) u CL CHi Dpos Hu) as (U1 & U2 & KD).
        split; [exact U1|]. split; [exact U2|]. unfold holds_in. fold P. exact (CH ic e I1 I2 KD). }
      split; [|split; [|split; [|split]]].
      + intros x [<-|Hx] c Hc u Hu.
        * destruct (HEADIV c Hc u Hu) as (_ & U2 & HH). rewrite (state_at_cons_le s_t t s_t1 tr' u U2). exact HH.
        * pose proof (C5 x Hx c Hc u Hu) as U. rewrite (state_at_cons_lt s_t t s_t1 tr' u); [exact (C1 x Hx c Hc u Hu)|].
          unfold Qclt, Qcle in *. lra.
      + intros x [<-|Hx].
        * unfold Temporal.step_dur_ok. cbn [ps_act ps_dur ps_start st]. rewrite LT.
          rewrite (state_at_cons_le s_t t s_t1 tr' now); [|apply Qclt_le_weak; exact NT].
          rewrite (dur_ok_ext sc TP s_t s_s _ d dt SE). exact (step_dur_ok sc TP s_s d args dt SD NE1).
        * unfold Temporal.step_dur_ok. rewrite (state_at_cons_lt s_t t s_t1 tr' (ps_start x)).
          -- exact (C2 x Hx).
          -- specialize (STARTS x Hx). unfold Qclt, Qcle in *. lra.
      + cbn [final_state]. exact C3.
      + cbn [asc_from]. split; [exact NT|]. apply (asc_from_weaken (t + eps) t); [apply Qclt_le_weak; exact TN | exact C6].
      + intros x [<-|Hx] c Hc u Hu.
        * exact (proj1 (HEADIV c Hc u Hu)).
        * pose proof (C5 x Hx c Hc u Hu) as U. unfold Qclt, Qcle in *. lra.
  Qed.

  (* whole-plan validity for the sub-fragment *)
  Theorem plan_no_start_read s0 pi tpl :
    bound_invs P = [] ->
    valid_plan sc P' s0 pi = true ->
    back_plan sc TP P' eps (zq 0) s0 pi = Some tpl ->
    nonempty_along sc TP P' s0 pi -> positive_durations tpl ->
    tt_valid sc TP s0 tpl.
  Proof.
    intros BI V BP NE POS.
    unfold valid_plan in V. destruct (run P' (spec_step sc P') s0 pi) as [s_fin|] eqn:RUN; [|discriminate].
    destruct (compose_run pi 0%nat (zq 0) s0 s0 tpl [] s_fin (fun f a => eq_refl) BP RUN NE POS
                          (fun e F => match F with end))
      as (tr & RT & C1 & C2 & C3 & C6 & _).
    destruct frag_empty as (E1 & E2 & E3). destruct compiled_shape as (acts0 & _ & SB & _).
    assert (AE : all_events TP tpl = Hk 0 tpl).
    { unfold all_events, timed_events. rewrite E1. reflexivity. }
    assert (TS : times_of (all_events TP tpl) = map ev_time (Hk 0 tpl)).
    { rewrite AE. destruct (times_of_spec (Hk 0 tpl)) as [T1 T2]. apply asc_unique; [exact T1 | | exact T2].
      destruct (map ev_time (Hk 0 tpl)) as [|x xs]; [exact I | exact (proj2 C6)]. }
    split; [exact (back_plan_wf _ _ _ _ _ _ _ _ BP)|].
    exists tr. rewrite TS, AE. split; [exact RT|]. split; [exact C2|]. split.
    - intros c Hc. unfold all_conds, global_conds in Hc. rewrite E2 in Hc. fold P in Hc. rewrite E3, BI in Hc.
      cbn in Hc. apply in_flat_map in Hc. destruct Hc as [st [H1 H2]]. exact (C1 st H1 c H2).
    - rewrite <- V. unfold goals_hold. fold P. pose proof SB as (_ & _ & _ & SG). rewrite SG.
      symmetry. apply all_hold_ext. apply (mk_interp_base P P' _ _ [] SB).
      intros f a. symmetry. apply C3.
  Qed.
End Compose.

(* ================================================================================================================ *)
(* Composition, instantaneous actions mixed with end-effect-only durative actions ([end_only_fragment])              *)
(* ================================================================================================================ *)
Lemma lookupN_app_l {A} k (a b : list (N * A)) v : lookupN k a = Some v -> lookupN k (a ++ b) = Some v.
Proof.
  induction a as [|[k' v'] a IH]; cbn; [discriminate|]. destruct (k =? k')%N; [intros H; exact H | exact IH].
Qed.

Lemma lookupN_app_r {A} k (a b : list (N * A)) : lookupN k a = None -> lookupN k (a ++ b) = lookupN k b.
Proof.
  induction a as [|[k' v'] a IH]; cbn; [reflexivity|]. destruct (k =? k')%N; [discriminate | exact IH].
Qed.

(* any action: the sequential step in s_s = its single event applied alone in s_t (= s_s extensionally) *)
Lemma gen_step sc P P' (SB : same_base P P') a args (s_s s_t s_s' : state) (x : src) t :
  state_eq s_t s_s -> spec_step sc P' s_s a args = Some s_s' ->
  all_hold sc (mk_interp P s_t (zip_params (a_params a) args)) (a_pre a) = true /\
  exists s_t', ref_apply sc P s_t [ {| ev_time := t; ev_src := x; ev_bind := zip_params (a_params a) args;
                                       ev_effs := a_effs a |} ] = Some s_t' /\ state_eq s_t' s_s'.
Proof.
  intros SE SP. apply spec_step_inv in SP. destruct SP as [A [acts [F [E ->]]]].
  assert (SE' : state_eq s_s s_t) by (intros f b; symmetry; apply SE).
  pose proof (mk_interp_base P P' s_s s_t (zip_params (a_params a) args) SB SE') as IE.
  split; [rewrite <- (all_hold_ext sc _ _ (a_pre a) IE); exact A|].
  rewrite (fired_ext sc _ _ _ IE) in F.
  assert (E' : spec_effects_ok P s_t acts = true).
  { unfold spec_effects_ok in *. rewrite forallb_forall in *. intros b Hb.
    rewrite <- (spec_fluent_base P P' s_s s_t acts (ae_key b) SB SE'). exact (E b Hb). }
  destruct (ref_apply_single sc P s_t x _ (a_effs a) acts t F E') as [s1 [R1 R2]]. exists s1. split; [exact R1|].
  intros f b. rewrite (R2 f b). unfold spec_succ.
  rewrite (spec_fluent_base P P' s_s s_t acts (f, b) SB SE'). rewrite (SE f b). reflexivity.
Qed.

Section ComposeMixed.
  Variable sc : bool.
  Variable smp : expr -> expr.
  Hypothesis OK : forall e I, eval sc (smp e) I = eval sc e I.
  Variable TP : tproblem.
  Let P := tp_base TP.
  Variable P' : problem.
  Variable eps : Qc.
  Hypothesis FR : end_only_fragment smp TP = true.
  Hypothesis CP : t2s_problem smp TP = Some P'.
  Hypothesis He : zq 0 < eps.

  Lemma m_frag_parts :
    t2s_fragment TP = true /\
    forallb (fun id => match t2s_action smp (snd id) with Some a' => plain_step smp (snd id) a' | None => false end)
            (tp_dur TP) = true.
  Proof. unfold end_only_fragment in FR. apply andb_true_iff in FR. exact FR. Qed.

  Lemma m_compiled_shape : exists acts, t2s_actions smp (tp_dur TP) = Some acts /\ same_base P P' /\
    forall aid, lookup_action P' aid = lookupN aid (p_actions P ++ acts).
  Proof.
    unfold t2s_problem in CP. destruct (t2s_actions smp (tp_dur TP)) as [acts|]; [|discriminate].
    exists acts. split; [reflexivity|]. inversion CP as [E]. split; [repeat split|]. intros aid. reflexivity.
  Qed.

  Lemma m_inst_facts aid ai a' :
    lookup_tact TP aid = Some (TInst ai) -> lookup_action P' aid = Some a' -> a' = ai.
  Proof.
    intros LT LA. destruct m_compiled_shape as (acts & _ & _ & LK). rewrite LK in LA.
    unfold lookup_tact in LT. fold P in LT. destruct (lookupN aid (p_actions P)) as [a0|] eqn:E.
    - inversion LT; subst a0. rewrite (lookupN_app_l aid _ acts ai E) in LA. inversion LA. reflexivity.
    - destruct (lookupN aid (tp_dur TP)); discriminate.
  Qed.

  Lemma m_action_facts aid d a' :
    lookup_tact TP aid = Some (TDur d) -> lookup_action P' aid = Some a' ->
    plain_step smp d a' = true /\ a_params a' = d_params d /\ conds_supported d = true.
  Proof.
    intros LT LA. destruct m_compiled_shape as (acts & TA & _ & LK). rewrite LK in LA.
    destruct m_frag_parts as (A & C).
    unfold lookup_tact in LT. fold P in LT. destruct (lookupN aid (p_actions P)) as [a0|] eqn:E; [discriminate|].
    rewrite (lookupN_app_r aid _ acts E) in LA.
    destruct (lookupN aid (tp_dur TP)) as [d0|] eqn:LD; [|discriminate]. inversion LT; subst d0.
    pose proof (t2s_actions_lookup smp _ acts TA aid d a' LD LA) as T.
    pose proof (lookupN_In _ _ _ LD) as Hin.
    rewrite forallb_forall in C. specialize (C _ Hin). cbn [snd] in C. rewrite T in C.
    split; [exact C|]. split; [exact (t2s_action_params smp d a' T)|].
    unfold t2s_fragment in A. rewrite !andb_true_iff in A. destruct A as [[_ A] _].
    rewrite forallb_forall in A. specialize (A _ Hin). cbn [snd] in A. apply andb_true_iff in A. exact (proj2 A).
  Qed.

  Lemma m_frag_empty : tp_teffs TP = [] /\ tp_tgoals TP = [] /\ p_invs P = [].
  Proof.
    destruct m_frag_parts as (A & _). unfold t2s_fragment in A. rewrite !andb_true_iff in A.
    destruct A as [[[[A1 A2] A3] _] _]. fold P in A3.
    destruct (tp_teffs TP); [|discriminate]. destruct (tp_tgoals TP); [|discriminate]. destruct (p_invs P); [|discriminate].
    repeat split.
  Qed.

  (* what the induction carries for the suffix [tpl] of the plan, numbered from [k], starting at time [now] in the
     temporal state [s_t], with the earlier events [H0] *)
  Definition run_ok (k : nat) (now : Qc) (s_t : state) (tpl : tplan) (H0 : list event) (tr : trace) (s_fin : state) : Prop :=
    run_times (ref_apply sc P) (H0 ++ Hk TP k tpl) s_t (map ev_time (Hk TP k tpl)) = Some tr /\
    (forall st, In st tpl -> forall c, In c (step_conds TP st) -> cond_ok sc TP s_t tr c) /\
    (forall st, In st tpl -> Temporal.step_dur_ok sc TP s_t tr st = true) /\
    state_eq (final_state s_t tr) s_fin /\
    asc (map ev_time (Hk TP k tpl)) /\
    (forall x, In x (map ev_time (Hk TP k tpl)) -> now <= x) /\
    (forall st, In st tpl -> forall c, In c (step_conds TP st) -> forall u, in_iv (tc_iv c) u -> now <= u).

  (* one step with a single happening at [t] in [now, now'), put in front of a suffix that starts at [now'] *)
  Lemma assemble k now now' t st r ev (s_t s_t1 : state) tr' H0 s_fin :
    now <= t -> t < now' ->
    (forall e, In e H0 -> ev_time e < now) ->
    ev_time ev = t -> step_events TP k st = [ev] ->
    ref_apply sc P s_t [ev] = Some s_t1 ->
    run_ok (S k) now' s_t1 r (H0 ++ [ev]) tr' s_fin ->
    (forall x, In x r -> now' <= ps_start x) ->
    (forall c, In c (step_conds TP st) -> forall u, in_iv (tc_iv c) u ->
       now <= u /\ u <= t /\ holds_in sc TP s_t (tc_bind c) (tc_expr c) = true) ->
    (forall tr, Temporal.step_dur_ok sc TP s_t ((t, s_t1) :: tr) st = true) ->
    run_ok k now s_t (st :: r) H0 ((t, s_t1) :: tr') s_fin.
  Proof.
    intros NT TN HB ET EV R1 (RT & C1 & C2 & C3 & C6 & C7 & C5) STARTS HEADIV HEADDUR.
    assert (HK : Hk TP k (st :: r) = ev :: Hk TP (S k) r).
    { unfold Hk. cbn [indexed_from flat_map fst snd]. rewrite EV. reflexivity. }
    rewrite <- app_assoc in RT. cbn [app] in RT.
    assert (KE : forall e, In e (Hk TP (S k) r) -> now' <= ev_time e).
    { intros e Hin. apply C7. apply in_map. exact Hin. }
    assert (EA : events_at t (H0 ++ ev :: Hk TP (S k) r) = [ev]).
    { rewrite events_at_app. rewrite (events_at_none t H0).
      - rewrite events_at_cons. rewrite ET.
        assert (E : qc_eqb t t = true) by (apply qc_eqb_eq; reflexivity). rewrite E.
        rewrite (events_at_none t (Hk TP (S k) r)); [reflexivity|].
        intros x Hx E'. specialize (KE x Hx). rewrite E' in KE. unfold Qclt, Qcle in *. lra.
      - intros x Hx E'. specialize (HB x Hx). rewrite E' in HB. unfold Qclt, Qcle in *. lra. }
    unfold run_ok. rewrite HK. cbn [map]. rewrite ET.
    split; [cbn [run_times]; rewrite EA, R1, RT; reflexivity|].
    split; [|split; [|split; [|split; [|split]]]].
    - intros x [<-|Hx] c Hc u Hu.
      + destruct (HEADIV c Hc u Hu) as (_ & U2 & HH). rewrite (state_at_cons_le s_t t s_t1 tr' u U2). exact HH.
      + pose proof (C5 x Hx c Hc u Hu) as U. rewrite (state_at_cons_lt s_t t s_t1 tr' u); [exact (C1 x Hx c Hc u Hu)|].
        unfold Qclt, Qcle in *. lra.
    - intros x [<-|Hx]; [apply HEADDUR|].
      unfold Temporal.step_dur_ok. rewrite (state_at_cons_lt s_t t s_t1 tr' (ps_start x)).
      + exact (C2 x Hx).
      + specialize (STARTS x Hx). unfold Qclt, Qcle in *. lra.
    - cbn [final_state]. exact C3.
    - change (asc_from t (map ev_time (Hk TP (S k) r))). apply asc_from_of_asc; [exact C6|].
      intros x Hx. specialize (C7 x Hx). unfold Qclt, Qcle in *. lra.
    - intros x [<-|Hx]; [exact NT|]. specialize (C7 x Hx). unfold Qclt, Qcle in *. lra.
    - intros x [<-|Hx] c Hc u Hu.
      + exact (proj1 (HEADIV c Hc u Hu)).
      + pose proof (C5 x Hx c Hc u Hu) as U. unfold Qclt, Qcle in *. lra.
  Qed.

  Lemma step_events_inst k st a :
    lookup_tact TP (ps_act st) = Some (TInst a) ->
    step_events TP k st = [ {| ev_time := ps_start st; ev_src := Some k;
                               ev_bind := zip_params (a_params a) (ps_args st); ev_effs := a_effs a |} ].
  Proof. intros LT. unfold step_events. rewrite LT. reflexivity. Qed.

  Lemma m_compose_run : forall pi k now (s_s s_t : state) tpl H0 s_fin,
    state_eq s_t s_s ->
    back_plan sc TP P' eps now s_s pi = Some tpl ->
    run P' (spec_step sc P') s_s pi = Some s_fin ->
    nonempty_along sc TP P' s_s pi -> positive_durations tpl ->
    (forall e, In e H0 -> ev_time e < now) ->
    exists tr, run_ok k now s_t tpl H0 tr s_fin.
  Proof.
    induction pi as [|[aid args] rest IH]; intros k now s_s s_t tpl H0 s_fin SE BP RUN NE POS HB.
    - cbn in BP. inversion BP; subst tpl. cbn in RUN. inversion RUN; subst s_fin.
      exists []. unfold run_ok. split; [reflexivity|]. split; [intros st []|]. split; [intros st []|]. split; [exact SE|].
      split; [exact I|]. split; [intros x []|intros st []].
    - destruct (back_plan_cons _ _ _ _ _ _ _ _ _ _ BP) as (a' & s_s' & r & od & La & Sp & -> & Hr & Hkind).
      cbn [run] in RUN. unfold lookup_action in La. unfold lookup_action in RUN. rewrite La, Sp in RUN.
      cbn [nonempty_along] in NE. unfold lookup_action in NE. rewrite La, Sp in NE. destruct NE as [NE1 NE2].
      assert (POSr : positive_durations r) by (intros x dx Hx; apply POS; right; exact Hx).
      destruct m_compiled_shape as (acts0 & _ & SB & _).
      assert (STARTS : forall now', chained_t eps now' r -> forall x, In x r -> now' <= ps_start x).
      { intros now' CH. assert (F : Forall (fun x => zq 0 <= dur_t x) r).
        { apply Forall_forall. intros x Hx. unfold dur_t. destruct (ps_dur x) as [dx|] eqn:E; [|apply Qcle_refl].
          apply Qclt_le_weak. exact (POSr x dx Hx E). }
        pose proof (chained_after eps He r now' CH F) as CA. rewrite Forall_forall in CA. exact CA. }
      pose proof (back_plan_chained _ _ _ _ _ _ _ _ Hr) as CHr.
      destruct od as [dt|].
      + (* durative, one happening at the end *)
        destruct Hkind as (d & LT & SD). rewrite LT in NE1.
        set (st := {| ps_start := now; ps_act := aid; ps_args := args; ps_dur := Some dt |}) in *.
        assert (Dpos : zq 0 < dt) by (apply (POS st dt); [left; reflexivity | reflexivity]).
        destruct (m_action_facts aid d a' LT La) as (PS & EP & CS).
        set (t := now + dt).
        destruct (step_no_start_effects sc smp OK P P' SB d a' args s_s s_t s_s' (Some k) t PS EP SE Sp)
          as (l & OE & CH & s_t1 & R1 & SE1).
        set (ev := {| ev_time := t; ev_src := Some k; ev_bind := zip_params (d_params d) args; ev_effs := l |}) in *.
        assert (EV : step_events TP k st = [ev]) by (apply (step_events_end TP k st d dt l LT eq_refl OE)).
        assert (NT : now < t) by (apply lt_plus; exact Dpos).
        assert (TN : t < t + eps) by (apply lt_plus; exact He).
        assert (HB' : forall e, In e (H0 ++ [ev]) -> ev_time e < t + eps).
        { intros e Hin. apply in_app_or in Hin. destruct Hin as [Hin|[<-|[]]].
          - specialize (HB e Hin). unfold Qclt in *. lra.
          - exact TN. }
        destruct (IH (S k) (t + eps) s_s' s_t1 r (H0 ++ [ev]) s_fin SE1 Hr RUN NE2 POSr HB') as (tr' & ROK).
        exists ((t, s_t1) :: tr').
        apply (assemble k now (t + eps) t st r ev s_t s_t1 tr' H0 s_fin (Qclt_le_weak _ _ NT) TN HB eq_refl EV R1 ROK
                        (STARTS _ CHr)).
        * intros c Hc u Hu. destruct (step_conds_in TP st d dt c LT eq_refl Hc) as (ic & e & I1 & I2 & ->).
          cbn [tc_iv tc_bind tc_expr] in *. unfold conds_supported in CS. rewrite forallb_forall in CS.
          specialize (CS ic I1). apply andb_true_iff in CS. destruct CS as [CL CHi].
          destruct (iv_facts now dt (fst ic) u CL CHi Dpos Hu) as (U1 & U2 & KD).
          split; [exact U1|]. split; [exact U2|]. unfold holds_in. fold P. exact (CH ic e I1 I2 KD).
        * intros tr. unfold Temporal.step_dur_ok. cbn [ps_act ps_dur ps_start st]. rewrite LT.
          rewrite (state_at_cons_le s_t t s_t1 tr now); [|apply Qclt_le_weak; exact NT].
          rewrite (dur_ok_ext sc TP s_t s_s _ d dt SE). exact (step_dur_ok sc TP s_s d args dt SD NE1).
      + (* instantaneous, one happening at the start *)
        destruct Hkind as (ai & LT).
        pose proof (m_inst_facts aid ai a' LT La) as ->.
        set (st := {| ps_start := now; ps_act := aid; ps_args := args; ps_dur := None |}) in *.
        destruct (gen_step sc P P' SB ai args s_s s_t s_s' (Some k) now SE Sp) as (A & s_t1 & R1 & SE1).
        set (ev := {| ev_time := now; ev_src := Some k; ev_bind := zip_params (a_params ai) args; ev_effs := a_effs ai |}) in *.
        assert (EV : step_events TP k st = [ev]) by (apply (step_events_inst k st ai LT)).
        assert (TN : now < now + eps) by (apply lt_plus; exact He).
        assert (HB' : forall e, In e (H0 ++ [ev]) -> ev_time e < now + eps).
        { intros e Hin. apply in_app_or in Hin. destruct Hin as [Hin|[<-|[]]].
          - specialize (HB e Hin). unfold Qclt in *. lra.
          - exact TN. }
        destruct (IH (S k) (now + eps) s_s' s_t1 r (H0 ++ [ev]) s_fin SE1 Hr RUN NE2 POSr HB') as (tr' & ROK).
        exists ((now, s_t1) :: tr').
        apply (assemble k now (now + eps) now st r ev s_t s_t1 tr' H0 s_fin (Qcle_refl _) TN HB eq_refl EV R1 ROK
                        (STARTS _ CHr)).
        * intros c Hc u Hu. unfold step_conds in Hc. cbn [ps_act ps_start ps_args st] in Hc. rewrite LT in Hc. apply in_map_iff in Hc.
          destruct Hc as [e [<- He']]. cbn [tc_iv tc_bind tc_expr] in *.
          destruct Hu as [U1 U2]. cbn in U1, U2. split; [exact U1|]. split; [exact U2|].
          unfold holds_in. fold P. unfold all_hold in A. rewrite forallb_forall in A. exact (A e He').
        * intros tr. unfold Temporal.step_dur_ok. cbn [ps_act ps_dur st]. rewrite LT. reflexivity.
  Qed.

  Theorem plan_end_only s0 pi tpl :
    bound_invs P = [] ->
    valid_plan sc P' s0 pi = true ->
    back_plan sc TP P' eps (zq 0) s0 pi = Some tpl ->
    nonempty_along sc TP P' s0 pi -> positive_durations tpl ->
    tt_valid sc TP s0 tpl.
  Proof.
    intros BI V BP NE POS.
    unfold valid_plan in V. destruct (run P' (spec_step sc P') s0 pi) as [s_fin|] eqn:RUN; [|discriminate].
    destruct (m_compose_run pi 0%nat (zq 0) s0 s0 tpl [] s_fin (fun f a => eq_refl) BP RUN NE POS
                            (fun e F => match F with end))
      as (tr & RT & C1 & C2 & C3 & C6 & _ & _).
    destruct m_frag_empty as (E1 & E2 & E3). destruct m_compiled_shape as (acts0 & _ & SB & _).
    assert (AE : all_events TP tpl = Hk TP 0 tpl).
    { unfold all_events, timed_events. rewrite E1. reflexivity. }
    assert (TS : times_of (all_events TP tpl) = map ev_time (Hk TP 0 tpl)).
    { rewrite AE. destruct (times_of_spec (Hk TP 0 tpl)) as [T1 T2]. apply asc_unique; [exact T1 | exact C6 | exact T2]. }
    split; [exact (back_plan_wf _ _ _ _ _ _ _ _ BP)|].
    exists tr. rewrite TS, AE. split; [exact RT|]. split; [exact C2|]. split.
    - intros c Hc. unfold all_conds, global_conds in Hc. rewrite E2 in Hc. fold P in Hc. rewrite E3, BI in Hc.
      cbn in Hc. apply in_flat_map in Hc. destruct Hc as [st [H1 H2]]. exact (C1 st H1 c H2).
    - rewrite <- V. unfold goals_hold. fold P. pose proof SB as (_ & _ & _ & SG). rewrite SG.
      symmetry. apply all_hold_ext. apply (mk_interp_base P P' _ _ [] SB).
      intros f a. symmetry. apply C3.
  Qed.
End ComposeMixed.

(* ================================================================================================================ *)
(* Frame: evaluation ignores the fluent symbols that do not occur (the list version of                              *)
(* Proofs/LayerA_DcrGoal_proofs.eval_cleanf = C06_LA_dcrgoal_eval_frame, same proof)                                *)
(* ================================================================================================================ *)
Ltac bsplit := repeat match goal with H : _ && _ = true |- _ => apply andb_true_iff in H; destruct H end.

(* two interpretations that differ at most in the values of the fluent symbols of [fs] *)
Definition irel_fs (fs : list N) (I I' : interp) : Prop :=
  (forall p, par I' p = par I p) /\ (forall v, var I' v = var I v) /\ (forall f a, ifun I' f a = ifun I f a) /\
  (forall t, objs I' t = objs I t) /\ (forall g a, memN g fs = false -> fl I' g a = fl I g a).

Section FrameFs.
  Variable fs : list N.

  Lemma irel_fs_bind I I' v o : irel_fs fs I I' -> irel_fs fs (bind_var I v o) (bind_var I' v o).
  Proof. intros (H1 & H2 & H3 & H4 & H5). repeat split; simpl; auto. intros w. destruct (w =? v)%N; auto. Qed.

  Lemma irel_fs_instances vs : forall I I', irel_fs fs I I' -> Forall2 (irel_fs fs) (instances I vs) (instances I' vs).
  Proof.
    induction vs as [|[v t] vs IH]; intros I I' H; simpl.
    - constructor; [exact H | constructor].
    - assert (HH := H). destruct H as (H1 & H2 & H3 & H4 & H5). rewrite H4.
      induction (objs I t) as [|o os IHo]; simpl; [constructor|].
      apply Forall2_app; [apply IH, irel_fs_bind, HH | exact IHo].
  Qed.

  Lemma Forall2_map_eq_fg' {A B} (R : A -> A -> Prop) (f g : A -> B) l l' :
    Forall2 R l l' -> (forall x y, R x y -> f x = g y) -> map f l = map g l'.
  Proof. induction 1; intros H'; simpl; [reflexivity|]. f_equal; auto. Qed.

  Lemma eval_no_sym sc e : forall I I', irel_fs fs I I' -> no_sym fs e = true -> eval sc e I' = eval sc e I.
  Proof.
    induction e using expr_ind'; intros I I' HR Hc; pose proof HR as (Hp & Hv & Hi & Ho & Hf);
      try reflexivity; cbn [no_sym] in Hc; bsplit;
      try (assert (HF : Forall (fun x => eval sc x I' = eval sc x I) l)
             by (rewrite Forall_forall in *; intros x Hx; apply H; [exact Hx | exact HR |];
                 match goal with Hq : forallb _ _ = true |- _ => rewrite forallb_forall in Hq; apply Hq; exact Hx end));
      try (assert (HF : Forall (fun x => eval sc x I' = eval sc x I) args)
             by (rewrite Forall_forall in *; intros x Hx; apply H; [exact Hx | exact HR |];
                 match goal with Hq : forallb _ _ = true |- _ => rewrite forallb_forall in Hq; apply Hq; exact Hx end)).
    - cbn [eval]. apply Hp.
    - cbn [eval]. apply Hv.
    - rewrite !eval_EFluent.
      replace (evals sc I' args) with (evals sc I args)
        by (clear -HF; induction HF as [|x l' Hx _ IH']; [reflexivity|]; cbn [evals]; rewrite Hx, IH'; reflexivity).
      destruct (evals sc I args); [|reflexivity]. apply Hf.
      match goal with Hn : negb (memN _ fs) = true |- _ => apply negb_true_iff in Hn; exact Hn end.
    - rewrite !eval_EIFun.
      replace (evals sc I' args) with (evals sc I args)
        by (clear -HF; induction HF as [|x l' Hx _ IH']; [reflexivity|]; cbn [evals]; rewrite Hx, IH'; reflexivity).
      destruct (evals sc I args); [|reflexivity]. apply Hi.
    - rewrite !eval_EAnd.
      replace (ebools sc I' l) with (ebools sc I l)
        by (clear -HF; induction HF as [|x l' Hx _ IH']; [reflexivity|]; cbn [ebools]; rewrite Hx, IH'; reflexivity).
      reflexivity.
    - rewrite !eval_EOr.
      replace (ebools sc I' l) with (ebools sc I l)
        by (clear -HF; induction HF as [|x l' Hx _ IH']; [reflexivity|]; cbn [ebools]; rewrite Hx, IH'; reflexivity).
      reflexivity.
    - rewrite !eval_ENot, (IHe I I' HR) by assumption. reflexivity.
    - rewrite !eval_EImplies, (IHe1 I I' HR), (IHe2 I I' HR) by assumption. reflexivity.
    - rewrite !eval_EIff, (IHe1 I I' HR), (IHe2 I I' HR) by assumption. reflexivity.
    - rewrite !eval_EExists. f_equal.
      rewrite (Forall2_map_eq_fg' (irel_fs fs) (fun J => as_bool (eval sc e J)) (fun J => as_bool (eval sc e J))
                 _ _ (irel_fs_instances vs I I' HR)); [reflexivity|].
      intros x y Hxy. rewrite (IHe x y Hxy) by assumption. reflexivity.
    - rewrite !eval_EForall. f_equal.
      rewrite (Forall2_map_eq_fg' (irel_fs fs) (fun J => as_bool (eval sc e J)) (fun J => as_bool (eval sc e J))
                 _ _ (irel_fs_instances vs I I' HR)); [reflexivity|].
      intros x y Hxy. rewrite (IHe x y Hxy) by assumption. reflexivity.
    - rewrite !eval_EPlus.
      replace (enums sc I' l) with (enums sc I l)
        by (clear -HF; induction HF as [|x l' Hx _ IH']; [reflexivity|]; cbn [enums]; rewrite Hx, IH'; reflexivity).
      reflexivity.
    - rewrite !eval_EMinus, (IHe1 I I' HR), (IHe2 I I' HR) by assumption. reflexivity.
    - rewrite !eval_ETimes.
      replace (enums sc I' l) with (enums sc I l)
        by (clear -HF; induction HF as [|x l' Hx _ IH']; [reflexivity|]; cbn [enums]; rewrite Hx, IH'; reflexivity).
      reflexivity.
    - rewrite !eval_EDiv, (IHe1 I I' HR), (IHe2 I I' HR) by assumption. reflexivity.
    - rewrite !eval_ELe, (IHe1 I I' HR), (IHe2 I I' HR) by assumption. reflexivity.
    - rewrite !eval_ELt, (IHe1 I I' HR), (IHe2 I I' HR) by assumption. reflexivity.
    - rewrite !eval_EEquals, (IHe1 I I' HR), (IHe2 I I' HR) by assumption. reflexivity.
  Qed.
End FrameFs.

Lemma eval_ignores_unmentioned sc fs e (I J : interp) :
  no_sym fs e = true ->
  par J = par I -> var J = var I -> ifun J = ifun I -> objs J = objs I ->
  (forall f a, memN f fs = false -> fl J f a = fl I f a) ->
  eval sc e J = eval sc e I.
Proof.
  intros N Hp Hv Hi Ho Hf. apply (eval_no_sym fs sc e I J); [|exact N].
  repeat split; intros; [rewrite Hp | rewrite Hv | rewrite Hi | rewrite Ho | apply Hf; assumption]; reflexivity.
Qed.

(* ================================================================================================================ *)
(* The two-happening step: start effects written but not read                                                       *)
(* ================================================================================================================ *)
Lemma collect_res_app r1 r2 :
  collect_res (r1 ++ r2) =
  match collect_res r1, collect_res r2 with Some x, Some y => Some (x ++ y) | _, _ => None end.
Proof.
  induction r1 as [|[| |a] r1 IH]; cbn [app collect_res].
  - destruct (collect_res r2); reflexivity.
  - reflexivity.
  - exact IH.
  - rewrite IH. destruct (collect_res r1), (collect_res r2); reflexivity.
Qed.

Lemma fired_app sc I a b :
  fired sc I (a ++ b) =
  match fired sc I a, fired sc I b with Some x, Some y => Some (x ++ y) | _, _ => None end.
Proof. unfold fired. rewrite flat_map_app. apply collect_res_app. Qed.

Lemma collect_res_In rs : forall l a, collect_res rs = Some l -> In a l -> In (EAct a) rs.
Proof.
  induction rs as [|[| |b] rs IH]; intros l a H Hin; cbn [collect_res] in H.
  - inversion H; subst. destruct Hin.
  - discriminate.
  - right. exact (IH l a H Hin).
  - destruct (collect_res rs) as [l'|]; [|discriminate]. inversion H; subst. destruct Hin as [<-|Hin].
    + left. reflexivity.
    + right. exact (IH l' a eq_refl Hin).
Qed.

Lemma eval_effect_key sc J e a : eval_effect sc J e = EAct a -> fst (ae_key a) = e_fl e.
Proof.
  unfold eval_effect. destruct (evals_l sc J (e_args e)); [|discriminate].
  destruct (eval sc (e_cond e) J) as [[[|]| |]|]; try discriminate.
  destruct (eval sc (e_val e) J); [|discriminate]. intros H. inversion H. reflexivity.
Qed.

Lemma fired_keys sc I effs acts a :
  fired sc I effs = Some acts -> In a acts -> In (fst (ae_key a)) (map e_fl effs).
Proof.
  unfold fired. intros H Hin. pose proof (collect_res_In _ _ _ H Hin) as R.
  apply in_flat_map in R. destruct R as [e [He R]]. apply in_map_iff in R. destruct R as [J [R _]].
  rewrite (eval_effect_key sc J e a R). apply in_map. exact He.
Qed.

Lemma filter_none {A} (f : A -> bool) l : (forall x, In x l -> f x = false) -> filter f l = [].
Proof.
  induction l as [|x l IH]; intros H; [reflexivity|]. cbn. rewrite (H x (or_introl eq_refl)). apply IH.
  intros y Hy. apply H. right. exact Hy.
Qed.

Lemma no_key_nil k B : (forall a, In a B -> fst (ae_key a) <> fst k) -> avals k B = [] /\ deltas k B = [].
Proof.
  intros H. unfold avals, deltas. split.
  - rewrite filter_none; [reflexivity|]. intros a Ha. unfold gfl_eqb.
    destruct (fst (ae_key a) =? fst k)%N eqn:E; [apply N.eqb_eq in E; exfalso; exact (H a Ha E) | reflexivity].
  - rewrite filter_none; [reflexivity|]. intros a Ha. unfold gfl_eqb.
    destruct (fst (ae_key a) =? fst k)%N eqn:E; [apply N.eqb_eq in E; exfalso; exact (H a Ha E) | reflexivity].
Qed.

Lemma avals_app k A B : avals k (A ++ B) = avals k A ++ avals k B.
Proof. unfold avals. rewrite filter_app, map_app. reflexivity. Qed.
Lemma deltas_app k A B : deltas k (A ++ B) = deltas k A ++ deltas k B.
Proof. unfold deltas. rewrite filter_app, map_app. reflexivity. Qed.

Lemma spec_fluent_app_l P s A B k :
  (forall a, In a B -> fst (ae_key a) <> fst k) -> spec_fluent P s (A ++ B) k = spec_fluent P s A k.
Proof.
  intros H. destruct (no_key_nil k B H) as [E1 E2]. unfold spec_fluent. rewrite avals_app, deltas_app, E1, E2, !app_nil_r.
  reflexivity.
Qed.
Lemma spec_fluent_app_r P s A B k :
  (forall a, In a A -> fst (ae_key a) <> fst k) -> spec_fluent P s (A ++ B) k = spec_fluent P s B k.
Proof.
  intros H. destruct (no_key_nil k A H) as [E1 E2]. unfold spec_fluent. rewrite avals_app, deltas_app, E1, E2. reflexivity.
Qed.
Lemma spec_fluent_none P s A k :
  (forall a, In a A -> fst (ae_key a) <> fst k) -> spec_fluent P s A k = CUnchanged.
Proof. intros H. destruct (no_key_nil k A H) as [E1 E2]. unfold spec_fluent. rewrite E1, E2. reflexivity. Qed.

Lemma spec_fluent_state P s t A k : s (fst k) (snd k) = t (fst k) (snd k) -> spec_fluent P s A k = spec_fluent P t A k.
Proof. intros H. unfold spec_fluent. rewrite H. reflexivity. Qed.

(* frame for effects *)
Lemma evals_l_frame fs sc I I' l :
  irel_fs fs I I' -> forallb (no_sym fs) l = true -> evals_l sc I' l = evals_l sc I l.
Proof.
  intros R. induction l as [|x l IH]; intros H; [reflexivity|]. cbn [forallb] in H. apply andb_true_iff in H.
  destruct H as [H1 H2]. cbn [evals_l]. rewrite (eval_no_sym fs sc x I I' R H1), (IH H2). reflexivity.
Qed.

Lemma fired_frame fs sc I I' l :
  irel_fs fs I I' -> forallb plain_assign l = true ->
  forallb (no_sym fs) (map e_val l) = true -> forallb (no_sym fs) (flat_map e_args l) = true ->
  fired sc I' l = fired sc I l.
Proof.
  intros R. unfold fired. induction l as [|e l IH]; intros PL NV NA; [reflexivity|].
  cbn [forallb map flat_map] in *. apply andb_true_iff in PL. destruct PL as [Pe PL].
  apply andb_true_iff in NV. destruct NV as [Ve NV]. rewrite forallb_app in NA. apply andb_true_iff in NA.
  destruct NA as [Ae NA].
  assert (V : e_vars e = []).
  { unfold plain_assign, eff_plain in Pe. rewrite !andb_true_iff in Pe. destruct Pe as [[_ V] _].
    destruct (e_vars e); [reflexivity | discriminate]. }
  assert (C : e_cond e = EBool true).
  { unfold plain_assign, eff_plain in Pe. rewrite !andb_true_iff in Pe. destruct Pe as [[C _] _]. apply is_true_eq. exact C. }
  rewrite V. cbn [instances map app].
  assert (EE : eval_effect sc I' e = eval_effect sc I e).
  { unfold eval_effect. rewrite (evals_l_frame fs sc I I' _ R Ae), C, (eval_no_sym fs sc (e_val e) I I' R Ve). reflexivity. }
  rewrite EE. cbn [collect_res].
  specialize (IH PL NV NA).
  destruct (eval_effect sc I e); cbn [collect_res]; try reflexivity; try exact IH. rewrite IH. reflexivity.
Qed.

Lemma memN_in x l : In x l -> memN x l = true.
Proof. intros H. unfold memN. apply existsb_exists. exists x. split; [exact H | apply N.eqb_refl]. Qed.
Lemma memN_true_in x l : memN x l = true -> In x l.
Proof. unfold memN. intros H. apply existsb_exists in H. destruct H as [y [H1 H2]]. apply N.eqb_eq in H2. subst. exact H1. Qed.

Section StepStart.
  Variable sc : bool.
  Variable smp : expr -> expr.
  Hypothesis OK : forall e I, eval sc (smp e) I = eval sc e I.
  Variable P P' : problem.
  Hypothesis SB : same_base P P'.

  Lemma step_start_not_read d a' args (s_s s_t s_s' : state) (x : src) t1 t2 :
    start_not_read_step smp d a' = true -> a_params a' = d_params d ->
    state_eq s_t s_s -> spec_step sc P' s_s a' args = Some s_s' ->
    exists s_mid s_t',
      ref_apply sc P s_t [ {| ev_time := t1; ev_src := x; ev_bind := zip_params (d_params d) args; ev_effs := start_effs d |} ] = Some s_mid /\
      ref_apply sc P s_mid [ {| ev_time := t2; ev_src := x; ev_bind := zip_params (d_params d) args; ev_effs := end_effs d |} ] = Some s_t' /\
      state_eq s_t' s_s' /\
      (forall ic c, In ic (d_conds d) -> In c (snd ic) ->
         (is_start0 (ti_lo (fst ic)) && negb (ti_lopen (fst ic)) = true ->
            holds sc (mk_interp P s_t (zip_params (d_params d) args)) c = true) /\
         (is_end0 (ti_hi (fst ic)) = true -> holds sc (mk_interp P s_mid (zip_params (d_params d) args)) c = true)).
  Proof.
    unfold start_not_read_step. cbv zeta. set (ls := start_effs d). set (le := end_effs d). set (fs := map e_fl ls).
    set (bind := zip_params (d_params d) args).
    rewrite !andb_true_iff. intros [[[[[ES PL] DJ] NS] EF] CC] EP SE SP.
    apply effects_eqb_eq in EF.
    rewrite !forallb_app in NS. rewrite !andb_true_iff in NS. destruct NS as [NC [NV NA]].
    rewrite map_app, forallb_app in NV. apply andb_true_iff in NV. destruct NV as [_ NVe].
    rewrite flat_map_app, forallb_app in NA. apply andb_true_iff in NA. destruct NA as [_ NAe].
    apply spec_step_inv in SP. rewrite EP, EF in SP. fold bind in SP. destruct SP as [A [acts [F [E ->]]]].
    assert (SE' : state_eq s_s s_t) by (intros f a; symmetry; apply SE).
    pose proof (mk_interp_base P P' s_s s_t bind SB SE') as IE.
    rewrite (all_hold_ext sc _ _ (a_pre a') IE) in A.
    rewrite (fired_ext sc _ _ _ IE) in F. rewrite fired_app, (fired_plain sc smp OK _ le PL) in F.
    destruct (fired sc (mk_interp P s_t bind) le) as [aE|] eqn:FE; [|discriminate].
    destruct (fired sc (mk_interp P s_t bind) ls) as [aS|] eqn:FS; [|discriminate].
    inversion F; subst acts. clear F.
    assert (KE : forall a, In a aE -> memN (fst (ae_key a)) fs = false).
    { intros a Ha. pose proof (fired_keys sc _ le aE a FE Ha) as K. apply in_map_iff in K. destruct K as [e [K1 K2]].
      rewrite forallb_forall in DJ. specialize (DJ e K2). rewrite K1 in DJ. apply negb_true_iff in DJ. exact DJ. }
    assert (KS : forall a, In a aS -> memN (fst (ae_key a)) fs = true).
    { intros a Ha. apply memN_in. exact (fired_keys sc _ ls aS a FS Ha). }
    assert (NE_ : forall k : gfl, memN (fst k) fs = true -> forall a, In a aE -> fst (ae_key a) <> fst k).
    { intros k Hk a Ha Eq. rewrite <- Eq, (KE a Ha) in Hk. discriminate. }
    assert (NS_ : forall k : gfl, memN (fst k) fs = false -> forall a, In a aS -> fst (ae_key a) <> fst k).
    { intros k Hk a Ha Eq. rewrite <- Eq, (KS a Ha) in Hk. discriminate. }
    assert (E_t : forall a, In a (aE ++ aS) -> spec_fluent P s_t (aE ++ aS) (ae_key a) <> CFail).
    { intros a Ha. unfold spec_effects_ok in E. rewrite forallb_forall in E. specialize (E a Ha).
      rewrite (spec_fluent_base P P' s_s s_t _ (ae_key a) SB SE') in E. intros Q. rewrite Q in E. discriminate. }
    (* start event *)
    assert (E_S : spec_effects_ok P s_t aS = true).
    { unfold spec_effects_ok. apply forallb_forall. intros a Ha.
      rewrite <- (spec_fluent_app_r P s_t aE aS (ae_key a) (NE_ _ (KS a Ha))).
      pose proof (E_t a (in_or_app _ _ _ (or_intror Ha))) as Q. destruct (spec_fluent P s_t (aE ++ aS) (ae_key a)); congruence. }
    destruct (ref_apply_single sc P s_t x bind ls aS t1 FS E_S) as [s_mid [R1 M]].
    assert (MID : forall g a, memN g fs = false -> s_mid g a = s_t g a).
    { intros g a Hg. rewrite (M g a). unfold spec_succ. rewrite (spec_fluent_none P s_t aS (g, a) (NS_ (g, a) Hg)). reflexivity. }
    assert (IR : irel_fs fs (mk_interp P s_t bind) (mk_interp P s_mid bind)).
    { repeat split; cbn; auto. }
    (* end event *)
    assert (FE' : fired sc (mk_interp P s_mid bind) le = Some aE).
    { rewrite (fired_frame fs sc _ _ le IR PL NVe NAe). exact FE. }
    assert (E_E : spec_effects_ok P s_mid aE = true).
    { unfold spec_effects_ok. apply forallb_forall. intros a Ha.
      rewrite (spec_fluent_state P s_mid s_t aE (ae_key a) (MID _ _ (KE a Ha))).
      rewrite <- (spec_fluent_app_l P s_t aE aS (ae_key a) (NS_ _ (KE a Ha))).
      pose proof (E_t a (in_or_app _ _ _ (or_introl Ha))) as Q. destruct (spec_fluent P s_t (aE ++ aS) (ae_key a)); congruence. }
    destruct (ref_apply_single sc P s_mid x bind le aE t2 FE' E_E) as [s_t' [R2 M2]].
    exists s_mid, s_t'. split; [exact R1|]. split; [exact R2|]. split.
    - intros f a. rewrite (M2 f a). unfold spec_succ at 1 2.
      rewrite (spec_fluent_base P P' s_s s_t (aE ++ aS) (f, a) SB SE'), (SE' f a).
      destruct (memN f fs) eqn:Hf.
      + rewrite (spec_fluent_none P s_mid aE (f, a) (NE_ (f, a) Hf)).
        rewrite (spec_fluent_app_r P s_t aE aS (f, a) (NE_ (f, a) Hf)). rewrite (M f a). reflexivity.
      + rewrite (spec_fluent_state P s_mid s_t aE (f, a) (MID f a Hf)).
        rewrite (spec_fluent_app_l P s_t aE aS (f, a) (NS_ (f, a) Hf)). rewrite (MID f a Hf). reflexivity.
    - intros ic c Hic Hc. destruct (conds_hold sc smp OK d (a_pre a') _ A CC ic c Hic Hc) as [K1 K2].
      split; [exact K1|]. intros K. rewrite <- (K2 K). unfold holds.
      rewrite (eval_no_sym fs sc c _ _ IR); [reflexivity|]. rewrite forallb_forall in NC. apply NC. apply in_flat_map. exists ic. split; assumption.
  Qed.
End StepStart.

(* ================================================================================================================ *)
(* Composition with two happenings per durative step (start effects written, not read)                              *)
(* ================================================================================================================ *)
(* the durative action has exactly two effect entries: one at StartTiming(), then one at EndTiming() *)
Definition two_entries (d : daction) : bool :=
  match d_effs d with
  | [(a, _); (b, _)] => is_start0 a && is_end0 b
  | _ => false
  end.

Definition start_end_fragment (smp : expr -> expr) (TP : tproblem) : bool :=
  t2s_fragment TP &&
  forallb (fun id => two_entries (snd id) &&
                     match t2s_action smp (snd id) with
                     | Some a' => start_not_read_step smp (snd id) a'
                     | None => false
                     end) (tp_dur TP).

Lemma start_end_excl tm : (is_start0 tm = true -> is_end0 tm = false) /\ (is_end0 tm = true -> is_start0 tm = false).
Proof. unfold is_start0, is_end0. destruct (tm_anchor tm); split; intros H; try reflexivity; discriminate. Qed.

Lemma two_entries_shape d : two_entries d = true ->
  exists a b ls le, d_effs d = [(a, ls); (b, le)] /\ is_start0 a = true /\ is_end0 b = true /\
                    start_effs d = ls /\ end_effs d = le.
Proof.
  unfold two_entries, start_effs, end_effs, effs_at. destruct (d_effs d) as [|[a ls] [|[b le] [|]]]; try discriminate.
  intros H. apply andb_true_iff in H. destruct H as [Ha Hb]. exists a, b, ls, le.
  split; [reflexivity|]. split; [exact Ha|]. split; [exact Hb|].
  cbn [flat_map fst snd]. rewrite Ha, Hb, (proj1 (start_end_excl a) Ha), (proj2 (start_end_excl b) Hb).
  cbn [app]. rewrite !app_nil_r. split; reflexivity.
Qed.

Lemma iv_facts2 s d iv u :
  end_point (ti_lo iv) = true -> end_point (ti_hi iv) = true -> zq 0 < d ->
  in_iv (abs_interval s d iv) u ->
  s <= u /\ u <= s + d /\
  (u <= s -> is_start0 (ti_lo iv) && negb (ti_lopen iv) = true) /\ (s < u -> is_end0 (ti_hi iv) = true).
Proof.
  intros EL EH D [L U]. pose proof (lt_plus s d D) as SD.
  unfold abs_interval in *. cbn [ai_lo ai_hi ai_lopen ai_ropen] in *.
  unfold end_point in *. apply orb_true_iff in EL. apply orb_true_iff in EH.
  set (e := s + d) in *.
  destruct EL as [EL|EL]; [rewrite (abs_time_start s d _ EL) in L | rewrite (abs_time_end s d _ EL) in L; fold e in L];
  (destruct EH as [EH|EH]; [rewrite (abs_time_start s d _ EH) in U | rewrite (abs_time_end s d _ EH) in U; fold e in U]);
  rewrite ?EL, ?EH; destruct (ti_lopen iv), (ti_ropen iv); cbn [negb andb];
  unfold Qclt, Qcle in *;
  try (exfalso; lra);
  (split; [lra | split; [lra | split; intros K; first [reflexivity | exfalso; lra]]]).
Qed.

(* one durative step with the happenings [now; t2], now < t2 < now', in front of a suffix that starts at now' *)
Lemma assemble2 sc TP k now now' t2 st r ev1 ev2 (s_t s_mid s_t1 : state) tr' H0 s_fin :
  now < t2 -> t2 < now' ->
  (forall e, In e H0 -> ev_time e < now) ->
  ev_time ev1 = now -> ev_time ev2 = t2 -> step_events TP k st = [ev1; ev2] ->
  ref_apply sc (tp_base TP) s_t [ev1] = Some s_mid -> ref_apply sc (tp_base TP) s_mid [ev2] = Some s_t1 ->
  run_ok sc TP (S k) now' s_t1 r (H0 ++ [ev1; ev2]) tr' s_fin ->
  (forall x, In x r -> now' <= ps_start x) ->
  (forall c, In c (step_conds TP st) -> forall u, in_iv (tc_iv c) u ->
     now <= u /\ u <= t2 /\ (u <= now -> holds_in sc TP s_t (tc_bind c) (tc_expr c) = true) /\
     (now < u -> holds_in sc TP s_mid (tc_bind c) (tc_expr c) = true)) ->
  (forall tr, Temporal.step_dur_ok sc TP s_t ((now, s_mid) :: tr) st = true) ->
  run_ok sc TP k now s_t (st :: r) H0 ((now, s_mid) :: (t2, s_t1) :: tr') s_fin.
Proof.
  intros NT TN HB ET1 ET2 EV R1 R2 (RT & C1 & C2 & C3 & C6 & C7 & C5) STARTS HEADIV HEADDUR.
  assert (HK : Hk TP k (st :: r) = ev1 :: ev2 :: Hk TP (S k) r).
  { unfold Hk. cbn [indexed_from flat_map fst snd]. rewrite EV. reflexivity. }
  rewrite <- app_assoc in RT. cbn [app] in RT.
  assert (KE : forall e, In e (Hk TP (S k) r) -> now' <= ev_time e).
  { intros e Hin. apply C7. apply in_map. exact Hin. }
  assert (Q1 : qc_eqb now now = true) by (apply qc_eqb_eq; reflexivity).
  assert (Q2 : qc_eqb t2 t2 = true) by (apply qc_eqb_eq; reflexivity).
  assert (Q3 : qc_eqb t2 now = false) by (apply qc_eqb_false; intros E; rewrite E in NT; unfold Qclt in NT; lra).
  assert (Q4 : qc_eqb now t2 = false) by (apply qc_eqb_false; intros E; rewrite E in NT; unfold Qclt in NT; lra).
  assert (EA1 : events_at now (H0 ++ ev1 :: ev2 :: Hk TP (S k) r) = [ev1]).
  { rewrite events_at_app. rewrite (events_at_none now H0).
    - rewrite !events_at_cons. rewrite ET1, ET2, Q1, Q3.
      rewrite (events_at_none now (Hk TP (S k) r)); [reflexivity|].
      intros x Hx E'. specialize (KE x Hx). rewrite E' in KE. unfold Qclt, Qcle in *. lra.
    - intros x Hx E'. specialize (HB x Hx). rewrite E' in HB. unfold Qclt, Qcle in *. lra. }
  assert (EA2 : events_at t2 (H0 ++ ev1 :: ev2 :: Hk TP (S k) r) = [ev2]).
  { rewrite events_at_app. rewrite (events_at_none t2 H0).
    - rewrite !events_at_cons. rewrite ET1, ET2, Q2, Q4.
      rewrite (events_at_none t2 (Hk TP (S k) r)); [reflexivity|].
      intros x Hx E'. specialize (KE x Hx). rewrite E' in KE. unfold Qclt, Qcle in *. lra.
    - intros x Hx E'. specialize (HB x Hx). rewrite E' in HB. unfold Qclt, Qcle in *. lra. }
  unfold run_ok. rewrite HK. cbn [map]. rewrite ET1, ET2.
  split; [cbn [run_times]; rewrite EA1, R1, EA2, R2, RT; reflexivity|].
  split; [|split; [|split; [|split; [|split]]]].
  - intros x [<-|Hx] c Hc u Hu.
    + destruct (HEADIV c Hc u Hu) as (_ & U2 & HS & HM). destruct (Qclt_le_dec now u) as [L|L].
      * rewrite (state_at_cons_lt s_t now s_mid _ u L). rewrite (state_at_cons_le s_mid t2 s_t1 tr' u U2). exact (HM L).
      * rewrite (state_at_cons_le s_t now s_mid _ u L). exact (HS L).
    + pose proof (C5 x Hx c Hc u Hu) as U.
      rewrite (state_at_cons_lt s_t now s_mid _ u); [|unfold Qclt, Qcle in *; lra].
      rewrite (state_at_cons_lt s_mid t2 s_t1 tr' u); [exact (C1 x Hx c Hc u Hu)|unfold Qclt, Qcle in *; lra].
  - intros x [<-|Hx]; [apply HEADDUR|]. specialize (STARTS x Hx).
    unfold Temporal.step_dur_ok. rewrite (state_at_cons_lt s_t now s_mid _ (ps_start x)); [|unfold Qclt, Qcle in *; lra].
    rewrite (state_at_cons_lt s_mid t2 s_t1 tr' (ps_start x)); [exact (C2 x Hx)|unfold Qclt, Qcle in *; lra].
  - cbn [final_state]. exact C3.
  - change (asc_from now (t2 :: map ev_time (Hk TP (S k) r))). cbn [asc_from]. split; [exact NT|].
    apply asc_from_of_asc; [exact C6|]. intros x Hx. specialize (C7 x Hx). unfold Qclt, Qcle in *. lra.
  - intros x [<-|[<-|Hx]]; [apply Qcle_refl | apply Qclt_le_weak; exact NT|].
    specialize (C7 x Hx). unfold Qclt, Qcle in *. lra.
  - intros x [<-|Hx] c Hc u Hu.
    + exact (proj1 (HEADIV c Hc u Hu)).
    + pose proof (C5 x Hx c Hc u Hu) as U. unfold Qclt, Qcle in *. lra.
Qed.

Lemma frag_empty_of TP : t2s_fragment TP = true -> tp_teffs TP = [] /\ tp_tgoals TP = [] /\ p_invs (tp_base TP) = [].
Proof.
  intros A. unfold t2s_fragment in A. rewrite !andb_true_iff in A. destruct A as [[[[A1 A2] A3] _] _].
  destruct (tp_teffs TP); [|discriminate]. destruct (tp_tgoals TP); [|discriminate].
  destruct (p_invs (tp_base TP)); [|discriminate]. repeat split.
Qed.

Section ComposeStart.
  Variable sc : bool.
  Variable smp : expr -> expr.
  Hypothesis OK : forall e I, eval sc (smp e) I = eval sc e I.
  Variable TP : tproblem.
  Let P := tp_base TP.
  Variable P' : problem.
  Variable eps : Qc.
  Hypothesis FR : start_end_fragment smp TP = true.
  Hypothesis CP : t2s_problem smp TP = Some P'.
  Hypothesis He : zq 0 < eps.

  Lemma s_frag_parts :
    t2s_fragment TP = true /\
    forallb (fun id => two_entries (snd id) &&
                       match t2s_action smp (snd id) with Some a' => start_not_read_step smp (snd id) a' | None => false end)
            (tp_dur TP) = true.
  Proof. unfold start_end_fragment in FR. apply andb_true_iff in FR. exact FR. Qed.

  Lemma s_compiled_shape : exists acts, t2s_actions smp (tp_dur TP) = Some acts /\ same_base P P' /\
    forall aid, lookup_action P' aid = lookupN aid (p_actions P ++ acts).
  Proof.
    unfold t2s_problem in CP. destruct (t2s_actions smp (tp_dur TP)) as [acts|]; [|discriminate].
    exists acts. split; [reflexivity|]. inversion CP as [E]. split; [repeat split|]. intros aid. reflexivity.
  Qed.

  Lemma s_inst_facts aid ai a' :
    lookup_tact TP aid = Some (TInst ai) -> lookup_action P' aid = Some a' -> a' = ai.
  Proof.
    intros LT LA. destruct s_compiled_shape as (acts & _ & _ & LK). rewrite LK in LA.
    unfold lookup_tact in LT. fold P in LT. destruct (lookupN aid (p_actions P)) as [a0|] eqn:E.
    - inversion LT; subst a0. rewrite (lookupN_app_l aid _ acts ai E) in LA. inversion LA. reflexivity.
    - destruct (lookupN aid (tp_dur TP)); discriminate.
  Qed.

  Lemma s_action_facts aid d a' :
    lookup_tact TP aid = Some (TDur d) -> lookup_action P' aid = Some a' ->
    start_not_read_step smp d a' = true /\ a_params a' = d_params d /\ conds_supported d = true /\ two_entries d = true.
  Proof.
    intros LT LA. destruct s_compiled_shape as (acts & TA & _ & LK). rewrite LK in LA.
    destruct s_frag_parts as (A & C).
    unfold lookup_tact in LT. fold P in LT. destruct (lookupN aid (p_actions P)) as [a0|] eqn:E; [discriminate|].
    rewrite (lookupN_app_r aid _ acts E) in LA.
    destruct (lookupN aid (tp_dur TP)) as [d0|] eqn:LD; [|discriminate]. inversion LT; subst d0.
    pose proof (t2s_actions_lookup smp _ acts TA aid d a' LD LA) as T.
    pose proof (lookupN_In _ _ _ LD) as Hin.
    rewrite forallb_forall in C. specialize (C _ Hin). cbn [snd] in C. rewrite T in C.
    apply andb_true_iff in C. destruct C as [C0 C].
    split; [exact C|]. split; [exact (t2s_action_params smp d a' T)|]. split; [|exact C0].
    unfold t2s_fragment in A. rewrite !andb_true_iff in A. destruct A as [[_ A] _].
    rewrite forallb_forall in A. specialize (A _ Hin). cbn [snd] in A. apply andb_true_iff in A. exact (proj2 A).
  Qed.

  Lemma step_events_two k st d dt a b ls le :
    lookup_tact TP (ps_act st) = Some (TDur d) -> ps_dur st = Some dt ->
    d_effs d = [(a, ls); (b, le)] -> is_start0 a = true -> is_end0 b = true ->
    step_events TP k st =
    [ {| ev_time := ps_start st; ev_src := Some k; ev_bind := zip_params (d_params d) (ps_args st); ev_effs := ls |};
      {| ev_time := ps_start st + dt; ev_src := Some k; ev_bind := zip_params (d_params d) (ps_args st); ev_effs := le |} ].
  Proof.
    intros LT PD DE Ia Ib. unfold step_events. rewrite LT, PD, DE. cbn [map fst snd].
    rewrite (abs_time_start _ _ _ Ia), (abs_time_end _ _ _ Ib). reflexivity.
  Qed.

  Lemma s_compose_run : forall pi k now (s_s s_t : state) tpl H0 s_fin,
    state_eq s_t s_s ->
    back_plan sc TP P' eps now s_s pi = Some tpl ->
    run P' (spec_step sc P') s_s pi = Some s_fin ->
    nonempty_along sc TP P' s_s pi -> positive_durations tpl ->
    (forall e, In e H0 -> ev_time e < now) ->
    exists tr, run_ok sc TP k now s_t tpl H0 tr s_fin.
  Proof.
    induction pi as [|[aid args] rest IH]; intros k now s_s s_t tpl H0 s_fin SE BP RUN NE POS HB.
    - cbn in BP. inversion BP; subst tpl. cbn in RUN. inversion RUN; subst s_fin.
      exists []. unfold run_ok. split; [reflexivity|]. split; [intros st []|]. split; [intros st []|]. split; [exact SE|].
      split; [exact I|]. split; [intros x []|intros st []].
    - destruct (back_plan_cons _ _ _ _ _ _ _ _ _ _ BP) as (a' & s_s' & r & od & La & Sp & -> & Hr & Hkind).
      cbn [run] in RUN. unfold lookup_action in La. unfold lookup_action in RUN. rewrite La, Sp in RUN.
      cbn [nonempty_along] in NE. unfold lookup_action in NE. rewrite La, Sp in NE. destruct NE as [NE1 NE2].
      assert (POSr : positive_durations r) by (intros x dx Hx; apply POS; right; exact Hx).
      destruct s_compiled_shape as (acts0 & _ & SB & _).
      assert (STARTS : forall now', chained_t eps now' r -> forall x, In x r -> now' <= ps_start x).
      { intros now' CH. assert (F : Forall (fun x => zq 0 <= dur_t x) r).
        { apply Forall_forall. intros x Hx. unfold dur_t. destruct (ps_dur x) as [dx|] eqn:E; [|apply Qcle_refl].
          apply Qclt_le_weak. exact (POSr x dx Hx E). }
        pose proof (chained_after eps He r now' CH F) as CA. rewrite Forall_forall in CA. exact CA. }
      pose proof (back_plan_chained _ _ _ _ _ _ _ _ Hr) as CHr.
      destruct od as [dt|].
      + destruct Hkind as (d & LT & SD). rewrite LT in NE1.
        set (st := {| ps_start := now; ps_act := aid; ps_args := args; ps_dur := Some dt |}) in *.
        assert (Dpos : zq 0 < dt) by (apply (POS st dt); [left; reflexivity | reflexivity]).
        destruct (s_action_facts aid d a' LT La) as (SN & EP & CS & TE).
        destruct (two_entries_shape d TE) as (ta & tb & ls & le & DE & Ia & Ib & SEq & EEq).
        set (t2 := now + dt).
        destruct (step_start_not_read sc smp OK P P' SB d a' args s_s s_t s_s' (Some k) now t2 SN EP SE Sp)
          as (s_mid & s_t1 & R1 & R2 & SE1 & CH).
        rewrite SEq in R1. rewrite EEq in R2.
        set (ev1 := {| ev_time := now; ev_src := Some k; ev_bind := zip_params (d_params d) args; ev_effs := ls |}) in *.
        set (ev2 := {| ev_time := t2; ev_src := Some k; ev_bind := zip_params (d_params d) args; ev_effs := le |}) in *.
        assert (EV : step_events TP k st = [ev1; ev2]) by (apply (step_events_two k st d dt ta tb ls le LT eq_refl DE Ia Ib)).
        assert (NT : now < t2) by (apply lt_plus; exact Dpos).
        assert (TN : t2 < t2 + eps) by (apply lt_plus; exact He).
        assert (HB' : forall e, In e (H0 ++ [ev1; ev2]) -> ev_time e < t2 + eps).
        { intros e Hin. apply in_app_or in Hin. destruct Hin as [Hin|[<-|[<-|[]]]].
          - specialize (HB e Hin). unfold Qclt in *. lra.
          - cbn [ev_time ev1]. unfold Qclt in *. lra.
          - exact TN. }
        destruct (IH (S k) (t2 + eps) s_s' s_t1 r (H0 ++ [ev1; ev2]) s_fin SE1 Hr RUN NE2 POSr HB') as (tr' & ROK).
        exists ((now, s_mid) :: (t2, s_t1) :: tr').
        apply (assemble2 sc TP k now (t2 + eps) t2 st r ev1 ev2 s_t s_mid s_t1 tr' H0 s_fin NT TN HB eq_refl eq_refl EV R1 R2 ROK
                         (STARTS _ CHr)).
        * intros c Hc u Hu. destruct (step_conds_in TP st d dt c LT eq_refl Hc) as (ic & e & I1 & I2 & ->).
          cbn [tc_iv tc_bind tc_expr] in *. unfold conds_supported in CS. rewrite forallb_forall in CS.
          specialize (CS ic I1). apply andb_true_iff in CS. destruct CS as [CL CHi].
          destruct (iv_facts2 now dt (fst ic) u CL CHi Dpos Hu) as (U1 & U2 & KS & KE).
          destruct (CH ic e I1 I2) as [H1 H2].
          split; [exact U1|]. split; [exact U2|]. unfold holds_in. fold P.
          split; [intros L; exact (H1 (KS L)) | intros L; exact (H2 (KE L))].
        * intros tr. unfold Temporal.step_dur_ok. cbn [ps_act ps_dur ps_start st]. rewrite LT.
          rewrite (state_at_cons_le s_t now s_mid tr now (Qcle_refl _)).
          rewrite (dur_ok_ext sc TP s_t s_s _ d dt SE). exact (step_dur_ok sc TP s_s d args dt SD NE1).
      + destruct Hkind as (ai & LT).
        pose proof (s_inst_facts aid ai a' LT La) as ->.
        set (st := {| ps_start := now; ps_act := aid; ps_args := args; ps_dur := None |}) in *.
        destruct (gen_step sc P P' SB ai args s_s s_t s_s' (Some k) now SE Sp) as (A & s_t1 & R1 & SE1).
        set (ev := {| ev_time := now; ev_src := Some k; ev_bind := zip_params (a_params ai) args; ev_effs := a_effs ai |}) in *.
        assert (EV : step_events TP k st = [ev]) by (unfold step_events; cbn [ps_act st]; rewrite LT; reflexivity).
        assert (TN : now < now + eps) by (apply lt_plus; exact He).
        assert (HB' : forall e, In e (H0 ++ [ev]) -> ev_time e < now + eps).
        { intros e Hin. apply in_app_or in Hin. destruct Hin as [Hin|[<-|[]]].
          - specialize (HB e Hin). unfold Qclt in *. lra.
          - exact TN. }
        destruct (IH (S k) (now + eps) s_s' s_t1 r (H0 ++ [ev]) s_fin SE1 Hr RUN NE2 POSr HB') as (tr' & ROK).
        exists ((now, s_t1) :: tr').
        apply (assemble sc TP k now (now + eps) now st r ev s_t s_t1 tr' H0 s_fin (Qcle_refl _) TN HB eq_refl EV R1 ROK
                        (STARTS _ CHr)).
        * intros c Hc u Hu. unfold step_conds in Hc. cbn [ps_act ps_start ps_args st] in Hc. rewrite LT in Hc.
          apply in_map_iff in Hc. destruct Hc as [e [<- He']]. cbn [tc_iv tc_bind tc_expr] in *.
          destruct Hu as [U1 U2]. cbn in U1, U2. split; [exact U1|]. split; [exact U2|].
          unfold holds_in. fold P. unfold all_hold in A. rewrite forallb_forall in A. exact (A e He').
        * intros tr. unfold Temporal.step_dur_ok. cbn [ps_act ps_dur st]. rewrite LT. reflexivity.
  Qed.

  Theorem plan_start_not_read s0 pi tpl :
    bound_invs P = [] ->
    valid_plan sc P' s0 pi = true ->
    back_plan sc TP P' eps (zq 0) s0 pi = Some tpl ->
    nonempty_along sc TP P' s0 pi -> positive_durations tpl ->
    tt_valid sc TP s0 tpl.
  Proof.
    intros BI V BP NE POS.
    unfold valid_plan in V. destruct (run P' (spec_step sc P') s0 pi) as [s_fin|] eqn:RUN; [|discriminate].
    destruct (s_compose_run pi 0%nat (zq 0) s0 s0 tpl [] s_fin (fun f a => eq_refl) BP RUN NE POS
                            (fun e F => match F with end))
      as (tr & RT & C1 & C2 & C3 & C6 & _ & _).
    destruct (frag_empty_of TP (proj1 s_frag_parts)) as (E1 & E2 & E3). destruct s_compiled_shape as (acts0 & _ & SB & _).
    assert (AE : all_events TP tpl = Hk TP 0 tpl).
    { unfold all_events, timed_events. rewrite E1. reflexivity. }
    assert (TS : times_of (all_events TP tpl) = map ev_time (Hk TP 0 tpl)).
    { rewrite AE. destruct (times_of_spec (Hk TP 0 tpl)) as [T1 T2]. apply asc_unique; [exact T1 | exact C6 | exact T2]. }
    split; [exact (back_plan_wf _ _ _ _ _ _ _ _ BP)|].
    exists tr. rewrite TS, AE. split; [exact RT|]. split; [exact C2|]. split.
    - intros c Hc. unfold all_conds, global_conds in Hc. rewrite E2 in Hc. fold P in Hc. fold P in E3. rewrite E3, BI in Hc.
      cbn in Hc. apply in_flat_map in Hc. destruct Hc as [st [H1 H2]]. exact (C1 st H1 c H2).
    - rewrite <- V. unfold goals_hold. fold P. pose proof SB as (_ & _ & _ & SG). rewrite SG.
      symmetry. apply all_hold_ext. apply (mk_interp_base P P' _ _ [] SB).
      intros f a. symmetry. apply C3.
  Qed.
End ComposeStart.
