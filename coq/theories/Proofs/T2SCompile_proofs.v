(* C28 (whole plan) - lemmas about the model of plan_back_conversion_callable over the records of Planning/Temporal.v
   ([back_plan], Compilers/T2SCompile.v): the converted plan is well formed, keeps the action instances in order, its
   steps are chained (start_{i+1} = end_i + epsilon) hence pairwise disjoint and ordered, and every chosen duration
   satisfies the reference semantics' duration test [dur_ok] in the state in which the compiled step is applied,
   whenever the duration interval is not empty there. *)
From Coq Require Import List ZArith NArith QArith Qcanon Bool Lia Lqa.
Import ListNotations.
Require Import UPV.Core.Expr UPV.Core.Eval UPV.Core.Interp UPV.Planning.Problem UPV.Planning.Sem.
Require Import UPV.Planning.Temporal UPV.Planning.TTValidate UPV.Walkers.Subst UPV.Compilers.T2SCompile.
Require Import UPV.Proofs.Eval_lemmas UPV.Proofs.Temporal_base.
Local Open Scope Qc_scope.

Definition seq_of_t (tpl : tplan) : list (N * list value) := map (fun st => (ps_act st, ps_args st)) tpl.

Definition next_now (eps now : Qc) (odur : option Qc) : Qc :=
  match odur with Some dt => now + dt + eps | None => now + eps end.

(* one iteration of the loop *)
Lemma back_plan_cons sc TP P' eps aid args rest now s tpl :
  back_plan sc TP P' eps now s ((aid, args) :: rest) = Some tpl ->
  exists a' s' r odur,
    lookup_action P' aid = Some a' /\ spec_step sc P' s a' args = Some s' /\
    tpl = {| ps_start := now; ps_act := aid; ps_args := args; ps_dur := odur |} :: r /\
    back_plan sc TP P' eps (next_now eps now odur) s' rest = Some r /\
    match odur with
    | None => exists ai, lookup_tact TP aid = Some (TInst ai)
    | Some dt => exists d, lookup_tact TP aid = Some (TDur d) /\ step_dur sc (tp_base TP) s d args = Some dt
    end.
Proof.
  cbn [back_plan]. intros H.
  destruct (lookup_action P' aid) as [a'|]; [|discriminate].
  destruct (lookup_tact TP aid) as [[ai|d]|]; [| |discriminate].
  - destruct (spec_step sc P' s a' args) as [s'|] eqn:Sp; [|discriminate].
    destruct (back_plan sc TP P' eps (now + eps) s' rest) as [r|] eqn:E; [|discriminate].
    cbn [option_map] in H. inversion H as [Ht].
    exists a', s', r, None. split; [reflexivity|]. split; [exact Sp|]. split; [reflexivity|].
    split; [exact E | exists ai; reflexivity].
  - destruct (step_dur sc (tp_base TP) s d args) as [dt|] eqn:D; [|discriminate].
    destruct (spec_step sc P' s a' args) as [s'|] eqn:Sp; [|discriminate].
    destruct (back_plan sc TP P' eps (now + dt + eps) s' rest) as [r|] eqn:E; [|discriminate].
    cbn [option_map] in H. inversion H as [Ht].
    exists a', s', r, (Some dt). split; [reflexivity|]. split; [exact Sp|]. split; [reflexivity|].
    split; [exact E | exists d; split; [reflexivity | exact D]].
Qed.

(* the converted plan has the same action instances in the same order *)
Lemma back_plan_seq sc TP P' eps : forall pi now s tpl,
  back_plan sc TP P' eps now s pi = Some tpl -> seq_of_t tpl = pi.
Proof.
  induction pi as [|[aid args] rest IH]; intros now s tpl H.
  - cbn in H. inversion H. reflexivity.
  - destruct (back_plan_cons _ _ _ _ _ _ _ _ _ _ H) as (a' & s' & r & od & _ & _ & -> & Hr & _).
    cbn. f_equal. exact (IH _ _ _ Hr).
Qed.

(* ... is well formed: durative actions come with a duration, instantaneous ones without *)
Lemma back_plan_wf sc TP P' eps : forall pi now s tpl,
  back_plan sc TP P' eps now s pi = Some tpl -> plan_wf TP tpl = true.
Proof.
  induction pi as [|[aid args] rest IH]; intros now s tpl H.
  - cbn in H. inversion H. reflexivity.
  - destruct (back_plan_cons _ _ _ _ _ _ _ _ _ _ H) as (a' & s' & r & od & _ & _ & -> & Hr & Hk).
    unfold plan_wf. cbn [forallb]. fold (plan_wf TP r). rewrite (IH _ _ _ Hr), andb_true_r.
    unfold step_wf. cbn [ps_act ps_dur]. destruct od as [dt|].
    + destruct Hk as (d & -> & _). reflexivity.
    + destruct Hk as (ai & ->). reflexivity.
Qed.

(* ------------------------------------------------------------------ spacing *)
Fixpoint chained_t (eps now : Qc) (tpl : tplan) : Prop :=
  match tpl with
  | [] => True
  | st :: r => ps_start st = now /\ chained_t eps (next_now eps now (ps_dur st)) r
  end.

Definition dur_t (st : pstep) : Qc := match ps_dur st with Some d => d | None => zq 0 end.
Definition end_t (st : pstep) : Qc := ps_start st + dur_t st.

Lemma back_plan_chained sc TP P' eps : forall pi now s tpl,
  back_plan sc TP P' eps now s pi = Some tpl -> chained_t eps now tpl.
Proof.
  induction pi as [|[aid args] rest IH]; intros now s tpl H.
  - cbn in H. inversion H. exact I.
  - destruct (back_plan_cons _ _ _ _ _ _ _ _ _ _ H) as (a' & s' & r & od & _ & _ & -> & Hr & _).
    cbn [chained_t ps_start ps_dur]. split; [reflexivity | exact (IH _ _ _ Hr)].
Qed.

Lemma zq0_this : this (zq 0) = 0%Q.
Proof. reflexivity. Qed.

Lemma next_now_gt eps now od : zq 0 < eps -> zq 0 <= match od with Some d => d | None => zq 0 end ->
  now + match od with Some d => d | None => zq 0 end < next_now eps now od.
Proof.
  intros He Hd. unfold next_now. destruct od as [d|]; unfold Qclt, Qcle, Qcplus in *; cbn [this Q2Qc] in *;
    rewrite ?Qred_correct; rewrite zq0_this in *; lra.
Qed.

Lemma chained_after eps : zq 0 < eps -> forall tpl now,
  chained_t eps now tpl -> Forall (fun st => zq 0 <= dur_t st) tpl -> Forall (fun st => now <= ps_start st) tpl.
Proof.
  intros He. induction tpl as [|st r IH]; intros now C D; [constructor|].
  cbn [chained_t] in C. destruct C as [C1 C2]. pose proof (Forall_inv D) as D1; pose proof (Forall_inv_tail D) as D2. cbn beta in D1. constructor.
  - rewrite C1. apply Qcle_refl.
  - pose proof (next_now_gt eps now (ps_dur st) He D1) as G.
    specialize (IH _ C2 D2). eapply Forall_impl; [|exact IH]. cbn beta. intros x Hx.
    assert (L : now <= now + match ps_dur st with Some d => d | None => zq 0 end).
    { unfold dur_t in D1. unfold Qcle, Qcplus in *. cbn [this Q2Qc] in *. rewrite ?Qred_correct. rewrite zq0_this in *. lra. }
    unfold Qclt, Qcle in *. lra.
Qed.

(* every step ends strictly before every later step starts *)
Lemma chained_ordered eps : zq 0 < eps -> forall tpl now,
  chained_t eps now tpl -> Forall (fun st => zq 0 <= dur_t st) tpl ->
  ForallOrdPairs (fun a b => end_t a < ps_start b) tpl.
Proof.
  intros He. induction tpl as [|st r IH]; intros now C D; [constructor|].
  cbn [chained_t] in C. destruct C as [C1 C2]. pose proof (Forall_inv D) as D1; pose proof (Forall_inv_tail D) as D2. cbn beta in D1. constructor; [|exact (IH _ C2 D2)].
  pose proof (next_now_gt eps now (ps_dur st) He D1) as G.
  pose proof (chained_after eps He r _ C2 D2) as A.
  eapply Forall_impl; [|exact A]. cbn beta. intros x Hx. unfold end_t, dur_t. rewrite C1.
  eapply Qclt_le_trans; [exact G | exact Hx].
Qed.

(* ------------------------------------------------------------------ the chosen duration *)
Lemma choose_dur_mid l h : choose_dur l h true = mid l h.
Proof. reflexivity. Qed.

Lemma step_dur_ok sc TP s d args dt :
  step_dur sc (tp_base TP) s d args = Some dt ->
  dur_nonempty sc (tp_base TP) s (zip_params (d_params d) args) d = true ->
  dur_ok sc TP s (zip_params (d_params d) args) d dt = true.
Proof.
  unfold step_dur, bound_val, dur_nonempty, dur_ok.
  set (I := mk_interp (tp_base TP) s (zip_params (d_params d) args)).
  destruct (eval sc (d_lo d) I) as [[b|l|o]|]; cbn [as_num]; try discriminate.
  destruct (eval sc (d_hi d) I) as [[b|h|o]|]; cbn [as_num]; try (destruct (d_lopen d); discriminate).
  destruct (d_lopen d), (d_ropen d); cbn [orb choose_dur]; intros E N; inversion E; subst dt; qb.
  - destruct (mid_lt l h N) as [A B]. apply andb_true_iff. split; apply qc_ltb_lt; assumption.
  - destruct (mid_lt l h N) as [A B]. apply andb_true_iff. split; [apply qc_ltb_lt; assumption|].
    apply qc_leb_le. apply Qclt_le_weak. exact B.
  - apply andb_true_iff. split; [apply qc_leb_le, Qcle_refl | apply qc_ltb_lt; assumption].
  - apply andb_true_iff. split; [apply qc_leb_le, Qcle_refl | apply qc_leb_le; assumption].
Qed.

(* along the compiled plan: every durative step's duration passes [dur_ok] in the state where the step is applied *)
Fixpoint durs_ok (sc : bool) (TP : tproblem) (P' : problem) (s : state) (pi : list (N * list value)) (tpl : tplan) : Prop :=
  match pi, tpl with
  | [], [] => True
  | (aid, args) :: rest, st :: r =>
      match lookup_tact TP aid, ps_dur st with
      | Some (TDur d), Some dt =>
          dur_nonempty sc (tp_base TP) s (zip_params (d_params d) args) d = true ->
          dur_ok sc TP s (zip_params (d_params d) args) d dt = true
      | Some (TInst _), None => True
      | _, _ => False
      end /\
      match lookup_action P' aid with
      | Some a' => match spec_step sc P' s a' args with Some s' => durs_ok sc TP P' s' rest r | None => False end
      | None => False
      end
  | _, _ => False
  end.

Lemma back_plan_durs_ok sc TP P' eps : forall pi now s tpl,
  back_plan sc TP P' eps now s pi = Some tpl -> durs_ok sc TP P' s pi tpl.
Proof.
  induction pi as [|[aid args] rest IH]; intros now s tpl H.
  - cbn in H. inversion H. exact I.
  - destruct (back_plan_cons _ _ _ _ _ _ _ _ _ _ H) as (a' & s' & r & od & La & Sp & -> & Hr & Hk).
    cbn [durs_ok ps_dur]. rewrite La, Sp. split; [|exact (IH _ _ _ Hr)].
    destruct od as [dt|].
    + destruct Hk as (d & -> & D). intros N. exact (step_dur_ok sc TP s d args dt D N).
    + destruct Hk as (ai & ->). exact I.
Qed.

(* a non-negative lower bound gives a non-negative duration (used to discharge the hypothesis of [chained_ordered]) *)
Lemma back_plan_first sc TP P' eps pi now s st r :
  back_plan sc TP P' eps now s pi = Some (st :: r) -> ps_start st = now.
Proof.
  destruct pi as [|[aid args] rest]; intros H; [cbn in H; discriminate|].
  destruct (back_plan_cons _ _ _ _ _ _ _ _ _ _ H) as (a' & s' & r' & od & _ & _ & E & _). inversion E. reflexivity.
Qed.

(* the part of the whole-plan statement that holds for every input *)
Lemma back_plan_partial sc TP P' eps s0 pi tpl :
  zq 0 < eps ->
  back_plan sc TP P' eps (zq 0) s0 pi = Some tpl ->
  (forall st dt, In st tpl -> ps_dur st = Some dt -> zq 0 < dt) ->
  plan_wf TP tpl = true /\ seq_of_t tpl = pi /\ chained_t eps (zq 0) tpl /\
  ForallOrdPairs (fun a b => end_t a < ps_start b) tpl /\ durs_ok sc TP P' s0 pi tpl.
Proof.
  intros He H Pos.
  split; [exact (back_plan_wf _ _ _ _ _ _ _ _ H)|]. split; [exact (back_plan_seq _ _ _ _ _ _ _ _ H)|].
  pose proof (back_plan_chained _ _ _ _ _ _ _ _ H) as C. split; [exact C|].
  split; [|exact (back_plan_durs_ok _ _ _ _ _ _ _ _ H)].
  apply (chained_ordered eps He tpl (zq 0) C). apply Forall_forall. intros st Hin. unfold dur_t.
  destruct (ps_dur st) as [dt|] eqn:E; [|apply Qcle_refl].
  apply Qclt_le_weak. exact (Pos st dt Hin E).
Qed.
