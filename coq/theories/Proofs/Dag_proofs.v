(* Proofs about the DagWalker model (C14).
   Part A: a walker with invalidate_memoization = True is back in its fresh state after EVERY call, successful or not,
           whatever node function each call used.
   Part B: a walker that keeps its memoization and has one fixed node function [f] answers every call with
           [eval] of the root -- a reference semantics that does not mention the walker at all -- after any history of
           earlier calls, failed ones included.  Hence: same answer as a fresh walker.
   Part C: the evaluator wrapper (StateEvaluator/QuantifierSimplifier) never stays "busy". *)
From Coq Require Import List NArith Bool Arith Lia.
Import ListNotations.
Require Import UPV.Model.Dag.
Open Scope N_scope.

Section Proofs.
  Variable R : Type.
  Variable children : N -> list N.

  Notation walker := (walker R).
  Notation outcome := (outcome R).
  Notation result := (result R).
  Notation lookup := (lookup R).
  Notation lookups := (lookups R).
  Notation memoized := (memoized R).
  Notation pending := (pending R).
  Notation push_children := (push_children R children).
  Notation process := (process R children).
  Notation iter_walk := (iter_walk R children).
  Notation walk := (walk R children).
  Notation run_call := (run_call R children).
  Notation run_calls := (run_calls R children).
  Notation results := (results R children).
  Notation mkw := (Build_walker R).

  Lemma process_done_nil f fuel : forall w w', process f fuel w = Done w' -> stack R w' = [].
  Proof.
    induction fuel as [|fuel IH]; intros w w'; simpl; [discriminate|].
    destruct (stack R w) as [|[b n] rest] eqn:E.
    - intros H; inversion H; subst; exact E.
    - destruct b.
      + destruct (memoized (memo R w) n); [apply IH|].
        destruct (lookups (children n) (memo R w)); [|discriminate].
        destruct (f n l); [apply IH | discriminate].
      + apply IH.
  Qed.

  (* ------------------------------------------------------------------ Part A: one-time caches *)
  Lemma walk_inval_fresh f fuel n :
    snd (walk f true fuel fresh n) <> RNoFuel -> fst (walk f true fuel fresh n) = fresh.
  Proof.
    unfold Dag.walk; simpl.
    destruct (iter_walk f fuel fresh n) as [w'|x w'|] eqn:E; simpl.
    - pose proof (process_done_nil _ _ _ _ E) as S0.
      destruct (lookup n (memo R w')); simpl; intros _; [rewrite S0|]; reflexivity.
    - reflexivity.
    - intros H; exfalso; apply H; reflexivity.
  Qed.

  Definition terminated (rs : list result) : Prop := Forall (fun r => r <> RNoFuel) rs.

  Lemma inval_history_fresh (cs : list (call R)) :
    terminated (results true fresh cs) -> run_calls true fresh cs = fresh.
  Proof.
    unfold Dag.run_calls. induction cs as [|[[f n] fuel] cs IH]; simpl; intros T; [reflexivity|].
    destruct (walk f true fuel fresh n) as [w' r] eqn:E. inversion T as [|? ? Hr T']; subst.
    assert (W : w' = fresh).
    { pose proof (walk_inval_fresh f fuel n) as X. rewrite E in X. apply X. exact Hr. }
    subst w'. simpl. apply IH. exact T'.
  Qed.

  Theorem inval_history_independent (cs : list (call R)) (c : call R) :
    terminated (results true fresh cs) ->
    run_call true (run_calls true fresh cs) c = run_call true fresh c.
  Proof. intros T. rewrite (inval_history_fresh cs T). reflexivity. Qed.

  (* ------------------------------------------------------------------ Part C: evaluator *)
  Notation evaluator := (evaluator R).
  Notation evaluate := (evaluate R children).

  Definition ev_call := ((N -> list R -> option R) * N * nat)%type.
  Definition ev_step (e : evaluator) (c : ev_call) : evaluator * ev_result R :=
    match c with (f, n, fuel) => evaluate f fuel e n end.
  Fixpoint ev_results (e : evaluator) (cs : list ev_call) : list (ev_result R) :=
    match cs with
    | [] => []
    | c :: cs' => let (e', r) := ev_step e c in r :: ev_results e' cs'
    end.
  Definition ev_run (e : evaluator) (cs : list ev_call) : evaluator := fold_left (fun e c => fst (ev_step e c)) cs e.
  Definition ev_terminated (rs : list (ev_result R)) : Prop := Forall (fun r => r <> EvRes RNoFuel) rs.

  Lemma ev_history_fresh cs : ev_terminated (ev_results fresh_evaluator cs) -> ev_run fresh_evaluator cs = fresh_evaluator.
  Proof.
    unfold ev_run. induction cs as [|[[f n] fuel] cs IH]; simpl; intros T; [reflexivity|].
    unfold Dag.evaluate in *; simpl in *.
    destruct (walk f true fuel fresh n) as [w' r] eqn:E. simpl in *. inversion T as [|? ? Hr T']; subst.
    assert (W : w' = fresh).
    { pose proof (walk_inval_fresh f fuel n) as X. rewrite E in X. apply X. simpl. intros ->. apply Hr; reflexivity. }
    subst w'. apply IH. exact T'.
  Qed.

  (* after any history -- failed evaluations included -- the evaluator answers like a fresh one; in particular never
     with the AssertionError of `assert self._variable_assignments is None` *)
  Theorem evaluator_history_independent cs c :
    ev_terminated (ev_results fresh_evaluator cs) ->
    ev_step (ev_run fresh_evaluator cs) c = ev_step fresh_evaluator c /\ snd (ev_step (ev_run fresh_evaluator cs) c) <> EvAssert.
  Proof.
    intros T. rewrite (ev_history_fresh cs T). split; [reflexivity|].
    destruct c as [[f n] fuel]. unfold ev_step, Dag.evaluate. simpl.
    destruct (walk f true fuel fresh n). simpl. discriminate.
  Qed.

  (* ------------------------------------------------------------------ Part B: kept memoization, fixed node function *)
  Section Fixed.
    Variable f : N -> list R -> option R.
    (* hash-consed nodes are created after their children: a child's id is smaller than its parent's *)
    Hypothesis children_lt : forall n c, In c (children n) -> c < n.

    Inductive eres := EOk (r : R) | EFail (x : failure) | ENoFuel.
    Inductive sres := SOk (rs : list R) | SFail (x : failure) | SNoFuel.

    Fixpoint eval_seq (g : N -> eres) (l : list N) : sres :=
      match l with
      | [] => SOk []
      | c :: l' =>
          match g c with
          | EOk r => match eval_seq g l' with SOk rs => SOk (r :: rs) | o => o end
          | EFail x => SFail x
          | ENoFuel => SNoFuel
          end
      end.

    (* the reference semantics: children are evaluated from the last to the first (the order the walker computes them
       in), the first exception wins, then the node function is applied *)
    Fixpoint eval (k : nat) (n : N) : eres :=
      match k with
      | O => ENoFuel
      | S k' =>
          match eval_seq (eval k') (rev (children n)) with
          | SOk rs => match f n (rev rs) with Some r => EOk r | None => EFail (FailAt n) end
          | SFail x => EFail x
          | SNoFuel => ENoFuel
          end
      end.

    Lemma eval_seq_mono g g' l : (forall c, g c <> ENoFuel -> g' c = g c) -> eval_seq g l <> SNoFuel ->
      eval_seq g' l = eval_seq g l.
    Proof.
      intros H. induction l as [|c l IH]; simpl; [reflexivity|].
      destruct (g c) eqn:G.
      - rewrite (H c) by (rewrite G; discriminate). rewrite G.
        destruct (eval_seq g l) eqn:E; intros N0; try (exfalso; apply N0; reflexivity);
          rewrite IH by (rewrite ?E; discriminate); reflexivity.
      - rewrite (H c) by (rewrite G; discriminate). rewrite G. reflexivity.
      - intros N0. exfalso; apply N0; reflexivity.
    Qed.

    Lemma eval_S k n : eval (S k) n =
      match eval_seq (eval k) (rev (children n)) with
      | SOk rs => match f n (rev rs) with Some r => EOk r | None => EFail (FailAt n) end
      | SFail x => EFail x
      | SNoFuel => ENoFuel
      end.
    Proof. reflexivity. Qed.

    Lemma eval_mono k : forall n, eval k n <> ENoFuel -> eval (S k) n = eval k n.
    Proof.
      induction k as [|k IH]; intros n H; [exfalso; apply H; reflexivity|].
      rewrite (eval_S (S k) n), (eval_S k n). rewrite (eval_S k n) in H.
      rewrite (eval_seq_mono (eval k) (eval (S k))); [reflexivity | exact IH |].
      intros E. apply H. rewrite E. reflexivity.
    Qed.

    Lemma eval_mono_le k k' n : (k <= k')%nat -> eval k n <> ENoFuel -> eval k' n = eval k n.
    Proof.
      induction 1 as [|k' L IH]; intros H; [reflexivity|].
      rewrite eval_mono; [apply IH; exact H | rewrite (IH H); exact H].
    Qed.

    Lemma eval_det k k' n : eval k n <> ENoFuel -> eval k' n <> ENoFuel -> eval k n = eval k' n.
    Proof.
      intros H H'. destruct (Nat.le_ge_cases k k') as [L|L].
      - symmetry. apply eval_mono_le; assumption.
      - apply eval_mono_le; assumption.
    Qed.

    Lemma eval_seq_fuel g l : (forall c, In c l -> g c <> ENoFuel) -> eval_seq g l <> SNoFuel.
    Proof.
      induction l as [|c l IH]; simpl; intros H; [discriminate|].
      destruct (g c) eqn:G; [| discriminate | exfalso; apply (H c); auto].
      destruct (eval_seq g l) eqn:E; try discriminate. exfalso. apply IH; [|reflexivity]. intros; apply H; auto.
    Qed.

    Lemma eval_enough k : forall n, (N.to_nat n < k)%nat -> eval k n <> ENoFuel.
    Proof.
      induction k as [|k IH]; intros n L; [lia|]. simpl.
      pose proof (eval_seq_fuel (eval k) (rev (children n))) as X.
      destruct (eval_seq (eval k) (rev (children n))) eqn:E.
      - destruct (f n (rev rs)); discriminate.
      - discriminate.
      - exfalso. apply X; [|reflexivity]. intros c Hc. apply IH.
        apply in_rev in Hc. apply children_lt in Hc. lia.
    Qed.

    Definition K (n : N) : nat := S (N.to_nat n).

    Definition consistent (m : list (N * R)) : Prop := forall n r, lookup n m = Some r -> exists k, eval k n = EOk r.
    Definition extends (m m' : list (N * R)) : Prop := forall n r, lookup n m = Some r -> lookup n m' = Some r.

    Lemma extends_refl m : extends m m.
    Proof. intros n r H; exact H. Qed.
    Lemma extends_trans a b c : extends a b -> extends b c -> extends a c.
    Proof. intros H1 H2 n r H. apply H2, H1, H. Qed.

    Lemma consistent_ok m n r k : consistent m -> lookup n m = Some r -> eval k n <> ENoFuel -> eval k n = EOk r.
    Proof.
      intros C L H. destruct (C n r L) as [k0 E]. rewrite <- E. apply eval_det; [exact H | rewrite E; discriminate].
    Qed.

    Lemma memoized_true m n : memoized m n = true -> exists r, lookup n m = Some r.
    Proof. unfold Dag.memoized. destruct (lookup n m) as [r|]; [eauto | discriminate]. Qed.
    Lemma memoized_false m n : memoized m n = false -> lookup n m = None.
    Proof. unfold Dag.memoized. destruct (lookup n m) as [r|]; [discriminate | reflexivity]. Qed.

    Lemma lookups_app a b m : lookups (a ++ b) m =
      match lookups a m, lookups b m with Some x, Some y => Some (x ++ y) | _, _ => None end.
    Proof.
      induction a as [|c a IH]; simpl.
      - destruct (lookups b m); reflexivity.
      - destruct (lookup c m); [|reflexivity]. rewrite IH.
        destruct (lookups a m), (lookups b m); reflexivity.
    Qed.

    Lemma lookups_rev l m rs : lookups (rev l) m = Some rs -> lookups l m = Some (rev rs).
    Proof.
      revert rs. induction l as [|c l IH]; simpl; intros rs.
      - intros H; inversion H; reflexivity.
      - rewrite lookups_app. simpl.
        destruct (lookups (rev l) m) as [x|] eqn:E; [|discriminate].
        destruct (lookup c m) as [r|]; [|discriminate]. intros H; inversion H; subst.
        rewrite (IH x eq_refl). rewrite rev_app_distr. reflexivity.
    Qed.

    (* big-step relation of _process_stack *)
    Inductive Run : walker -> outcome -> Prop :=
    | run_done m : Run (mkw m []) (Done (mkw m []))
    | run_hit m n rest o : memoized m n = true -> Run (mkw m rest) o -> Run (mkw m ((true, n) :: rest)) o
    | run_key m n rest : memoized m n = false -> lookups (children n) m = None ->
        Run (mkw m ((true, n) :: rest)) (Raised (KeyErr n) (mkw m rest))
    | run_raise m n rest args : memoized m n = false -> lookups (children n) m = Some args -> f n args = None ->
        Run (mkw m ((true, n) :: rest)) (Raised (FailAt n) (mkw m rest))
    | run_comp m n rest args r o : memoized m n = false -> lookups (children n) m = Some args -> f n args = Some r ->
        Run (mkw ((n, r) :: m) rest) o -> Run (mkw m ((true, n) :: rest)) o
    | run_expand m n rest o : Run (mkw m (push_children m n rest)) o -> Run (mkw m ((false, n) :: rest)) o.

    Lemma process_sound fuel : forall w o, process f fuel w = o -> o <> OutOfFuel -> Run w o.
    Proof.
      induction fuel as [|fuel IH]; intros [m s] o; simpl; [intros <- H; exfalso; apply H; reflexivity|].
      destruct s as [|[b n] rest].
      - intros <- _. constructor.
      - destruct b.
        + destruct (memoized m n) eqn:Mn; [intros H N0; apply run_hit; [exact Mn | apply IH; assumption]|].
          destruct (lookups (children n) m) as [args|] eqn:L; [|intros <- _; apply run_key; assumption].
          destruct (f n args) as [r|] eqn:F; [|intros <- _; eapply run_raise; eauto].
          intros H N0. eapply run_comp; eauto.
        + intros H N0. apply run_expand. apply IH; assumption.
    Qed.

    Lemma process_complete w o : Run w o -> exists fuel, process f fuel w = o.
    Proof.
      induction 1 as [m | m n rest o Mn _ [k IH] | m n rest Mn L | m n rest args Mn L F
                      | m n rest args r o Mn L F _ [k IH] | m n rest o _ [k IH]].
      - exists 1%nat. reflexivity.
      - exists (S k). simpl. rewrite Mn. exact IH.
      - exists 1%nat. simpl. rewrite Mn, L. reflexivity.
      - exists 1%nat. simpl. rewrite Mn, L, F. reflexivity.
      - exists (S k). simpl. rewrite Mn, L, F. exact IH.
      - exists (S k). simpl. exact IH.
    Qed.

    Lemma Run_det w o1 : Run w o1 -> forall o2, Run w o2 -> o1 = o2.
    Proof.
      induction 1 as [m | m n rest o Mn _ IH | m n rest Mn L | m n rest args Mn L F
                      | m n rest args r o Mn L F _ IH | m n rest o _ IH];
        intros o2 H2; inversion H2; subst; try congruence; auto.
      - apply IH. replace r with r0 by congruence. assumption.
    Qed.

    Lemma Run_not_oof w o : Run w o -> o <> OutOfFuel.
    Proof. induction 1; try discriminate; assumption. Qed.

    Lemma pending_cons m c l :
      pending m (c :: l) = if memoized m c then pending m l else (false, c) :: pending m l.
    Proof. unfold Dag.pending; simpl. destruct (memoized m c); reflexivity. Qed.

    (* what processing a node (or a failing one) on top of ANY stack Stk does, stated against the reference semantics *)
    Definition node_spec (k : nat) : Prop := forall n M Stk, consistent M ->
      (forall r, eval k n = EOk r ->
         exists M', consistent M' /\ extends M M' /\ lookup n M' = Some r /\
                    forall o, Run (mkw M' Stk) o -> Run (mkw M ((false, n) :: Stk)) o) /\
      (forall x, eval k n = EFail x ->
         exists M' S', consistent M' /\ Run (mkw M ((false, n) :: Stk)) (Raised x (mkw M' (S' ++ Stk)))).

    Lemma list_spec k : node_spec k -> forall l M0 M Stk, consistent M -> extends M0 M ->
      (forall rs, eval_seq (eval k) l = SOk rs ->
         exists M', consistent M' /\ extends M M' /\ lookups l M' = Some rs /\
                    forall o, Run (mkw M' Stk) o -> Run (mkw M (pending M0 l ++ Stk)) o) /\
      (forall x, eval_seq (eval k) l = SFail x ->
         exists M' S', consistent M' /\ Run (mkw M (pending M0 l ++ Stk)) (Raised x (mkw M' (S' ++ Stk)))).
    Proof.
      intros P. induction l as [|c l IH]; intros M0 M Stk C X.
      - split.
        + intros rs H; inversion H; subst. exists M. repeat split; auto using extends_refl.
        + discriminate.
      - rewrite pending_cons. simpl. destruct (eval k c) as [r|x|] eqn:Ec.
        + destruct (memoized M0 c) eqn:Mc.
          * (* already memoized when the parent was expanded: not on the stack *)
            destruct (memoized_true _ _ Mc) as [r0 L0].
            assert (Er : EOk r0 = EOk r).
            { rewrite <- Ec. symmetry. apply (consistent_ok M c r0 k C (X _ _ L0)). rewrite Ec; discriminate. }
            inversion Er; subst r0.
            destruct (IH M0 M Stk C X) as [IHs IHf]. split.
            -- intros rs H. destruct (eval_seq (eval k) l) as [rs'| |] eqn:El; inversion H; subst.
               destruct (IHs rs' eq_refl) as [M' [C' [X' [L' K']]]].
               exists M'. split; [exact C' | split; [exact X' | split; [|exact K']]].
               simpl. rewrite (X' _ _ (X _ _ L0)), L'. reflexivity.
            -- intros x H. destruct (eval_seq (eval k) l) as [rs'|x'|] eqn:El; inversion H; subst.
               apply IHf; reflexivity.
          * destruct (P c M (pending M0 l ++ Stk) C) as [Ps _].
            destruct (Ps r Ec) as [M1 [C1 [X1 [L1 K1]]]].
            destruct (IH M0 M1 Stk C1 (extends_trans _ _ _ X X1)) as [IHs IHf]. split.
            -- intros rs H. destruct (eval_seq (eval k) l) as [rs'| |] eqn:El; inversion H; subst.
               destruct (IHs rs' eq_refl) as [M' [C' [X' [L' K']]]].
               exists M'. split; [exact C' | split; [eapply extends_trans; eauto | split]].
               ++ simpl. rewrite (X' _ _ L1), L'. reflexivity.
               ++ intros o Ho. simpl. apply K1, K'. exact Ho.
            -- intros x H. destruct (eval_seq (eval k) l) as [rs'|x'|] eqn:El; inversion H; subst.
               destruct (IHf x eq_refl) as [M' [S' [C' R']]].
               exists M', S'. split; [exact C'|]. simpl. apply K1. exact R'.
        + split; [discriminate|]. intros x0 H; inversion H; subst x0.
          destruct (memoized M0 c) eqn:Mc.
          * exfalso. destruct (memoized_true _ _ Mc) as [r0 L0].
            pose proof (consistent_ok M c r0 k C (X _ _ L0)) as E. rewrite Ec in E.
            assert (E' : EFail x = EOk r0) by (apply E; discriminate). discriminate.
          * destruct (P c M (pending M0 l ++ Stk) C) as [_ Pf].
            destruct (Pf x Ec) as [M' [S' [C' R']]].
            exists M', (S' ++ pending M0 l). split; [exact C'|]. simpl. rewrite <- app_assoc. exact R'.
        + split; discriminate.
    Qed.

    Lemma lookup_cons_other n r m n0 : n <> n0 -> lookup n0 ((n, r) :: m) = lookup n0 m.
    Proof. intros H. simpl. destruct (n =? n0) eqn:E; [apply N.eqb_eq in E; contradiction | reflexivity]. Qed.
    Lemma lookup_cons_same n r m : lookup n ((n, r) :: m) = Some r.
    Proof. simpl. rewrite N.eqb_refl. reflexivity. Qed.

    Lemma node_spec_all k : node_spec k.
    Proof.
      induction k as [|k IH]; intros n M Stk C; [split; discriminate|].
      destruct (list_spec k IH (rev (children n)) M M ((true, n) :: Stk) C (extends_refl M)) as [Ls Lf].
      pose proof (eval_S k n) as ES. rewrite (eval_S k n).
      destruct (eval_seq (eval k) (rev (children n))) as [rs|x|] eqn:E.
      - destruct (Ls rs eq_refl) as [M' [C' [X' [L' K']]]]. apply lookups_rev in L'.
        destruct (f n (rev rs)) as [r|] eqn:F.
        + split; [|discriminate]. intros r0 H; inversion H; subst r0.
          destruct (memoized M' n) eqn:Mn.
          * destruct (memoized_true _ _ Mn) as [r' Ln].
            assert (Er : EOk r = EOk r').
            { rewrite <- ES. apply (consistent_ok M' n r' (S k) C' Ln). rewrite ES; discriminate. }
            inversion Er; subst r'.
            exists M'. split; [exact C' | split; [exact X' | split; [exact Ln|]]].
            intros o Ho. apply run_expand. apply K'. apply run_hit; assumption.
          * apply memoized_false in Mn.
            exists ((n, r) :: M'). split; [|split; [|split]].
            -- intros n0 r0. destruct (N.eq_dec n n0) as [<-|Ne].
               ++ rewrite lookup_cons_same. intros H0; inversion H0; subst. exists (S k). exact ES.
               ++ rewrite lookup_cons_other by exact Ne. apply C'.
            -- intros n0 r0 H0. destruct (N.eq_dec n n0) as [<-|Ne].
               ++ apply X' in H0. congruence.
               ++ rewrite lookup_cons_other by exact Ne. apply X'. exact H0.
            -- apply lookup_cons_same.
            -- intros o Ho. apply run_expand. apply K'. eapply run_comp; eauto.
               unfold Dag.memoized. rewrite Mn. reflexivity.
        + split; [discriminate|]. intros x H; inversion H; subst x.
          assert (Mn : memoized M' n = false).
          { destruct (memoized M' n) eqn:Mn; [|reflexivity]. exfalso.
            destruct (memoized_true _ _ Mn) as [r' Ln].
            pose proof (consistent_ok M' n r' (S k) C' Ln) as X0. rewrite ES in X0.
            assert (E0 : EFail (FailAt n) = EOk r') by (apply X0; discriminate). discriminate. }
          exists M', []. split; [exact C'|]. apply run_expand. apply K'. simpl. eapply run_raise; eauto.
      - split; [discriminate|]. intros x0 H; inversion H; subst x0.
        destruct (Lf x eq_refl) as [M' [S' [C' R']]].
        exists M', (S' ++ [(true, n)]). split; [exact C'|]. apply run_expand. rewrite <- app_assoc. exact R'.
      - split; discriminate.
    Qed.

    Definition to_result (e : eres) : result :=
      match e with EOk r => ROk r | EFail x => RFail x | ENoFuel => RNoFuel end.

    (* the walker's state between calls: empty stack, every memoized value is the reference value *)
    Definition good (w : walker) : Prop := stack R w = [] /\ consistent (memo R w).

    Lemma good_fresh : good fresh.
    Proof. split; [reflexivity | intros n r H; discriminate]. Qed.

    (* one call on a good walker: the answer is the reference value of the root, and the walker is good again --
       also when the walk raised *)
    Lemma walk_good fuel w n : good w -> snd (walk f false fuel w n) <> RNoFuel ->
      good (fst (walk f false fuel w n)) /\ snd (walk f false fuel w n) = to_result (eval (K n) n).
    Proof.
      intros [S0 C]. destruct w as [M St]. simpl in S0, C. subst St.
      pose proof (eval_enough (K n) n (Nat.lt_succ_diag_r _)) as EN.
      pose proof (consistent_ok M n) as CO. specialize (fun r => CO r (K n) C).
      destruct (node_spec_all (K n) n M [] C) as [Ps Pf].
      remember (eval (K n) n) as ev eqn:Ev. clear Ev.
      unfold Dag.walk. cbn [memo stack].
      destruct (lookup n M) as [r|] eqn:L.
      - cbn [fst snd]. intros _. split; [split; [reflexivity | exact C]|].
        rewrite (CO r eq_refl EN). reflexivity.
      - destruct (iter_walk f fuel (mkw M []) n) as [w'|x w'|] eqn:E.
        + intros _. unfold Dag.iter_walk in E. cbn [memo stack] in E.
          apply process_sound in E; [|discriminate].
          destruct ev as [r|x|]; [| |exfalso; apply EN; reflexivity].
          * destruct (Ps r eq_refl) as [M' [C' [X' [L' K']]]].
            pose proof (Run_det _ _ E _ (K' _ (run_done M'))) as D. inversion D; subst w'. cbn [memo stack].
            rewrite L'. cbn [fst snd memo stack]. split; [split; [reflexivity | exact C'] | reflexivity].
          * destruct (Pf x eq_refl) as [M' [S' [C' R']]].
            pose proof (Run_det _ _ E _ R') as D. discriminate.
        + intros _. unfold Dag.iter_walk in E. cbn [memo stack] in E.
          apply process_sound in E; [|discriminate].
          destruct ev as [r|x0|]; [| |exfalso; apply EN; reflexivity].
          * destruct (Ps r eq_refl) as [M' [C' [X' [L' K']]]].
            pose proof (Run_det _ _ E _ (K' _ (run_done M'))) as D. discriminate.
          * destruct (Pf x0 eq_refl) as [M' [S' [C' R']]].
            pose proof (Run_det _ _ E _ R') as D. inversion D; subst. cbn [fst snd memo stack].
            split; [split; [reflexivity | exact C'] | reflexivity].
        + cbn [snd]. intros H. exfalso. apply H. reflexivity.
    Qed.

    (* every call terminates: there is enough fuel *)
    Lemma walk_terminates w n : good w -> exists fuel, snd (walk f false fuel w n) <> RNoFuel.
    Proof.
      intros [S0 C]. destruct w as [M St]. simpl in S0, C. subst St.
      pose proof (eval_enough (K n) n (Nat.lt_succ_diag_r _)) as EN.
      destruct (node_spec_all (K n) n M [] C) as [Ps Pf].
      assert (X : exists o, Run (mkw M [(false, n)]) o).
      { destruct (eval (K n) n) as [r|x|] eqn:Ev; [| |exfalso; apply EN; reflexivity].
        - destruct (Ps r eq_refl) as [M' [_ [_ [_ K']]]]. eexists. apply K'. apply run_done.
        - destruct (Pf x eq_refl) as [M' [S' [_ R']]]. eexists. exact R'. }
      destruct X as [o Ro]. destruct (process_complete _ _ Ro) as [fuel Pf0].
      exists fuel. unfold Dag.walk. simpl. destruct (lookup n M); [simpl; discriminate|].
      unfold Dag.iter_walk. simpl. rewrite Pf0.
      pose proof (Run_not_oof _ _ Ro) as NO.
      destruct o as [w'|x w'|]; [| |contradiction]; simpl.
      - destruct (lookup n (memo R w')); simpl; discriminate.
      - discriminate.
    Qed.

    Definition uses_f (cs : list (call R)) : Prop := Forall (fun c => fst (fst c) = f) cs.

    Lemma good_history cs : forall w, good w -> uses_f cs -> terminated (results false w cs) ->
      good (run_calls false w cs).
    Proof.
      unfold Dag.run_calls. induction cs as [|[[g n] fuel] cs IH]; simpl; intros w G U T; [exact G|].
      inversion U as [|? ? Hg U']; subst. simpl in Hg. subst g.
      destruct (walk f false fuel w n) as [w' r] eqn:E. inversion T as [|? ? Hr T']; subst.
      simpl. apply IH; [|exact U'|exact T'].
      pose proof (walk_good fuel w n G) as X. rewrite E in X. simpl in X. apply X. exact Hr.
    Qed.

    (* THE theorem: after any history of calls -- each of which may have raised at any node -- the next call returns
       what it returns on a fresh walker (same value, or the same exception at the same node) *)
    Theorem walk_history_independent cs n fuel1 fuel2 :
      uses_f cs -> terminated (results false fresh cs) ->
      snd (walk f false fuel1 (run_calls false fresh cs) n) <> RNoFuel ->
      snd (walk f false fuel2 fresh n) <> RNoFuel ->
      snd (walk f false fuel1 (run_calls false fresh cs) n) = snd (walk f false fuel2 fresh n).
    Proof.
      intros U T H1 H2.
      pose proof (good_history cs fresh good_fresh U T) as G.
      destruct (walk_good fuel1 _ n G H1) as [_ ->].
      destruct (walk_good fuel2 _ n good_fresh H2) as [_ ->]. reflexivity.
    Qed.

    (* and it is the reference value, which does not mention the walker: no KeyError, no stale entry *)
    Theorem walk_is_eval cs n fuel :
      uses_f cs -> terminated (results false fresh cs) ->
      snd (walk f false fuel (run_calls false fresh cs) n) <> RNoFuel ->
      snd (walk f false fuel (run_calls false fresh cs) n) = to_result (eval (K n) n) /\
      stack R (fst (walk f false fuel (run_calls false fresh cs) n)) = [].
    Proof.
      intros U T H1. pose proof (good_history cs fresh good_fresh U T) as G.
      destruct (walk_good fuel _ n G H1) as [[S0 _] E]. split; assumption.
    Qed.

    Theorem history_walk_terminates cs n :
      uses_f cs -> terminated (results false fresh cs) ->
      exists fuel, snd (walk f false fuel (run_calls false fresh cs) n) <> RNoFuel.
    Proof. intros U T. apply walk_terminates. apply good_history; auto using good_fresh. Qed.
  End Fixed.
End Proofs.
