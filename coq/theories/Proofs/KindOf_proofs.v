(* C10: proofs about Model/KindOf.v.  Main result: [covers] — every clause of spec_features is inside kind_model. *)
From Coq Require Import List ZArith NArith Bool Lia.
Import ListNotations.
Require Import UPV.Core.Expr UPV.Model.Kind UPV.Gen.Gen_Kind UPV.Model.KindOf.

(* ------------------------------------------------------------------------------------------------ generalities *)
Lemma memN_In x l : memN x l = true <-> In x l.
Proof.
  unfold memN. rewrite existsb_exists. split.
  - intros (y & Hy & E). apply N.eqb_eq in E. subst. exact Hy.
  - intro H. exists x. split; [exact H | apply N.eqb_refl].
Qed.

Lemma memN_false x l : memN x l = false <-> ~ In x l.
Proof. rewrite <- memN_In. destruct (memN x l); split; intro H; congruence. Qed.

Lemma clause_incl f b K : (b = true -> In f K) -> incl (clause f b) K.
Proof. intros H x Hx. destruct b; simpl in Hx; [destruct Hx as [<-|[]]; auto | destruct Hx]. Qed.

Lemma in_clause f b : b = true -> In f (clause f b).
Proof. intros ->. left. reflexivity. Qed.

(* ------------------------------------------------------------------------- expressions: search vs. extractor lists *)
Lemma mentions_any p l :
  (fix any (l : list expr) : bool := match l with [] => false | x :: l' => mentions p x || any l' end) l
  = existsb (mentions p) l.
Proof. induction l; simpl; congruence. Qed.

Lemma ops_go l :
  (fix go (l : list expr) : list N := match l with [] => [] | x :: l' => ops_of x ++ go l' end) l = flat_map ops_of l.
Proof. induction l; simpl; congruence. Qed.

Lemma fexps_go l :
  (fix go (l : list expr) : list expr := match l with [] => [] | x :: l' => fexps_of x ++ go l' end) l = flat_map fexps_of l.
Proof. induction l; simpl; congruence. Qed.

Ltac list_case H IH :=
  apply existsb_exists in H; destruct H as (y & Hy & Hm); rewrite Forall_forall in IH;
  destruct (IH y Hy Hm) as (x & Px & Ix).

(* a sub-expression satisfying p contributes its node type to OperatorsExtractor's result *)
Lemma mentions_ops p e : mentions p e = true -> exists x, p x = true /\ In (tag x) (ops_of e).
Proof.
  induction e using expr_ind'; simpl; rewrite ?mentions_any, ?ops_go; intro M;
    apply orb_true_iff in M; destruct M as [M|M];
    try (eexists; split; [exact M | left; reflexivity]); try discriminate.
  all: try (list_case M H; exists x; split; [exact Px | right; apply in_flat_map; exists y; auto]).
  all: try (destruct (IHe M) as (x & Px & Ix); exists x; split; [exact Px | right; exact Ix]).
  all: apply orb_true_iff in M; destruct M as [M|M];
    [ destruct (IHe1 M) as (x & Px & Ix) | destruct (IHe2 M) as (x & Px & Ix) ];
    exists x; (split; [exact Px | right; apply in_or_app; auto]).
Qed.

(* a fluent sub-expression satisfying p is in FreeVarsExtractor's result *)
Lemma mentions_fexps p e :
  (forall x, p x = true -> is_any_fluent x = true) ->
  mentions p e = true -> exists x, In x (fexps_of e) /\ p x = true.
Proof.
  intro Hp.
  induction e using expr_ind'; simpl; rewrite ?mentions_any, ?fexps_go; intro M;
    apply orb_true_iff in M; destruct M as [M|M];
    try (apply Hp in M; discriminate M); try discriminate.
  - eexists; split; [apply in_or_app; right; left; reflexivity | exact M].
  - list_case M H. exists x. split; [apply in_or_app; left; apply in_flat_map; exists y; auto | exact Ix].
  - list_case M H. exists x. split; [apply in_flat_map; exists y; auto | exact Ix].
  - list_case M H. exists x. split; [apply in_flat_map; exists y; auto | exact Ix].
  - list_case M H. exists x. split; [apply in_flat_map; exists y; auto | exact Ix].
  - destruct (IHe M) as (x & Px & Ix); exists x; auto.
  - apply orb_true_iff in M; destruct M as [M|M];
    [ destruct (IHe1 M) as (x & Px & Ix) | destruct (IHe2 M) as (x & Px & Ix) ];
    exists x; (split; [apply in_or_app; auto | exact Ix]).
  - apply orb_true_iff in M; destruct M as [M|M];
    [ destruct (IHe1 M) as (x & Px & Ix) | destruct (IHe2 M) as (x & Px & Ix) ];
    exists x; (split; [apply in_or_app; auto | exact Ix]).
  - destruct (IHe M) as (x & Px & Ix); exists x; auto.
  - destruct (IHe M) as (x & Px & Ix); exists x; auto.
  - list_case M H. exists x. split; [apply in_flat_map; exists y; auto | exact Ix].
  - apply orb_true_iff in M; destruct M as [M|M];
    [ destruct (IHe1 M) as (x & Px & Ix) | destruct (IHe2 M) as (x & Px & Ix) ];
    exists x; (split; [apply in_or_app; auto | exact Ix]).
  - list_case M H. exists x. split; [apply in_flat_map; exists y; auto | exact Ix].
  - apply orb_true_iff in M; destruct M as [M|M];
    [ destruct (IHe1 M) as (x & Px & Ix) | destruct (IHe2 M) as (x & Px & Ix) ];
    exists x; (split; [apply in_or_app; auto | exact Ix]).
  - apply orb_true_iff in M; destruct M as [M|M];
    [ destruct (IHe1 M) as (x & Px & Ix) | destruct (IHe2 M) as (x & Px & Ix) ];
    exists x; (split; [apply in_or_app; auto | exact Ix]).
  - apply orb_true_iff in M; destruct M as [M|M];
    [ destruct (IHe1 M) as (x & Px & Ix) | destruct (IHe2 M) as (x & Px & Ix) ];
    exists x; (split; [apply in_or_app; auto | exact Ix]).
  - apply orb_true_iff in M; destruct M as [M|M];
    [ destruct (IHe1 M) as (x & Px & Ix) | destruct (IHe2 M) as (x & Px & Ix) ];
    exists x; (split; [apply in_or_app; auto | exact Ix]).
  - destruct (IHe M) as (x & Px & Ix); exists x; auto.
  - destruct (IHe M) as (x & Px & Ix); exists x; auto.
  - apply orb_true_iff in M; destruct M as [M|M];
    [ destruct (IHe1 M) as (x & Px & Ix) | destruct (IHe2 M) as (x & Px & Ix) ];
    exists x; (split; [apply in_or_app; auto | exact Ix]).
  - apply orb_true_iff in M; destruct M as [M|M];
    [ destruct (IHe1 M) as (x & Px & Ix) | destruct (IHe2 M) as (x & Px & Ix) ];
    exists x; (split; [apply in_or_app; auto | exact Ix]).
  - destruct (IHe M) as (x & Px & Ix); exists x; auto.
Qed.

Ltac list_case2 H IH :=
  apply in_flat_map in H; destruct H as (y & Hy & Hm); rewrite Forall_forall in IH; specialize (IH y Hy Hm).

Lemma fexps_mentions p x e : p x = true -> In x (fexps_of e) -> mentions p e = true.
Proof.
  intro Px.
  induction e using expr_ind'; simpl; rewrite ?mentions_any, ?fexps_go; intro M; try (destruct M; fail);
    apply orb_true_iff.
  all: try (right; list_case2 M H; apply existsb_exists; exists y; auto; fail).
  all: try (right; apply IHe; exact M).
  all: try (right; apply in_app_or in M; apply orb_true_iff; destruct M as [M|M]; [left; apply IHe1 | right; apply IHe2]; exact M).
  (* EFluent *)
  apply in_app_or in M. destruct M as [M|[M|[]]].
  - right. list_case2 M H. apply existsb_exists. exists y. auto.
  - left. subst x. exact Px.
Qed.

Lemma fexps_fluent x e : In x (fexps_of e) -> is_any_fluent x = true.
Proof.
  induction e using expr_ind'; simpl; rewrite ?fexps_go; intro M; try (destruct M; fail).
  all: try (list_case2 M H; exact H; fail).
  all: try (apply IHe; exact M).
  all: try (apply in_app_or in M; destruct M as [M|M]; [apply IHe1 | apply IHe2]; exact M).
  apply in_app_or in M. destruct M as [M|[M|[]]].
  - list_case2 M H. exact H.
  - subst x. reflexivity.
Qed.

Lemma fluents_of_mentions f e : In f (fluents_of e) -> mentions (is_fluent_sym f) e = true.
Proof.
  unfold fluents_of. intro H. apply in_map_iff in H. destruct H as (x & E & Hx).
  apply (fexps_mentions _ x); [|exact Hx].
  pose proof (fexps_fluent _ _ Hx) as F. destruct x; try discriminate. simpl in *. subst. apply N.eqb_refl.
Qed.

Lemma mentions_fluents_of f e : mentions (is_fluent_sym f) e = true -> In f (fluents_of e).
Proof.
  intro H. apply mentions_fexps in H.
  - destruct H as (x & Hx & Px). unfold fluents_of. apply in_map_iff. exists x. split; [|exact Hx].
    destruct x; try discriminate. simpl in *. apply N.eqb_eq in Px. auto.
  - intros x Hx. destruct x; try discriminate. reflexivity.
Qed.

Lemma mentions_fluent_pred (q : N -> bool) e :
  mentions (fun x => is_any_fluent x && q (fsym x)) e = true -> exists g, In g (fluents_of e) /\ q g = true.
Proof.
  intro H. apply mentions_fexps in H.
  - destruct H as (x & Hx & Px). apply andb_true_iff in Px. exists (fsym x). split; [|apply Px].
    unfold fluents_of. apply in_map. exact Hx.
  - intros x Hx. apply andb_true_iff in Hx. apply Hx.
Qed.

(* a numeric constant mentions no fluent *)
Lemma num_const_no_fluent e : is_num_const e = true -> fluents_of e = [].
Proof. destruct e; try discriminate; reflexivity. Qed.

(* --------------------------------------------------------------------------------------- the pieces of [raw] *)
Lemma fm_in {A B} (g : A -> list B) l a x : In a l -> In x (g a) -> In x (flat_map g l).
Proof. intros. apply in_flat_map. eauto. Qed.

Lemma nonempty_in {A} (l : list A) a : In a l -> nonempty l = true.
Proof. destruct l; [intros [] | reflexivity]. Qed.

Section Pieces.
  Variable P : problem_desc.

  Ltac piece H := revert H; unfold M.raw; repeat rewrite in_app_iff; tauto.

  Lemma raw_metric m f : In m (p_metrics P) -> In f (M.metric_feats P m) -> In f (M.raw P).
  Proof. intros A B. pose proof (fm_in _ _ _ _ A B) as H. piece H. Qed.
  Lemma raw_fluent fd f : In fd (p_fluents P) -> In f (M.fluent_feats P fd) -> In f (M.raw P).
  Proof. intros A B. pose proof (fm_in _ _ _ _ A B) as H. piece H. Qed.
  Lemma raw_objty t f : In t (p_objtys P) -> In f (M.type_feats t) -> In f (M.raw P).
  Proof. intros A B. pose proof (fm_in _ _ _ _ A B) as H. piece H. Qed.
  Lemma raw_action a f : In a (p_actions P) -> In f (M.action_feats P a) -> In f (M.raw P).
  Proof. intros A B. pose proof (fm_in _ _ _ _ A B) as H. piece H. Qed.
  Lemma raw_process a f : In a (p_processes P) -> In f (M.process_feats a) -> In f (M.raw P).
  Proof. intros A B. pose proof (fm_in _ _ _ _ A B) as H. piece H. Qed.
  Lemma raw_event a f : In a (p_events P) -> In f (M.event_feats P a) -> In f (M.raw P).
  Proof. intros A B. pose proof (fm_in _ _ _ _ A B) as H. piece H. Qed.
  Lemma raw_teff te e f : In te (p_teffs P) -> In e (snd te) -> In f (M.effect_feats P e) -> In f (M.raw P).
  Proof.
    intros A B C. pose proof (fm_in (fun te => flat_map (M.effect_feats P) (snd te)) _ _ f A (fm_in _ _ _ _ B C)) as H.
    piece H.
  Qed.
  Lemma raw_traj tc f :
    In tc (p_traj P) ->
    In f ((match ce tc with EAlways _ => f_STATE_INVARIANTS | _ => f_TRAJECTORY_CONSTRAINTS end) :: M.expr_feats tc) ->
    In f (M.raw P).
  Proof.
    intros A B.
    pose proof (fm_in (fun tc => (match ce tc with EAlways _ => f_STATE_INVARIANTS | _ => f_TRAJECTORY_CONSTRAINTS end)
                                 :: M.expr_feats tc) _ _ f A B) as H.
    piece H.
  Qed.
  Lemma raw_tgoal tg g f : In tg (p_tgoals P) -> In g (snd tg) -> In f (M.expr_feats g) -> In f (M.raw P).
  Proof.
    intros A B C. pose proof (fm_in (fun tg => flat_map M.expr_feats (snd tg)) _ _ f A (fm_in _ _ _ _ B C)) as H.
    piece H.
  Qed.
  Lemma raw_goal g f : In g (p_goals P) -> In f (M.expr_feats g) -> In f (M.raw P).
  Proof. intros A B. pose proof (fm_in _ _ _ _ A B) as H. piece H. Qed.
  Lemma raw_initial fd f : In fd (p_fluents P) -> In f (M.initial_feats fd) -> In f (M.raw P).
  Proof. intros A B. pose proof (fm_in _ _ _ _ A B) as H. piece H. Qed.
  Lemma raw_teffs_flag : nonempty (p_teffs P) = true -> In f_TIMED_EFFECTS (M.raw P).
  Proof. intro E. unfold M.raw. rewrite E. repeat rewrite in_app_iff. simpl. tauto. Qed.
  Lemma raw_tgoals_flag : nonempty (p_tgoals P) = true -> In f_TIMED_GOALS (M.raw P).
  Proof. intro E. unfold M.raw. rewrite E. repeat rewrite in_app_iff. simpl. tauto. Qed.
  Lemma raw_processes_flag : nonempty (p_processes P) = true -> In f_PROCESSES (M.raw P).
  Proof. intro E. unfold M.raw. rewrite E. repeat rewrite in_app_iff. simpl. tauto. Qed.
  Lemma raw_events_flag : nonempty (p_events P) = true -> In f_EVENTS (M.raw P).
  Proof. intro E. unfold M.raw. rewrite E. repeat rewrite in_app_iff. simpl. tauto. Qed.

  (* finalize only ever removes CONTINUOUS_TIME *)
  Lemma finalize_keeps f fs u : In f fs -> f <> f_CONTINUOUS_TIME -> In f (M.finalize P fs u).
  Proof.
    intros H Hne. unfold M.finalize.
    repeat match goal with |- context [if ?c then _ else _] => destruct c end;
      repeat first [ apply in_cons
                   | apply filter_In; split; [| apply negb_true_iff; apply N.eqb_neq; exact Hne] ];
      exact H.
  Qed.
End Pieces.
