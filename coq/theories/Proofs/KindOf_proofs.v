(* C10: proofs about Model/KindOf.v.  Main result: [covers] — every clause of spec_features is inside kind_model. *)
From Coq Require Import List ZArith NArith Bool Lia.
Import ListNotations.
Require Import UPV.Core.Expr UPV.Model.Kind UPV.Gen.Gen_Kind UPV.Model.KindOf.

(* ------------------------------------------------------------------------------------------------ generalities *)
Lemma memN_In x l : memN x l = true <-> In x l.
Proof.
  unfold memN. rewrite existsb_exists. split.
  - intros (y & Hy & E). apply N.eqb_eq in E. subst. exact Hy.
  - intro H. exists x. split; [exact H | apply N.eqb_refl].
Qed.

Lemma memN_false x l : memN x l = false <-> ~ In x l.
Proof. rewrite <- memN_In. destruct (memN x l); split; intro H; congruence. Qed.

Lemma clause_incl f b K : (b = true -> In f K) -> incl (clause f b) K.
Proof. intros H x Hx. destruct b; simpl in Hx; [destruct Hx as [<-|[]]; auto | destruct Hx]. Qed.

Lemma in_clause f b : b = true -> In f (clause f b).
Proof. intros ->. left. reflexivity. Qed.

(* ------------------------------------------------------------------------- expressions: search vs. extractor lists *)
Lemma mentions_any p l :
  (fix any (l : list expr) : bool := match l with [] => false | x :: l' => mentions p x || any l' end) l
  = existsb (mentions p) l.
Proof. induction l; simpl; congruence. Qed.

Lemma ops_go l :
  (fix go (l : list expr) : list N := match l with [] => [] | x :: l' => ops_of x ++ go l' end) l = flat_map ops_of l.
Proof. induction l; simpl; congruence. Qed.

Lemma fexps_go l :
  (fix go (l : list expr) : list expr := match l with [] => [] | x :: l' => fexps_of x ++ go l' end) l = flat_map fexps_of l.
Proof. induction l; simpl; congruence. Qed.

Ltac list_case H IH :=
  apply existsb_exists in H; destruct H as (y & Hy & Hm); rewrite Forall_forall in IH;
  destruct (IH y Hy Hm) as (x & Px & Ix).

(* a sub-expression satisfying p contributes its node type to OperatorsExtractor's result *)
Lemma mentions_ops p e : mentions p e = true -> exists x, p x = true /\ In (tag x) (ops_of e).
Proof.
  induction e using expr_ind'; simpl; rewrite ?mentions_any, ?ops_go; intro M;
    apply orb_true_iff in M; destruct M as [M|M];
    try (eexists; split; [exact M | left; reflexivity]); try discriminate.
  all: try (list_case M H; exists x; split; [exact Px | right; apply in_flat_map; exists y; auto]).
  all: try (destruct (IHe M) as (x & Px & Ix); exists x; split; [exact Px | right; exact Ix]).
  all: apply orb_true_iff in M; destruct M as [M|M];
    [ destruct (IHe1 M) as (x & Px & Ix) | destruct (IHe2 M) as (x & Px & Ix) ];
    exists x; (split; [exact Px | right; apply in_or_app; auto]).
Qed.

(* a fluent sub-expression satisfying p is in FreeVarsExtractor's result *)
Lemma mentions_fexps p e :
  (forall x, p x = true -> is_any_fluent x = true) ->
  mentions p e = true -> exists x, In x (fexps_of e) /\ p x = true.
Proof.
  intro Hp.
  induction e using expr_ind'; simpl; rewrite ?mentions_any, ?fexps_go; intro M;
    apply orb_true_iff in M; destruct M as [M|M];
    try (apply Hp in M; discriminate M); try discriminate.
  - eexists; split; [apply in_or_app; right; left; reflexivity | exact M].
  - list_case M H. exists x. split; [apply in_or_app; left; apply in_flat_map; exists y; auto | exact Ix].
  - list_case M H. exists x. split; [apply in_flat_map; exists y; auto | exact Ix].
  - list_case M H. exists x. split; [apply in_flat_map; exists y; auto | exact Ix].
  - list_case M H. exists x. split; [apply in_flat_map; exists y; auto | exact Ix].
  - destruct (IHe M) as (x & Px & Ix); exists x; auto.
  - apply orb_true_iff in M; destruct M as [M|M];
    [ destruct (IHe1 M) as (x & Px & Ix) | destruct (IHe2 M) as (x & Px & Ix) ];
    exists x; (split; [apply in_or_app; auto | exact Ix]).
  - apply orb_true_iff in M; destruct M as [M|M];
    [ destruct (IHe1 M) as (x & Px & Ix) | destruct (IHe2 M) as (x & Px & Ix) ];
    exists x; (split; [apply in_or_app; auto | exact Ix]).
  - destruct (IHe M) as (x & Px & Ix); exists x; auto.
  - destruct (IHe M) as (x & Px & Ix); exists x; auto.
  - list_case M H. exists x. split; [apply in_flat_map; exists y; auto | exact Ix].
  - apply orb_true_iff in M; destruct M as [M|M];
    [ destruct (IHe1 M) as (x & Px & Ix) | destruct (IHe2 M) as (x & Px & Ix) ];
    exists x; (split; [apply in_or_app; auto | exact Ix]).
  - list_case M H. exists x. split; [apply in_flat_map; exists y; auto | exact Ix].
  - apply orb_true_iff in M; destruct M as [M|M];
    [ destruct (IHe1 M) as (x & Px & Ix) | destruct (IHe2 M) as (x & Px & Ix) ];
    exists x; (split; [apply in_or_app; auto | exact Ix]).
  - apply orb_true_iff in M; destruct M as [M|M];
    [ destruct (IHe1 M) as (x & Px & Ix) | destruct (IHe2 M) as (x & Px & Ix) ];
    exists x; (split; [apply in_or_app; auto | exact Ix]).
  - apply orb_true_iff in M; destruct M as [M|M];
    [ destruct (IHe1 M) as (x & Px & Ix) | destruct (IHe2 M) as (x & Px & Ix) ];
    exists x; (split; [apply in_or_app; auto | exact Ix]).
  - apply orb_true_iff in M; destruct M as [M|M];
    [ destruct (IHe1 M) as (x & Px & Ix) | destruct (IHe2 M) as (x & Px & Ix) ];
    exists x; (split; [apply in_or_app; auto | exact Ix]).
  - destruct (IHe M) as (x & Px & Ix); exists x; auto.
  - destruct (IHe M) as (x & Px & Ix); exists x; auto.
  - apply orb_true_iff in M; destruct M as [M|M];
    [ destruct (IHe1 M) as (x & Px & Ix) | destruct (IHe2 M) as (x & Px & Ix) ];
    exists x; (split; [apply in_or_app; auto | exact Ix]).
  - apply orb_true_iff in M; destruct M as [M|M];
    [ destruct (IHe1 M) as (x & Px & Ix) | destruct (IHe2 M) as (x & Px & Ix) ];
    exists x; (split; [apply in_or_app; auto | exact Ix]).
  - destruct (IHe M) as (x & Px & Ix); exists x; auto.
Qed.

Ltac list_case2 H IH :=
  apply in_flat_map in H; destruct H as (y & Hy & Hm); rewrite Forall_forall in IH; specialize (IH y Hy Hm).

Lemma fexps_mentions p x e : p x = true -> In x (fexps_of e) -> mentions p e = true.
Proof.
  intro Px.
  induction e using expr_ind'; simpl; rewrite ?mentions_any, ?fexps_go; intro M; try (destruct M; fail);
    apply orb_true_iff.
  all: try (right; list_case2 M H; apply existsb_exists; exists y; auto; fail).
  all: try (right; apply IHe; exact M).
  all: try (right; apply in_app_or in M; apply orb_true_iff; destruct M as [M|M]; [left; apply IHe1 | right; apply IHe2]; exact M).
  (* EFluent *)
  apply in_app_or in M. destruct M as [M|[M|[]]].
  - right. list_case2 M H. apply existsb_exists. exists y. auto.
  - left. subst x. exact Px.
Qed.

Lemma fexps_fluent x e : In x (fexps_of e) -> is_any_fluent x = true.
Proof.
  induction e using expr_ind'; simpl; rewrite ?fexps_go; intro M; try (destruct M; fail).
  all: try (list_case2 M H; exact H; fail).
  all: try (apply IHe; exact M).
  all: try (apply in_app_or in M; destruct M as [M|M]; [apply IHe1 | apply IHe2]; exact M).
  apply in_app_or in M. destruct M as [M|[M|[]]].
  - list_case2 M H. exact H.
  - subst x. reflexivity.
Qed.

Lemma fluents_of_mentions f e : In f (fluents_of e) -> mentions (is_fluent_sym f) e = true.
Proof.
  unfold fluents_of. intro H. apply in_map_iff in H. destruct H as (x & E & Hx).
  apply (fexps_mentions _ x); [|exact Hx].
  pose proof (fexps_fluent _ _ Hx) as F. destruct x; try discriminate. simpl in *. subst. apply N.eqb_refl.
Qed.

Lemma mentions_fluents_of f e : mentions (is_fluent_sym f) e = true -> In f (fluents_of e).
Proof.
  intro H. apply mentions_fexps in H.
  - destruct H as (x & Hx & Px). unfold fluents_of. apply in_map_iff. exists x. split; [|exact Hx].
    destruct x; try discriminate. simpl in *. apply N.eqb_eq in Px. auto.
  - intros x Hx. destruct x; try discriminate. reflexivity.
Qed.

Lemma mentions_fluent_pred (q : N -> bool) e :
  mentions (fun x => is_any_fluent x && q (fsym x)) e = true -> exists g, In g (fluents_of e) /\ q g = true.
Proof.
  intro H. apply mentions_fexps in H.
  - destruct H as (x & Hx & Px). apply andb_true_iff in Px. exists (fsym x). split; [|apply Px].
    unfold fluents_of. apply in_map. exact Hx.
  - intros x Hx. apply andb_true_iff in Hx. apply Hx.
Qed.

(* a numeric constant mentions no fluent *)
Lemma num_const_no_fluent e : is_num_const e = true -> fluents_of e = [].
Proof. destruct e; try discriminate; reflexivity. Qed.

(* --------------------------------------------------------------------------------------- the pieces of [raw] *)
Lemma fm_in {A B} (g : A -> list B) l a x : In a l -> In x (g a) -> In x (flat_map g l).
Proof. intros. apply in_flat_map. eauto. Qed.

Lemma nonempty_in {A} (l : list A) a : In a l -> nonempty l = true.
Proof. destruct l; [intros [] | reflexivity]. Qed.

Section Pieces.
  Variable P : problem_desc.

  Ltac piece H := revert H; unfold M.raw; repeat rewrite in_app_iff; tauto.

  Lemma raw_metric m f : In m (p_metrics P) -> In f (M.metric_feats P m) -> In f (M.raw P).
  Proof. intros A B. pose proof (fm_in _ _ _ _ A B) as H. piece H. Qed.
  Lemma raw_fluent fd f : In fd (p_fluents P) -> In f (M.fluent_feats P fd) -> In f (M.raw P).
  Proof. intros A B. pose proof (fm_in _ _ _ _ A B) as H. piece H. Qed.
  Lemma raw_objty t f : In t (p_objtys P) -> In f (M.type_feats t) -> In f (M.raw P).
  Proof. intros A B. pose proof (fm_in _ _ _ _ A B) as H. piece H. Qed.
  Lemma raw_action a f : In a (p_actions P) -> In f (M.action_feats P a) -> In f (M.raw P).
  Proof. intros A B. pose proof (fm_in _ _ _ _ A B) as H. piece H. Qed.
  Lemma raw_process a f : In a (p_processes P) -> In f (M.process_feats a) -> In f (M.raw P).
  Proof. intros A B. pose proof (fm_in _ _ _ _ A B) as H. piece H. Qed.
  Lemma raw_event a f : In a (p_events P) -> In f (M.event_feats P a) -> In f (M.raw P).
  Proof. intros A B. pose proof (fm_in _ _ _ _ A B) as H. piece H. Qed.
  Lemma raw_teff te e f : In te (p_teffs P) -> In e (snd te) -> In f (M.effect_feats P e) -> In f (M.raw P).
  Proof.
    intros A B C. pose proof (fm_in (fun te => flat_map (M.effect_feats P) (snd te)) _ _ f A (fm_in _ _ _ _ B C)) as H.
    piece H.
  Qed.
  Lemma raw_traj tc f :
    In tc (p_traj P) ->
    In f ((match ce tc with EAlways _ => f_STATE_INVARIANTS | _ => f_TRAJECTORY_CONSTRAINTS end) :: M.expr_feats tc) ->
    In f (M.raw P).
  Proof.
    intros A B.
    pose proof (fm_in (fun tc => (match ce tc with EAlways _ => f_STATE_INVARIANTS | _ => f_TRAJECTORY_CONSTRAINTS end)
                                 :: M.expr_feats tc) _ _ f A B) as H.
    piece H.
  Qed.
  Lemma raw_tgoal tg g f : In tg (p_tgoals P) -> In g (snd tg) -> In f (M.expr_feats g) -> In f (M.raw P).
  Proof.
    intros A B C. pose proof (fm_in (fun tg => flat_map M.expr_feats (snd tg)) _ _ f A (fm_in _ _ _ _ B C)) as H.
    piece H.
  Qed.
  Lemma raw_goal g f : In g (p_goals P) -> In f (M.expr_feats g) -> In f (M.raw P).
  Proof. intros A B. pose proof (fm_in _ _ _ _ A B) as H. piece H. Qed.
  Lemma raw_initial fd f : In fd (p_fluents P) -> In f (M.initial_feats fd) -> In f (M.raw P).
  Proof. intros A B. pose proof (fm_in _ _ _ _ A B) as H. piece H. Qed.
  Lemma raw_teffs_flag : nonempty (p_teffs P) = true -> In f_TIMED_EFFECTS (M.raw P).
  Proof. intro E. unfold M.raw. rewrite E. repeat rewrite in_app_iff. simpl. tauto. Qed.
  Lemma raw_tgoals_flag : nonempty (p_tgoals P) = true -> In f_TIMED_GOALS (M.raw P).
  Proof. intro E. unfold M.raw. rewrite E. repeat rewrite in_app_iff. simpl. tauto. Qed.
  Lemma raw_processes_flag : nonempty (p_processes P) = true -> In f_PROCESSES (M.raw P).
  Proof. intro E. unfold M.raw. rewrite E. repeat rewrite in_app_iff. simpl. tauto. Qed.
  Lemma raw_events_flag : nonempty (p_events P) = true -> In f_EVENTS (M.raw P).
  Proof. intro E. unfold M.raw. rewrite E. repeat rewrite in_app_iff. simpl. tauto. Qed.

  (* finalize only ever removes CONTINUOUS_TIME *)
  Lemma finalize_keeps f fs u : In f fs -> f <> f_CONTINUOUS_TIME -> In f (M.finalize P fs u).
  Proof.
    intros H Hne. unfold M.finalize.
    repeat match goal with |- context [if ?c then _ else _] => destruct c end;
      repeat first [ apply in_cons
                   | apply filter_In; split; [| apply negb_true_iff; apply N.eqb_neq; exact Hne] ];
      exact H.
  Qed.
End Pieces.

(* ------------------------------------------------------------------------------------ effects and conditions *)
Section Positions.
  Variable P : problem_desc.
  Hypothesis WF : wf P.

  Lemma wf_parts :
    forallb (wf_eff P) (Spec.all_effects P) = true
    /\ forallb (fun pr => forallb wf_process_eff (pr_effs pr)) (p_processes P) = true
    /\ forallb (fun d => forallb (M.declared P) (fluents_of (de d))) (Spec.durations P) = true
    /\ forallb (fun c => forallb (M.declared P) (fluents_of (ce (fst c)))) (Spec.costs P) = true
    /\ forallb wf_fdecl (p_fluents P) = true.
  Proof.
    pose proof WF as W. unfold wf, wfb in W. repeat (apply andb_true_iff in W; destruct W as [W ?]).
    repeat split; assumption.
  Qed.

  Lemma wf_effect e : In e (Spec.all_effects P) -> wf_eff P e = true.
  Proof. destruct wf_parts as (H & _). rewrite forallb_forall in H. apply H. Qed.

  Lemma wf_process pr e : In pr (p_processes P) -> In e (pr_effs pr) -> wf_process_eff e = true.
  Proof.
    destruct wf_parts as (_ & H & _). rewrite forallb_forall in H. intros A B. specialize (H pr A).
    rewrite forallb_forall in H. apply H. exact B.
  Qed.

  (* every effect of the problem either belongs to a process or has its update_problem_kind_effect features in raw *)
  Lemma effect_in_raw e :
    In e (Spec.all_effects P) ->
    (exists pr, In pr (p_processes P) /\ In e (pr_effs pr)) \/ incl (M.effect_feats P e) (M.raw P).
  Proof.
    unfold Spec.all_effects. rewrite !in_app_iff, !in_flat_map.
    intros [(a & Ha & He) | [(ev & Hev & He) | [(pr & Hpr & He) | (te & Hte & He)]]].
    - right. intros f Hf. apply (raw_action P a f Ha). destruct a as [i|d]; simpl in *.
      + unfold M.iaction_feats. rewrite !in_app_iff. right. right. right. right. left. eapply fm_in; eauto.
      + apply in_app_or in He. unfold M.daction_feats. rewrite !in_app_iff.
        destruct He as [He|He]; apply in_map_iff in He; destruct He as ((t & e') & E & He); simpl in E; subst e'.
        * right. right. right. right. left. eapply fm_in; [exact He|]. unfold M.timed_effect_feats. simpl.
          apply in_or_app. right. exact Hf.
        * right. right. right. right. right. left. eapply fm_in; [exact He|]. unfold M.timed_ceffect_feats. simpl.
          apply in_or_app. right. exact Hf.
    - right. intros f Hf. apply (raw_event P ev f Hev). unfold M.event_feats. rewrite !in_app_iff.
      right. right. left. eapply fm_in; eauto.
    - left. eauto.
    - right. intros f Hf. eapply raw_teff; eauto.
  Qed.

  (* conditions: each one is the literal `true` (an unconditional effect) or went through update_problem_kind_expression *)
  Lemma condition_in_raw x :
    In x (Spec.conditions P) -> is_true x = true \/ exists c, ce c = x /\ incl (M.expr_feats c) (M.raw P).
  Proof.
    unfold Spec.conditions. rewrite !in_app_iff, !in_flat_map, !in_map_iff.
    intros [(a & Ha & Hx) | [(ev & Hev & Hx) | [(pr & Hpr & Hx) | [(e & Ex & He) | [(g & Ex & Hg) |
            [(tg & Htg & Hx) | [(tc & Ex & Htc) | (m & Hm & Hx)]]]]]]].
    - right. destruct a as [i|d]; simpl in Hx; apply in_map_iff in Hx.
      + destruct Hx as (c & E & Hc). exists c. split; [exact E|]. intros f Hf. apply (raw_action P _ f Ha). simpl.
        unfold M.iaction_feats. rewrite !in_app_iff. right. right. right. left. eapply fm_in; eauto.
      + destruct Hx as ((iv & c) & E & Hc). exists c. split; [exact E|]. intros f Hf. apply (raw_action P _ f Ha). simpl.
        unfold M.daction_feats. rewrite !in_app_iff. right. right. right. left. eapply fm_in; [exact Hc|].
        unfold M.timed_condition_feats. apply in_or_app. right. exact Hf.
    - right. apply in_map_iff in Hx. destruct Hx as (c & E & Hc). exists c. split; [exact E|].
      intros f Hf. apply (raw_event P ev f Hev). unfold M.event_feats. rewrite !in_app_iff. right. left. eapply fm_in; eauto.
    - right. apply in_map_iff in Hx. destruct Hx as (c & E & Hc). exists c. split; [exact E|].
      intros f Hf. apply (raw_process P pr f Hpr). unfold M.process_feats. rewrite !in_app_iff. right. left. eapply fm_in; eauto.
    - destruct (is_true x) eqn:T; [left; reflexivity | right]. exists (ef_cond e). split; [exact Ex|].
      destruct (effect_in_raw e He) as [(pr & Hpr & Hin) | Hincl].
      + exfalso. pose proof (wf_process pr e Hpr Hin) as W. unfold wf_process_eff in W.
        apply andb_true_iff in W. destruct W as [W _]. apply andb_true_iff in W. destruct W as [W _].
        rewrite Ex in W. congruence.
      + intros f Hf. apply Hincl. unfold M.effect_feats, is_conditional. rewrite Ex, T. simpl.
        rewrite !in_app_iff. left. left. exact Hf.
    - right. exists g. split; [exact Ex|]. intros f Hf. eapply raw_goal; eauto.
    - right. apply in_map_iff in Hx. destruct Hx as (c & E & Hc). exists c. split; [exact E|].
      intros f Hf. eapply raw_tgoal; eauto.
    - right. exists tc. split; [exact Ex|]. intros f Hf. eapply raw_traj; [exact Htc|]. right. exact Hf.
    - right. destruct m; simpl in Hx; try (destruct Hx; fail); apply in_map_iff in Hx; destruct Hx as (c & E & Hc);
        exists c; (split; [exact E|]); intros f Hf; apply (raw_metric P _ f Hm); simpl; right;
        apply in_or_app; left; eapply fm_in; eauto.
  Qed.

  Lemma cond_feature p f :
    (forall x, p x = true -> tag x <> 0%N /\ forall c, In (tag x) (ops_of (ce c)) -> In f (M.expr_feats c)) ->
    Spec.some_cond P p = true -> In f (M.raw P).
  Proof.
    intros Hp H. unfold Spec.some_cond in H. apply existsb_exists in H. destruct H as (x & Hx & Mx).
    destruct (condition_in_raw x Hx) as [T | (c & E & Hincl)].
    - destruct x; try discriminate. destruct b; try discriminate. simpl in Mx. rewrite orb_false_r in Mx.
      destruct (Hp _ Mx) as [Hne _]. exfalso. apply Hne. reflexivity.
    - subst x. apply mentions_ops in Mx. destruct Mx as (y & Py & Iy). apply Hincl. apply (Hp y Py). exact Iy.
  Qed.

  Ltac in_expr_feats := unfold M.expr_feats; cbv zeta; rewrite !in_app_iff.

  Lemma covers_NEGATIVE : Spec.some_cond P is_not = true -> In f_NEGATIVE_CONDITIONS (M.raw P).
  Proof.
    apply cond_feature. intros x Hx. destruct x; try discriminate. split; [discriminate|]. intros c Hc.
    in_expr_feats. right. left. apply in_clause. apply memN_In. exact Hc.
  Qed.
  Lemma covers_DISJUNCTIVE : Spec.some_cond P is_or_implies = true -> In f_DISJUNCTIVE_CONDITIONS (M.raw P).
  Proof.
    apply cond_feature. intros x Hx. destruct x; try discriminate; (split; [discriminate|]); intros c Hc;
      in_expr_feats; right; right; left; apply in_clause; apply orb_true_iff; [left | right]; apply memN_In; exact Hc.
  Qed.
  Lemma covers_EQUALITIES : Spec.some_cond P is_equals = true -> In f_EQUALITIES (M.raw P).
  Proof.
    apply cond_feature. intros x Hx. destruct x; try discriminate. split; [discriminate|]. intros c Hc.
    in_expr_feats. left. apply in_clause. apply memN_In. exact Hc.
  Qed.
  Lemma covers_EXISTENTIAL : Spec.some_cond P is_exists = true -> In f_EXISTENTIAL_CONDITIONS (M.raw P).
  Proof.
    apply cond_feature. intros x Hx. destruct x; try discriminate. split; [discriminate|]. intros c Hc.
    in_expr_feats. right. right. right. left. apply in_clause. apply memN_In. exact Hc.
  Qed.
  Lemma covers_UNIVERSAL : Spec.some_cond P is_forall = true -> In f_UNIVERSAL_CONDITIONS (M.raw P).
  Proof.
    apply cond_feature. intros x Hx. destruct x; try discriminate. split; [discriminate|]. intros c Hc.
    in_expr_feats. right. right. right. right. left. apply in_clause. apply memN_In. exact Hc.
  Qed.
  Lemma covers_IFUN_COND : Spec.some_cond P is_ifun = true -> In f_INTERPRETED_FUNCTIONS_IN_CONDITIONS (M.raw P).
  Proof.
    apply cond_feature. intros x Hx. destruct x; try discriminate. split; [discriminate|]. intros c Hc.
    in_expr_feats. right. right. right. right. right. apply in_clause. apply memN_In. exact Hc.
  Qed.


  (* ---- effect kinds ---- *)
  Lemma effect_feature q f :
    (forall e, q e = true -> wf_process_eff e = false /\ In f (M.effect_feats P e)) ->
    Spec.some_effect P q = true -> In f (M.raw P).
  Proof.
    intros Hq H. unfold Spec.some_effect in H. apply existsb_exists in H. destruct H as (e & He & Qe).
    destruct (Hq e Qe) as [NW Hf].
    destruct (effect_in_raw e He) as [(pr & Hpr & Hin) | Hincl]; [|apply Hincl; exact Hf].
    rewrite (wf_process pr e Hpr Hin) in NW. discriminate.
  Qed.

  Lemma covers_CONDITIONAL : Spec.some_effect P is_conditional = true -> In f_CONDITIONAL_EFFECTS (M.raw P).
  Proof.
    apply effect_feature. intros e He. split.
    - unfold wf_process_eff. unfold is_conditional in He. apply negb_true_iff in He. rewrite He. reflexivity.
    - unfold M.effect_feats. rewrite He. cbv zeta. rewrite !in_app_iff. left. right. left. reflexivity.
  Qed.
  Lemma covers_FORALL_EFFECTS :
    Spec.some_effect P (fun e => nonempty (ef_forall e)) = true -> In f_FORALL_EFFECTS (M.raw P).
  Proof.
    apply effect_feature. intros e He. split.
    - unfold wf_process_eff. rewrite He. simpl. rewrite andb_false_r. reflexivity.
    - unfold M.effect_feats. rewrite He. cbv zeta. rewrite !in_app_iff. right. left. left. reflexivity.
  Qed.
  Lemma covers_INCREASE :
    Spec.some_effect P (fun e => match ef_kind e with KInc => true | _ => false end) = true -> In f_INCREASE_EFFECTS (M.raw P).
  Proof.
    apply effect_feature. intros e He. destruct (ef_kind e) eqn:K; try discriminate. split.
    - unfold wf_process_eff. rewrite K. apply andb_false_r.
    - unfold M.effect_feats. rewrite K. cbv zeta. rewrite !in_app_iff. right. right. left. reflexivity.
  Qed.
  Lemma covers_DECREASE :
    Spec.some_effect P (fun e => match ef_kind e with KDec => true | _ => false end) = true -> In f_DECREASE_EFFECTS (M.raw P).
  Proof.
    apply effect_feature. intros e He. destruct (ef_kind e) eqn:K; try discriminate. split.
    - unfold wf_process_eff. rewrite K. apply andb_false_r.
    - unfold M.effect_feats. rewrite K. cbv zeta. rewrite !in_app_iff. right. right. left. reflexivity.
  Qed.

  Lemma continuous_feature q f :
    (forall es e, In e es -> q e = true -> In f (M.continuous_feats es)) ->
    existsb q (Spec.continuous_effects P) = true -> In f (M.raw P).
  Proof.
    intros Hq H. apply existsb_exists in H. destruct H as (e & He & Qe). unfold Spec.continuous_effects in He.
    apply in_app_or in He. destruct He as [He|He]; apply in_flat_map in He; destruct He as (a & Ha & He).
    - destruct a as [i|d]; [destruct He|]. apply (raw_action P _ f Ha). simpl. unfold M.daction_feats.
      rewrite !in_app_iff. do 8 right. eapply Hq; eauto.
    - apply (raw_process P a f Ha). unfold M.process_feats. rewrite !in_app_iff. right. right. eapply Hq; eauto.
  Qed.
  Lemma covers_INCREASE_CONTINUOUS :
    existsb (fun e => match ef_kind e with KCInc => true | _ => false end) (Spec.continuous_effects P) = true ->
    In f_INCREASE_CONTINUOUS_EFFECTS (M.raw P).
  Proof.
    apply continuous_feature. intros es e He Q. unfold M.continuous_feats. apply in_or_app. left.
    eapply fm_in; [exact He|]. destruct (ef_kind e); try discriminate. left. reflexivity.
  Qed.
  Lemma covers_DECREASE_CONTINUOUS :
    existsb (fun e => match ef_kind e with KCDec => true | _ => false end) (Spec.continuous_effects P) = true ->
    In f_DECREASE_CONTINUOUS_EFFECTS (M.raw P).
  Proof.
    apply continuous_feature. intros es e He Q. unfold M.continuous_feats. apply in_or_app. left.
    eapply fm_in; [exact He|]. destruct (ef_kind e); try discriminate. left. reflexivity.
  Qed.

  (* ---- typing ---- *)
  Lemma param_type_feats t : incl (M.type_feats t) (M.param_feats t).
  Proof. intros f Hf. unfold M.param_feats. apply in_or_app. left. exact Hf. Qed.

  Lemma type_in_raw t : In t (Spec.used_types P) -> incl (M.type_feats t) (M.raw P).
  Proof.
    unfold Spec.used_types. rewrite !in_app_iff, !in_flat_map.
    intros [Ho | [(fd & Hfd & Ht) | [(a & Ha & Ht) | [(ev & Hev & Ht) | [(pr & Hpr & Ht) | (e & He & Ht)]]]]] f Hf.
    - eapply raw_objty; eauto.
    - apply (raw_fluent P fd f Hfd). unfold M.fluent_feats. cbv zeta. rewrite !in_app_iff. destruct Ht as [Ht|Ht].
      + subst t. left. destruct (fd_ty fd); try (destruct Hf; fail). simpl. rewrite orb_true_r. exact Hf.
      + right. right. eapply fm_in; [exact Ht|]. apply in_or_app. left. exact Hf.
    - apply (raw_action P a f Ha). destruct a as [i|d]; simpl in *.
      + unfold M.iaction_feats. rewrite !in_app_iff. left. eapply fm_in; [exact Ht|]. apply param_type_feats. exact Hf.
      + unfold M.daction_feats. rewrite !in_app_iff. left. eapply fm_in; [exact Ht|]. apply param_type_feats. exact Hf.
    - apply (raw_event P ev f Hev). unfold M.event_feats. rewrite !in_app_iff. left.
      eapply fm_in; [exact Ht|]. apply param_type_feats. exact Hf.
    - apply (raw_process P pr f Hpr). unfold M.process_feats. rewrite !in_app_iff. left.
      eapply fm_in; [exact Ht|]. apply param_type_feats. exact Hf.
    - apply in_map_iff in Ht. destruct Ht as ((v & t') & E & Hv). simpl in E. subst t'.
      destruct (effect_in_raw e He) as [(pr & Hpr & Hin) | Hincl].
      + exfalso. pose proof (wf_process pr e Hpr Hin) as W. unfold wf_process_eff in W.
        apply andb_true_iff in W. destruct W as [W _]. apply andb_true_iff in W. destruct W as [_ W].
        apply negb_true_iff in W. rewrite (nonempty_in _ _ Hv) in W. discriminate.
      + apply Hincl. unfold M.effect_feats. cbv zeta. rewrite !in_app_iff. right. left.
        rewrite (nonempty_in _ _ Hv). right. eapply fm_in; [exact Hv|]. exact Hf.
  Qed.

  Lemma covers_FLAT :
    existsb Spec.is_user (Spec.used_types P) && negb (existsb Spec.has_father (Spec.used_types P)) = true ->
    In f_FLAT_TYPING (M.raw P).
  Proof.
    intro H. apply andb_true_iff in H. destruct H as [H _]. apply existsb_exists in H. destruct H as (t & Ht & U).
    apply (type_in_raw t Ht). destruct t; try discriminate. left. reflexivity.
  Qed.
  Lemma covers_HIERARCHICAL :
    existsb Spec.has_father (Spec.used_types P) = true -> In f_HIERARCHICAL_TYPING (M.raw P).
  Proof.
    intro H. apply existsb_exists in H. destruct H as (t & Ht & U).
    apply (type_in_raw t Ht). destruct t; try discriminate. simpl in U. subst. right. left. reflexivity.
  Qed.


  (* ---- fluent declarations, parameters ---- *)
  Lemma covers_OBJECT_FLUENTS :
    existsb (fun fd => Spec.is_user (fd_ty fd)) (p_fluents P) = true -> In f_OBJECT_FLUENTS (M.raw P).
  Proof.
    intro H. apply existsb_exists in H. destruct H as (fd & Hfd & U). apply (raw_fluent P fd _ Hfd).
    unfold M.fluent_feats. cbv zeta. rewrite !in_app_iff. right. left. destruct (fd_ty fd); try discriminate. left. reflexivity.
  Qed.
  Lemma covers_BOUNDED_TYPES :
    existsb (fun fd => Spec.num_bounded (fd_ty fd)) (p_fluents P) = true -> In f_BOUNDED_TYPES (M.raw P).
  Proof.
    intro H. apply existsb_exists in H. destruct H as (fd & Hfd & U). apply (raw_fluent P fd _ Hfd).
    unfold M.fluent_feats. cbv zeta. rewrite !in_app_iff. right. left.
    destruct (fd_ty fd); try discriminate; simpl in U; apply in_or_app; left; apply in_clause; exact U.
  Qed.
  Lemma fparam_feature q f :
    (forall t, q t = true -> In f (M.type_feats t ++ match t with
                                                      | TBool => [f_BOOL_FLUENT_PARAMETERS]
                                                      | TInt _ _ => [f_BOUNDED_INT_FLUENT_PARAMETERS]
                                                      | _ => [] end)) ->
    Spec.some_fparam P q = true -> In f (M.raw P).
  Proof.
    intros Hq H. unfold Spec.some_fparam in H. apply existsb_exists in H. destruct H as (t & Ht & Q).
    apply in_flat_map in Ht. destruct Ht as (fd & Hfd & Ht). apply (raw_fluent P fd _ Hfd).
    unfold M.fluent_feats. cbv zeta. rewrite !in_app_iff. right. right. eapply fm_in; [exact Ht|]. apply Hq. exact Q.
  Qed.
  Lemma covers_BOOL_FLUENT_PARAMETERS : Spec.some_fparam P Spec.is_bool = true -> In f_BOOL_FLUENT_PARAMETERS (M.raw P).
  Proof. apply fparam_feature. intros t Q. destruct t; try discriminate. simpl. left. reflexivity. Qed.
  Lemma covers_BOUNDED_INT_FLUENT_PARAMETERS :
    Spec.some_fparam P Spec.is_int = true -> In f_BOUNDED_INT_FLUENT_PARAMETERS (M.raw P).
  Proof. apply fparam_feature. intros t Q. destruct t; try discriminate. simpl. left. reflexivity. Qed.

  Lemma aparam_feature q f :
    (forall t, q t = true -> In f (M.param_feats t)) -> Spec.some_aparam P q = true -> In f (M.raw P).
  Proof.
    intros Hq H. unfold Spec.some_aparam in H. apply existsb_exists in H. destruct H as (t & Ht & Q).
    apply in_flat_map in Ht. destruct Ht as (a & Ha & Ht). apply (raw_action P a _ Ha).
    destruct a as [i|d]; simpl in *; [unfold M.iaction_feats | unfold M.daction_feats]; rewrite !in_app_iff; left;
      (eapply fm_in; [exact Ht|]); apply Hq; exact Q.
  Qed.
  Lemma covers_BOOL_ACTION_PARAMETERS : Spec.some_aparam P Spec.is_bool = true -> In f_BOOL_ACTION_PARAMETERS (M.raw P).
  Proof. apply aparam_feature. intros t Q. destruct t; try discriminate. simpl. left. reflexivity. Qed.
  Lemma covers_REAL_ACTION_PARAMETERS : Spec.some_aparam P Spec.is_real = true -> In f_REAL_ACTION_PARAMETERS (M.raw P).
  Proof. apply aparam_feature. intros t Q. destruct t; try discriminate. simpl. left. reflexivity. Qed.
  Lemma covers_BOUNDED_INT_ACTION_PARAMETERS :
    Spec.some_aparam P (fun t => match t with TInt true true => true | _ => false end) = true ->
    In f_BOUNDED_INT_ACTION_PARAMETERS (M.raw P).
  Proof.
    apply aparam_feature. intros t Q. destruct t as [|lo hi| |]; try discriminate. destruct lo, hi; try discriminate.
    simpl. left. reflexivity.
  Qed.
  Lemma covers_UNBOUNDED_INT_ACTION_PARAMETERS :
    Spec.some_aparam P (fun t => match t with TInt lo hi => negb (lo && hi) | _ => false end) = true ->
    In f_UNBOUNDED_INT_ACTION_PARAMETERS (M.raw P).
  Proof.
    apply aparam_feature. intros t Q. destruct t as [|lo hi| |]; try discriminate. destruct lo, hi; try discriminate;
    simpl; left; reflexivity.
  Qed.

  (* ---- trajectory constraints ---- *)
  Lemma covers_STATE_INVARIANTS :
    existsb (fun c => match ce c with EAlways _ => true | _ => false end) (p_traj P) = true -> In f_STATE_INVARIANTS (M.raw P).
  Proof.
    intro H. apply existsb_exists in H. destruct H as (c & Hc & Q). eapply raw_traj; [exact Hc|].
    destruct (ce c); try discriminate. left. reflexivity.
  Qed.
  Lemma covers_TRAJECTORY_CONSTRAINTS :
    existsb (fun c => match ce c with EAlways _ => false | _ => true end) (p_traj P) = true ->
    In f_TRAJECTORY_CONSTRAINTS (M.raw P).
  Proof.
    intro H. apply existsb_exists in H. destruct H as (c & Hc & Q). eapply raw_traj; [exact Hc|].
    destruct (ce c); try discriminate; left; reflexivity.
  Qed.

  (* ---- metrics (kinds, gains) ---- *)
  Lemma metric_feature q f :
    (forall m, q m = true -> In f (M.metric_feats P m)) -> Spec.some_metric P q = true -> In f (M.raw P).
  Proof.
    intros Hq H. unfold Spec.some_metric in H. apply existsb_exists in H. destruct H as (m & Hm & Q).
    eapply raw_metric; eauto.
  Qed.
  Lemma covers_ACTIONS_COST :
    Spec.some_metric P (fun m => match m with MCosts _ => true | _ => false end) = true -> In f_ACTIONS_COST (M.raw P).
  Proof. apply metric_feature. intros m Q. destruct m; try discriminate. left. reflexivity. Qed.
  Lemma covers_FINAL_VALUE :
    Spec.some_metric P (fun m => match m with MFinalMin _ | MFinalMax _ => true | _ => false end) = true ->
    In f_FINAL_VALUE (M.raw P).
  Proof. apply metric_feature. intros m Q. destruct m; try discriminate; left; reflexivity. Qed.
  Lemma covers_MAKESPAN :
    Spec.some_metric P (fun m => match m with MMakespan => true | _ => false end) = true -> In f_MAKESPAN (M.raw P).
  Proof. apply metric_feature. intros m Q. destruct m; try discriminate. left. reflexivity. Qed.
  Lemma covers_PLAN_LENGTH :
    Spec.some_metric P (fun m => match m with MLength => true | _ => false end) = true -> In f_PLAN_LENGTH (M.raw P).
  Proof. apply metric_feature. intros m Q. destruct m; try discriminate. left. reflexivity. Qed.
  Lemma covers_OVERSUBSCRIPTION :
    Spec.some_metric P (fun m => match m with MOversub _ _ => true | _ => false end) = true ->
    In f_OVERSUBSCRIPTION (M.raw P).
  Proof. apply metric_feature. intros m Q. destruct m; try discriminate. left. reflexivity. Qed.
  Lemma covers_TEMPORAL_OVERSUBSCRIPTION :
    Spec.some_metric P (fun m => match m with MTOversub _ _ => true | _ => false end) = true ->
    In f_TEMPORAL_OVERSUBSCRIPTION (M.raw P).
  Proof. apply metric_feature. intros m Q. destruct m; try discriminate. left. reflexivity. Qed.

  Lemma gains_int g : existsb (fun b : bool => b) g = true -> In f_INT_NUMBERS_IN_OVERSUBSCRIPTION (M.gains_feats g).
  Proof.
    intro H. apply existsb_exists in H. destruct H as (b & Hb & E). subst b. unfold M.gains_feats.
    eapply fm_in; [exact Hb|]. left. reflexivity.
  Qed.
  Lemma gains_real g : existsb negb g = true -> In f_REAL_NUMBERS_IN_OVERSUBSCRIPTION (M.gains_feats g).
  Proof.
    intro H. apply existsb_exists in H. destruct H as (b & Hb & E). destruct b; try discriminate. unfold M.gains_feats.
    eapply fm_in; [exact Hb|]. left. reflexivity.
  Qed.
  Lemma covers_INT_OVERSUB :
    Spec.some_metric P (fun m => match m with MOversub _ g | MTOversub _ g => existsb (fun b => b) g | _ => false end) = true ->
    In f_INT_NUMBERS_IN_OVERSUBSCRIPTION (M.raw P).
  Proof.
    apply metric_feature. intros m Q. destruct m; try discriminate; simpl; right; apply in_or_app; right; apply gains_int; exact Q.
  Qed.
  Lemma covers_REAL_OVERSUB :
    Spec.some_metric P (fun m => match m with MOversub _ g | MTOversub _ g => existsb negb g | _ => false end) = true ->
    In f_REAL_NUMBERS_IN_OVERSUBSCRIPTION (M.raw P).
  Proof.
    apply metric_feature. intros m Q. destruct m; try discriminate; simpl; right; apply in_or_app; right; apply gains_real; exact Q.
  Qed.

  (* ---- undefined initial values ---- *)
  Lemma wf_fluent fd : In fd (p_fluents P) -> wf_fdecl fd = true.
  Proof. destruct wf_parts as (_ & _ & _ & _ & H). rewrite forallb_forall in H. apply H. Qed.

  Lemma undefined_initial fd :
    In fd (p_fluents P) -> Spec.undefined fd = true ->
    M.initial_feats fd = [if cnum (class_of (fd_ty fd)) then f_UNDEFINED_INITIAL_NUMERIC else f_UNDEFINED_INITIAL_SYMBOLIC].
  Proof.
    intros Hfd U. unfold Spec.undefined in U. apply andb_true_iff in U. destruct U as [D Mi].
    apply negb_true_iff in D. apply N.ltb_lt in Mi. pose proof (wf_fluent fd Hfd) as W. unfold wf_fdecl in W.
    apply N.eqb_eq in W. unfold M.initial_feats. rewrite D.
    destruct (fd_size fd =? fd_inits fd)%N eqn:E; [apply N.eqb_eq in E; lia | reflexivity].
  Qed.
  Lemma covers_UNDEFINED_NUMERIC :
    existsb (fun fd => Spec.is_num (fd_ty fd) && Spec.undefined fd) (p_fluents P) = true ->
    In f_UNDEFINED_INITIAL_NUMERIC (M.raw P).
  Proof.
    intro H. apply existsb_exists in H. destruct H as (fd & Hfd & Q). apply andb_true_iff in Q. destruct Q as [Nm U].
    apply (raw_initial P fd _ Hfd). rewrite (undefined_initial fd Hfd U).
    destruct (fd_ty fd); try discriminate; left; reflexivity.
  Qed.
  Lemma covers_UNDEFINED_SYMBOLIC :
    existsb (fun fd => negb (Spec.is_num (fd_ty fd)) && Spec.undefined fd) (p_fluents P) = true ->
    In f_UNDEFINED_INITIAL_SYMBOLIC (M.raw P).
  Proof.
    intro H. apply existsb_exists in H. destruct H as (fd & Hfd & Q). apply andb_true_iff in Q. destruct Q as [Nm U].
    apply (raw_initial P fd _ Hfd). rewrite (undefined_initial fd Hfd U).
    destruct (fd_ty fd); try discriminate; left; reflexivity.
  Qed.


  (* ---- static fluents: the documentation's notion (never written) vs. _get_static_and_unused_fluents ---- *)
  Lemma effect_discarded e : In e (Spec.all_effects P) -> In (ef_fl e) (M.discarded P).
  Proof.
    unfold Spec.all_effects, M.discarded. rewrite !in_app_iff, !in_flat_map.
    intros [(a & Ha & He) | [(ev & Hev & He) | [(pr & Hpr & He) | (te & Hte & He)]]].
    - left. exists a. split; [exact Ha|]. destruct a as [i|d]; simpl in *.
      + apply in_or_app. left. unfold M.eff_targets. apply in_map. exact He.
      + apply in_app_or in He. rewrite !in_app_iff. unfold M.eff_targets.
        destruct He as [He|He]; [left | right; left]; apply in_map; exact He.
    - right. left. exists ev. split; [exact Hev|]. unfold M.eff_targets. apply in_map. exact He.
    - right. right. left. exists pr. split; [exact Hpr|]. unfold M.eff_targets. apply in_map. exact He.
    - right. right. right. exists te. split; [exact Hte|]. unfold M.eff_targets. apply in_map. exact He.
  Qed.

  Lemma sim_discarded f : In f (Spec.sim_fluents P) -> In f (M.discarded P).
  Proof.
    unfold Spec.sim_fluents, M.discarded. rewrite !in_app_iff, !in_flat_map. intros (a & Ha & Hf).
    left. exists a. split; [exact Ha|]. destruct a as [i|d]; simpl in *.
    - apply in_or_app. right. exact Hf.
    - rewrite !in_app_iff. right. right. exact Hf.
  Qed.

  Lemma discarded_inv f :
    In f (M.discarded P) -> (exists e, In e (Spec.all_effects P) /\ ef_fl e = f) \/ In f (Spec.sim_fluents P).
  Proof.
    unfold Spec.all_effects, Spec.sim_fluents, M.discarded, M.eff_targets. rewrite !in_app_iff, !in_flat_map.
    intros [(a & Ha & Hf) | [(ev & Hev & Hf) | [(pr & Hpr & Hf) | (te & Hte & Hf)]]].
    - destruct a as [i|d]; simpl in Hf.
      + apply in_app_or in Hf. destruct Hf as [Hf|Hf].
        * apply in_map_iff in Hf. destruct Hf as (e & E & He). left. exists e. split; [|exact E].
          rewrite !in_app_iff, !in_flat_map. left. exists (AInst i). split; [exact Ha | exact He].
        * right. exists (AInst i). split; [exact Ha | exact Hf].
      + rewrite !in_app_iff in Hf. destruct Hf as [Hf|[Hf|Hf]].
        * apply in_map_iff in Hf. destruct Hf as (e & E & He). left. exists e. split; [|exact E].
          rewrite !in_app_iff, !in_flat_map. left. exists (ADur d). split; [exact Ha|]. simpl. apply in_or_app. left. exact He.
        * apply in_map_iff in Hf. destruct Hf as (e & E & He). left. exists e. split; [|exact E].
          rewrite !in_app_iff, !in_flat_map. left. exists (ADur d). split; [exact Ha|]. simpl. apply in_or_app. right. exact He.
        * right. exists (ADur d). split; [exact Ha | exact Hf].
    - apply in_map_iff in Hf. destruct Hf as (e & E & He). left. exists e. split; [|exact E].
      rewrite !in_app_iff, !in_flat_map. right. left. exists ev. split; [exact Hev | exact He].
    - apply in_map_iff in Hf. destruct Hf as (e & E & He). left. exists e. split; [|exact E].
      rewrite !in_app_iff, !in_flat_map. right. right. left. exists pr. split; [exact Hpr | exact He].
    - apply in_map_iff in Hf. destruct Hf as (e & E & He). left. exists e. split; [|exact E].
      rewrite !in_app_iff, !in_flat_map. right. right. right. exists te. split; [exact Hte | exact He].
  Qed.

  Lemma discarded_writes f : In f (M.discarded P) <-> Spec.writes P f = true.
  Proof.
    unfold Spec.writes. rewrite orb_true_iff, existsb_exists, memN_In. split.
    - intro H. destruct (discarded_inv f H) as [(e & He & E) | Hs]; [left | right; exact Hs].
      exists e. split; [exact He | apply N.eqb_eq; exact E].
    - intros [(e & He & E) | Hs]; [|apply sim_discarded; exact Hs].
      apply N.eqb_eq in E. subst f. apply effect_discarded. exact He.
  Qed.

  Lemma static_true f : Spec.static P f = true -> M.declared P f = true -> M.static P f = true.
  Proof.
    unfold Spec.static, M.static. intros S D. rewrite D. simpl. apply negb_true_iff in S. apply negb_true_iff.
    apply memN_false. intro H. apply discarded_writes in H. congruence.
  Qed.
  Lemma static_false f : Spec.static P f = false -> M.static P f = false.
  Proof.
    unfold Spec.static, M.static. intro S. apply negb_false_iff in S. apply discarded_writes in S.
    apply memN_In in S. rewrite S. apply andb_false_r.
  Qed.

  Lemma fl_feats_cover fs g (w : bool) A B :
    In g fs -> M.declared P g = true -> Spec.static P g = w -> In (if w then A else B) (M.fl_feats P fs A B).
  Proof.
    intros Hg D S. unfold M.fl_feats. apply in_or_app. destruct w.
    - left. apply in_clause. apply existsb_exists. exists g. split; [exact Hg | apply static_true; assumption].
    - right. apply in_clause. apply existsb_exists. exists g. split; [exact Hg|]. rewrite (static_false g S). reflexivity.
  Qed.

  Lemma mentions_static w e :
    Spec.mentions_fluent_static P w e = true -> exists g, In g (fluents_of e) /\ Spec.static P g = w.
  Proof.
    unfold Spec.mentions_fluent_static. intro H.
    apply (mentions_fluent_pred (fun g => Bool.eqb (Spec.static P g) w)) in H.
    destruct H as (g & Hg & E). exists g. split; [exact Hg | apply eqb_prop; exact E].
  Qed.

  (* ---- fluent-dependent assignments ---- *)
  Lemma assigns_witness c w :
    Spec.assigns_from P c w = true ->
    exists e g t, incl (M.effect_feats P e) (M.raw P) /\ Spec.is_assignment_like e = true
                  /\ Spec.declared_ty P (ef_fl e) = Some t /\ c (class_of t) = true /\ wf_eff P e = true
                  /\ In g (fluents_of (ef_val e)) /\ Spec.static P g = w.
  Proof.
    unfold Spec.assigns_from. intro H. apply existsb_exists in H. destruct H as (e & He & Q).
    apply andb_true_iff in Q. destruct Q as [Q Mv]. apply andb_true_iff in Q. destruct Q as [AL TC].
    apply (mentions_static w) in Mv. destruct Mv as (g & Hg & S).
    unfold Spec.target_class_is in TC. destruct (Spec.declared_ty P (ef_fl e)) as [t|] eqn:DT; [|discriminate].
    exists e, g, t. repeat split; auto; [|apply wf_effect; exact He].
    destruct (effect_in_raw e He) as [(pr & Hpr & Hin) | Hincl]; [|exact Hincl].
    exfalso. pose proof (wf_process pr e Hpr Hin) as W. unfold wf_process_eff in W. apply andb_true_iff in W.
    destruct W as [_ W]. unfold Spec.is_assignment_like in AL. destruct (ef_kind e); discriminate.
  Qed.

  Lemma wf_eff_inv e t :
    wf_eff P e = true -> Spec.declared_ty P (ef_fl e) = Some t ->
    class_of t = ef_tcls e /\ compat (ef_tcls e) (ef_vcls e) = true
    /\ (ef_kind e = KAssign \/ cnum (ef_tcls e) = true)
    /\ forall g, In g (fluents_of (ef_val e)) -> M.declared P g = true.
  Proof.
    unfold wf_eff. intros W DT. rewrite DT in W. repeat (apply andb_true_iff in W; destruct W as [W ?]).
    repeat split.
    - destruct (class_of t), (ef_tcls e); try discriminate; reflexivity.
    - assumption.
    - destruct (ef_kind e); auto.
    - intros g Hg. rewrite forallb_forall in H. apply H. exact Hg.
  Qed.

  Lemma covers_NUMERIC_ASSIGN w :
    Spec.assigns_from P cnum w = true ->
    In (if w then f_STATIC_FLUENTS_IN_NUMERIC_ASSIGNMENTS else f_FLUENTS_IN_NUMERIC_ASSIGNMENTS) (M.raw P).
  Proof.
    intro H. destruct (assigns_witness _ _ H) as (e & g & t & Hincl & AL & DT & C & W & Hg & S).
    destruct (wf_eff_inv e t W DT) as (TC & CP & KN & DEC). apply Hincl.
    pose proof (fl_feats_cover _ g w f_STATIC_FLUENTS_IN_NUMERIC_ASSIGNMENTS f_FLUENTS_IN_NUMERIC_ASSIGNMENTS Hg (DEC g Hg) S) as F.
    assert (NC : is_num_const (ef_val e) = false).
    { destruct (is_num_const (ef_val e)) eqn:E; [|reflexivity]. rewrite (num_const_no_fluent _ E) in Hg. destruct Hg. }
    rewrite TC in C. unfold M.effect_feats. cbv zeta. rewrite !in_app_iff. right. right.
    unfold Spec.is_assignment_like in AL. destruct (ef_kind e); try discriminate.
    - destruct (ef_tcls e), (ef_vcls e); try discriminate; apply in_or_app; right; exact F.
    - rewrite NC. right. apply in_or_app. right. exact F.
    - rewrite NC. right. apply in_or_app. right. exact F.
  Qed.
  Lemma covers_BOOLEAN_ASSIGN w :
    Spec.assigns_from P Spec.cbool w = true ->
    In (if w then f_STATIC_FLUENTS_IN_BOOLEAN_ASSIGNMENTS else f_FLUENTS_IN_BOOLEAN_ASSIGNMENTS) (M.raw P).
  Proof.
    intro H. destruct (assigns_witness _ _ H) as (e & g & t & Hincl & AL & DT & C & W & Hg & S).
    destruct (wf_eff_inv e t W DT) as (TC & CP & KN & DEC). apply Hincl.
    pose proof (fl_feats_cover _ g w f_STATIC_FLUENTS_IN_BOOLEAN_ASSIGNMENTS f_FLUENTS_IN_BOOLEAN_ASSIGNMENTS Hg (DEC g Hg) S) as F.
    rewrite TC in C. unfold M.effect_feats. cbv zeta. rewrite !in_app_iff. right. right.
    destruct (ef_tcls e); try discriminate. destruct KN as [K|K]; [|discriminate]. rewrite K.
    destruct (ef_vcls e); try discriminate. apply in_or_app. right. exact F.
  Qed.
  Lemma covers_OBJECT_ASSIGN w :
    Spec.assigns_from P Spec.cuser w = true ->
    In (if w then f_STATIC_FLUENTS_IN_OBJECT_ASSIGNMENTS else f_FLUENTS_IN_OBJECT_ASSIGNMENTS) (M.raw P).
  Proof.
    intro H. destruct (assigns_witness _ _ H) as (e & g & t & Hincl & AL & DT & C & W & Hg & S).
    destruct (wf_eff_inv e t W DT) as (TC & CP & KN & DEC). apply Hincl.
    pose proof (fl_feats_cover _ g w f_STATIC_FLUENTS_IN_OBJECT_ASSIGNMENTS f_FLUENTS_IN_OBJECT_ASSIGNMENTS Hg (DEC g Hg) S) as F.
    rewrite TC in C. unfold M.effect_feats. cbv zeta. rewrite !in_app_iff. right. right.
    destruct (ef_tcls e); try discriminate. destruct KN as [K|K]; [|discriminate]. rewrite K.
    destruct (ef_vcls e); try discriminate. apply in_or_app. right. exact F.
  Qed.


  (* ---- durations ---- *)
  Lemma duration_inv d :
    In d (Spec.durations P) -> exists a, In (ADur a) (p_actions P) /\ (d = da_lo a \/ d = da_hi a).
  Proof.
    unfold Spec.durations. intro H. apply in_flat_map in H. destruct H as (a & Ha & Hd).
    destruct a as [i|a]; [destruct Hd|]. exists a. split; [exact Ha|]. destruct Hd as [<-|[<-|[]]]; auto.
  Qed.
  Lemma wf_duration d g : In d (Spec.durations P) -> In g (fluents_of (de d)) -> M.declared P g = true.
  Proof.
    destruct wf_parts as (_ & _ & H & _). rewrite forallb_forall in H. intros Hd Hg. specialize (H d Hd).
    rewrite forallb_forall in H. apply H. exact Hg.
  Qed.
  Lemma duration_feature a f : In (ADur a) (p_actions P) -> In f (M.duration_feats P (da_lo a) (da_hi a)) -> In f (M.raw P).
  Proof.
    intros Ha Hf. apply (raw_action P _ f Ha). simpl. unfold M.daction_feats. rewrite !in_app_iff. right. right. left. exact Hf.
  Qed.

  Lemma covers_FLUENTS_IN_DURATIONS w :
    existsb (fun d => Spec.mentions_fluent_static P w (de d)) (Spec.durations P) = true ->
    In (if w then f_STATIC_FLUENTS_IN_DURATIONS else f_FLUENTS_IN_DURATIONS) (M.raw P).
  Proof.
    intro H. apply existsb_exists in H. destruct H as (d & Hd & Q). apply mentions_static in Q. destruct Q as (g & Hg & S).
    pose proof (wf_duration d g Hd Hg) as D. destruct (duration_inv d Hd) as (a & Ha & E).
    apply (duration_feature a _ Ha). unfold M.duration_feats. rewrite !in_app_iff. do 4 right.
    apply fl_feats_cover with (g := g); auto. apply in_or_app. destruct E; subst d; auto.
  Qed.
  Lemma covers_IFUN_DURATIONS :
    existsb (fun d => mentions is_ifun (de d)) (Spec.durations P) = true -> In f_INTERPRETED_FUNCTIONS_IN_DURATIONS (M.raw P).
  Proof.
    intro H. apply existsb_exists in H. destruct H as (d & Hd & Q). apply mentions_ops in Q. destruct Q as (x & Px & Ix).
    destruct x; try discriminate. destruct (duration_inv d Hd) as (a & Ha & E).
    apply (duration_feature a _ Ha). unfold M.duration_feats. rewrite !in_app_iff. right. right. right. left.
    apply in_clause. apply memN_In. apply in_or_app. destruct E; subst d; auto.
  Qed.
  Lemma covers_INT_TYPE_DURATIONS :
    existsb (fun d => match de_cls d with CInt => true | _ => false end) (Spec.durations P) = true ->
    In f_INT_TYPE_DURATIONS (M.raw P).
  Proof.
    intro H. apply existsb_exists in H. destruct H as (d & Hd & Q). destruct (duration_inv d Hd) as (a & Ha & E).
    apply (duration_feature a _ Ha). unfold M.duration_feats. rewrite !in_app_iff.
    destruct E; subst d; [left | right; left]; unfold M.bound_feats;
      match goal with |- context [de_cls ?x] => destruct (de_cls x) end; try discriminate; left; reflexivity.
  Qed.
  Lemma covers_REAL_TYPE_DURATIONS :
    existsb (fun d => match de_cls d with CReal => true | _ => false end) (Spec.durations P) = true ->
    In f_REAL_TYPE_DURATIONS (M.raw P).
  Proof.
    intro H. apply existsb_exists in H. destruct H as (d & Hd & Q). destruct (duration_inv d Hd) as (a & Ha & E).
    apply (duration_feature a _ Ha). unfold M.duration_feats. rewrite !in_app_iff.
    destruct E; subst d; [left | right; left]; unfold M.bound_feats;
      match goal with |- context [de_cls ?x] => destruct (de_cls x) end; try discriminate; left; reflexivity.
  Qed.
  Lemma covers_DURATION_INEQUALITIES :
    existsb (fun a => match a with ADur d => negb (expr_eqb (de (da_lo d)) (de (da_hi d))) | _ => false end) (p_actions P) = true ->
    In f_DURATION_INEQUALITIES (M.raw P).
  Proof.
    intro H. apply existsb_exists in H. destruct H as (a & Ha & Q). destruct a as [i|a]; [discriminate|].
    apply (duration_feature a _ Ha). unfold M.duration_feats. rewrite !in_app_iff. right. right. left.
    apply in_clause. exact Q.
  Qed.

  (* ---- action costs ---- *)
  Lemma cost_inv c : In c (Spec.costs P) -> exists cs, In (MCosts cs) (p_metrics P) /\ In c cs.
  Proof.
    unfold Spec.costs. intro H. apply in_flat_map in H. destruct H as (m & Hm & Hc).
    destruct m; try (destruct Hc; fail). eauto.
  Qed.
  Lemma wf_cost c g : In c (Spec.costs P) -> In g (fluents_of (ce (fst c))) -> M.declared P g = true.
  Proof.
    destruct wf_parts as (_ & _ & _ & H & _). rewrite forallb_forall in H. intros Hd Hg. specialize (H c Hd).
    rewrite forallb_forall in H. apply H. exact Hg.
  Qed.
  Lemma cost_feature c f :
    In c (Spec.costs P) ->
    In f (match snd c with CInt => [f_INT_NUMBERS_IN_ACTIONS_COST] | CReal => [f_REAL_NUMBERS_IN_ACTIONS_COST] | _ => [] end
          ++ flat_map (fun g => if M.static P g then [f_STATIC_FLUENTS_IN_ACTIONS_COST] else [f_FLUENTS_IN_ACTIONS_COST])
                      (fluents_of (ce (fst c)))) ->
    In f (M.raw P).
  Proof.
    intros Hc Hf. destruct (cost_inv c Hc) as (cs & Hm & Hin). apply (raw_metric P _ f Hm). simpl. right.
    eapply fm_in; [exact Hin|]. apply in_or_app. right. exact Hf.
  Qed.
  Lemma covers_FLUENTS_IN_ACTIONS_COST w :
    existsb (fun c => Spec.mentions_fluent_static P w (ce (fst c))) (Spec.costs P) = true ->
    In (if w then f_STATIC_FLUENTS_IN_ACTIONS_COST else f_FLUENTS_IN_ACTIONS_COST) (M.raw P).
  Proof.
    intro H. apply existsb_exists in H. destruct H as (c & Hc & Q). apply mentions_static in Q. destruct Q as (g & Hg & S).
    apply (cost_feature c _ Hc). apply in_or_app. right. eapply fm_in; [exact Hg|].
    destruct w; [rewrite (static_true g S (wf_cost c g Hc Hg)) | rewrite (static_false g S)]; left; reflexivity.
  Qed.
  Lemma covers_INT_COST :
    existsb (fun c : cexpr * vclass => match snd c with CInt => true | _ => false end) (Spec.costs P) = true ->
    In f_INT_NUMBERS_IN_ACTIONS_COST (M.raw P).
  Proof.
    intro H. apply existsb_exists in H. destruct H as (c & Hc & Q). apply (cost_feature c _ Hc). apply in_or_app. left.
    destruct (snd c); try discriminate. left. reflexivity.
  Qed.
  Lemma covers_REAL_COST :
    existsb (fun c : cexpr * vclass => match snd c with CReal => true | _ => false end) (Spec.costs P) = true ->
    In f_REAL_NUMBERS_IN_ACTIONS_COST (M.raw P).
  Proof.
    intro H. apply existsb_exists in H. destruct H as (c & Hc & Q). apply (cost_feature c _ Hc). apply in_or_app. left.
    destruct (snd c); try discriminate. left. reflexivity.
  Qed.


  (* ---- used fluents: every state position is seen by remove_used_fluents ---- *)
  Lemma conds_used_in c cs : In c cs -> incl (fluents_of (ce c)) (M.conds_used cs).
  Proof. intros Hc f Hf. unfold M.conds_used. eapply fm_in; eauto. Qed.

  Ltac in_used := unfold M.used; rewrite !in_app_iff, !in_flat_map.

  Lemma eff_used_in e : In e (Spec.all_effects P) -> incl (M.eff_used e) (M.used P).
  Proof.
    unfold Spec.all_effects. rewrite !in_app_iff, !in_flat_map.
    intros [(a & Ha & He) | [(ev & Hev & He) | [(pr & Hpr & He) | (te & Hte & He)]]] f Hf; in_used.
    - left. exists a. split; [exact Ha|]. destruct a as [i|d]; simpl in *.
      + apply in_or_app. right. unfold M.effs_used. eapply fm_in; eauto.
      + apply in_app_or in He. rewrite !in_app_iff. destruct He as [He|He]; [right; left | right; right];
          unfold M.effs_used; eapply fm_in; eauto.
    - right. left. exists ev. split; [exact Hev|]. apply in_or_app. right. unfold M.effs_used. eapply fm_in; eauto.
    - right. right. left. exists pr. split; [exact Hpr|]. apply in_or_app. right. unfold M.effs_used. eapply fm_in; eauto.
    - right. right. right. left. exists te. split; [exact Hte|]. unfold M.effs_used. eapply fm_in; eauto.
  Qed.

  Lemma condition_used x : In x (Spec.conditions P) -> incl (fluents_of x) (M.used P).
  Proof.
    unfold Spec.conditions. rewrite !in_app_iff, !in_flat_map, !in_map_iff.
    intros [(a & Ha & Hx) | [(ev & Hev & Hx) | [(pr & Hpr & Hx) | [(e & Ex & He) | [(g & Ex & Hg) |
            [(tg & Htg & Hx) | [(tc & Ex & Htc) | (m & Hm & Hx)]]]]]]] f Hf.
    - in_used. left. exists a. split; [exact Ha|]. destruct a as [i|d]; simpl in Hx; apply in_map_iff in Hx.
      + destruct Hx as (c & E & Hc). subst x. apply in_or_app. left. eapply conds_used_in; eauto.
      + destruct Hx as ((iv & c) & E & Hc). simpl in E. subst x. rewrite !in_app_iff. left.
        apply (conds_used_in c); [|exact Hf]. apply in_map_iff. exists (iv, c). auto.
    - in_used. right. left. exists ev. split; [exact Hev|]. apply in_map_iff in Hx. destruct Hx as (c & E & Hc). subst x.
      apply in_or_app. left. eapply conds_used_in; eauto.
    - in_used. right. right. left. exists pr. split; [exact Hpr|]. apply in_map_iff in Hx. destruct Hx as (c & E & Hc).
      subst x. apply in_or_app. left. eapply conds_used_in; eauto.
    - apply (eff_used_in e He). subst x. unfold M.eff_used. rewrite !in_app_iff. right. right. exact Hf.
    - in_used. do 6 right. left. subst x. eapply conds_used_in; eauto.
    - in_used. do 4 right. left. exists tg. split; [exact Htg|]. apply in_map_iff in Hx. destruct Hx as (c & E & Hc).
      subst x. eapply conds_used_in; eauto.
    - in_used. do 5 right. left. subst x. eapply conds_used_in; eauto.
    - in_used. do 7 right. exists m. split; [exact Hm|].
      destruct m; simpl in Hx; try (destruct Hx; fail); apply in_map_iff in Hx; destruct Hx as (c & E & Hc); subst x;
        eapply conds_used_in; eauto.
  Qed.

  Lemma state_used x : In x (Spec.state_exprs P) -> incl (fluents_of x) (M.used P).
  Proof.
    unfold Spec.state_exprs. rewrite !in_app_iff, !in_flat_map.
    intros [Hc | [(e & He & Hx) | (m & Hm & Hx)]] f Hf.
    - eapply condition_used; eauto.
    - apply (eff_used_in e He). unfold M.eff_used. rewrite !in_app_iff.
      destruct Hx as [<-|[<-|[]]]; [left | right; left]; exact Hf.
    - in_used. do 7 right. exists m. split; [exact Hm|]. destruct m; simpl in Hx; try (destruct Hx; fail);
        destruct Hx as [<-|[]]; exact Hf.
  Qed.

  Lemma counts_model f :
    Spec.counts P f = true ->
    negb (M.unused P f) || (negb (M.in_durations P f) && negb (M.in_costs P f)) = true.
  Proof.
    unfold Spec.counts. intro H. apply orb_true_iff in H. apply orb_true_iff. destruct H as [H|H].
    - left. apply negb_true_iff. unfold M.unused. unfold Spec.occurs_state in H. apply orb_true_iff in H. destruct H as [H|H].
      + change (Spec.has_sim P) with (M.cleared P) in H. rewrite H. simpl. rewrite andb_false_r. reflexivity.
      + apply existsb_exists in H. destruct H as (x & Hx & Mx). apply mentions_fluents_of in Mx.
        pose proof (state_used x Hx f Mx) as U. apply memN_In in U. rewrite U. apply andb_false_r.
    - right. apply negb_true_iff in H. unfold Spec.occurs_dur_or_cost in H. apply orb_false_iff in H. destruct H as [HD HC].
      apply andb_true_iff. split; apply negb_true_iff.
      + destruct (M.in_durations P f) eqn:E; [|reflexivity]. exfalso. unfold M.in_durations in E. apply memN_In in E.
        apply in_flat_map in E. destruct E as (a & Ha & Hf). destruct a as [i|d]; [destruct Hf|].
        assert (X : existsb (fun d => mentions (is_fluent_sym f) (de d)) (Spec.durations P) = true); [|congruence].
        apply in_app_or in Hf. apply existsb_exists.
        destruct Hf as [Hf|Hf]; [exists (da_lo d) | exists (da_hi d)]; (split; [|apply fluents_of_mentions; exact Hf]);
          unfold Spec.durations; (eapply fm_in; [exact Ha|]); simpl; auto.
      + destruct (M.in_costs P f) eqn:E; [|reflexivity]. exfalso. unfold M.in_costs in E. apply memN_In in E.
        apply in_flat_map in E. destruct E as (m & Hm & Hf). destruct m; try (destruct Hf; fail).
        apply in_flat_map in Hf. destruct Hf as (c & Hc & Hf).
        assert (X : existsb (fun c => mentions (is_fluent_sym f) (ce (fst c))) (Spec.costs P) = true); [|congruence].
        apply existsb_exists. exists c. split; [|apply fluents_of_mentions; exact Hf].
        unfold Spec.costs. eapply fm_in; [exact Hm|]. exact Hc.
  Qed.

  Lemma covers_INT_FLUENTS :
    existsb (fun fd => Spec.is_int (fd_ty fd) && Spec.counts P (fd_id fd)) (p_fluents P) = true -> In f_INT_FLUENTS (M.raw P).
  Proof.
    intro H. apply existsb_exists in H. destruct H as (fd & Hfd & Q). apply andb_true_iff in Q. destruct Q as [T C].
    apply (raw_fluent P fd _ Hfd). unfold M.fluent_feats. cbv zeta. rewrite !in_app_iff. right. left.
    destruct (fd_ty fd); try discriminate. apply in_or_app. right. rewrite (counts_model _ C). left. reflexivity.
  Qed.
  Lemma covers_REAL_FLUENTS :
    existsb (fun fd => Spec.is_real (fd_ty fd) && Spec.counts P (fd_id fd)) (p_fluents P) = true -> In f_REAL_FLUENTS (M.raw P).
  Proof.
    intro H. apply existsb_exists in H. destruct H as (fd & Hfd & Q). apply andb_true_iff in Q. destruct Q as [T C].
    apply (raw_fluent P fd _ Hfd). unfold M.fluent_feats. cbv zeta. rewrite !in_app_iff. right. left.
    destruct (fd_ty fd); try discriminate. apply in_or_app. right. rewrite (counts_model _ C). left. reflexivity.
  Qed.

End Positions.

(* ============================================================================================== main result *)
Ltac feature_ne := let E := fresh "E" in intro E; vm_compute in E; discriminate E.

Theorem covers : forall P, wf P -> incl (spec_features P) (kind_model P).
Proof.
  intros P WF. unfold spec_features, Spec.spec_features, kind_model, M.kind_model.
  assert (K : forall f b, f <> f_CONTINUOUS_TIME -> (b = true -> In f (M.raw P)) ->
                          incl (clause f b) (M.finalize P (M.raw P) (M.snp_unset P))).
  { intros f b Hne H. apply clause_incl. intro E. apply finalize_keeps; auto. }
  repeat apply incl_app; (apply K; [feature_ne | intro E]).
  all: first
    [ exact (covers_FLAT P WF E) | exact (covers_HIERARCHICAL P WF E)
    | exact (covers_INT_FLUENTS P E) | exact (covers_REAL_FLUENTS P E) | exact (covers_OBJECT_FLUENTS P E)
    | exact (covers_BOOL_FLUENT_PARAMETERS P E) | exact (covers_BOUNDED_INT_FLUENT_PARAMETERS P E)
    | exact (covers_BOOL_ACTION_PARAMETERS P E) | exact (covers_BOUNDED_INT_ACTION_PARAMETERS P E)
    | exact (covers_UNBOUNDED_INT_ACTION_PARAMETERS P E) | exact (covers_REAL_ACTION_PARAMETERS P E)
    | exact (covers_BOUNDED_TYPES P E)
    | exact (covers_NEGATIVE P WF E) | exact (covers_DISJUNCTIVE P WF E) | exact (covers_EQUALITIES P WF E)
    | exact (covers_EXISTENTIAL P WF E) | exact (covers_UNIVERSAL P WF E) | exact (covers_IFUN_COND P WF E)
    | exact (covers_CONDITIONAL P WF E) | exact (covers_FORALL_EFFECTS P WF E) | exact (covers_INCREASE P WF E)
    | exact (covers_DECREASE P WF E) | exact (covers_INCREASE_CONTINUOUS P E) | exact (covers_DECREASE_CONTINUOUS P E)
    | exact (covers_BOOLEAN_ASSIGN P WF true E) | exact (covers_NUMERIC_ASSIGN P WF true E)
    | exact (covers_OBJECT_ASSIGN P WF true E)
    | exact (covers_BOOLEAN_ASSIGN P WF false E) | exact (covers_NUMERIC_ASSIGN P WF false E)
    | exact (covers_OBJECT_ASSIGN P WF false E)
    | exact (covers_FLUENTS_IN_DURATIONS P WF true E) | exact (covers_FLUENTS_IN_DURATIONS P WF false E)
    | exact (covers_IFUN_DURATIONS P E) | exact (covers_INT_TYPE_DURATIONS P E) | exact (covers_REAL_TYPE_DURATIONS P E)
    | exact (covers_DURATION_INEQUALITIES P E)
    | exact (raw_teffs_flag P E) | exact (raw_tgoals_flag P E) | exact (raw_processes_flag P E) | exact (raw_events_flag P E)
    | exact (covers_STATE_INVARIANTS P E) | exact (covers_TRAJECTORY_CONSTRAINTS P E)
    | exact (covers_ACTIONS_COST P E) | exact (covers_FINAL_VALUE P E) | exact (covers_MAKESPAN P E)
    | exact (covers_PLAN_LENGTH P E) | exact (covers_OVERSUBSCRIPTION P E) | exact (covers_TEMPORAL_OVERSUBSCRIPTION P E)
    | exact (covers_FLUENTS_IN_ACTIONS_COST P WF true E) | exact (covers_FLUENTS_IN_ACTIONS_COST P WF false E)
    | exact (covers_INT_COST P E) | exact (covers_REAL_COST P E)
    | exact (covers_INT_OVERSUB P E) | exact (covers_REAL_OVERSUB P E)
    | exact (covers_UNDEFINED_NUMERIC P WF E) | exact (covers_UNDEFINED_SYMBOLIC P WF E) ].
Qed.

Lemma covers_supported P supported : wf P -> incl (kind_model P) supported -> incl (spec_features P) supported.
Proof. intros WF H. eapply incl_tran; [apply covers; exact WF | exact H]. Qed.

Lemma static_agree P f : M.declared P f = true -> M.static P f = Spec.static P f.
Proof.
  intro D. destruct (Spec.static P f) eqn:S; [apply static_true | apply static_false]; assumption.
Qed.

Lemma extractors_spec e :
  (forall p, mentions p e = true -> exists x, p x = true /\ In (tag x) (ops_of e))
  /\ (forall f, mentions (is_fluent_sym f) e = true <-> In f (fluents_of e)).
Proof.
  split; [intros p; apply mentions_ops|]. intro f. split; [apply mentions_fluents_of | apply fluents_of_mentions].
Qed.
