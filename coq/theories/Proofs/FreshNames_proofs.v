(* Proofs about the naming model of Model/FreshNames.v (property C08). *)
From Coq Require Import List String Ascii Bool Arith Lia Decimal DecimalString DecimalNat FinFun.
Import ListNotations.
Require Import UPV.Model.FreshNames.
Open Scope string_scope.

Lemma mem_In x l : mem x l = true <-> In x l.
Proof.
  unfold mem. rewrite existsb_exists. split.
  - intros (y & Hy & E). apply String.eqb_eq in E. subst. exact Hy.
  - intros H. exists x. split; [exact H | apply String.eqb_refl].
Qed.

Lemma mem_false x l : mem x l = false <-> ~ In x l.
Proof. rewrite <- mem_In. destruct (mem x l); split; congruence. Qed.

(* ---------------------------------------------------------------- a fresh name is fresh *)
Lemma fresh_loop_not_used used base fuel : forall c n, fresh_loop used base c fuel = Some n -> ~ In n used.
Proof.
  induction fuel as [|f IH]; intros c n H; [discriminate|]. cbn [fresh_loop] in H.
  destruct (mem (base ++ "_" ++ dec c) used) eqn:E.
  - eapply IH; eauto.
  - injection H as <-. apply mem_false, E.
Qed.

Theorem get_fresh_name_not_used used o ps t n : get_fresh_name used o ps t = Some n -> ~ In n used.
Proof.
  unfold get_fresh_name. destruct (mem _ used) eqn:E.
  - apply fresh_loop_not_used.
  - intros H. injection H as <-. apply mem_false, E.
Qed.

(* names handed out one after the other, each recorded before the next request: pairwise distinct and new *)
Theorem fresh_names_nodup items : forall used names,
  add_all_fresh used items = Some names -> NoDup names /\ (forall n, In n names -> ~ In n used).
Proof.
  induction items as [|[[o ps] t] r IH]; intros used names H; cbn [add_all_fresh] in H.
  - injection H as <-. split; [constructor | intros ? []].
  - destruct (get_fresh_name used o ps t) as [n|] eqn:E; [|discriminate].
    destruct (add_all_fresh (n :: used) r) as [l|] eqn:El; [|discriminate]. injection H as <-.
    destruct (IH _ _ El) as [ND Hnew]. apply get_fresh_name_not_used in E. split.
    + constructor; [|exact ND]. intros Hin. apply (Hnew n Hin). left; reflexivity.
    + intros m [<-|Hm]; [exact E|]. intros Hu. apply (Hnew m Hm). right; exact Hu.
Qed.

(* ---------------------------------------------------------------- the counter loop always finds a name *)
Lemma dec_inj a b : dec a = dec b -> a = b.
Proof.
  unfold dec. intros H.
  assert (E : NilEmpty.uint_of_string (NilEmpty.string_of_uint (Nat.to_uint a)) =
              NilEmpty.uint_of_string (NilEmpty.string_of_uint (Nat.to_uint b))) by (rewrite H; reflexivity).
  rewrite !NilEmpty.usu in E. injection E as E. apply (f_equal Nat.of_uint) in E.
  rewrite !Unsigned.of_to in E. exact E.
Qed.

Lemma append_inj_l (p a b : string) : p ++ a = p ++ b -> a = b.
Proof. induction p as [|c p IH]; simpl; intros H; [exact H|]. injection H as H. apply IH, H. Qed.

Lemma fresh_loop_none used base fuel : forall c,
  fresh_loop used base c fuel = None ->
  forall i, i < fuel -> In (base ++ "_" ++ dec (c + i)) used.
Proof.
  induction fuel as [|f IH]; intros c H i Hi; [lia|]. cbn [fresh_loop] in H.
  destruct (mem (base ++ "_" ++ dec c) used) eqn:E; [|discriminate].
  destruct i as [|i].
  - rewrite Nat.add_0_r. apply mem_In, E.
  - replace (c + S i) with (S c + i) by lia. apply IH; [exact H | lia].
Qed.

Theorem get_fresh_name_total used o ps t : exists n, get_fresh_name used o ps t = Some n.
Proof.
  unfold get_fresh_name. set (base := join_us _). destruct (mem base used); [|eauto].
  destruct (fresh_loop used base 0 (S (List.length used))) as [n|] eqn:E; [eauto|]. exfalso.
  pose proof (fresh_loop_none _ _ _ _ E) as H.
  set (cands := map (fun i => base ++ "_" ++ dec i) (seq 0 (S (List.length used)))).
  assert (ND : NoDup cands).
  { unfold cands. apply Injective_map_NoDup; [|apply seq_NoDup].
    intros a b Hab. apply append_inj_l in Hab. apply append_inj_l in Hab. apply dec_inj, Hab. }
  assert (Hincl : incl cands used).
  { intros x Hx. unfold cands in Hx. apply in_map_iff in Hx. destruct Hx as (i & <- & Hi).
    apply in_seq in Hi. apply (H i). lia. }
  pose proof (NoDup_incl_length ND Hincl) as L. unfold cands in L. rewrite map_length, seq_length in L. lia.
Qed.

(* ---------------------------------------------------------------- the grounder *)
(* the plain join is not injective: move(a_b, c) and move(a, b_c) *)
Theorem ground_names_injective_refuted :
  exists a ps a' ps', (a, ps) <> (a', ps') /\ ground_name a ps = ground_name a' ps'.
Proof. exists "move", ["a_b"; "c"], "move", ["a"; "b_c"]. split; [discriminate | reflexivity]. Qed.

(* the repaired naming: the names given to the groundings of a problem are pairwise distinct, provided the
   parameterless actions (which keep their names) have distinct names that are names of the problem *)
Definition paramless (items : list item) : list string :=
  flat_map (fun it => match snd it with [] => [fst it] | _ :: _ => [] end) items.

Lemma ground_all_inv items : forall pnames used names,
  ground_all pnames used items = Some names ->
  NoDup (paramless items) -> (forall a, In a (paramless items) -> In a pnames) ->
  NoDup names /\ (forall n, In n names -> (In n (paramless items)) \/ (~ In n pnames /\ ~ In n used)).
Proof.
  induction items as [|[a ps] r IH]; intros pnames used names H ND Hp; cbn [ground_all] in H.
  - injection H as <-. split; [constructor | intros ? []].
  - destruct ps as [|p ps].
    + destruct (ground_all pnames used r) as [l|] eqn:El; [|discriminate]. injection H as <-.
      cbn [paramless flat_map snd fst app] in ND, Hp. fold (paramless r) in ND, Hp.
      inversion ND as [|x y Hnin ND']; subst.
      destruct (IH _ _ _ El ND' (fun b Hb => Hp b (or_intror Hb))) as [NDl Hl]. split.
      * constructor; [|exact NDl]. intros Hin. destruct (Hl a Hin) as [H1|[H1 _]]; [exact (Hnin H1)|].
        apply H1, Hp. left; reflexivity.
      * intros n [<-|Hn]; [left; left; reflexivity|]. destruct (Hl n Hn) as [H1|H1]; [left; right; exact H1 | right; exact H1].
    + destruct (get_fresh_name (pnames ++ used) a (p :: ps) None) as [n|] eqn:E; [|discriminate].
      destruct (ground_all pnames (n :: used) r) as [l|] eqn:El; [|discriminate]. injection H as <-.
      cbn [paramless flat_map snd fst app] in ND, Hp. fold (paramless r) in ND, Hp.
      destruct (IH _ _ _ El ND Hp) as [NDl Hl].
      apply get_fresh_name_not_used in E.
      assert (E1 : ~ In n pnames) by (intros X; apply E, in_or_app; left; exact X).
      assert (E2 : ~ In n used) by (intros X; apply E, in_or_app; right; exact X).
      split.
      * constructor; [|exact NDl]. intros Hin. destruct (Hl n Hin) as [H1|[_ H1]].
        -- apply E1, Hp, H1.
        -- apply H1. left; reflexivity.
      * intros m [<-|Hm]; [right; split; assumption|].
        destruct (Hl m Hm) as [H1|[H1 H2]]; [left; exact H1|]. right. split; [exact H1|].
        intros X. apply H2. right; exact X.
Qed.

Theorem ground_names_nodup pnames items names :
  ground_all pnames [] items = Some names ->
  NoDup (paramless items) -> (forall a, In a (paramless items) -> In a pnames) ->
  NoDup names.
Proof. intros H ND Hp. exact (proj1 (ground_all_inv items pnames [] names H ND Hp)). Qed.

Lemma ground_all_length items : forall pnames used names,
  ground_all pnames used items = Some names -> List.length names = List.length items.
Proof.
  induction items as [|[a ps] r IH]; intros pnames used names H; cbn [ground_all] in H.
  - injection H as <-. reflexivity.
  - destruct ps.
    + destruct (ground_all pnames used r) eqn:E; [|discriminate]. injection H as <-. simpl. f_equal. eapply IH; eauto.
    + destruct (get_fresh_name _ _ _ _); [|discriminate].
      destruct (ground_all pnames (s0 :: used) r) eqn:E; [|discriminate]. injection H as <-. simpl. f_equal. eapply IH; eauto.
Qed.

(* injectivity in the form of the property: two different groundings (positions i <> j) never get the same name *)
Theorem ground_names_injective pnames items names :
  ground_all pnames [] items = Some names ->
  NoDup (paramless items) -> (forall a, In a (paramless items) -> In a pnames) ->
  forall i j n, nth_error names i = Some n -> nth_error names j = Some n -> i = j.
Proof.
  intros H ND Hp i j n Hi Hj. pose proof (ground_names_nodup _ _ _ H ND Hp) as NDn.
  rewrite NoDup_nth_error in NDn. apply NDn; [|congruence].
  apply nth_error_Some. congruence.
Qed.

(* ---------------------------------------------------------------- CompilerResult *)
Theorem compiler_result_has_back_conversion (Prob MapBack Conv : Type) (derive : MapBack -> Conv) p m c r :
  post_init Prob MapBack Conv derive (Some p) m c = Some r -> r_conv _ _ _ r <> None /\ r_problem _ _ _ r = Some p.
Proof.
  unfold post_init. destruct m as [mb|], c as [cv|]; intros H; try discriminate; injection H as <-; simpl;
    split; congruence.
Qed.

(* ---------------------------------------------------------------- the checker decides well-formedness *)
Lemma nodupb_NoDup l : nodupb l = true <-> NoDup l.
Proof.
  induction l as [|x r IH]; simpl; [split; [constructor | reflexivity]|].
  rewrite andb_true_iff, negb_true_iff, mem_false, IH. split.
  - intros [H1 H2]. constructor; assumption.
  - intros H. inversion H; subst. split; assumption.
Qed.

Lemma declared_type_spec P t : declared_type P t = true <-> (t = "" \/ In t (map fst (np_types P))).
Proof. unfold declared_type. rewrite orb_true_iff, String.eqb_eq, mem_In. reflexivity. Qed.

Lemma declared_fluent_spec P f n :
  declared_fluent P (f, n) = true <-> exists sig, In (f, sig) (np_fluents P) /\ List.length sig = n.
Proof.
  unfold declared_fluent. rewrite existsb_exists. cbn [fst snd]. split.
  - intros ([g sig] & Hin & E). apply andb_true_iff in E. destruct E as [E1 E2]. cbn [fst snd] in *.
    apply String.eqb_eq in E1. apply Nat.eqb_eq in E2. subst. exists sig. split; [exact Hin | reflexivity].
  - intros (sig & Hin & E). exists (f, sig). split; [exact Hin|]. cbn [fst snd].
    rewrite String.eqb_refl, E, Nat.eqb_refl. reflexivity.
Qed.

Lemma refs_ok_spec P params r : refs_ok P params r = true <-> refs_wf P params r.
Proof.
  unfold refs_ok, refs_wf. rewrite !andb_true_iff, !forallb_forall. split.
  - intros [[[H1 H2] H3] H4]. repeat split.
    + intros f n Hin. apply declared_fluent_spec, (H1 (f, n) Hin).
    + intros o Ho. apply mem_In, H2, Ho.
    + intros t Ht. apply declared_type_spec, H3, Ht.
    + intros p Hp. apply mem_In, H4, Hp.
  - intros (H1 & H2 & H3 & H4). repeat split.
    + intros [f n] Hin. apply declared_fluent_spec, H1, Hin.
    + intros o Ho. apply mem_In, H2, Ho.
    + intros t Ht. apply declared_type_spec, H3, Ht.
    + intros p Hp. apply mem_In, H4, Hp.
Qed.

Theorem wf_np_spec P : wf_np P = true <-> wf_problem P.
Proof.
  unfold wf_np, wf_problem. rewrite !andb_true_iff, !forallb_forall, nodupb_NoDup, refs_ok_spec. split.
  - intros [[[[[[H1 H2] H3] H4] H5] H6] H7]. split; [exact H1|]. split.
    { intros t f Hin. apply declared_type_spec, (H2 (t, f) Hin). } split.
    { intros o t Hin. specialize (H3 (o, t) Hin). cbn [snd] in H3. apply andb_true_iff in H3. destruct H3 as [A B].
      apply negb_true_iff in A. apply declared_type_spec in B. split.
      - intros ->. rewrite String.eqb_refl in A. discriminate.
      - destruct B as [->|B]; [rewrite String.eqb_refl in A; discriminate | exact B]. } split.
    { intros f sig Hin. specialize (H4 (f, sig) Hin). cbn [snd] in H4. apply andb_true_iff in H4. destruct H4 as [A B].
      split; [apply nodupb_NoDup, A|]. intros p t Hp. rewrite forallb_forall in B. apply declared_type_spec, (B (p, t) Hp). } split.
    { intros a Ha. specialize (H5 a Ha). rewrite !andb_true_iff in H5. destruct H5 as [[A B] C].
      split; [apply nodupb_NoDup, A|]. split; [|apply refs_ok_spec, C].
      intros p t Hin. rewrite forallb_forall in B. apply declared_type_spec, (B (p, t) Hin). } split; [exact H6|].
    intros a Ha. apply mem_In, H7, Ha.
  - intros (H1 & H2 & H3 & H4 & H5 & H6 & H7).
    split; [|intros a Ha; apply mem_In, H7, Ha].
    split; [|exact H6].
    split.
    2:{ intros a Ha. destruct (H5 a Ha) as (A & B & C). rewrite !andb_true_iff. split; [split|].
        * apply nodupb_NoDup, A.
        * apply forallb_forall. intros [p t] Hin. apply declared_type_spec, (B p t Hin).
        * apply refs_ok_spec, C. }
    split.
    2:{ intros [f sig] Hin. cbn [snd]. destruct (H4 f sig Hin) as [A B]. apply andb_true_iff. split.
        * apply nodupb_NoDup, A.
        * apply forallb_forall. intros [p t] Hp. apply declared_type_spec, (B p t Hp). }
    split.
    2:{ intros [o t] Hin. destruct (H3 o t Hin) as [A B]. cbn [snd]. apply andb_true_iff. split.
        * apply negb_true_iff. destruct (String.eqb t "") eqn:E; [apply String.eqb_eq in E; contradiction | reflexivity].
        * apply declared_type_spec. right; exact B. }
    split; [exact H1|].
    intros [t f] Hin. apply declared_type_spec, (H2 t f Hin).
Qed.
