(* C13 — proofs about Walkers/Subst.v.
   A. the code's look-up / key filter are the specification's;  B. subst_spec;  C. free variables and coincidence;
   D. the evaluation theorem;  E. the up-front type check;  F. leaf keys and the updated interpretation. *)
From Coq Require Import List ZArith NArith QArith Qcanon Bool Lia.
Import ListNotations.
Require Import UPV.Core.Expr UPV.Core.Eval UPV.Core.Interp UPV.Proofs.Eval_lemmas UPV.Walkers.Subst.
Local Open Scope nat_scope.

Ltac nfsplit :=
  repeat match goal with
         | H : _ && _ = true |- _ => apply andb_true_iff in H; destruct H
         end.

(* ------------------------------------------------------------------------------------------------- *)
(* A. small facts                                                                                     *)
(* ------------------------------------------------------------------------------------------------- *)
Lemma memN_In x l : memN x l = true <-> In x l.
Proof.
  unfold memN. rewrite existsb_exists. split.
  - intros [y [Hy E]]. apply N.eqb_eq in E. subst. exact Hy.
  - intros H. exists x. split; [exact H | apply N.eqb_refl].
Qed.

Lemma memN_false x l : memN x l = false <-> ~ In x l.
Proof.
  split.
  - intros H Hin. apply memN_In in Hin. congruence.
  - intros H. destruct (memN x l) eqn:E; [|reflexivity]. apply memN_In in E. contradiction.
Qed.

Lemma expr_eqb_sym a b : expr_eqb a b = expr_eqb b a.
Proof.
  destruct (expr_eqb a b) eqn:E1; destruct (expr_eqb b a) eqn:E2; try reflexivity.
  - apply expr_eqb_eq in E1. subst. rewrite expr_eqb_refl in E2. discriminate.
  - apply expr_eqb_eq in E2. subst. rewrite expr_eqb_refl in E1. discriminate.
Qed.

Lemma assoc_nil e : assoc [] e = None.
Proof. reflexivity. Qed.

Lemma assoc_cons k v s e :
  assoc ((k, v) :: s) e = if expr_eqb e k then Some v else assoc s e.
Proof. unfold assoc. cbn [find fst]. destruct (expr_eqb e k); reflexivity. Qed.

Lemma lookup_assoc s e : lookup s e = assoc s e.
Proof.
  induction s as [|[k v] s IH]; [reflexivity|].
  rewrite assoc_cons. cbn [lookup]. rewrite (expr_eqb_sym e k).
  destruct (expr_eqb k e); [reflexivity | exact IH].
Qed.

Lemma assoc_In s e v : assoc s e = Some v -> In (e, v) s.
Proof.
  induction s as [|[k w] s IH]; [discriminate|].
  rewrite assoc_cons. destruct (expr_eqb e k) eqn:E.
  - intros H. inversion H; subst. apply expr_eqb_eq in E. subst. left; reflexivity.
  - intros H. right. apply IH. exact H.
Qed.

Lemma key_kept_disjoint vs k : key_kept vs k = disjointN (free_vars k) (map fst vs).
Proof. reflexivity. Qed.

Lemma key_kept_mentions vs k : key_kept vs k = negb (mentions_bound vs k).
Proof.
  unfold key_kept, mentions_bound.
  destruct (existsb (fun x => memN (fst x) (free_vars k)) vs) eqn:E; cbn [negb].
  - apply existsb_exists in E. destruct E as [[x t] [Hin Hm]]. cbn [fst] in Hm. apply memN_In in Hm.
    apply not_true_is_false. intros H. rewrite forallb_forall in H. specialize (H x Hm).
    apply negb_true_iff in H. apply memN_false in H. apply H. apply in_map_iff. exists (x, t). split; [reflexivity|exact Hin].
  - apply forallb_forall. intros m Hm. apply negb_true_iff. apply memN_false. intros Hin.
    apply in_map_iff in Hin. destruct Hin as [[x t] [Hx Hin]]. cbn [fst] in Hx. subst.
    assert (X : existsb (fun x => memN (fst x) (free_vars k)) vs = true).
    { apply existsb_exists. exists (m, t). split; [exact Hin | cbn [fst]; apply memN_In; exact Hm]. }
    congruence.
Qed.

Lemma filter_map_drop s vs : filter_map s vs = drop_bound s vs.
Proof. unfold filter_map, drop_bound. apply filter_ext. intros [k v]. apply key_kept_mentions. Qed.

Lemma drop_bound_incl s vs : incl (drop_bound s vs) s.
Proof. intros x Hx. apply filter_In in Hx. tauto. Qed.

Lemma drop_bound_keys s vs k v :
  In (k, v) (drop_bound s vs) -> In (k, v) s /\ disjointN (free_vars k) (map fst vs) = true.
Proof.
  intros H. apply filter_In in H. destruct H as [H1 H2]. split; [exact H1|].
  cbn [fst] in H2. rewrite <- key_kept_mentions in H2. exact H2.
Qed.

Lemma mkAnd_two l : two_plus l = true -> mkAnd l = EAnd l.
Proof. destruct l as [|x [|y l]]; try discriminate; reflexivity. Qed.
Lemma mkOr_two l : two_plus l = true -> mkOr l = EOr l.
Proof. destruct l as [|x [|y l]]; try discriminate; reflexivity. Qed.
Lemma mkPlus_two l : two_plus l = true -> mkPlus l = EPlus l.
Proof. destruct l as [|x [|y l]]; try discriminate; reflexivity. Qed.
Lemma mkTimes_two l : two_plus l = true -> mkTimes l = ETimes l.
Proof. destruct l as [|x [|y l]]; try discriminate; reflexivity. Qed.
Lemma two_plus_map {A B} (f : A -> B) l : two_plus (map f l) = two_plus l.
Proof. destruct l as [|x [|y l]]; reflexivity. Qed.
Lemma mkNot_plain e : is_not e = false -> mkNot e = ENot e.
Proof. destruct e; try reflexivity. discriminate. Qed.

Lemma map_Forall_eq {A B} (P : A -> bool) (f g : A -> B) l :
  Forall (fun x => P x = true -> f x = g x) l -> forallb P l = true -> map f l = map g l.
Proof.
  induction 1 as [|x l Hx _ IH]; [reflexivity|]. cbn [forallb map]. intros H. nfsplit.
  rewrite Hx by assumption. rewrite IH by assumption. reflexivity.
Qed.

Lemma map_Forall_id {A} (P : A -> bool) (f : A -> A) l :
  Forall (fun x => P x = true -> f x = x) l -> forallb P l = true -> map f l = l.
Proof. intros H1 H2. rewrite <- (map_id l) at 2. eapply map_Forall_eq; eassumption. Qed.

(* ------------------------------------------------------------------------------------------------- *)
(* B. the code computes the specification                                                             *)
(* ------------------------------------------------------------------------------------------------- *)
Lemma tr_nil e : nf e = true -> topdown_replace [] e = e.
Proof.
  induction e using expr_ind'; intros Hnf; cbn [topdown_replace]; rewrite assoc_nil; cbn [nf] in Hnf; nfsplit;
    try reflexivity;
    try (rewrite (map_Forall_id nf) by assumption);
    try (rewrite ?IHe, ?IHe1, ?IHe2 by assumption; reflexivity).
  - apply mkAnd_two; assumption.
  - apply mkOr_two; assumption.
  - rewrite IHe by assumption. apply mkNot_plain. apply negb_true_iff. assumption.
  - change (drop_bound [] vs) with (@nil (expr * expr)). rewrite IHe by assumption. reflexivity.
  - change (drop_bound [] vs) with (@nil (expr * expr)). rewrite IHe by assumption. reflexivity.
  - apply mkPlus_two; assumption.
  - apply mkTimes_two; assumption.
Qed.

Lemma walk_spec e : forall s, nf e = true -> walk s e = topdown_replace s e.
Proof.
  induction e using expr_ind'; intros s Hnf; cbn [walk topdown_replace]; unfold replace_or_identity;
    rewrite lookup_assoc; destruct (assoc s _); try reflexivity; cbn [nf] in Hnf; nfsplit;
    try (rewrite ?IHe, ?IHe1, ?IHe2 by assumption; reflexivity);
    try (match goal with
         | H : Forall _ ?l |- _ =>
             rewrite (map_Forall_eq nf (walk s) (topdown_replace s) l);
             [reflexivity | eapply Forall_impl; [|exact H]; intros a Ha; apply Ha | assumption]
         end).
  - (* Exists *)
    rewrite filter_map_drop. destruct (drop_bound s vs) as [|p l] eqn:E.
    + rewrite tr_nil by assumption. reflexivity.
    + rewrite IHe by assumption. reflexivity.
  - (* Forall *)
    rewrite filter_map_drop. destruct (drop_bound s vs) as [|p l] eqn:E.
    + rewrite tr_nil by assumption. reflexivity.
    + rewrite IHe by assumption. reflexivity.
Qed.

Theorem subst_spec s e : nf e = true -> substitute s e = topdown_replace s e.
Proof.
  intros Hnf. destruct s as [|p s].
  - cbn [substitute]. symmetry. apply tr_nil. exact Hnf.
  - cbn [substitute]. apply walk_spec. exact Hnf.
Qed.

(* the manager's constructors build nf expressions from nf parts, and substitution stays inside them *)
Lemma nf_mkNot e : nf e = true -> nf (mkNot e) = true.
Proof.
  intros H. destruct e; try (cbn [mkNot nf is_not negb andb]; exact H).
  cbn [mkNot]. cbn [nf] in H. nfsplit. assumption.
Qed.

Lemma nf_mk_list (mk : list expr -> expr) (C : list expr -> expr) (unit : expr) :
  (forall l, mk l = match l with [] => unit | [x] => x | _ => C l end) ->
  nf unit = true -> (forall l, nf (C l) = two_plus l && forallb nf l) ->
  forall l, forallb nf l = true -> nf (mk l) = true.
Proof.
  intros Hmk Hu HC l Hl. rewrite Hmk. destruct l as [|x [|y l]].
  - exact Hu.
  - cbn [forallb] in Hl. nfsplit. assumption.
  - rewrite HC. cbn [two_plus andb]. exact Hl.
Qed.

Lemma nf_mkAnd l : forallb nf l = true -> nf (mkAnd l) = true.
Proof. apply (nf_mk_list mkAnd EAnd (EBool true)); reflexivity || (intros; reflexivity). Qed.
Lemma nf_mkOr l : forallb nf l = true -> nf (mkOr l) = true.
Proof. apply (nf_mk_list mkOr EOr (EBool false)); reflexivity || (intros; reflexivity). Qed.
Lemma nf_mkPlus l : forallb nf l = true -> nf (mkPlus l) = true.
Proof. apply (nf_mk_list mkPlus EPlus (EInt 0%Z)); reflexivity || (intros; reflexivity). Qed.
Lemma nf_mkTimes l : forallb nf l = true -> nf (mkTimes l) = true.
Proof. apply (nf_mk_list mkTimes ETimes (EInt 1%Z)); reflexivity || (intros; reflexivity). Qed.

Lemma forallb_map_Forall {A} (P : A -> bool) (f : A -> A) l :
  Forall (fun x => P (f x) = true) l -> forallb P (map f l) = true.
Proof. induction 1 as [|x l Hx _ IH]; [reflexivity|]. cbn [map forallb]. rewrite Hx, IH. reflexivity. Qed.

Lemma nf_topdown_replace e : forall s,
  (forall k v, In (k, v) s -> nf v = true) -> nf e = true -> nf (topdown_replace s e) = true.
Proof.
  induction e using expr_ind'; intros s Hs Hnf; cbn [topdown_replace];
    destruct (assoc s _) as [w|] eqn:Ea; try (apply assoc_In in Ea; eapply Hs; exact Ea);
    cbn [nf] in Hnf; nfsplit; try reflexivity;
    try (cbn [nf]; rewrite ?IHe, ?IHe1, ?IHe2 by assumption; reflexivity);
    try (first [apply nf_mkAnd | apply nf_mkOr | apply nf_mkPlus | apply nf_mkTimes | cbn [nf]];
         apply forallb_map_Forall; rewrite Forall_forall in *; intros x Hx;
         match goal with H : forall x, In x _ -> _ |- _ => apply (H x Hx s Hs) end;
         match goal with H : forallb nf _ = true |- _ => rewrite forallb_forall in H; apply H; exact Hx end).
  - apply nf_mkNot. apply IHe; assumption.
  - cbn [nf]. apply IHe; [|assumption]. intros k v Hkv. apply drop_bound_incl in Hkv. eapply Hs; exact Hkv.
  - cbn [nf]. apply IHe; [|assumption]. intros k v Hkv. apply drop_bound_incl in Hkv. eapply Hs; exact Hkv.
Qed.

(* ------------------------------------------------------------------------------------------------- *)
(* C. free variables; evaluation depends only on the free variables                                   *)
(* ------------------------------------------------------------------------------------------------- *)
Lemma fv_list_fix l :
  (fix lf (l : list expr) : list N := match l with [] => [] | x :: l' => free_vars x ++ lf l' end) l
  = flat_map free_vars l.
Proof. induction l as [|x l IH]; [reflexivity|]. cbn [flat_map]. rewrite IH. reflexivity. Qed.

Lemma fv_EFluent f l : free_vars (EFluent f l) = flat_map free_vars l.
Proof. cbn [free_vars]. apply fv_list_fix. Qed.
Lemma fv_EIFun f l : free_vars (EIFun f l) = flat_map free_vars l.
Proof. cbn [free_vars]. apply fv_list_fix. Qed.
Lemma fv_EAnd l : free_vars (EAnd l) = flat_map free_vars l.
Proof. cbn [free_vars]. apply fv_list_fix. Qed.
Lemma fv_EOr l : free_vars (EOr l) = flat_map free_vars l.
Proof. cbn [free_vars]. apply fv_list_fix. Qed.
Lemma fv_EPlus l : free_vars (EPlus l) = flat_map free_vars l.
Proof. cbn [free_vars]. apply fv_list_fix. Qed.
Lemma fv_ETimes l : free_vars (ETimes l) = flat_map free_vars l.
Proof. cbn [free_vars]. apply fv_list_fix. Qed.

(* J and I differ at most in the values of variables *)
Definition same_static (I J : interp) : Prop :=
  fl J = fl I /\ par J = par I /\ ifun J = ifun I /\ objs J = objs I.

Lemma same_static_refl I : same_static I I.
Proof. repeat split. Qed.

Lemma same_static_trans I J K : same_static I J -> same_static J K -> same_static I K.
Proof. intros (a & b & c & d) (a' & b' & c' & d'). repeat split; congruence. Qed.

Lemma same_static_bind I J v o : same_static I J -> same_static (bind_var I v o) (bind_var J v o).
Proof. intros (a & b & c & d). repeat split; assumption. Qed.

Lemma same_static_bind1 I v o : same_static I (bind_var I v o).
Proof. repeat split. Qed.

Lemma evals_coincide sc I J l :
  Forall (fun e => (forall x, In x (free_vars e) -> var J x = var I x) -> eval sc e J = eval sc e I) l ->
  (forall x, In x (flat_map free_vars l) -> var J x = var I x) -> evals sc J l = evals sc I l.
Proof.
  induction 1 as [|e l' He _ IH]; intros Hv; [reflexivity|]. cbn [evals]. cbn [flat_map] in Hv.
  rewrite He by (intros x Hx; apply Hv; apply in_or_app; left; exact Hx).
  rewrite IH by (intros x Hx; apply Hv; apply in_or_app; right; exact Hx). reflexivity.
Qed.
Lemma ebools_coincide sc I J l :
  Forall (fun e => (forall x, In x (free_vars e) -> var J x = var I x) -> eval sc e J = eval sc e I) l ->
  (forall x, In x (flat_map free_vars l) -> var J x = var I x) -> ebools sc J l = ebools sc I l.
Proof.
  induction 1 as [|e l' He _ IH]; intros Hv; [reflexivity|]. cbn [ebools]. cbn [flat_map] in Hv.
  rewrite He by (intros x Hx; apply Hv; apply in_or_app; left; exact Hx).
  rewrite IH by (intros x Hx; apply Hv; apply in_or_app; right; exact Hx). reflexivity.
Qed.
Lemma enums_coincide sc I J l :
  Forall (fun e => (forall x, In x (free_vars e) -> var J x = var I x) -> eval sc e J = eval sc e I) l ->
  (forall x, In x (flat_map free_vars l) -> var J x = var I x) -> enums sc J l = enums sc I l.
Proof.
  induction 1 as [|e l' He _ IH]; intros Hv; [reflexivity|]. cbn [enums]. cbn [flat_map] in Hv.
  rewrite He by (intros x Hx; apply Hv; apply in_or_app; left; exact Hx).
  rewrite IH by (intros x Hx; apply Hv; apply in_or_app; right; exact Hx). reflexivity.
Qed.

(* quantifier instances of two interpretations that agree outside the bound variables evaluate the body alike *)
Lemma inst_coincide (F : interp -> option bool) (X : list N)
  (HF : forall I J, same_static I J -> (forall x, In x X -> var J x = var I x) -> F J = F I) :
  forall vs I J, same_static I J ->
    (forall x, In x X -> ~ In x (map fst vs) -> var J x = var I x) ->
    map F (instances J vs) = map F (instances I vs).
Proof.
  induction vs as [|[v ty] vs IH]; intros I J Hs Hv.
  - cbn [instances map]. f_equal. apply HF; [exact Hs|]. intros x Hx. apply Hv; [exact Hx | intros []].
  - cbn [instances]. destruct Hs as (a & b & c & d). rewrite d.
    induction (objs I ty) as [|o os IHo]; [reflexivity|].
    cbn [flat_map]. rewrite !map_app. f_equal; [|exact IHo].
    apply IH.
    + apply same_static_bind. repeat split; assumption.
    + intros x Hx Hn. cbn [bind_var var]. destruct (x =? v)%N eqn:E; [reflexivity|].
      apply Hv; [exact Hx|]. cbn [map fst]. intros [H|H]; [|exact (Hn H)].
      subst. rewrite N.eqb_refl in E. discriminate.
Qed.

Lemma eval_coincide sc e : forall I J, same_static I J ->
  (forall x, In x (free_vars e) -> var J x = var I x) -> eval sc e J = eval sc e I.
Proof.
  induction e using expr_ind'; intros I J Hs Hv; pose proof Hs as (Hfl & Hpar & Hif & Hob); try reflexivity.
  - cbn [eval]. rewrite Hpar. reflexivity.
  - cbn [eval]. apply Hv. left; reflexivity.
  - rewrite !eval_EFluent. rewrite fv_EFluent in Hv.
    rewrite (evals_coincide sc I J args); [rewrite Hfl; reflexivity | | exact Hv].
    eapply Forall_impl; [|exact H]. intros a Ha Hx. apply Ha; assumption.
  - rewrite !eval_EIFun. rewrite fv_EIFun in Hv.
    rewrite (evals_coincide sc I J args); [rewrite Hif; reflexivity | | exact Hv].
    eapply Forall_impl; [|exact H]. intros a Ha Hx. apply Ha; assumption.
  - rewrite !eval_EAnd. rewrite fv_EAnd in Hv.
    rewrite (ebools_coincide sc I J l); [reflexivity | | exact Hv].
    eapply Forall_impl; [|exact H]. intros a Ha Hx. apply Ha; assumption.
  - rewrite !eval_EOr. rewrite fv_EOr in Hv.
    rewrite (ebools_coincide sc I J l); [reflexivity | | exact Hv].
    eapply Forall_impl; [|exact H]. intros a Ha Hx. apply Ha; assumption.
  - rewrite !eval_ENot. rewrite (IHe I J Hs Hv). reflexivity.
  - rewrite !eval_EImplies. cbn [free_vars] in Hv.
    rewrite (IHe1 I J Hs), (IHe2 I J Hs); [reflexivity | |]; intros x Hx; apply Hv; apply in_or_app; tauto.
  - rewrite !eval_EIff. cbn [free_vars] in Hv.
    rewrite (IHe1 I J Hs), (IHe2 I J Hs); [reflexivity | |]; intros x Hx; apply Hv; apply in_or_app; tauto.
  - rewrite !eval_EExists. cbn [free_vars] in Hv.
    rewrite (inst_coincide (fun K => as_bool (eval sc e K)) (free_vars e)) with (I := I); [reflexivity | | exact Hs |].
    + intros I' J' Hs' Hv'. rewrite (IHe I' J' Hs' Hv'). reflexivity.
    + intros x Hx Hn. apply Hv. apply filter_In. split; [exact Hx|]. apply negb_true_iff. apply memN_false. exact Hn.
  - rewrite !eval_EForall. cbn [free_vars] in Hv.
    rewrite (inst_coincide (fun K => as_bool (eval sc e K)) (free_vars e)) with (I := I); [reflexivity | | exact Hs |].
    + intros I' J' Hs' Hv'. rewrite (IHe I' J' Hs' Hv'). reflexivity.
    + intros x Hx Hn. apply Hv. apply filter_In. split; [exact Hx|]. apply negb_true_iff. apply memN_false. exact Hn.
  - rewrite !eval_EPlus. rewrite fv_EPlus in Hv.
    rewrite (enums_coincide sc I J l); [reflexivity | | exact Hv].
    eapply Forall_impl; [|exact H]. intros a Ha Hx. apply Ha; assumption.
  - rewrite !eval_EMinus. cbn [free_vars] in Hv.
    rewrite (IHe1 I J Hs), (IHe2 I J Hs); [reflexivity | |]; intros x Hx; apply Hv; apply in_or_app; tauto.
  - rewrite !eval_ETimes. rewrite fv_ETimes in Hv.
    rewrite (enums_coincide sc I J l); [reflexivity | | exact Hv].
    eapply Forall_impl; [|exact H]. intros a Ha Hx. apply Ha; assumption.
  - rewrite !eval_EDiv. cbn [free_vars] in Hv.
    rewrite (IHe1 I J Hs), (IHe2 I J Hs); [reflexivity | |]; intros x Hx; apply Hv; apply in_or_app; tauto.
  - rewrite !eval_ELe. cbn [free_vars] in Hv.
    rewrite (IHe1 I J Hs), (IHe2 I J Hs); [reflexivity | |]; intros x Hx; apply Hv; apply in_or_app; tauto.
  - rewrite !eval_ELt. cbn [free_vars] in Hv.
    rewrite (IHe1 I J Hs), (IHe2 I J Hs); [reflexivity | |]; intros x Hx; apply Hv; apply in_or_app; tauto.
  - rewrite !eval_EEquals. cbn [free_vars] in Hv.
    rewrite (IHe1 I J Hs), (IHe2 I J Hs); [reflexivity | |]; intros x Hx; apply Hv; apply in_or_app; tauto.
Qed.

(* J agrees with I except (possibly) on the variables in B *)
Definition same_but (B : list N) (I J : interp) : Prop :=
  same_static I J /\ forall x, memN x B = false -> var J x = var I x.

Lemma same_but_refl B I : same_but B I I.
Proof. split; [apply same_static_refl | reflexivity]. Qed.

Lemma memN_app x a b : memN x (a ++ b) = memN x a || memN x b.
Proof. unfold memN. apply existsb_app. Qed.

Lemma same_but_trans B B' I J K : same_but B I J -> same_but B' J K -> same_but (B' ++ B) I K.
Proof.
  intros [Hs Hv] [Hs' Hv']. split; [eapply same_static_trans; eassumption|].
  intros x Hx. rewrite memN_app in Hx. apply orb_false_iff in Hx. destruct Hx as [H1 H2].
  rewrite Hv' by exact H1. apply Hv. exact H2.
Qed.

Lemma instances_same_but vs : forall J K, In K (instances J vs) -> same_but (map fst vs) J K.
Proof.
  induction vs as [|[v ty] vs IH]; intros J K HK.
  - cbn [instances] in HK. destruct HK as [<-|[]]. apply same_but_refl.
  - cbn [instances] in HK. apply in_flat_map in HK. destruct HK as [o [_ HK]].
    apply IH in HK. destruct HK as [Hs Hv]. split.
    + eapply same_static_trans; [apply (same_static_bind1 J v o) | exact Hs].
    + intros x Hx. cbn [map fst] in Hx. cbn [memN existsb] in Hx. apply orb_false_iff in Hx. destruct Hx as [H1 H2].
      rewrite Hv by exact H2. cbn [bind_var var]. rewrite H1. reflexivity.
Qed.

Lemma disjointN_nil a : disjointN a [] = true.
Proof. unfold disjointN. apply forallb_forall. intros x _. reflexivity. Qed.

Lemma disjointN_app a b c : disjointN a (b ++ c) = disjointN a b && disjointN a c.
Proof.
  unfold disjointN. induction a as [|x a IH]; [reflexivity|]. cbn [forallb]. rewrite IH, memN_app.
  destruct (memN x b), (memN x c), (forallb (fun x0 => negb (memN x0 b)) a), (forallb (fun x0 => negb (memN x0 c)) a); reflexivity.
Qed.

Lemma eval_same_but sc B e I J :
  same_but B I J -> disjointN (free_vars e) B = true -> eval sc e J = eval sc e I.
Proof.
  intros [Hs Hv] Hd. apply eval_coincide; [exact Hs|]. intros x Hx. apply Hv.
  unfold disjointN in Hd. rewrite forallb_forall in Hd. apply negb_true_iff. apply Hd. exact Hx.
Qed.

(* ------------------------------------------------------------------------------------------------- *)
(* D. the evaluation theorem                                                                          *)
(* ------------------------------------------------------------------------------------------------- *)
Lemma evals_map sc J (f : expr -> expr) l :
  Forall (fun x => eval sc (f x) J = eval sc x J) l -> evals sc J (map f l) = evals sc J l.
Proof. induction 1 as [|x l Hx _ IH]; [reflexivity|]. cbn [map evals]. rewrite Hx, IH. reflexivity. Qed.
Lemma ebools_map sc J (f : expr -> expr) l :
  Forall (fun x => eval sc (f x) J = eval sc x J) l -> ebools sc J (map f l) = ebools sc J l.
Proof. induction 1 as [|x l Hx _ IH]; [reflexivity|]. cbn [map ebools]. rewrite Hx, IH. reflexivity. Qed.
Lemma enums_map sc J (f : expr -> expr) l :
  Forall (fun x => eval sc (f x) J = eval sc x J) l -> enums sc J (map f l) = enums sc J l.
Proof. induction 1 as [|x l Hx _ IH]; [reflexivity|]. cbn [map enums]. rewrite Hx, IH. reflexivity. Qed.

Lemma cfree_key B s e v : assoc s e = Some v -> cfree B s e = disjointN (free_vars v) B.
Proof. intros H. destruct e; cbn [cfree]; rewrite H; reflexivity. Qed.

(* the only way a replaced, non-negation nf expression can come out headed by Not is that it IS a key mapped to a Not *)
Lemma tr_head_not s a y :
  is_not a = false -> nf a = true -> topdown_replace s a = ENot y -> assoc s a = Some (ENot y).
Proof.
  intros Hn Hnf. destruct a; cbn [topdown_replace]; destruct (assoc s _) as [w|] eqn:Ea;
    try (intros ->; reflexivity); cbn [nf] in Hnf; nfsplit; try discriminate.
  - rewrite mkAnd_two by (rewrite two_plus_map; assumption). discriminate.
  - rewrite mkOr_two by (rewrite two_plus_map; assumption). discriminate.
  - rewrite mkPlus_two by (rewrite two_plus_map; assumption). discriminate.
  - rewrite mkTimes_two by (rewrite two_plus_map; assumption). discriminate.
Qed.

Lemma double_not_eval sc y J :
  bool_or_undef (eval sc y J) ->
  eval sc y J = match as_bool (eval sc (ENot y) J) with Some b => Some (VBool (negb b)) | None => None end.
Proof.
  intros H. rewrite eval_ENot. destruct H as [H|[b H]]; rewrite H; cbn [as_bool].
  - reflexivity.
  - rewrite negb_involutive. reflexivity.
Qed.

Section EvalMain.
  Variable sc : bool.
  Variable s0 : smap.
  Variable I0 : interp.
  Hypothesis Hag : forall k v, In (k, v) s0 -> eval sc k I0 = eval sc v I0.
  Hypothesis Hnot : forall k y, In (k, ENot y) s0 -> bool_or_undef (eval sc y I0).

  Lemma key_case e v B s J :
    assoc s e = Some v -> incl s s0 -> same_but B I0 J ->
    (forall k w, In (k, w) s -> disjointN (free_vars k) B = true) ->
    disjointN (free_vars v) B = true -> eval sc v J = eval sc e J.
  Proof.
    intros Ha Hinc Hsb Hkeys Hd. apply assoc_In in Ha.
    rewrite (eval_same_but sc B v I0 J Hsb Hd).
    rewrite (eval_same_but sc B e I0 J Hsb (Hkeys _ _ Ha)).
    symmetry. apply Hag. apply Hinc. exact Ha.
  Qed.

  Lemma tr_eval : forall e B s J,
    nf e = true -> incl s s0 -> same_but B I0 J ->
    (forall k v, In (k, v) s -> disjointN (free_vars k) B = true) ->
    cfree B s e = true ->
    eval sc (topdown_replace s e) J = eval sc e J.
  Proof.
    induction e using expr_ind'; intros B s J Hnf Hinc Hsb Hkeys Hcf;
      cbn [topdown_replace]; cbn [cfree] in Hcf;
      (destruct (assoc s _) as [w|] eqn:Ea; [eapply key_case; eassumption|]);
      cbn [nf] in Hnf; nfsplit; try reflexivity.
    - (* Fluent *)
      rewrite !eval_EFluent. rewrite evals_map; [reflexivity|].
      rewrite Forall_forall in *. intros x Hx. apply (H x Hx B s J); auto.
      + rewrite forallb_forall in Hnf. auto.
      + rewrite forallb_forall in Hcf. auto.
    - rewrite !eval_EIFun. rewrite evals_map; [reflexivity|].
      rewrite Forall_forall in *. intros x Hx. apply (H x Hx B s J); auto.
      + rewrite forallb_forall in Hnf. auto.
      + rewrite forallb_forall in Hcf. auto.
    - (* And *)
      rewrite mkAnd_two by (rewrite two_plus_map; assumption).
      rewrite !eval_EAnd. rewrite ebools_map; [reflexivity|].
      rewrite Forall_forall in *. intros x Hx. apply (H x Hx B s J); auto.
      + match goal with Hf : forallb nf _ = true |- _ => rewrite forallb_forall in Hf; auto end.
      + rewrite forallb_forall in Hcf. auto.
    - rewrite mkOr_two by (rewrite two_plus_map; assumption).
      rewrite !eval_EOr. rewrite ebools_map; [reflexivity|].
      rewrite Forall_forall in *. intros x Hx. apply (H x Hx B s J); auto.
      + match goal with Hf : forallb nf _ = true |- _ => rewrite forallb_forall in Hf; auto end.
      + rewrite forallb_forall in Hcf. auto.
    - (* Not: the manager collapses Not(Not y) *)
      match goal with Hn : negb (is_not e) = true |- _ => apply negb_true_iff in Hn; rename Hn into Hnn end.
      assert (IH : eval sc (topdown_replace s e) J = eval sc e J) by (apply (IHe B s J); assumption).
      rewrite (eval_ENot sc J e). rewrite <- IH.
      destruct (is_not (topdown_replace s e)) eqn:En.
      + destruct (topdown_replace s e) as [| | | | | | | | | |y| | | | | | | | | | | | | | | |] eqn:Et; try discriminate.
        cbn [mkNot].
        pose proof (tr_head_not s e y Hnn ltac:(assumption) Et) as Hk.
        apply double_not_eval.
        rewrite (cfree_key B s e (ENot y) Hk) in Hcf. cbn [free_vars] in Hcf.
        rewrite (eval_same_but sc B y I0 J Hsb Hcf).
        apply (Hnot e). apply Hinc. apply assoc_In. exact Hk.
      + rewrite mkNot_plain by exact En. rewrite eval_ENot. reflexivity.
    - rewrite !eval_EImplies. rewrite (IHe1 B s J), (IHe2 B s J); auto.
    - rewrite !eval_EIff. rewrite (IHe1 B s J), (IHe2 B s J); auto.
    - (* Exists *)
      rewrite !eval_EExists.
      rewrite (map_ext_in (fun K => as_bool (eval sc (topdown_replace (drop_bound s vs) e) K))
                          (fun K => as_bool (eval sc e K))); [reflexivity|].
      intros K HK. f_equal. apply (IHe (map fst vs ++ B) (drop_bound s vs) K); auto.
      + eapply incl_tran; [apply drop_bound_incl | exact Hinc].
      + apply (same_but_trans B (map fst vs) I0 J K); [exact Hsb | apply instances_same_but; exact HK].
      + intros k v Hkv. apply drop_bound_keys in Hkv. destruct Hkv as [H1 H2].
        rewrite disjointN_app, H2, (Hkeys k v H1). reflexivity.
    - (* Forall *)
      rewrite !eval_EForall.
      rewrite (map_ext_in (fun K => as_bool (eval sc (topdown_replace (drop_bound s vs) e) K))
                          (fun K => as_bool (eval sc e K))); [reflexivity|].
      intros K HK. f_equal. apply (IHe (map fst vs ++ B) (drop_bound s vs) K); auto.
      + eapply incl_tran; [apply drop_bound_incl | exact Hinc].
      + apply (same_but_trans B (map fst vs) I0 J K); [exact Hsb | apply instances_same_but; exact HK].
      + intros k v Hkv. apply drop_bound_keys in Hkv. destruct Hkv as [H1 H2].
        rewrite disjointN_app, H2, (Hkeys k v H1). reflexivity.
    - (* Plus *)
      rewrite mkPlus_two by (rewrite two_plus_map; assumption).
      rewrite !eval_EPlus. rewrite enums_map; [reflexivity|].
      rewrite Forall_forall in *. intros x Hx. apply (H x Hx B s J); auto.
      + match goal with Hf : forallb nf _ = true |- _ => rewrite forallb_forall in Hf; auto end.
      + rewrite forallb_forall in Hcf. auto.
    - rewrite !eval_EMinus. rewrite (IHe1 B s J), (IHe2 B s J); auto.
    - rewrite mkTimes_two by (rewrite two_plus_map; assumption).
      rewrite !eval_ETimes. rewrite enums_map; [reflexivity|].
      rewrite Forall_forall in *. intros x Hx. apply (H x Hx B s J); auto.
      + match goal with Hf : forallb nf _ = true |- _ => rewrite forallb_forall in Hf; auto end.
      + rewrite forallb_forall in Hcf. auto.
    - rewrite !eval_EDiv. rewrite (IHe1 B s J), (IHe2 B s J); auto.
    - rewrite !eval_ELe. rewrite (IHe1 B s J), (IHe2 B s J); auto.
    - rewrite !eval_ELt. rewrite (IHe1 B s J), (IHe2 B s J); auto.
    - rewrite !eval_EEquals. rewrite (IHe1 B s J), (IHe2 B s J); auto.
  Qed.
End EvalMain.

Theorem subst_eval sc s e I :
  nf e = true -> capture_free s e = true ->
  (forall k v, In (k, v) s -> eval sc k I = eval sc v I) ->
  (forall k y, In (k, ENot y) s -> bool_or_undef (eval sc y I)) ->
  eval sc (substitute s e) I = eval sc e I.
Proof.
  intros Hnf Hcf Hag Hnot. rewrite subst_spec by exact Hnf.
  apply (tr_eval sc s I Hag Hnot e [] s I); auto.
  - apply incl_refl.
  - apply same_but_refl.
  - intros. apply disjointN_nil.
Qed.

(* ------------------------------------------------------------------------------------------------- *)
(* E. the up-front type check                                                                         *)
(* ------------------------------------------------------------------------------------------------- *)
Lemma first_bad_none t : first_bad t = None <-> forallb entry_ok t = true.
Proof.
  induction t as [|x t IH]; [split; reflexivity|]. cbn [first_bad forallb]. destruct (entry_ok x); cbn [andb].
  - rewrite <- IH. destruct (first_bad t); cbn [option_map]; split; intros; congruence.
  - split; discriminate.
Qed.

Lemma first_bad_some t : forall i, first_bad t = Some i ->
  (exists x, nth_error t i = Some x /\ entry_ok x = false) /\ forallb entry_ok (firstn i t) = true.
Proof.
  induction t as [|x t IH]; intros i H; [discriminate|]. cbn [first_bad] in H. destruct (entry_ok x) eqn:E.
  - destruct (first_bad t) as [j|]; [|discriminate]. cbn [option_map] in H. inversion H; subst.
    destruct (IH j eq_refl) as [[y [H1 H2]] H3]. split.
    + exists y. split; [exact H1 | exact H2].
    + cbn [firstn forallb]. rewrite E, H3. reflexivity.
  - inversion H; subst. split; [exists x; split; [reflexivity | exact E] | reflexivity].
Qed.

Theorem subst_rejects_first st t e :
  forallb entry_ok t = false ->
  exists i, first_bad t = Some i /\ substitute_call st t e = (st, TypeErr i).
Proof.
  intros H. destruct (first_bad t) as [i|] eqn:F.
  - exists i. split; [reflexivity|]. unfold substitute_call. destruct t; [discriminate|]. rewrite F. reflexivity.
  - apply first_bad_none in F. congruence.
Qed.

Theorem subst_accepts st t e :
  forallb entry_ok t = true ->
  substitute_call st t e = (match t with [] => st | _ => [] end, Done (substitute (untyped t) e)).
Proof.
  intros H. apply first_bad_none in H. unfold substitute_call. destruct t as [|x t]; [reflexivity|].
  rewrite H. destruct x as [[[k v] tk] tv]. reflexivity.
Qed.

(* the fresh sub-walker used for a quantifier body re-checks a sub-map of an already accepted map: it never raises *)
Lemma recheck_passes t t' : forallb entry_ok t = true -> incl t' t -> first_bad t' = None.
Proof.
  intros H Hinc. apply first_bad_none. apply forallb_forall. intros x Hx.
  rewrite forallb_forall in H. apply H. apply Hinc. exact Hx.
Qed.

(* ------------------------------------------------------------------------------------------------- *)
(* F. leaf keys: the result evaluates like the original under the interpretation updated by the map    *)
(* ------------------------------------------------------------------------------------------------- *)
Lemma values_eqb_eq a : forall b, values_eqb a b = true <-> a = b.
Proof.
  induction a as [|x a IH]; intros [|y b]; cbn [values_eqb]; try (split; [discriminate | intros H; discriminate H]); [tauto|].
  rewrite andb_true_iff, value_eqb_eq, IH. split; [intros [-> ->]; reflexivity | intros H; inversion H; auto].
Qed.

Lemma values_eqb_refl a : values_eqb a a = true.
Proof. apply values_eqb_eq. reflexivity. Qed.

Lemma evals_ground sc I args ws : ground_args args = Some ws -> evals sc I args = Some ws.
Proof.
  revert ws. induction args as [|a args IH]; intros ws H.
  - inversion H. reflexivity.
  - cbn [ground_args] in H. destruct a; try discriminate.
    destruct (ground_args args) as [us|]; [|discriminate]. inversion H; subst.
    cbn [evals]. rewrite (IH us eq_refl). reflexivity.
Qed.

Lemma unread_ground s args ws : ground_args args = Some ws -> forallb (unread s) args = true.
Proof.
  revert ws. induction args as [|a args IH]; intros ws H; [reflexivity|].
  cbn [ground_args] in H. destruct a; try discriminate.
  destruct (ground_args args) as [us|]; [|discriminate]. cbn [forallb unread]. rewrite (IH us eq_refl). reflexivity.
Qed.

(* J differs from I only in entries that are keys of s *)
Definition related (s : smap) (I J : interp) : Prop :=
  objs J = objs I /\ ifun J = ifun I /\
  (forall q, key_par s q = false -> par J q = par I q) /\
  (forall x, key_var s x = false -> var J x = var I x) /\
  (forall g ws, key_fl s g ws = false -> fl J g ws = fl I g ws).

Lemma related_refl s I : related s I I.
Proof. repeat split. Qed.

Lemma related_bind s I J v o : related s I J -> related s (bind_var I v o) (bind_var J v o).
Proof.
  intros (a & b & c & d & e). repeat split; try assumption.
  intros x Hx. cbn [bind_var var]. destruct (x =? v)%N; [reflexivity | apply d; exact Hx].
Qed.

Lemma inst_related s (F : interp -> option bool)
  (HF : forall I J, related s I J -> F J = F I) :
  forall vs I J, related s I J -> map F (instances J vs) = map F (instances I vs).
Proof.
  induction vs as [|[v ty] vs IH]; intros I J HR.
  - cbn [instances map]. f_equal. apply HF. exact HR.
  - cbn [instances]. pose proof HR as (a & _). rewrite a.
    induction (objs I ty) as [|o os IHo]; [reflexivity|].
    cbn [flat_map]. rewrite !map_app. f_equal; [|exact IHo].
    apply IH. apply related_bind. exact HR.
Qed.

Lemma key_fl_fsym s g ws : key_fsym s g = false -> key_fl s g ws = false.
Proof.
  unfold key_fsym, key_fl. induction s as [|[k v] s IH]; [reflexivity|]. cbn [existsb fst].
  intros H. apply orb_false_iff in H. destruct H as [H1 H2]. rewrite (IH H2), orb_false_r.
  destruct k; try reflexivity. destruct (ground_args args); [|reflexivity]. rewrite H1. reflexivity.
Qed.

Lemma evals_rel sc I J l :
  Forall (fun e => eval sc e J = eval sc e I) l -> evals sc J l = evals sc I l.
Proof. induction 1 as [|x l Hx _ IH]; [reflexivity|]. cbn [evals]. rewrite Hx, IH. reflexivity. Qed.
Lemma ebools_rel sc I J l :
  Forall (fun e => eval sc e J = eval sc e I) l -> ebools sc J l = ebools sc I l.
Proof. induction 1 as [|x l Hx _ IH]; [reflexivity|]. cbn [ebools]. rewrite Hx, IH. reflexivity. Qed.
Lemma enums_rel sc I J l :
  Forall (fun e => eval sc e J = eval sc e I) l -> enums sc J l = enums sc I l.
Proof. induction 1 as [|x l Hx _ IH]; [reflexivity|]. cbn [enums]. rewrite Hx, IH. reflexivity. Qed.

Lemma eval_unread sc s e : forall I J, related s I J -> unread s e = true -> eval sc e J = eval sc e I.
Proof.
  induction e using expr_ind'; intros I J HR Hu; pose proof HR as (Hob & Hif & Hpar & Hvar & Hfl);
    cbn [unread] in Hu; nfsplit; try reflexivity.
  - cbn [eval]. apply Hpar. apply negb_true_iff. exact Hu.
  - cbn [eval]. apply Hvar. apply negb_true_iff. exact Hu.
  - (* Fluent *)
    rewrite !eval_EFluent.
    assert (E : evals sc J args = evals sc I args).
    { apply evals_rel. rewrite Forall_forall in *. intros x Hx. apply (H x Hx I J HR).
      match goal with Hf : forallb (unread s) args = true |- _ => rewrite forallb_forall in Hf; auto end. }
    rewrite E. destruct (evals sc I args) as [ws|] eqn:Ev; [|reflexivity].
    apply Hfl. destruct (ground_args args) as [us|] eqn:G.
    + rewrite (evals_ground sc I args us G) in Ev. inversion Ev; subst. apply negb_true_iff. assumption.
    + apply key_fl_fsym. apply negb_true_iff. assumption.
  - rewrite !eval_EIFun. rewrite Hif.
    rewrite (evals_rel sc I J args); [reflexivity|].
    rewrite Forall_forall in *. intros x Hx. apply (H x Hx I J HR). rewrite forallb_forall in Hu. auto.
  - rewrite !eval_EAnd. rewrite (ebools_rel sc I J l); [reflexivity|].
    rewrite Forall_forall in *. intros x Hx. apply (H x Hx I J HR). rewrite forallb_forall in Hu. auto.
  - rewrite !eval_EOr. rewrite (ebools_rel sc I J l); [reflexivity|].
    rewrite Forall_forall in *. intros x Hx. apply (H x Hx I J HR). rewrite forallb_forall in Hu. auto.
  - rewrite !eval_ENot. rewrite (IHe I J HR Hu). reflexivity.
  - rewrite !eval_EImplies. rewrite (IHe1 I J HR), (IHe2 I J HR) by assumption. reflexivity.
  - rewrite !eval_EIff. rewrite (IHe1 I J HR), (IHe2 I J HR) by assumption. reflexivity.
  - rewrite !eval_EExists.
    rewrite (inst_related s (fun K => as_bool (eval sc e K))) with (I := I); [reflexivity | | exact HR].
    intros I' J' HR'. rewrite (IHe I' J' HR' Hu). reflexivity.
  - rewrite !eval_EForall.
    rewrite (inst_related s (fun K => as_bool (eval sc e K))) with (I := I); [reflexivity | | exact HR].
    intros I' J' HR'. rewrite (IHe I' J' HR' Hu). reflexivity.
  - rewrite !eval_EPlus. rewrite (enums_rel sc I J l); [reflexivity|].
    rewrite Forall_forall in *. intros x Hx. apply (H x Hx I J HR). rewrite forallb_forall in Hu. auto.
  - rewrite !eval_EMinus. rewrite (IHe1 I J HR), (IHe2 I J HR) by assumption. reflexivity.
  - rewrite !eval_ETimes. rewrite (enums_rel sc I J l); [reflexivity|].
    rewrite Forall_forall in *. intros x Hx. apply (H x Hx I J HR). rewrite forallb_forall in Hu. auto.
  - rewrite !eval_EDiv. rewrite (IHe1 I J HR), (IHe2 I J HR) by assumption. reflexivity.
  - rewrite !eval_ELe. rewrite (IHe1 I J HR), (IHe2 I J HR) by assumption. reflexivity.
  - rewrite !eval_ELt. rewrite (IHe1 I J HR), (IHe2 I J HR) by assumption. reflexivity.
  - rewrite !eval_EEquals. rewrite (IHe1 I J HR), (IHe2 I J HR) by assumption. reflexivity.
Qed.

(* an entry of s only changes what is a key of s *)
Lemma related_upd1 s I0 sc kv I J : In kv s -> related s I J -> related s I (upd1 I0 sc kv J).
Proof.
  intros Hin (a & b & c & d & e). destruct kv as [k v]. unfold upd1. cbn [fst snd].
  destruct k; try (repeat split; assumption).
  - (* EParam *)
    repeat split; try assumption. intros q Hq. cbn [par]. destruct (q =? p)%N eqn:E; [|apply c; exact Hq].
    apply N.eqb_eq in E. subst. exfalso.
    assert (X : key_par s p = true).
    { unfold key_par. apply existsb_exists. exists (EParam p, v). split; [exact Hin | cbn [fst]; apply N.eqb_refl]. }
    congruence.
  - (* EVar *)
    repeat split; try assumption. intros x Hx. cbn [var]. destruct (x =? v0)%N eqn:E; [|apply d; exact Hx].
    apply N.eqb_eq in E. subst. exfalso.
    assert (X : key_var s v0 = true).
    { unfold key_var. apply existsb_exists. exists (EVar v0 ty, v). split; [exact Hin | cbn [fst]; apply N.eqb_refl]. }
    congruence.
  - (* EFluent *)
    destruct (ground_args args) as [ws|] eqn:G; [|repeat split; assumption].
    repeat split; try assumption. intros g us Hg. cbn [fl].
    destruct ((g =? f)%N && values_eqb us ws) eqn:E; [|apply e; exact Hg].
    apply andb_true_iff in E. destruct E as [E1 E2]. apply N.eqb_eq in E1. subst. exfalso.
    assert (X : key_fl s f us = true).
    { unfold key_fl. apply existsb_exists. exists (EFluent f args, v). split; [exact Hin|].
      cbn [fst]. rewrite G, N.eqb_refl, E2. reflexivity. }
    congruence.
Qed.

Lemma related_fold s I0 sc I : forall s', incl s' s -> related s I (fold_right (upd1 I0 sc) I s').
Proof.
  induction s' as [|kv s' IH]; intros Hinc; [apply related_refl|].
  cbn [fold_right]. apply related_upd1.
  - apply Hinc. left; reflexivity.
  - apply IH. intros x Hx. apply Hinc. right; exact Hx.
Qed.

Lemma related_updated sc s I : related s I (updated sc s I).
Proof. unfold updated. apply related_fold. apply incl_refl. Qed.

(* what the update gives the key itself *)
Lemma upd1_self I0 sc k v J : leaf_key k = true -> eval sc k (upd1 I0 sc (k, v) J) = eval sc v I0.
Proof.
  intros Hl. unfold upd1. cbn [fst snd]. destruct k; try discriminate.
  - cbn [eval par]. rewrite N.eqb_refl. reflexivity.
  - cbn [eval var]. rewrite N.eqb_refl. reflexivity.
  - cbn [leaf_key] in Hl. destruct (ground_args args) as [ws|] eqn:G; [|discriminate].
    rewrite eval_EFluent. rewrite (evals_ground _ _ args ws G). cbn [fl]. rewrite N.eqb_refl, values_eqb_refl. reflexivity.
Qed.

(* an entry for a different leaf does not change what a leaf key evaluates to *)
Lemma upd1_other I0 sc k0 v0 s' k v J :
  key_same k0 s' = false -> In (k, v) s' -> leaf_key k = true ->
  eval sc k (upd1 I0 sc (k0, v0) J) = eval sc k J.
Proof.
  intros Hs Hin Hl. unfold upd1. cbn [fst snd].
  destruct k0; try reflexivity.
  - (* k0 = EParam p *)
    destruct k; try discriminate; try reflexivity.
    + cbn [eval par]. destruct (p0 =? p)%N eqn:E; [|reflexivity]. apply N.eqb_eq in E. subst. exfalso.
      cbn [key_same] in Hs. assert (X : key_par s' p = true).
      { unfold key_par. apply existsb_exists. exists (EParam p, v). split; [exact Hin | cbn [fst]; apply N.eqb_refl]. }
      congruence.
    + cbn [leaf_key] in Hl. destruct (ground_args args) as [ws|] eqn:G; [|discriminate].
      rewrite !eval_EFluent. rewrite !(evals_ground _ _ args ws G). reflexivity.
  - (* k0 = EVar *)
    destruct k; try discriminate; try reflexivity.
    + cbn [eval var]. destruct (v2 =? v1)%N eqn:E; [|reflexivity]. apply N.eqb_eq in E. subst. exfalso.
      cbn [key_same] in Hs. assert (X : key_var s' v1 = true).
      { unfold key_var. apply existsb_exists. exists (EVar v1 ty0, v). split; [exact Hin | cbn [fst]; apply N.eqb_refl]. }
      congruence.
    + cbn [leaf_key] in Hl. destruct (ground_args args) as [ws|] eqn:G; [|discriminate].
      rewrite !eval_EFluent. rewrite !(evals_ground _ _ args ws G). reflexivity.
  - (* k0 = EFluent *)
    cbn [key_same] in Hs. destruct (ground_args args) as [ws0|] eqn:G0; [|reflexivity].
    destruct k; try discriminate; try reflexivity.
    cbn [leaf_key] in Hl. destruct (ground_args args0) as [ws|] eqn:G; [|discriminate].
    rewrite !eval_EFluent. rewrite !(evals_ground _ _ args0 ws G). cbn [fl].
    destruct ((f0 =? f)%N && values_eqb ws ws0) eqn:E; [|reflexivity].
    apply andb_true_iff in E. destruct E as [E1 E2]. apply N.eqb_eq in E1. apply values_eqb_eq in E2. subst. exfalso.
    assert (X : key_fl s' f ws0 = true).
    { unfold key_fl. apply existsb_exists. exists (EFluent f args0, v). split; [exact Hin|].
      cbn [fst]. rewrite G, N.eqb_refl, values_eqb_refl. reflexivity. }
    congruence.
Qed.

Lemma keys_ok_leaf s k v : keys_ok s = true -> In (k, v) s -> leaf_key k = true.
Proof.
  induction s as [|[k0 v0] s IH]; [intros _ []|]. cbn [keys_ok]. intros H Hin. nfsplit.
  destruct Hin as [Hin|Hin]; [inversion Hin; subst; assumption | apply IH; assumption].
Qed.

Lemma updated_key I0 sc I s : keys_ok s = true ->
  forall k v, In (k, v) s -> eval sc k (fold_right (upd1 I0 sc) I s) = eval sc v I0.
Proof.
  induction s as [|[k0 v0] s IH]; intros Hok k v Hin; [destruct Hin|].
  cbn [keys_ok] in Hok. nfsplit. cbn [fold_right]. destruct Hin as [Hin|Hin].
  - inversion Hin; subst. apply upd1_self. assumption.
  - rewrite (upd1_other I0 sc k0 v0 s k v); [apply IH; assumption | | exact Hin | eapply keys_ok_leaf; eassumption].
    apply negb_true_iff. assumption.
Qed.

Lemma unread_not s y : unread s (ENot y) = unread s y.
Proof. reflexivity. Qed.

(* for distinct leaf keys whose replacements (and the result) read no key:
   evaluating the result in I  =  evaluating the original in I updated by the map *)
Theorem subst_eval_updated sc s e I :
  nf e = true -> capture_free s e = true -> keys_ok s = true ->
  (forall k v, In (k, v) s -> unread s v = true) ->
  unread s (substitute s e) = true ->
  (forall k y, In (k, ENot y) s -> bool_or_undef (eval sc y I)) ->
  eval sc (substitute s e) I = eval sc e (updated sc s I).
Proof.
  intros Hnf Hcf Hok Hval Hres Hnot.
  pose proof (related_updated sc s I) as HR.
  rewrite <- (eval_unread sc s (substitute s e) I (updated sc s I) HR Hres).
  apply subst_eval; try assumption.
  - intros k v Hin. unfold updated. rewrite (updated_key I sc I s Hok k v Hin).
    symmetry. apply (eval_unread sc s v I _ HR). apply (Hval k v Hin).
  - intros k y Hin. rewrite (eval_unread sc s y I _ HR); [apply (Hnot k y Hin)|].
    rewrite <- unread_not. apply (Hval k _ Hin).
Qed.

(* the same statement with both sides evaluated in the updated interpretation needs no condition on the result *)
Theorem subst_eval_in_updated sc s e I :
  nf e = true -> capture_free s e = true -> keys_ok s = true ->
  (forall k v, In (k, v) s -> unread s v = true) ->
  (forall k y, In (k, ENot y) s -> bool_or_undef (eval sc y I)) ->
  eval sc (substitute s e) (updated sc s I) = eval sc e (updated sc s I).
Proof.
  intros Hnf Hcf Hok Hval Hnot.
  pose proof (related_updated sc s I) as HR.
  apply subst_eval; try assumption.
  - intros k v Hin. unfold updated. rewrite (updated_key I sc I s Hok k v Hin).
    symmetry. apply (eval_unread sc s v I _ HR). apply (Hval k v Hin).
  - intros k y Hin. rewrite (eval_unread sc s y I _ HR); [apply (Hnot k y Hin)|].
    rewrite <- unread_not. apply (Hval k _ Hin).
Qed.

(* ------------------------------------------------------------------------------------------------- *)
(* G. the statements about whole calls                                                                *)
(* ------------------------------------------------------------------------------------------------- *)
Theorem call_spec st t e :
  nf e = true -> forallb entry_ok t = true ->
  snd (substitute_call st t e) = Done (topdown_replace (untyped t) e).
Proof.
  intros Hnf Hok. rewrite (subst_accepts st t e Hok). cbn [snd]. f_equal. exact (subst_spec _ e Hnf).
Qed.

Theorem updated_gives_keys sc I s :
  keys_ok s = true -> forall k v, In (k, v) s -> eval sc k (updated sc s I) = eval sc v I.
Proof. intros H k v Hin. exact (updated_key I sc I s H k v Hin). Qed.
