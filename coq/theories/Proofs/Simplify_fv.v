(* Simplification introduces no new free variable. *)
From Coq Require Import List ZArith NArith QArith Qcanon Bool Lia.
Import ListNotations.
Require Import UPV.Core.Expr UPV.Core.Eval UPV.Proofs.Eval_lemmas UPV.Walkers.Simplify UPV.Proofs.Simplify_base.
Local Open Scope nat_scope.

(* the tables only contain constants *)
Definition cfg_consts (G : cfg) : Prop :=
  (forall f a c, stat G f a = Some c -> is_const c = true) /\
  (forall f a c, itab G f a = Some c -> is_const c = true).

(* ---------------------------------------------------------------- specifications of the Exists helpers *)
Lemma elim_cand_spec G vs c x t :
  elim_cand G vs c = Some (x, t) ->
  exists ty, (c = EEquals (EVar x ty) t \/ c = EEquals t (EVar x ty)) /\ bound_in x vs = true /\
             memN x (free_vars t) = false /\ exists tv, user_type_of G t = Some tv /\ compat G ty tv = true.
Proof.
  unfold elim_cand. destruct c; try discriminate.
  destruct (is_bvar vs c1) eqn:B.
  - destruct c1; try discriminate.
    destruct (bound_in v vs && negb (memN v (free_vars c2)) &&
              match user_type_of G c2 with Some tv => compat G ty tv | None => false end) eqn:E; [|discriminate].
    intros H; inversion H; subst. apply andb_true_iff in E. destruct E as [E E3]. apply andb_true_iff in E.
    destruct E as [E1 E2]. apply negb_true_iff in E2.
    exists ty. split; [left; reflexivity|]. split; [exact E1|]. split; [exact E2|].
    destruct (user_type_of G t); [eauto|discriminate].
  - destruct c2; try discriminate.
    destruct (bound_in v vs && negb (memN v (free_vars c1)) &&
              match user_type_of G c1 with Some tv => compat G ty tv | None => false end) eqn:E; [|discriminate].
    intros H; inversion H; subst. apply andb_true_iff in E. destruct E as [E E3]. apply andb_true_iff in E.
    destruct E as [E1 E2]. apply negb_true_iff in E2.
    exists ty. split; [right; reflexivity|]. split; [exact E1|]. split; [exact E2|].
    destruct (user_type_of G t); [eauto|discriminate].
Qed.

Lemma find_elim_spec G vs l pre x t post :
  find_elim G vs l = Some (pre, (x, t), post) ->
  exists c, l = pre ++ c :: post /\ elim_cand G vs c = Some (x, t) /\
            Forall (fun d => elim_cand G vs d = None) pre.
Proof.
  revert pre post. induction l as [|c r IH]; intros pre post H; [discriminate|].
  cbn [find_elim] in H. destruct (elim_cand G vs c) as [xt|] eqn:E.
  - inversion H; subst. exists c. split; [reflexivity|]. split; [exact E| constructor].
  - destruct (find_elim G vs r) as [[[pre' xt'] post']|] eqn:F; [|discriminate].
    inversion H; subst. destruct (IH _ _ eq_refl) as [c' [-> [E' Hp]]].
    exists c'. split; [reflexivity|]. split; [exact E'| constructor; assumption].
Qed.

Lemma find_elim_none G vs l : find_elim G vs l = None -> Forall (fun d => elim_cand G vs d = None) l.
Proof.
  induction l as [|c r IH]; intros H; [constructor|].
  cbn [find_elim] in H. destruct (elim_cand G vs c) eqn:E; [discriminate|].
  destruct (find_elim G vs r) as [[[? ?] ?]|] eqn:F; [discriminate|]. constructor; auto.
Qed.

Lemma elim_step_spec G vs body vs' body' :
  elim_step G vs body = Some (vs', body') ->
  exists pre c post x t, body = EAnd (pre ++ c :: post) /\ elim_cand G vs c = Some (x, t) /\
    vs' = remove_var x vs /\ body' = subst x t (mkAnd (pre ++ post)).
Proof.
  unfold elim_step. destruct body; try discriminate.
  destruct (find_elim G vs l) as [[[pre [x t]] post]|] eqn:F; [|discriminate].
  intros H; inversion H; subst. destruct (find_elim_spec _ _ _ _ _ _ _ F) as [c [-> [E _]]].
  exists pre, c, post, x, t. auto.
Qed.

Lemma in_remove_var w x vs : In w (map fst (remove_var x vs)) -> In w (map fst vs).
Proof.
  induction vs as [|p r IH]; simpl; [tauto|].
  destruct (fst p =? x)%N; simpl; [tauto|]. intros [H|H]; auto.
Qed.

Lemma in_remove_var_neq w x vs : In w (map fst vs) -> w <> x -> In w (map fst (remove_var x vs)).
Proof.
  induction vs as [|p r IH]; simpl; [tauto|].
  destruct (fst p =? x)%N eqn:E; simpl.
  - apply N.eqb_eq in E. intros [H|H] Hn; [congruence|exact H].
  - intros [H|H] Hn; auto.
Qed.

Lemma length_remove_var x vs : bound_in x vs = true -> S (length (remove_var x vs)) = length vs.
Proof.
  rewrite bound_in_In. induction vs as [|p r IH]; simpl; [tauto|].
  destruct (fst p =? x)%N eqn:E; [reflexivity|].
  intros [H|H]; [apply N.eqb_neq in E; congruence|]. simpl. rewrite IH; auto.
Qed.

(* ---------------------------------------------------------------- substitution *)
Lemma fv_subst x t e :
  forall w, In w (free_vars (subst x t e)) -> (In w (free_vars e) /\ w <> x) \/ In w (free_vars t).
Proof.
  induction e using expr_ind'; intros w; cbn [subst];
    try (intros Hw; left; split; [exact Hw|]; cbn in Hw; tauto).
  - (* EVar *) destruct (v =? x)%N eqn:E; [tauto|]. apply N.eqb_neq in E. simpl. intros [->|[]]. left. split; [left; reflexivity|congruence].
  - rewrite fv_EFluent, fv_EFluent. rewrite !in_fvl. intros [y [Hy Hw]]. apply in_map_iff in Hy. destruct Hy as [z [<- Hz]].
    rewrite Forall_forall in H. destruct (H z Hz w Hw) as [[A B]|A]; [left; split; [eauto|exact B]|right; exact A].
  - rewrite fv_EIFun, fv_EIFun. rewrite !in_fvl. intros [y [Hy Hw]]. apply in_map_iff in Hy. destruct Hy as [z [<- Hz]].
    rewrite Forall_forall in H. destruct (H z Hz w Hw) as [[A B]|A]; [left; split; [eauto|exact B]|right; exact A].
  - rewrite fv_mkAnd, fv_EAnd. rewrite !in_fvl. intros [y [Hy Hw]]. apply in_map_iff in Hy. destruct Hy as [z [<- Hz]].
    rewrite Forall_forall in H. destruct (H z Hz w Hw) as [[A B]|A]; [left; split; [eauto|exact B]|right; exact A].
  - rewrite fv_mkOr, fv_EOr. rewrite !in_fvl. intros [y [Hy Hw]]. apply in_map_iff in Hy. destruct Hy as [z [<- Hz]].
    rewrite Forall_forall in H. destruct (H z Hz w Hw) as [[A B]|A]; [left; split; [eauto|exact B]|right; exact A].
  - rewrite fv_mkNot. cbn [free_vars]. auto.
  - cbn [free_vars]. rewrite !in_app_iff. intros [Hw|Hw]; [destruct (IHe1 w Hw)|destruct (IHe2 w Hw)]; tauto.
  - cbn [free_vars]. rewrite !in_app_iff. intros [Hw|Hw]; [destruct (IHe1 w Hw)|destruct (IHe2 w Hw)]; tauto.
  - destruct (memN x (map fst vs)) eqn:B.
    + intros Hw. left. split; [exact Hw|]. cbn [free_vars] in Hw. apply in_fv_quant in Hw. apply memN_In in B. intros ->. tauto.
    + cbn [free_vars]. rewrite !in_fv_quant. intros [Hw Hn]. destruct (IHe w Hw) as [[A C]|A]; tauto.
  - destruct (memN x (map fst vs)) eqn:B.
    + intros Hw. left. split; [exact Hw|]. cbn [free_vars] in Hw. apply in_fv_quant in Hw. apply memN_In in B. intros ->. tauto.
    + cbn [free_vars]. rewrite !in_fv_quant. intros [Hw Hn]. destruct (IHe w Hw) as [[A C]|A]; tauto.
  - rewrite fv_mkPlus, fv_EPlus. rewrite !in_fvl. intros [y [Hy Hw]]. apply in_map_iff in Hy. destruct Hy as [z [<- Hz]].
    rewrite Forall_forall in H. destruct (H z Hz w Hw) as [[A B]|A]; [left; split; [eauto|exact B]|right; exact A].
  - cbn [free_vars]. rewrite !in_app_iff. intros [Hw|Hw]; [destruct (IHe1 w Hw)|destruct (IHe2 w Hw)]; tauto.
  - rewrite fv_mkTimes, fv_ETimes. rewrite !in_fvl. intros [y [Hy Hw]]. apply in_map_iff in Hy. destruct Hy as [z [<- Hz]].
    rewrite Forall_forall in H. destruct (H z Hz w Hw) as [[A B]|A]; [left; split; [eauto|exact B]|right; exact A].
  - cbn [free_vars]. rewrite !in_app_iff. intros [Hw|Hw]; [destruct (IHe1 w Hw)|destruct (IHe2 w Hw)]; tauto.
  - cbn [free_vars]. rewrite !in_app_iff. intros [Hw|Hw]; [destruct (IHe1 w Hw)|destruct (IHe2 w Hw)]; tauto.
  - cbn [free_vars]. rewrite !in_app_iff. intros [Hw|Hw]; [destruct (IHe1 w Hw)|destruct (IHe2 w Hw)]; tauto.
  - cbn [free_vars]. rewrite !in_app_iff. intros [Hw|Hw]; [destruct (IHe1 w Hw)|destruct (IHe2 w Hw)]; tauto.
  - cbn [free_vars]. auto.
  - cbn [free_vars]. auto.
  - cbn [free_vars]. rewrite !in_app_iff. intros [Hw|Hw]; [destruct (IHe1 w Hw)|destruct (IHe2 w Hw)]; tauto.
  - cbn [free_vars]. rewrite !in_app_iff. intros [Hw|Hw]; [destruct (IHe1 w Hw)|destruct (IHe2 w Hw)]; tauto.
  - cbn [free_vars]. auto.
Qed.

(* ---------------------------------------------------------------- node functions *)
Lemma fv_walk_not c : incl (free_vars (walk_not c)) (free_vars c).
Proof. destruct c; simpl; apply incl_refl. Qed.

Definition jitems (k : bool) (args : list expr) : list expr :=
  flat_map (fun a => match junct_args k a with Some ss => ss | None => [a] end) args.

Lemma in_add_key y s seen : In y (add_key s seen) -> In y seen \/ y = s.
Proof. unfold add_key. destruct (mem_expr s seen); [tauto|]. rewrite in_app_iff. simpl. intuition. Qed.

Lemma j_inner_sub ss : forall seen out, j_inner ss seen = Some out -> incl out (seen ++ ss).
Proof.
  induction ss as [|s ss IH]; intros seen out H; cbn [j_inner] in H.
  - inversion H; subst. rewrite app_nil_r. apply incl_refl.
  - destruct (mem_expr (walk_not s) seen); [discriminate|].
    intros y Hy. apply (IH _ _ H) in Hy. rewrite in_app_iff in *. simpl.
    destruct Hy as [Hy|Hy]; [|tauto]. apply in_add_key in Hy. intuition.
Qed.

Lemma j_outer_sub k args : forall seen out, j_outer k args seen = Some out -> incl out (seen ++ jitems k args).
Proof.
  induction args as [|a r IH]; intros seen out H; cbn [j_outer] in H.
  - inversion H; subst. cbn. rewrite app_nil_r. apply incl_refl.
  - cbn [jitems flat_map]. fold (jitems k r).
    destruct (is_unit k a).
    { intros y Hy. apply (IH _ _ H) in Hy. rewrite !in_app_iff in *. tauto. }
    destruct (is_zero k a); [discriminate|].
    destruct (junct_args k a) as [ss|] eqn:J.
    + destruct (j_inner ss seen) as [seen'|] eqn:I; [|discriminate].
      intros y Hy. apply (IH _ _ H) in Hy. rewrite !in_app_iff in *.
      destruct Hy as [Hy|Hy]; [|tauto]. apply (j_inner_sub _ _ _ I) in Hy. rewrite in_app_iff in Hy. tauto.
    + destruct (mem_expr (walk_not a) seen); [discriminate|].
      intros y Hy. apply (IH _ _ H) in Hy. rewrite !in_app_iff in *. simpl.
      destruct Hy as [Hy|Hy]; [|tauto]. apply in_add_key in Hy. intuition.
Qed.

Lemma fv_junct_args k a ss : junct_args k a = Some ss -> free_vars a = fvl ss.
Proof.
  destruct a; simpl; try discriminate; destruct k; try discriminate; intros H; inversion H; subst;
    [apply fv_EAnd | apply fv_EOr].
Qed.

Lemma fvl_jitems k args : incl (fvl (jitems k args)) (fvl args).
Proof.
  induction args as [|a r IH]; [apply incl_refl|].
  cbn [jitems flat_map]. fold (jitems k r). rewrite fvl_app, fvl_cons.
  apply incl_app; [apply incl_appl | apply incl_appr; exact IH].
  destruct (junct_args k a) as [ss|] eqn:J.
  - rewrite (fv_junct_args _ _ _ J). apply incl_refl.
  - cbn. rewrite app_nil_r. apply incl_refl.
Qed.

Lemma fvl_incl l l' : incl l l' -> incl (fvl l) (fvl l').
Proof. intros H w. rewrite !in_fvl. intros [x [Hx Hw]]. exists x. split; [apply H; exact Hx|exact Hw]. Qed.

Lemma fv_walk_junct_gen k args : incl (free_vars (walk_junct_gen k args)) (fvl args).
Proof.
  unfold walk_junct_gen. destruct (j_outer k args []) as [keys|] eqn:J.
  - rewrite fv_mkJ. apply (incl_tran (fvl_incl _ _ (j_outer_sub _ _ _ _ J))). cbn [app]. apply fvl_jitems.
  - intros w [].
Qed.

Lemma fv_walk_junct k args : incl (free_vars (walk_junct k args)) (fvl args).
Proof.
  unfold walk_junct. destruct args as [|a [|b [|c r]]]; try apply fv_walk_junct_gen.
  destruct (expr_eqb a b); [|apply fv_walk_junct_gen].
  cbn [fvl flat_map]. apply incl_appl. apply incl_refl.
Qed.

Lemma fv_walk_iff a b : incl (free_vars (walk_iff a b)) (free_vars a ++ free_vars b).
Proof.
  unfold walk_iff. destruct (as_boolc a) as [[|]|], (as_boolc b) as [[|]|];
    try rewrite fv_mkNot; try (intros w []); try (apply incl_appl, incl_refl); try (apply incl_appr, incl_refl).
  destruct (expr_eqb a b); [intros w []|apply incl_refl].
Qed.

Lemma fv_walk_implies a b : incl (free_vars (walk_implies a b)) (free_vars a ++ free_vars b).
Proof.
  unfold walk_implies. destruct (as_boolc a) as [[|]|], (as_boolc b) as [[|]|];
    try rewrite fv_mkNot; try (intros w []); try (apply incl_appl, incl_refl); try (apply incl_appr, incl_refl).
  destruct (expr_eqb a b); [intros w []|apply incl_refl].
Qed.

Lemma fv_flat1 t args : incl (fvl (flat1 t args)) (fvl args).
Proof.
  induction args as [|a r IH]; [apply incl_refl|].
  cbn [flat1 flat_map]. fold (flat1 t r). rewrite fvl_app, fvl_cons.
  apply incl_app; [apply incl_appl | apply incl_appr; exact IH].
  assert (D : incl (fvl [a]) (free_vars a)) by (cbn; rewrite app_nil_r; apply incl_refl).
  destruct a; try exact D; destruct t; try exact D.
  - rewrite fv_EPlus. apply incl_refl.
  - rewrite fv_ETimes. apply incl_refl.
Qed.

Lemma fv_walk_arith t args : incl (free_vars (walk_arith t args)) (fvl args).
Proof.
  unfold walk_arith.
  destruct (t && existsb num_is0 (consts_of (flat1 t args))); [intros w []|].
  assert (Hn : incl (fvl (nonconsts_of (flat1 t args))) (fvl args)).
  { apply (incl_tran (fvl_incl _ _ (incl_filter _ _))). apply fv_flat1. }
  destruct (num_is_unit t _); rewrite fv_mkA; [exact Hn|].
  rewrite fvl_app. apply incl_app; [exact Hn|]. cbn. rewrite fv_num_expr. intros w [].
Qed.

Lemma fv_walk_minus a b : incl (free_vars (walk_minus a b)) (free_vars a ++ free_vars b).
Proof.
  unfold walk_minus. destruct (num_of a) as [x|] eqn:A, (num_of b) as [y|] eqn:B; try apply incl_refl.
  - rewrite fv_num_expr. intros w [].
  - destruct (num_isneg y); [|apply incl_refl].
    apply (incl_tran (fv_walk_arith _ _)). cbn [fvl flat_map]. rewrite fv_num_expr, app_nil_r.
    apply incl_appl, incl_refl.
Qed.

Lemma fv_walk_div a b : incl (free_vars (walk_div a b)) (free_vars a ++ free_vars b).
Proof.
  unfold walk_div. destruct (num_of a) as [[x|x]|], (num_of b) as [[y|y]|]; try apply incl_refl;
    repeat match goal with |- context [if ?c then _ else _] => destruct c end;
    try apply incl_refl; intros w [].
Qed.

Lemma fv_walk_equals G a b : incl (free_vars (walk_equals G a b)) (free_vars a ++ free_vars b).
Proof.
  unfold walk_equals.
  destruct (is_const a && is_const b); [intros w []|].
  destruct (expr_eqb a b); [intros w []|].
  destruct (user_type_of G a), (user_type_of G b); try apply incl_refl.
  destruct (negb _ && negb _); [intros w []|apply incl_refl].
Qed.

Lemma fv_walk_le a b : incl (free_vars (walk_le a b)) (free_vars a ++ free_vars b).
Proof. unfold walk_le. destruct (num_of a), (num_of b); try apply incl_refl. intros w []. Qed.
Lemma fv_walk_lt a b : incl (free_vars (walk_lt a b)) (free_vars a ++ free_vars b).
Proof. unfold walk_lt. destruct (num_of a), (num_of b); try apply incl_refl. intros w []. Qed.

Lemma fv_walk_fluent G f args : cfg_consts G -> incl (free_vars (walk_fluent G f args)) (fvl args).
Proof.
  intros [HS _]. unfold walk_fluent. destruct (forallb is_const args); [|rewrite fv_EFluent; apply incl_refl].
  destruct (stat G f args) as [c|] eqn:E; [|rewrite fv_EFluent; apply incl_refl].
  rewrite (is_const_closed _ (HS _ _ _ E)). intros w [].
Qed.
Lemma fv_walk_ifun G f args : cfg_consts G -> incl (free_vars (walk_ifun G f args)) (fvl args).
Proof.
  intros [_ HS]. unfold walk_ifun. destruct (forallb is_const args); [|rewrite fv_EIFun; apply incl_refl].
  destruct (itab G f args) as [c|] eqn:E; [|rewrite fv_EIFun; apply incl_refl].
  rewrite (is_const_closed _ (HS _ _ _ E)). intros w [].
Qed.

Lemma fv_traj :
  (forall a, incl (free_vars (walk_always a)) (free_vars a)) /\
  (forall a, incl (free_vars (walk_sometime a)) (free_vars a)) /\
  (forall a, incl (free_vars (walk_at_most_once a)) (free_vars a)) /\
  (forall a b, incl (free_vars (walk_sometime_before a b)) (free_vars a ++ free_vars b)) /\
  (forall a b, incl (free_vars (walk_sometime_after a b)) (free_vars a ++ free_vars b)).
Proof.
  repeat split; intros; unfold walk_always, walk_sometime, walk_at_most_once, walk_sometime_before, walk_sometime_after;
    repeat match goal with |- context [if ?c then _ else _] => destruct c end; try apply incl_refl; intros w [].
Qed.

(* ---------------------------------------------------------------- quantifiers *)
Lemma fv_prune G vs b : incl (free_vars (EExists (prune G vs b) b)) (free_vars (EExists vs b)).
Proof.
  intros w. cbn [free_vars]. rewrite !in_fv_quant. intros [Hw Hn]. split; [exact Hw|].
  intros Hin. apply Hn. apply in_map_iff in Hin. destruct Hin as [p [<- Hp]].
  apply in_map. unfold prune. apply filter_In. split; [exact Hp|]. apply orb_true_iff. left. apply memN_In. exact Hw.
Qed.

Lemma fv_walk_forall G vs b : incl (free_vars (walk_forall G vs b)) (free_vars (EForall vs b)).
Proof. unfold walk_forall. rewrite fv_mkForall. apply (fv_prune G vs b). Qed.

Lemma fv_elim_step G vs body vs' body' :
  elim_step G vs body = Some (vs', body') ->
  incl (free_vars (EExists vs' body')) (free_vars (EExists vs body)).
Proof.
  intros H. destruct (elim_step_spec _ _ _ _ _ H) as [pre [c [post [x [t [-> [E [-> ->]]]]]]]].
  destruct (elim_cand_spec _ _ _ _ _ E) as [ty [Hc [Hb [Hocc _]]]].
  apply memN_false in Hocc.
  assert (Ht : incl (free_vars t) (free_vars c)).
  { destruct Hc as [->| ->]; cbn [free_vars]; [apply incl_appr|apply incl_appl]; apply incl_refl. }
  intros w. rewrite !fv_EExists, !in_fv_quant, fv_EAnd. intros [Hw Hn].
  assert (Hfv : In w (fvl (pre ++ c :: post)) /\ w <> x).
  { apply fv_subst in Hw. rewrite fv_mkAnd in Hw. destruct Hw as [[Hw Hx]|Hw].
    - split; [|exact Hx]. rewrite fvl_app in *. rewrite fvl_cons. rewrite !in_app_iff in *. tauto.
    - split; [|intros ->; tauto]. rewrite fvl_app, fvl_cons. rewrite !in_app_iff. right; left. apply Ht, Hw. }
  destruct Hfv as [Hfv Hx]. split; [exact Hfv|].
  intros Hin. apply Hn. apply in_remove_var_neq; assumption.
Qed.

Lemma fv_elim_loop G k : forall vs body vs' body',
  elim_loop G k vs body = (vs', body') ->
  incl (free_vars (EExists vs' body')) (free_vars (EExists vs body)).
Proof.
  induction k as [|k IH]; intros vs body vs' body' H; cbn [elim_loop] in H.
  - inversion H; subst. apply incl_refl.
  - destruct (elim_step G vs body) as [[vs1 b1]|] eqn:E.
    + apply (incl_tran (IH _ _ _ _ H)). apply (fv_elim_step _ _ _ _ _ E).
    + inversion H; subst. apply incl_refl.
Qed.

Lemma fv_walk_exists G rs vs b :
  (forall x, incl (free_vars (rs x)) (free_vars x)) ->
  incl (free_vars (walk_exists G rs vs b)) (free_vars (EExists vs b)).
Proof.
  intros Hrs. unfold walk_exists.
  destruct (elim_step G (prune G vs b) b) as [p|] eqn:E.
  - destruct (elim_loop G (length (prune G vs b)) (prune G vs b) b) as [vs1 b1] eqn:L.
    apply (incl_tran (Hrs _)). rewrite fv_mkExists.
    apply (incl_tran (fv_elim_loop _ _ _ _ _ _ L)). apply fv_prune.
  - rewrite fv_mkExists. apply fv_prune.
Qed.

(* ---------------------------------------------------------------- the theorem *)
Lemma fvl_map_incl (f : expr -> expr) l :
  Forall (fun x => incl (free_vars (f x)) (free_vars x)) l -> incl (fvl (map f l)) (fvl l).
Proof.
  induction 1 as [|x l Hx _ IH]; [apply incl_refl|].
  cbn [map]. rewrite !fvl_cons. apply incl_app; [apply incl_appl; exact Hx | apply incl_appr; exact IH].
Qed.

Lemma incl_app2 {A} (a a' b b' : list A) : incl a a' -> incl b b' -> incl (a ++ b) (a' ++ b').
Proof. intros H1 H2. apply incl_app; [apply incl_appl|apply incl_appr]; assumption. Qed.

Lemma incl_filter_mono {A} (f : A -> bool) (l l' : list A) : incl l l' -> incl (filter f l) (filter f l').
Proof. intros H x. rewrite !filter_In. intros [Hx Hf]. split; [apply H; exact Hx|exact Hf]. Qed.

Lemma simp_fv_gen G n : cfg_consts G -> (forall x, incl (free_vars (resimp G n x)) (free_vars x)) ->
  forall e, incl (free_vars (simp G n e)) (free_vars e).
Proof.
  intros HG Hrs.
    induction e using expr_ind'; autorewrite with simp_unfold; try apply incl_refl.
    + rewrite fv_EFluent. apply (incl_tran (fv_walk_fluent _ _ _ HG)). apply fvl_map_incl; assumption.
    + rewrite fv_EIFun. apply (incl_tran (fv_walk_ifun _ _ _ HG)). apply fvl_map_incl; assumption.
    + rewrite fv_EAnd. apply (incl_tran (fv_walk_junct _ _)). apply fvl_map_incl; assumption.
    + rewrite fv_EOr. apply (incl_tran (fv_walk_junct _ _)). apply fvl_map_incl; assumption.
    + apply (incl_tran (fv_walk_not _)). exact IHe.
    + apply (incl_tran (fv_walk_implies _ _)). cbn [free_vars]. apply incl_app2; assumption.
    + apply (incl_tran (fv_walk_iff _ _)). cbn [free_vars]. apply incl_app2; assumption.
    + apply (incl_tran (fv_walk_exists _ _ _ _ Hrs)). cbn [free_vars]. apply incl_filter_mono. exact IHe.
    + apply (incl_tran (fv_walk_forall _ _ _)). cbn [free_vars]. apply incl_filter_mono. exact IHe.
    + rewrite fv_EPlus. apply (incl_tran (fv_walk_arith _ _)). apply fvl_map_incl; assumption.
    + apply (incl_tran (fv_walk_minus _ _)). cbn [free_vars]. apply incl_app2; assumption.
    + rewrite fv_ETimes. apply (incl_tran (fv_walk_arith _ _)). apply fvl_map_incl; assumption.
    + apply (incl_tran (fv_walk_div _ _)). cbn [free_vars]. apply incl_app2; assumption.
    + apply (incl_tran (fv_walk_le _ _)). cbn [free_vars]. apply incl_app2; assumption.
    + apply (incl_tran (fv_walk_lt _ _)). cbn [free_vars]. apply incl_app2; assumption.
    + apply (incl_tran (fv_walk_equals _ _ _)). cbn [free_vars]. apply incl_app2; assumption.
    + apply (incl_tran (proj1 fv_traj _)). exact IHe.
    + apply (incl_tran (proj1 (proj2 fv_traj) _)). exact IHe.
    + apply (incl_tran (proj1 (proj2 (proj2 (proj2 fv_traj))) _ _)). cbn [free_vars]. apply incl_app2; assumption.
    + apply (incl_tran (proj2 (proj2 (proj2 (proj2 fv_traj))) _ _)). cbn [free_vars]. apply incl_app2; assumption.
    + apply (incl_tran (proj1 (proj2 (proj2 fv_traj)) _)). exact IHe.
Qed.

Theorem simp_fv G : cfg_consts G -> forall n e, incl (free_vars (simp G n e)) (free_vars e).
Proof.
  intros HG. induction n as [|n IHn]; apply simp_fv_gen; auto.
  intros x; apply incl_refl.
Qed.
