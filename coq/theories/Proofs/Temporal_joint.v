(* Joint application of all the effects of one instant (C05, third core lemma): the loop of _apply_effects
   ([tt_loop]) is the sequential simulator's loop ([sim_loop], C01) plus the ownership test `assigned[f] == ai`;
   with Sem_proofs.sim_loop_spec it computes the declarative [joint_ok] / [joint_succ].  Also: the declarative joint
   application does not depend on the order of the events of the instant, and respects extensional state equality. *)
From Coq Require Import List ZArith NArith QArith Qcanon Bool Lia Permutation.
Import ListNotations.
Require Import UPV.Core.Expr UPV.Core.Eval UPV.Core.Interp UPV.Planning.Problem UPV.Planning.Sem.
Require Import UPV.Planning.Temporal UPV.Planning.TTValidate.
Require Import UPV.Proofs.Eval_lemmas UPV.Proofs.Sem_proofs UPV.Proofs.Step_proofs.

(* ------------------------------------------------------------------ sources *)
Lemma src_eqb_eq a b : src_eqb a b = true <-> a = b.
Proof.
  destruct a as [x|], b as [y|]; cbn; try (split; [discriminate | intros H; discriminate H]); [|tauto].
  rewrite Nat.eqb_eq. split; [intros ->; reflexivity | intros H; inversion H; reflexivity].
Qed.
Lemma src_eqb_refl a : src_eqb a a = true.
Proof. apply src_eqb_eq; reflexivity. Qed.

(* ------------------------------------------------------------------ the ownership test alone *)
Fixpoint src_ok (asg : own_map) (l : list tagged) : bool :=
  match l with
  | [] => true
  | (ai, a) :: l' =>
      if is_assign a
      then match owner (ae_key a) asg with
           | Some ow => src_eqb ow ai && src_ok asg l'
           | None => src_ok ((ae_key a, ai) :: asg) l'
           end
      else src_ok asg l'
  end.

Definition consistent (o : option src) (srcs : list src) : bool :=
  match o with Some ow => forallb (src_eqb ow) srcs | None => one_source srcs end.

Lemma assigners_cons k x l :
  assigners k (x :: l) = if gfl_eqb (ae_key (snd x)) k && is_assign (snd x) then fst x :: assigners k l else assigners k l.
Proof. unfold assigners. cbn. destruct (gfl_eqb (ae_key (snd x)) k && is_assign (snd x)); reflexivity. Qed.

Lemma src_ok_spec l : forall asg,
  src_ok asg l = true <-> forall k, consistent (owner k asg) (assigners k l) = true.
Proof.
  induction l as [|[ai a] l IH]; intros asg.
  - cbn. split; [|reflexivity]. intros _ k. destruct (owner k asg); reflexivity.
  - cbn [src_ok]. destruct (is_assign a) eqn:EA.
    + destruct (owner (ae_key a) asg) as [ow|] eqn:EO.
      * rewrite andb_true_iff, IH. split.
        -- intros [H1 H2] k. rewrite assigners_cons. cbn [fst snd]. rewrite EA, andb_true_r.
           destruct (gfl_eqb (ae_key a) k) eqn:E; [|apply H2].
           apply gfl_eqb_eq in E. subst k. rewrite EO. cbn. rewrite H1. specialize (H2 (ae_key a)). rewrite EO in H2. exact H2.
        -- intros H. split.
           ++ specialize (H (ae_key a)). rewrite assigners_cons in H. cbn [fst snd] in H.
              rewrite EA, gfl_eqb_refl, EO in H. cbn in H. apply andb_true_iff in H. apply H.
           ++ intros k. specialize (H k). rewrite assigners_cons in H. cbn [fst snd] in H. rewrite EA, andb_true_r in H.
              destruct (gfl_eqb (ae_key a) k) eqn:E; [|exact H].
              destruct (owner k asg) eqn:EO2; [cbn in H; apply andb_true_iff in H; apply H|].
              apply gfl_eqb_eq in E. subst k. congruence.
      * rewrite IH. split.
        -- intros H k. specialize (H k). rewrite assigners_cons. cbn [fst snd]. rewrite EA, andb_true_r.
           cbn [owner] in H. rewrite gfl_eqb_sym in H. destruct (gfl_eqb (ae_key a) k) eqn:E; [|exact H].
           apply gfl_eqb_eq in E. subst k. rewrite EO. cbn in *. exact H.
        -- intros H k. specialize (H k). rewrite assigners_cons in H. cbn [fst snd] in H. rewrite EA, andb_true_r in H.
           cbn [owner]. rewrite gfl_eqb_sym. destruct (gfl_eqb (ae_key a) k) eqn:E; [|exact H].
           apply gfl_eqb_eq in E. subst k. rewrite EO in H. cbn in *. exact H.
    + rewrite IH. split; intros H k; specialize (H k); rewrite assigners_cons in *; cbn [fst snd] in *;
        rewrite EA, andb_false_r in *; exact H.
Qed.

Corollary src_ok_nil l : src_ok [] l = true <-> forall k, one_source (assigners k l) = true.
Proof. rewrite src_ok_spec. cbn. tauto. Qed.

(* ------------------------------------------------------------------ tt_loop = sim_loop + ownership *)
Definition rel (P : problem) (st : upd_map * own_map) (ss : upd_map * list gfl) : Prop :=
  (forall k, alookup k (fst st) = alookup k (fst ss)) /\
  (forall k, amem k (snd ss) = match owner k (snd st) with Some _ => true | None => false end) /\
  (forall k, alookup k (fst st) = None -> owner k (snd st) = None) /\
  (forall k old, is_bool_fluent P (fst k) = true -> alookup k (fst st) = Some old ->
                 is_vbool old = true /\ owner k (snd st) <> None).

Definition conflict (asg : own_map) (x : tagged) : bool :=
  is_assign (snd x) && match owner (ae_key (snd x)) asg with Some ow => negb (src_eqb ow (fst x)) | None => false end.

Definition next_asg (asg : own_map) (x : tagged) : own_map :=
  if is_assign (snd x) then match owner (ae_key (snd x)) asg with Some _ => asg | None => (ae_key (snd x), fst x) :: asg end
  else asg.

Lemma rel_cons_upd P upd asg upd' asg' k v :
  rel P (upd, asg) (upd', asg') -> alookup k upd <> None \/ owner k asg = None ->
  (is_bool_fluent P (fst k) = true -> is_vbool v = true /\ owner k asg <> None) ->
  rel P ((k, v) :: upd, asg) ((k, v) :: upd', asg').
Proof.
  intros (R1 & R2 & R3 & R4) H HB. split; [|split; [|split]]; cbn [fst snd] in *.
  - intros k0. cbn [alookup]. destruct (gfl_eqb k0 k); [reflexivity | apply R1].
  - apply R2.
  - intros k0. cbn [alookup]. destruct (gfl_eqb k0 k) eqn:E; [discriminate | apply R3].
  - intros k0 old Hb. cbn [alookup]. destruct (gfl_eqb k0 k) eqn:E; [|apply R4; exact Hb].
    apply gfl_eqb_eq in E. subst k0. intros HH; inversion HH; subst. apply HB, Hb.
Qed.

Lemma tt_step_sim P s st ss x :
  rel P st ss -> wt_aeff P (snd x) = true ->
  match sim_step P s ss (snd x) with
  | None => tt_step P s st x = None
  | Some ss' =>
      if conflict (snd st) x then tt_step P s st x = None
      else exists st', tt_step P s st x = Some st' /\ rel P st' ss' /\ snd st' = next_asg (snd st) x
  end.
Proof.
  destruct st as [upd asg], ss as [upd' asg'], x as [ai a]. intros R WT. pose proof R as (R1 & R2 & R3 & R4). cbn [fst snd] in *.
  unfold sim_step, tt_step, conflict, next_asg, is_assign. cbn [fst snd].
  unfold wt_aeff, is_assign in WT.
  rewrite <- (R1 (ae_key a)). rewrite (R2 (ae_key a)).
  destruct (ae_kind a) eqn:EK.
  - destruct (alookup (ae_key a) upd) as [old|] eqn:EL.
    + destruct (owner (ae_key a) asg) as [ow|] eqn:EO; cbn [negb andb].
      * destruct (value_eqb (ae_val a) old) eqn:EV; cbn [negb].
        -- destruct (src_eqb ow ai) eqn:ES; cbn [negb]; [|reflexivity].
           eexists. split; [reflexivity|]. split; [|reflexivity].
           apply value_eqb_eq in EV.
           split; [|split; [|split]]; cbn [fst snd].
           ++ intros k. cbn [alookup]. destruct (gfl_eqb k (ae_key a)) eqn:E; [|apply R1].
              apply gfl_eqb_eq in E. subst k. rewrite EL. congruence.
           ++ intros k. cbn [amem existsb]. fold (amem k asg'). rewrite R2.
              destruct (gfl_eqb k (ae_key a)) eqn:E; [|reflexivity]. apply gfl_eqb_eq in E. subst k. rewrite EO. reflexivity.
           ++ apply R3.
           ++ apply R4.
        -- destruct (is_bool_fluent P (fst (ae_key a))) eqn:EB; [|destruct (src_eqb ow ai); reflexivity].
           cbn in WT. destruct (ae_val a) as [bv| |] eqn:EVal; try discriminate.
           pose proof (proj1 (R4 _ _ EB EL)) as OB. destruct old as [ob| |]; try discriminate.
           destruct (src_eqb ow ai) eqn:ES; cbn [negb]; [|destruct ob; reflexivity].
           destruct ob, bv; cbn [is_vtrue]; cbn in EV; try discriminate;
             (eexists; split; [reflexivity|]; split; [|reflexivity]); try exact R.
           apply rel_cons_upd; [exact R | left; congruence | intros _; split; [reflexivity | congruence]].
      * destruct (negb (value_eqb (ae_val a) old)).
        -- destruct (is_bool_fluent P (fst (ae_key a))) eqn:EB; [|reflexivity].
           exfalso. apply (proj2 (R4 _ _ EB EL)). exact EO.
        -- reflexivity.
    + rewrite (R3 _ EL). cbn [andb].
      eexists. split; [reflexivity|]. split; [|reflexivity].
      split; [|split; [|split]]; cbn [fst snd].
      * intros k. cbn [alookup]. destruct (gfl_eqb k (ae_key a)); [reflexivity | apply R1].
      * intros k. cbn [amem existsb owner]. fold (amem k asg'). rewrite R2. destruct (gfl_eqb k (ae_key a)); reflexivity.
      * intros k. cbn [alookup owner]. destruct (gfl_eqb k (ae_key a)); [discriminate | apply R3].
      * intros k old Hb. cbn [alookup owner]. destruct (gfl_eqb k (ae_key a)) eqn:E; [|apply R4; exact Hb].
        apply gfl_eqb_eq in E. subst k. rewrite Hb in WT. cbn in WT. intros HH; inversion HH; subst.
        split; [exact WT | discriminate].
  - cbn [andb].
    assert (NB : is_bool_fluent P (fst (ae_key a)) = false).
    { destruct (is_bool_fluent P (fst (ae_key a))); [discriminate WT | reflexivity]. }
    destruct (owner (ae_key a) asg) as [ow|] eqn:EO.
    + destruct (s (fst (ae_key a)) (snd (ae_key a))) as [cur0|]; [|reflexivity].
      destruct (match alookup (ae_key a) upd with Some u => u | None => cur0 end) as [|c|]; try reflexivity.
      destruct (delta_of a); reflexivity.
    + destruct (s (fst (ae_key a)) (snd (ae_key a))) as [cur0|]; [|reflexivity].
      destruct (match alookup (ae_key a) upd with Some u => u | None => cur0 end) as [|c|]; try reflexivity.
      destruct (delta_of a) as [d|]; [|reflexivity].
      eexists. split; [reflexivity|]. split; [|reflexivity].
      apply rel_cons_upd; [exact R | right; exact EO | intros Hb; congruence].
  - cbn [andb].
    assert (NB : is_bool_fluent P (fst (ae_key a)) = false).
    { destruct (is_bool_fluent P (fst (ae_key a))); [discriminate WT | reflexivity]. }
    destruct (owner (ae_key a) asg) as [ow|] eqn:EO.
    + destruct (s (fst (ae_key a)) (snd (ae_key a))) as [cur0|]; [|reflexivity].
      destruct (match alookup (ae_key a) upd with Some u => u | None => cur0 end) as [|c|]; try reflexivity.
      destruct (delta_of a); reflexivity.
    + destruct (s (fst (ae_key a)) (snd (ae_key a))) as [cur0|]; [|reflexivity].
      destruct (match alookup (ae_key a) upd with Some u => u | None => cur0 end) as [|c|]; try reflexivity.
      destruct (delta_of a) as [d|]; [|reflexivity].
      eexists. split; [reflexivity|]. split; [|reflexivity].
      apply rel_cons_upd; [exact R | right; exact EO | intros Hb; congruence].
Qed.

Lemma rel_init P : rel P ([], []) ([], []).
Proof. split; [|split; [|split]]; cbn; intros; try reflexivity; discriminate. Qed.

Lemma tt_loop_sim P s l : forallb (wt_aeff P) (map snd l) = true -> forall st ss, rel P st ss ->
  match sim_loop P s ss (map snd l) with
  | None => tt_loop P s st l = None
  | Some ss' => if src_ok (snd st) l then exists st', tt_loop P s st l = Some st' /\ rel P st' ss'
                else tt_loop P s st l = None
  end.
Proof.
  induction l as [|x l IH]; intros WT st ss R.
  - cbn. exists st. split; [reflexivity | exact R].
  - cbn [map forallb] in WT. apply andb_true_iff in WT. destruct WT as [WT1 WT2].
    cbn [map sim_loop tt_loop]. pose proof (tt_step_sim P s st ss x R WT1) as ST.
    destruct (sim_step P s ss (snd x)) as [ss1|]; [|rewrite ST; reflexivity].
    unfold conflict in ST. destruct x as [ai a]. cbn [fst snd] in *. cbn [src_ok].
    destruct (is_assign a) eqn:EA; cbn [andb] in ST.
    + destruct (owner (ae_key a) (snd st)) as [ow|] eqn:EO.
      * destruct (src_eqb ow ai) eqn:ES; cbn [negb andb] in *.
        -- destruct ST as [st1 [E1 [R1 N1]]]. rewrite E1. unfold next_asg in N1. cbn [fst snd] in N1. rewrite EA, EO in N1.
           specialize (IH WT2 st1 ss1 R1). rewrite N1 in IH. exact IH.
        -- rewrite ST. destruct (sim_loop P s ss1 (map snd l)); reflexivity.
      * destruct ST as [st1 [E1 [R1 N1]]]. rewrite E1. unfold next_asg in N1. cbn [fst snd] in N1. rewrite EA, EO in N1.
        specialize (IH WT2 st1 ss1 R1). rewrite N1 in IH. exact IH.
    + destruct ST as [st1 [E1 [R1 N1]]]. rewrite E1. unfold next_asg in N1. cbn [fst snd] in N1. rewrite EA in N1.
      specialize (IH WT2 st1 ss1 R1). rewrite N1 in IH. exact IH.
Qed.

Lemma assigners_nonempty k l : assigners k l <> [] -> exists x, In x l /\ ae_key (snd x) = k.
Proof.
  unfold assigners. induction l as [|x l IH]; cbn; [intros H; contradiction|].
  destruct (gfl_eqb (ae_key (snd x)) k && is_assign (snd x)) eqn:E.
  - intros _. exists x. split; [left; reflexivity|]. apply andb_true_iff in E. apply gfl_eqb_eq, E.
  - intros H. destruct (IH H) as [y [Hy Ey]]. exists y. split; [right; exact Hy | exact Ey].
Qed.

(* third core lemma: the loop of _apply_effects succeeds exactly when the joint application of the instant's effects
   has no conflict, and then make_child(updates) is the jointly specified successor, fluent by fluent *)
Theorem apply_effects_joint P s l : forallb (wt_aeff P) (map snd l) = true ->
  match tt_loop P s ([], []) l with
  | Some (upd, _) => joint_ok P s l = true /\ forall f args, apply_upd s upd f args = joint_succ P s l f args
  | None => joint_ok P s l = false
  end.
Proof.
  intros WT. pose proof (tt_loop_sim P s l WT ([], []) ([], []) (rel_init P)) as L.
  pose proof (sim_loop_spec P s (map snd l) WT) as SP.
  destruct (sim_loop P s ([], []) (map snd l)) as [[upd_s asg_s]|].
  - destruct SP as [SP1 SP2]. cbn [snd] in L. destruct (src_ok [] l) eqn:SO.
    + destruct L as [[upd asg] [E [R _]]]. rewrite E. pose proof (proj1 (src_ok_nil l) SO) as SO2. clear SO. rename SO2 into SO.
      assert (JF : forall k, joint_fluent P s l k = spec_fluent P s (map snd l) k).
      { intros k. unfold joint_fluent. rewrite SO. reflexivity. }
      split.
      * unfold joint_ok. apply forallb_forall. intros x Hx. rewrite JF.
        unfold spec_effects_ok in SP1. rewrite forallb_forall in SP1. apply (SP1 (snd x)). apply in_map, Hx.
      * intros f args. transitivity (spec_succ P s (map snd l) f args).
        -- rewrite <- (SP2 f args). unfold apply_upd. cbn [fst] in R. rewrite (R (f, args)). reflexivity.
        -- unfold joint_succ, spec_succ. rewrite JF. reflexivity.
    + rewrite L. destruct (forallb (fun k => one_source (assigners k l)) (map (fun x => ae_key (snd x)) l)) eqn:A.
      * exfalso. assert (SO' : src_ok [] l = true); [|congruence].
        apply src_ok_nil. intros k. destruct (assigners k l) as [|a0 r] eqn:EA; [reflexivity|].
        destruct (assigners_nonempty k l) as [x [Hx Ek]]; [rewrite EA; discriminate|].
        rewrite forallb_forall in A. rewrite <- EA, <- Ek. apply A. apply in_map_iff. exists x. auto.
      * unfold joint_ok. apply not_true_is_false. intros J. rewrite forallb_forall in J.
        assert (A' : forallb (fun k => one_source (assigners k l)) (map (fun x => ae_key (snd x)) l) = true); [|congruence].
        apply forallb_forall. intros k Hk. apply in_map_iff in Hk. destruct Hk as [x [<- Hx]].
        specialize (J x Hx). unfold joint_fluent in J. destruct (one_source (assigners (ae_key (snd x)) l)); [reflexivity | discriminate].
  - rewrite L. unfold joint_ok. apply not_true_is_false. intros J. rewrite forallb_forall in J.
    unfold spec_effects_ok in SP. assert (SP' : forallb (fun a => match spec_fluent P s (map snd l) (ae_key a) with CFail => false | _ => true end) (map snd l) = true); [|congruence].
    apply forallb_forall. intros a Ha. apply in_map_iff in Ha. destruct Ha as [x [<- Hx]]. specialize (J x Hx).
    unfold joint_fluent in J. destruct (one_source (assigners (ae_key (snd x)) l)); [exact J | discriminate].
Qed.

(* ------------------------------------------------------------------ order independence *)
Lemma Permutation_filter' {A} (f : A -> bool) l l' : Permutation l l' -> Permutation (filter f l) (filter f l').
Proof.
  induction 1 as [|x l l' _ IH|x y l|l l' l'' _ IH1 _ IH2]; cbn.
  - constructor.
  - destruct (f x); [constructor|]; exact IH.
  - destruct (f x), (f y); try apply Permutation_refl. apply perm_swap.
  - eapply Permutation_trans; eassumption.
Qed.

Lemma forallb_perm {A} (f : A -> bool) l l' : Permutation l l' -> forallb f l = forallb f l'.
Proof.
  induction 1 as [|x l l' _ IH|x y l|l l' l'' _ IH1 _ IH2]; cbn.
  - reflexivity.
  - rewrite IH; reflexivity.
  - destruct (f x), (f y); reflexivity.
  - congruence.
Qed.

Lemma forallb_ext' {A} (f g : A -> bool) l : (forall x, f x = g x) -> forallb f l = forallb g l.
Proof. intros H. induction l as [|x l IH]; cbn; [reflexivity|]. rewrite H, IH. reflexivity. Qed.

Lemma existsb_perm {A} (f : A -> bool) l l' : Permutation l l' -> existsb f l = existsb f l'.
Proof.
  induction 1 as [|x l l' _ IH|x y l|l l' l'' _ IH1 _ IH2]; cbn.
  - reflexivity.
  - rewrite IH; reflexivity.
  - destruct (f x), (f y); reflexivity.
  - congruence.
Qed.

Lemma sum_deltas_perm D D' : Permutation D D' -> forall c, sum_deltas c D = sum_deltas c D'.
Proof.
  induction 1 as [|x l l' _ IH|x y l|l l' l'' _ IH1 _ IH2]; intros c.
  - reflexivity.
  - destruct x as [d|]; unfold sum_deltas; fold sum_deltas; [apply IH | reflexivity].
  - destruct x as [d|], y as [e|]; unfold sum_deltas; fold sum_deltas; try reflexivity.
    replace (Qcplus (Qcplus c e) d) with (Qcplus (Qcplus c d) e) by ring. reflexivity.
  - rewrite IH1. apply IH2.
Qed.

Lemma all_eq_spec (a : value) rest : forallb (value_eqb a) rest = true <-> forall y, In y rest -> y = a.
Proof.
  rewrite forallb_forall. split; intros H y Hy.
  - symmetry. apply value_eqb_eq, H, Hy.
  - apply value_eqb_eq. symmetry. apply H, Hy.
Qed.

Lemma combine_perm isb old A A' D D' :
  Permutation A A' -> Permutation D D' -> combine isb old A D = combine isb old A' D'.
Proof.
  intros PA PD.
  destruct A as [|a rest], A' as [|a' rest'];
    try (apply Permutation_nil in PA; discriminate);
    try (apply Permutation_sym, Permutation_nil in PA; discriminate).
  - destruct D as [|d D0], D' as [|d' D0'];
      try (apply Permutation_nil in PD; discriminate);
      try (apply Permutation_sym, Permutation_nil in PD; discriminate); [reflexivity|].
    unfold combine. destruct old as [[b|c|o]|]; try reflexivity.
    rewrite (sum_deltas_perm _ _ PD c). reflexivity.
  - destruct D as [|d D0], D' as [|d' D0'];
      try (apply Permutation_nil in PD; discriminate);
      try (apply Permutation_sym, Permutation_nil in PD; discriminate); [|reflexivity].
    unfold combine. destruct isb.
    + rewrite (existsb_perm is_vtrue _ _ PA). reflexivity.
    + destruct (forallb (value_eqb a) rest) eqn:E1, (forallb (value_eqb a') rest') eqn:E2.
      * pose proof (proj1 (all_eq_spec _ _) E1) as E1'; clear E1; rename E1' into E1. f_equal.
        assert (In a' (a :: rest)) by (apply (Permutation_in a' (Permutation_sym PA)); left; reflexivity).
        destruct H as [H|H]; [exact H | symmetry; apply E1, H].
      * exfalso. pose proof (proj1 (all_eq_spec _ _) E1) as E1'; clear E1; rename E1' into E1. assert (forallb (value_eqb a') rest' = true); [|congruence].
        apply all_eq_spec. intros y Hy.
        assert (Ya : y = a).
        { assert (In y (a :: rest)) by (apply (Permutation_in y (Permutation_sym PA)); right; exact Hy).
          destruct H as [H|H]; [symmetry; exact H | apply E1, H]. }
        assert (Aa : a' = a).
        { assert (In a' (a :: rest)) by (apply (Permutation_in a' (Permutation_sym PA)); left; reflexivity).
          destruct H as [H|H]; [symmetry; exact H | apply E1, H]. }
        congruence.
      * exfalso. pose proof (proj1 (all_eq_spec _ _) E2) as E2'; clear E2; rename E2' into E2. assert (forallb (value_eqb a) rest = true); [|congruence].
        apply all_eq_spec. intros y Hy.
        assert (Ya : y = a').
        { assert (In y (a' :: rest')) by (apply (Permutation_in y PA); right; exact Hy).
          destruct H as [H|H]; [symmetry; exact H | apply E2, H]. }
        assert (Aa : a = a').
        { assert (In a (a' :: rest')) by (apply (Permutation_in a PA); left; reflexivity).
          destruct H as [H|H]; [symmetry; exact H | apply E2, H]. }
        congruence.
      * reflexivity.
Qed.

Lemma one_source_spec srcs : one_source srcs = true <-> forall x y, In x srcs -> In y srcs -> x = y.
Proof.
  destruct srcs as [|a r]; cbn [one_source]; [split; [intros _ x y [] | reflexivity]|].
  rewrite forallb_forall. split.
  - intros H x y Hx Hy.
    assert (E : forall z, In z (a :: r) -> z = a).
    { intros z [<-|Hz]; [reflexivity | symmetry; apply src_eqb_eq, H, Hz]. }
    rewrite (E x Hx), (E y Hy). reflexivity.
  - intros H x Hx. apply src_eqb_eq. apply H; [left; reflexivity | right; exact Hx].
Qed.

Lemma one_source_perm a b : Permutation a b -> one_source a = one_source b.
Proof.
  intros PM. destruct (one_source a) eqn:E1, (one_source b) eqn:E2; try reflexivity; exfalso.
  - assert (one_source b = true); [|congruence]. apply one_source_spec. pose proof (proj1 (one_source_spec _) E1) as E1'; clear E1; rename E1' into E1.
    intros x y Hx Hy. apply E1; apply (Permutation_in _ (Permutation_sym PM)); assumption.
  - assert (one_source a = true); [|congruence]. apply one_source_spec. pose proof (proj1 (one_source_spec _) E2) as E2'; clear E2; rename E2' into E2.
    intros x y Hx Hy. apply E2; apply (Permutation_in _ PM); assumption.
Qed.

Lemma joint_fluent_perm P s l l' k : Permutation l l' -> joint_fluent P s l k = joint_fluent P s l' k.
Proof.
  intros PM. unfold joint_fluent, assigners, spec_fluent, avals, deltas.
  rewrite (one_source_perm _ _ (Permutation_map fst (Permutation_filter' _ _ _ PM))).
  destruct (one_source _); [|reflexivity].
  apply combine_perm; apply Permutation_map, Permutation_filter', Permutation_map, PM.
Qed.

Lemma joint_ok_perm P s l l' : Permutation l l' -> joint_ok P s l = joint_ok P s l'.
Proof.
  intros PM. unfold joint_ok. rewrite (forallb_perm _ _ _ PM).
  apply forallb_ext'. intros x. rewrite (joint_fluent_perm P s l l' _ PM). reflexivity.
Qed.

Lemma joint_succ_perm P s l l' : Permutation l l' -> forall f a, joint_succ P s l f a = joint_succ P s l' f a.
Proof. intros PM f a. unfold joint_succ. rewrite (joint_fluent_perm P s l l' _ PM). reflexivity. Qed.

Lemma fire_events_perm sc P s evs evs' : Permutation evs evs' ->
  match fire_events sc P s evs, fire_events sc P s evs' with
  | Some l, Some l' => Permutation l l'
  | None, None => True
  | _, _ => False
  end.
Proof.
  induction 1 as [|x l l' _ IH|x y l|l l' l'' _ IH1 _ IH2]; cbn [fire_events].
  - constructor.
  - destruct (fired sc (mk_interp P s (ev_bind x)) (ev_effs x)) as [fx|];
      destruct (fire_events sc P s l), (fire_events sc P s l'); try contradiction; try exact I.
    apply Permutation_app_head, IH.
  - destruct (fired sc (mk_interp P s (ev_bind x)) (ev_effs x)) as [fx|],
             (fired sc (mk_interp P s (ev_bind y)) (ev_effs y)) as [fy|],
             (fire_events sc P s l) as [r|]; try exact I.
    rewrite !app_assoc. apply Permutation_app_tail, Permutation_app_comm.
  - destruct (fire_events sc P s l), (fire_events sc P s l'), (fire_events sc P s l''); try contradiction; try exact I.
    eapply Permutation_trans; eassumption.
Qed.

Lemma ref_apply_perm sc P s evs evs' : Permutation evs evs' ->
  ostate_eq (ref_apply sc P s evs) (ref_apply sc P s evs').
Proof.
  intros PM. unfold ref_apply. pose proof (fire_events_perm sc P s evs evs' PM) as F.
  destruct (fire_events sc P s evs) as [l|], (fire_events sc P s evs') as [l'|]; try contradiction; [|exact I].
  rewrite (joint_ok_perm P s l l' F). destruct (joint_ok P s l'); [|exact I].
  intros f a. apply joint_succ_perm, F.
Qed.

(* ------------------------------------------------------------------ extensionality in the state *)
Lemma fire_events_ext sc P s t evs : state_eq s t -> fire_events sc P s evs = fire_events sc P t evs.
Proof.
  intros H. induction evs as [|e evs IH]; [reflexivity|]. cbn [fire_events].
  rewrite (fired_ext sc (ev_effs e) _ _ (mk_interp_ext P s t (ev_bind e) H)), IH. reflexivity.
Qed.

Lemma joint_fluent_ext P s t l k : state_eq s t -> joint_fluent P s l k = joint_fluent P t l k.
Proof. intros H. unfold joint_fluent, spec_fluent. rewrite (H (fst k) (snd k)). reflexivity. Qed.

Lemma ref_apply_ext sc P s t evs : state_eq s t -> ostate_eq (ref_apply sc P s evs) (ref_apply sc P t evs).
Proof.
  intros H. unfold ref_apply. rewrite (fire_events_ext sc P s t evs H).
  destruct (fire_events sc P t evs) as [l|]; [|exact I].
  assert (E : joint_ok P s l = joint_ok P t l).
  { unfold joint_ok. apply forallb_ext'. intros x. rewrite (joint_fluent_ext P s t l _ H). reflexivity. }
  rewrite E. destruct (joint_ok P t l); [|exact I].
  intros f a. unfold joint_succ. rewrite (joint_fluent_ext P s t l _ H), (H f a). reflexivity.
Qed.

Lemma tt_step_ext P s t st x : state_eq s t -> tt_step P s st x = tt_step P t st x.
Proof.
  intros H. unfold tt_step. destruct st as [upd asg], x as [ai a].
  rewrite (H (fst (ae_key a)) (snd (ae_key a))). reflexivity.
Qed.

Lemma tt_loop_ext P s t l : state_eq s t -> forall st, tt_loop P s st l = tt_loop P t st l.
Proof.
  intros H. induction l as [|x l IH]; intros st; [reflexivity|]. cbn [tt_loop].
  rewrite (tt_step_ext P s t st x H). destruct (tt_step P t st x); [apply IH | reflexivity].
Qed.

Lemma tt_apply_effects_ext sc P s t g : state_eq s t ->
  ostate_eq (tt_apply_effects sc P s g) (tt_apply_effects sc P t g).
Proof.
  intros H. unfold tt_apply_effects. rewrite (fire_events_ext sc P s t g H).
  destruct (fire_events sc P t g) as [l|]; [|exact I].
  rewrite (tt_loop_ext P s t l H). destruct (tt_loop P t ([], []) l) as [[upd asg]|]; [|exact I].
  apply apply_upd_ext, H.
Qed.

(* ------------------------------------------------------------------ typing of the events, and the step theorem *)
Definition event_typed (sc : bool) (P : problem) (e : event) : Prop :=
  forall s acts, fired sc (mk_interp P s (ev_bind e)) (ev_effs e) = Some acts -> forallb (wt_aeff P) acts = true.

Lemma fire_events_typed sc P s evs l :
  (forall e, In e evs -> event_typed sc P e) -> fire_events sc P s evs = Some l ->
  forallb (wt_aeff P) (map snd l) = true.
Proof.
  revert l. induction evs as [|e evs IH]; intros l HT E.
  - inversion E; reflexivity.
  - cbn [fire_events] in E.
    destruct (fired sc (mk_interp P s (ev_bind e)) (ev_effs e)) as [fe|] eqn:EF; [|discriminate].
    destruct (fire_events sc P s evs) as [r|]; [|discriminate]. inversion E; subst.
    rewrite map_app, forallb_app, map_map. cbn [snd]. rewrite map_id.
    rewrite (HT e (or_introl eq_refl) s fe EF). apply IH; [|reflexivity]. intros e' He'. apply HT. right. exact He'.
Qed.

(* the model's application of a group of simultaneous effects is the reference joint application *)
Theorem tt_apply_effects_ref sc P s g :
  (forall e, In e g -> event_typed sc P e) ->
  ostate_eq (tt_apply_effects sc P s g) (ref_apply sc P s g).
Proof.
  intros HT. unfold tt_apply_effects, ref_apply.
  destruct (fire_events sc P s g) as [l|] eqn:EF; [|exact I].
  pose proof (apply_effects_joint P s l (fire_events_typed sc P s g l HT EF)) as J.
  destruct (tt_loop P s ([], []) l) as [[upd asg]|].
  - destruct J as [J1 J2]. rewrite J1. intros f a. apply J2.
  - rewrite J. exact I.
Qed.

(* what a conflict at one instant is, per ground fluent *)
Definition base_num (old : option value) (D : list (option Qc)) : Prop :=
  match old with Some (VNum c) => sum_deltas c D <> None | _ => False end.

Lemma combine_fail_iff isb old A D :
  combine isb old A D = CFail <->
  (A <> [] /\ D <> []) \/
  (isb = false /\ D = [] /\ exists a b, In a A /\ In b A /\ a <> b) \/
  (A = [] /\ D <> [] /\ ~ base_num old D).
Proof.
  destruct A as [|a rest], D as [|d D0]; cbn [combine].
  - split; [discriminate|]. intros [[H _]|[[_ [_ [x [y [[] _]]]]]|[_ [H _]]]]; contradiction.
  - split.
    + intros H. right; right. split; [reflexivity|]. split; [discriminate|]. unfold base_num.
      destruct old as [[b|c|o]|]; try tauto. destruct (sum_deltas c (d :: D0)); [discriminate | tauto].
    + intros [[H _]|[[_ [H _]]|[_ [_ H]]]]; [contradiction | discriminate|]. unfold base_num in H.
      destruct old as [[b|c|o]|]; try reflexivity. destruct (sum_deltas c (d :: D0)); [|reflexivity].
      exfalso. apply H. discriminate.
  - destruct isb.
    + split; [discriminate|]. intros [[_ H]|[[H _]|[H _]]]; [contradiction | discriminate | discriminate].
    + destruct (forallb (value_eqb a) rest) eqn:E.
      * split; [discriminate|]. intros [[_ H]|[[_ [_ [x [y [Hx [Hy N]]]]]]|[H _]]]; [contradiction| |discriminate].
        exfalso. apply N. pose proof (proj1 (all_eq_spec a rest) E) as AE.
        assert (G : forall z, In z (a :: rest) -> z = a) by (intros z [<-|Hz]; [reflexivity | apply AE, Hz]).
        rewrite (G x Hx), (G y Hy). reflexivity.
      * split; [|reflexivity]. intros _. right; left. split; [reflexivity|]. split; [reflexivity|].
        assert (N : ~ forall y, In y rest -> y = a) by (intros HH; apply all_eq_spec in HH; congruence).
        assert (EX : exists y, In y rest /\ y <> a).
        { clear E. induction rest as [|z rest IH]; [exfalso; apply N; intros y []|].
          destruct (value_eqb z a) eqn:EZ.
          - apply value_eqb_eq in EZ. subst z. destruct IH as [y [Hy Ny]].
            + intros HH. apply N. intros y [<-|Hy]; [reflexivity | apply HH, Hy].
            + exists y. split; [right; exact Hy | exact Ny].
          - exists z. split; [left; reflexivity|]. intros ->. rewrite value_eqb_refl in EZ. discriminate. }
        destruct EX as [y [Hy Ny]]. exists y, a. split; [right; exact Hy|]. split; [left; reflexivity | exact Ny].
  - split; [|reflexivity]. intros _. left. split; discriminate.
Qed.

(* conflicts of the joint application: two different sources assign the fluent, or Sem.v's combination fails
   (assignment together with increase/decrease, two different values of a non-Boolean fluent, or an increase /
   decrease that has no numeric value to work on) *)
Theorem joint_conflict_iff P s l k :
  joint_fluent P s l k = CFail <->
  (exists x y, In x (assigners k l) /\ In y (assigners k l) /\ x <> y) \/
  (avals k (map snd l) <> [] /\ deltas k (map snd l) <> []) \/
  (is_bool_fluent P (fst k) = false /\ deltas k (map snd l) = [] /\
     exists a b, In a (avals k (map snd l)) /\ In b (avals k (map snd l)) /\ a <> b) \/
  (avals k (map snd l) = [] /\ deltas k (map snd l) <> [] /\ ~ base_num (s (fst k) (snd k)) (deltas k (map snd l))).
Proof.
  unfold joint_fluent. destruct (one_source (assigners k l)) eqn:E.
  - unfold spec_fluent. rewrite combine_fail_iff. split.
    + intros H. right. exact H.
    + intros [[x [y [Hx [Hy N]]]]|H]; [|exact H]. exfalso. apply N. apply (proj1 (one_source_spec _) E); assumption.
  - split; [|reflexivity]. intros _. left.
    destruct (assigners k l) as [|a r] eqn:EA; [discriminate|]. cbn in E.
    assert (EX : exists y, In y r /\ y <> a).
    { clear EA. induction r as [|z r IH]; [discriminate|]. cbn in E. destruct (src_eqb a z) eqn:EZ.
      - destruct (IH E) as [y [Hy Ny]]. exists y. split; [right; exact Hy | exact Ny].
      - exists z. split; [left; reflexivity|]. intros ->. rewrite src_eqb_refl in EZ. discriminate. }
    destruct EX as [y [Hy Ny]]. exists y, a. split; [right; exact Hy|]. split; [left; reflexivity | exact Ny].
Qed.
