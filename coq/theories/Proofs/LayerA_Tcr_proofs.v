(* C06 / C07, Layer A — TrajectoryConstraintsRemover: proofs about Compilers/LayerA_Tcr.v.
   PART 1  the abstract monitor the compilation implements (one Boolean per constraint = the monitoring atom, a check
           per step = the added precondition, an update per step = the added conditional effects, refusal in the
           initial state, landmark goal) decides SimCheck.traj_holds on every non-empty state sequence, for all five
           PDDL3 operators ([mverdict_spec]).
   PART 2  the REGRESSION lemma ([regress_eval], [regression_step]): for a ground action that is applicable in s, the
           regressed formula has in s the value the formula has in the successor state.  Route: [gamma_B] (what _gamma
           evaluates to: some effect on this fluent expression fires with the polarity of the literal),
           [fired_ground] / [succ_bool_fluent] (what the documented step does to one ground Boolean fluent: add-after-
           delete = the disjunction of the fired values), [regress_fluent], induction on the formula.
   PART 3  plan level for `always` constraints ([tcr_always_plan]): the compiled action's added preconditions hold before a
           step iff every always body holds after it ([added_iff_AH], from the regression lemma [K1], the `R == phi`
           shortcut and the relevance filter [K2] / [regress_irrelevant]); the compiled step is the original step
           guarded by that ([step_compiled]); induction on the plan ([run_compiled]); the rebuilt goal ([goals_same]).
   PART 4  plan level for ONE `sometime phi` ([tcr_sometime_plan]): frame lemmas of LayerA_DcrGoal_proofs (expressions that do
           not mention the monitoring fluent fk do not see it) + steps that fire no effect on fk ([step_with]); what the
           compiler adds to an action ([tcr_action_sometime]); one step ([step_sometime]: states agree off fk, fk' = fk or
           phi after the step); runs ([run_sometime]); goal ([goals_sometime]); initial state ([tcr_init_sometime]).
   PART 5  plan level for ONE `at-most-once phi` ([tcr_amo_plan]): [step_with2] (a compiled step with an extra precondition of
           value X and an extra effect on fk), [tcr_action_amo], [step_amo] (the added precondition evaluates to the
           at-most-once check of the step), [run_amo], [goals_amo], [tcr_init_amo].
   PART 6  plan level for ONE `sometime-before phi psi` ([tcr_sb_plan]): same skeleton with two regressed formulas
           ([tcr_action_sb], [step_sb], [run_sb], [goals_sb]).
   PART 7  steps with SEVERAL extra effects on fk ([step_withL], [fired_meffs], [bs_of]).
   PART 8  plan level for ONE `sometime-after phi psi` ([tcr_sa_plan]): [tcr_action_sa] (the added effects as a list of
           (condition, value) pairs), [step_sa] (their fired assignments implement the monitor update), [run_sa], [goals_sa]. *)
From Coq Require Import List ZArith NArith QArith Qcanon Bool Lia.
Import ListNotations.
Require Import UPV.Core.Expr UPV.Core.Eval UPV.Core.Interp UPV.Planning.Problem UPV.Planning.Sem.
Require Import UPV.Proofs.Eval_lemmas UPV.Proofs.Sem_proofs UPV.Proofs.Step_proofs.
Require Import UPV.Compilers.Variants UPV.Compilers.LayerA_Defs UPV.Compilers.LayerA_Quant.
Require Import UPV.Compilers.SimCheck UPV.Compilers.LayerA_Tcr.
Require Import UPV.Compilers.LayerA_Inv UPV.Proofs.LayerA_base UPV.Proofs.LayerA_Quant_proofs UPV.Proofs.LayerA_Inv_proofs.
Require Import UPV.Compilers.LayerA_DcrGoal UPV.Proofs.LayerA_DcrGoal_proofs.
Local Open Scope nat_scope.

(* ================================================================== PART 1: the abstract monitor decides PDDL3 *)
Section MonitorProofs.
  Context {A : Type}.
  Variable sat : A -> expr -> bool.

  (* SimCheck.traj_holds with the satisfaction relation abstracted *)
  Definition th (sts : list A) (c : expr) : bool :=
    match c with
    | EBool true => true
    | EAlways e => forallb (fun s => sat s e) sts
    | ESometime e => existsb (fun s => sat s e) sts
    | EAtMostOnce e => mon_amo (fun s => sat s e) sts
    | ESometimeBefore a b => mon_sb (fun s => sat s a) (fun s => sat s b) false sts
    | ESometimeAfter a b => mon_sa (fun s => sat s a) (fun s => sat s b) sts
    | _ => false
    end.

  Lemma mrun_always e : forall l ok m s,
    mrun sat (EAlways e) ok m s l = (ok && forallb (fun x => sat x e) l, m).
  Proof.
    induction l as [|t r IH]; intros ok m s; cbn [mrun forallb]; [rewrite andb_true_r; reflexivity|].
    rewrite IH. cbn [chk upd]. rewrite andb_assoc. reflexivity.
  Qed.

  Lemma mrun_sometime e : forall l ok m s,
    mrun sat (ESometime e) ok m s l = (ok, m || existsb (fun x => sat x e) l).
  Proof.
    induction l as [|t r IH]; intros ok m s; cbn [mrun existsb]; [rewrite orb_false_r; reflexivity|].
    rewrite IH. cbn [chk upd]. rewrite andb_true_r, orb_assoc. reflexivity.
  Qed.

  Lemma mrun_sb a b : forall l ok m s,
    mrun sat (ESometimeBefore a b) ok m s l =
    (ok && mon_sb (fun x => sat x a) (fun x => sat x b) m l, m || existsb (fun x => sat x b) l).
  Proof.
    induction l as [|t r IH]; intros ok m s; cbn [mrun existsb mon_sb]; [rewrite andb_true_r, orb_false_r; reflexivity|].
    rewrite IH. cbn [chk upd]. rewrite orb_assoc. f_equal.
    destruct (sat t a), ok, m; cbn; reflexivity.
  Qed.

  Lemma mrun_amo e : forall l ok m s,
    mrun sat (EAtMostOnce e) ok m s l =
    (ok && (if m then (if sat s e then mon_amo_in (fun x => sat x e) l else forallb (fun x => negb (sat x e)) l)
            else mon_amo (fun x => sat x e) l),
     m || existsb (fun x => sat x e) l).
  Proof.
    induction l as [|t r IH]; intros ok m s; cbn [mrun existsb mon_amo mon_amo_in forallb].
    - rewrite orb_false_r. destruct m, (sat s e); rewrite andb_true_r; reflexivity.
    - rewrite IH. cbn [chk upd]. rewrite orb_assoc. f_equal.
      destruct m, (sat s e), (sat t e), ok; cbn; try reflexivity;
        destruct (mon_amo_in (fun x => sat x e) r), (forallb (fun x => negb (sat x e)) r); reflexivity.
  Qed.

  Lemma mrun_sa a b : forall l ok m s,
    mrun sat (ESometimeAfter a b) ok m s l =
    (ok, mon_sa (fun x => sat x a) (fun x => sat x b) l && (m || existsb (fun x => sat x b) l)).
  Proof.
    induction l as [|t r IH]; intros ok m s; cbn [mrun existsb mon_sa].
    - rewrite orb_false_r. reflexivity.
    - rewrite IH. cbn [chk upd]. rewrite andb_true_r. f_equal.
      destruct (sat t b), (sat t a), m; cbn;
        destruct (mon_sa (fun x => sat x a) (fun x => sat x b) r), (existsb (fun x => sat x b) r); reflexivity.
  Qed.

  Lemma mrun_other c : (forall m s t, chk sat c m s t = true) -> (forall m t, upd sat c m t = m) ->
    forall l ok m s, mrun sat c ok m s l = (ok, m).
  Proof.
    intros H1 H2. induction l as [|t r IH]; intros ok m s; cbn [mrun]; [reflexivity|].
    rewrite IH, H1, H2, andb_true_r. reflexivity.
  Qed.

  (* the compiled monitor (refusal in the initial state, added preconditions, monitoring atom, added goal) accepts a
     non-empty state sequence iff the PDDL3 constraint holds on it *)
  Theorem mverdict_spec c s r : mverdict sat c (s :: r) = th (s :: r) c.
  Proof.
    destruct c; unfold mverdict;
      try (rewrite mrun_other by (intros; reflexivity); cbn [safe0 is_landmark th andb]; reflexivity).
    - rewrite mrun_other by (intros; reflexivity). destruct b; reflexivity.
    - rewrite mrun_always. cbn [safe0 is_landmark th forallb]. rewrite andb_true_r. reflexivity.
    - rewrite mrun_sometime. cbn [safe0 mbit0 is_landmark th existsb andb]. reflexivity.
    - rewrite mrun_sb. cbn [safe0 mbit0 is_landmark th mon_sb]. rewrite andb_true_r.
      destruct (sat s c1); cbn [negb andb]; [reflexivity|]. cbn [orb]. reflexivity.
    - rewrite mrun_sa. cbn [safe0 mbit0 is_landmark th mon_sa andb existsb].
      destruct (sat s c1), (sat s c2); cbn;
        destruct (mon_sa (fun x => sat x c1) (fun x => sat x c2) r), (existsb (fun x => sat x c2) r); reflexivity.
    - rewrite mrun_amo. cbn [safe0 mbit0 is_landmark th mon_amo andb]. rewrite andb_true_r.
      destruct (sat s c); reflexivity.
  Qed.

  Lemma last_cons_indep (a : A) r d1 d2 : last (a :: r) d1 = last (a :: r) d2.
  Proof. revert a. induction r as [|b r IH]; intros a; [reflexivity|]. cbn [last] in *. apply IH. Qed.

  (* prefix facts used by the step-level proofs: what the monitor state says about the last state *)
  Lemma mrun_app c : forall l1 l2 ok m s,
    mrun sat c ok m s (l1 ++ l2) =
    let '(ok1, m1) := mrun sat c ok m s l1 in mrun sat c ok1 m1 (last l1 s) l2.
  Proof.
    induction l1 as [|t r IH]; intros l2 ok m s; [reflexivity|].
    cbn [app mrun]. rewrite IH. destruct (mrun sat c (ok && chk sat c m s t) (upd sat c m t) t r) as [ok1 m1].
    destruct r as [|a r]; [reflexivity|]. rewrite (last_cons_indep a r t s). reflexivity.
  Qed.
End MonitorProofs.

Lemma traj_holds_th T sts c : traj_holds T sts c = th (sat T) sts c.
Proof. destruct c; reflexivity. Qed.

(* ================================================================== PART 2: the regression lemma *)
(* [B I e b]: the expression evaluates (strictly) to the Boolean b *)
Definition B (I : interp) (e : expr) (b : bool) : Prop := eval false e I = Some (VBool b).

Lemma isB_B I e : isB I e = true -> B I e (holds false I e).
Proof. unfold isB, B, holds. destruct (eval false e I) as [[[|]| |]|]; try discriminate; reflexivity. Qed.

Lemma B_holds I e b : B I e b -> holds false I e = b.
Proof. unfold B, holds. intros ->. destruct b; reflexivity. Qed.

Lemma B_isB I e b : B I e b -> isB I e = true.
Proof. unfold B, isB. intros ->. reflexivity. Qed.

Lemma B_fun I e b1 b2 : B I e b1 -> B I e b2 -> b1 = b2.
Proof. unfold B. intros H1 H2. rewrite H1 in H2. inversion H2. reflexivity. Qed.

Lemma B_ebools I l bs : Forall2 (B I) l bs -> ebools false I l = Some bs.
Proof.
  induction 1 as [|x b l bs Hx _ IH]; [reflexivity|]. cbn [ebools]. unfold B in Hx. rewrite Hx, IH. reflexivity.
Qed.

Lemma B_EAnd I l bs : Forall2 (B I) l bs -> B I (EAnd l) (forallb (fun b => b) bs).
Proof. intros H. unfold B. rewrite eval_EAnd, (B_ebools I l bs H). reflexivity. Qed.
Lemma B_EOr I l bs : Forall2 (B I) l bs -> B I (EOr l) (existsb (fun b => b) bs).
Proof. intros H. unfold B. rewrite eval_EOr, (B_ebools I l bs H). reflexivity. Qed.

Lemma B_mkAnd I l bs : Forall2 (B I) l bs -> B I (mkAnd l) (forallb (fun b => b) bs).
Proof.
  intros H. destruct H as [|x b l bs Hx H]; [reflexivity|]. destruct H as [|y c l bs Hy H].
  - cbn. rewrite andb_true_r. exact Hx.
  - apply (B_EAnd I (x :: y :: l) (b :: c :: bs)). repeat constructor; assumption.
Qed.
Lemma B_mkOr I l bs : Forall2 (B I) l bs -> B I (mkOr l) (existsb (fun b => b) bs).
Proof.
  intros H. destruct H as [|x b l bs Hx H]; [reflexivity|]. destruct H as [|y c l bs Hy H].
  - cbn. rewrite orb_false_r. exact Hx.
  - apply (B_EOr I (x :: y :: l) (b :: c :: bs)). repeat constructor; assumption.
Qed.
Lemma B_ENot I e b : B I e b -> B I (ENot e) (negb b).
Proof. unfold B. intros H. rewrite eval_ENot, H. reflexivity. Qed.
Lemma B_mkNot I e b : B I e b -> B I (mkNot e) (negb b).
Proof.
  intros H. destruct e; try (apply B_ENot; exact H). cbn [mkNot]. unfold B in *. rewrite eval_ENot in H.
  destruct (eval false e I) as [[c| |]|]; try discriminate. cbn [as_bool] in H. inversion H. rewrite negb_involutive. reflexivity.
Qed.

Lemma Forall2_snoc {X Y} (R : X -> Y -> Prop) l bs x b : Forall2 R l bs -> R x b -> Forall2 R (l ++ [x]) (bs ++ [b]).
Proof. intros H1 H2. apply Forall2_app; [exact H1 | constructor; [exact H2 | constructor]]. Qed.

Lemma existsb_snoc {X} (p : X -> bool) l x : existsb p (l ++ [x]) = existsb p l || p x.
Proof. rewrite existsb_app. cbn. rewrite orb_false_r. reflexivity. Qed.

Section Gamma.
  Variable I : interp.
  Variables (f : N) (args : list expr).

  (* what one effect contributes to gamma(literal): it is on a Boolean fluent, on this very fluent expression, its
     condition holds and its value is the polarity of the literal *)
  Definition contrib (pos : bool) (e : effect) : bool :=
    e_isbool e && same_fluent f args e && holds false I (e_cond e) && Bool.eqb (holds false I (e_val e)) pos.

  Definition eff_def (e : effect) : Prop :=
    isB I (e_cond e) = true /\ (e_isbool e = true -> isB I (e_val e) = true).

  Lemma gamma_go_B pos : forall effs acc bs, Forall eff_def effs -> Forall2 (B I) acc bs ->
    B I (gamma_go f args pos effs acc) (existsb (fun b => b) bs || existsb (contrib pos) effs).
  Proof.
    induction effs as [|e r IH]; intros acc bs HF Hacc; cbn [gamma_go existsb].
    - rewrite orb_false_r. apply B_mkOr, Hacc.
    - inversion HF as [|? ? [Hc Hv] HF']; subst. unfold contrib at 1.
      destruct (e_isbool e) eqn:Eb; cbn [negb andb]; [|apply IH; assumption].
      specialize (Hv eq_refl). pose proof (isB_B _ _ Hc) as Bc. pose proof (isB_B _ _ Hv) as Bv.
      destruct (bconst (e_val e)) as [b|] eqn:Ec.
      + assert (Ev : e_val e = EBool b) by (destruct (e_val e); try discriminate; inversion Ec; reflexivity).
        assert (Hb : holds false I (e_val e) = b) by (rewrite Ev; destruct b; reflexivity).
        rewrite Hb. destruct (same_fluent f args e); cbn [andb]; [|apply IH; assumption].
        destruct (Bool.eqb b pos); cbn [andb]; [|rewrite andb_false_r; apply IH; assumption].
        rewrite andb_true_r.
        destruct (is_true (e_cond e)) eqn:Et.
        * rewrite (holds_true false I _ Et). cbn [orb]. rewrite orb_true_r. reflexivity.
        * pose proof (IH (acc ++ [e_cond e]) (bs ++ [holds false I (e_cond e)]) HF' (Forall2_snoc _ _ _ _ _ Hacc Bc)) as G.
          rewrite existsb_snoc, <- orb_assoc in G. exact G.
      + destruct (same_fluent f args e); cbn [andb]; [|apply IH; assumption].
        assert (Bx : B I (mkAnd [e_cond e; if pos then e_val e else mkNot (e_val e)])
                       (holds false I (e_cond e) && Bool.eqb (holds false I (e_val e)) pos)).
        { assert (By : B I (if pos then e_val e else mkNot (e_val e)) (Bool.eqb (holds false I (e_val e)) pos)).
          { destruct pos; [|apply B_mkNot in Bv]; destruct (holds false I (e_val e)); assumption. }
          pose proof (B_mkAnd I _ _ (Forall2_cons _ _ Bc (Forall2_cons _ _ By (Forall2_nil _)))) as G.
          cbn [forallb] in G. rewrite andb_true_r in G. exact G. }
        pose proof (IH _ _ HF' (Forall2_snoc _ _ _ _ _ Hacc Bx)) as G.
        rewrite existsb_snoc, <- orb_assoc in G. exact G.
  Qed.

  Lemma gamma_B pos effs : Forall eff_def effs -> B I (gamma f args pos effs) (existsb (contrib pos) effs).
  Proof. intros H. apply (gamma_go_B pos effs [] [] H (Forall2_nil _)). Qed.
End Gamma.

(* ------------------------------------------------------------------ ground arguments *)
Lemma evals_oargs sc I l : oargs l = true -> evals sc I l = Some (vals_of l).
Proof.
  induction l as [|x l IH]; intros H; [reflexivity|]. cbn [oargs forallb] in H. apply andb_true_iff in H. destruct H as [Hx Hl].
  cbn [evals vals_of map]. fold (vals_of l). rewrite (IH Hl). destruct x; try discriminate. reflexivity.
Qed.

Lemma evals_l_oargs sc I l : oargs l = true -> evals_l sc I l = Some (vals_of l).
Proof.
  induction l as [|x l IH]; intros H; [reflexivity|]. cbn [oargs forallb] in H. apply andb_true_iff in H. destruct H as [Hx Hl].
  cbn [evals_l vals_of map]. fold (vals_of l). rewrite (IH Hl). destruct x; try discriminate. reflexivity.
Qed.

Lemma oargs_eqb l1 : forall l2, oargs l1 = true -> oargs l2 = true ->
  list_expr_eqb l1 l2 = values_eqb (vals_of l1) (vals_of l2).
Proof.
  induction l1 as [|x l1 IH]; intros [|y l2] H1 H2; try reflexivity.
  cbn [oargs forallb] in H1, H2. apply andb_true_iff in H1. apply andb_true_iff in H2. destruct H1 as [Hx H1], H2 as [Hy H2].
  cbn [list_expr_eqb vals_of map values_eqb]. fold (vals_of l1). fold (vals_of l2). rewrite <- (IH l2 H1 H2).
  destruct x; try discriminate. destruct y; try discriminate. reflexivity.
Qed.

Lemma avals_cons k x l :
  avals k (x :: l) = if gfl_eqb (ae_key x) k && is_assign x then ae_val x :: avals k l else avals k l.
Proof. unfold avals. cbn [filter]. destruct (gfl_eqb (ae_key x) k && is_assign x); reflexivity. Qed.
Lemma deltas_cons k x l :
  deltas k (x :: l) = if gfl_eqb (ae_key x) k && negb (is_assign x) then delta_of x :: deltas k l else deltas k l.
Proof. unfold deltas. cbn [filter]. destruct (gfl_eqb (ae_key x) k && negb (is_assign x)); reflexivity. Qed.

(* ------------------------------------------------------------------ the successor of a ground action on a Boolean fluent *)
Section GroundStep.
  Variable P : problem.
  Variable s : state.
  Let I := mk_interp P s [].
  Variables (f : N) (vs : list value).
  Hypothesis Hf : is_bool_fluent P f = true.

  Definition fires (e : effect) : bool :=
    holds false I (e_cond e) && (e_fl e =? f)%N && values_eqb (vals_of (e_args e)) vs.

  Definition eff_ok (e : effect) : Prop := geffect P e = true /\ eff_def I e.

  Lemma geffect_split e : geffect P e = true ->
    e_vars e = [] /\ oargs (e_args e) = true /\ e_isbool e = is_bool_fluent P (e_fl e) /\
    (e_isbool e = true -> e_kind e = KAssign).
  Proof.
    unfold geffect. intros H. repeat (apply andb_true_iff in H; destruct H as [H ?]).
    repeat split.
    - destruct (e_vars e); [reflexivity | discriminate].
    - assumption.
    - apply eqb_prop. assumption.
    - intros Hb. rewrite Hb in *. cbn in *. unfold is_kassign in *. destruct (e_kind e); try discriminate; reflexivity.
  Qed.

  Lemma fired_ground : forall effs acts, Forall eff_ok effs -> fired false I effs = Some acts ->
    avals (f, vs) acts = map (fun e => VBool (holds false I (e_val e))) (filter fires effs) /\
    deltas (f, vs) acts = [].
  Proof.
    induction effs as [|e r IH]; intros acts HF Hfi.
    - cbn in Hfi. inversion Hfi. split; reflexivity.
    - inversion HF as [|? ? [Hg [Hc Hv]] HF']; subst.
      destruct (geffect_split e Hg) as (Ev & Ea & Eb & Ek).
      unfold fired in Hfi. cbn [flat_map] in Hfi. rewrite Ev in Hfi. cbn [instances map app] in Hfi.
      fold (fired false I r) in Hfi. unfold eval_effect in Hfi at 1. rewrite (evals_l_oargs false I _ Ea) in Hfi.
      pose proof (isB_B _ _ Hc) as Bc. unfold B in Bc. rewrite Bc in Hfi.
      cbn [filter]. unfold fires at 1. fold fires.
      destruct (holds false I (e_cond e)) eqn:Eh; cbn [andb].
      + destruct (eval false (e_val e) I) as [v|] eqn:Evv; [|discriminate]. cbn [collect_res] in Hfi.
        change (collect_res (flat_map (fun e0 => map (fun J => eval_effect false J e0) (instances I (e_vars e0))) r))
          with (fired false I r) in Hfi.
        destruct (fired false I r) as [acts'|] eqn:Er; [|discriminate]. inversion Hfi; subst acts.
        destruct (IH acts' HF' eq_refl) as [IH1 IH2].
        rewrite avals_cons, deltas_cons. unfold gfl_eqb. cbn [ae_key fst snd].
        destruct ((e_fl e =? f)%N) eqn:Ef; cbn [andb]; [|split; assumption].
        destruct (values_eqb (vals_of (e_args e)) vs) eqn:Ea2; cbn [andb]; [|split; assumption].
        apply N.eqb_eq in Ef. assert (Hbe : e_isbool e = true) by (rewrite Eb, Ef; exact Hf).
        unfold is_assign. cbn [ae_kind]. rewrite (Ek Hbe). cbn [negb map andb].
        split; [|exact IH2]. f_equal; [|exact IH1].
        cbn [ae_val]. pose proof (isB_B _ _ (Hv Hbe)) as Bv. unfold B in Bv. rewrite Evv in Bv. inversion Bv. reflexivity.
      + cbn [collect_res] in Hfi.
        change (collect_res (flat_map (fun e0 => map (fun J => eval_effect false J e0) (instances I (e_vars e0))) r))
          with (fired false I r) in Hfi.
        apply IH; assumption.
  Qed.

  Lemma succ_bool_fluent effs acts : Forall eff_ok effs -> fired false I effs = Some acts ->
    spec_succ P s acts f vs =
    if existsb fires effs then Some (VBool (existsb (fun e => fires e && holds false I (e_val e)) effs)) else s f vs.
  Proof.
    intros HF Hfi. destruct (fired_ground effs acts HF Hfi) as [HA HD].
    unfold spec_succ, spec_fluent. cbn [fst snd]. rewrite HA, HD, Hf. clear HA HD Hfi HF.
    induction effs as [|e r IH]; [reflexivity|]. cbn [filter existsb].
    destruct (fires e) eqn:Ee; cbn [orb andb map].
    - cbn [combine]. f_equal. f_equal. cbn [existsb is_vtrue]. f_equal.
      + destruct (holds false I (e_val e)); reflexivity.
      + clear IH. induction r as [|e' r IHr]; [reflexivity|]. cbn [filter existsb].
        destruct (fires e'); cbn [map existsb andb]; [|exact IHr]. rewrite IHr.
        destruct (holds false I (e_val e')); reflexivity.
    - exact IH.
  Qed.
End GroundStep.

(* ------------------------------------------------------------------ the regression lemma *)
Section Regression.
  Variable P : problem.
  Variable s t : state.
  Variable a : action.
  Let Is := mk_interp P s [].
  Let It := mk_interp P t [].
  Variable acts : list aeff.
  Hypothesis Hga : gaction P a = true.
  Hypothesis Hok : reg_ok P s a = true.
  Hypothesis Hfi : fired false Is (a_effs a) = Some acts.
  Hypothesis Ht : forall f vs, is_bool_fluent P f = true -> t f vs = spec_succ P s acts f vs.

  Lemma effs_ok_all : Forall (eff_ok P s) (a_effs a).
  Proof.
    unfold gaction in Hga. apply andb_true_iff in Hga. destruct Hga as [_ Hg]. unfold reg_ok in Hok.
    rewrite forallb_forall in Hg, Hok. apply Forall_forall. intros e He. split; [apply Hg, He|].
    specialize (Hok e He). apply andb_true_iff in Hok. destruct Hok as [H1 H2]. split; [exact H1|].
    intros Hb. rewrite Hb in H2. exact H2.
  Qed.

  Lemma exists_fires_split (p q : effect -> bool) l :
    existsb p l = true -> existsb (fun e => p e && q e) l = false -> existsb (fun e => p e && negb (q e)) l = true.
  Proof.
    induction l as [|e r IH]; cbn [existsb]; [discriminate|]. intros H1 H2.
    apply orb_false_iff in H2. destruct H2 as [H2 H3].
    destruct (p e) eqn:Ep; cbn [andb orb] in *; [rewrite H2; reflexivity|]. apply IH; assumption.
  Qed.

  Lemma regress_fluent f args sf : oargs args = true -> is_bool_fluent P f = true ->
    s f (vals_of args) = Some (VBool sf) ->
    exists b, B Is (gamma_subst f args (a_effs a)) b /\ B It (EFluent f args) b.
  Proof.
    intros Ha Hf Hs. pose proof effs_ok_all as HF.
    assert (HD : Forall (eff_def Is) (a_effs a)) by (eapply Forall_impl; [|exact HF]; intros e [_ H]; exact H).
    pose proof (gamma_B Is f args true _ HD) as Gp. pose proof (gamma_B Is f args false _ HD) as Gn.
    remember (vals_of args) as vs eqn:Evs.
    assert (Hc : forall pos e, In e (a_effs a) ->
              contrib Is f args pos e = fires P s f vs e && Bool.eqb (holds false Is (e_val e)) pos).
    { intros pos e He. rewrite Forall_forall in HF. destruct (HF e He) as [Hg _].
      destruct (geffect_split P e Hg) as (_ & Ea & Eb & _).
      unfold contrib, fires, same_fluent. rewrite (oargs_eqb _ _ Ea Ha), <- Evs. fold Is.
      destruct ((e_fl e =? f)%N) eqn:Ef; [|rewrite !andb_false_r; reflexivity].
      apply N.eqb_eq in Ef. rewrite Eb, Ef, Hf. cbn [andb].
      destruct (holds false Is (e_cond e)), (values_eqb (vals_of (e_args e)) vs); reflexivity. }
    assert (Ep : existsb (contrib Is f args true) (a_effs a) =
                 existsb (fun e => fires P s f vs e && holds false Is (e_val e)) (a_effs a)).
    { clear -Hc. induction (a_effs a) as [|e r IH]; [reflexivity|]. cbn [existsb].
      rewrite (Hc true e (or_introl eq_refl)), IH by (intros pos e' He'; apply Hc; right; exact He').
      destruct (holds false Is (e_val e)); reflexivity. }
    assert (En : existsb (contrib Is f args false) (a_effs a) =
                 existsb (fun e => fires P s f vs e && negb (holds false Is (e_val e))) (a_effs a)).
    { clear -Hc. induction (a_effs a) as [|e r IH]; [reflexivity|]. cbn [existsb].
      rewrite (Hc false e (or_introl eq_refl)), IH by (intros pos e' He'; apply Hc; right; exact He').
      destruct (holds false Is (e_val e)); reflexivity. }
    rewrite Ep in Gp. rewrite En in Gn.
    assert (Bf : B Is (EFluent f args) sf).
    { unfold B. rewrite eval_EFluent, (evals_oargs false Is _ Ha), <- Evs. exact Hs. }
    set (gp := existsb (fun e => fires P s f vs e && holds false Is (e_val e)) (a_effs a)) in *.
    set (gn := existsb (fun e => fires P s f vs e && negb (holds false Is (e_val e))) (a_effs a)) in *.
    exists (gp || (sf && negb gn)). split.
    - unfold gamma_subst.
      assert (B2 : B Is (mkAnd [EFluent f args; mkNot (gamma f args false (a_effs a))]) (sf && negb gn)).
      { pose proof (B_mkAnd Is _ _ (Forall2_cons _ _ Bf (Forall2_cons _ _ (B_mkNot _ _ _ Gn) (Forall2_nil _)))) as G.
        cbn [forallb] in G. rewrite andb_true_r in G. exact G. }
      pose proof (B_mkOr Is _ _ (Forall2_cons _ _ Gp (Forall2_cons _ _ B2 (Forall2_nil _)))) as G.
      cbn [existsb] in G. rewrite orb_false_r in G. exact G.
    - unfold B. rewrite eval_EFluent, (evals_oargs false It _ Ha), <- Evs. cbn [It mk_interp fl].
      rewrite (Ht f vs Hf), (succ_bool_fluent P s f vs Hf (a_effs a) acts HF Hfi). fold Is. fold gp.
      destruct (existsb (fires P s f vs) (a_effs a)) eqn:Efi.
      + destruct gp eqn:Egp; [reflexivity|].
        unfold gn. rewrite (exists_fires_split _ _ _ Efi Egp). rewrite andb_false_r. reflexivity.
      + assert (gp = false /\ gn = false) as [-> ->].
        { unfold gp, gn. clear -Efi. induction (a_effs a) as [|e r IH]; [split; reflexivity|].
          cbn [existsb] in *. apply orb_false_iff in Efi. destruct Efi as [E1 E2]. rewrite E1. cbn [andb orb]. apply IH, E2. }
        rewrite Hs. cbn. rewrite andb_true_r. reflexivity.
  Qed.

  Lemma Forall_ex_bs (B1 B2 : expr -> bool -> Prop) (g : expr -> expr) l :
    Forall (fun x => exists b, B1 (g x) b /\ B2 x b) l ->
    exists bs, Forall2 B1 (map g l) bs /\ Forall2 B2 l bs.
  Proof.
    induction 1 as [|x l [b [H1 H2]] _ [bs [IH1 IH2]]]; [exists []; split; constructor|].
    exists (b :: bs). split; constructor; assumption.
  Qed.

  (* REGRESSION: the regressed formula has, in the state before the action, the value the formula has after it *)
  Theorem regress_eval phi : gform phi = true -> gbool P phi = true -> gdef s phi = true ->
    exists b, B Is (regress (a_effs a) phi) b /\ B It phi b.
  Proof.
    induction phi using expr_ind'; intros Hg Hb Hd; try discriminate.
    - exists b. split; reflexivity.
    - cbn [gform gbool gdef] in *. destruct (s f (vals_of args)) as [[sf| |]|] eqn:Es; try discriminate.
      apply (regress_fluent f args sf); assumption.
    - cbn [gform gbool gdef regress] in *.
      assert (HF : Forall (fun x => exists b, B Is (regress (a_effs a) x) b /\ B It x b) l).
      { rewrite forallb_forall in Hg, Hb, Hd. rewrite Forall_forall in *. intros x Hx. apply H; auto. }
      destruct (Forall_ex_bs _ _ _ _ HF) as [bs [F1 F2]].
      exists (forallb (fun b => b) bs). split; [apply B_mkAnd, F1 | apply B_EAnd, F2].
    - cbn [gform gbool gdef regress] in *.
      assert (HF : Forall (fun x => exists b, B Is (regress (a_effs a) x) b /\ B It x b) l).
      { rewrite forallb_forall in Hg, Hb, Hd. rewrite Forall_forall in *. intros x Hx. apply H; auto. }
      destruct (Forall_ex_bs _ _ _ _ HF) as [bs [F1 F2]].
      exists (existsb (fun b => b) bs). split; [apply B_mkOr, F1 | apply B_EOr, F2].
    - cbn [gform gbool gdef regress] in *. destruct (IHphi Hg Hb Hd) as [b [H1 H2]].
      exists (negb b). split; [apply B_mkNot, H1 | apply B_ENot, H2].
  Qed.
End Regression.

(* the statement on whole steps of the documented semantics *)
Theorem regression_step P s a args t phi :
  gaction P a = true -> reg_ok P s a = true -> spec_step false P s a args = Some t ->
  gform phi = true -> gbool P phi = true -> gdef s phi = true ->
  eval false (regress (a_effs a) phi) (mk_interp P s []) = eval false phi (mk_interp P t []) /\
  holds false (mk_interp P s []) (regress (a_effs a) phi) = holds false (mk_interp P t []) phi /\
  isB (mk_interp P t []) phi = true.
Proof.
  intros Hga Hok Hst Hg Hb Hd. rewrite spec_step_eq in Hst.
  assert (Hp : a_params a = []).
  { unfold gaction in Hga. apply andb_true_iff in Hga. destruct Hga as [H _]. destruct (a_params a); [reflexivity | discriminate]. }
  rewrite Hp in Hst. cbn [zip_params] in Hst.
  destruct (negb (all_hold false (mk_interp P s []) (a_pre a))); [discriminate|].
  destruct (fired false (mk_interp P s []) (a_effs a)) as [acts|] eqn:Efi; [|discriminate].
  destruct (negb (spec_effects_ok P s acts)); [discriminate|].
  destruct (invariants_ok false P (spec_succ P s acts)); [|discriminate]. inversion Hst; subst t.
  destruct (regress_eval P s (spec_succ P s acts) a acts Hga Hok Efi (fun _ _ _ => eq_refl) phi Hg Hb Hd) as [b [H1 H2]].
  unfold B in H1, H2. split; [rewrite H1, H2; reflexivity|]. split.
  - unfold holds. rewrite H1, H2. reflexivity.
  - unfold isB. rewrite H2. reflexivity.
Qed.

(* ================================================================== PART 3: plan level, `always` constraints *)
Lemma leqb_eq l l' : list_expr_eqb l l' = true <-> l = l'.
Proof. apply list_expr_eqb_eq. apply Forall_forall. intros x _ y. apply expr_eqb_eq. Qed.

Lemma leqb_sym l l' : list_expr_eqb l l' = list_expr_eqb l' l.
Proof.
  destruct (list_expr_eqb l l') eqn:E1, (list_expr_eqb l' l) eqn:E2; try reflexivity.
  - apply leqb_eq in E1. subst. assert (H : list_expr_eqb l' l' = true) by (apply leqb_eq; reflexivity). congruence.
  - apply leqb_eq in E2. subst. assert (H : list_expr_eqb l l = true) by (apply leqb_eq; reflexivity). congruence.
Qed.

(* ---- an action none of whose effects is on a fluent expression of phi: the regression changes nothing *)
Lemma gamma_go_none f args pos : forall effs acc,
  (forall e, In e effs -> same_fluent f args e = false) -> gamma_go f args pos effs acc = mkOr acc.
Proof.
  induction effs as [|e r IH]; intros acc H; [reflexivity|]. cbn [gamma_go].
  rewrite (H e (or_introl eq_refl)). cbn [andb].
  assert (Hr : forall e', In e' r -> same_fluent f args e' = false) by (intros e' He'; apply H; right; exact He').
  destruct (negb (e_isbool e)); [apply IH, Hr|]. destruct (bconst (e_val e)); apply IH, Hr.
Qed.

Lemma regress_irrelevant I effs phi :
  (forall e fa, In e effs -> In fa (fluent_exps phi) -> same_fluent (fst fa) (snd fa) e = false) ->
  gform phi = true -> forall b, B I phi b -> B I (regress effs phi) b.
Proof.
  induction phi using expr_ind'; intros Hirr Hg bb HB; try discriminate.
  - exact HB.
  - cbn [regress]. unfold gamma_subst, gamma.
    assert (Hn : forall e, In e effs -> same_fluent f args e = false)
      by (intros e He; apply (Hirr e (f, args) He); cbn [fluent_exps]; left; reflexivity).
    rewrite !gamma_go_none by exact Hn. cbn [mkOr mkNot].
    pose proof (B_mkAnd I [EFluent f args; ENot (EBool false)] [bb; true]) as G1.
    assert (F1 : Forall2 (B I) [EFluent f args; ENot (EBool false)] [bb; true])
      by (constructor; [exact HB | constructor; [reflexivity | constructor]]).
    specialize (G1 F1). cbn [forallb] in G1. rewrite andb_true_r in G1.
    pose proof (B_mkOr I [EBool false; mkAnd [EFluent f args; ENot (EBool false)]] [false; bb]) as G2.
    assert (F2 : Forall2 (B I) [EBool false; mkAnd [EFluent f args; ENot (EBool false)]] [false; bb])
      by (constructor; [reflexivity | constructor; [exact G1 | constructor]]).
    specialize (G2 F2). cbn [existsb] in G2. rewrite orb_false_r in G2. exact G2.
  - cbn [regress gform] in *. unfold B in HB. rewrite eval_EAnd in HB.
    destruct (ebools false I l) as [bs|] eqn:Eb; [|discriminate]. inversion HB; subst bb.
    apply B_mkAnd. clear HB. revert bs Eb. rewrite forallb_forall in Hg.
    induction l as [|x l IHl]; intros bs Eb; cbn [ebools] in Eb.
    + inversion Eb. constructor.
    + destruct (as_bool (eval false x I)) as [bx|] eqn:Ex; [|discriminate].
      destruct (ebools false I l) as [bs'|] eqn:Eb'; [|discriminate]. inversion Eb; subst bs. cbn [map].
      inversion H as [|? ? Hx Hl]; subst. constructor.
      * apply Hx; [| apply Hg; left; reflexivity |].
        -- intros e fa He Hfa. apply Hirr; [exact He|]. cbn [fluent_exps flat_map]. apply in_or_app. left; exact Hfa.
        -- unfold B. destruct (eval false x I) as [[c| |]|]; try discriminate. cbn [as_bool] in Ex. inversion Ex. reflexivity.
      * apply IHl; [exact Hl | | | reflexivity].
        -- intros e fa He Hfa. apply Hirr; [exact He|]. cbn [fluent_exps flat_map] in *. apply in_or_app. right; exact Hfa.
        -- intros y Hy. apply Hg. right; exact Hy.
  - cbn [regress gform] in *. unfold B in HB. rewrite eval_EOr in HB.
    destruct (ebools false I l) as [bs|] eqn:Eb; [|discriminate]. inversion HB; subst bb.
    apply B_mkOr. clear HB. revert bs Eb. rewrite forallb_forall in Hg.
    induction l as [|x l IHl]; intros bs Eb; cbn [ebools] in Eb.
    + inversion Eb. constructor.
    + destruct (as_bool (eval false x I)) as [bx|] eqn:Ex; [|discriminate].
      destruct (ebools false I l) as [bs'|] eqn:Eb'; [|discriminate]. inversion Eb; subst bs. cbn [map].
      inversion H as [|? ? Hx Hl]; subst. constructor.
      * apply Hx; [| apply Hg; left; reflexivity |].
        -- intros e fa He Hfa. apply Hirr; [exact He|]. cbn [fluent_exps flat_map]. apply in_or_app. left; exact Hfa.
        -- unfold B. destruct (eval false x I) as [[c| |]|]; try discriminate. cbn [as_bool] in Ex. inversion Ex. reflexivity.
      * apply IHl; [exact Hl | | | reflexivity].
        -- intros e fa He Hfa. apply Hirr; [exact He|]. cbn [fluent_exps flat_map] in *. apply in_or_app. right; exact Hfa.
        -- intros y Hy. apply Hg. right; exact Hy.
  - cbn [regress gform fluent_exps] in *. unfold B in HB. rewrite eval_ENot in HB.
    destruct (eval false phi I) as [[c| |]|] eqn:Ex; try discriminate. cbn [as_bool] in HB. inversion HB; subst bb.
    apply B_mkNot. apply IHphi; [exact Hirr | exact Hg | exact Ex].
Qed.

(* ---- preconditions added one by one *)
Lemma all_hold_add_pre I acc p : all_hold false I (add_pre acc p) = all_hold false I acc && holds false I p.
Proof.
  unfold add_pre. destruct (is_true p) eqn:Et; cbn [orb].
  - rewrite (holds_true false I p Et), andb_true_r. reflexivity.
  - destruct (existsb (expr_eqb p) acc) eqn:Ee.
    + apply existsb_exists in Ee. destruct Ee as [q [Hq Eq]]. apply expr_eqb_eq in Eq. subst q.
      destruct (all_hold false I acc) eqn:Ea; [|reflexivity]. rewrite (all_hold_In false I acc p Ea Hq). reflexivity.
    + unfold all_hold. rewrite forallb_app. cbn [forallb]. rewrite andb_true_r. reflexivity.
Qed.

Lemma all_hold_fold_add_pre I l : forall acc,
  all_hold false I (fold_left add_pre l acc) = all_hold false I acc && forallb (holds false I) l.
Proof.
  induction l as [|p l IH]; intros acc; cbn [fold_left forallb]; [rewrite andb_true_r; reflexivity|].
  rewrite IH, all_hold_add_pre, andb_assoc. reflexivity.
Qed.

Lemma dedup_acc_in x : forall l acc, In x (dedup_acc acc l) <-> In x acc \/ In x l.
Proof.
  induction l as [|y l IH]; intros acc; cbn [dedup_acc]; [cbn [In]; tauto|].
  destruct (existsb (expr_eqb y) acc) eqn:E; rewrite IH.
  - apply existsb_exists in E. destruct E as [z [Hz Ez]]. apply expr_eqb_eq in Ez. subst z.
    cbn [In]. split; [tauto|]. intros [H|[H|H]]; auto. subst. auto.
  - rewrite in_app_iff. cbn [In]. tauto.
Qed.

Section AlwaysPlan.
  Variable smp sub0 : expr -> expr.
  Variable mon : nat -> N.
  Variable C : list expr.
  Variable P : problem.
  Variable G : state -> Prop.

  Hypothesis Hsmp : smp_exact smp.
  Hypothesis Huniq : unique_ids P.
  Hypothesis Hgp : gproblem P = true.
  Hypothesis HC : always_only P C = true.
  (* G: a set of states closed under the steps of the original problem on which the regression lemma applies *)
  Hypothesis Gstep : forall s aid a args t, G s -> lookup_action P aid = Some a -> spec_step false P s a args = Some t -> G t.
  Hypothesis Greg : forall s aid a, G s -> lookup_action P aid = Some a -> reg_ok P s a = true.
  Hypothesis Gdef : forall s phi, G s -> In (EAlways phi) C -> gdef s phi = true.

  Lemma C_always c : In c C -> exists phi, c = EAlways phi /\ gform phi = true /\ gbool P phi = true.
  Proof.
    intros Hc. unfold always_only in HC. rewrite forallb_forall in HC. specialize (HC c Hc).
    destruct c; try discriminate. apply andb_true_iff in HC. eauto.
  Qed.

  Lemma atoms_none : forall k cs, (forall c, In c cs -> is_always c = true) -> atoms_from k cs = [].
  Proof.
    intros k cs. revert k. induction cs as [|c r IH]; intros k H; [reflexivity|]. cbn [atoms_from].
    rewrite (H c (or_introl eq_refl)). apply IH. intros c' Hc'. apply H. right; exact Hc'.
  Qed.

  Lemma C_atoms : atoms_from 0 C = [].
  Proof. apply atoms_none. intros c Hc. destruct (C_always c Hc) as [phi [-> _]]. reflexivity. Qed.

  (* the preconditions the loop adds for a list of always constraints *)
  Definition added (a : action) (cs : list expr) : list expr :=
    flat_map (fun c => match c with
                       | EAlways phi => if expr_eqb (R smp a phi) phi then [] else [R smp a phi]
                       | _ => []
                       end) cs.

  Lemma handle_all_always a : forall cs pres, (forall c, In c cs -> In c C) ->
    handle_all smp mon C a cs pres [] = (fold_left add_pre (added a cs) pres, []).
  Proof.
    induction cs as [|c r IH]; intros pres H; [reflexivity|]. cbn [handle_all].
    destruct (C_always c (H c (or_introl eq_refl))) as [phi [-> _]]. cbn [handle h_always].
    unfold h_always. cbn [added flat_map].
    assert (Hr : forall c', In c' r -> In c' C) by (intros c' Hc'; apply H; right; exact Hc').
    destruct (expr_eqb (R smp a phi) phi); cbn [app fold_left]; apply IH, Hr.
  Qed.

  Lemma relevant_in a c : In c (relevant_cs C a) <-> In c C /\ exists e, In e (a_effs a) /\ mentions c e = true.
  Proof.
    unfold relevant_cs. rewrite dedup_acc_in, in_flat_map. cbn [In]. split.
    - intros [[]|[e [He Hc]]]. apply filter_In in Hc. destruct Hc as [Hc Hm]. split; [exact Hc | exists e; auto].
    - intros [Hc [e [He Hm]]]. right. exists e. split; [exact He | apply filter_In; auto].
  Qed.

  Section Step.
    Variables (s t : state) (aid : N) (a : action) (args : list value).
    Hypothesis Gs : G s.
    Hypothesis Hlk : lookup_action P aid = Some a.
    Hypothesis Hst : spec_step false P s a args = Some t.
    Hypothesis Hs : AH P C s = true.

    Lemma a_ground : gaction P a = true.
    Proof.
      unfold gproblem in Hgp. rewrite forallb_forall in Hgp. unfold lookup_action in Hlk.
      apply lookupN_In in Hlk. apply (Hgp (aid, a) Hlk).
    Qed.

    Lemma a_params_nil : a_params a = [].
    Proof. pose proof a_ground as H. unfold gaction in H. apply andb_true_iff in H. destruct H as [H _]. destruct (a_params a); [reflexivity | discriminate]. Qed.

    (* K1: the simplified regression, read before the step, is phi after it *)
    Lemma K1 phi : In (EAlways phi) C ->
      holds false (mk_interp P s []) (R smp a phi) = holds false (mk_interp P t []) phi.
    Proof.
      intros Hc. destruct (C_always _ Hc) as [phi' [E [Hg Hb]]]. inversion E; subst phi'.
      destruct (regression_step P s a args t phi a_ground (Greg s aid a Gs Hlk) Hst Hg Hb (Gdef s phi Gs Hc)) as (_ & H & _).
      unfold R, holds. rewrite Hsmp. exact H.
    Qed.

    (* K2: a constraint no effect of the action touches keeps its value *)
    Lemma K2 phi : In (EAlways phi) C -> (forall e, In e (a_effs a) -> mentions (EAlways phi) e = false) ->
      holds false (mk_interp P t []) phi = holds false (mk_interp P s []) phi.
    Proof.
      intros Hc Hm. destruct (C_always _ Hc) as [phi' [E [Hg Hb]]]. inversion E; subst phi'.
      destruct (regression_step P s a args t phi a_ground (Greg s aid a Gs Hlk) Hst Hg Hb (Gdef s phi Gs Hc)) as (Ev & H & _).
      rewrite <- H. unfold holds.
      assert (Hd : exists b, B (mk_interp P s []) phi b).
      { (* phi is defined in s: from gdef, through the regression lemma read at the identity is not available; use Ev *)
        clear H. revert Hg Hb. generalize (Gdef s phi Gs Hc). clear. intros Hd Hg Hb.
        induction phi using expr_ind'; try discriminate.
        - exists b. reflexivity.
        - cbn [gform gdef] in *. destruct (s f (vals_of args)) as [[sf| |]|] eqn:Es; try discriminate. exists sf.
          unfold B. rewrite eval_EFluent, (evals_oargs false _ _ Hg). exact Es.
        - cbn [gform gdef gbool] in *. rewrite forallb_forall in Hg, Hb, Hd.
          assert (HF : exists bs, Forall2 (B (mk_interp P s [])) l bs).
          { induction l as [|x l IHl]; [exists []; constructor|]. inversion H as [|? ? Hx Hl]; subst.
            destruct (Hx (Hd x (or_introl eq_refl)) (Hg x (or_introl eq_refl)) (Hb x (or_introl eq_refl))) as [b Bx].
            destruct (IHl Hl) as [bs Bs]; try (intros y Hy; auto using in_cons). exists (b :: bs). constructor; assumption. }
          destruct HF as [bs Bs]. eexists. apply B_EAnd, Bs.
        - cbn [gform gdef gbool] in *. rewrite forallb_forall in Hg, Hb, Hd.
          assert (HF : exists bs, Forall2 (B (mk_interp P s [])) l bs).
          { induction l as [|x l IHl]; [exists []; constructor|]. inversion H as [|? ? Hx Hl]; subst.
            destruct (Hx (Hd x (or_introl eq_refl)) (Hg x (or_introl eq_refl)) (Hb x (or_introl eq_refl))) as [b Bx].
            destruct (IHl Hl) as [bs Bs]; try (intros y Hy; auto using in_cons). exists (b :: bs). constructor; assumption. }
          destruct HF as [bs Bs]. eexists. apply B_EOr, Bs.
        - cbn [gform gdef gbool] in *. destruct (IHphi Hd Hg Hb) as [b Bx]. eexists. apply B_ENot, Bx. }
      destruct Hd as [b Hb0].
      assert (Hr : B (mk_interp P s []) (regress (a_effs a) phi) b).
      { apply regress_irrelevant; [|exact Hg | exact Hb0].
        intros e fa He Hfa. specialize (Hm e He). unfold mentions in Hm. cbn [fluent_exps] in Hm.
        destruct (same_fluent (fst fa) (snd fa) e) eqn:Es; [|reflexivity].
        exfalso. assert (X : existsb (fun fa0 => (fst fa0 =? e_fl e)%N && list_expr_eqb (snd fa0) (e_args e)) (fluent_exps phi) = true).
        { apply existsb_exists. exists fa. split; [exact Hfa|]. unfold same_fluent in Es. rewrite N.eqb_sym, leqb_sym. exact Es. }
        congruence. }
      unfold B in Hr, Hb0. rewrite Hr, Hb0. reflexivity.
    Qed.

    (* the preconditions added to the action hold before the step iff every always body holds after it *)
    Lemma added_iff_AH :
      forallb (holds false (mk_interp P s [])) (added a (relevant_cs C a)) = AH P C t.
    Proof.
      apply eq_true_iff_eq. unfold AH. rewrite !forallb_forall. split.
      - intros H c Hc. destruct (C_always c Hc) as [phi [-> _]].
        destruct (existsb (fun e => mentions (EAlways phi) e) (a_effs a)) eqn:Em.
        + apply existsb_exists in Em. destruct Em as [e [He Hm]].
          assert (Hrel : In (EAlways phi) (relevant_cs C a)) by (apply relevant_in; split; [exact Hc | exists e; auto]).
          rewrite <- (K1 phi Hc). destruct (expr_eqb (R smp a phi) phi) eqn:Er.
          * apply expr_eqb_eq in Er. rewrite Er. unfold AH in Hs. rewrite forallb_forall in Hs. apply (Hs _ Hc).
          * apply H. unfold added. apply in_flat_map. exists (EAlways phi). split; [exact Hrel|]. rewrite Er. left; reflexivity.
        + rewrite (K2 phi Hc).
          * unfold AH in Hs. rewrite forallb_forall in Hs. apply (Hs _ Hc).
          * intros e He. destruct (mentions (EAlways phi) e) eqn:Em'; [|reflexivity].
            assert (X : existsb (fun e => mentions (EAlways phi) e) (a_effs a) = true) by (apply existsb_exists; exists e; auto).
            congruence.
      - intros H x Hx. unfold added in Hx. apply in_flat_map in Hx. destruct Hx as [c [Hc Hx]].
        apply relevant_in in Hc. destruct Hc as [Hc _]. destruct (C_always c Hc) as [phi [-> _]].
        destruct (expr_eqb (R smp a phi) phi); [destruct Hx|]. destruct Hx as [<-|[]].
        rewrite (K1 phi Hc). apply (H _ Hc).
    Qed.
  End Step.

  (* ---- the compiled problem *)
  Variable P' : problem.
  Hypothesis Hcomp : tcr_compile smp sub0 mon C P = Some P'.

  Lemma P'_eq : p_objs P' = p_objs P /\ p_ifun P' = p_ifun P /\ p_fluents P' = p_fluents P /\ p_invs P' = p_invs P /\
    p_actions P' = map_actions (tcr_action smp mon C) (p_actions P) /\
    p_goals P' = add_goals [smp (mkAnd (p_goals P ++ [EBool true]))].
  Proof.
    unfold tcr_compile in Hcomp. destruct (existsb (refused smp sub0) C); [discriminate|]. inversion Hcomp; subst P'. cbn.
    unfold mon_fluents, n_atoms, landmark_goal. rewrite C_atoms. cbn [length seq map]. rewrite app_nil_r.
    assert (E : filter is_landmark C = []).
    { clear -HC. unfold always_only in HC. induction C as [|c r IH]; [reflexivity|]. cbn [forallb] in HC. apply andb_true_iff in HC.
      destruct HC as [H1 H2]. cbn [filter]. destruct c; try discriminate. cbn [is_landmark]. apply IH, H2. }
    rewrite E. repeat split; reflexivity.
  Qed.

  Lemma goals_same s : goals_hold false P' s = goals_hold false P s.
  Proof.
    destruct P'_eq as (Ho & Hi & Hf & Hv & _ & Hg). unfold goals_hold. rewrite (mk_interp_same P P' Ho Hi), Hg.
    unfold add_goals. cbn [filter].
    assert (E : holds false (mk_interp P s []) (smp (mkAnd (p_goals P ++ [EBool true]))) = all_hold false (mk_interp P s []) (p_goals P)).
    { unfold holds at 1. rewrite Hsmp. fold (holds false (mk_interp P s []) (mkAnd (p_goals P ++ [EBool true]))).
      rewrite holds_mkAnd. unfold all_hold. rewrite forallb_app. cbn. rewrite andb_true_r. reflexivity. }
    destruct (is_true (smp (mkAnd (p_goals P ++ [EBool true])))) eqn:Et; cbn [negb].
    - rewrite <- E, (holds_true false _ _ Et). reflexivity.
    - unfold all_hold at 1. cbn [forallb]. rewrite andb_true_r. exact E.
  Qed.

  Lemma step_compiled s aid a args : G s -> AH P C s = true -> lookup_action P aid = Some a ->
    match lookup_action P' aid with
    | Some a' => spec_step false P' s a' args
    | None => None
    end =
    match spec_step false P s a args with Some t => if AH P C t then Some t else None | None => None end.
  Proof.
    intros Gs Hs Hlk. destruct P'_eq as (Ho & Hi & Hf & Hv & Ha & _).
    unfold lookup_action in *. rewrite Ha, (lookup_map_actions _ _ _ Huniq), Hlk.
    unfold tcr_action.
    rewrite (handle_all_always a (relevant_cs C a) (a_pre a)) by (intros c Hc; apply relevant_in in Hc; tauto).
    set (pres := fold_left add_pre (added a (relevant_cs C a)) (a_pre a)).
    assert (Hp : a_params a = []) by (apply (a_params_nil aid a); exact Hlk).
    set (I := mk_interp P s (zip_params (a_params a) args)).
    assert (EI : I = mk_interp P s []) by (unfold I; rewrite Hp; reflexivity).
    assert (Hpre : all_hold false I pres = all_hold false I (a_pre a) && forallb (holds false I) (added a (relevant_cs C a)))
      by apply all_hold_fold_add_pre.
    destruct (spec_step false P s a args) as [t|] eqn:Est.
    - pose proof (added_iff_AH s t aid a args Gs Hlk Est Hs) as HX. rewrite <- EI in HX.
      assert (Hpa : all_hold false I (a_pre a) = true).
      { rewrite spec_step_eq in Est. fold I in Est. destruct (all_hold false I (a_pre a)); [reflexivity | discriminate]. }
      destruct (AH P C t) eqn:EA.
      + assert (Hnf : existsb is_false pres = false).
        { destruct (existsb is_false pres) eqn:Ef; [|reflexivity]. apply existsb_exists in Ef. destruct Ef as [x [Hx Fx]].
          assert (Hh : all_hold false I pres = true) by (rewrite Hpre, Hpa, HX; reflexivity).
          pose proof (all_hold_In false I pres x Hh Hx) as Hxx. destruct x; try discriminate. destruct b; discriminate. }
        rewrite Hnf. rewrite <- Est.
        apply spec_step_cong; auto; cbn [a_params a_pre a_effs].
        * fold I. rewrite Hpre, Hpa, HX. reflexivity.
        * rewrite app_nil_r. reflexivity.
        * intros acts _. apply (invariants_ok_same P P' Ho Hi Hf Hv).
      + destruct (existsb is_false pres); [reflexivity|].
        rewrite spec_step_eq. cbn [a_params a_pre a_effs].
        rewrite (mk_interp_same P P' Ho Hi). fold I. rewrite Hpre, Hpa, HX. reflexivity.
    - destruct (existsb is_false pres); [reflexivity|].
      rewrite spec_step_eq in Est |- *. cbn [a_params a_pre a_effs]. rewrite (mk_interp_same P P' Ho Hi). fold I. fold I in Est.
      rewrite Hpre. destruct (all_hold false I (a_pre a)); cbn [andb negb]; [|reflexivity].
      destruct (forallb (holds false I) (added a (relevant_cs C a))); cbn [negb]; [|reflexivity].
      rewrite app_nil_r. cbn [negb] in Est.
      destruct (fired false I (a_effs a)) as [acts|]; [|reflexivity].
      assert (E1 : spec_effects_ok P' s acts = spec_effects_ok P s acts)
        by (unfold spec_effects_ok, spec_fluent, is_bool_fluent; rewrite Hf; reflexivity).
      assert (E2 : spec_succ P' s acts = spec_succ P s acts)
        by (unfold spec_succ, spec_fluent, is_bool_fluent; rewrite Hf; reflexivity).
      rewrite E1, E2, (invariants_ok_same P P' Ho Hi Hf Hv). exact Est.
  Qed.

  Lemma lookup_none aid : lookup_action P aid = None -> lookup_action P' aid = None.
  Proof.
    intros H. destruct P'_eq as (_ & _ & _ & _ & Ha & _). unfold lookup_action in *.
    rewrite Ha, (lookup_map_actions _ _ _ Huniq), H. reflexivity.
  Qed.

  Lemma run_compiled pi : forall s, G s -> AH P C s = true ->
    run P' (spec_step false P') s pi = run_ah P C s pi.
  Proof.
    induction pi as [|[aid args] r IH]; intros s Gs Hs; [reflexivity|]. cbn [run run_ah].
    destruct (lookup_action P aid) as [a|] eqn:Hlk; [|rewrite (lookup_none aid Hlk); reflexivity].
    pose proof (step_compiled s aid a args Gs Hs Hlk) as E.
    destruct (spec_step false P s a args) as [t|] eqn:Est.
    - destruct (AH P C t) eqn:EA.
      + destruct (lookup_action P' aid) as [a'|]; [|discriminate]. rewrite E. apply IH; [eapply Gstep; eauto | exact EA].
      + destruct (lookup_action P' aid) as [a'|]; [rewrite E|]; reflexivity.
    - destruct (lookup_action P' aid) as [a'|]; [rewrite E|]; reflexivity.
  Qed.

  (* PLAN LEVEL, always constraints: the compiled problem (no constraints left) accepts exactly the plans of the
     original problem along which every always body holds *)
  Theorem tcr_always_plan s0 pi : G s0 -> AH P C s0 = true ->
    valid_plan false P' s0 pi = always_valid P C s0 pi.
  Proof.
    intros G0 H0. unfold valid_plan, always_valid. rewrite (run_compiled pi s0 G0 H0).
    destruct (run_ah P C s0 pi) as [t|]; [apply goals_same | reflexivity].
  Qed.
End AlwaysPlan.

(* ================================================================== PART 4: plan level, one `sometime` constraint *)
(* ---- steps of the compiled problem (one more Boolean fluent fk) that do not fire an effect on fk *)
Section PlainStep.
  Variable fk : N.
  Variables P P' : problem.
  Hypothesis Ho : p_objs P' = p_objs P.
  Hypothesis Hi : p_ifun P' = p_ifun P.
  Hypothesis Hfl : p_fluents P' = p_fluents P ++ [fk_decl fk].
  Hypothesis Hv : p_invs P' = p_invs P.
  Hypothesis Hinvc : forallb (cleanf fk) (p_invs P ++ bound_invs P) = true.

  Lemma spec_fluent_other0 s s' acts k : agree_off fk s s' -> fst k <> fk ->
    spec_fluent P' s' acts k = spec_fluent P s acts k.
  Proof.
    intros Hs Hk. unfold spec_fluent. rewrite (isb_other fk P P' Hfl _ Hk), (Hs (fst k) (snd k) Hk). reflexivity.
  Qed.

  Lemma spec_fluent_fk0 s' acts : no_fk fk acts -> spec_fluent P' s' acts (fk, []) = CUnchanged.
  Proof.
    intros Hn. unfold spec_fluent, avals, deltas. rewrite !(filter_nofk fk acts [] _ Hn). reflexivity.
  Qed.

  Lemma effects_ok0 s s' acts : agree_off fk s s' -> no_fk fk acts ->
    spec_effects_ok P' s' acts = spec_effects_ok P s acts.
  Proof.
    intros Hs Hn. unfold spec_effects_ok. apply forallb_eq_in. intros a Ha.
    rewrite (spec_fluent_other0 s s' acts _ Hs (Hn a Ha)). reflexivity.
  Qed.

  Lemma succ0 s s' acts : agree_off fk s s' -> no_fk fk acts ->
    agree_off fk (spec_succ P s acts) (spec_succ P' s' acts) /\ spec_succ P' s' acts fk [] = s' fk [].
  Proof.
    intros Hs Hn. split.
    - intros f x Hf. unfold spec_succ. rewrite (spec_fluent_other0 s s' acts (f, x) Hs Hf), (Hs f x Hf). reflexivity.
    - unfold spec_succ. rewrite (spec_fluent_fk0 s' acts Hn). reflexivity.
  Qed.

  (* the compiled action = the original one plus [X], a list of effects whose evaluation yields the results [rx]:
     nothing ([]), a skipped conditional effect ([ESkip]) or the assignment fk := true ([EAct (xact fk true)]) *)
  Lemma step_with a a' args s s' (fire : bool) :
    agree_off fk s s' -> action_cleanf fk a = true ->
    a_params a' = a_params a -> a_pre a' = a_pre a ->
    fired false (mk_interp P' s' (zip_params (a_params a) args)) (a_effs a') =
      match collect_res (eres_list false (mk_interp P' s' (zip_params (a_params a) args)) (a_effs a)) with
      | Some acts => Some (if fire then acts ++ [xact fk true] else acts)
      | None => None
      end ->
    match spec_step false P s a args, spec_step false P' s' a' args with
    | Some t, Some t' => agree_off fk t t' /\ t' fk [] = (if fire then Some (VBool true) else s' fk [])
    | None, None => True
    | _, _ => False
    end.
  Proof.
    intros Hs Hc Hp Hpre Hfi. unfold action_cleanf in Hc. apply andb_true_iff in Hc. destruct Hc as [Hc1 Hc2].
    rewrite !spec_step_eq. rewrite Hp, Hpre, Hfi.
    pose proof (mk_irel fk P P' Ho Hi s s' (zip_params (a_params a) args) Hs) as HR.
    rewrite (all_hold_cleanf fk false _ _ (a_pre a) HR Hc1).
    destruct (negb (all_hold false (mk_interp P s (zip_params (a_params a) args)) (a_pre a))); [exact I|].
    rewrite (eres_list_cleanf fk false _ _ (a_effs a) HR Hc2).
    change (fired false (mk_interp P s (zip_params (a_params a) args)) (a_effs a))
      with (collect_res (eres_list false (mk_interp P s (zip_params (a_params a) args)) (a_effs a))).
    destruct (collect_res (eres_list false (mk_interp P s (zip_params (a_params a) args)) (a_effs a))) as [acts|] eqn:EF;
      [|exact I].
    assert (Hn : no_fk fk acts) by (eapply fired_nofk; eassumption).
    destruct fire.
    - rewrite (effects_ok_extra fk P P' Hfl s s' acts true Hs Hn).
      destruct (negb (spec_effects_ok P s acts)); [exact I|].
      destruct (succ_extra fk P P' Hfl s s' acts true Hs Hn) as [Ha Hb].
      rewrite (invariants_cleanf fk P P' Ho Hi Hfl Hv Hinvc _ _ Ha).
      destruct (invariants_ok false P (spec_succ P s acts)); [split; assumption | exact I].
    - rewrite (effects_ok0 s s' acts Hs Hn).
      destruct (negb (spec_effects_ok P s acts)); [exact I|].
      destruct (succ0 s s' acts Hs Hn) as [Ha Hb].
      rewrite (invariants_cleanf fk P P' Ho Hi Hfl Hv Hinvc _ _ Ha).
      destruct (invariants_ok false P (spec_succ P s acts)); [split; assumption | exact I].
  Qed.
End PlainStep.

Lemma dedup_single c : forall l, (forall x, In x l -> x = c) ->
  dedup_acc [c] l = [c] /\ (dedup_acc [] l = [] \/ dedup_acc [] l = [c]).
Proof.
  induction l as [|x l IH]; intros H; [split; [reflexivity | left; reflexivity]|].
  assert (Hx : x = c) by (apply H; left; reflexivity). subst x.
  destruct (IH (fun y Hy => H y (or_intror Hy))) as [IH1 _].
  cbn [dedup_acc existsb]. rewrite expr_eqb_refl. cbn [orb app]. split; [exact IH1 | right; exact IH1].
Qed.

Section SometimePlan.
  Variable smp sub0 : expr -> expr.
  Variable mon : nat -> N.
  Variable phi : expr.
  Variable P : problem.
  Variable G : state -> Prop.
  Let c := ESometime phi.
  Let fk := mon 0.

  Hypothesis Hsmp : smp_exact smp.
  Hypothesis Huniq : unique_ids P.
  Hypothesis Hgp : gproblem P = true.
  Hypothesis Hgf : gform phi = true.
  Hypothesis Hgb : gbool P phi = true.
  Hypothesis Hfresh : tcr_fresh1 smp fk P phi = true.
  Hypothesis Gstep : forall s aid a args t, G s -> lookup_action P aid = Some a -> spec_step false P s a args = Some t -> G t.
  Hypothesis Greg : forall s aid a, G s -> lookup_action P aid = Some a -> reg_ok P s a = true.
  Hypothesis Gdef : forall s, G s -> gdef s phi = true.

  Lemma fresh_parts :
    (forall aid a, lookup_action P aid = Some a -> action_cleanf fk a = true /\ cleanf fk (R smp a phi) = true) /\
    forallb (cleanf fk) (p_invs P ++ bound_invs P) = true /\ forallb (cleanf fk) (p_goals P) = true /\ cleanf fk phi = true.
  Proof.
    unfold tcr_fresh1 in Hfresh. apply andb_true_iff in Hfresh. destruct Hfresh as [H H4].
    apply andb_true_iff in H. destruct H as [H H3]. apply andb_true_iff in H. destruct H as [H1 H2].
    repeat split; try assumption; intros; rewrite forallb_forall in H1; unfold lookup_action in *;
      match goal with Hl : lookupN _ _ = Some _ |- _ => apply lookupN_In in Hl; specialize (H1 _ Hl); cbn [snd] in H1;
        apply andb_true_iff in H1; destruct H1; assumption end.
  Qed.

  Let AO : always_only P [EAlways phi] = true.
  Proof. unfold always_only. cbn [forallb]. rewrite Hgf, Hgb. reflexivity. Qed.
  Let GdefA : forall s x, G s -> In (EAlways x) [EAlways phi] -> gdef s x = true.
  Proof. intros s x Gs [H|[]]. inversion H; subst. apply Gdef, Gs. Qed.

  Lemma atom_idx_c : atom_idx [c] c = 0.
  Proof. unfold atom_idx, c. cbn [atoms_from is_always rev app find fst snd]. rewrite expr_eqb_refl. reflexivity. Qed.

  (* what the compiler adds to an action: nothing (with a reason) or the effect `if R then fk := true` *)
  Definition no_effect_reason (a : action) : Prop :=
    (forall e, In e (a_effs a) -> mentions c e = false) \/ R smp a phi = phi \/ is_false (smp (R smp a phi)) = true.

  Lemma tcr_action_sometime a : exists E,
    tcr_action smp mon [c] a =
      (if existsb is_false (a_pre a) then None
       else Some {| a_params := a_params a; a_pre := a_pre a; a_effs := a_effs a ++ E |}) /\
    ((E = [] /\ no_effect_reason a) \/ E = [meff fk true (R smp a phi)]).
  Proof.
    unfold tcr_action.
    assert (Hall : forall x, In x (flat_map (fun e => filter (fun c0 => mentions c0 e) [c]) (a_effs a)) -> x = c).
    { intros x Hx. apply in_flat_map in Hx. destruct Hx as [e [_ Hx]]. apply filter_In in Hx. destruct Hx as [[<-|[]] _]. reflexivity. }
    destruct (dedup_single c _ Hall) as [_ [E0|E1]]; unfold relevant_cs.
    - rewrite E0. cbn [handle_all]. exists []. split; [reflexivity|]. left. split; [reflexivity|]. left.
      intros e He. destruct (mentions c e) eqn:Em; [|reflexivity]. exfalso.
      assert (Hin : In c (dedup_acc [] (flat_map (fun e => filter (fun c0 => mentions c0 e) [c]) (a_effs a)))).
      { apply dedup_acc_in. right. apply in_flat_map. exists e. split; [exact He|]. cbn [filter]. rewrite Em. left; reflexivity. }
      rewrite E0 in Hin. destruct Hin.
    - rewrite E1. cbn [handle_all]. unfold c at 2. cbn [handle]. fold c. rewrite atom_idx_c. fold fk. unfold h_sometime.
      destruct (expr_eqb (R smp a phi) phi) eqn:Er.
      + exists []. split; [reflexivity|]. left. split; [reflexivity|]. right. left. apply expr_eqb_eq, Er.
      + unfold add_cond_eff. destruct (is_false (smp (R smp a phi))) eqn:Ef.
        * exists []. split; [reflexivity|]. left. split; [reflexivity|]. right. right. exact Ef.
        * exists [meff fk true (R smp a phi)]. split; [reflexivity|]. right. reflexivity.
  Qed.

  (* ---- the compiled problem *)
  Variable P' : problem.
  Hypothesis Hcomp : tcr_compile smp sub0 mon [c] P = Some P'.

  Lemma P'_eq1 : p_objs P' = p_objs P /\ p_ifun P' = p_ifun P /\ p_fluents P' = p_fluents P ++ [fk_decl fk] /\
    p_invs P' = p_invs P /\ p_actions P' = map_actions (tcr_action smp mon [c]) (p_actions P) /\
    p_goals P' = add_goals [smp (mkAnd (p_goals P ++ [EFluent fk []]))].
  Proof.
    unfold tcr_compile in Hcomp. cbn [existsb refused c orb] in Hcomp. inversion Hcomp; subst P'. cbn.
    unfold landmark_goal, m_atom. cbn [filter is_landmark c map mkAnd]. fold c. rewrite atom_idx_c.
    repeat split; reflexivity.
  Qed.

  Lemma step_sometime s s' aid a args m : G s -> agree_off fk s s' -> s' fk [] = Some (VBool m) ->
    (holds false (mk_interp P s []) phi = true -> m = true) ->
    lookup_action P aid = Some a ->
    match spec_step false P s a args,
          match lookup_action P' aid with Some a' => spec_step false P' s' a' args | None => None end with
    | Some t, Some t' => agree_off fk t t' /\ t' fk [] = Some (VBool (m || holds false (mk_interp P t []) phi))
    | None, None => True
    | _, _ => False
    end.
  Proof.
    intros Gs Hs Hm Hinv Hlk. destruct P'_eq1 as (Ho & Hi & Hfl & Hv & Ha & _).
    destruct fresh_parts as (Hfa & Hfi & _ & Hfp). destruct (Hfa aid a Hlk) as [Hca HcR].
    unfold lookup_action in *. rewrite Ha, (lookup_map_actions _ _ _ Huniq), Hlk.
    destruct (tcr_action_sometime a) as [E [-> HE]].
    assert (Hpa : a_params a = []) by (apply (a_params_nil P Hgp aid a); exact Hlk).
    destruct (existsb is_false (a_pre a)) eqn:Efp.
    { (* FALSE among the original preconditions: the original action is never applicable *)
      rewrite spec_step_eq. apply existsb_exists in Efp. destruct Efp as [x [Hx Fx]].
      destruct (all_hold false (mk_interp P s (zip_params (a_params a) args)) (a_pre a)) eqn:Eh; [|exact I].
      pose proof (all_hold_In false _ _ x Eh Hx) as Hxx. destruct x; try discriminate. destruct b; discriminate. }
    set (a' := {| a_params := a_params a; a_pre := a_pre a; a_effs := a_effs a ++ E |}).
    (* value and definedness of the regressed formula, when the original step exists *)
    assert (HK : forall t, spec_step false P s a args = Some t ->
               eval false (R smp a phi) (mk_interp P s []) = Some (VBool (holds false (mk_interp P t []) phi))).
    { intros t Hst.
      destruct (regression_step P s a args t phi (a_ground P Hgp aid a Hlk) (Greg s aid a Gs Hlk) Hst Hgf Hgb (Gdef s Gs))
        as (Ev & _ & D).
      unfold R. rewrite Hsmp, Ev. unfold isB in D. unfold holds.
      destruct (eval false phi (mk_interp P t [])) as [[[|]| |]|]; try discriminate; reflexivity. }
    pose proof (mk_irel fk P P' Ho Hi s s' (zip_params (a_params a) args) Hs) as HR.
    destruct HE as [[-> Hreason] | ->].
    - (* nothing added *)
      pose proof (step_with fk P P' Ho Hi Hfl Hv Hfi a a' args s s' false Hs Hca eq_refl eq_refl) as Hst.
      cbn [a' a_effs] in Hst. rewrite app_nil_r in Hst.
      assert (Hf0 : fired false (mk_interp P' s' (zip_params (a_params a) args)) (a_effs a) =
                    match collect_res (eres_list false (mk_interp P' s' (zip_params (a_params a) args)) (a_effs a)) with
                    | Some acts => Some acts | None => None end)
        by (unfold fired, eres_list; destruct (collect_res _); reflexivity).
      specialize (Hst Hf0).
      destruct (spec_step false P s a args) as [t|] eqn:Est; destruct (spec_step false P' s' a' args) as [t'|];
        try exact Hst; try exact I.
      destruct Hst as [H1 H2]. split; [exact H1|]. rewrite H2, Hm. f_equal. f_equal.
      assert (Hphi : holds false (mk_interp P t []) phi = true -> m = true).
      { intros Ht. destruct Hreason as [Hirr | [Heq | Hfalse]].
        - apply Hinv. rewrite <- Ht. symmetry.
          apply (K2 [EAlways phi] P G Hgp AO Greg GdefA s t aid a args Gs Hlk Est phi (or_introl eq_refl)). exact Hirr.
        - apply Hinv. pose proof (HK t eq_refl) as Hk. rewrite Heq in Hk. unfold holds. rewrite Hk, Ht. reflexivity.
        - exfalso. pose proof (HK t eq_refl) as Hk. rewrite <- (Hsmp (R smp a phi)) in Hk.
          destruct (smp (R smp a phi)); try discriminate. destruct b; try discriminate. cbn [eval] in Hk. rewrite Ht in Hk. discriminate. }
      destruct (holds false (mk_interp P t []) phi); [rewrite (Hphi eq_refl); reflexivity | rewrite orb_false_r; reflexivity].
    - (* the conditional effect `if R then fk := true` *)
      destruct (spec_step false P s a args) as [t|] eqn:Est.
      + pose proof (HK t eq_refl) as Hk.
        assert (Hk' : eval false (R smp a phi) (mk_interp P' s' (zip_params (a_params a) args)) =
                      Some (VBool (holds false (mk_interp P t []) phi))).
        { rewrite (eval_cleanf fk false _ _ _ HR HcR), Hpa. exact Hk. }
        pose proof (step_with fk P P' Ho Hi Hfl Hv Hfi a a' args s s' (holds false (mk_interp P t []) phi) Hs Hca eq_refl eq_refl) as Hst.
        assert (Hfire : fired false (mk_interp P' s' (zip_params (a_params a) args)) (a_effs a') =
                 match collect_res (eres_list false (mk_interp P' s' (zip_params (a_params a) args)) (a_effs a)) with
                 | Some acts => Some (if holds false (mk_interp P t []) phi then acts ++ [xact fk true] else acts)
                 | None => None
                 end).
        { cbn [a' a_effs]. unfold fired. rewrite flat_map_app, collect_res_app2.
          fold (eres_list false (mk_interp P' s' (zip_params (a_params a) args)) (a_effs a)).
          destruct (collect_res (eres_list false (mk_interp P' s' (zip_params (a_params a) args)) (a_effs a))) as [acts|]; [|reflexivity].
          unfold meff. cbn [flat_map e_vars instances map app]. unfold eval_effect. cbn [e_args e_cond e_val e_fl e_kind evals_l].
          rewrite Hk'. destruct (holds false (mk_interp P t []) phi); cbn [eval collect_res]; [reflexivity | rewrite app_nil_r; reflexivity]. }
        specialize (Hst Hfire). rewrite Est in Hst.
        destruct (spec_step false P' s' a' args) as [t'|]; [|exact Hst].
        destruct Hst as [H1 H2]. split; [exact H1|]. rewrite H2.
        destruct (holds false (mk_interp P t []) phi); [rewrite orb_true_r; reflexivity | rewrite orb_false_r; exact Hm].
      + (* the original step fails: so does the compiled one (same preconditions, the original effects, invariants) *)
        rewrite spec_step_eq in Est |- *. cbn [a' a_params a_pre a_effs].
        unfold action_cleanf in Hca. apply andb_true_iff in Hca. destruct Hca as [Hc1 Hc2].
        rewrite (all_hold_cleanf fk false _ _ (a_pre a) HR Hc1).
        destruct (negb (all_hold false (mk_interp P s (zip_params (a_params a) args)) (a_pre a))); [exact I|].
        unfold fired. rewrite flat_map_app, collect_res_app2.
        fold (eres_list false (mk_interp P' s' (zip_params (a_params a) args)) (a_effs a)).
        rewrite (eres_list_cleanf fk false _ _ (a_effs a) HR Hc2).
        change (fired false (mk_interp P s (zip_params (a_params a) args)) (a_effs a))
          with (collect_res (eres_list false (mk_interp P s (zip_params (a_params a) args)) (a_effs a))) in Est.
        destruct (collect_res (eres_list false (mk_interp P s (zip_params (a_params a) args)) (a_effs a))) as [acts|] eqn:EF; [|exact I].
        assert (Hn : no_fk fk acts) by (eapply fired_nofk; eassumption).
        unfold meff. cbn [flat_map e_vars instances map app]. unfold eval_effect. cbn [e_args e_cond e_val e_fl e_kind evals_l].
        destruct (eval false (R smp a phi) (mk_interp P' s' (zip_params (a_params a) args))) as [[[|]| |]|]; cbn [eval collect_res]; try exact I.
        * change {| ae_key := (fk, []); ae_kind := KAssign; ae_val := VBool true |} with (xact fk true).
          rewrite (effects_ok_extra fk P P' Hfl s s' acts true Hs Hn).
          destruct (negb (spec_effects_ok P s acts)); [exact I|].
          destruct (succ_extra fk P P' Hfl s s' acts true Hs Hn) as [Ha' _].
          rewrite (invariants_cleanf fk P P' Ho Hi Hfl Hv Hfi _ _ Ha').
          destruct (invariants_ok false P (spec_succ P s acts)); [discriminate | exact I].
        * rewrite app_nil_r, (effects_ok0 fk P P' Hfl s s' acts Hs Hn).
          destruct (negb (spec_effects_ok P s acts)); [exact I|].
          destruct (succ0 fk P P' Hfl s s' acts Hs Hn) as [Ha' _].
          rewrite (invariants_cleanf fk P P' Ho Hi Hfl Hv Hfi _ _ Ha').
          destruct (invariants_ok false P (spec_succ P s acts)); [discriminate | exact I].
        * rewrite app_nil_r, (effects_ok0 fk P P' Hfl s s' acts Hs Hn).
          destruct (negb (spec_effects_ok P s acts)); [exact I|].
          destruct (succ0 fk P P' Hfl s s' acts Hs Hn) as [Ha' _].
          rewrite (invariants_cleanf fk P P' Ho Hi Hfl Hv Hfi _ _ Ha').
          destruct (invariants_ok false P (spec_succ P s acts)); [discriminate | exact I].
        * rewrite app_nil_r, (effects_ok0 fk P P' Hfl s s' acts Hs Hn).
          destruct (negb (spec_effects_ok P s acts)); [exact I|].
          destruct (succ0 fk P P' Hfl s s' acts Hs Hn) as [Ha' _].
          rewrite (invariants_cleanf fk P P' Ho Hi Hfl Hv Hfi _ _ Ha').
          destruct (invariants_ok false P (spec_succ P s acts)); [discriminate | exact I].
  Qed.

  Lemma lookup_none1 aid : lookup_action P aid = None -> lookup_action P' aid = None.
  Proof.
    intros H. destruct P'_eq1 as (_ & _ & _ & _ & Ha & _). unfold lookup_action in *.
    rewrite Ha, (lookup_map_actions _ _ _ Huniq), H. reflexivity.
  Qed.

  (* runs: the compiled run exists iff the original one does; the states agree off fk and fk records "phi seen" *)
  Lemma run_sometime pi : forall s s' m, G s -> agree_off fk s s' -> s' fk [] = Some (VBool m) ->
    (holds false (mk_interp P s []) phi = true -> m = true) ->
    match run P (spec_step false P) s pi, run P' (spec_step false P') s' pi with
    | Some t, Some t' => agree_off fk t t' /\ t' fk [] = Some (VBool (m || sometime_seen P phi s pi))
    | None, None => True
    | _, _ => False
    end.
  Proof.
    induction pi as [|[aid args] r IH]; intros s s' m Gs Hs Hm Hinv.
    - cbn [run sometime_seen]. split; [exact Hs|]. rewrite Hm, orb_false_r.
      destruct (holds false (mk_interp P s []) phi) eqn:E; [rewrite (Hinv eq_refl) | rewrite orb_false_r]; reflexivity.
    - cbn [run sometime_seen].
      destruct (lookup_action P aid) as [a|] eqn:Hlk; [|rewrite (lookup_none1 aid Hlk); exact I].
      pose proof (step_sometime s s' aid a args m Gs Hs Hm Hinv Hlk) as Hst.
      destruct (spec_step false P s a args) as [t|] eqn:Est.
      + destruct (lookup_action P' aid) as [a'|]; [|destruct Hst].
        destruct (spec_step false P' s' a' args) as [t'|]; [|destruct Hst]. destruct Hst as [H1 H2].
        assert (Hinv' : holds false (mk_interp P t []) phi = true -> m || holds false (mk_interp P t []) phi = true)
          by (intros ->; apply orb_true_r).
        pose proof (IH t t' _ (Gstep s aid a args t Gs Hlk Est) H1 H2 Hinv') as HI.
        destruct (run P (spec_step false P) t r) as [u|], (run P' (spec_step false P') t' r) as [u'|]; try exact HI.
        destruct HI as [I1 I2]. split; [exact I1|]. rewrite I2. f_equal. f_equal.
        assert (Ess : sometime_seen P phi t r = holds false (mk_interp P t []) phi || sometime_seen P phi t r)
          by (destruct r as [|[? ?] ?]; cbn [sometime_seen]; destruct (holds false (mk_interp P t []) phi); reflexivity).
        destruct (holds false (mk_interp P s []) phi) eqn:Es; [rewrite (Hinv eq_refl); reflexivity|].
        cbn [orb]. rewrite Ess at 2. rewrite orb_assoc. reflexivity.
      + destruct (lookup_action P' aid) as [a'|]; [|exact I]. destruct (spec_step false P' s' a' args); [destruct Hst | exact I].
  Qed.

  Lemma goals_sometime t t' : agree_off fk t t' ->
    goals_hold false P' t' = goals_hold false P t && holds false (mk_interp P' t' []) (EFluent fk []).
  Proof.
    intros Ht. destruct P'_eq1 as (Ho & Hi & _ & _ & _ & Hg). destruct fresh_parts as (_ & _ & Hfg & _).
    unfold goals_hold. rewrite Hg. unfold add_goals. cbn [filter].
    assert (E : holds false (mk_interp P' t' []) (smp (mkAnd (p_goals P ++ [EFluent fk []]))) =
                all_hold false (mk_interp P t []) (p_goals P) && holds false (mk_interp P' t' []) (EFluent fk [])).
    { unfold holds at 1. rewrite Hsmp. fold (holds false (mk_interp P' t' []) (mkAnd (p_goals P ++ [EFluent fk []]))).
      rewrite holds_mkAnd. unfold all_hold at 1. rewrite forallb_app. cbn [forallb]. rewrite andb_true_r.
      fold (all_hold false (mk_interp P' t' []) (p_goals P)).
      rewrite (all_hold_cleanf fk false _ _ (p_goals P) (mk_irel fk P P' Ho Hi t t' [] Ht) Hfg). reflexivity. }
    destruct (is_true (smp (mkAnd (p_goals P ++ [EFluent fk []])))) eqn:Et; cbn [negb].
    - rewrite <- E, (holds_true false _ _ Et). reflexivity.
    - unfold all_hold at 1. cbn [forallb]. rewrite andb_true_r. exact E.
  Qed.

  (* PLAN LEVEL, one `sometime phi`: the compiled problem accepts exactly the valid plans of the original problem along
     which phi holds in some visited state (the initial one included) *)
  Theorem tcr_sometime_plan s0 s0' pi : G s0 -> agree_off fk s0 s0' ->
    s0' fk [] = Some (VBool (holds false (mk_interp P s0 []) phi)) ->
    valid_plan false P' s0' pi = valid_plan false P s0 pi && sometime_seen P phi s0 pi.
  Proof.
    intros G0 H0 Hm. unfold valid_plan.
    pose proof (run_sometime pi s0 s0' _ G0 H0 Hm (fun H => H)) as HR.
    destruct (run P (spec_step false P) s0 pi) as [t|], (run P' (spec_step false P') s0' pi) as [t'|]; try destruct HR; try reflexivity.
    rewrite (goals_sometime t t' H). f_equal. unfold holds. rewrite eval_EFluent. cbn [evals mk_interp fl]. rewrite H1.
    assert (Es : holds false (mk_interp P s0 []) phi || sometime_seen P phi s0 pi = sometime_seen P phi s0 pi)
      by (destruct pi as [|[? ?] ?]; cbn [sometime_seen]; destruct (holds false (mk_interp P s0 []) phi); reflexivity).
    rewrite Es. destruct (sometime_seen P phi s0 pi); reflexivity.
  Qed.
End SometimePlan.

(* the compiled initial state ([tcr_init]: the monitoring atom is true iff its initial expression simplified to TRUE)
   satisfies the two conditions of [tcr_sometime_plan] when the initial evaluation is exact *)
Lemma tcr_init_sometime smp sub0 mon phi P s0 :
  is_true (smp (sub0 phi)) = holds false (mk_interp P s0 []) phi ->
  agree_off (mon 0) s0 (tcr_init smp sub0 mon [ESometime phi] s0) /\
  tcr_init smp sub0 mon [ESometime phi] s0 (mon 0) [] = Some (VBool (holds false (mk_interp P s0 []) phi)).
Proof.
  intros H. unfold tcr_init, n_atoms, init_true. cbn [atoms_from is_always length seq existsb flat_map fst snd init_expr app].
  split.
  - intros f x Hf. replace (mon 0%nat =? f)%N with false by (symmetry; apply N.eqb_neq; congruence). reflexivity.
  - rewrite N.eqb_refl. cbn [orb]. rewrite H. destruct (holds false (mk_interp P s0 []) phi); cbn; rewrite ?N.eqb_refl; reflexivity.
Qed.

(* ================================================================== PART 5: plan level, one `at-most-once` constraint *)
Lemma gdef_B P s phi : gform phi = true -> gdef s phi = true -> exists b, B (mk_interp P s []) phi b.
Proof.
  induction phi using expr_ind'; intros Hg Hd; try discriminate.
  - exists b. reflexivity.
  - cbn [gform gdef] in *. destruct (s f (vals_of args)) as [[sf| |]|] eqn:Es; try discriminate. exists sf.
    unfold B. rewrite eval_EFluent, (evals_oargs false _ _ Hg). exact Es.
  - cbn [gform gdef] in *. rewrite forallb_forall in Hg, Hd.
    assert (HF : exists bs, Forall2 (B (mk_interp P s [])) l bs).
    { induction l as [|x l IHl]; [exists []; constructor|]. inversion H as [|? ? Hx Hl]; subst.
      destruct (Hx (Hg x (or_introl eq_refl)) (Hd x (or_introl eq_refl))) as [b Bx].
      destruct (IHl Hl) as [bs Bs]; try (intros y Hy; auto using in_cons). exists (b :: bs). constructor; assumption. }
    destruct HF as [bs Bs]. eexists. apply B_EAnd, Bs.
  - cbn [gform gdef] in *. rewrite forallb_forall in Hg, Hd.
    assert (HF : exists bs, Forall2 (B (mk_interp P s [])) l bs).
    { induction l as [|x l IHl]; [exists []; constructor|]. inversion H as [|? ? Hx Hl]; subst.
      destruct (Hx (Hg x (or_introl eq_refl)) (Hd x (or_introl eq_refl))) as [b Bx].
      destruct (IHl Hl) as [bs Bs]; try (intros y Hy; auto using in_cons). exists (b :: bs). constructor; assumption. }
    destruct HF as [bs Bs]. eexists. apply B_EOr, Bs.
  - cbn [gform gdef] in *. destruct (IHphi Hg Hd) as [b Bx]. eexists. apply B_ENot, Bx.
Qed.

(* what the evaluation of the added effect `if Rc then fk := true` yields *)
Definition fire_of (v : option value) : option bool :=
  match v with Some (VBool true) => Some true | Some _ => Some false | None => None end.

Lemma fired_meff fk I' effs Rc :
  fired false I' (effs ++ [meff fk true Rc]) =
  match collect_res (eres_list false I' effs) with
  | Some acts => match fire_of (eval false Rc I') with
                 | Some true => Some (acts ++ [xact fk true]) | Some false => Some acts | None => None end
  | None => None
  end.
Proof.
  unfold fired. rewrite flat_map_app, collect_res_app2. fold (eres_list false I' effs).
  destruct (collect_res (eres_list false I' effs)) as [acts|]; [|reflexivity].
  unfold meff. cbn [flat_map e_vars instances map app]. unfold eval_effect. cbn [e_args e_cond e_val e_fl e_kind evals_l].
  destruct (eval false Rc I') as [[[|]| |]|]; cbn [eval collect_res fire_of]; rewrite ?app_nil_r; reflexivity.
Qed.

Lemma fired_plain I' effs :
  fired false I' (effs ++ []) =
  match collect_res (eres_list false I' effs) with Some acts => Some acts | None => None end.
Proof. rewrite app_nil_r. unfold fired, eres_list. destruct (collect_res _); reflexivity. Qed.

Section GuardedStep.
  Variable fk : N.
  Variables P P' : problem.
  Hypothesis Ho : p_objs P' = p_objs P.
  Hypothesis Hi : p_ifun P' = p_ifun P.
  Hypothesis Hfl : p_fluents P' = p_fluents P ++ [fk_decl fk].
  Hypothesis Hv : p_invs P' = p_invs P.
  Hypothesis Hinvc : forallb (cleanf fk) (p_invs P ++ bound_invs P) = true.

  (* the compiled action = the original one + a precondition whose value is X + possibly the effect fk := true, whose
     evaluation yields [fire] (None = it cannot be evaluated) *)
  Lemma step_with2 a a' args s s' (X : bool) (fire : option bool) :
    agree_off fk s s' -> action_cleanf fk a = true -> a_params a' = a_params a ->
    all_hold false (mk_interp P' s' (zip_params (a_params a) args)) (a_pre a') =
      all_hold false (mk_interp P' s' (zip_params (a_params a) args)) (a_pre a) && X ->
    fired false (mk_interp P' s' (zip_params (a_params a) args)) (a_effs a') =
      match collect_res (eres_list false (mk_interp P' s' (zip_params (a_params a) args)) (a_effs a)) with
      | Some acts => match fire with
                     | Some true => Some (acts ++ [xact fk true]) | Some false => Some acts | None => None end
      | None => None
      end ->
    match spec_step false P s a args, spec_step false P' s' a' args with
    | Some t, Some t' => X = true /\ agree_off fk t t' /\
                         match fire with
                         | Some true => t' fk [] = Some (VBool true) | Some false => t' fk [] = s' fk [] | None => False
                         end
    | Some t, None => X = false \/ fire = None
    | None, None => True
    | None, Some _ => False
    end.
  Proof.
    intros Hs Hc Hp Hpre Hfi. unfold action_cleanf in Hc. apply andb_true_iff in Hc. destruct Hc as [Hc1 Hc2].
    rewrite !spec_step_eq. rewrite Hp, Hpre, Hfi.
    pose proof (mk_irel fk P P' Ho Hi s s' (zip_params (a_params a) args) Hs) as HR.
    rewrite (all_hold_cleanf fk false _ _ (a_pre a) HR Hc1).
    rewrite (eres_list_cleanf fk false _ _ (a_effs a) HR Hc2).
    change (fired false (mk_interp P s (zip_params (a_params a) args)) (a_effs a))
      with (collect_res (eres_list false (mk_interp P s (zip_params (a_params a) args)) (a_effs a))).
    destruct (all_hold false (mk_interp P s (zip_params (a_params a) args)) (a_pre a)); cbn [andb negb]; [|exact I].
    destruct (collect_res (eres_list false (mk_interp P s (zip_params (a_params a) args)) (a_effs a))) as [acts|] eqn:EF.
    2:{ destruct X; exact I. }
    assert (Hn : no_fk fk acts) by (eapply fired_nofk; eassumption).
    destruct X; cbn [negb].
    2:{ destruct (negb (spec_effects_ok P s acts)); [exact I|].
        destruct (invariants_ok false P (spec_succ P s acts)); [left; reflexivity | exact I]. }
    destruct fire as [[|]|].
    - rewrite (effects_ok_extra fk P P' Hfl s s' acts true Hs Hn).
      destruct (negb (spec_effects_ok P s acts)); [exact I|].
      destruct (succ_extra fk P P' Hfl s s' acts true Hs Hn) as [Ha Hb].
      rewrite (invariants_cleanf fk P P' Ho Hi Hfl Hv Hinvc _ _ Ha).
      destruct (invariants_ok false P (spec_succ P s acts)); [repeat split; assumption | exact I].
    - rewrite (effects_ok0 fk P P' Hfl s s' acts Hs Hn).
      destruct (negb (spec_effects_ok P s acts)); [exact I|].
      destruct (succ0 fk P P' Hfl s s' acts Hs Hn) as [Ha Hb].
      rewrite (invariants_cleanf fk P P' Ho Hi Hfl Hv Hinvc _ _ Ha).
      destruct (invariants_ok false P (spec_succ P s acts)); [repeat split; assumption | exact I].
    - destruct (negb (spec_effects_ok P s acts)); [exact I|].
      destruct (invariants_ok false P (spec_succ P s acts)); [right; reflexivity | exact I].
  Qed.
End GuardedStep.

Section AmoPlan.
  Variable smp sub0 : expr -> expr.
  Variable mon : nat -> N.
  Variable phi : expr.
  Variable P : problem.
  Variable G : state -> Prop.
  Let c := EAtMostOnce phi.
  Let fk := mon 0.

  Hypothesis Hsmp : smp_exact smp.
  Hypothesis Huniq : unique_ids P.
  Hypothesis Hgp : gproblem P = true.
  Hypothesis Hgf : gform phi = true.
  Hypothesis Hgb : gbool P phi = true.
  Hypothesis Hfresh : tcr_fresh1 smp fk P phi = true.
  Hypothesis Gstep : forall s aid a args t, G s -> lookup_action P aid = Some a -> spec_step false P s a args = Some t -> G t.
  Hypothesis Greg : forall s aid a, G s -> lookup_action P aid = Some a -> reg_ok P s a = true.
  Hypothesis Gdef : forall s, G s -> gdef s phi = true.

  Let AO : always_only P [EAlways phi] = true.
  Proof. unfold always_only. cbn [forallb]. rewrite Hgf, Hgb. reflexivity. Qed.
  Let GdefA : forall s x, G s -> In (EAlways x) [EAlways phi] -> gdef s x = true.
  Proof. intros s x Gs [H|[]]. inversion H; subst. apply Gdef, Gs. Qed.

  Lemma atom_idx_amo : atom_idx [c] c = 0.
  Proof. unfold atom_idx, c. cbn [atoms_from is_always rev app find fst snd]. rewrite expr_eqb_refl. reflexivity. Qed.

  (* rho = simplify(Or(Not(R), Not(m_atom), phi)) *)
  Definition rho (a : action) : expr := smp (mkOr [mkNot (R smp a phi); mkNot (EFluent fk []); phi]).

  Lemma tcr_action_amo a : exists pres E,
    tcr_action smp mon [c] a =
      (if existsb is_false pres then None
       else Some {| a_params := a_params a; a_pre := pres; a_effs := a_effs a ++ E |}) /\
    ((pres = a_pre a /\ E = [] /\ ((forall e, In e (a_effs a) -> mentions c e = false) \/ R smp a phi = phi)) \/
     (pres = add_pre (a_pre a) (rho a) /\
      ((E = [] /\ is_false (smp (R smp a phi)) = true) \/ E = [meff fk true (R smp a phi)]))).
  Proof.
    unfold tcr_action.
    assert (Hall : forall x, In x (flat_map (fun e => filter (fun c0 => mentions c0 e) [c]) (a_effs a)) -> x = c).
    { intros x Hx. apply in_flat_map in Hx. destruct Hx as [e [_ Hx]]. apply filter_In in Hx. destruct Hx as [[<-|[]] _]. reflexivity. }
    destruct (dedup_single c _ Hall) as [_ [E0|E1]]; unfold relevant_cs.
    - rewrite E0. cbn [handle_all]. exists (a_pre a), []. split; [reflexivity|]. left. split; [reflexivity|]. split; [reflexivity|]. left.
      intros e He. destruct (mentions c e) eqn:Em; [|reflexivity]. exfalso.
      assert (Hin : In c (dedup_acc [] (flat_map (fun e => filter (fun c0 => mentions c0 e) [c]) (a_effs a)))).
      { apply dedup_acc_in. right. apply in_flat_map. exists e. split; [exact He|]. cbn [filter]. rewrite Em. left; reflexivity. }
      rewrite E0 in Hin. destruct Hin.
    - rewrite E1. cbn [handle_all]. unfold c at 2. cbn [handle]. fold c. rewrite atom_idx_amo. fold fk. unfold h_amo.
      destruct (expr_eqb (R smp a phi) phi) eqn:Er.
      + exists (a_pre a), []. split; [reflexivity|]. left. split; [reflexivity|]. split; [reflexivity|]. right. apply expr_eqb_eq, Er.
      + fold (rho a). unfold add_cond_eff. destruct (is_false (smp (R smp a phi))) eqn:Ef.
        * exists (add_pre (a_pre a) (rho a)), []. split; [reflexivity|]. right. split; [reflexivity|]. left. split; [reflexivity | first [exact Ef | reflexivity]].
        * exists (add_pre (a_pre a) (rho a)), [meff fk true (R smp a phi)]. split; [reflexivity|]. right. split; [reflexivity|]. right. reflexivity.
  Qed.

  Lemma fresh_parts_amo :
    (forall aid a, lookup_action P aid = Some a -> action_cleanf fk a = true /\ cleanf fk (R smp a phi) = true) /\
    forallb (cleanf fk) (p_invs P ++ bound_invs P) = true /\ forallb (cleanf fk) (p_goals P) = true /\ cleanf fk phi = true.
  Proof.
    unfold tcr_fresh1 in Hfresh. apply andb_true_iff in Hfresh. destruct Hfresh as [H H4].
    apply andb_true_iff in H. destruct H as [H H3]. apply andb_true_iff in H. destruct H as [H1 H2].
    repeat split; try assumption; intros; rewrite forallb_forall in H1; unfold lookup_action in *;
      match goal with Hl : lookupN _ _ = Some _ |- _ => apply lookupN_In in Hl; specialize (H1 _ Hl); cbn [snd] in H1;
        apply andb_true_iff in H1; destruct H1; assumption end.
  Qed.

  Variable P' : problem.
  Hypothesis Hcomp : tcr_compile smp sub0 mon [c] P = Some P'.

  Lemma P'_eq_amo : p_objs P' = p_objs P /\ p_ifun P' = p_ifun P /\ p_fluents P' = p_fluents P ++ [fk_decl fk] /\
    p_invs P' = p_invs P /\ p_actions P' = map_actions (tcr_action smp mon [c]) (p_actions P) /\
    p_goals P' = add_goals [smp (mkAnd (p_goals P ++ [EBool true]))].
  Proof.
    unfold tcr_compile in Hcomp. cbn [existsb refused c orb] in Hcomp. inversion Hcomp; subst P'. cbn.
    repeat split; reflexivity.
  Qed.

  Lemma step_amo s s' aid a args m : G s -> agree_off fk s s' -> s' fk [] = Some (VBool m) ->
    (holds false (mk_interp P s []) phi = true -> m = true) ->
    lookup_action P aid = Some a ->
    match spec_step false P s a args,
          match lookup_action P' aid with Some a' => spec_step false P' s' a' args | None => None end with
    | Some t, Some t' =>
        negb (holds false (mk_interp P t []) phi) || negb m || holds false (mk_interp P s []) phi = true /\
        agree_off fk t t' /\ t' fk [] = Some (VBool (m || holds false (mk_interp P t []) phi))
    | Some t, None => negb (holds false (mk_interp P t []) phi) || negb m || holds false (mk_interp P s []) phi = false
    | None, None => True
    | None, Some _ => False
    end.
  Proof.
    intros Gs Hs Hm Hinv Hlk. destruct P'_eq_amo as (Ho & Hi & Hfl & Hv & Ha & _).
    destruct fresh_parts_amo as (Hfa & Hfi & _ & Hfp). destruct (Hfa aid a Hlk) as [Hca HcR].
    unfold lookup_action in *. rewrite Ha, (lookup_map_actions _ _ _ Huniq), Hlk.
    destruct (tcr_action_amo a) as [pres [E [-> HE]]].
    assert (Hpa : a_params a = []) by (apply (a_params_nil P Hgp aid a); exact Hlk).
    set (I' := mk_interp P' s' (zip_params (a_params a) args)).
    pose proof (mk_irel fk P P' Ho Hi s s' (zip_params (a_params a) args) Hs) as HR. fold I' in HR.
    assert (HK : forall t, spec_step false P s a args = Some t ->
               eval false (R smp a phi) (mk_interp P s []) = Some (VBool (holds false (mk_interp P t []) phi))).
    { intros t Hst.
      destruct (regression_step P s a args t phi (a_ground P Hgp aid a Hlk) (Greg s aid a Gs Hlk) Hst Hgf Hgb (Gdef s Gs))
        as (Ev & _ & D).
      unfold R. rewrite Hsmp, Ev. unfold isB in D. unfold holds.
      destruct (eval false phi (mk_interp P t [])) as [[[|]| |]|]; try discriminate; reflexivity. }
    destruct (gdef_B P s phi Hgf (Gdef s Gs)) as [ps Bps].
    assert (Eps : holds false (mk_interp P s []) phi = ps) by (apply B_holds; exact Bps).
    assert (EI : mk_interp P s (zip_params (a_params a) args) = mk_interp P s []) by (rewrite Hpa; reflexivity).
    set (a' := {| a_params := a_params a; a_pre := pres; a_effs := a_effs a ++ E |}).
    (* X: the value of the added precondition; fire: the result of the added effect *)
    assert (Hcore : exists X fire,
      all_hold false I' pres = all_hold false I' (a_pre a) && X /\
      fired false I' (a_effs a ++ E) =
        match collect_res (eres_list false I' (a_effs a)) with
        | Some acts => match fire with Some true => Some (acts ++ [xact fk true]) | Some false => Some acts | None => None end
        | None => None end /\
      forall t, spec_step false P s a args = Some t ->
        X = (negb (holds false (mk_interp P t []) phi) || negb m || ps) /\
        (X = true -> fire = Some (holds false (mk_interp P t []) phi) \/
                     (fire = Some false /\ (holds false (mk_interp P t []) phi = true -> m = true)))).
    { destruct HE as [(-> & -> & Hreason) | (-> & HE)].
      - exists true, (Some false). split; [rewrite andb_true_r; reflexivity|]. split; [apply fired_plain|].
        intros t Hst.
        assert (Ept : holds false (mk_interp P t []) phi = ps).
        { destruct Hreason as [Hirr | Heq].
          - rewrite <- Eps. apply (K2 [EAlways phi] P G Hgp AO Greg GdefA s t aid a args Gs Hlk Hst phi (or_introl eq_refl)). exact Hirr.
          - pose proof (HK t Hst) as Hk. rewrite Heq in Hk. unfold B in Bps. rewrite Bps in Hk. inversion Hk. reflexivity. }
        split.
        + rewrite Ept. destruct ps, m; reflexivity.
        + intros _. right. split; [reflexivity|]. intros Ht. apply Hinv. rewrite Eps, <- Ept. exact Ht.
      - (* the precondition rho is added *)
        assert (HX : forall t, spec_step false P s a args = Some t ->
                  holds false I' (rho a) = negb (holds false (mk_interp P t []) phi) || negb m || ps).
        { intros t Hst. unfold rho. unfold holds at 1. rewrite Hsmp.
          assert (B1 : B I' (R smp a phi) (holds false (mk_interp P t []) phi)).
          { unfold B. rewrite (eval_cleanf fk false _ _ _ HR HcR), EI. apply HK, Hst. }
          assert (B2 : B I' (EFluent fk []) m).
          { unfold B. rewrite eval_EFluent. cbn [evals]. unfold I'. cbn [mk_interp fl]. exact Hm. }
          assert (B3 : B I' phi ps).
          { unfold B. rewrite (eval_cleanf fk false _ _ _ HR Hfp), EI. exact Bps. }
          pose proof (B_mkOr I' _ _ (Forall2_cons _ _ (B_mkNot _ _ _ B1)
                       (Forall2_cons _ _ (B_mkNot _ _ _ B2) (Forall2_cons _ _ B3 (Forall2_nil _))))) as Bo.
          unfold B in Bo. rewrite Bo. cbn [existsb]. rewrite orb_false_r, orb_assoc.
          destruct (negb (holds false (mk_interp P t []) phi) || negb m || ps); reflexivity. }
        destruct HE as [[-> Hfalse] | ->].
        + exists (holds false I' (rho a)), (Some false). split; [apply all_hold_add_pre|]. split; [apply fired_plain|].
          intros t Hst. split; [apply HX, Hst|]. intros _. right. split; [reflexivity|]. intros Ht. exfalso.
          pose proof (HK t Hst) as Hk. rewrite <- (Hsmp (R smp a phi)) in Hk.
          destruct (smp (R smp a phi)); try discriminate. destruct b; try discriminate. cbn [eval] in Hk. rewrite Ht in Hk. discriminate.
        + exists (holds false I' (rho a)), (fire_of (eval false (R smp a phi) I')).
          split; [apply all_hold_add_pre|]. split; [apply fired_meff|].
          intros t Hst. split; [apply HX, Hst|]. intros _. left.
          rewrite (eval_cleanf fk false _ _ _ HR HcR), EI, (HK t Hst).
          destruct (holds false (mk_interp P t []) phi); reflexivity. }
    destruct Hcore as (X & fire & HpX & HfX & Hsem).
    pose proof (step_with2 fk P P' Ho Hi Hfl Hv Hfi a a' args s s' X fire Hs Hca eq_refl HpX HfX) as Hst.
    rewrite Eps.
    destruct (spec_step false P s a args) as [t|] eqn:Est.
    - destruct (Hsem t eq_refl) as [HXe Hfire].
      destruct (existsb is_false pres) eqn:Efp.
      { (* the action was left out: its preconditions contain FALSE, so X is false *)
        rewrite <- HXe. apply existsb_exists in Efp. destruct Efp as [x [Hx Fx]].
        assert (Hnp : all_hold false I' pres = false).
        { destruct (all_hold false I' pres) eqn:Eh; [|reflexivity].
          pose proof (all_hold_In false _ _ x Eh Hx) as Hxx. destruct x; try discriminate. destruct b; discriminate. }
        rewrite HpX in Hnp.
        assert (Hpre : all_hold false I' (a_pre a) = true).
        { unfold action_cleanf in Hca. apply andb_true_iff in Hca. destruct Hca as [Hc1 _].
          rewrite (all_hold_cleanf fk false _ _ (a_pre a) HR Hc1). rewrite spec_step_eq in Est.
          destruct (all_hold false (mk_interp P s (zip_params (a_params a) args)) (a_pre a)); [reflexivity | discriminate]. }
        rewrite Hpre in Hnp. exact Hnp. }
      fold a'. destruct (spec_step false P' s' a' args) as [t'|].
      + destruct Hst as (HX1 & Hag & Hfk). rewrite <- HXe. split; [exact HX1|]. split; [exact Hag|].
        destruct (Hfire HX1) as [-> | [-> Him]].
        * destruct (holds false (mk_interp P t []) phi); [rewrite Hfk, orb_true_r; reflexivity | rewrite Hfk, Hm, orb_false_r; reflexivity].
        * rewrite Hfk, Hm. destruct (holds false (mk_interp P t []) phi); [rewrite (Him eq_refl); reflexivity | rewrite orb_false_r; reflexivity].
      + rewrite <- HXe. destruct Hst as [HX0 | Hn]; [exact HX0|].
        destruct X; [|reflexivity]. destruct (Hfire eq_refl) as [Hf | [Hf _]]; rewrite Hf in Hn; discriminate.
    - destruct (existsb is_false pres); [exact I|]. fold a'. exact Hst.
  Qed.

  Lemma lookup_none_amo aid : lookup_action P aid = None -> lookup_action P' aid = None.
  Proof.
    intros H. destruct P'_eq_amo as (_ & _ & _ & _ & Ha & _). unfold lookup_action in *.
    rewrite Ha, (lookup_map_actions _ _ _ Huniq), H. reflexivity.
  Qed.

  Lemma run_amo pi : forall s s' m, G s -> agree_off fk s s' -> s' fk [] = Some (VBool m) ->
    (holds false (mk_interp P s []) phi = true -> m = true) ->
    match run P (spec_step false P) s pi, run P' (spec_step false P') s' pi with
    | Some t, Some t' => amo_chk P phi m s pi = true /\ agree_off fk t t'
    | Some t, None => amo_chk P phi m s pi = false
    | None, None => True
    | None, Some _ => False
    end.
  Proof.
    induction pi as [|[aid args] r IH]; intros s s' m Gs Hs Hm Hinv.
    - cbn [run amo_chk]. split; [reflexivity | exact Hs].
    - cbn [run amo_chk].
      destruct (lookup_action P aid) as [a|] eqn:Hlk; [|rewrite (lookup_none_amo aid Hlk); exact I].
      pose proof (step_amo s s' aid a args m Gs Hs Hm Hinv Hlk) as Hst.
      destruct (spec_step false P s a args) as [t|] eqn:Est.
      + destruct (lookup_action P' aid) as [a'|].
        * destruct (spec_step false P' s' a' args) as [t'|].
          -- destruct Hst as (Hc & H1 & H2). rewrite Hc. cbn [andb].
             assert (Hinv' : holds false (mk_interp P t []) phi = true -> m || holds false (mk_interp P t []) phi = true)
               by (intros ->; apply orb_true_r).
             exact (IH t t' _ (Gstep s aid a args t Gs Hlk Est) H1 H2 Hinv').
          -- rewrite Hst. cbn [andb]. destruct (run P (spec_step false P) t r); [reflexivity | exact I].
        * rewrite Hst. cbn [andb]. destruct (run P (spec_step false P) t r); [reflexivity | exact I].
      + destruct (lookup_action P' aid) as [a'|]; [|exact I]. destruct (spec_step false P' s' a' args); [destruct Hst | exact I].
  Qed.

  Lemma goals_amo t t' : agree_off fk t t' -> goals_hold false P' t' = goals_hold false P t.
  Proof.
    intros Ht. destruct P'_eq_amo as (Ho & Hi & _ & _ & _ & Hg). destruct fresh_parts_amo as (_ & _ & Hfg & _).
    unfold goals_hold. rewrite Hg. unfold add_goals. cbn [filter].
    assert (E : holds false (mk_interp P' t' []) (smp (mkAnd (p_goals P ++ [EBool true]))) =
                all_hold false (mk_interp P t []) (p_goals P)).
    { unfold holds at 1. rewrite Hsmp. fold (holds false (mk_interp P' t' []) (mkAnd (p_goals P ++ [EBool true]))).
      rewrite holds_mkAnd. unfold all_hold at 1. rewrite forallb_app. cbn [forallb holds eval]. rewrite andb_true_r.
      fold (all_hold false (mk_interp P' t' []) (p_goals P)).
      apply (all_hold_cleanf fk false _ _ (p_goals P) (mk_irel fk P P' Ho Hi t t' [] Ht) Hfg). }
    destruct (is_true (smp (mkAnd (p_goals P ++ [EBool true])))) eqn:Et; cbn [negb].
    - rewrite <- E, (holds_true false _ _ Et). reflexivity.
    - unfold all_hold at 1. cbn [forallb]. rewrite andb_true_r. exact E.
  Qed.

  (* PLAN LEVEL, one `at-most-once phi`: the compiled problem accepts exactly the valid plans of the original problem
     every step of which passes the at-most-once check *)
  Theorem tcr_amo_plan s0 s0' pi : G s0 -> agree_off fk s0 s0' ->
    s0' fk [] = Some (VBool (holds false (mk_interp P s0 []) phi)) ->
    valid_plan false P' s0' pi =
    valid_plan false P s0 pi && amo_chk P phi (holds false (mk_interp P s0 []) phi) s0 pi.
  Proof.
    intros G0 H0 Hm. unfold valid_plan.
    pose proof (run_amo pi s0 s0' _ G0 H0 Hm (fun H => H)) as HR.
    destruct (run P (spec_step false P) s0 pi) as [t|], (run P' (spec_step false P') s0' pi) as [t'|].
    - destruct HR as [Hc Hag]. rewrite Hc, andb_true_r. apply goals_amo, Hag.
    - rewrite HR, andb_false_r. reflexivity.
    - destruct HR.
    - reflexivity.
  Qed.
End AmoPlan.

Lemma tcr_init_amo smp sub0 mon phi P s0 :
  is_true (smp (sub0 phi)) = holds false (mk_interp P s0 []) phi ->
  agree_off (mon 0) s0 (tcr_init smp sub0 mon [EAtMostOnce phi] s0) /\
  tcr_init smp sub0 mon [EAtMostOnce phi] s0 (mon 0) [] = Some (VBool (holds false (mk_interp P s0 []) phi)).
Proof.
  intros H. unfold tcr_init, n_atoms, init_true. cbn [atoms_from is_always length seq existsb flat_map fst snd init_expr app].
  split.
  - intros f x Hf. replace (mon 0%nat =? f)%N with false by (symmetry; apply N.eqb_neq; congruence). reflexivity.
  - rewrite N.eqb_refl. cbn [orb]. rewrite H. destruct (holds false (mk_interp P s0 []) phi); cbn; rewrite ?N.eqb_refl; reflexivity.
Qed.

(* ================================================================== PART 6: plan level, one `sometime-before` constraint *)
Section SbPlan.
  Variable smp sub0 : expr -> expr.
  Variable mon : nat -> N.
  Variables phi psi : expr.
  Variable P : problem.
  Variable G : state -> Prop.
  Let c := ESometimeBefore phi psi.
  Let fk := mon 0.

  Hypothesis Hsmp : smp_exact smp.
  Hypothesis Huniq : unique_ids P.
  Hypothesis Hgp : gproblem P = true.
  Hypothesis Hgf : gform phi = true.
  Hypothesis Hgb : gbool P phi = true.
  Hypothesis Hgf2 : gform psi = true.
  Hypothesis Hgb2 : gbool P psi = true.
  Hypothesis Hfresh : tcr_fresh1 smp fk P phi = true.
  Hypothesis Hfresh2 : tcr_fresh1 smp fk P psi = true.
  Hypothesis Gstep : forall s aid a args t, G s -> lookup_action P aid = Some a -> spec_step false P s a args = Some t -> G t.
  Hypothesis Greg : forall s aid a, G s -> lookup_action P aid = Some a -> reg_ok P s a = true.
  Hypothesis Gdef : forall s, G s -> gdef s phi = true.
  Hypothesis Gdef2 : forall s, G s -> gdef s psi = true.

  Let AO1 : always_only P [EAlways phi] = true.
  Proof. unfold always_only. cbn [forallb]. rewrite Hgf, Hgb. reflexivity. Qed.
  Let AO2 : always_only P [EAlways psi] = true.
  Proof. unfold always_only. cbn [forallb]. rewrite Hgf2, Hgb2. reflexivity. Qed.
  Let GdefA1 : forall s x, G s -> In (EAlways x) [EAlways phi] -> gdef s x = true.
  Proof. intros s x Gs [H|[]]. inversion H; subst. apply Gdef, Gs. Qed.
  Let GdefA2 : forall s x, G s -> In (EAlways x) [EAlways psi] -> gdef s x = true.
  Proof. intros s x Gs [H|[]]. inversion H; subst. apply Gdef2, Gs. Qed.

  Lemma atom_idx_sb : atom_idx [c] c = 0.
  Proof. unfold atom_idx, c. cbn [atoms_from is_always rev app find fst snd]. rewrite !expr_eqb_refl. reflexivity. Qed.

  (* rho = simplify(Or(Not(R_phi), m_atom)) *)
  Definition rho_sb (a : action) : expr := smp (mkOr [mkNot (R smp a phi); EFluent fk []]).
  Definition irrelevant (a : action) : Prop := forall e, In e (a_effs a) -> mentions c e = false.

  Lemma irrelevant_parts a : irrelevant a ->
    (forall e, In e (a_effs a) -> mentions (EAlways phi) e = false) /\
    (forall e, In e (a_effs a) -> mentions (EAlways psi) e = false).
  Proof.
    intros H. split; intros e He; specialize (H e He); unfold mentions in *; cbn [fluent_exps c] in *;
      rewrite existsb_app in H; apply orb_false_iff in H; tauto.
  Qed.

  Lemma tcr_action_sb a : exists pres E,
    tcr_action smp mon [c] a =
      (if existsb is_false pres then None
       else Some {| a_params := a_params a; a_pre := pres; a_effs := a_effs a ++ E |}) /\
    ((pres = a_pre a /\ (irrelevant a \/ R smp a phi = phi)) \/ pres = add_pre (a_pre a) (rho_sb a)) /\
    ((E = [] /\ (irrelevant a \/ R smp a psi = psi \/ is_false (smp (R smp a psi)) = true)) \/
     E = [meff fk true (R smp a psi)]).
  Proof.
    unfold tcr_action.
    assert (Hall : forall x, In x (flat_map (fun e => filter (fun c0 => mentions c0 e) [c]) (a_effs a)) -> x = c).
    { intros x Hx. apply in_flat_map in Hx. destruct Hx as [e [_ Hx]]. apply filter_In in Hx. destruct Hx as [[<-|[]] _]. reflexivity. }
    destruct (dedup_single c _ Hall) as [_ [E0|E1]]; unfold relevant_cs.
    - assert (Hirr : irrelevant a).
      { intros e He. destruct (mentions c e) eqn:Em; [|reflexivity]. exfalso.
        assert (Hin : In c (dedup_acc [] (flat_map (fun e => filter (fun c0 => mentions c0 e) [c]) (a_effs a)))).
        { apply dedup_acc_in. right. apply in_flat_map. exists e. split; [exact He|]. cbn [filter]. rewrite Em. left; reflexivity. }
        rewrite E0 in Hin. destruct Hin. }
      rewrite E0. cbn [handle_all]. exists (a_pre a), []. split; [reflexivity|]. split; [left; split; [reflexivity | left; exact Hirr]|].
      left. split; [reflexivity | left; exact Hirr].
    - rewrite E1. cbn [handle_all]. unfold c at 2. cbn [handle]. fold c. rewrite atom_idx_sb. fold fk. unfold h_sb. fold (rho_sb a).
      destruct (expr_eqb (R smp a phi) phi) eqn:Er1; destruct (expr_eqb (R smp a psi) psi) eqn:Er2;
        try (apply expr_eqb_eq in Er1); try (apply expr_eqb_eq in Er2).
      + exists (a_pre a), []. split; [reflexivity|]. split; [left; split; [reflexivity | right; exact Er1]|].
        left. split; [reflexivity | right; left; exact Er2].
      + unfold add_cond_eff. destruct (is_false (smp (R smp a psi))) eqn:Ef.
        * exists (a_pre a), []. split; [reflexivity|]. split; [left; split; [reflexivity | right; exact Er1]|].
          left. split; [reflexivity | right; right; first [exact Ef | reflexivity]].
        * exists (a_pre a), [meff fk true (R smp a psi)]. split; [reflexivity|]. split; [left; split; [reflexivity | right; exact Er1]|].
          right. reflexivity.
      + exists (add_pre (a_pre a) (rho_sb a)), []. split; [reflexivity|]. split; [right; reflexivity|].
        left. split; [reflexivity | right; left; exact Er2].
      + unfold add_cond_eff. destruct (is_false (smp (R smp a psi))) eqn:Ef.
        * exists (add_pre (a_pre a) (rho_sb a)), []. split; [reflexivity|]. split; [right; reflexivity|].
          left. split; [reflexivity | right; right; first [exact Ef | reflexivity]].
        * exists (add_pre (a_pre a) (rho_sb a)), [meff fk true (R smp a psi)]. split; [reflexivity|]. split; [right; reflexivity|].
          right. reflexivity.
  Qed.

  Lemma fresh_parts_sb (x : expr) : tcr_fresh1 smp fk P x = true ->
    (forall aid a, lookup_action P aid = Some a -> action_cleanf fk a = true /\ cleanf fk (R smp a x) = true) /\
    forallb (cleanf fk) (p_invs P ++ bound_invs P) = true /\ forallb (cleanf fk) (p_goals P) = true /\ cleanf fk x = true.
  Proof.
    intros Hfr. unfold tcr_fresh1 in Hfr. apply andb_true_iff in Hfr. destruct Hfr as [H H4].
    apply andb_true_iff in H. destruct H as [H H3]. apply andb_true_iff in H. destruct H as [H1 H2].
    repeat split; try assumption; intros; rewrite forallb_forall in H1; unfold lookup_action in *;
      match goal with Hl : lookupN _ _ = Some _ |- _ => apply lookupN_In in Hl; specialize (H1 _ Hl); cbn [snd] in H1;
        apply andb_true_iff in H1; destruct H1; assumption end.
  Qed.

  Variable P' : problem.
  Hypothesis Hcomp : tcr_compile smp sub0 mon [c] P = Some P'.

  Lemma P'_eq_sb : p_objs P' = p_objs P /\ p_ifun P' = p_ifun P /\ p_fluents P' = p_fluents P ++ [fk_decl fk] /\
    p_invs P' = p_invs P /\ p_actions P' = map_actions (tcr_action smp mon [c]) (p_actions P) /\
    p_goals P' = add_goals [smp (mkAnd (p_goals P ++ [EBool true]))].
  Proof.
    unfold tcr_compile in Hcomp. destruct (existsb (refused smp sub0) [c]); [discriminate|]. inversion Hcomp; subst P'. cbn.
    repeat split; reflexivity.
  Qed.

  (* value and definedness of a regressed formula when the original step exists *)
  Lemma HK_gen x s aid a args t : gform x = true -> gbool P x = true -> (forall s, G s -> gdef s x = true) ->
    G s -> lookup_action P aid = Some a -> spec_step false P s a args = Some t ->
    eval false (R smp a x) (mk_interp P s []) = Some (VBool (holds false (mk_interp P t []) x)).
  Proof.
    intros Hg Hb Hd Gs Hlk Hst.
    destruct (regression_step P s a args t x (a_ground P Hgp aid a Hlk) (Greg s aid a Gs Hlk) Hst Hg Hb (Hd s Gs))
      as (Ev & _ & D).
    unfold R. rewrite Hsmp, Ev. unfold isB in D. unfold holds.
    destruct (eval false x (mk_interp P t [])) as [[[|]| |]|]; try discriminate; reflexivity.
  Qed.

  Lemma step_sb s s' aid a args m : G s -> agree_off fk s s' -> s' fk [] = Some (VBool m) ->
    (holds false (mk_interp P s []) psi = true -> m = true) ->
    (holds false (mk_interp P s []) phi = true -> m = true) ->
    lookup_action P aid = Some a ->
    match spec_step false P s a args,
          match lookup_action P' aid with Some a' => spec_step false P' s' a' args | None => None end with
    | Some t, Some t' =>
        negb (holds false (mk_interp P t []) phi) || m = true /\
        agree_off fk t t' /\ t' fk [] = Some (VBool (m || holds false (mk_interp P t []) psi))
    | Some t, None => negb (holds false (mk_interp P t []) phi) || m = false
    | None, None => True
    | None, Some _ => False
    end.
  Proof.
    intros Gs Hs Hm Hinv1 Hinv2 Hlk. destruct P'_eq_sb as (Ho & Hi & Hfl & Hv & Ha & _).
    destruct (fresh_parts_sb phi Hfresh) as (Hfa & Hfi & _ & Hfp). destruct (Hfa aid a Hlk) as [Hca HcR].
    destruct (fresh_parts_sb psi Hfresh2) as (Hfa2 & _ & _ & _). destruct (Hfa2 aid a Hlk) as [_ HcR2].
    pose proof (HK_gen phi s aid a args) as HK1. pose proof (HK_gen psi s aid a args) as HK2.
    assert (Hpa : a_params a = []) by (apply (a_params_nil P Hgp aid a); exact Hlk).
    pose proof (K2 [EAlways phi] P G Hgp AO1 Greg GdefA1 s) as K2a.
    pose proof (K2 [EAlways psi] P G Hgp AO2 Greg GdefA2 s) as K2b.
    unfold lookup_action in *. rewrite Ha, (lookup_map_actions _ _ _ Huniq), Hlk.
    destruct (tcr_action_sb a) as [pres [E [-> [Hpres HEf]]]].
    set (I' := mk_interp P' s' (zip_params (a_params a) args)).
    pose proof (mk_irel fk P P' Ho Hi s s' (zip_params (a_params a) args) Hs) as HR. fold I' in HR.
    destruct (gdef_B P s phi Hgf (Gdef s Gs)) as [ps Bps].
    assert (Eps : holds false (mk_interp P s []) phi = ps) by (apply B_holds; exact Bps).
    destruct (gdef_B P s psi Hgf2 (Gdef2 s Gs)) as [qs Bqs].
    assert (Eqs : holds false (mk_interp P s []) psi = qs) by (apply B_holds; exact Bqs).
    assert (EI : mk_interp P s (zip_params (a_params a) args) = mk_interp P s []) by (rewrite Hpa; reflexivity).
    set (a' := {| a_params := a_params a; a_pre := pres; a_effs := a_effs a ++ E |}).
    assert (HXp : exists X, all_hold false I' pres = all_hold false I' (a_pre a) && X /\
               forall t, spec_step false P s a args = Some t -> X = (negb (holds false (mk_interp P t []) phi) || m)).
    { destruct Hpres as [[-> Hreason] | ->].
      - exists true. split; [rewrite andb_true_r; reflexivity|]. intros t Hst.
        assert (Ept : holds false (mk_interp P t []) phi = ps).
        { destruct Hreason as [Hirr | Heq].
          - rewrite <- Eps. apply (K2a t aid a args Gs Hlk Hst phi (or_introl eq_refl)). apply (irrelevant_parts a Hirr).
          - pose proof (HK1 t Hgf Hgb Gdef Gs Hlk Hst) as Hk. rewrite Heq in Hk. unfold B in Bps. rewrite Bps in Hk. inversion Hk. reflexivity. }
        rewrite Ept. destruct ps; [rewrite (Hinv2 Eps); reflexivity | reflexivity].
      - exists (holds false I' (rho_sb a)). split; [apply all_hold_add_pre|]. intros t Hst.
        unfold rho_sb. unfold holds at 1. rewrite Hsmp.
        assert (B1 : B I' (R smp a phi) (holds false (mk_interp P t []) phi)).
        { unfold B. rewrite (eval_cleanf fk false _ _ _ HR HcR), EI. apply HK1; assumption. }
        assert (B2 : B I' (EFluent fk []) m).
        { unfold B. rewrite eval_EFluent. cbn [evals]. unfold I'. cbn [mk_interp fl]. exact Hm. }
        pose proof (B_mkOr I' _ _ (Forall2_cons _ _ (B_mkNot _ _ _ B1) (Forall2_cons _ _ B2 (Forall2_nil _)))) as Bo.
        unfold B in Bo. rewrite Bo. cbn [existsb]. rewrite orb_false_r.
        destruct (negb (holds false (mk_interp P t []) phi) || m); reflexivity. }
    assert (HFp : exists fire,
      fired false I' (a_effs a ++ E) =
        match collect_res (eres_list false I' (a_effs a)) with
        | Some acts => match fire with Some true => Some (acts ++ [xact fk true]) | Some false => Some acts | None => None end
        | None => None end /\
      forall t, spec_step false P s a args = Some t ->
        fire = Some (holds false (mk_interp P t []) psi) \/
        (fire = Some false /\ (holds false (mk_interp P t []) psi = true -> m = true))).
    { destruct HEf as [[-> Hreason] | ->].
      - exists (Some false). split; [apply fired_plain|]. intros t Hst. right. split; [reflexivity|]. intros Ht.
        destruct Hreason as [Hirr | [Heq | Hfalse]].
        + apply Hinv1. rewrite <- Ht. symmetry. apply (K2b t aid a args Gs Hlk Hst psi (or_introl eq_refl)). apply (irrelevant_parts a Hirr).
        + apply Hinv1. pose proof (HK2 t Hgf2 Hgb2 Gdef2 Gs Hlk Hst) as Hk. rewrite Heq in Hk. unfold holds. rewrite Hk, Ht. reflexivity.
        + exfalso. pose proof (HK2 t Hgf2 Hgb2 Gdef2 Gs Hlk Hst) as Hk. rewrite <- (Hsmp (R smp a psi)) in Hk.
          destruct (smp (R smp a psi)); try discriminate. destruct b; try discriminate. cbn [eval] in Hk. rewrite Ht in Hk. discriminate.
      - exists (fire_of (eval false (R smp a psi) I')). split; [apply fired_meff|]. intros t Hst. left.
        rewrite (eval_cleanf fk false _ _ _ HR HcR2), EI, (HK2 t Hgf2 Hgb2 Gdef2 Gs Hlk Hst).
        destruct (holds false (mk_interp P t []) psi); reflexivity. }
    destruct HXp as (X & HpX & HXsem). destruct HFp as (fire & HfX & Hfsem).
    pose proof (step_with2 fk P P' Ho Hi Hfl Hv Hfi a a' args s s' X fire Hs Hca eq_refl HpX HfX) as Hst.
    destruct (spec_step false P s a args) as [t|] eqn:Est.
    - pose proof (HXsem t eq_refl) as HXe. pose proof (Hfsem t eq_refl) as Hfire.
      destruct (existsb is_false pres) eqn:Efp.
      { rewrite <- HXe. apply existsb_exists in Efp. destruct Efp as [x [Hx Fx]].
        assert (Hnp : all_hold false I' pres = false).
        { destruct (all_hold false I' pres) eqn:Eh; [|reflexivity].
          pose proof (all_hold_In false _ _ x Eh Hx) as Hxx. destruct x; try discriminate. destruct b; discriminate. }
        rewrite HpX in Hnp.
        assert (Hpre : all_hold false I' (a_pre a) = true).
        { unfold action_cleanf in Hca. apply andb_true_iff in Hca. destruct Hca as [Hc1 _].
          rewrite (all_hold_cleanf fk false _ _ (a_pre a) HR Hc1). rewrite spec_step_eq in Est.
          destruct (all_hold false (mk_interp P s (zip_params (a_params a) args)) (a_pre a)); [reflexivity | discriminate]. }
        rewrite Hpre in Hnp. exact Hnp. }
      fold a'. destruct (spec_step false P' s' a' args) as [t'|].
      + destruct Hst as (HX1 & Hag & Hfk). rewrite <- HXe. split; [exact HX1|]. split; [exact Hag|].
        destruct Hfire as [-> | [-> Him]].
        * destruct (holds false (mk_interp P t []) psi); [rewrite Hfk, orb_true_r; reflexivity | rewrite Hfk, Hm, orb_false_r; reflexivity].
        * rewrite Hfk, Hm. destruct (holds false (mk_interp P t []) psi); [rewrite (Him eq_refl); reflexivity | rewrite orb_false_r; reflexivity].
      + rewrite <- HXe. destruct Hst as [HX0 | Hn]; [exact HX0|].
        destruct Hfire as [Hf | [Hf _]]; rewrite Hf in Hn; discriminate.
    - destruct (existsb is_false pres); [exact I|]. fold a'. exact Hst.
  Qed.

  Lemma lookup_none_sb aid : lookup_action P aid = None -> lookup_action P' aid = None.
  Proof.
    intros H. destruct P'_eq_sb as (_ & _ & _ & _ & Ha & _). unfold lookup_action in *.
    rewrite Ha, (lookup_map_actions _ _ _ Huniq), H. reflexivity.
  Qed.

  Lemma run_sb pi : forall s s' m, G s -> agree_off fk s s' -> s' fk [] = Some (VBool m) ->
    (holds false (mk_interp P s []) psi = true -> m = true) ->
    (holds false (mk_interp P s []) phi = true -> m = true) ->
    match run P (spec_step false P) s pi, run P' (spec_step false P') s' pi with
    | Some t, Some t' => sb_chk P phi psi m s pi = true /\ agree_off fk t t'
    | Some t, None => sb_chk P phi psi m s pi = false
    | None, None => True
    | None, Some _ => False
    end.
  Proof.
    induction pi as [|[aid args] r IH]; intros s s' m Gs Hs Hm Hinv1 Hinv2.
    - cbn [run sb_chk]. split; [reflexivity | exact Hs].
    - cbn [run sb_chk].
      destruct (lookup_action P aid) as [a|] eqn:Hlk; [|rewrite (lookup_none_sb aid Hlk); exact I].
      pose proof (step_sb s s' aid a args m Gs Hs Hm Hinv1 Hinv2 Hlk) as Hst.
      destruct (spec_step false P s a args) as [t|] eqn:Est.
      + destruct (lookup_action P' aid) as [a'|].
        * destruct (spec_step false P' s' a' args) as [t'|].
          -- destruct Hst as (Hc & H1 & H2). rewrite Hc. cbn [andb].
             assert (Hi1 : holds false (mk_interp P t []) psi = true -> m || holds false (mk_interp P t []) psi = true)
               by (intros ->; apply orb_true_r).
             assert (Hi2 : holds false (mk_interp P t []) phi = true -> m || holds false (mk_interp P t []) psi = true).
             { intros Hp. rewrite Hp in Hc. cbn [negb orb] in Hc. rewrite Hc. reflexivity. }
             exact (IH t t' _ (Gstep s aid a args t Gs Hlk Est) H1 H2 Hi1 Hi2).
          -- rewrite Hst. cbn [andb]. destruct (run P (spec_step false P) t r); [reflexivity | exact I].
        * rewrite Hst. cbn [andb]. destruct (run P (spec_step false P) t r); [reflexivity | exact I].
      + destruct (lookup_action P' aid) as [a'|]; [|exact I]. destruct (spec_step false P' s' a' args); [destruct Hst | exact I].
  Qed.

  Lemma goals_sb t t' : agree_off fk t t' -> goals_hold false P' t' = goals_hold false P t.
  Proof.
    intros Ht. destruct P'_eq_sb as (Ho & Hi & _ & _ & _ & Hg). destruct (fresh_parts_sb phi Hfresh) as (_ & _ & Hfg & _).
    unfold goals_hold. rewrite Hg. unfold add_goals. cbn [filter].
    assert (E : holds false (mk_interp P' t' []) (smp (mkAnd (p_goals P ++ [EBool true]))) =
                all_hold false (mk_interp P t []) (p_goals P)).
    { unfold holds at 1. rewrite Hsmp. fold (holds false (mk_interp P' t' []) (mkAnd (p_goals P ++ [EBool true]))).
      rewrite holds_mkAnd. unfold all_hold at 1. rewrite forallb_app. cbn [forallb holds eval]. rewrite andb_true_r.
      fold (all_hold false (mk_interp P' t' []) (p_goals P)).
      apply (all_hold_cleanf fk false _ _ (p_goals P) (mk_irel fk P P' Ho Hi t t' [] Ht) Hfg). }
    destruct (is_true (smp (mkAnd (p_goals P ++ [EBool true])))) eqn:Et; cbn [negb].
    - rewrite <- E, (holds_true false _ _ Et). reflexivity.
    - unfold all_hold at 1. cbn [forallb]. rewrite andb_true_r. exact E.
  Qed.

  (* PLAN LEVEL, one `sometime-before phi psi` (phi false initially: otherwise the compiler refuses the problem) *)
  Theorem tcr_sb_plan s0 s0' pi : G s0 -> agree_off fk s0 s0' ->
    s0' fk [] = Some (VBool (holds false (mk_interp P s0 []) psi)) ->
    holds false (mk_interp P s0 []) phi = false ->
    valid_plan false P' s0' pi =
    valid_plan false P s0 pi && sb_chk P phi psi (holds false (mk_interp P s0 []) psi) s0 pi.
  Proof.
    intros G0 H0 Hm Hphi0. unfold valid_plan.
    assert (Hi2 : holds false (mk_interp P s0 []) phi = true -> holds false (mk_interp P s0 []) psi = true)
      by (rewrite Hphi0; discriminate).
    pose proof (run_sb pi s0 s0' _ G0 H0 Hm (fun H => H) Hi2) as HR.
    destruct (run P (spec_step false P) s0 pi) as [t|], (run P' (spec_step false P') s0' pi) as [t'|].
    - destruct HR as [Hc Hag]. rewrite Hc, andb_true_r. apply goals_sb, Hag.
    - rewrite HR, andb_false_r. reflexivity.
    - destruct HR.
    - reflexivity.
  Qed.
End SbPlan.

(* ================================================================== PART 7: steps with SEVERAL extra effects on fk
   (groundwork for `sometime-after`: the atom is reset by one added effect and set by another) *)
Definition xacts (fk : N) (bs : list bool) : list aeff := map (xact fk) bs.

(* the value fk gets from the fired extra assignments [bs] (add-after-delete: true wins), or keeps *)
Definition newm (old : option value) (bs : list bool) : option value :=
  match bs with [] => old | _ => Some (VBool (existsb (fun b => b) bs)) end.

Lemma avals_app k l1 l2 : avals k (l1 ++ l2) = avals k l1 ++ avals k l2.
Proof. unfold avals. rewrite filter_app, map_app. reflexivity. Qed.
Lemma deltas_app k l1 l2 : deltas k (l1 ++ l2) = deltas k l1 ++ deltas k l2.
Proof. unfold deltas. rewrite filter_app, map_app. reflexivity. Qed.

Lemma avals_xacts_fk fk bs : avals (fk, []) (xacts fk bs) = map VBool bs.
Proof.
  induction bs as [|b bs IH]; [reflexivity|]. cbn [xacts map]. rewrite avals_cons. fold (xacts fk bs).
  unfold gfl_eqb. cbn [xact ae_key fst snd values_eqb is_assign ae_kind ae_val]. rewrite N.eqb_refl. cbn [andb]. rewrite IH. reflexivity.
Qed.
Lemma deltas_xacts fk bs k : deltas k (xacts fk bs) = [].
Proof.
  induction bs as [|b bs IH]; [reflexivity|]. cbn [xacts map]. rewrite deltas_cons. fold (xacts fk bs).
  cbn [xact is_assign ae_kind negb]. rewrite andb_false_r. exact IH.
Qed.
Lemma avals_xacts_other fk bs k : fst k <> fk -> avals k (xacts fk bs) = [].
Proof.
  intros Hk. induction bs as [|b bs IH]; [reflexivity|]. cbn [xacts map]. rewrite avals_cons. fold (xacts fk bs).
  unfold gfl_eqb. cbn [xact ae_key fst]. replace (fk =? fst k)%N with false by (symmetry; apply N.eqb_neq; congruence).
  cbn [andb]. exact IH.
Qed.
Lemma existsb_vtrue bs : existsb is_vtrue (map VBool bs) = existsb (fun b => b) bs.
Proof. induction bs as [|b bs IH]; [reflexivity|]. cbn [map existsb is_vtrue]. rewrite IH. destruct b; reflexivity. Qed.

Section ListStep.
  Variable fk : N.
  Variables P P' : problem.
  Hypothesis Ho : p_objs P' = p_objs P.
  Hypothesis Hi : p_ifun P' = p_ifun P.
  Hypothesis Hfl : p_fluents P' = p_fluents P ++ [fk_decl fk].
  Hypothesis Hv : p_invs P' = p_invs P.
  Hypothesis Hinvc : forallb (cleanf fk) (p_invs P ++ bound_invs P) = true.

  Lemma spec_fluent_otherL s s' acts bs k : agree_off fk s s' -> fst k <> fk ->
    spec_fluent P' s' (acts ++ xacts fk bs) k = spec_fluent P s acts k.
  Proof.
    intros Hs Hk. unfold spec_fluent.
    rewrite (isb_other fk P P' Hfl _ Hk), avals_app, deltas_app, (avals_xacts_other fk bs k Hk), deltas_xacts, !app_nil_r,
      (Hs (fst k) (snd k) Hk). reflexivity.
  Qed.

  Lemma spec_fluent_fkL s' acts bs : no_fk fk acts ->
    spec_fluent P' s' (acts ++ xacts fk bs) (fk, []) =
    match bs with [] => CUnchanged | _ => CVal (VBool (existsb (fun b => b) bs)) end.
  Proof.
    intros Hn. unfold spec_fluent. cbn [fst snd]. rewrite (isb_fk fk P P' Hfl), avals_app, deltas_app, avals_xacts_fk, deltas_xacts.
    unfold avals, deltas. rewrite !(filter_nofk fk acts [] _ Hn). cbn [map app].
    destruct bs as [|b bs]; [reflexivity|]. cbn [map combine]. rewrite <- existsb_vtrue. reflexivity.
  Qed.

  Lemma effects_okL s s' acts bs : agree_off fk s s' -> no_fk fk acts ->
    spec_effects_ok P' s' (acts ++ xacts fk bs) = spec_effects_ok P s acts.
  Proof.
    intros Hs Hn. unfold spec_effects_ok. rewrite forallb_app.
    assert (E2 : forallb (fun a => match spec_fluent P' s' (acts ++ xacts fk bs) (ae_key a) with CFail => false | _ => true end)
                   (xacts fk bs) = true).
    { apply forallb_forall. intros x Hx. unfold xacts in Hx. apply in_map_iff in Hx. destruct Hx as [b [<- _]].
      cbn [xact ae_key]. rewrite (spec_fluent_fkL s' acts bs Hn). destruct bs; reflexivity. }
    rewrite E2, andb_true_r. apply forallb_eq_in. intros a Ha.
    rewrite (spec_fluent_otherL s s' acts bs _ Hs (Hn a Ha)). reflexivity.
  Qed.

  Lemma succL s s' acts bs : agree_off fk s s' -> no_fk fk acts ->
    agree_off fk (spec_succ P s acts) (spec_succ P' s' (acts ++ xacts fk bs)) /\
    spec_succ P' s' (acts ++ xacts fk bs) fk [] = newm (s' fk []) bs.
  Proof.
    intros Hs Hn. split.
    - intros f x Hf. unfold spec_succ. rewrite (spec_fluent_otherL s s' acts bs (f, x) Hs Hf), (Hs f x Hf). reflexivity.
    - unfold spec_succ. rewrite (spec_fluent_fkL s' acts bs Hn). destruct bs; reflexivity.
  Qed.

  (* the compiled action = the original one (same preconditions) + effects on fk whose evaluation yields the fired
     assignments [bs] (None = one of them cannot be evaluated) *)
  Lemma step_withL a a' args s s' (bs : option (list bool)) :
    agree_off fk s s' -> action_cleanf fk a = true -> a_params a' = a_params a -> a_pre a' = a_pre a ->
    fired false (mk_interp P' s' (zip_params (a_params a) args)) (a_effs a') =
      match collect_res (eres_list false (mk_interp P' s' (zip_params (a_params a) args)) (a_effs a)) with
      | Some acts => match bs with Some l => Some (acts ++ xacts fk l) | None => None end
      | None => None
      end ->
    match spec_step false P s a args, spec_step false P' s' a' args with
    | Some t, Some t' => agree_off fk t t' /\ exists l, bs = Some l /\ t' fk [] = newm (s' fk []) l
    | Some t, None => bs = None
    | None, None => True
    | None, Some _ => False
    end.
  Proof.
    intros Hs Hc Hp Hpre Hfi. unfold action_cleanf in Hc. apply andb_true_iff in Hc. destruct Hc as [Hc1 Hc2].
    rewrite !spec_step_eq. rewrite Hp, Hpre, Hfi.
    pose proof (mk_irel fk P P' Ho Hi s s' (zip_params (a_params a) args) Hs) as HR.
    rewrite (all_hold_cleanf fk false _ _ (a_pre a) HR Hc1).
    rewrite (eres_list_cleanf fk false _ _ (a_effs a) HR Hc2).
    change (fired false (mk_interp P s (zip_params (a_params a) args)) (a_effs a))
      with (collect_res (eres_list false (mk_interp P s (zip_params (a_params a) args)) (a_effs a))).
    destruct (all_hold false (mk_interp P s (zip_params (a_params a) args)) (a_pre a)); cbn [negb]; [|exact I].
    destruct (collect_res (eres_list false (mk_interp P s (zip_params (a_params a) args)) (a_effs a))) as [acts|] eqn:EF; [|exact I].
    assert (Hn : no_fk fk acts) by (eapply fired_nofk; eassumption).
    destruct bs as [l|].
    - rewrite (effects_okL s s' acts l Hs Hn).
      destruct (negb (spec_effects_ok P s acts)); [exact I|].
      destruct (succL s s' acts l Hs Hn) as [Ha Hb].
      rewrite (invariants_cleanf fk P P' Ho Hi Hfl Hv Hinvc _ _ Ha).
      destruct (invariants_ok false P (spec_succ P s acts)); [|exact I].
      split; [exact Ha|]. exists l. split; [reflexivity | exact Hb].
    - destruct (negb (spec_effects_ok P s acts)); [exact I|].
      destruct (invariants_ok false P (spec_succ P s acts)); [reflexivity | exact I].
  Qed.
End ListStep.

(* the added effects `if cond then fk := b`, in order, and what their evaluation yields *)
Fixpoint bs_of (I' : interp) (cbs : list (expr * bool)) : option (list bool) :=
  match cbs with
  | [] => Some []
  | (cnd, b) :: r =>
      match fire_of (eval false cnd I'), bs_of I' r with
      | Some true, Some l => Some (b :: l)
      | Some false, Some l => Some l
      | _, _ => None
      end
  end.

Lemma eres_meff_cons fk I' cnd b E :
  eres_list false I' (meff fk b cnd :: E) =
  (match eval false cnd I' with Some (VBool true) => EAct (xact fk b) | Some _ => ESkip | None => EErr end)
  :: eres_list false I' E.
Proof.
  unfold eres_list. cbn [flat_map]. unfold meff. cbn [e_vars instances map app]. unfold eval_effect.
  cbn [e_args e_cond e_val e_fl e_kind evals_l]. destruct (eval false cnd I') as [[[|]| |]|]; reflexivity.
Qed.

Lemma collect_meffs fk I' cbs :
  collect_res (eres_list false I' (map (fun cb => meff fk (snd cb) (fst cb)) cbs)) =
  match bs_of I' cbs with Some l => Some (xacts fk l) | None => None end.
Proof.
  induction cbs as [|[cnd b] r IH]; [reflexivity|].
  cbn [map fst snd bs_of]. rewrite eres_meff_cons.
  destruct (eval false cnd I') as [[[|]| |]|]; cbn [collect_res fire_of]; rewrite ?IH;
    destruct (bs_of I' r); reflexivity.
Qed.

Lemma fired_meffs fk I' effs cbs :
  fired false I' (effs ++ map (fun cb => meff fk (snd cb) (fst cb)) cbs) =
  match collect_res (eres_list false I' effs) with
  | Some acts => match bs_of I' cbs with Some l => Some (acts ++ xacts fk l) | None => None end
  | None => None
  end.
Proof.
  unfold fired. rewrite flat_map_app, collect_res_app2. fold (eres_list false I' effs).
  fold (eres_list false I' (map (fun cb => meff fk (snd cb) (fst cb)) cbs)). rewrite collect_meffs.
  destruct (collect_res (eres_list false I' effs)); [|reflexivity]. destruct (bs_of I' cbs); reflexivity.
Qed.

(* ================================================================== PART 8: plan level, one `sometime-after` constraint *)
Section SaPlan.
  Variable smp sub0 : expr -> expr.
  Variable mon : nat -> N.
  Variables phi psi : expr.
  Variable P : problem.
  Variable G : state -> Prop.
  Let c := ESometimeAfter phi psi.
  Let fk := mon 0.

  Hypothesis Hsmp : smp_exact smp.
  Hypothesis Huniq : unique_ids P.
  Hypothesis Hgp : gproblem P = true.
  Hypothesis Hgf : gform phi = true.
  Hypothesis Hgb : gbool P phi = true.
  Hypothesis Hgf2 : gform psi = true.
  Hypothesis Hgb2 : gbool P psi = true.
  Hypothesis Hfresh : tcr_fresh1 smp fk P phi = true.
  Hypothesis Hfresh2 : tcr_fresh1 smp fk P psi = true.
  Hypothesis Gstep : forall s aid a args t, G s -> lookup_action P aid = Some a -> spec_step false P s a args = Some t -> G t.
  Hypothesis Greg : forall s aid a, G s -> lookup_action P aid = Some a -> reg_ok P s a = true.
  Hypothesis Gdef : forall s, G s -> gdef s phi = true.
  Hypothesis Gdef2 : forall s, G s -> gdef s psi = true.

  Let AO1 : always_only P [EAlways phi] = true.
  Proof. unfold always_only. cbn [forallb]. rewrite Hgf, Hgb. reflexivity. Qed.
  Let AO2 : always_only P [EAlways psi] = true.
  Proof. unfold always_only. cbn [forallb]. rewrite Hgf2, Hgb2. reflexivity. Qed.
  Let GdefA1 : forall s x, G s -> In (EAlways x) [EAlways phi] -> gdef s x = true.
  Proof. intros s x Gs [H|[]]. inversion H; subst. apply Gdef, Gs. Qed.
  Let GdefA2 : forall s x, G s -> In (EAlways x) [EAlways psi] -> gdef s x = true.
  Proof. intros s x Gs [H|[]]. inversion H; subst. apply Gdef2, Gs. Qed.

  Lemma atom_idx_sa : atom_idx [c] c = 0.
  Proof. unfold atom_idx, c. cbn [atoms_from is_always rev app find fst snd]. rewrite !expr_eqb_refl. reflexivity. Qed.

  Definition c1_sa (a : action) : expr := smp (mkAnd [R smp a phi; mkNot (R smp a psi)]).
  (* the (condition, value) pairs of the effects on fk the compiler adds, in order *)
  Definition cbs_sa (a : action) : list (expr * bool) :=
    let l1 := if expr_eqb phi (R smp a phi) && expr_eqb psi (R smp a psi) then []
              else if is_false (smp (c1_sa a)) then [] else [(c1_sa a, false)] in
    if expr_eqb psi (R smp a psi) then l1 else if is_false (smp (R smp a psi)) then l1 else l1 ++ [(R smp a psi, true)].
  Definition irrel (a : action) : Prop := forall e, In e (a_effs a) -> mentions c e = false.

  Lemma irrel_parts a : irrel a ->
    (forall e, In e (a_effs a) -> mentions (EAlways phi) e = false) /\
    (forall e, In e (a_effs a) -> mentions (EAlways psi) e = false).
  Proof.
    intros H. split; intros e He; specialize (H e He); unfold mentions in *; cbn [fluent_exps c] in *;
      rewrite existsb_app in H; apply orb_false_iff in H; tauto.
  Qed.

  Lemma tcr_action_sa a : exists cbs,
    tcr_action smp mon [c] a =
      (if existsb is_false (a_pre a) then None
       else Some {| a_params := a_params a; a_pre := a_pre a;
                    a_effs := a_effs a ++ map (fun cb => meff fk (snd cb) (fst cb)) cbs |}) /\
    ((irrel a /\ cbs = []) \/ cbs = cbs_sa a).
  Proof.
    unfold tcr_action.
    assert (Hall : forall x, In x (flat_map (fun e => filter (fun c0 => mentions c0 e) [c]) (a_effs a)) -> x = c).
    { intros x Hx. apply in_flat_map in Hx. destruct Hx as [e [_ Hx]]. apply filter_In in Hx. destruct Hx as [[<-|[]] _]. reflexivity. }
    destruct (dedup_single c _ Hall) as [_ [E0|E1]]; unfold relevant_cs.
    - assert (Hirr : irrel a).
      { intros e He. destruct (mentions c e) eqn:Em; [|reflexivity]. exfalso.
        assert (Hin : In c (dedup_acc [] (flat_map (fun e => filter (fun c0 => mentions c0 e) [c]) (a_effs a)))).
        { apply dedup_acc_in. right. apply in_flat_map. exists e. split; [exact He|]. cbn [filter]. rewrite Em. left; reflexivity. }
        rewrite E0 in Hin. destruct Hin. }
      rewrite E0. cbn [handle_all]. exists []. split; [reflexivity|]. left. split; [exact Hirr | reflexivity].
    - rewrite E1. cbn [handle_all]. unfold c at 2. cbn [handle]. fold c. rewrite atom_idx_sa. fold fk.
      exists (cbs_sa a). split; [|right; reflexivity].
      unfold h_sa, add_cond_eff, cbs_sa. fold (c1_sa a).
      destruct (expr_eqb phi (R smp a phi)), (expr_eqb psi (R smp a psi)), (is_false (smp (c1_sa a))),
        (is_false (smp (R smp a psi))); reflexivity.
  Qed.

  Lemma fresh_parts_sa (x : expr) : tcr_fresh1 smp fk P x = true ->
    (forall aid a, lookup_action P aid = Some a -> action_cleanf fk a = true /\ cleanf fk (R smp a x) = true) /\
    forallb (cleanf fk) (p_invs P ++ bound_invs P) = true /\ forallb (cleanf fk) (p_goals P) = true /\ cleanf fk x = true.
  Proof.
    intros Hfr. unfold tcr_fresh1 in Hfr. apply andb_true_iff in Hfr. destruct Hfr as [H H4].
    apply andb_true_iff in H. destruct H as [H H3]. apply andb_true_iff in H. destruct H as [H1 H2].
    repeat split; try assumption; intros; rewrite forallb_forall in H1; unfold lookup_action in *;
      match goal with Hl : lookupN _ _ = Some _ |- _ => apply lookupN_In in Hl; specialize (H1 _ Hl); cbn [snd] in H1;
        apply andb_true_iff in H1; destruct H1; assumption end.
  Qed.

  Variable P' : problem.
  Hypothesis Hcomp : tcr_compile smp sub0 mon [c] P = Some P'.

  Lemma P'_eq_sa : p_objs P' = p_objs P /\ p_ifun P' = p_ifun P /\ p_fluents P' = p_fluents P ++ [fk_decl fk] /\
    p_invs P' = p_invs P /\ p_actions P' = map_actions (tcr_action smp mon [c]) (p_actions P) /\
    p_goals P' = add_goals [smp (mkAnd (p_goals P ++ [EFluent fk []]))].
  Proof.
    unfold tcr_compile in Hcomp. cbn [existsb refused c orb] in Hcomp. inversion Hcomp; subst P'. cbn.
    unfold landmark_goal, m_atom. cbn [filter is_landmark c map mkAnd]. fold c. rewrite atom_idx_sa.
    repeat split; reflexivity.
  Qed.

  Lemma HK_sa x s aid a args t : gform x = true -> gbool P x = true -> (forall s, G s -> gdef s x = true) ->
    G s -> lookup_action P aid = Some a -> spec_step false P s a args = Some t ->
    eval false (R smp a x) (mk_interp P s []) = Some (VBool (holds false (mk_interp P t []) x)).
  Proof.
    intros Hg Hb Hd Gs Hlk Hst.
    destruct (regression_step P s a args t x (a_ground P Hgp aid a Hlk) (Greg s aid a Gs Hlk) Hst Hg Hb (Hd s Gs))
      as (Ev & _ & D).
    unfold R. rewrite Hsmp, Ev. unfold isB in D. unfold holds.
    destruct (eval false x (mk_interp P t [])) as [[[|]| |]|]; try discriminate; reflexivity.
  Qed.

  Lemma step_sa s s' aid a args m : G s -> agree_off fk s s' -> s' fk [] = Some (VBool m) ->
    (holds false (mk_interp P s []) psi = true -> m = true) ->
    (holds false (mk_interp P s []) psi = false -> holds false (mk_interp P s []) phi = true -> m = false) ->
    lookup_action P aid = Some a ->
    match spec_step false P s a args,
          match lookup_action P' aid with Some a' => spec_step false P' s' a' args | None => None end with
    | Some t, Some t' =>
        agree_off fk t t' /\
        t' fk [] = Some (VBool (if holds false (mk_interp P t []) psi then true
                                else if holds false (mk_interp P t []) phi then false else m))
    | None, None => True
    | _, _ => False
    end.
  Proof.
    intros Gs Hs Hm I1 I2 Hlk. destruct P'_eq_sa as (Ho & Hi & Hfl & Hv & Ha & _).
    destruct (fresh_parts_sa phi Hfresh) as (Hfa & Hfi & _ & _). destruct (Hfa aid a Hlk) as [Hca HcR].
    destruct (fresh_parts_sa psi Hfresh2) as (Hfa2 & _ & _ & _). destruct (Hfa2 aid a Hlk) as [_ HcR2].
    pose proof (HK_sa phi s aid a args) as HK1. pose proof (HK_sa psi s aid a args) as HK2.
    assert (Hpa : a_params a = []) by (apply (a_params_nil P Hgp aid a); exact Hlk).
    pose proof (K2 [EAlways phi] P G Hgp AO1 Greg GdefA1 s) as K2a.
    pose proof (K2 [EAlways psi] P G Hgp AO2 Greg GdefA2 s) as K2b.
    unfold lookup_action in *. rewrite Ha, (lookup_map_actions _ _ _ Huniq), Hlk.
    destruct (tcr_action_sa a) as [cbs [-> Hcbs]].
    destruct (existsb is_false (a_pre a)) eqn:Efp.
    { rewrite spec_step_eq. apply existsb_exists in Efp. destruct Efp as [x [Hx Fx]].
      destruct (all_hold false (mk_interp P s (zip_params (a_params a) args)) (a_pre a)) eqn:Eh; [|exact I].
      pose proof (all_hold_In false _ _ x Eh Hx) as Hxx. destruct x; try discriminate. destruct b; discriminate. }
    set (I' := mk_interp P' s' (zip_params (a_params a) args)).
    pose proof (mk_irel fk P P' Ho Hi s s' (zip_params (a_params a) args) Hs) as HR. fold I' in HR.
    assert (EI : mk_interp P s (zip_params (a_params a) args) = mk_interp P s []) by (rewrite Hpa; reflexivity).
    set (a' := {| a_params := a_params a; a_pre := a_pre a;
                  a_effs := a_effs a ++ map (fun cb => meff fk (snd cb) (fst cb)) cbs |}).
    pose proof (step_withL fk P P' Ho Hi Hfl Hv Hfi a a' args s s' (bs_of I' cbs) Hs Hca eq_refl eq_refl
                  (fired_meffs fk I' (a_effs a) cbs)) as Hst.
    destruct (spec_step false P s a args) as [t|] eqn:Est.
    - (* the fired assignments implement the update of the monitor *)
      assert (Hsem : exists l, bs_of I' cbs = Some l /\
                newm (Some (VBool m)) l = Some (VBool (if holds false (mk_interp P t []) psi then true
                                                       else if holds false (mk_interp P t []) phi then false else m))).
      { pose proof (HK1 t Hgf Hgb Gdef Gs Hlk eq_refl) as Hk1. pose proof (HK2 t Hgf2 Hgb2 Gdef2 Gs Hlk eq_refl) as Hk2.
        set (pt := holds false (mk_interp P t []) phi) in *. set (qt := holds false (mk_interp P t []) psi) in *.
        set (ps := holds false (mk_interp P s []) phi) in *. set (qs := holds false (mk_interp P s []) psi) in *.
        destruct Hcbs as [[Hirr ->] | ->].
        - exists []. split; [reflexivity|]. cbn [newm].
          assert (Ep : pt = ps) by (apply (K2a t aid a args Gs Hlk Est phi (or_introl eq_refl)); apply (irrel_parts a Hirr)).
          assert (Eq : qt = qs) by (apply (K2b t aid a args Gs Hlk Est psi (or_introl eq_refl)); apply (irrel_parts a Hirr)).
          rewrite Ep, Eq. destruct qs, ps, m; try reflexivity; exfalso; intuition congruence.
        - assert (ER1 : eval false (R smp a phi) I' = Some (VBool pt))
            by (rewrite (eval_cleanf fk false _ _ _ HR HcR), EI; exact Hk1).
          assert (ER2 : eval false (R smp a psi) I' = Some (VBool qt))
            by (rewrite (eval_cleanf fk false _ _ _ HR HcR2), EI; exact Hk2).
          assert (Ec1 : eval false (c1_sa a) I' = Some (VBool (pt && negb qt))).
          { unfold c1_sa. rewrite Hsmp.
            pose proof (B_mkAnd I' _ _ (Forall2_cons _ _ ER1 (Forall2_cons _ _ (B_mkNot _ _ _ ER2) (Forall2_nil _)))) as Bo.
            unfold B in Bo. rewrite Bo. cbn [forallb]. rewrite andb_true_r. reflexivity. }
          assert (F1 : expr_eqb phi (R smp a phi) = true -> pt = ps).
          { intros E. apply expr_eqb_eq in E. rewrite <- E in Hk1. unfold ps, holds. rewrite Hk1. destruct pt; reflexivity. }
          assert (F2 : expr_eqb psi (R smp a psi) = true -> qt = qs).
          { intros E. apply expr_eqb_eq in E. rewrite <- E in Hk2. unfold qs, holds. rewrite Hk2. destruct qt; reflexivity. }
          assert (F3 : is_false (smp (c1_sa a)) = true -> pt && negb qt = false).
          { intros E. rewrite <- (Hsmp (c1_sa a)) in Ec1. destruct (smp (c1_sa a)); try discriminate. destruct b; try discriminate.
            cbn [eval] in Ec1. inversion Ec1. reflexivity. }
          assert (F4 : is_false (smp (R smp a psi)) = true -> qt = false).
          { intros E. rewrite <- (Hsmp (R smp a psi)) in ER2. destruct (smp (R smp a psi)); try discriminate. destruct b; try discriminate.
            cbn [eval] in ER2. inversion ER2. reflexivity. }
          unfold cbs_sa. revert F1 F2 F3 F4.
          destruct (expr_eqb phi (R smp a phi)), (expr_eqb psi (R smp a psi)), (is_false (smp (c1_sa a))),
            (is_false (smp (R smp a psi))); intros F1 F2 F3 F4; cbn [andb app bs_of]; rewrite ?Ec1, ?ER2;
            destruct pt, qt; cbn [andb negb fire_of] in *; (eexists; split; [reflexivity|]); cbn [newm existsb orb];
            destruct ps, qs, m; try reflexivity; exfalso; intuition congruence. }
      destruct Hsem as [l [Hl Hnew]]. rewrite Hl in Hst. fold a'.
      destruct (spec_step false P' s' a' args) as [t'|]; [|discriminate].
      destruct Hst as [Hag [l' [El Hfk]]]. inversion El; subst l'. split; [exact Hag|]. rewrite Hfk, Hm. exact Hnew.
    - fold a'. exact Hst.
  Qed.

  Lemma lookup_none_sa aid : lookup_action P aid = None -> lookup_action P' aid = None.
  Proof.
    intros H. destruct P'_eq_sa as (_ & _ & _ & _ & Ha & _). unfold lookup_action in *.
    rewrite Ha, (lookup_map_actions _ _ _ Huniq), H. reflexivity.
  Qed.

  Lemma run_sa pi : forall s s' m, G s -> agree_off fk s s' -> s' fk [] = Some (VBool m) ->
    (holds false (mk_interp P s []) psi = true -> m = true) ->
    (holds false (mk_interp P s []) psi = false -> holds false (mk_interp P s []) phi = true -> m = false) ->
    match run P (spec_step false P) s pi, run P' (spec_step false P') s' pi with
    | Some t, Some t' => agree_off fk t t' /\ t' fk [] = Some (VBool (sa_bit P phi psi m s pi))
    | None, None => True
    | _, _ => False
    end.
  Proof.
    induction pi as [|[aid args] r IH]; intros s s' m Gs Hs Hm I1 I2.
    - cbn [run sa_bit]. split; assumption.
    - cbn [run sa_bit].
      destruct (lookup_action P aid) as [a|] eqn:Hlk; [|rewrite (lookup_none_sa aid Hlk); exact I].
      pose proof (step_sa s s' aid a args m Gs Hs Hm I1 I2 Hlk) as Hst.
      destruct (spec_step false P s a args) as [t|] eqn:Est.
      + destruct (lookup_action P' aid) as [a'|]; [|destruct Hst].
        destruct (spec_step false P' s' a' args) as [t'|]; [|destruct Hst]. destruct Hst as [H1 H2].
        apply (IH t t' _ (Gstep s aid a args t Gs Hlk Est) H1 H2).
        * intros ->. reflexivity.
        * intros -> ->. reflexivity.
      + destruct (lookup_action P' aid) as [a'|]; [|exact I]. destruct (spec_step false P' s' a' args); [destruct Hst | exact I].
  Qed.

  Lemma goals_sa t t' : agree_off fk t t' ->
    goals_hold false P' t' = goals_hold false P t && holds false (mk_interp P' t' []) (EFluent fk []).
  Proof.
    intros Ht. destruct P'_eq_sa as (Ho & Hi & _ & _ & _ & Hg). destruct (fresh_parts_sa phi Hfresh) as (_ & _ & Hfg & _).
    unfold goals_hold. rewrite Hg. unfold add_goals. cbn [filter].
    assert (E : holds false (mk_interp P' t' []) (smp (mkAnd (p_goals P ++ [EFluent fk []]))) =
                all_hold false (mk_interp P t []) (p_goals P) && holds false (mk_interp P' t' []) (EFluent fk [])).
    { unfold holds at 1. rewrite Hsmp. fold (holds false (mk_interp P' t' []) (mkAnd (p_goals P ++ [EFluent fk []]))).
      rewrite holds_mkAnd. unfold all_hold at 1. rewrite forallb_app. cbn [forallb]. rewrite andb_true_r.
      fold (all_hold false (mk_interp P' t' []) (p_goals P)).
      rewrite (all_hold_cleanf fk false _ _ (p_goals P) (mk_irel fk P P' Ho Hi t t' [] Ht) Hfg). reflexivity. }
    destruct (is_true (smp (mkAnd (p_goals P ++ [EFluent fk []])))) eqn:Et; cbn [negb].
    - rewrite <- E, (holds_true false _ _ Et). reflexivity.
    - unfold all_hold at 1. cbn [forallb]. rewrite andb_true_r. exact E.
  Qed.

  (* PLAN LEVEL, one `sometime-after phi psi` *)
  Theorem tcr_sa_plan s0 s0' pi : G s0 -> agree_off fk s0 s0' ->
    s0' fk [] = Some (VBool (holds false (mk_interp P s0 []) psi || negb (holds false (mk_interp P s0 []) phi))) ->
    valid_plan false P' s0' pi =
    valid_plan false P s0 pi &&
    sa_bit P phi psi (holds false (mk_interp P s0 []) psi || negb (holds false (mk_interp P s0 []) phi)) s0 pi.
  Proof.
    intros G0 H0 Hm. unfold valid_plan.
    assert (I1 : holds false (mk_interp P s0 []) psi = true ->
                 holds false (mk_interp P s0 []) psi || negb (holds false (mk_interp P s0 []) phi) = true) by (intros ->; reflexivity).
    assert (I2 : holds false (mk_interp P s0 []) psi = false -> holds false (mk_interp P s0 []) phi = true ->
                 holds false (mk_interp P s0 []) psi || negb (holds false (mk_interp P s0 []) phi) = false) by (intros -> ->; reflexivity).
    pose proof (run_sa pi s0 s0' _ G0 H0 Hm I1 I2) as HR.
    destruct (run P (spec_step false P) s0 pi) as [t|], (run P' (spec_step false P') s0' pi) as [t'|]; try destruct HR; try reflexivity.
    rewrite (goals_sa t t' H). f_equal. unfold holds. rewrite eval_EFluent. cbn [evals mk_interp fl]. rewrite H1.
    destruct (sa_bit P phi psi _ s0 pi); reflexivity.
  Qed.
End SaPlan.
