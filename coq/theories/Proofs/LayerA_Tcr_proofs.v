(* C06 / C07, Layer A — TrajectoryConstraintsRemover: proofs about Compilers/LayerA_Tcr.v.
   PART 1  the abstract monitor the compilation implements (one Boolean per constraint = the monitoring atom, a check
           per step = the added precondition, an update per step = the added conditional effects, refusal in the
           initial state, landmark goal) decides SimCheck.traj_holds on every non-empty state sequence, for all five
           PDDL3 operators ([mverdict_spec]).
   PART 2  the REGRESSION lemma ([regress_eval], [regression_step]): for a ground action that is applicable in s, the
           regressed formula has in s the value the formula has in the successor state.  Route: [gamma_B] (what _gamma
           evaluates to: some effect on this fluent expression fires with the polarity of the literal),
           [fired_ground] / [succ_bool_fluent] (what the documented step does to one ground Boolean fluent: add-after-
           delete = the disjunction of the fired values), [regress_fluent], induction on the formula. *)
From Coq Require Import List ZArith NArith QArith Qcanon Bool Lia.
Import ListNotations.
Require Import UPV.Core.Expr UPV.Core.Eval UPV.Core.Interp UPV.Planning.Problem UPV.Planning.Sem.
Require Import UPV.Proofs.Eval_lemmas UPV.Proofs.Sem_proofs UPV.Proofs.Step_proofs.
Require Import UPV.Compilers.Variants UPV.Compilers.LayerA_Defs UPV.Compilers.LayerA_Quant.
Require Import UPV.Compilers.SimCheck UPV.Compilers.LayerA_Tcr.
Require Import UPV.Proofs.LayerA_base.
Local Open Scope nat_scope.

(* ================================================================== PART 1: the abstract monitor decides PDDL3 *)
Section MonitorProofs.
  Context {A : Type}.
  Variable sat : A -> expr -> bool.

  (* SimCheck.traj_holds with the satisfaction relation abstracted *)
  Definition th (sts : list A) (c : expr) : bool :=
    match c with
    | EBool true => true
    | EAlways e => forallb (fun s => sat s e) sts
    | ESometime e => existsb (fun s => sat s e) sts
    | EAtMostOnce e => mon_amo (fun s => sat s e) sts
    | ESometimeBefore a b => mon_sb (fun s => sat s a) (fun s => sat s b) false sts
    | ESometimeAfter a b => mon_sa (fun s => sat s a) (fun s => sat s b) sts
    | _ => false
    end.

  Lemma mrun_always e : forall l ok m s,
    mrun sat (EAlways e) ok m s l = (ok && forallb (fun x => sat x e) l, m).
  Proof.
    induction l as [|t r IH]; intros ok m s; cbn [mrun forallb]; [rewrite andb_true_r; reflexivity|].
    rewrite IH. cbn [chk upd]. rewrite andb_assoc. reflexivity.
  Qed.

  Lemma mrun_sometime e : forall l ok m s,
    mrun sat (ESometime e) ok m s l = (ok, m || existsb (fun x => sat x e) l).
  Proof.
    induction l as [|t r IH]; intros ok m s; cbn [mrun existsb]; [rewrite orb_false_r; reflexivity|].
    rewrite IH. cbn [chk upd]. rewrite andb_true_r, orb_assoc. reflexivity.
  Qed.

  Lemma mrun_sb a b : forall l ok m s,
    mrun sat (ESometimeBefore a b) ok m s l =
    (ok && mon_sb (fun x => sat x a) (fun x => sat x b) m l, m || existsb (fun x => sat x b) l).
  Proof.
    induction l as [|t r IH]; intros ok m s; cbn [mrun existsb mon_sb]; [rewrite andb_true_r, orb_false_r; reflexivity|].
    rewrite IH. cbn [chk upd]. rewrite orb_assoc. f_equal.
    destruct (sat t a), ok, m; cbn; reflexivity.
  Qed.

  Lemma mrun_amo e : forall l ok m s,
    mrun sat (EAtMostOnce e) ok m s l =
    (ok && (if m then (if sat s e then mon_amo_in (fun x => sat x e) l else forallb (fun x => negb (sat x e)) l)
            else mon_amo (fun x => sat x e) l),
     m || existsb (fun x => sat x e) l).
  Proof.
    induction l as [|t r IH]; intros ok m s; cbn [mrun existsb mon_amo mon_amo_in forallb].
    - rewrite orb_false_r. destruct m, (sat s e); rewrite andb_true_r; reflexivity.
    - rewrite IH. cbn [chk upd]. rewrite orb_assoc. f_equal.
      destruct m, (sat s e), (sat t e), ok; cbn; try reflexivity;
        destruct (mon_amo_in (fun x => sat x e) r), (forallb (fun x => negb (sat x e)) r); reflexivity.
  Qed.

  Lemma mrun_sa a b : forall l ok m s,
    mrun sat (ESometimeAfter a b) ok m s l =
    (ok, mon_sa (fun x => sat x a) (fun x => sat x b) l && (m || existsb (fun x => sat x b) l)).
  Proof.
    induction l as [|t r IH]; intros ok m s; cbn [mrun existsb mon_sa].
    - rewrite orb_false_r. reflexivity.
    - rewrite IH. cbn [chk upd]. rewrite andb_true_r. f_equal.
      destruct (sat t b), (sat t a), m; cbn;
        destruct (mon_sa (fun x => sat x a) (fun x => sat x b) r), (existsb (fun x => sat x b) r); reflexivity.
  Qed.

  Lemma mrun_other c : (forall m s t, chk sat c m s t = true) -> (forall m t, upd sat c m t = m) ->
    forall l ok m s, mrun sat c ok m s l = (ok, m).
  Proof.
    intros H1 H2. induction l as [|t r IH]; intros ok m s; cbn [mrun]; [reflexivity|].
    rewrite IH, H1, H2, andb_true_r. reflexivity.
  Qed.

  (* the compiled monitor (refusal in the initial state, added preconditions, monitoring atom, added goal) accepts a
     non-empty state sequence iff the PDDL3 constraint holds on it *)
  Theorem mverdict_spec c s r : mverdict sat c (s :: r) = th (s :: r) c.
  Proof.
    destruct c; unfold mverdict;
      try (rewrite mrun_other by (intros; reflexivity); cbn [safe0 is_landmark th andb]; reflexivity).
    - rewrite mrun_other by (intros; reflexivity). destruct b; reflexivity.
    - rewrite mrun_always. cbn [safe0 is_landmark th forallb]. rewrite andb_true_r. reflexivity.
    - rewrite mrun_sometime. cbn [safe0 mbit0 is_landmark th existsb andb]. reflexivity.
    - rewrite mrun_sb. cbn [safe0 mbit0 is_landmark th mon_sb]. rewrite andb_true_r.
      destruct (sat s c1); cbn [negb andb]; [reflexivity|]. cbn [orb]. reflexivity.
    - rewrite mrun_sa. cbn [safe0 mbit0 is_landmark th mon_sa andb existsb].
      destruct (sat s c1), (sat s c2); cbn;
        destruct (mon_sa (fun x => sat x c1) (fun x => sat x c2) r), (existsb (fun x => sat x c2) r); reflexivity.
    - rewrite mrun_amo. cbn [safe0 mbit0 is_landmark th mon_amo andb]. rewrite andb_true_r.
      destruct (sat s c); reflexivity.
  Qed.

  Lemma last_cons_indep (a : A) r d1 d2 : last (a :: r) d1 = last (a :: r) d2.
  Proof. revert a. induction r as [|b r IH]; intros a; [reflexivity|]. cbn [last] in *. apply IH. Qed.

  (* prefix facts used by the step-level proofs: what the monitor state says about the last state *)
  Lemma mrun_app c : forall l1 l2 ok m s,
    mrun sat c ok m s (l1 ++ l2) =
    let '(ok1, m1) := mrun sat c ok m s l1 in mrun sat c ok1 m1 (last l1 s) l2.
  Proof.
    induction l1 as [|t r IH]; intros l2 ok m s; [reflexivity|].
    cbn [app mrun]. rewrite IH. destruct (mrun sat c (ok && chk sat c m s t) (upd sat c m t) t r) as [ok1 m1].
    destruct r as [|a r]; [reflexivity|]. rewrite (last_cons_indep a r t s). reflexivity.
  Qed.
End MonitorProofs.

Lemma traj_holds_th T sts c : traj_holds T sts c = th (sat T) sts c.
Proof. destruct c; reflexivity. Qed.

(* ================================================================== PART 2: the regression lemma *)
(* [B I e b]: the expression evaluates (strictly) to the Boolean b *)
Definition B (I : interp) (e : expr) (b : bool) : Prop := eval false e I = Some (VBool b).

Lemma isB_B I e : isB I e = true -> B I e (holds false I e).
Proof. unfold isB, B, holds. destruct (eval false e I) as [[[|]| |]|]; try discriminate; reflexivity. Qed.

Lemma B_holds I e b : B I e b -> holds false I e = b.
Proof. unfold B, holds. intros ->. destruct b; reflexivity. Qed.

Lemma B_isB I e b : B I e b -> isB I e = true.
Proof. unfold B, isB. intros ->. reflexivity. Qed.

Lemma B_fun I e b1 b2 : B I e b1 -> B I e b2 -> b1 = b2.
Proof. unfold B. intros H1 H2. rewrite H1 in H2. inversion H2. reflexivity. Qed.

Lemma B_ebools I l bs : Forall2 (B I) l bs -> ebools false I l = Some bs.
Proof.
  induction 1 as [|x b l bs Hx _ IH]; [reflexivity|]. cbn [ebools]. unfold B in Hx. rewrite Hx, IH. reflexivity.
Qed.

Lemma B_EAnd I l bs : Forall2 (B I) l bs -> B I (EAnd l) (forallb (fun b => b) bs).
Proof. intros H. unfold B. rewrite eval_EAnd, (B_ebools I l bs H). reflexivity. Qed.
Lemma B_EOr I l bs : Forall2 (B I) l bs -> B I (EOr l) (existsb (fun b => b) bs).
Proof. intros H. unfold B. rewrite eval_EOr, (B_ebools I l bs H). reflexivity. Qed.

Lemma B_mkAnd I l bs : Forall2 (B I) l bs -> B I (mkAnd l) (forallb (fun b => b) bs).
Proof.
  intros H. destruct H as [|x b l bs Hx H]; [reflexivity|]. destruct H as [|y c l bs Hy H].
  - cbn. rewrite andb_true_r. exact Hx.
  - apply (B_EAnd I (x :: y :: l) (b :: c :: bs)). repeat constructor; assumption.
Qed.
Lemma B_mkOr I l bs : Forall2 (B I) l bs -> B I (mkOr l) (existsb (fun b => b) bs).
Proof.
  intros H. destruct H as [|x b l bs Hx H]; [reflexivity|]. destruct H as [|y c l bs Hy H].
  - cbn. rewrite orb_false_r. exact Hx.
  - apply (B_EOr I (x :: y :: l) (b :: c :: bs)). repeat constructor; assumption.
Qed.
Lemma B_ENot I e b : B I e b -> B I (ENot e) (negb b).
Proof. unfold B. intros H. rewrite eval_ENot, H. reflexivity. Qed.
Lemma B_mkNot I e b : B I e b -> B I (mkNot e) (negb b).
Proof.
  intros H. destruct e; try (apply B_ENot; exact H). cbn [mkNot]. unfold B in *. rewrite eval_ENot in H.
  destruct (eval false e I) as [[c| |]|]; try discriminate. cbn [as_bool] in H. inversion H. rewrite negb_involutive. reflexivity.
Qed.

Lemma Forall2_snoc {X Y} (R : X -> Y -> Prop) l bs x b : Forall2 R l bs -> R x b -> Forall2 R (l ++ [x]) (bs ++ [b]).
Proof. intros H1 H2. apply Forall2_app; [exact H1 | constructor; [exact H2 | constructor]]. Qed.

Lemma existsb_snoc {X} (p : X -> bool) l x : existsb p (l ++ [x]) = existsb p l || p x.
Proof. rewrite existsb_app. cbn. rewrite orb_false_r. reflexivity. Qed.

Section Gamma.
  Variable I : interp.
  Variables (f : N) (args : list expr).

  (* what one effect contributes to gamma(literal): it is on a Boolean fluent, on this very fluent expression, its
     condition holds and its value is the polarity of the literal *)
  Definition contrib (pos : bool) (e : effect) : bool :=
    e_isbool e && same_fluent f args e && holds false I (e_cond e) && Bool.eqb (holds false I (e_val e)) pos.

  Definition eff_def (e : effect) : Prop :=
    isB I (e_cond e) = true /\ (e_isbool e = true -> isB I (e_val e) = true).

  Lemma gamma_go_B pos : forall effs acc bs, Forall eff_def effs -> Forall2 (B I) acc bs ->
    B I (gamma_go f args pos effs acc) (existsb (fun b => b) bs || existsb (contrib pos) effs).
  Proof.
    induction effs as [|e r IH]; intros acc bs HF Hacc; cbn [gamma_go existsb].
    - rewrite orb_false_r. apply B_mkOr, Hacc.
    - inversion HF as [|? ? [Hc Hv] HF']; subst. unfold contrib at 1.
      destruct (e_isbool e) eqn:Eb; cbn [negb andb]; [|apply IH; assumption].
      specialize (Hv eq_refl). pose proof (isB_B _ _ Hc) as Bc. pose proof (isB_B _ _ Hv) as Bv.
      destruct (bconst (e_val e)) as [b|] eqn:Ec.
      + assert (Ev : e_val e = EBool b) by (destruct (e_val e); try discriminate; inversion Ec; reflexivity).
        assert (Hb : holds false I (e_val e) = b) by (rewrite Ev; destruct b; reflexivity).
        rewrite Hb. destruct (same_fluent f args e); cbn [andb]; [|apply IH; assumption].
        destruct (Bool.eqb b pos); cbn [andb]; [|rewrite andb_false_r; apply IH; assumption].
        rewrite andb_true_r.
        destruct (is_true (e_cond e)) eqn:Et.
        * rewrite (holds_true false I _ Et). cbn [orb]. rewrite orb_true_r. reflexivity.
        * pose proof (IH (acc ++ [e_cond e]) (bs ++ [holds false I (e_cond e)]) HF' (Forall2_snoc _ _ _ _ _ Hacc Bc)) as G.
          rewrite existsb_snoc, <- orb_assoc in G. exact G.
      + destruct (same_fluent f args e); cbn [andb]; [|apply IH; assumption].
        assert (Bx : B I (mkAnd [e_cond e; if pos then e_val e else mkNot (e_val e)])
                       (holds false I (e_cond e) && Bool.eqb (holds false I (e_val e)) pos)).
        { assert (By : B I (if pos then e_val e else mkNot (e_val e)) (Bool.eqb (holds false I (e_val e)) pos)).
          { destruct pos; [|apply B_mkNot in Bv]; destruct (holds false I (e_val e)); assumption. }
          pose proof (B_mkAnd I _ _ (Forall2_cons _ _ Bc (Forall2_cons _ _ By (Forall2_nil _)))) as G.
          cbn [forallb] in G. rewrite andb_true_r in G. exact G. }
        pose proof (IH _ _ HF' (Forall2_snoc _ _ _ _ _ Hacc Bx)) as G.
        rewrite existsb_snoc, <- orb_assoc in G. exact G.
  Qed.

  Lemma gamma_B pos effs : Forall eff_def effs -> B I (gamma f args pos effs) (existsb (contrib pos) effs).
  Proof. intros H. apply (gamma_go_B pos effs [] [] H (Forall2_nil _)). Qed.
End Gamma.

(* ------------------------------------------------------------------ ground arguments *)
Lemma evals_oargs sc I l : oargs l = true -> evals sc I l = Some (vals_of l).
Proof.
  induction l as [|x l IH]; intros H; [reflexivity|]. cbn [oargs forallb] in H. apply andb_true_iff in H. destruct H as [Hx Hl].
  cbn [evals vals_of map]. fold (vals_of l). rewrite (IH Hl). destruct x; try discriminate. reflexivity.
Qed.

Lemma evals_l_oargs sc I l : oargs l = true -> evals_l sc I l = Some (vals_of l).
Proof.
  induction l as [|x l IH]; intros H; [reflexivity|]. cbn [oargs forallb] in H. apply andb_true_iff in H. destruct H as [Hx Hl].
  cbn [evals_l vals_of map]. fold (vals_of l). rewrite (IH Hl). destruct x; try discriminate. reflexivity.
Qed.

Lemma oargs_eqb l1 : forall l2, oargs l1 = true -> oargs l2 = true ->
  list_expr_eqb l1 l2 = values_eqb (vals_of l1) (vals_of l2).
Proof.
  induction l1 as [|x l1 IH]; intros [|y l2] H1 H2; try reflexivity.
  cbn [oargs forallb] in H1, H2. apply andb_true_iff in H1. apply andb_true_iff in H2. destruct H1 as [Hx H1], H2 as [Hy H2].
  cbn [list_expr_eqb vals_of map values_eqb]. fold (vals_of l1). fold (vals_of l2). rewrite <- (IH l2 H1 H2).
  destruct x; try discriminate. destruct y; try discriminate. reflexivity.
Qed.

Lemma avals_cons k x l :
  avals k (x :: l) = if gfl_eqb (ae_key x) k && is_assign x then ae_val x :: avals k l else avals k l.
Proof. unfold avals. cbn [filter]. destruct (gfl_eqb (ae_key x) k && is_assign x); reflexivity. Qed.
Lemma deltas_cons k x l :
  deltas k (x :: l) = if gfl_eqb (ae_key x) k && negb (is_assign x) then delta_of x :: deltas k l else deltas k l.
Proof. unfold deltas. cbn [filter]. destruct (gfl_eqb (ae_key x) k && negb (is_assign x)); reflexivity. Qed.

(* ------------------------------------------------------------------ the successor of a ground action on a Boolean fluent *)
Section GroundStep.
  Variable P : problem.
  Variable s : state.
  Let I := mk_interp P s [].
  Variables (f : N) (vs : list value).
  Hypothesis Hf : is_bool_fluent P f = true.

  Definition fires (e : effect) : bool :=
    holds false I (e_cond e) && (e_fl e =? f)%N && values_eqb (vals_of (e_args e)) vs.

  Definition eff_ok (e : effect) : Prop := geffect P e = true /\ eff_def I e.

  Lemma geffect_split e : geffect P e = true ->
    e_vars e = [] /\ oargs (e_args e) = true /\ e_isbool e = is_bool_fluent P (e_fl e) /\
    (e_isbool e = true -> e_kind e = KAssign).
  Proof.
    unfold geffect. intros H. repeat (apply andb_true_iff in H; destruct H as [H ?]).
    repeat split.
    - destruct (e_vars e); [reflexivity | discriminate].
    - assumption.
    - apply eqb_prop. assumption.
    - intros Hb. rewrite Hb in *. cbn in *. unfold is_kassign in *. destruct (e_kind e); try discriminate; reflexivity.
  Qed.

  Lemma fired_ground : forall effs acts, Forall eff_ok effs -> fired false I effs = Some acts ->
    avals (f, vs) acts = map (fun e => VBool (holds false I (e_val e))) (filter fires effs) /\
    deltas (f, vs) acts = [].
  Proof.
    induction effs as [|e r IH]; intros acts HF Hfi.
    - cbn in Hfi. inversion Hfi. split; reflexivity.
    - inversion HF as [|? ? [Hg [Hc Hv]] HF']; subst.
      destruct (geffect_split e Hg) as (Ev & Ea & Eb & Ek).
      unfold fired in Hfi. cbn [flat_map] in Hfi. rewrite Ev in Hfi. cbn [instances map app] in Hfi.
      fold (fired false I r) in Hfi. unfold eval_effect in Hfi at 1. rewrite (evals_l_oargs false I _ Ea) in Hfi.
      pose proof (isB_B _ _ Hc) as Bc. unfold B in Bc. rewrite Bc in Hfi.
      cbn [filter]. unfold fires at 1. fold fires.
      destruct (holds false I (e_cond e)) eqn:Eh; cbn [andb].
      + destruct (eval false (e_val e) I) as [v|] eqn:Evv; [|discriminate]. cbn [collect_res] in Hfi.
        change (collect_res (flat_map (fun e0 => map (fun J => eval_effect false J e0) (instances I (e_vars e0))) r))
          with (fired false I r) in Hfi.
        destruct (fired false I r) as [acts'|] eqn:Er; [|discriminate]. inversion Hfi; subst acts.
        destruct (IH acts' HF' eq_refl) as [IH1 IH2].
        rewrite avals_cons, deltas_cons. unfold gfl_eqb. cbn [ae_key fst snd].
        destruct ((e_fl e =? f)%N) eqn:Ef; cbn [andb]; [|split; assumption].
        destruct (values_eqb (vals_of (e_args e)) vs) eqn:Ea2; cbn [andb]; [|split; assumption].
        apply N.eqb_eq in Ef. assert (Hbe : e_isbool e = true) by (rewrite Eb, Ef; exact Hf).
        unfold is_assign. cbn [ae_kind]. rewrite (Ek Hbe). cbn [negb map andb].
        split; [|exact IH2]. f_equal; [|exact IH1].
        cbn [ae_val]. pose proof (isB_B _ _ (Hv Hbe)) as Bv. unfold B in Bv. rewrite Evv in Bv. inversion Bv. reflexivity.
      + cbn [collect_res] in Hfi.
        change (collect_res (flat_map (fun e0 => map (fun J => eval_effect false J e0) (instances I (e_vars e0))) r))
          with (fired false I r) in Hfi.
        apply IH; assumption.
  Qed.

  Lemma succ_bool_fluent effs acts : Forall eff_ok effs -> fired false I effs = Some acts ->
    spec_succ P s acts f vs =
    if existsb fires effs then Some (VBool (existsb (fun e => fires e && holds false I (e_val e)) effs)) else s f vs.
  Proof.
    intros HF Hfi. destruct (fired_ground effs acts HF Hfi) as [HA HD].
    unfold spec_succ, spec_fluent. cbn [fst snd]. rewrite HA, HD, Hf. clear HA HD Hfi HF.
    induction effs as [|e r IH]; [reflexivity|]. cbn [filter existsb].
    destruct (fires e) eqn:Ee; cbn [orb andb map].
    - cbn [combine]. f_equal. f_equal. cbn [existsb is_vtrue]. f_equal.
      + destruct (holds false I (e_val e)); reflexivity.
      + clear IH. induction r as [|e' r IHr]; [reflexivity|]. cbn [filter existsb].
        destruct (fires e'); cbn [map existsb andb]; [|exact IHr]. rewrite IHr.
        destruct (holds false I (e_val e')); reflexivity.
    - exact IH.
  Qed.
End GroundStep.

(* ------------------------------------------------------------------ the regression lemma *)
Section Regression.
  Variable P : problem.
  Variable s t : state.
  Variable a : action.
  Let Is := mk_interp P s [].
  Let It := mk_interp P t [].
  Variable acts : list aeff.
  Hypothesis Hga : gaction P a = true.
  Hypothesis Hok : reg_ok P s a = true.
  Hypothesis Hfi : fired false Is (a_effs a) = Some acts.
  Hypothesis Ht : forall f vs, is_bool_fluent P f = true -> t f vs = spec_succ P s acts f vs.

  Lemma effs_ok_all : Forall (eff_ok P s) (a_effs a).
  Proof.
    unfold gaction in Hga. apply andb_true_iff in Hga. destruct Hga as [_ Hg]. unfold reg_ok in Hok.
    rewrite forallb_forall in Hg, Hok. apply Forall_forall. intros e He. split; [apply Hg, He|].
    specialize (Hok e He). apply andb_true_iff in Hok. destruct Hok as [H1 H2]. split; [exact H1|].
    intros Hb. rewrite Hb in H2. exact H2.
  Qed.

  Lemma exists_fires_split (p q : effect -> bool) l :
    existsb p l = true -> existsb (fun e => p e && q e) l = false -> existsb (fun e => p e && negb (q e)) l = true.
  Proof.
    induction l as [|e r IH]; cbn [existsb]; [discriminate|]. intros H1 H2.
    apply orb_false_iff in H2. destruct H2 as [H2 H3].
    destruct (p e) eqn:Ep; cbn [andb orb] in *; [rewrite H2; reflexivity|]. apply IH; assumption.
  Qed.

  Lemma regress_fluent f args sf : oargs args = true -> is_bool_fluent P f = true ->
    s f (vals_of args) = Some (VBool sf) ->
    exists b, B Is (gamma_subst f args (a_effs a)) b /\ B It (EFluent f args) b.
  Proof.
    intros Ha Hf Hs. pose proof effs_ok_all as HF.
    assert (HD : Forall (eff_def Is) (a_effs a)) by (eapply Forall_impl; [|exact HF]; intros e [_ H]; exact H).
    pose proof (gamma_B Is f args true _ HD) as Gp. pose proof (gamma_B Is f args false _ HD) as Gn.
    remember (vals_of args) as vs eqn:Evs.
    assert (Hc : forall pos e, In e (a_effs a) ->
              contrib Is f args pos e = fires P s f vs e && Bool.eqb (holds false Is (e_val e)) pos).
    { intros pos e He. rewrite Forall_forall in HF. destruct (HF e He) as [Hg _].
      destruct (geffect_split P e Hg) as (_ & Ea & Eb & _).
      unfold contrib, fires, same_fluent. rewrite (oargs_eqb _ _ Ea Ha), <- Evs. fold Is.
      destruct ((e_fl e =? f)%N) eqn:Ef; [|rewrite !andb_false_r; reflexivity].
      apply N.eqb_eq in Ef. rewrite Eb, Ef, Hf. cbn [andb].
      destruct (holds false Is (e_cond e)), (values_eqb (vals_of (e_args e)) vs); reflexivity. }
    assert (Ep : existsb (contrib Is f args true) (a_effs a) =
                 existsb (fun e => fires P s f vs e && holds false Is (e_val e)) (a_effs a)).
    { clear -Hc. induction (a_effs a) as [|e r IH]; [reflexivity|]. cbn [existsb].
      rewrite (Hc true e (or_introl eq_refl)), IH by (intros pos e' He'; apply Hc; right; exact He').
      destruct (holds false Is (e_val e)); reflexivity. }
    assert (En : existsb (contrib Is f args false) (a_effs a) =
                 existsb (fun e => fires P s f vs e && negb (holds false Is (e_val e))) (a_effs a)).
    { clear -Hc. induction (a_effs a) as [|e r IH]; [reflexivity|]. cbn [existsb].
      rewrite (Hc false e (or_introl eq_refl)), IH by (intros pos e' He'; apply Hc; right; exact He').
      destruct (holds false Is (e_val e)); reflexivity. }
    rewrite Ep in Gp. rewrite En in Gn.
    assert (Bf : B Is (EFluent f args) sf).
    { unfold B. rewrite eval_EFluent, (evals_oargs false Is _ Ha), <- Evs. exact Hs. }
    set (gp := existsb (fun e => fires P s f vs e && holds false Is (e_val e)) (a_effs a)) in *.
    set (gn := existsb (fun e => fires P s f vs e && negb (holds false Is (e_val e))) (a_effs a)) in *.
    exists (gp || (sf && negb gn)). split.
    - unfold gamma_subst.
      assert (B2 : B Is (mkAnd [EFluent f args; mkNot (gamma f args false (a_effs a))]) (sf && negb gn)).
      { pose proof (B_mkAnd Is _ _ (Forall2_cons _ _ Bf (Forall2_cons _ _ (B_mkNot _ _ _ Gn) (Forall2_nil _)))) as G.
        cbn [forallb] in G. rewrite andb_true_r in G. exact G. }
      pose proof (B_mkOr Is _ _ (Forall2_cons _ _ Gp (Forall2_cons _ _ B2 (Forall2_nil _)))) as G.
      cbn [existsb] in G. rewrite orb_false_r in G. exact G.
    - unfold B. rewrite eval_EFluent, (evals_oargs false It _ Ha), <- Evs. cbn [It mk_interp fl].
      rewrite (Ht f vs Hf), (succ_bool_fluent P s f vs Hf (a_effs a) acts HF Hfi). fold Is. fold gp.
      destruct (existsb (fires P s f vs) (a_effs a)) eqn:Efi.
      + destruct gp eqn:Egp; [reflexivity|].
        unfold gn. rewrite (exists_fires_split _ _ _ Efi Egp). rewrite andb_false_r. reflexivity.
      + assert (gp = false /\ gn = false) as [-> ->].
        { unfold gp, gn. clear -Efi. induction (a_effs a) as [|e r IH]; [split; reflexivity|].
          cbn [existsb] in *. apply orb_false_iff in Efi. destruct Efi as [E1 E2]. rewrite E1. cbn [andb orb]. apply IH, E2. }
        rewrite Hs. cbn. rewrite andb_true_r. reflexivity.
  Qed.

  Lemma Forall_ex_bs (B1 B2 : expr -> bool -> Prop) (g : expr -> expr) l :
    Forall (fun x => exists b, B1 (g x) b /\ B2 x b) l ->
    exists bs, Forall2 B1 (map g l) bs /\ Forall2 B2 l bs.
  Proof.
    induction 1 as [|x l [b [H1 H2]] _ [bs [IH1 IH2]]]; [exists []; split; constructor|].
    exists (b :: bs). split; constructor; assumption.
  Qed.

  (* REGRESSION: the regressed formula has, in the state before the action, the value the formula has after it *)
  Theorem regress_eval phi : gform phi = true -> gbool P phi = true -> gdef s phi = true ->
    exists b, B Is (regress (a_effs a) phi) b /\ B It phi b.
  Proof.
    induction phi using expr_ind'; intros Hg Hb Hd; try discriminate.
    - exists b. split; reflexivity.
    - cbn [gform gbool gdef] in *. destruct (s f (vals_of args)) as [[sf| |]|] eqn:Es; try discriminate.
      apply (regress_fluent f args sf); assumption.
    - cbn [gform gbool gdef regress] in *.
      assert (HF : Forall (fun x => exists b, B Is (regress (a_effs a) x) b /\ B It x b) l).
      { rewrite forallb_forall in Hg, Hb, Hd. rewrite Forall_forall in *. intros x Hx. apply H; auto. }
      destruct (Forall_ex_bs _ _ _ _ HF) as [bs [F1 F2]].
      exists (forallb (fun b => b) bs). split; [apply B_mkAnd, F1 | apply B_EAnd, F2].
    - cbn [gform gbool gdef regress] in *.
      assert (HF : Forall (fun x => exists b, B Is (regress (a_effs a) x) b /\ B It x b) l).
      { rewrite forallb_forall in Hg, Hb, Hd. rewrite Forall_forall in *. intros x Hx. apply H; auto. }
      destruct (Forall_ex_bs _ _ _ _ HF) as [bs [F1 F2]].
      exists (existsb (fun b => b) bs). split; [apply B_mkOr, F1 | apply B_EOr, F2].
    - cbn [gform gbool gdef regress] in *. destruct (IHphi Hg Hb Hd) as [b [H1 H2]].
      exists (negb b). split; [apply B_mkNot, H1 | apply B_ENot, H2].
  Qed.
End Regression.

(* the statement on whole steps of the documented semantics *)
Theorem regression_step P s a args t phi :
  gaction P a = true -> reg_ok P s a = true -> spec_step false P s a args = Some t ->
  gform phi = true -> gbool P phi = true -> gdef s phi = true ->
  eval false (regress (a_effs a) phi) (mk_interp P s []) = eval false phi (mk_interp P t []) /\
  holds false (mk_interp P s []) (regress (a_effs a) phi) = holds false (mk_interp P t []) phi /\
  isB (mk_interp P t []) phi = true.
Proof.
  intros Hga Hok Hst Hg Hb Hd. rewrite spec_step_eq in Hst.
  assert (Hp : a_params a = []).
  { unfold gaction in Hga. apply andb_true_iff in Hga. destruct Hga as [H _]. destruct (a_params a); [reflexivity | discriminate]. }
  rewrite Hp in Hst. cbn [zip_params] in Hst.
  destruct (negb (all_hold false (mk_interp P s []) (a_pre a))); [discriminate|].
  destruct (fired false (mk_interp P s []) (a_effs a)) as [acts|] eqn:Efi; [|discriminate].
  destruct (negb (spec_effects_ok P s acts)); [discriminate|].
  destruct (invariants_ok false P (spec_succ P s acts)); [|discriminate]. inversion Hst; subst t.
  destruct (regress_eval P s (spec_succ P s acts) a acts Hga Hok Efi (fun _ _ _ => eq_refl) phi Hg Hb Hd) as [b [H1 H2]].
  unfold B in H1, H2. split; [rewrite H1, H2; reflexivity|]. split.
  - unfold holds. rewrite H1, H2. reflexivity.
  - unfold isB. rewrite H2. reflexivity.
Qed.
