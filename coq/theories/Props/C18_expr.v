(* C18, part "expr": the expression layer of the PDDL codec (Model/PddlExpr.v) round-trips.
   print  = ConverterToPDDLString.walk (pddl_writer.py);  parse = UPPDDLReader._parse_exp (up_pddl_reader.py). *)
From Coq Require Import List ZArith NArith QArith Qcanon Bool String Ascii.
Import ListNotations.
Require Import UPV.Core.Expr UPV.Core.Eval UPV.Model.PddlExpr UPV.Model.PddlLex UPV.Proofs.PddlExpr_proofs
  UPV.Proofs.PddlLex_proofs.
Local Open Scope string_scope.

(* For EVERY expression of the printable fragment [pddl_ok] (and/or/not/imply/iff, comparisons, arithmetic, fluents with
   arguments, parameters, objects, integer and finite-decimal rational constants, exists/forall with typed variables,
   at any nesting) the converter produces a text and the reader's expression parser maps this text to [norm e].
   Hypotheses = consistency of the renaming (guaranteed by PDDLWriter._get_mangled_name and the written declarations):
   every item is found under its name; fluent names are not operator keywords; object names are neither fluent names
   nor start with "?"; parameter and variable names differ; type names do not start with "?"; nothing is named like a
   number. *)
Theorem C18_expr_roundtrip :
  forall (nm : naming) (E : env),
    (forall f, e_fl E (nm_fl nm f) = Some f) ->
    (forall f, is_kw (nm_fl nm f) = false) ->
    (forall o, e_obj E (nm_obj nm o) = Some o) ->
    (forall o, e_fl E (nm_obj nm o) = None) ->
    (forall o, starts_q (nm_obj nm o) = false) ->
    (forall p, e_par E (nm_par nm p) = Some p) ->
    (forall v, e_var E (nm_var nm v) = Some v) ->
    (forall p v, nm_par nm p <> nm_var nm v) ->
    (forall t, e_ty E (nm_ty nm t) = Some t) ->
    (forall t, starts_q (nm_ty nm t) = false) ->
    (forall s q, parse_number s = Some q -> e_fl E s = None /\ e_obj E s = None) ->
    forall e, pddl_ok [] e = true ->
    exists s, print nm e = Some s /\ parse E [] s = Some (norm e).
Proof. exact roundtrip. Qed.
Print Assumptions C18_expr_roundtrip.

(* the same under enclosing quantifiers: [sc] = the variables in scope (innermost first), the parser's dictionary is
   their names *)
Theorem C18_expr_roundtrip_in_scope :
  forall (nm : naming) (E : env),
    (forall f, e_fl E (nm_fl nm f) = Some f) ->
    (forall f, is_kw (nm_fl nm f) = false) ->
    (forall o, e_obj E (nm_obj nm o) = Some o) ->
    (forall o, e_fl E (nm_obj nm o) = None) ->
    (forall o, starts_q (nm_obj nm o) = false) ->
    (forall p, e_par E (nm_par nm p) = Some p) ->
    (forall v, e_var E (nm_var nm v) = Some v) ->
    (forall p v, nm_par nm p <> nm_var nm v) ->
    (forall t, e_ty E (nm_ty nm t) = Some t) ->
    (forall t, starts_q (nm_ty nm t) = false) ->
    (forall s q, parse_number s = Some q -> e_fl E s = None /\ e_obj E s = None) ->
    forall e sc, pddl_ok sc e = true ->
    exists s, print nm e = Some s /\ parse E (scope_names nm sc) s = Some (norm e).
Proof. exact roundtrip_sc. Qed.
Print Assumptions C18_expr_roundtrip_in_scope.

(* the numeric tokens: str(int) and the plain decimal expansion are read back as the same number, for ALL integers and
   all rationals on which the model's [show_real] is defined *)
Theorem C18_expr_int_token : forall z, parse_number (show_Z z) = Some (Q2Qc (inject_Z z)).
Proof. exact parse_number_show_Z. Qed.
Print Assumptions C18_expr_int_token.

Theorem C18_expr_real_token : forall q s, show_real q = Some s -> parse_number s = Some q.
Proof. exact parse_number_show_real. Qed.
Print Assumptions C18_expr_real_token.

(* Boolean constants and interpreted functions are rejected by the converter (walk_bool_constant raises) *)
Theorem C18_expr_rejected : forall nm b f l, print nm (EBool b) = None /\ print nm (EIFun f l) = None.
Proof. intros. split; reflexivity. Qed.
Print Assumptions C18_expr_rejected.

(* the normal form has the same meaning: for every expression of the fragment, every interpretation and both
   quantifier modes of Core/Eval (strict / short-circuit), evaluating [norm e] gives exactly the value of [e]
   (including undefinedness).  With C18_expr_roundtrip: the re-read expression has the meaning of the written one. *)
Theorem C18_expr_norm_preserves_eval :
  forall (qm : bool) e sc I, pddl_ok sc e = true -> eval qm (norm e) I = eval qm e I.
Proof. exact norm_sem. Qed.
Print Assumptions C18_expr_norm_preserves_eval.

(* ---- non-vacuity: a concrete renaming (prefix letter + decimal number) satisfies every hypothesis, and an expression
   with every constructor of the fragment is in the fragment; its text and its re-read form are computed *)
Definition ex_e : expr :=
  EForall [(1%N, 0%N); (2%N, 1%N)]
    (EAnd [ EOr [EFluent 0 []; ENot (EFluent 1 [EVar 1 0; EObj 3])];
            EImplies (EFluent 2 [EVar 2 1; EParam 0]) (EIff (EFluent 0 []) (EEquals (EVar 1 0) (EParam 1)));
            EExists [(3%N, 0%N)] (ELe (EPlus [EFluent 3 [EVar 3 0]; EInt (-7); EReal (Q2Qc (5 # 4))])
                                      (ETimes [EInt 2; EFluent 4 []; EReal (Q2Qc (-1 # 1000))]));
            ELt (EMinus (EFluent 4 []) (EReal (Q2Qc (2 # 1)))) (EDiv (EInt 10000000000000000000000) (EFluent 4 []));
            EEquals (EFluent 4 []) (EReal (Q2Qc (1234567 # 100))) ]).

Definition ex_text : sexp :=
  SList [Atom "forall"; SList [Atom "?v1"; Atom "-"; Atom "t0"; Atom "?v2"; Atom "-"; Atom "t1"];
    SList [Atom "and";
      SList [Atom "or"; SList [Atom "x0"]; SList [Atom "not"; SList [Atom "x1"; Atom "?v1"; Atom "b3"]]];
      SList [Atom "imply"; SList [Atom "x2"; Atom "?v2"; Atom "?p0"];
        SList [Atom "and"; SList [Atom "imply"; SList [Atom "x0"]; SList [Atom "="; Atom "?v1"; Atom "?p1"]];
                           SList [Atom "imply"; SList [Atom "="; Atom "?v1"; Atom "?p1"]; SList [Atom "x0"]]]];
      SList [Atom "exists"; SList [Atom "?v3"; Atom "-"; Atom "t0"];
        SList [Atom "<="; SList [Atom "+"; Atom "1.25"; SList [Atom "+"; Atom "-7"; SList [Atom "x3"; Atom "?v3"]]];
                          SList [Atom "*"; Atom "-0.001"; SList [Atom "*"; SList [Atom "x4"]; Atom "2"]]]];
      SList [Atom "<"; SList [Atom "-"; SList [Atom "x4"]; Atom "2.0"];
                       SList [Atom "/"; Atom "10000000000000000000000"; SList [Atom "x4"]]];
      SList [Atom "="; SList [Atom "x4"]; Atom "12345.67"]]].

Example C18_expr_roundtrip_nonvacuous :
  pddl_ok [] ex_e = true /\ print ex_nm ex_e = Some ex_text
  /\ option_map (fun r => expr_eqb r (norm ex_e)) (parse ex_env [] ex_text) = Some true
  /\ norm ex_e <> ex_e
  /\ exists s, print ex_nm ex_e = Some s /\ parse ex_env [] s = Some (norm ex_e).
Proof.
  split; [vm_compute; reflexivity|]. split; [vm_compute; reflexivity|]. split; [vm_compute; reflexivity|].
  split; [intro H; apply (f_equal (fun e => expr_eqb e ex_e)) in H; vm_compute in H; discriminate H|].
  apply ex_roundtrip. vm_compute. reflexivity.
Qed.
Print Assumptions C18_expr_roundtrip_nonvacuous.

(* ======================================================================= lexical layer (Model/PddlLex.v)
   lex  = the tokenisation of the pyparsing grammar nested_expr() with ignore(";" + rest_of_line);
   prep = text.replace("\t", " ").lower() of parse_problem_string;  print_text = the converter's f-strings. *)

(* every S-expression whose atoms are non-empty and free of white space, parentheses and ";" is read back from its
   canonical single-blank text *)
Theorem C18_expr_lex_roundtrip : forall s, atoms_ok s = true -> lex (show s) = Some s.
Proof. exact lex_show. Qed.
Print Assumptions C18_expr_lex_roundtrip.

(* the text the converter REALLY emits (its own layout: "(and (imply a b) (imply b a) )", newline + blank after a
   quantifier's variable list) is left alone by [prep] and tokenised to exactly the structural [print e].
   Hypotheses: names are lexically valid tokens (not empty; no white space, parenthesis, ";", tab, upper-case letter). *)
Theorem C18_expr_lex_print_text :
  forall nm : naming,
    (forall f, name_ok (nm_fl nm f) = true) -> (forall o, name_ok (nm_obj nm o) = true) ->
    (forall p, name_ok (nm_par nm p) = true) -> (forall v, name_ok (nm_var nm v) = true) ->
    (forall t, name_ok (nm_ty nm t) = true) ->
    forall e s, print nm e = Some s ->
    exists t, print_text nm e = Some t /\ prep t = t /\ lex t = Some s.
Proof. exact lex_print_text. Qed.
Print Assumptions C18_expr_lex_print_text.

(* text level round trip: for every expression of the fragment the converter emits a text, and lower-casing +
   tokenisation + _parse_exp of that text give [norm e] *)
Theorem C18_expr_text_roundtrip :
  forall (nm : naming) (E : env),
    (forall f, e_fl E (nm_fl nm f) = Some f) ->
    (forall f, is_kw (nm_fl nm f) = false) ->
    (forall o, e_obj E (nm_obj nm o) = Some o) ->
    (forall o, e_fl E (nm_obj nm o) = None) ->
    (forall o, starts_q (nm_obj nm o) = false) ->
    (forall p, e_par E (nm_par nm p) = Some p) ->
    (forall v, e_var E (nm_var nm v) = Some v) ->
    (forall p v, nm_par nm p <> nm_var nm v) ->
    (forall t, e_ty E (nm_ty nm t) = Some t) ->
    (forall t, starts_q (nm_ty nm t) = false) ->
    (forall s q, parse_number s = Some q -> e_fl E s = None /\ e_obj E s = None) ->
    (forall f, name_ok (nm_fl nm f) = true) ->
    (forall o, name_ok (nm_obj nm o) = true) ->
    (forall p, name_ok (nm_par nm p) = true) ->
    (forall v, name_ok (nm_var nm v) = true) ->
    (forall t, name_ok (nm_ty nm t) = true) ->
    forall e, pddl_ok [] e = true ->
    exists t, print_text nm e = Some t /\ parse_text E t = Some (norm e).
Proof. exact text_roundtrip. Qed.
Print Assumptions C18_expr_text_roundtrip.

Definition ex_flat : string :=
  "(forall (?v1 - t0 ?v2 - t1)" ++ String nl
  (" (and (or (x0) (not (x1 ?v1 b3))) (imply (x2 ?v2 ?p0) (and (imply (x0) (= ?v1 ?p1)) (imply (= ?v1 ?p1) (x0)) ))"
   ++ " (exists (?v3 - t0)" ++ String nl " (<= (+ 1.25 (+ -7 (x3 ?v3))) (* -0.001 (* (x4) 2))))"
   ++ " (< (- (x4) 2.0) (/ 10000000000000000000000 (x4))) (= (x4) 12345.67)))").

(* the same expression as above at the text level, and a hand-written layout with upper case, a comment, a tab and
   a carriage return *)
Example C18_expr_text_roundtrip_nonvacuous :
  print_text ex_nm ex_e = Some ex_flat
  /\ option_map (fun r => expr_eqb r (norm ex_e)) (parse_text ex_env ex_flat) = Some true
  /\ lex_group (prep ("(AND (X0) ; comment (" ++ String nl (String tab ("(Not (x1 ?P0 B3))" ++ String cr ")"))))
     = Some (SList [Atom "and"; SList [Atom "x0"]; SList [Atom "not"; SList [Atom "x1"; Atom "?p0"; Atom "b3"]]])
  /\ exists t, print_text ex_nm ex_e = Some t /\ parse_text ex_env t = Some (norm ex_e).
Proof.
  split; [vm_compute; reflexivity|]. split; [vm_compute; reflexivity|]. split; [vm_compute; reflexivity|].
  apply ex_text_roundtrip. vm_compute. reflexivity.
Qed.
Print Assumptions C18_expr_text_roundtrip_nonvacuous.
