(* C10 — Problem kind reports every feature the problem uses: the OTHER problem classes.
   Only statements; each is closed by [exact] of a lemma from Proofs/KindOfClasses_proofs.v.

   Model/KindOfClasses.v mirrors ContingentProblem.kind, MultiAgentProblem.kind (+ its own _update_* helpers),
   HierarchicalProblem.kind (+ the overridden _get_static_and_unused_fluents) and SchedulingProblem.kind as they are in
   /repo today, and gives for each class the flattened view (everything the class feeds to the kind computation, as a
   [problem_desc]) so that the extractor [spec_features] of C10.v is reused for the common features, plus one short
   clause per class-specific feature.

   Proved:   contingent, hierarchical and scheduling in FULL (the latter two after the repairs c453608 and c7cadef of
   /repo, which made HierarchicalProblem.kind visit the types of task / method parameters and task-network variables and
   SchedulingProblem.kind analyse the decision variables of the base chronicle; before them the full statements were
   refuted by the witnesses [ex_hier_typing] and [ex_sched_vars], now positive examples);
   multi-agent: `_partial` (the 15 common features MultiAgentProblem.kind computes at all + the agent-goal features), the
   FULL statement is kept as `kind_covers_features_multi_agent_goal` and REFUTED here: the 23 features of [ma_missed]
   (fluent / action parameter kinds, interpreted functions, continuous effects, fluents in assignments and durations,
   duration types / inequalities, undefined initial values) are never reported (open finding
   C10-ma-kind-misses-common-features, reproduced on the real code by /verif/corpus/c10_classes_repro.py).
   Scheduling has no static-fluent analysis: STATIC_FLUENTS_IN_x is reported as FLUENTS_IN_x ([unstatic]). *)
From Coq Require Import List ZArith NArith Bool.
Import ListNotations.
Require Import UPV.Core.Expr UPV.Model.Kind UPV.Gen.Gen_Kind UPV.Model.KindOf UPV.Model.KindOfClasses
               UPV.Proofs.KindOfClasses_proofs.

Definition cx (e : expr) : cexpr := {| ce := e; ce_lin := true |}.
Definition plain_eff (fl : N) (args : list expr) (v : expr) (vc tc : vclass) (k : ekind) : eff :=
  {| ef_fl := fl; ef_args := args; ef_val := v; ef_vcls := vc; ef_tcls := tc; ef_cond := cx (EBool true); ef_kind := k;
     ef_forall := []; ef_rhs := [] |}.
Definition fd (i : N) (t : ty) (sig : list ty) (dflt : bool) (size missing : N) : fdecl :=
  {| fd_id := i; fd_ty := t; fd_sig := sig; fd_default := dflt; fd_inits := size - missing; fd_size := size; fd_missing := missing |}.
Definition empty_problem : problem_desc :=
  {| p_fluents := []; p_objtys := []; p_actions := []; p_events := []; p_processes := []; p_teffs := []; p_tgoals := [];
     p_goals := []; p_traj := []; p_metrics := []; p_discrete := false; p_selfoverlap := false |}.
Definition at_start : tm := {| tm_end := false; tm_sgn := 0 |}.
Definition at_end : tm := {| tm_end := true; tm_sgn := 0 |}.

(* ================================================================================================ CONTINGENT *)
(* hypothesis: the base description is well-formed (the [wf] of C10.v; checked on every serialised case) *)
Theorem C10_kind_covers_features_contingent :
  forall C, wf_contingent C -> incl (spec_contingent C) (kind_contingent C).
Proof. exact covers_contingent. Qed.
Print Assumptions C10_kind_covers_features_contingent.

(* a sensing action whose precondition is the only negation, an or-constraint on a hidden fluent with a default value *)
Definition ex_contingent : contingent_desc :=
  {| cp_base :=
       {| p_fluents := [fd 0 TBool [] true 1 1; fd 1 TBool [] false 1 1];
          p_objtys := [];
          p_actions := [AInst {| ia_params := []; ia_pre := [cx (ENot (EFluent 0 []))]; ia_effs := []; ia_sim := None;
                                 ia_sensing := true; ia_motion := false |}];
          p_events := []; p_processes := []; p_teffs := []; p_tgoals := []; p_goals := [cx (EFluent 0 [])]; p_traj := [];
          p_metrics := []; p_discrete := false; p_selfoverlap := false |};
     cp_or := [[EFluent 0 []; ENot (EFluent 0 [])]]; cp_oneof := []; cp_observed := [EFluent 0 []] |}.
Example C10_kind_covers_features_contingent_nonvacuous :
  wf_contingent ex_contingent
  /\ spec_contingent ex_contingent = [f_NEGATIVE_CONDITIONS; f_UNDEFINED_INITIAL_SYMBOLIC; f_CONTINGENT]
  /\ incl (spec_contingent ex_contingent) (kind_contingent ex_contingent).
Proof. split; [reflexivity|]. split; [vm_compute; reflexivity|]. apply C10_kind_covers_features_contingent. reflexivity. Qed.

(* READING, not a defect: under the alternative reading "a fluent constrained by an or / oneof initial constraint has no
   defined initial value" the kind would have to contain UNDEFINED_INITIAL_SYMBOLIC; the code (and [spec_contingent])
   take the hidden fluents to be what CONTINGENT itself announces. *)
Definition ex_contingent_hidden : contingent_desc :=
  {| cp_base := {| p_fluents := [fd 0 TBool [] true 1 1]; p_objtys := []; p_actions := []; p_events := []; p_processes := [];
                   p_teffs := []; p_tgoals := []; p_goals := [cx (EFluent 0 [])]; p_traj := []; p_metrics := [];
                   p_discrete := false; p_selfoverlap := false |};
     cp_or := [[EFluent 0 []; ENot (EFluent 0 [])]]; cp_oneof := []; cp_observed := [] |}.
Example contingent_hidden_reading :
  wf_contingent ex_contingent_hidden
  /\ In f_UNDEFINED_INITIAL_SYMBOLIC (spec_contingent_hidden ex_contingent_hidden)
  /\ memN f_UNDEFINED_INITIAL_SYMBOLIC (kind_contingent ex_contingent_hidden) = false.
Proof. split; [reflexivity|]. split; [left; reflexivity | vm_compute; reflexivity]. Qed.

(* =============================================================================================== MULTI-AGENT *)
(* hypotheses ([wf_ma]): the flattened view is well-formed; continuous effects are unconditional and unquantified;
   every user type of a forall-effect variable also types an object, a fluent or an action parameter *)
Theorem C10_kind_covers_features_multi_agent_partial :
  forall M, wf_ma M -> incl (spec_ma M) (kind_ma M).
Proof. exact covers_ma. Qed.
Print Assumptions C10_kind_covers_features_multi_agent_partial.

(* one agent with: a Boolean fluent with a Boolean parameter, an undefined bounded int fluent with an int parameter, an
   undefined object fluent, three never-written fluents (bool / int / object), a real fluent; an instantaneous action
   with bool / bounded int / unbounded int / real parameters, an interpreted function in its precondition, assignments
   from static and from non-static fluents of each class; a durative action with duration [static int fluent,
   written real fluent + interpreted function] and continuous increase / decrease effects; a private goal with an Or *)
Definition T0 : ty := TUser 0 false.
Definition ex_ma_action1 : action :=
  AInst {| ia_params := [TBool; TInt true true; TInt false true; TReal false false];
           ia_pre := [cx (EIFun 0 [EInt 1])];
           ia_effs := [ plain_eff 0 [EBool true] (EFluent 3 []) CBool CBool KAssign
                      ; plain_eff 1 [EInt 1] (EFluent 4 []) CInt CInt KAssign
                      ; plain_eff 2 [] (EFluent 5 []) CUser CUser KAssign
                      ; plain_eff 0 [EBool false] (EFluent 0 [EBool true]) CBool CBool KAssign
                      ; plain_eff 1 [EInt 2] (EFluent 1 [EInt 1]) CInt CInt KAssign
                      ; plain_eff 2 [] (EFluent 2 []) CUser CUser KAssign ];
           ia_sim := None; ia_sensing := false; ia_motion := false |}.
Definition ex_ma_action2 : action :=
  ADur {| da_params := [];
          da_lo := {| de := EFluent 4 []; de_cls := CInt |};
          da_hi := {| de := EPlus [EFluent 6 []; EIFun 1 []]; de_cls := CReal |};
          da_conds := []; da_effs := [];
          da_ceffs := [ ((at_start, at_end), plain_eff 6 [] (EInt 1) CInt CReal KCInc)
                      ; ((at_start, at_end), plain_eff 6 [] (EInt 2) CInt CReal KCDec) ];
          da_sims := []; da_motion := false |}.
Definition ex_ma : ma_desc :=
  {| ma_agents :=
       [ {| ag_fluents := [ fd 0 TBool [TBool] true 2 2; fd 1 (TInt true true) [TInt true true] false 4 4; fd 2 T0 [] false 1 1
                          ; fd 3 TBool [] true 1 1; fd 4 (TInt false false) [] true 1 1; fd 5 T0 [] true 1 1
                          ; fd 6 (TReal false false) [] true 1 1 ];
            ag_actions := [ex_ma_action1; ex_ma_action2];
            ag_public := [];
            ag_private := [cx (EOr [EFluent 3 []; EFluent 0 [EBool true]])] |} ];
     ma_env_fluents := []; ma_objtys := [T0]; ma_goals := [] |}.

Example C10_kind_covers_features_multi_agent_nonvacuous :
  wf_ma ex_ma
  /\ spec_ma ex_ma = [ f_FLAT_TYPING; f_INT_FLUENTS; f_REAL_FLUENTS; f_OBJECT_FLUENTS; f_BOUNDED_TYPES
                     ; f_DISJUNCTIVE_CONDITIONS; f_ACTION_BASED_MULTI_AGENT; f_AGENT_SPECIFIC_PRIVATE_GOAL ]
  /\ incl (spec_ma ex_ma) (kind_ma ex_ma).
Proof. split; [reflexivity|]. split; [vm_compute; reflexivity|]. apply C10_kind_covers_features_multi_agent_partial. reflexivity. Qed.

(* the FULL statement is false: on the same well-formed problem every feature of [ma_missed] is used and none is in the
   computed kind (a genuine defect of MultiAgentProblem.kind, reproduced on the real code) *)
Theorem C10_kind_covers_features_multi_agent_refuted :
  exists M, wf_ma M
            /\ forallb (fun f => memN f (spec_ma_full M) && negb (memN f (kind_ma M))) ma_missed = true.
Proof. exists ex_ma. split; vm_compute; reflexivity. Qed.
Print Assumptions C10_kind_covers_features_multi_agent_refuted.

Theorem C10_kind_covers_features_multi_agent_goal_false : ~ kind_covers_features_multi_agent_goal.
Proof.
  intro G. specialize (G ex_ma eq_refl f_BOOL_ACTION_PARAMETERS).
  assert (X : In f_BOOL_ACTION_PARAMETERS (spec_ma_full ex_ma)) by (apply KindOf_proofs.memN_In; vm_compute; reflexivity).
  apply G in X. apply KindOf_proofs.memN_In in X. vm_compute in X. discriminate X.
Qed.
Print Assumptions C10_kind_covers_features_multi_agent_goal_false.

(* ============================================================================================== HIERARCHICAL *)
(* hypothesis: the flattened view (base problem + method preconditions + non-temporal constraints as conditions) is
   well-formed.  Covers all common features and HIERARCHICAL, METHOD_PRECONDITIONS, TASK_NETWORK_CONSTRAINTS,
   INITIAL_TASK_NETWORK_VARIABLES, TASK_ORDER_TOTAL / PARTIAL / TEMPORAL, and ([spec_hier_params]) the typing of task
   parameters, method parameters and task-network variables.  FULL: this is kind_covers_features_hierarchical_goal. *)
Theorem C10_kind_covers_features_hierarchical :
  forall H, wf_hier H -> incl (spec_hier_full H) (kind_hier H).
Proof. exact covers_hier_full. Qed.
Print Assumptions C10_kind_covers_features_hierarchical.

(* a durative action whose duration is an int fluent that only a method precondition reads besides (so INT_FLUENTS is
   due to the overridden unused-fluent analysis), the only quantifier / disjunction in a method precondition, the only
   equality in a task-network constraint, a partially ordered method, a variable in the initial task network *)
Definition ex_hier_base : problem_desc :=
  {| p_fluents := [fd 0 (TInt false false) [] true 1 1; fd 1 TBool [T0] true 2 2];
     p_objtys := [T0; T0];
     p_actions := [ADur {| da_params := [T0]; da_lo := {| de := EFluent 0 []; de_cls := CInt |};
                           da_hi := {| de := EFluent 0 []; de_cls := CInt |}; da_conds := [];
                           da_effs := [(at_end, plain_eff 1 [EParam 0] (EBool true) CBool CBool KAssign)];
                           da_ceffs := []; da_sims := []; da_motion := false |}];
     p_events := []; p_processes := []; p_teffs := []; p_tgoals := []; p_goals := []; p_traj := []; p_metrics := [];
     p_discrete := false; p_selfoverlap := false |}.
Definition ex_hier : hier_desc :=
  {| hp_base := ex_hier_base; hp_task_params := [T0];
     hp_methods := [ {| me_params := [T0];
                        me_pre := [cx (EOr [ELt (EInt 0) (EFluent 0 []); EExists [(0%N, 0%N)] (EFluent 1 [EVar 0 0])])];
                        me_constraints := []; me_lvl := 1; me_subtask_args := [EParam 1] |} ];
     hp_tn_vars := [T0]; hp_tn_constraints := [cx (EEquals (EParam 2) (EObj 0))]; hp_tn_lvl := 0 |}.
Example C10_kind_covers_features_hierarchical_nonvacuous :
  wf_hier ex_hier
  /\ spec_hier ex_hier = [ f_FLAT_TYPING; f_INT_FLUENTS; f_DISJUNCTIVE_CONDITIONS; f_EQUALITIES; f_EXISTENTIAL_CONDITIONS
                         ; f_STATIC_FLUENTS_IN_DURATIONS; f_INT_TYPE_DURATIONS
                         ; f_HIERARCHICAL; f_METHOD_PRECONDITIONS; f_TASK_NETWORK_CONSTRAINTS
                         ; f_INITIAL_TASK_NETWORK_VARIABLES; f_TASK_ORDER_PARTIAL ]
  /\ incl (spec_hier_full ex_hier) (kind_hier ex_hier).
Proof. split; [reflexivity|]. split; [vm_compute; reflexivity|]. apply C10_kind_covers_features_hierarchical. reflexivity. Qed.

(* the position repaired by c453608: a subtype that only a task parameter, a method parameter and a task-network variable
   mention (before the repair HIERARCHICAL_TYPING was missing from the kind of this problem) *)
Definition T1sub : ty := TUser 1 true.
Definition ex_hier_typing : hier_desc :=
  {| hp_base := {| p_fluents := [fd 1 TBool [T0] true 1 1]; p_objtys := [T0];
                   p_actions := [AInst {| ia_params := [T0]; ia_pre := [];
                                          ia_effs := [plain_eff 1 [EParam 0] (EBool true) CBool CBool KAssign];
                                          ia_sim := None; ia_sensing := false; ia_motion := false |}];
                   p_events := []; p_processes := []; p_teffs := []; p_tgoals := []; p_goals := []; p_traj := [];
                   p_metrics := []; p_discrete := false; p_selfoverlap := false |};
     hp_task_params := [T1sub];
     hp_methods := [ {| me_params := [T1sub]; me_pre := []; me_constraints := []; me_lvl := 0; me_subtask_args := [EParam 1] |} ];
     hp_tn_vars := [T1sub]; hp_tn_constraints := []; hp_tn_lvl := 0 |}.
Example C10_kind_covers_features_hierarchical_params_nonvacuous :
  wf_hier ex_hier_typing /\ In f_HIERARCHICAL_TYPING (spec_hier_params ex_hier_typing)
  /\ memN f_HIERARCHICAL_TYPING (kind_hier ex_hier_typing) = true.
Proof. split; [reflexivity|]. split; [left; reflexivity | vm_compute; reflexivity]. Qed.

(* ================================================================================================ SCHEDULING *)
(* hypothesis: the flattened view (activities as durative actions, base conditions / effects as timed goals / effects,
   constraints as conditions) is well-formed.  The STATIC_FLUENTS_IN_x clauses are read as FLUENTS_IN_x ([unstatic]). *)
(* FULL (kind_covers_features_scheduling_goal): [spec_sched_full] also has the parameter-kind and typing clauses of the
   decision variables of the base chronicle *)
Theorem C10_kind_covers_features_scheduling :
  forall S, wf_sched S -> incl (spec_sched_full S) (kind_sched S).
Proof. exact covers_sched_full. Qed.
Print Assumptions C10_kind_covers_features_scheduling.

(* an optional activity with an int parameter whose duration reads a (never written) int fluent and which decreases a
   bounded resource at its start and increases it at its end; a scoped disjunctive constraint; a base condition *)
Definition ex_sched_activity : activity_desc :=
  {| ac_optional := true; ac_params := [TInt true true];
     ac_lo := {| de := EFluent 1 []; de_cls := CInt |}; ac_hi := {| de := EInt 5; de_cls := CInt |};
     ac_conds := [];
     ac_effs := [ (at_start, plain_eff 0 [] (EInt 1) CInt CInt KDec); (at_end, plain_eff 0 [] (EInt 1) CInt CInt KInc) ];
     ac_constraints := [ (cx (EOr [ELt (EParam 0) (EInt 2); ENot (ELt (EParam 0) (EInt 3))]), true) ] |}.
Definition ex_sched : sched_desc :=
  {| sp_fluents := [fd 0 (TInt true true) [] true 1 1; fd 1 (TInt false false) [] true 1 1];
     sp_objtys := []; sp_metrics := [MMakespan]; sp_vars := [];
     sp_conds := [((at_start, at_start), cx (ELe (EInt 0) (EFluent 0 [])))];
     sp_effs := []; sp_constraints := []; sp_activities := [ex_sched_activity];
     sp_discrete := true; sp_selfoverlap := false |}.
Example C10_kind_covers_features_scheduling_nonvacuous :
  wf_sched ex_sched
  /\ spec_sched ex_sched = [ f_INT_FLUENTS; f_BOUNDED_INT_ACTION_PARAMETERS; f_BOUNDED_TYPES; f_NEGATIVE_CONDITIONS
                           ; f_DISJUNCTIVE_CONDITIONS; f_INCREASE_EFFECTS; f_DECREASE_EFFECTS; f_FLUENTS_IN_DURATIONS
                           ; f_INT_TYPE_DURATIONS; f_DURATION_INEQUALITIES; f_TIMED_GOALS; f_MAKESPAN
                           ; f_SCHEDULING; f_OPTIONAL_ACTIVITIES; f_SCOPED_CONSTRAINTS ]
  /\ incl (spec_sched_full ex_sched) (kind_sched ex_sched).
Proof. split; [reflexivity|]. split; [vm_compute; reflexivity|]. apply C10_kind_covers_features_scheduling. reflexivity. Qed.

(* the position repaired by c7cadef: decision variables of the base chronicle (before the repair none of the three
   features was in the kind of this problem) *)
Definition ex_sched_vars : sched_desc :=
  {| sp_fluents := []; sp_objtys := []; sp_metrics := []; sp_vars := [TInt true true; TBool; TUser 1 true];
     sp_conds := []; sp_effs := []; sp_constraints := [(cx (EOr [EParam 1; ELt (EParam 0) (EInt 2)]), false)];
     sp_activities := []; sp_discrete := true; sp_selfoverlap := false |}.
Example C10_kind_covers_features_scheduling_vars_nonvacuous :
  wf_sched ex_sched_vars
  /\ forallb (fun f => memN f (spec_sched_vars ex_sched_vars) && memN f (kind_sched ex_sched_vars))
             [f_BOUNDED_INT_ACTION_PARAMETERS; f_BOOL_ACTION_PARAMETERS; f_HIERARCHICAL_TYPING] = true.
Proof. split; vm_compute; reflexivity. Qed.

(* literal reading of the STATIC_ clauses: the never-written fluent in the duration of [ex_sched] is reported as
   FLUENTS_IN_DURATIONS, not STATIC_FLUENTS_IN_DURATIONS (over-approximation towards the more general feature) *)
Theorem C10_scheduling_static_reading_refuted :
  exists S, wf_sched S /\ In f_STATIC_FLUENTS_IN_DURATIONS (spec_features (flat_sched S))
            /\ memN f_STATIC_FLUENTS_IN_DURATIONS (kind_sched S) = false
            /\ memN f_FLUENTS_IN_DURATIONS (kind_sched S) = true.
Proof.
  exists ex_sched. split; [reflexivity|]. split; [apply KindOf_proofs.memN_In; vm_compute; reflexivity|].
  split; vm_compute; reflexivity.
Qed.
Print Assumptions C10_scheduling_static_reading_refuted.
