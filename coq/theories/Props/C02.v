(* C02 — Simulator applicability queries agree with apply.
   The model mirrors the repaired code: the full-check path of get_unsatisfied_conditions runs the same effect loop as
   apply_unsafe (fix commit in /repo: "fix: full-check applicability evaluates every effect in order ..."). *)
From Coq Require Import List ZArith NArith QArith Qcanon Bool.
Import ListNotations.
Require Import UPV.Core.Expr UPV.Core.Eval UPV.Core.Interp UPV.Planning.Problem UPV.Planning.Sem.
Require Import UPV.Proofs.Sem_proofs UPV.Proofs.Step_proofs.

Theorem C02_is_applicable_iff_apply :
  forall sc P s a args,
    sim_is_applicable sc P s a args = match sim_apply sc P s a args with Some _ => true | None => false end.
Proof. exact is_applicable_iff_apply. Qed.
Print Assumptions C02_is_applicable_iff_apply.

Theorem C02_applicable_actions_exact :
  forall sc P s insts ai,
    In ai (sim_applicable_actions sc P s insts) <->
    In ai insts /\ exists a, lookup_action P (fst ai) = Some a /\ exists t, sim_apply sc P s a (snd ai) = Some t.
Proof. exact applicable_actions_exact. Qed.
Print Assumptions C02_applicable_actions_exact.

Theorem C02_is_goal_iff_no_unsatisfied_goal :
  forall sc P s, sim_is_goal sc P s = match sim_unsat_goals sc P s with [] => true | _ :: _ => false end.
Proof. exact is_goal_iff_no_unsat. Qed.
Print Assumptions C02_is_goal_iff_no_unsatisfied_goal.

(* in the model a query is a pure function, so every interleaving gives each query its stand-alone answer; that the
   IMPLEMENTATION's caches (grounding cache, StateEvaluator memo) keep this is what the correspondence tests *)
Theorem C02_queries_pure_partial :
  forall sc P keys qs1 sq qs2,
    nth_error (run_queries sc P keys (qs1 ++ sq :: qs2)) (length qs1) = Some (answer_of sc P keys (fst sq) (snd sq)).
Proof. exact queries_pure. Qed.
Print Assumptions C02_queries_pure_partial.
