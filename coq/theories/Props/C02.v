(* C02 — Simulator applicability queries agree with apply.
   The model mirrors the repaired code: the full-check path of get_unsatisfied_conditions runs the same effect loop as
   apply_unsafe (fix commit in /repo: "fix: full-check applicability evaluates every effect in order ..."). *)
From Coq Require Import List ZArith NArith QArith Qcanon Bool.
Import ListNotations.
Require Import UPV.Core.Expr UPV.Core.Eval UPV.Core.Interp UPV.Planning.Problem UPV.Planning.Sem.
Require Import UPV.Proofs.Sem_proofs UPV.Proofs.Step_proofs UPV.Planning.SimCache UPV.Proofs.SimCache_proofs.

Theorem C02_is_applicable_iff_apply :
  forall sc P s a args,
    sim_is_applicable sc P s a args = match sim_apply sc P s a args with Some _ => true | None => false end.
Proof. exact is_applicable_iff_apply. Qed.
Print Assumptions C02_is_applicable_iff_apply.

Theorem C02_applicable_actions_exact :
  forall sc P s insts ai,
    In ai (sim_applicable_actions sc P s insts) <->
    In ai insts /\ exists a, lookup_action P (fst ai) = Some a /\ exists t, sim_apply sc P s a (snd ai) = Some t.
Proof. exact applicable_actions_exact. Qed.
Print Assumptions C02_applicable_actions_exact.

Theorem C02_is_goal_iff_no_unsatisfied_goal :
  forall sc P s, sim_is_goal sc P s = match sim_unsat_goals sc P s with [] => true | _ :: _ => false end.
Proof. exact is_goal_iff_no_unsat. Qed.
Print Assumptions C02_is_goal_iff_no_unsatisfied_goal.

(* in the model a query is a pure function, so every interleaving gives each query its stand-alone answer; that the
   IMPLEMENTATION's caches (grounding cache, StateEvaluator memo) keep this is what the correspondence tests *)
Theorem C02_queries_pure_partial :
  forall sc P keys qs1 sq qs2,
    nth_error (run_queries sc P keys (qs1 ++ sq :: qs2)) (length qs1) = Some (answer_of sc P keys (fst sq) (snd sq)).
Proof. exact queries_pure. Qed.
Print Assumptions C02_queries_pure_partial.

(* The simulator instance DOES carry state across queries: the memo of grounded actions.  Modelled as a cache threaded
   through the queries (Planning/SimCache.v): whatever the interleaving, and starting from any coherent cache (in
   particular the empty one of a fresh simulator), every query gets exactly the answer of the cache-free simulator, so
   no query changes the answer to any later query.  [ground], [key], [answer] are arbitrary: instantiate [ground] with
   the grounding function, [answer] with is_applicable / apply / is_goal on the state carried by the query. *)
Theorem C02_queries_pure_with_grounding_cache :
  forall (K A Q R : Type) (keqb : K -> K -> bool), (forall a b, keqb a b = true -> a = b) ->
  forall (ground : K -> A) (key : Q -> K) (answer : A -> Q -> R) (qs : list Q) (c : cache K A),
    coherent K A keqb ground c ->
    fst (run_cached_queries K A Q R keqb ground key answer c qs) = map (fun q => answer (ground (key q)) q) qs /\
    coherent K A keqb ground (snd (run_cached_queries K A Q R keqb ground key answer c qs)).
Proof. exact run_cached_queries_pure. Qed.
Print Assumptions C02_queries_pure_with_grounding_cache.
