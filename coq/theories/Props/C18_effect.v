(* C18, part "effect": the effect layer of the PDDL codec (Model/PddlEffect.v).
   print_effects = PDDLWriter._write_untimed_effects/_write_effect;  parse_effects = UPPDDLReader._add_effect. *)
From Coq Require Import List ZArith NArith QArith Qcanon Bool String Ascii Permutation.
Import ListNotations.
Require Import UPV.Core.Expr UPV.Core.Eval UPV.Planning.Problem UPV.Planning.Sem UPV.Model.PddlExpr UPV.Model.PddlLex
  UPV.Model.PddlEffect UPV.Proofs.PddlExpr_proofs UPV.Proofs.PddlLex_proofs UPV.Proofs.PddlEffect_proofs.
Local Open Scope string_scope.

(* SEMANTICS of the normal form (what the reader rebuilds from the writer's effect text, see [norm_effs]: effects with
   a constantly false condition dropped, breadth-first order, expressions normalised): for every simplifier, every
   interpretation and both quantifier modes, whenever the written effect list fires the assignments [acts], the re-read
   list fires the same assignments as a multiset (Planning/Sem.v [fired] = target key, kind, value of every effect
   instance whose condition holds).  No hypothesis besides membership in the fragment. *)
Theorem C18_effect_norm_effs_fired :
  forall (simp : expr -> expr) (isb : N -> bool) (sc : bool) (I : interp) (effs : list effect) (acts : list aeff),
    Forall (fun e => pddl_eff_ok simp isb e = true) effs ->
    fired sc I effs = Some acts ->
    exists acts', fired sc I (norm_effs effs) = Some acts' /\ Permutation acts acts'.
Proof. exact norm_effs_fired. Qed.
Print Assumptions C18_effect_norm_effs_fired.

(* ... and therefore the same successor state: with the documented per-fluent combination of Planning/Sem.v
   ([spec_fluent] = [combine] of the values assigned to a ground fluent and of its increases/decreases), the re-read
   effect list passes the conflict check exactly when the written one does ([spec_effects_ok]) and leads to the same
   successor ([spec_succ]) from every state - the result depends on the fired assignments only as a multiset. *)
Theorem C18_effect_roundtrip_same_successor :
  forall (simp : expr -> expr) (isb : N -> bool) (sc : bool) (I : interp) (P : problem) (s : state)
         (effs : list effect) (acts : list aeff),
    Forall (fun e => pddl_eff_ok simp isb e = true) effs ->
    fired sc I effs = Some acts ->
    exists acts', fired sc I (norm_effs effs) = Some acts'
                  /\ spec_effects_ok P s acts' = spec_effects_ok P s acts
                  /\ forall f args, spec_succ P s acts' f args = spec_succ P s acts f args.
Proof. exact roundtrip_same_successor. Qed.
Print Assumptions C18_effect_roundtrip_same_successor.

(* THE SYNTACTIC ROUND TRIP, for every simplifier [simp], every effect list of the fragment [pddl_eff_ok] (effects in
   simplifier normal form; plain, conditional, universally quantified and both; assign / increase / decrease / Boolean
   literals) and both settings of rewrite_bool_assignments: the writer prints an "(and ...)" group and the reader's FIFO work
   list rebuilds exactly [norm_effs effs].
   Hypotheses: the 11 renaming hypotheses of C18_expr_roundtrip, no fluent is named like an effect keyword
   (and/when/not/assign/increase/decrease/forall), no fluent / object / type is named "#t". *)
Theorem C18_effect_roundtrip :
  forall (simp : expr -> expr) (isb : N -> bool) (nm : naming) (E : env),
    (forall f, PddlExpr.e_fl E (nm_fl nm f) = Some f) ->
    (forall f, is_kw (nm_fl nm f) = false) ->
    (forall o, e_obj E (nm_obj nm o) = Some o) ->
    (forall o, PddlExpr.e_fl E (nm_obj nm o) = None) ->
    (forall o, starts_q (nm_obj nm o) = false) ->
    (forall p, e_par E (nm_par nm p) = Some p) ->
    (forall v, e_var E (nm_var nm v) = Some v) ->
    (forall p v, nm_par nm p <> nm_var nm v) ->
    (forall t, e_ty E (nm_ty nm t) = Some t) ->
    (forall t, starts_q (nm_ty nm t) = false) ->
    (forall s q, parse_number s = Some q -> PddlExpr.e_fl E s = None /\ e_obj E s = None) ->
    (forall f, is_eff_kw (nm_fl nm f) = false) ->
    (forall f, (nm_fl nm f =? "#t") = false) ->
    (forall o, (nm_obj nm o =? "#t") = false) ->
    (forall t, (nm_ty nm t =? "#t") = false) ->
    forall (rewrite : bool) (effs : list effect),
      forallb (pddl_eff_ok simp isb) effs = true ->
      exists s, print_effects simp nm rewrite effs = Some s /\ parse_effects simp E isb s = Some (norm_effs effs).
Proof. exact effects_roundtrip_full. Qed.
Print Assumptions C18_effect_roundtrip.

(* TEXT LEVEL: the text _write_untimed_effects really emits ("(and" + " f" / " (when c f)" / "(forall (vs) ...)" items, the
   forall items WITHOUT a blank before their parenthesis) is left alone by the reader's lower-casing, tokenised to the
   structural [print_effects] and read back by _add_effect as [norm_effs effs].  Hypotheses: those of
   C18_effect_roundtrip + names are lexically valid tokens ([name_ok], as in C18_expr_text_roundtrip). *)
Theorem C18_effect_text_roundtrip :
  forall (simp : expr -> expr) (isb : N -> bool) (nm : naming) (E : env),
    (forall f, PddlExpr.e_fl E (nm_fl nm f) = Some f) ->
    (forall f, is_kw (nm_fl nm f) = false) ->
    (forall o, e_obj E (nm_obj nm o) = Some o) ->
    (forall o, PddlExpr.e_fl E (nm_obj nm o) = None) ->
    (forall o, starts_q (nm_obj nm o) = false) ->
    (forall p, e_par E (nm_par nm p) = Some p) ->
    (forall v, e_var E (nm_var nm v) = Some v) ->
    (forall p v, nm_par nm p <> nm_var nm v) ->
    (forall t, e_ty E (nm_ty nm t) = Some t) ->
    (forall t, starts_q (nm_ty nm t) = false) ->
    (forall s q, parse_number s = Some q -> PddlExpr.e_fl E s = None /\ e_obj E s = None) ->
    (forall f, is_eff_kw (nm_fl nm f) = false) ->
    (forall f, (nm_fl nm f =? "#t") = false) ->
    (forall o, (nm_obj nm o =? "#t") = false) ->
    (forall t, (nm_ty nm t =? "#t") = false) ->
    (forall f, name_ok (nm_fl nm f) = true) ->
    (forall o, name_ok (nm_obj nm o) = true) ->
    (forall p, name_ok (nm_par nm p) = true) ->
    (forall v, name_ok (nm_var nm v) = true) ->
    (forall t, name_ok (nm_ty nm t) = true) ->
    forall (rewrite : bool) (effs : list effect),
      forallb (pddl_eff_ok simp isb) effs = true ->
      exists t, print_effects_text simp nm rewrite effs = Some t
                /\ parse_effects_text simp E isb t = Some (norm_effs effs).
Proof. exact effects_text_roundtrip_full. Qed.
Print Assumptions C18_effect_text_roundtrip.


(* a concrete instance with every shape: plain, when, forall, forall+when, a dropped effect, increase, a value whose
   normal form differs; the reader's breadth-first order is visible in the result *)
Definition xe (f : N) (args : list expr) (v c : expr) (k : ekind) (vs : list (N * N)) (b : bool) : effect :=
  {| Problem.e_fl := f; e_args := args; e_val := v; e_cond := c; e_kind := k; e_vars := vs; e_isbool := b |}.
Definition ex_isb (f : N) : bool := (f =? 0)%N || (f =? 2)%N.
Definition ex_effs : list effect :=
  [ xe 1 [EObj 3] (EInt 2) (EFluent 0 []) KInc [] false;
    xe 2 [EVar 1 0] (EBool false) (EBool true) KAssign [(1%N, 0%N)] true;
    xe 0 [] (EBool true) (EBool true) KAssign [] true;
    xe 1 [EVar 2 0] (EPlus [EFluent 1 [EVar 2 0]; EInt 1]) (EFluent 2 [EVar 2 0]) KAssign [(2%N, 0%N)] false;
    xe 0 [] (EBool false) (EBool false) KAssign [] true;
    xe 2 [EObj 3] (EBool true) (EBool true) KAssign [] true ].
Definition ex_eff_text : sexp :=
  SList [Atom "and";
    SList [Atom "when"; SList [Atom "x0"]; SList [Atom "increase"; SList [Atom "x1"; Atom "b3"]; Atom "2"]];
    SList [Atom "forall"; SList [Atom "?v1"; Atom "-"; Atom "t0"]; SList [Atom "not"; SList [Atom "x2"; Atom "?v1"]]];
    SList [Atom "x0"];
    SList [Atom "forall"; SList [Atom "?v2"; Atom "-"; Atom "t0"];
      SList [Atom "when"; SList [Atom "x2"; Atom "?v2"];
        SList [Atom "assign"; SList [Atom "x1"; Atom "?v2"]; SList [Atom "+"; Atom "1"; SList [Atom "x1"; Atom "?v2"]]]]];
    SList [Atom "x2"; Atom "b3"]].

Example C18_effect_nonvacuous :
  forallb (pddl_eff_ok (fun x => x) ex_isb) ex_effs = true
  /\ print_effects (fun x => x) ex_nm true ex_effs = Some ex_eff_text
  /\ parse_effects (fun x => x) ex_env ex_isb ex_eff_text = Some (norm_effs ex_effs)
  /\ (exists s, print_effects (fun x => x) ex_nm true ex_effs = Some s
                /\ parse_effects (fun x => x) ex_env ex_isb s = Some (norm_effs ex_effs))
  /\ norm_effs ex_effs =
     [ xe 0 [] (EBool true) (EBool true) KAssign [] true;
       xe 2 [EObj 3] (EBool true) (EBool true) KAssign [] true;
       xe 1 [EObj 3] (EInt 2) (EFluent 0 []) KInc [] false;
       xe 2 [EVar 1 0] (EBool false) (EBool true) KAssign [(1%N, 0%N)] true;
       xe 1 [EVar 2 0] (EPlus [EInt 1; EFluent 1 [EVar 2 0]]) (EFluent 2 [EVar 2 0]) KAssign [(2%N, 0%N)] false ].
Proof.
  split; [vm_compute; reflexivity|]. split; [vm_compute; reflexivity|]. split; [vm_compute; reflexivity|].
  split; [apply ex_effects_roundtrip; vm_compute; reflexivity|vm_compute; reflexivity].
Qed.
Print Assumptions C18_effect_nonvacuous.

Example C18_effect_text_nonvacuous :
  print_effects_text (fun x => x) ex_nm true ex_effs =
    Some "(and (when (x0) (increase (x1 b3) 2))(forall (?v1 - t0) (not (x2 ?v1))) (x0)(forall (?v2 - t0) (when (x2 ?v2) (assign (x1 ?v2) (+ 1 (x1 ?v2))))) (x2 b3))"
  /\ exists t, print_effects_text (fun x => x) ex_nm true ex_effs = Some t
               /\ parse_effects_text (fun x => x) ex_env ex_isb t = Some (norm_effs ex_effs).
Proof. split; [vm_compute; reflexivity|]. apply ex_effects_text_roundtrip. vm_compute. reflexivity. Qed.
Print Assumptions C18_effect_text_nonvacuous.

(* ======================================================================= one instantaneous action *)
(* the typed parameter list ":parameters (?p - t ...)" is read back: the tokens are atoms, the grammar's typed list
   ([parse_vars]) returns the names with their types and act.parameter finds every parameter *)
Theorem C18_action_params_roundtrip :
  forall (nm : naming) (E : env),
    (forall p, e_par E (nm_par nm p) = Some p) ->
    (forall t, e_ty E (nm_ty nm t) = Some t) ->
    (forall t, starts_q (nm_ty nm t) = false) ->
    forall ps, forallb is_atom (print_pars nm ps) = true
               /\ exists nps, parse_vars E [] (print_pars nm ps) = Some nps
                              /\ sequence (map (fun p => option_map (fun i => (i, snd p)) (e_par E (fst p))) nps) = Some ps.
Proof. exact params_roundtrip. Qed.
Print Assumptions C18_action_params_roundtrip.

(* THE WHOLE ACTION, structural level: for every action of the fragment [pddl_action_ok] (no precondition simplifies to
   FALSE; the written conjuncts - preconditions simplified, TRUE dropped, a top-level And flattened - are fixpoints of the
   simplifier and printable; effects in [pddl_eff_ok]) the writer produces the parameter tokens, the "(and c1 .. cn)"
   precondition group (n = 0, 1, many; "()" or no :precondition for an action without preconditions) and the effect
   group, and the reader rebuilds [norm_action simp a]: same typed parameters, ONE precondition = the conjunction of the
   normalised conjuncts (none when it is TRUE), effects = [norm_effs]. *)
Theorem C18_action_roundtrip :
  forall (simp : expr -> expr) (isb : N -> bool) (nm : naming) (E : env),
    (forall f, PddlExpr.e_fl E (nm_fl nm f) = Some f) ->
    (forall f, is_kw (nm_fl nm f) = false) ->
    (forall o, e_obj E (nm_obj nm o) = Some o) ->
    (forall o, PddlExpr.e_fl E (nm_obj nm o) = None) ->
    (forall o, starts_q (nm_obj nm o) = false) ->
    (forall p, e_par E (nm_par nm p) = Some p) ->
    (forall v, e_var E (nm_var nm v) = Some v) ->
    (forall p v, nm_par nm p <> nm_var nm v) ->
    (forall t, e_ty E (nm_ty nm t) = Some t) ->
    (forall t, starts_q (nm_ty nm t) = false) ->
    (forall s q, parse_number s = Some q -> PddlExpr.e_fl E s = None /\ e_obj E s = None) ->
    (forall f, is_eff_kw (nm_fl nm f) = false) ->
    (forall f, (nm_fl nm f =? "#t") = false) ->
    (forall o, (nm_obj nm o =? "#t") = false) ->
    (forall t, (nm_ty nm t =? "#t") = false) ->
    forall (rewrite empty_pre : bool) (a : paction),
      pddl_action_ok simp isb a = true ->
      exists x, print_action simp nm rewrite empty_pre a = Some (Some x)
                /\ parse_action simp E isb x = Some (norm_action simp a).
Proof. exact action_roundtrip. Qed.
Print Assumptions C18_action_roundtrip.

(* ... and the re-read action BEHAVES like the written one: in every interpretation in which the Simplifier is sound on
   conditions (hypothesis: it preserves [holds]; this is C11's subject) all preconditions of [a] hold exactly when the
   precondition of [norm_action simp a] holds, and whenever the effects of [a] fire [acts], the effects of the re-read
   action fire assignments that pass the conflict check equally and give the same successor from every state. *)
Theorem C18_action_same_behaviour :
  forall (simp : expr -> expr) (isb : N -> bool) (sc : bool) (I : interp),
    (forall x, holds sc I (simp x) = holds sc I x) ->
    forall (P : problem) (s : state) (a : paction),
      pddl_action_ok simp isb a = true ->
      forallb (holds sc I) (pa_pre (norm_action simp a)) = forallb (holds sc I) (pa_pre a)
      /\ forall acts, fired sc I (pa_effs a) = Some acts ->
           exists acts', fired sc I (pa_effs (norm_action simp a)) = Some acts'
                         /\ spec_effects_ok P s acts' = spec_effects_ok P s acts
                         /\ forall f args, spec_succ P s acts' f args = spec_succ P s acts f args.
Proof. exact action_same_behaviour. Qed.
Print Assumptions C18_action_same_behaviour.

(* non-vacuity: an action with two typed parameters, three preconditions (one simplifier-trivial shape: a top-level And
   that is flattened), and the all-shapes effect list; identity simplifier; both theorems' premises hold *)
Definition ex_action : paction :=
  {| pa_params := [(0%N, 0%N); (1%N, 1%N)];
     pa_pre := [EAnd [EFluent 0 []; ENot (EFluent 2 [EParam 0])]; ELe (EInt 0) (EFluent 1 [EParam 1])];
     pa_effs := ex_effs |}.
Example C18_action_nonvacuous :
  pddl_action_ok (fun x => x) ex_isb ex_action = true
  /\ (exists x, print_action (fun x => x) ex_nm true false ex_action = Some (Some x)
                /\ parse_action (fun x => x) ex_env ex_isb x = Some (norm_action (fun x => x) ex_action))
  /\ pa_pre (norm_action (fun x => x) ex_action)
     = [EAnd [EFluent 0 []; ENot (EFluent 2 [EParam 0]); ELe (EInt 0) (EFluent 1 [EParam 1])]].
Proof.
  split; [vm_compute; reflexivity|]. split; [|vm_compute; reflexivity].
  apply (action_roundtrip (fun x => x) ex_isb ex_nm ex_env (pref_ok "x") (fun f => eq_refl) (pref_ok "b") (fun o => eq_refl)
           (fun o => eq_refl) (pref_ok "p") (pref_ok "v") (fun p v (H : pref_nm "p" p = pref_nm "v" v) => ltac:(discriminate H))
           (pref_ok "t") (fun t => eq_refl) ex_num (fun f => eq_refl) (fun f => eq_refl) (fun o => eq_refl) (fun t => eq_refl)).
  vm_compute. reflexivity.
Qed.
Print Assumptions C18_action_nonvacuous.

(* OPEN: the text layout of the "(:action name :parameters ( ...) :precondition ... :effect ...)" block and its
   character-by-character correspondence (the three groups inside are covered: C18_expr_text_roundtrip,
   C18_effect_text_roundtrip, the parameter tokens). *)
