(* C38 — Writer renamings are valid, injective and invertible.
   Only statements; each is closed by [exact] of a lemma from Proofs/Names_proofs.v.

   The statements are about Model/Names.v instantiated with the tables that tools/gen_keywords.py regenerates from
   the current pddl_writer.py / anml_writer.py (Gen/Gen_Keywords.v); the side conditions on those tables are checked
   by computation each time this file is recompiled.  Every theorem quantifies over ALL finite histories of name
   requests, all item names (Coq strings; ASCII is the claimed scope), and for PDDL over every keyword set [kws]
   the writer can hold (any subset of the declared tables), either value of the "rename a type called object" flag
   (has_hierarchical_typing() or more than one user type) and every set
   [pnames] of names the problem reports through has_name.
   Both writers keep one flat namespace (one dictionary) for all kinds of items, so "share a namespace" is: are
   different dictionary keys.  Items are (class, identity, name) triples; equal triples = equal Python keys. *)
From Coq Require Import List String Ascii Bool NArith.
Import ListNotations.
Require Import UPV.Gen.Gen_Keywords UPV.Model.Names UPV.Proofs.Names_proofs.
Open Scope string_scope.

(* ------------------------------------------------------------------ PDDL *)
(* no history of _get_mangled_name calls makes a loop run out of fuel: every request is answered *)
Theorem C38_pddl_every_request_answered :
  forall kws hier pnames reqs, exists ns st, pddl_run (pddl_cfg kws) hier pnames reqs = Some (ns, st).
Proof. exact pddl_final_total. Qed.
Print Assumptions C38_pddl_every_request_answered.

(* valid identifier: [a-zA-Z][a-zA-Z0-9_-]* (with a leading "?" for parameters and variables), and no upper case *)
Theorem C38_pddl_names_are_identifiers :
  forall kws hier pnames reqs ns st it n,
    pddl_run (pddl_cfg kws) hier pnames reqs = Some (ns, st) ->
    get_pddl_name st it = Some n ->
    pddl_ident_for it n = true /\ no_upper n = true.
Proof. exact pddl_final_valid. Qed.
Print Assumptions C38_pddl_names_are_identifiers.

Theorem C38_pddl_names_never_keywords :
  forall kws hier pnames reqs ns st it n,
    incl kws pddl_all_keywords ->
    pddl_run (pddl_cfg kws) hier pnames reqs = Some (ns, st) ->
    get_pddl_name st it = Some n -> ~ In n kws.
Proof. exact pddl_final_not_keyword. Qed.
Print Assumptions C38_pddl_names_never_keywords.

Theorem C38_pddl_distinct_items_distinct_names :
  forall kws hier pnames reqs ns st a b n,
    pddl_run (pddl_cfg kws) hier pnames reqs = Some (ns, st) ->
    get_pddl_name st a = Some n -> get_pddl_name st b = Some n -> a = b.
Proof. exact pddl_final_injective. Qed.
Print Assumptions C38_pddl_distinct_items_distinct_names.

(* PDDL is case-insensitive: the names also differ when case is ignored *)
Theorem C38_pddl_distinct_names_ignoring_case :
  forall kws hier pnames reqs ns st a b n1 n2,
    pddl_run (pddl_cfg kws) hier pnames reqs = Some (ns, st) ->
    get_pddl_name st a = Some n1 -> get_pddl_name st b = Some n2 -> lower n1 = lower n2 -> a = b.
Proof. exact pddl_final_injective_nocase. Qed.
Print Assumptions C38_pddl_distinct_names_ignoring_case.

(* get_pddl_name and get_item_named are mutually inverse (None = UPException) *)
Theorem C38_pddl_lookups_inverse :
  forall kws hier pnames reqs ns st it n,
    pddl_run (pddl_cfg kws) hier pnames reqs = Some (ns, st) ->
    (get_pddl_name st it = Some n <-> get_item_named st n = Some it).
Proof. exact pddl_final_inverse. Qed.
Print Assumptions C38_pddl_lookups_inverse.

(* the name returned at request time is the name the item still has at the end of the history *)
Theorem C38_pddl_answers_are_final_bindings :
  forall kws hier pnames reqs ns st,
    pddl_run (pddl_cfg kws) hier pnames reqs = Some (ns, st) ->
    Forall2 (fun it n => get_pddl_name st it = Some n) reqs ns.
Proof. exact pddl_final_answers. Qed.
Print Assumptions C38_pddl_answers_are_final_bindings.

(* a renamed item never receives a name that some element of the problem carries *)
Theorem C38_pddl_renamed_avoid_problem_names :
  forall kws hier pnames reqs ns st it n,
    pddl_run (pddl_cfg kws) hier pnames reqs = Some (ns, st) ->
    get_pddl_name st it = Some n -> n <> it_name it -> ~ In n pnames.
Proof. exact pddl_final_fresh. Qed.
Print Assumptions C38_pddl_renamed_avoid_problem_names.

(* _get_pddl_name alone (used for the domain / problem name): total, identifier, never a keyword *)
Theorem C38_pddl_get_pddl_name_valid :
  forall kws it, exists n, pddl_name (pddl_cfg kws) it = Some n /\ pddl_ident_for it n = true /\ no_upper n = true
    /\ (incl kws pddl_all_keywords -> ~ In n kws).
Proof. exact pddl_final_name. Qed.
Print Assumptions C38_pddl_get_pddl_name_valid.

(* which tables a writer holds: PDDLWriter.__init__ adds each table under a condition on the problem's features
   (rules regenerated from the source).  For EVERY combination of features the resulting set stays within the declared
   tables (so the theorems above apply to it) and contains every word that the hand-pinned specification
   [pddl_reserved_spec] reserves for a problem with those features (e.g. process/event as soon as the problem has
   processes OR events) *)
Theorem C38_pddl_writer_keywords_within_tables :
  forall has, incl (pddl_writer_kws has) pddl_all_keywords.
Proof. exact pddl_writer_kws_incl. Qed.
Print Assumptions C38_pddl_writer_keywords_within_tables.

Theorem C38_pddl_reserved_words_covered :
  forall has, incl (pddl_reserved_spec has) (pddl_writer_kws has).
Proof. exact pddl_reserved_covered. Qed.
Print Assumptions C38_pddl_reserved_words_covered.

Theorem C38_pddl_names_never_reserved_words :
  forall has hier pnames reqs ns st it n,
    pddl_run (pddl_cfg (pddl_writer_kws has)) hier pnames reqs = Some (ns, st) ->
    get_pddl_name st it = Some n -> ~ In n (pddl_reserved_spec has).
Proof. exact pddl_final_not_reserved. Qed.
Print Assumptions C38_pddl_names_never_reserved_words.

(* ------------------------------------------------------------------ ANML *)
Definition anml_writer_run := anml_run anml_vcfg anml_cfg anml_builtin_names.

(* pre-fill steps and _get_anml_name calls in ANY order; requests for bounded int/real types (rendered ranges, not
   named elements) are outside the model *)
Theorem C38_anml_every_request_answered :
  forall ops, Forall aop_named ops -> exists ns m, anml_writer_run ops = Some (ns, m).
Proof. exact anml_final_total. Qed.
Print Assumptions C38_anml_every_request_answered.

(* valid identifier [a-zA-Z][a-zA-Z0-9_]* and not a keyword, for every entry except the three built-in types *)
Theorem C38_anml_names_are_identifiers_not_keywords :
  forall ops ns m it n,
    anml_writer_run ops = Some (ns, m) -> lookup_otn it m = Some n -> ~ In it builtin_items ->
    anml_ident n = true /\ ~ In n anml_keywords.
Proof. exact anml_final_valid. Qed.
Print Assumptions C38_anml_names_are_identifiers_not_keywords.

Theorem C38_anml_distinct_items_distinct_names :
  forall ops ns m a b n,
    anml_writer_run ops = Some (ns, m) -> lookup_otn a m = Some n -> lookup_otn b m = Some n -> a = b.
Proof. exact anml_final_injective. Qed.
Print Assumptions C38_anml_distinct_items_distinct_names.

(* the ANML writer has no name->item method; [anml_item_named] is the inverse relation of names_mapping *)
Theorem C38_anml_mapping_invertible :
  forall ops ns m it n,
    anml_writer_run ops = Some (ns, m) -> (lookup_otn it m = Some n <-> anml_item_named n m = Some it).
Proof. exact anml_final_inverse. Qed.
Print Assumptions C38_anml_mapping_invertible.

(* _is_valid_anml_name decides exactly "identifier and not keyword" (finding 36 was: only a prefix was tested) *)
Theorem C38_anml_is_valid_decides_identifier :
  forall s, anml_is_valid anml_vcfg anml_keywords s = anml_ident s && negb (mem_str s anml_keywords).
Proof. exact anml_final_is_valid. Qed.
Print Assumptions C38_anml_is_valid_decides_identifier.

(* the writer's own order (all pre-fill loops, then requests): each answer is the final binding and no binding made
   earlier changes *)
Theorem C38_anml_answers_are_final_bindings :
  forall pre reqs ns1 m1 ns m,
    anml_writer_run (map APre pre) = Some (ns1, m1) ->
    anml_run_from anml_vcfg anml_cfg m1 (map AReq reqs) = Some (ns, m) ->
    ainv anml_cfg anml_builtin_names m
    /\ ns = map (fun it => lookup_otn it m) reqs
    /\ (forall k x, lookup_otn k m1 = Some x -> lookup_otn k m = Some x).
Proof. exact anml_final_writer. Qed.
Print Assumptions C38_anml_answers_are_final_bindings.

(* `assert _is_valid_anml_name(new_name)` in _get_anml_name can never fail, and the fresh name is unused *)
Theorem C38_anml_fresh_name_assertion_holds :
  forall ops ns m it n m',
    anml_writer_run ops = Some (ns, m) -> lookup_otn it m = None ->
    anml_get_name anml_cfg m it = Some (n, m') ->
    anml_is_valid anml_vcfg anml_keywords n = true /\ ~ In n (values m).
Proof. exact anml_final_assert. Qed.
Print Assumptions C38_anml_fresh_name_assertion_holds.

(* ------------------------------------------------------------------ non-vacuity: concrete adversarial histories *)
Definition O (i : N) (s : string) := mk_item "Object" i s.

(* case variants, a keyword, a leading digit, a symbol, and a name equal to another name's mangled form *)
Example C38_pddl_nonvacuous :
  pddl_run (pddl_cfg pddl_general_keywords) false ["A"; "a"; "and"; "1x"; "o_1x"; "x y"; "x_y"]
           [O 0 "A"; O 1 "a"; O 2 "and"; O 3 "1x"; O 4 "o_1x"; O 5 "x y"; O 6 "x_y"; mk_item "Parameter" 7 "x_y"; O 0 "A"]
  = Some (["a_0"; "a"; "and_"; "o_1x_0"; "o_1x"; "x_y_0"; "x_y"; "?x_y"; "a_0"],
          mk_pstate [(O 0 "A", "a_0"); (O 1 "a", "a"); (O 2 "and", "and_"); (O 3 "1x", "o_1x_0"); (O 4 "o_1x", "o_1x");
                     (O 5 "x y", "x_y_0"); (O 6 "x_y", "x_y"); (mk_item "Parameter" 7 "x_y", "?x_y")]
                    [("a_0", O 0 "A"); ("a", O 1 "a"); ("and_", O 2 "and"); ("o_1x_0", O 3 "1x"); ("o_1x", O 4 "o_1x");
                     ("x_y_0", O 5 "x y"); ("x_y", O 6 "x_y"); ("?x_y", mk_item "Parameter" 7 "x_y")]).
Proof. vm_compute. reflexivity. Qed.

Example C38_anml_nonvacuous :
  exists m,
    anml_writer_run [APre (O 0 "a b"); APre (O 1 "a_b"); APre (O 2 "and"); APre (O 3 "x"); APre (mk_item "Fluent" 4 "x");
                     AReq (O 0 "a b"); AReq (O 2 "and"); AReq (mk_item "Fluent" 4 "x"); AReq (mk_item "Parameter" 5 "1")]
    = Some ([None; None; None; None; None; Some "a_b_0"; Some "and_"; Some "x_0"; Some "p_1"], m)
    /\ Forall aop_named [AReq (O 0 "a b")].
Proof. eexists. split; [vm_compute; reflexivity|]. repeat constructor. Qed.

(* sensitivity: with the unanchored test (re.match, the code before the repair of finding 36) the object name "a b" is
   kept unchanged, so the validity theorem is false of that model *)
Example C38_anml_prefix_match_refuted :
  exists ops ns m it n,
    anml_run (mk_vcfg anml_valid_first_class anml_valid_rest_class false) anml_cfg anml_builtin_names ops = Some (ns, m)
    /\ lookup_otn it m = Some n /\ ~ In it builtin_items /\ anml_ident n = false.
Proof.
  exists [APre (O 0 "a b")], [None], (anml_init anml_builtin_names ++ [(O 0 "a b", "a b")])%list, (O 0 "a b"), "a b".
  split; [vm_compute; reflexivity|]. split; [vm_compute; reflexivity|]. split; [|vm_compute; reflexivity].
  simpl. intuition discriminate.
Qed.
