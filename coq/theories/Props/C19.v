(* C19 — ANML write/read round trip preserves problem semantics (validated property).

   The ANML printer, grammar and parser are not modelled.  Proved here, for all inputs: soundness of the two decision
   procedures that the harness runs on the real ANMLWriter/ANMLReader output —
   [bisim_check] for the classical/numeric part (objects, initial state, applicability, successors, goals; see C18) and
   [temporal_structure_eqb] for the temporal part: when it accepts the temporal structures of the original and the
   re-read problem (serialised under the writer's renaming, parameters numbered by position) then every durative action
   of one has a counterpart in the other with the same parameter types, the same duration bounds (expressions and
   open/closed flags) and the same sets of timed conditions and timed effects, and the timed initial effects and timed
   goals coincide as sets. *)
From Coq Require Import List ZArith NArith QArith Qcanon Bool.
Import ListNotations.
Require Import UPV.Core.Expr UPV.Core.Eval UPV.Core.Interp UPV.Planning.Problem UPV.Planning.Sem UPV.Planning.SeqValidate.
Require Import UPV.Proofs.Step_proofs UPV.Compilers.BisimCheck UPV.Proofs.BisimCheck_proofs.

Theorem C19_bisim_check_correct :
  forall P Q MP MQ sigsP sigsQ l0P l0Q n cap,
    bisim_check P Q MP MQ sigsP sigsQ l0P l0Q n cap = BClosed ->
    forall plan, Forall (fun i => In i (all_insts P sigsP)) plan ->
      ostate_eq (run P (spec_step false P) (st_of l0P) plan) (run Q (spec_step false Q) (st_of l0Q) plan) /\
      valid_plan false P (st_of l0P) plan = valid_plan false Q (st_of l0Q) plan.
Proof. exact bisim_check_closed_sound_runs. Qed.
Print Assumptions C19_bisim_check_correct.

Theorem C19_bisim_check_correct_bounded :
  forall P Q MP MQ sigsP sigsQ l0P l0Q n cap b,
    bisim_check P Q MP MQ sigsP sigsQ l0P l0Q n cap = BBounded b ->
    forall plan, (length plan <= b)%nat -> Forall (fun i => In i (all_insts P sigsP)) plan ->
      ostate_eq (run P (spec_step false P) (st_of l0P) plan) (run Q (spec_step false Q) (st_of l0Q) plan) /\
      valid_plan false P (st_of l0P) plan = valid_plan false Q (st_of l0Q) plan.
Proof. exact bisim_check_bounded_sound_runs. Qed.
Print Assumptions C19_bisim_check_correct_bounded.

Theorem C19_bisim_check_static :
  forall P Q MP MQ sigsP sigsQ l0P l0Q n cap,
    (forall w tr i, bisim_check P Q MP MQ sigsP sigsQ l0P l0Q n cap <> BFail w tr i) ->
    (forall t o, In o (objs_of P t) <-> In o (objs_of Q t)) /\
    (forall i, In i (all_insts P sigsP) <-> In i (all_insts Q sigsP)) /\
    state_eq (st_of l0P) (st_of l0Q).
Proof. exact bisim_check_static_objects. Qed.
Print Assumptions C19_bisim_check_static.

(* structural equality of the temporal part => equal fields *)
Theorem C19_temporal_structure_eqb_sound :
  forall a b, temporal_structure_eqb a b = true ->
    (forall aid x, lookupN aid (ts_actions a) = Some x ->
       exists y, lookupN aid (ts_actions b) = Some y /\
         da_sig x = da_sig y /\ da_dlo x = da_dlo y /\ da_dhi x = da_dhi y /\
         da_dlopen x = da_dlopen y /\ da_dropen x = da_dropen y /\
         (forall c, In c (da_conds x) <-> In c (da_conds y)) /\
         (forall e, In e (da_effs x) <-> In e (da_effs y))) /\
    (forall aid y, lookupN aid (ts_actions b) = Some y ->
       exists x, lookupN aid (ts_actions a) = Some x /\
         da_sig y = da_sig x /\ da_dlo y = da_dlo x /\ da_dhi y = da_dhi x /\
         da_dlopen y = da_dlopen x /\ da_dropen y = da_dropen x /\
         (forall c, In c (da_conds y) <-> In c (da_conds x)) /\
         (forall e, In e (da_effs y) <-> In e (da_effs x))) /\
    (forall e, In e (ts_teffs a) <-> In e (ts_teffs b)) /\
    (forall g, In g (ts_tgoals a) <-> In g (ts_tgoals b)).
Proof. exact temporal_structure_eqb_sound. Qed.
Print Assumptions C19_temporal_structure_eqb_sound.

(* ---------------------------------------------------------------- non-vacuity *)
Definition ex_tm (k : N) (d : Z) : timing := {| tm_kind := k; tm_delay := zq d |}.
Definition ex_eff (v : bool) : effect :=
  {| e_fl := 0%N; e_args := [EParam 0%N]; e_val := EBool v; e_cond := EBool true; e_kind := KAssign; e_vars := []; e_isbool := true |}.
Definition ex_da (flip : bool) : daction :=
  let c1 := ({| ti_lo := ex_tm 2 0; ti_hi := ex_tm 3 0; ti_lopen := false; ti_ropen := true |}, EFluent 1%N []) in
  let c2 := ({| ti_lo := ex_tm 2 1; ti_hi := ex_tm 2 1; ti_lopen := false; ti_ropen := false |}, ENot (EFluent 0%N [EParam 0%N])) in
  {| da_sig := [0%N]; da_dlo := EInt 2; da_dhi := EPlus [EFluent 2%N []; EInt 1]; da_dlopen := true; da_dropen := false;
     da_conds := if flip then [c2; c1] else [c1; c2];
     da_effs := [(ex_tm 2 0, ex_eff false); (ex_tm 3 (-1), ex_eff true)] |}.
Definition ex_ts (flip : bool) : tstruct :=
  {| ts_actions := [(4%N, ex_da flip)]; ts_teffs := [(ex_tm 0 5, ex_eff true)];
     ts_tgoals := [({| ti_lo := ex_tm 0 1; ti_hi := ex_tm 0 4; ti_lopen := false; ti_ropen := false |}, EFluent 1%N [])] |}.

Example C19_temporal_structure_eqb_sound_nonvacuous : temporal_structure_eqb (ex_ts false) (ex_ts true) = true.
Proof. vm_compute. reflexivity. Qed.

(* a lost open-interval flag, a changed delay or a dropped timed effect is rejected *)
Example C19_temporal_structure_eqb_rejects :
  temporal_structure_eqb (ex_ts false)
    {| ts_actions := [(4%N, {| da_sig := [0%N]; da_dlo := EInt 2; da_dhi := EPlus [EFluent 2%N []; EInt 1];
                              da_dlopen := false; da_dropen := false;
                              da_conds := da_conds (ex_da false); da_effs := da_effs (ex_da false) |})];
       ts_teffs := ts_teffs (ex_ts false); ts_tgoals := ts_tgoals (ex_ts false) |} = false /\
  temporal_structure_eqb (ex_ts false)
    {| ts_actions := ts_actions (ex_ts false); ts_teffs := []; ts_tgoals := ts_tgoals (ex_ts false) |} = false.
Proof. vm_compute. split; reflexivity. Qed.

Definition ex_P : problem :=
  {| p_objs := [(0%N, [0%N])]; p_ifun := [];
     p_fluents := [{| fd_id := 0%N; fd_sig := [0%N]; fd_ty := FBool |}; {| fd_id := 1%N; fd_sig := []; fd_ty := FNum (Some (zq 0)) (Some (zq 2)) |}];
     p_actions := [(0%N, {| a_params := [0%N]; a_pre := [];
                            a_effs := [{| e_fl := 1%N; e_args := []; e_val := EInt 1; e_cond := EBool true;
                                          e_kind := KInc; e_vars := []; e_isbool := false |}] |})];
     p_goals := [ELe (EInt 2) (EFluent 1%N [])]; p_invs := [] |}.
Definition ex_init : fstate := [(0%N, [VObj 0%N], VBool false); (1%N, [], VNum (zq 0))].
Definition ex_M : qmetric := {| qm_max := false; qm_m := MNone |}.

Example C19_bisim_check_correct_nonvacuous :
  bisim_check ex_P ex_P ex_M ex_M [(0%N, [0%N])] [(0%N, [0%N])] ex_init ex_init 6 100 = BClosed.
Proof. vm_compute. reflexivity. Qed.
Example C19_bisim_check_correct_bounded_nonvacuous :
  bisim_check ex_P ex_P ex_M ex_M [(0%N, [0%N])] [(0%N, [0%N])] ex_init ex_init 1 100 = BBounded 1.
Proof. vm_compute. reflexivity. Qed.
Example C19_bisim_check_static_nonvacuous :
  forall w tr i, bisim_check ex_P ex_P ex_M ex_M [(0%N, [0%N])] [(0%N, [0%N])] ex_init ex_init 6 100 <> BFail w tr i.
Proof. intros. vm_compute. discriminate. Qed.
